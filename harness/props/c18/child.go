package c18

import (
	"bytes"
	"context"
	"crypto/sha256"
	"encoding/binary"
	"encoding/hex"
	"encoding/json"
	"errors"
	"fmt"
	"hash/crc32"
	"os"
	"os/user"
	"regexp"
	"sort"
	"strconv"
	"strings"
	"sync"
	"sync/atomic"
	"syscall"
	"time"

	"github.com/tetratelabs/wazero"
	"github.com/tetratelabs/wazero/api"
	"github.com/tetratelabs/wazero/imports/wasi_snapshot_preview1"
	"github.com/tetratelabs/wazero/sys"
	"github.com/tetratelabs/wazero/verifharness/wasiproxy"
)

// ---------------------------------------------------------------------------
// case / result types shared by parent and child

type scriptCase struct {
	ID     int     `json:"id"`
	Seed   uint64  `json:"seed"`
	N      int     `json:"n"`
	Calls  []wcall `json:"calls,omitempty"` // explicit script (minimisation); otherwise genScript(Seed, N)
	Stats  bool    `json:"stats,omitempty"`
	Detail bool    `json:"detail,omitempty"` // return the full reference trace
	Probe  string  `json:"probe,omitempty"`  // "sleep": the real-sleep probe instead of a script
}

type finding struct {
	Sig    string `json:"sig"`
	Detail string `json:"detail"`
	Call   int    `json:"call"` // index in the script, -1 if not tied to one
	Where  string `json:"where"`
	Got    any    `json:"got,omitempty"`
	Want   any    `json:"want,omitempty"`
}

type timeCand struct {
	Call    int    `json:"call"`
	Scaling string `json:"scaling"`
	Off     uint32 `json:"off"`
	Where   string `json:"where"`
}

type chg struct {
	Off  uint32   `json:"off"`
	Data hexBytes `json:"data"`
	mod  []bool   // which bytes of Data really changed (merged ranges contain up to 8 unchanged bytes between changed ones)
}

// rec is what the trace holds for one call.
type rec struct {
	Fn      string     `json:"fn"`
	Ret     string     `json:"ret"`               // errno=N | exit(N) | panic:<class> | error:<class>
	Outs    []hexBytes `json:"outs"`              // every declared output region, in full
	Changed []chg      `json:"changed,omitempty"` // every byte range of guest memory the call changed
	Mem     string     `json:"mem"`               // digest of the whole guest memory after the call
}

type scriptOut struct {
	ID        int            `json:"id"`
	Sha       string         `json:"sha"`   // sha256 of the reference trace (interpreter, first instance)
	Chain     string         `json:"chain"` // 8 hex digits per call: running hash, to locate the first difference
	N         int            `json:"n"`     // calls executed in the reference trace
	Traces    int            `json:"traces"`
	Findings  []finding      `json:"findings,omitempty"`
	TimeCands []timeCand     `json:"time_cands,omitempty"`
	Stats     map[string]int `json:"stats,omitempty"` // "fn ret" -> count (reference trace)
	ScanBytes int64          `json:"scan_bytes"`
	Needles   int            `json:"needles"`
	Skipped   []string       `json:"skipped,omitempty"`
	Asserts   map[string]int `json:"asserts,omitempty"`
	Plan      string         `json:"plan"`
	GaveUp    string         `json:"gave_up,omitempty"`
	Ctx       map[string]int `json:"ctx,omitempty"`     // context flavour -> traces recorded under it
	Inconcl   []string       `json:"inconcl,omitempty"` // undecided probes
	Reuse     string         `json:"reuse,omitempty"`   // config reuse mode of this script in this process
	Shapes    map[string]int `json:"shapes,omitempty"`  // call shape -> calls of the reference trace
	SlowCalls int            `json:"slow_calls,omitempty"`
	Detail    []rec          `json:"detail,omitempty"`
	Probe     map[string]any `json:"probe,omitempty"`
	Host      map[string]any `json:"host,omitempty"`
}

// ---------------------------------------------------------------------------
// per-process state

type engineEnv struct {
	name  string
	rt    wazero.Runtime
	guest wazero.CompiledModule
	// a second, independent runtime of the same engine (for the third instance of some plans)
	rt2    wazero.Runtime
	guest2 wazero.CompiledModule
}

type needle struct {
	Kind string
	B    []byte
}

type procEnv struct {
	ctx     context.Context
	sigs    []wasiproxy.Sig
	sigIdx  map[string]*wasiproxy.Sig
	engines []*engineEnv
	needles []needle
	skipped []string
	variant int
	start   time.Time
	host    map[string]any
	insts   int
	hostErr string

	sharedCfg    wazero.ModuleConfig // reuse mode "process-shared-value": one untouched default config for the whole process
	nameSeq      int
	grace        *time.Timer
	slowCalls    int
	blockedCalls int
}

var (
	penvOnce sync.Once
	penv     *procEnv
)

const canaryMarker = "Qz7C18canaryMark" // part of every value the parent plants

func getProc() *procEnv {
	penvOnce.Do(func() {
		p := &procEnv{ctx: context.Background(), start: time.Now(), sigIdx: map[string]*wasiproxy.Sig{}}
		p.sigs = wasiproxy.Signatures()
		for i := range p.sigs {
			p.sigIdx[p.sigs[i].Name] = &p.sigs[i]
		}
		bin := buildGuest(p.sigs)
		for _, e := range []string{"interpreter", "compiler"} {
			var cfg wazero.RuntimeConfig
			if e == "interpreter" {
				cfg = wazero.NewRuntimeConfigInterpreter()
			} else {
				cfg = wazero.NewRuntimeConfigCompiler()
			}
			ee, err := newEngine(p.ctx, e, cfg, bin)
			if err != nil {
				if e == "compiler" {
					continue // unsupported platform: parent counts it as inconclusive
				}
				panic(err)
			}
			p.engines = append(p.engines, ee)
		}
		p.variant, _ = strconv.Atoi(os.Getenv("VERIF_C18_VARIANT"))
		if h := os.Getenv("VERIF_C18_SETHOSTNAME"); h != "" {
			// the parent started this process in its own UTS namespace
			if err := syscall.Sethostname([]byte(h)); err != nil {
				p.hostErr = err.Error()
			}
		}
		p.collectNeedles()
		penv = p
	})
	return penv
}

func newEngine(ctx context.Context, name string, cfg wazero.RuntimeConfig, bin []byte) (ee *engineEnv, err error) {
	defer func() {
		if r := recover(); r != nil {
			err = fmt.Errorf("%v", r)
		}
	}()
	rt := wazero.NewRuntimeWithConfig(ctx, cfg)
	if _, err = wasi_snapshot_preview1.Instantiate(ctx, rt); err != nil {
		return nil, err
	}
	g, err := rt.CompileModule(ctx, bin)
	if err != nil {
		return nil, err
	}
	rt2 := wazero.NewRuntimeWithConfig(ctx, cfg)
	if _, err = wasi_snapshot_preview1.Instantiate(ctx, rt2); err != nil {
		return nil, err
	}
	g2, err := rt2.CompileModule(ctx, bin)
	if err != nil {
		return nil, err
	}
	return &engineEnv{name: name, rt: rt, guest: g, rt2: rt2, guest2: g2}, nil
}

// collectNeedles gathers everything of this process' host environment that
// must never be visible to the guest.
func (p *procEnv) collectNeedles() {
	seen := map[string]bool{}
	add := func(kind string, b string) {
		if len(b) < 4 {
			if b != "" {
				p.skipped = append(p.skipped, kind+" (len "+strconv.Itoa(len(b))+")")
			}
			return
		}
		if seen[b] {
			return
		}
		seen[b] = true
		p.needles = append(p.needles, needle{Kind: kind, B: []byte(b)})
	}
	add("canary-marker", canaryMarker)
	add("env-name-prefix", "VERIF_CANARY")
	host := map[string]any{}
	if p.hostErr != "" {
		host["sethostname_error"] = p.hostErr
	}
	if h, err := os.Hostname(); err == nil {
		add("hostname", h)
		host["hostname_len"] = len(h)
	}
	if u, err := user.Current(); err == nil {
		add("user-name", u.Username)
		if u.HomeDir != "" {
			add("user-home", u.HomeDir)
		}
		host["user_len"] = len(u.Username)
	}
	add("pid-ascii", strconv.Itoa(os.Getpid()))
	add("ppid-ascii", strconv.Itoa(os.Getppid()))
	if wd, err := os.Getwd(); err == nil {
		add("cwd", wd)
		host["cwd"] = wd
	}
	if exe, err := os.Executable(); err == nil {
		add("exe-path", exe)
	}
	nenv := 0
	for _, kv := range os.Environ() {
		i := strings.IndexByte(kv, '=')
		if i <= 0 {
			continue
		}
		k, v := kv[:i], kv[i+1:]
		if len(v) >= 6 {
			add("env-value:"+k, v)
			nenv++
		}
		if strings.HasPrefix(k, "VERIF_CANARY") {
			host["canary_env_vars"] = intOf(host["canary_env_vars"]) + 1
		}
	}
	host["env_values_scanned"] = nenv
	for i, a := range os.Args {
		if i >= 7 { // child <prop> <mode> <in> <out> <journal> are the supervisor's own
			add("argv", a)
			host["extra_argv"] = intOf(host["extra_argv"]) + 1
		}
	}
	if st, err := os.Stdin.Stat(); err == nil {
		host["stdin_mode"] = st.Mode().String()
		host["stdin_size"] = st.Size()
	}
	host["pid_digits"] = len(strconv.Itoa(os.Getpid()))
	host["tz"] = os.Getenv("TZ")
	host["variant"] = p.variant
	host["start_unix_s"] = p.start.Unix() // evidence only; never part of a verdict
	host["race"] = raceEnabled
	p.host = host
	sort.SliceStable(p.needles, func(i, j int) bool { return len(p.needles[i].B) > len(p.needles[j].B) })
}

func intOf(v any) int {
	if i, ok := v.(int); ok {
		return i
	}
	return 0
}

// ---------------------------------------------------------------------------
// context flavours: the context the embedder calls the guest with must not
// matter to a default-configuration guest

// reuseModes: how the default-valued ModuleConfig of an instance comes about.
var reuseModes = []string{"fresh-per-instance", "process-shared-value-sequential", "derived-before-any-instantiation",
	"derived-after-earlier-instantiations", "same-value-alive-at-once"}

type ctxKey struct{}

type ctxFlavour struct {
	name string
	mk   func() (context.Context, context.CancelFunc)
}

var flavours = []ctxFlavour{
	{"background", func() (context.Context, context.CancelFunc) { return context.Background(), func() {} }},
	{"value-only", func() (context.Context, context.CancelFunc) {
		return context.WithValue(context.Background(), ctxKey{}, "c18"), func() {}
	}},
	{"with-cancel", func() (context.Context, context.CancelFunc) { return context.WithCancel(context.Background()) }},
	{"with-timeout-1h", func() (context.Context, context.CancelFunc) {
		return context.WithTimeout(context.Background(), time.Hour)
	}},
	{"with-deadline-far", func() (context.Context, context.CancelFunc) {
		return context.WithDeadline(context.Background(), time.Now().AddDate(50, 0, 0)) // only "far away"; never read back
	}},
	{"value(with-cancel)", func() (context.Context, context.CancelFunc) {
		c, cancel := context.WithCancel(context.Background())
		return context.WithValue(c, ctxKey{}, "c18"), cancel
	}},
}

// ---------------------------------------------------------------------------
// one guest instance under the default configuration

type inst struct {
	p        *procEnv
	eng      *engineEnv
	ctx      context.Context // the context the guest's functions are called with
	flavour  string
	label    string
	mod      api.Module
	shadow   []byte
	closedFD [3]bool
	fdDirty  bool // an fd_renumber succeeded: the fd model is off
	exited   bool
	blocked  bool // a call never returned: the instance still runs it, hands off
}

func (in *inst) close() {
	if !in.blocked {
		in.mod.Close(in.p.ctx)
	}
}

func (p *procEnv) newInst(e *engineEnv, label string, second ...bool) (*inst, error) {
	// The configuration under test: untouched default (the empty name only lets
	// several instances coexist in one runtime).
	return p.newInstCfg(e, label, wazero.NewModuleConfig().WithName(""), len(second) > 0 && second[0])
}

// newInstCfg instantiates the guest with the given default-valued configuration
// (how the value came about is the "config reuse" dimension, see runScript).
func (p *procEnv) newInstCfg(e *engineEnv, label string, cfg wazero.ModuleConfig, second bool) (*inst, error) {
	rt, guest := e.rt, e.guest
	if second {
		rt, guest = e.rt2, e.guest2
	}
	mod, err := rt.InstantiateModule(p.ctx, guest, cfg)
	if err != nil {
		return nil, err
	}
	p.insts++
	return &inst{p: p, eng: e, ctx: p.ctx, flavour: "background", label: label, mod: mod, shadow: make([]byte, memSize)}, nil
}

var (
	crcC   = crc32.MakeTable(crc32.Castagnoli)
	reHex  = regexp.MustCompile(`0x[0-9a-fA-F]+`)
	reNum  = regexp.MustCompile(`[0-9]{5,}`)
	reLine = regexp.MustCompile(`:[0-9]+`)
)

func errClass(err error) string {
	var ee *sys.ExitError
	if errors.As(err, &ee) {
		return fmt.Sprintf("exit(%d)", ee.ExitCode())
	}
	s := err.Error()
	if i := strings.IndexByte(s, '\n'); i >= 0 {
		s = s[:i]
	}
	kind := "error:"
	if strings.Contains(err.Error(), "recovered by wazero") {
		kind = "panic:"
	}
	s = reHex.ReplaceAllString(s, "0x?")
	s = reNum.ReplaceAllString(s, "?")
	s = reLine.ReplaceAllString(s, ":?")
	if len(s) > 120 {
		s = s[:120]
	}
	return kind + s
}

type callCtx struct {
	so      *scriptOut
	scan    bool
	scanned map[[32]byte]bool
}

func (cc *callCtx) find(sig, detail string, call int, where string, got, want any) {
	for _, f := range cc.so.Findings {
		if f.Sig == sig {
			return
		}
	}
	if len(cc.so.Findings) < 12 {
		cc.so.Findings = append(cc.so.Findings, finding{Sig: sig, Detail: detail, Call: call, Where: where, Got: got, Want: want})
	}
}

// findN is find with its own cap (the probe reports one finding per flavour and shape).
func (cc *callCtx) findN(max int, sig, detail string, call int, where string, got, want any) {
	for _, f := range cc.so.Findings {
		if f.Sig == sig {
			return
		}
	}
	if len(cc.so.Findings) < max {
		cc.so.Findings = append(cc.so.Findings, finding{Sig: sig, Detail: detail, Call: call, Where: where, Got: got, Want: want})
	}
}

func (cc *callCtx) assert(name string) {
	if cc.so.Asserts == nil {
		cc.so.Asserts = map[string]int{}
	}
	cc.so.Asserts[name]++
}

func fnTag(c *wcall) string {
	if c.Note != "" {
		return c.Fn + "(" + c.Note + ")"
	}
	return c.Fn
}

// run executes call k of the script on this instance and returns its trace record.
func (in *inst) run(cc *callCtx, k int, c *wcall) rec {
	mem, ok := in.mod.Memory().Read(0, memSize)
	if !ok || in.mod.Memory().Size() != memSize {
		return rec{Fn: c.Fn, Ret: "harness:memory-size-changed"}
	}
	for _, w := range c.In {
		if uint64(w.Off)+uint64(len(w.Data)) <= memSize {
			copy(mem[w.Off:], w.Data)
			copy(in.shadow[w.Off:], w.Data)
		}
	}
	r := rec{Fn: c.Fn}
	res, err, blocked := in.callGuarded(c)
	switch {
	case blocked:
		// Differential watchdog (see callGuarded): under the default configuration
		// nothing can block (stdin is empty, sleeping is faked, no sockets).
		in.exited, in.blocked = true, true
		r.Ret = "blocked"
		cc.find(fnTag(c)+":blocks-under-default-config",
			fmt.Sprintf("%s did not return although %d control calls on a fresh instance of the same engine completed meanwhile", c.Fn, controlRounds),
			k, in.label, nil, "the call returns (no real sleep, stdin at EOF, no sockets)")
		return r
	case err != nil:
		r.Ret = errClass(err)
		if strings.HasPrefix(r.Ret, "exit(") {
			in.exited = true
		}
	case len(res) == 1:
		r.Ret = "errno=" + strconv.FormatUint(res[0]&0xffffffff, 10)
	default:
		r.Ret = "void"
	}
	mem, ok = in.mod.Memory().Read(0, memSize)
	if !ok {
		r.Ret += "+harness:memory-gone"
		return r
	}
	// what did the call change?
	r.Changed = diffRanges(in.shadow, mem)
	for _, ch := range r.Changed {
		copy(in.shadow[ch.Off:], ch.Data)
	}
	for _, o := range c.Out {
		r.Outs = append(r.Outs, append([]byte(nil), mem[o.Off:o.Off+o.Len]...))
	}
	var d [8]byte
	binary.LittleEndian.PutUint32(d[:], crc32.Checksum(mem, crcC))
	binary.LittleEndian.PutUint32(d[4:], crc32.ChecksumIEEE(mem))
	r.Mem = hex.EncodeToString(d[:])

	where := in.label
	if cc.scan {
		in.scanCall(cc, k, c, &r, where)
	}
	in.directAsserts(cc, k, c, &r, where)
	return r
}

const controlRounds = 1000

// callGuarded makes the call in its own goroutine. If it has not returned
// after a grace period, a control (sched_yield on a fresh instance of the same
// engine) is run up to controlRounds paced rounds; the call counts as blocked
// only if it still has not returned after all of them. The verdict is the
// logical fact "control completed N times, subject not once"; the wall clock
// only paces the rounds. A blocked call keeps its goroutine and instance
// forever, so the process gives up after two of them (see runScript).
func (in *inst) callGuarded(c *wcall) (res []uint64, err error, blocked bool) {
	done := make(chan struct{})
	fn := in.mod.ExportedFunction(exportName(c.Fn, c.Shape))
	go func() {
		defer close(done)
		res, err = fn.Call(in.ctx, c.Args...)
	}()
	if in.p.grace == nil {
		in.p.grace = time.NewTimer(time.Hour)
	}
	t := in.p.grace
	if !t.Stop() {
		select {
		case <-t.C:
		default:
		}
	}
	t.Reset(2 * time.Second)
	select {
	case <-done:
		return res, err, false
	case <-t.C:
	}
	ctl, cerr := in.p.newInst(in.eng, "control")
	if cerr != nil {
		<-done
		return res, err, false
	}
	defer ctl.mod.Close(in.p.ctx)
	for i := 0; i < controlRounds; i++ {
		if _, e := ctl.mod.ExportedFunction("sched_yield").Call(in.p.ctx); e != nil {
			<-done
			return res, err, false
		}
		select {
		case <-done:
			in.p.slowCalls++
			return res, err, false
		default:
		}
		time.Sleep(time.Millisecond)
	}
	in.p.blockedCalls++
	return nil, nil, true
}

// diffRanges returns the byte ranges where cur differs from old; differing
// bytes less than 9 bytes apart are merged into one range (a written value can
// coincide with the pattern underneath in single bytes).
func diffRanges(old, cur []byte) []chg {
	var out []chg
	const blk = 512
	start, end := -1, -1
	flush := func() {
		if start >= 0 {
			m := make([]bool, end+1-start)
			for i := range m {
				m[i] = old[start+i] != cur[start+i]
			}
			out = append(out, chg{Off: uint32(start), Data: append([]byte(nil), cur[start:end+1]...), mod: m})
			start = -1
		}
	}
	for b := 0; b < len(cur); b += blk {
		if bytes.Equal(old[b:b+blk], cur[b:b+blk]) {
			continue
		}
		for i := b; i < b+blk; i++ {
			if old[i] != cur[i] {
				if start >= 0 && i-end > 8 {
					flush()
				}
				if start < 0 {
					start = i
				}
				end = i
			}
		}
	}
	flush()
	return out
}

const (
	day = 86400
)

// scanCall searches everything the call wrote for host data.
//
// Rules (stated in the evidence): every byte range the call changed is
// searched for every needle of >= 4 bytes, except that ranges written by
// random_get are only searched for needles of >= 8 bytes (a short needle can
// occur in random bytes by chance). The time scan is applied only to what
// clock_*, *_filestat_get and random_get wrote: u64 little-endian at every byte
// offset against now (s, ms, us, ns; +-1 day) and, for clock/filestat, u32
// little-endian seconds at 4-byte aligned offsets of the output region. Hits in
// random output are only candidates; the parent confirms them (see run.go).
func (in *inst) scanCall(cc *callCtx, k int, c *wcall, r *rec, where string) {
	p := in.p
	minLen := 4
	if c.Class == "random" {
		minLen = 8
	}
	now := time.Now()
	sec := uint64(now.Unix())
	for _, ch := range r.Changed {
		// identical content (the same script runs in six instances) is scanned once per process
		key := sha256.Sum256(append([]byte(c.Class+"|"), ch.Data...))
		if cc.scanned[key] {
			continue
		}
		cc.scanned[key] = true
		cc.so.ScanBytes += int64(len(ch.Data))
		for _, n := range p.needles {
			if len(n.B) < minLen || len(n.B) > len(ch.Data) {
				continue
			}
			i := -1
			for from := 0; from+len(n.B) <= len(ch.Data); {
				j := bytes.Index(ch.Data[from:], n.B)
				if j < 0 {
					break
				}
				// the match must contain a byte this call really changed (bytes between
				// two changed ones are older content)
				for x := from + j; x < from+j+len(n.B); x++ {
					if ch.mod == nil || ch.mod[x] {
						i = from + j
						break
					}
				}
				if i >= 0 {
					break
				}
				from += j + 1
			}
			if i >= 0 {
				kind := n.Kind
				if j := strings.IndexByte(kind, ':'); j >= 0 && !strings.HasPrefix(kind, "env-value:VERIF_CANARY") {
					kind = kind[:j]
				} else if j >= 0 {
					kind = "env-value:VERIF_CANARY"
				}
				cc.find("leak:"+kind+":"+fnTag(c), fmt.Sprintf("%s wrote host data (%s) into guest memory at %d", c.Fn, n.Kind, ch.Off+uint32(i)),
					k, where, map[string]any{"needle_kind": n.Kind, "needle": string(n.B), "range_off": ch.Off, "range": ch.Data}, "no host data")
			}
		}
		if c.Class == "" {
			continue
		}
		// time scan
		regOff := ch.Off
		for _, o := range c.Out {
			if ch.Off >= o.Off && ch.Off < o.Off+o.Len {
				regOff = o.Off
			}
		}
		hit := func(scaling string, off int) {
			if c.Class == "random" {
				if len(cc.so.TimeCands) < 8 {
					cc.so.TimeCands = append(cc.so.TimeCands, timeCand{Call: k, Scaling: scaling, Off: ch.Off + uint32(off), Where: where})
				}
				return
			}
			cc.find("leak:time-"+scaling+":"+fnTag(c), fmt.Sprintf("%s wrote a value within one day of the host's current time (%s) at %d", c.Fn, scaling, ch.Off+uint32(off)),
				k, where, map[string]any{"range_off": ch.Off, "range": ch.Data, "scaling": scaling}, "fake clock value")
		}
		near := func(v, center, tol uint64) bool { return v+tol >= center && v <= center+tol }
		hit64 := false
		for i := 0; i+8 <= len(ch.Data); i++ {
			v := binary.LittleEndian.Uint64(ch.Data[i:])
			sc := ""
			switch {
			case near(v, sec, day):
				sc = "s-u64"
			case near(v, sec*1e3, day*1e3):
				sc = "ms-u64"
			case near(v, sec*1e6, day*1e6):
				sc = "us-u64"
			case near(v, sec*1e9, day*1e9):
				sc = "ns-u64"
			}
			if sc != "" && anyMod(ch.mod, i, 8) {
				hit64 = true
				hit(sc, i)
			}
		}
		if c.Class != "random" && !hit64 { // a u32 half of a matching u64 is not a second finding
			for i := 0; i+4 <= len(ch.Data); i++ {
				if (ch.Off+uint32(i)-regOff)%4 != 0 {
					continue
				}
				if near(uint64(binary.LittleEndian.Uint32(ch.Data[i:])), sec, day) && anyMod(ch.mod, i, 4) {
					hit("s-u32", i)
				}
			}
		}
	}
}

func anyMod(m []bool, i, n int) bool {
	if m == nil {
		return true
	}
	for x := i; x < i+n && x < len(m); x++ {
		if m[x] {
			return true
		}
	}
	return false
}

const (
	errnoBADF = 8
)

func le32(b []byte) uint32 { return binary.LittleEndian.Uint32(b) }

// directAsserts checks what the property states outright about the default
// configuration, whenever a script happens to make the relevant call.
func (in *inst) directAsserts(cc *callCtx, k int, c *wcall, r *rec, where string) {
	errno := -1
	if strings.HasPrefix(r.Ret, "errno=") {
		errno, _ = strconv.Atoi(r.Ret[6:])
	}
	bad := func(sig, detail string, want any) {
		cc.find("default:"+sig, detail, k, where, r, want)
	}
	if c.Fn == "fd_close" && errno == 0 && c.FD >= 0 && c.FD <= 2 {
		in.closedFD[c.FD] = true
	}
	if c.Fn == "fd_renumber" && errno == 0 {
		in.fdDirty = true
		bad("fd_renumber-succeeds", "fd_renumber succeeded although the only descriptors are the pre-opened stdio", "errno != 0")
	}
	// Nothing but stdio exists: no call naming another descriptor may succeed,
	// no path can be resolved and no socket exists.
	if c.FD > 2 && errno == 0 && !in.fdDirty {
		cc.assert("fd>2-never-succeeds")
		bad("fd-above-stdio-usable:"+c.Fn, fmt.Sprintf("%s succeeded on fd %d: the default configuration has no files, pre-opens or sockets", c.Fn, c.FD), "errno != 0")
	} else if c.FD > 2 {
		cc.assert("fd>2-never-succeeds")
	}
	if strings.HasPrefix(c.Fn, "path_") || strings.HasPrefix(c.Fn, "sock_") {
		cc.assert("path/sock-never-succeeds")
		if errno == 0 {
			bad("path-or-socket-usable:"+c.Fn, c.Fn+" succeeded under the default configuration (no file system, no sockets)", "errno != 0")
		}
	}
	if !c.Valid || errno < 0 {
		return
	}
	switch c.Fn {
	case "args_sizes_get", "environ_sizes_get":
		cc.assert(c.Fn + "=0,0")
		if errno != 0 || le32(r.Outs[0]) != 0 || le32(r.Outs[1]) != 0 {
			what := "args"
			if c.Fn == "environ_sizes_get" {
				what = "environ"
			}
			bad(what+"-count-nonzero", fmt.Sprintf("%s: errno=%d count=%d buflen=%d", c.Fn, errno, le32(r.Outs[0]), le32(r.Outs[1])), "errno=0 count=0 buflen=0")
		}
	case "args_get", "environ_get":
		cc.assert(c.Fn + "-writes-nothing")
		if errno != 0 || len(r.Changed) != 0 {
			bad(c.Fn+"-writes", fmt.Sprintf("%s: errno=%d and %d changed byte ranges; there are no args/environ to write", c.Fn, errno, len(r.Changed)), "errno=0, memory unchanged")
		}
	case "fd_prestat_get", "fd_prestat_dir_name":
		if c.FD >= 3 && c.FD < 1<<31 && !in.fdDirty {
			cc.assert("prestat-fd>=3-EBADF")
			if errno != errnoBADF || len(r.Changed) != 0 {
				bad("preopen-visible:"+c.Fn, fmt.Sprintf("%s(fd=%d): errno=%d, %d changed ranges; no pre-opens exist so fd 3 and up must be EBADF", c.Fn, c.FD, errno, len(r.Changed)), "errno=8 (EBADF), memory unchanged")
			}
		}
	case "fd_read":
		if c.FD == 0 && !in.closedFD[0] && !in.fdDirty {
			cc.assert("stdin-EOF")
			nread := le32(r.Outs[len(r.Outs)-1])
			onlyNread := len(r.Changed) == 0 || (len(r.Changed) == 1 && r.Changed[0].Off >= c.Out[len(c.Out)-1].Off && r.Changed[0].Off < c.Out[len(c.Out)-1].Off+4)
			if errno != 0 || nread != 0 || !onlyNread {
				bad("stdin-not-empty", fmt.Sprintf("fd_read(0): errno=%d nread=%d, buffers changed=%v; default stdin is always at EOF", errno, nread, !onlyNread), "errno=0 nread=0 buffers untouched")
			}
		}
	case "fd_write":
		if (c.FD == 1 || c.FD == 2) && !in.closedFD[c.FD] && !in.fdDirty {
			cc.assert("stdout/stderr-write-succeeds")
			nw := le32(r.Outs[len(r.Outs)-1])
			if errno != 0 || nw != c.IOTotal {
				bad("stdio-write-fails", fmt.Sprintf("fd_write(%d): errno=%d nwritten=%d of %d", c.FD, errno, nw, c.IOTotal), fmt.Sprintf("errno=0 nwritten=%d", c.IOTotal))
			}
		}
	}
}

// ---------------------------------------------------------------------------
// traces

func recBytes(r *rec) []byte {
	var b bytes.Buffer
	b.WriteString(r.Fn)
	b.WriteByte(0)
	b.WriteString(r.Ret)
	b.WriteByte(0)
	var n [8]byte
	for _, o := range r.Outs {
		binary.LittleEndian.PutUint32(n[:], uint32(len(o)))
		b.Write(n[:4])
		b.Write(o)
	}
	b.WriteByte(1)
	for _, c := range r.Changed {
		binary.LittleEndian.PutUint32(n[:], c.Off)
		binary.LittleEndian.PutUint32(n[4:], uint32(len(c.Data)))
		b.Write(n[:])
		b.Write(c.Data)
	}
	b.WriteByte(2)
	b.WriteString(r.Mem)
	return b.Bytes()
}

// digest returns sha256 of the whole trace and the per-call chain.
func digest(tr []rec) (string, string) {
	h := sha256.New()
	var chain strings.Builder
	var prev [32]byte
	for i := range tr {
		rb := recBytes(&tr[i])
		var l [4]byte
		binary.LittleEndian.PutUint32(l[:], uint32(len(rb)))
		h.Write(l[:])
		h.Write(rb)
		prev = sha256.Sum256(append(prev[:], rb...))
		chain.WriteString(hex.EncodeToString(prev[:4]))
	}
	return hex.EncodeToString(h.Sum(nil)), chain.String()
}

// firstRecDiff names the first field in which two records differ.
func firstRecDiff(a, b *rec) string {
	switch {
	case a.Ret != b.Ret:
		return "result"
	case len(a.Outs) != len(b.Outs):
		return "output"
	}
	for i := range a.Outs {
		if !bytes.Equal(a.Outs[i], b.Outs[i]) {
			return "output"
		}
	}
	if len(a.Changed) != len(b.Changed) {
		return "memory-outside-outputs"
	}
	for i := range a.Changed {
		if a.Changed[i].Off != b.Changed[i].Off || !bytes.Equal(a.Changed[i].Data, b.Changed[i].Data) {
			return "memory-outside-outputs"
		}
	}
	if a.Mem != b.Mem {
		return "memory-digest"
	}
	return ""
}

func recEqual(a, b *rec) bool { return firstRecDiff(a, b) == "" }

// ---------------------------------------------------------------------------
// child entry points

func child(mode string, in json.RawMessage) any {
	var sc scriptCase
	if err := json.Unmarshal(in, &sc); err != nil {
		return scriptOut{ID: -1, Findings: []finding{{Sig: "harness:bad-case", Detail: err.Error(), Call: -1}}}
	}
	p := getProc()
	if sc.Probe == "sleep" {
		return p.sleepProbe(&sc)
	}
	return p.runScript(&sc)
}

func (p *procEnv) runScript(sc *scriptCase) *scriptOut {
	calls := sc.Calls
	if calls == nil {
		calls = genScript(p.sigs, sc.Seed, sc.N)
	}
	so := &scriptOut{ID: sc.ID, Needles: len(p.needles), Skipped: p.skipped}
	if p.blockedCalls >= 1 {
		// a call of this process is blocked for good (already reported): do not
		// spend the watchdog on every further script
		so.GaveUp = "process-has-blocked-calls"
		return so
	}
	cc := &callCtx{so: so, scan: true, scanned: map[[32]byte]bool{}}
	slow0 := p.slowCalls
	defer func() { so.SlowCalls = p.slowCalls - slow0 }()
	if sc.ID%64 == 0 {
		so.Host = p.host
	}

	// Execution plan: varies with the process variant and the script so that the
	// order of engines and the lifetime of the first instance differ between the
	// processes whose traces are compared. It is not part of the trace.
	planBits := uint64(p.variant)*0x9E3779B97F4A7C15 ^ sc.Seed
	planBits ^= planBits >> 29
	engines := append([]*engineEnv(nil), p.engines...)
	if planBits&1 == 1 && len(engines) == 2 {
		engines[0], engines[1] = engines[1], engines[0]
	}
	closeFirst := planBits&2 != 0
	secondRT := planBits&4 != 0
	so.Plan = fmt.Sprintf("engines=%s", engines[0].name)
	if len(engines) == 2 {
		so.Plan += "," + engines[1].name
	}
	// Config reuse dimension: how the (always default-valued) ModuleConfig of each
	// instance comes about. Rotates with variant and script, so a script meets
	// different modes in the processes whose traces are compared.
	reuse := reuseModes[(p.variant+sc.ID/5+5)%len(reuseModes)]
	so.Reuse = reuse
	interleave := true
	var base wazero.ModuleConfig
	uniq := func() string { p.nameSeq++; return fmt.Sprintf("c18-%d", p.nameSeq) }
	pre := map[string]wazero.ModuleConfig{}
	switch reuse {
	case "process-shared-value-sequential":
		// one untouched NewModuleConfig() value for every such instance of the
		// process, one instance at a time
		if p.sharedCfg == nil {
			p.sharedCfg = wazero.NewModuleConfig()
		}
		base, closeFirst, interleave = p.sharedCfg, true, false
	case "same-value-alive-at-once":
		base, closeFirst = wazero.NewModuleConfig(), false
	case "derived-before-any-instantiation":
		base = wazero.NewModuleConfig()
		for _, e := range engines {
			for _, x := range []string{"/A", "/B", "/C"} {
				pre[e.name+x] = base.WithName(uniq())
			}
		}
	case "derived-after-earlier-instantiations":
		base = wazero.NewModuleConfig()
	}
	firstOfBase := true
	cfgFor := func(label string) wazero.ModuleConfig {
		switch reuse {
		case "process-shared-value-sequential", "same-value-alive-at-once":
			return base
		case "derived-before-any-instantiation":
			return pre[label]
		case "derived-after-earlier-instantiations":
			if firstOfBase {
				firstOfBase = false
				return base // the base itself is instantiated first (anonymous) ...
			}
			return base.WithName(uniq()) // ... every later config is derived from it afterwards
		}
		return wazero.NewModuleConfig().WithName("")
	}
	so.Plan += fmt.Sprintf(" close-first-instance-before-second=%v third-instance-in-second-runtime=%v config=%s", closeFirst, secondRT, reuse)

	// Context dimension: interpreter/A (the reference) is called under
	// context.Background(); the other five instances get the five other flavours,
	// rotated with variant and script, so every script runs under every flavour
	// in every process. None of the contexts is ever cancelled while in use.
	slotOf := map[string]int{"interpreter/B": 0, "interpreter/C": 1, "compiler/A": 2, "compiler/B": 3, "compiler/C": 4}
	rot := (p.variant + sc.ID%5 + 5) % 5
	flavourOf := map[string]string{"interpreter/A": "background"}
	so.Ctx = map[string]int{}
	var cancels []context.CancelFunc
	defer func() {
		for _, f := range cancels {
			f()
		}
	}()
	setCtx := func(in *inst) {
		if slot, ok := slotOf[in.label]; ok {
			f := flavours[1+(rot+slot)%5]
			ctx, cancel := f.mk()
			cancels = append(cancels, cancel)
			in.ctx, in.flavour = ctx, f.name
		}
		flavourOf[in.label] = in.flavour
		so.Ctx[in.flavour]++
	}

	var ref []rec // interpreter, instance A
	traces := map[string][]rec{}
	for _, e := range engines {
		// instance A alone; then B and C, created after A consumed its clock and
		// random values, running the script interleaved call by call.
		a, err := p.newInstCfg(e, e.name+"/A", cfgFor(e.name+"/A"), false)
		if err != nil {
			cc.find("harness:instantiate", err.Error(), -1, e.name, nil, nil)
			continue
		}
		setCtx(a)
		var ta []rec
		for k := range calls {
			ta = append(ta, a.run(cc, k, &calls[k]))
			if a.exited {
				break
			}
		}
		traces[e.name+"/A"] = ta
		if closeFirst {
			a.close()
		}
		var tb, tc []rec
		var b, c *inst
		if interleave {
			var err1, err2 error
			b, err1 = p.newInstCfg(e, e.name+"/B", cfgFor(e.name+"/B"), false)
			c, err2 = p.newInstCfg(e, e.name+"/C", cfgFor(e.name+"/C"), secondRT)
			if err1 != nil || err2 != nil {
				cc.find("harness:instantiate", fmt.Sprint(err1, err2), -1, e.name, nil, nil)
				continue
			}
			setCtx(b)
			setCtx(c)
			for k := range calls {
				if !b.exited {
					tb = append(tb, b.run(cc, k, &calls[k]))
				}
				if !c.exited {
					tc = append(tc, c.run(cc, k, &calls[k]))
				}
				if b.exited && c.exited {
					break
				}
			}
		} else {
			// strictly one instance at a time
			var err1, err2 error
			if b, err1 = p.newInstCfg(e, e.name+"/B", cfgFor(e.name+"/B"), false); err1 == nil {
				setCtx(b)
				for k := range calls {
					tb = append(tb, b.run(cc, k, &calls[k]))
					if b.exited {
						break
					}
				}
				b.close()
			}
			if c, err2 = p.newInstCfg(e, e.name+"/C", cfgFor(e.name+"/C"), secondRT); err2 == nil {
				setCtx(c)
				for k := range calls {
					tc = append(tc, c.run(cc, k, &calls[k]))
					if c.exited {
						break
					}
				}
				c.close()
			}
			if err1 != nil || err2 != nil {
				cc.find("harness:instantiate", fmt.Sprint(err1, err2), -1, e.name, nil, nil)
				continue
			}
		}
		traces[e.name+"/B"] = tb
		traces[e.name+"/C"] = tc
		if !closeFirst {
			a.close()
		}
		if interleave {
			b.close()
			c.close()
		}
	}
	ref = traces["interpreter/A"]
	so.Traces = len(traces)
	so.N = len(ref)
	so.Sha, so.Chain = digest(ref)
	// in-process oracle: every trace equals the reference trace
	labels := make([]string, 0, len(traces))
	for l := range traces {
		labels = append(labels, l)
	}
	sort.Strings(labels)
	interpAgree := true
	for _, l := range []string{"interpreter/B", "interpreter/C"} {
		t := traces[l]
		if len(t) != len(ref) {
			interpAgree = false
			continue
		}
		for i := range t {
			if !recEqual(&t[i], &ref[i]) {
				interpAgree = false
				break
			}
		}
	}
	for _, l := range labels {
		if l == "interpreter/A" {
			continue
		}
		t := traces[l]
		dim := "instances"
		if !strings.HasPrefix(l, "interpreter/") {
			dim = "engines"
			// attribute to instances if the engine's own first instance agrees with the reference
			if l != "compiler/A" {
				if ca := traces["compiler/A"]; ca != nil {
					same := len(ca) == len(ref)
					for i := 0; same && i < len(ref); i++ {
						same = recEqual(&ca[i], &ref[i])
					}
					if same {
						dim = "instances"
					}
				}
			}
		}
		n := len(t)
		if len(ref) < n {
			n = len(ref)
		}
		for i := 0; i < n; i++ {
			if d := firstRecDiff(&ref[i], &t[i]); d != "" {
				// Is it the context? A fresh instance of the same engine called under
				// context.Background() that reproduces the reference says so.
				// (Only decidable when every instance has its own fresh config; in the
				// reuse modes the signature carries the mode instead.)
				if fl := flavourOf[l]; fl != "background" && reuse == "fresh-per-instance" {
					for _, e := range p.engines {
						if strings.HasPrefix(l, e.name+"/") {
							if x, err := p.newInst(e, l+"/recheck"); err == nil {
								same := true
								xc := &callCtx{so: &scriptOut{}, scanned: map[[32]byte]bool{}}
								for k := 0; k <= i && same && !x.exited; k++ {
									xr := x.run(xc, k, &calls[k])
									same = recEqual(&xr, &ref[k])
								}
								x.close()
								if same {
									dim = "contexts(" + fl + ")"
								}
							}
						}
					}
				}
				// The reuse mode goes into the signature when it can be the cause: not
				// for a pure engine difference (all interpreter instances agree).
				if reuse != "fresh-per-instance" && !strings.HasPrefix(dim, "contexts") && !(dim == "engines" && interpAgree) {
					dim += "[config:" + reuse + "]"
				}
				cc.find(fnTag(&calls[i])+":"+d+":differs-across-"+dim,
					fmt.Sprintf("[config reuse mode: "+reuse+"] call %d %s: %s of %s (called under a %s context) differs from interpreter/A (context.Background()) in the same process", i, exportName(calls[i].Fn, calls[i].Shape), d, l, flavourOf[l]),
					i, l+" ctx="+flavourOf[l], t[i], ref[i])
				break
			}
		}
		if len(t) != len(ref) {
			cc.find("trace-length:differs-across-"+dim, fmt.Sprintf("%s executed %d calls, interpreter/A %d", l, len(t), len(ref)), n, l, len(t), len(ref))
		}
	}
	if sc.Stats {
		so.Shapes = map[string]int{}
		for i := range ref {
			sh := calls[i].Shape
			if sh == "" {
				sh = "flat"
			}
			so.Shapes[sh]++
			if calls[i].Note == "all-ones-args" {
				so.Shapes["all_ones_pattern"]++
			}
		}
		so.Stats = map[string]int{}
		for i := range ref {
			so.Stats[fnTag(&calls[i])+" "+ref[i].Ret]++
		}
	}
	if sc.Detail {
		so.Detail = ref
	}
	return so
}

// sleepProbe is the real-sleep monitor. A default-configuration guest never
// really sleeps, whatever the timeout and whatever context the embedder calls
// it with. Probes = engines x context flavours x subscription shapes x {1 hour,
// 1 year}. Every probe has its own instance and goroutine: first the control
// (the same call with timeout 0), then the subject (huge timeout). On a correct
// tree all of them return within microseconds. The main goroutine meanwhile
// repeats a control call on yet another instance, paced 1ms apart. A subject
// counts as really sleeping only if it has not returned when the watchdog
// (>= 30s and >= 1000 completed control rounds) ends AND its own control had
// returned: the verdict is "controls returned, subject did not"; no measured
// duration takes part. A probe whose control did not return, or a process that
// could not complete 1000 control rounds, is inconclusive.
type probe struct {
	engine, flavour, shape string
	timeout                uint64
	in                     *inst
	cancel                 context.CancelFunc
	ctl, subj              wcall
	ctlDone, subjDone      atomic.Bool
	ctlRet, subjRet        string
}

func probeCall(shape string, timeout uint64) wcall {
	if shape == "sched_yield" {
		return wcall{Fn: "sched_yield", FD: -1, Valid: true}
	}
	type sub struct {
		tag   byte
		id    uint32
		flags uint16
		fd    uint32
	}
	var subs []sub
	switch shape {
	case "clock-relative-realtime":
		subs = []sub{{tag: 0, id: 0}}
	case "clock-relative-monotonic":
		subs = []sub{{tag: 0, id: 1}}
	case "clock-absolute-realtime":
		subs = []sub{{tag: 0, id: 0, flags: 1}}
	case "clock-absolute-monotonic":
		subs = []sub{{tag: 0, id: 1, flags: 1}}
	case "clock-relative-monotonic+fd_write-stdout":
		subs = []sub{{tag: 0, id: 1}, {tag: 2, fd: 1}}
	case "fd_write-stdout+clock-relative-realtime":
		subs = []sub{{tag: 2, fd: 1}, {tag: 0, id: 0}}
	case "clock-relative-monotonic+fd_read-stdin":
		subs = []sub{{tag: 0, id: 1}, {tag: 1, fd: 0}}
	case "two-clocks-relative":
		subs = []sub{{tag: 0, id: 0}, {tag: 0, id: 1}}
	}
	n := len(subs)
	b := make([]byte, 48*n)
	for i, s := range subs {
		o := b[48*i:]
		binary.LittleEndian.PutUint64(o, uint64(0x1111*(i+1)))
		o[8] = s.tag
		if s.tag == 0 {
			binary.LittleEndian.PutUint32(o[16:], s.id)
			binary.LittleEndian.PutUint64(o[24:], timeout)
			binary.LittleEndian.PutUint16(o[40:], s.flags)
		} else {
			binary.LittleEndian.PutUint32(o[16:], s.fd)
		}
	}
	return wcall{Fn: "poll_oneoff", Args: []uint64{1024, 2048, uint64(n), 4096}, In: []memWrite{{Off: 1024, Data: b}}, FD: -1, Valid: true}
}

var probeShapes = []string{"clock-relative-realtime", "clock-relative-monotonic", "clock-absolute-realtime", "clock-absolute-monotonic",
	"clock-relative-monotonic+fd_write-stdout", "fd_write-stdout+clock-relative-realtime", "clock-relative-monotonic+fd_read-stdin",
	"two-clocks-relative", "sched_yield"}

// rawCall is run() without trace, scan and watchdog (used from probe goroutines).
func rawCall(in *inst, c *wcall) string {
	if mem, ok := in.mod.Memory().Read(0, memSize); ok {
		for _, w := range c.In {
			copy(mem[w.Off:], w.Data)
		}
	}
	res, err := in.mod.ExportedFunction(exportName(c.Fn, c.Shape)).Call(in.ctx, c.Args...)
	switch {
	case err != nil:
		return errClass(err)
	case len(res) == 1:
		return "errno=" + strconv.FormatUint(res[0]&0xffffffff, 10)
	}
	return "void"
}

const (
	probeWatchdog      = 30 * time.Second
	probeControlRounds = 1000
	probeGiveUp        = 10 * time.Minute
)

func (p *procEnv) sleepProbe(sc *scriptCase) *scriptOut {
	so := &scriptOut{ID: sc.ID, Probe: map[string]any{}}
	cc := &callCtx{so: so, scanned: map[[32]byte]bool{}}
	const hour = uint64(3600) * 1e9
	const year = 365 * 24 * hour
	var probes []*probe
	for _, e := range p.engines {
		for _, f := range flavours {
			for si, shape := range probeShapes {
				for ti, timeout := range []uint64{hour, year} {
					if shape == "sched_yield" && ti > 0 {
						continue
					}
					if (si+ti)%2 == 1 && f.name == "value-only" {
						continue // thin out the flavour that behaves like background
					}
					in, err := p.newInst(e, "real-sleep-probe")
					if err != nil {
						cc.find("harness:instantiate", err.Error(), -1, e.name, nil, nil)
						continue
					}
					ctx, cancel := f.mk()
					in.ctx, in.flavour = ctx, f.name
					probes = append(probes, &probe{engine: e.name, flavour: f.name, shape: shape, timeout: timeout, in: in, cancel: cancel,
						ctl: probeCall(shape, 0), subj: probeCall(shape, timeout)})
				}
			}
		}
	}
	for _, pr := range probes {
		go func(pr *probe) {
			pr.ctlRet = rawCall(pr.in, &pr.ctl)
			pr.ctlDone.Store(true)
			pr.subjRet = rawCall(pr.in, &pr.subj)
			pr.subjDone.Store(true)
		}(pr)
	}
	pending := func() int {
		n := 0
		for _, pr := range probes {
			if !pr.subjDone.Load() {
				n++
			}
		}
		return n
	}
	rounds := 0
	var ctl *inst
	ctlCall := probeCall("clock-relative-monotonic", 0)
	start := time.Now() // paces the watchdog only
	for pending() > 0 {
		el := time.Since(start)
		if (el >= probeWatchdog && rounds >= probeControlRounds) || el >= probeGiveUp {
			break
		}
		if ctl == nil && len(p.engines) > 0 {
			ctl, _ = p.newInst(p.engines[0], "real-sleep-control")
		}
		if ctl != nil && rawCall(ctl, &ctlCall) == "errno=0" {
			rounds++
		}
		time.Sleep(time.Millisecond)
	}
	returned, flav, shapes := 0, map[string]int{}, map[string]int{}
	var stuck []*probe
	for _, pr := range probes {
		flav[pr.flavour]++
		shapes[pr.shape]++
		if pr.subjDone.Load() {
			returned++
			want := "errno=0"
			if strings.HasPrefix(pr.shape, "clock-absolute") {
				want = "errno=58" // ENOTSUP, at once
			}
			if pr.subjRet != want || pr.ctlRet != want {
				cc.find("harness:real-sleep-probe-result", fmt.Sprintf("%s/%s/%s: control %s, subject %s, expected %s", pr.engine, pr.flavour, pr.shape, pr.ctlRet, pr.subjRet, want), -1, pr.engine, nil, nil)
			}
			pr.in.close()
			pr.cancel()
			continue
		}
		stuck = append(stuck, pr)
		switch {
		case !pr.ctlDone.Load():
			so.Inconcl = append(so.Inconcl, "real-sleep-probe:control-did-not-return")
		case rounds < probeControlRounds:
			so.Inconcl = append(so.Inconcl, "real-sleep-probe:process-too-slow-for-control-rounds")
		default:
			cc.findN(64, "real-sleep:"+pr.subj.Fn+":"+pr.flavour+":"+pr.shape,
				fmt.Sprintf("%s engine: %s (%s, clock timeout %d ns) called under a %s context did not return although its control (same call, timeout 0, same instance) had returned and %d further control calls completed in the same process meanwhile: the default (fake) nanosleep is bypassed and the host really sleeps",
					pr.engine, pr.subj.Fn, pr.shape, pr.timeout, pr.flavour, rounds),
				0, pr.engine, map[string]any{"engine": pr.engine, "context": pr.flavour, "shape": pr.shape, "timeout_ns": pr.timeout, "call": pr.subj, "control_result": pr.ctlRet, "control_rounds": rounds},
				"returns at once (control result "+pr.ctlRet+")")
		}
	}
	// unblock what can be unblocked (cancellable contexts), then leave the rest behind
	unblocked := 0
	if len(stuck) > 0 {
		for _, pr := range stuck {
			pr.cancel()
		}
		for i := 0; i < 2000 && unblocked < len(stuck); i++ {
			time.Sleep(time.Millisecond)
			unblocked = 0
			for _, pr := range stuck {
				if pr.subjDone.Load() {
					unblocked++
				}
			}
		}
	}
	if ctl != nil {
		ctl.close()
	}
	so.Traces = len(probes)
	so.Probe = map[string]any{"probes": len(probes), "returned_at_once": returned, "not_returned": len(stuck), "returned_after_context_cancel": unblocked,
		"control_rounds_while_waiting": rounds, "per_flavour": flav, "per_shape": shapes}
	return so
}
