package c08

import (
	"context"
	"encoding/json"
	"fmt"
	"regexp"
	"strings"
	"sync"

	"github.com/tetratelabs/wazero"
	"github.com/tetratelabs/wazero/api"
	"github.com/tetratelabs/wazero/experimental"
	"github.com/tetratelabs/wazero/verifharness/core"
	"github.com/tetratelabs/wazero/verifharness/wenc"
)

const guestName = "g"

// echoCase is one signature with its value vectors (derived from Seed).
type echoCase struct {
	Sig      string `json:"sig"`
	Seed     uint64 `json:"seed"`
	K        int    `json:"k"`
	SignMask uint32 `json:"sign_mask"` // reflect styles: bit i = param i signed, bit 16+j = result j signed ("u" styles use the complement)
	Class    string `json:"class"`
	Conc     bool   `json:"conc,omitempty"`  // additionally two goroutines calling concurrently (race flavour)
	Tail     bool   `json:"tail,omitempty"`  // tail-call feature on; tail-call forms of the wrappers (extra wrapper params derived from Seed)
	Mixed    bool   `json:"mixed,omitempty"` // guest with a mixed import section and a decoy type 0 (mixed.go); run after a plain control
}

type finding struct {
	Sig     string         `json:"sig"`
	Detail  string         `json:"detail"`
	Witness map[string]any `json:"witness"`
}

type caseResult struct {
	Findings     []finding        `json:"findings,omitempty"`
	Engines      int              `json:"engines"`
	Calls        int64            `json:"calls"`
	HostCalls    int64            `json:"host_calls"`
	Values       int64            `json:"values"` // single values compared (host params + Go results)
	Masks        int64            `json:"masks"`  // in-wasm judge masks checked
	MaskTests    int64            `json:"mask_tests"`
	Reentries    int64            `json:"reentries"`
	ConcCalls    int64            `json:"conc_calls,omitempty"`
	MixedCalls   int64            `json:"mixed_calls,omitempty"` // calls through a guest with a mixed import section
	TailCalls    int64            `json:"tail_calls,omitempty"`  // calls through return_call / return_call_indirect wrappers
	TailShape    string           `json:"tail_shape,omitempty"`  // wrapper params x results, and whether the stack-param + stack-result cliff is crossed
	UpperHost    int64            `json:"upper_host,omitempty"`  // 32-bit params whose slot upper half was non-zero at the host (allowed)
	UpperGo      int64            `json:"upper_go,omitempty"`    // 32-bit results whose slot upper half was non-zero at Go (allowed)
	UpperGoBy    map[string]int64 `json:"upper_go_by,omitempty"`
	ByStyle      map[string]int64 `json:"by_style"`
	ByForm       map[string]int64 `json:"by_form"`
	Classes      map[string]int64 `json:"classes"`
	Styles       []string         `json:"styles"`
	ModuleBytes  int              `json:"module_bytes"`
	BuildErr     string           `json:"build_err,omitempty"`
	Inconclusive string           `json:"inconclusive,omitempty"`
}

type collector struct {
	mu       sync.Mutex
	findings []finding
	seen     map[string]bool
	calls    int64
	values   int64
	masks    int64
	maskBits int64
	upperGo  int64
	byStyle  map[string]int64
	byForm   map[string]int64
	upperBy  map[string]int64
}

func newCollector() *collector {
	return &collector{seen: map[string]bool{}, byStyle: map[string]int64{}, byForm: map[string]int64{}, upperBy: map[string]int64{}}
}

func (c *collector) merge(o *collector) {
	for _, f := range o.findings {
		if !c.seen[f.Sig] {
			c.seen[f.Sig] = true
			c.findings = append(c.findings, f)
		}
	}
	c.calls += o.calls
	c.values += o.values
	c.masks += o.masks
	c.maskBits += o.maskBits
	c.upperGo += o.upperGo
	for k, v := range o.byStyle {
		c.byStyle[k] += v
	}
	for k, v := range o.byForm {
		c.byForm[k] += v
	}
	for k, v := range o.upperBy {
		c.upperBy[k] += v
	}
}

type engineRun struct {
	tc       *echoCase
	engine   string
	spec     *guestSpec
	signMask uint32
	host     *hostState
	guest    api.Module
	hostMod  api.Module
	refv     [nTargets + 1]uint64
	res      *caseResult
	col      *collector
}

func (x *engineRun) resolve(ts []T, vs []val) []val {
	out := make([]val, len(vs))
	for i, v := range vs {
		if ts[i] == wenc.FuncRef && v.Hi != refBehaviour {
			out[i] = val{Lo: x.refv[v.Lo]}
		} else {
			out[i] = v
		}
	}
	return out
}

var reNum = regexp.MustCompile(`0x[0-9a-fA-F]+|\d+`)

// compareResults decides what Go (or a re-entering host function) got back.
// maskOf: "" no mask, "results": last slot is the judge mask over exp, "params":
// last slot is the mask of the callee's own parameters (guest-defined g_<k>).
func (x *engineRun) compareResults(sc *script, fn string, st *style, resTypes []T, exp []val, raw []uint64, hasMask, nested, paramsMask bool) {
	if len(raw) != slots(resTypes) {
		sc.add(problem{Where: "result-count", Func: fn, Exp: fmt.Sprint(slots(resTypes)), Got: fmt.Sprint(len(raw)), Nested: nested})
		return
	}
	got := unflatten(resTypes, raw)
	n := len(resTypes)
	if hasMask {
		n--
	}
	for j := 0; j < n; j++ {
		if resTypes[j] == wenc.FuncRef && exp[j].Hi == refBehaviour {
			// funcref produced by ref.func inside the guest: identity = what calling through it returns
			exp = append([]val(nil), exp...)
			want := int32(-1)
			if exp[j].Lo != 0 {
				want = int32(1000 + exp[j].Lo - 1)
			}
			r, err := x.guest.ExportedFunction("callref").Call(context.Background(), got[j].Lo)
			if err == nil && len(r) == 1 && int32(uint32(r[0])) == want {
				exp[j] = got[j]
			} else {
				exp[j] = val{Lo: x.refv[exp[j].Lo]}
				if exp[j] == got[j] {
					exp[j].Lo ^= 1 // behaves differently although the opaque value matches
				}
			}
		}
	}
	styleName := ""
	if st != nil {
		styleName = st.Name
	}
	label := func(j int) string {
		if st != nil && st.Kind == "reflect" {
			return x.typeLabel(st, false, j)
		}
		return wenc.TypeName(resTypes[j])
	}
	for j := 0; j < n; j++ {
		if !sameValue(resTypes[j], exp[j], got[j]) {
			sc.add(problem{Where: "result", Style: styleName, Func: fn, Pos: j, Type: label(j), Exp: exp[j].String(), Got: got[j].String(),
				Sym: symptom(resTypes[j], exp[j], got[j], exp[:n]), Nested: nested})
		}
	}
	if hasMask {
		m := uint32(raw[len(raw)-1])
		if m != 0 {
			done := map[int]bool{}
			for bit := 0; bit < 32; bit++ {
				if m&(1<<uint(bit)) == 0 {
					continue
				}
				if bit >= bitCanaryI {
					sc.add(problem{Where: "canary", Style: styleName, Func: fn, Pos: bit, Note: fmt.Sprintf("mask=%#x", m), Nested: nested})
					continue
				}
				j := bit % bitSecondary
				if done[j] {
					continue
				}
				done[j] = true
				tests := "primary"
				if m&(1<<uint(j)) == 0 {
					tests = "secondary-only"
				} else if m&(1<<uint(j+bitSecondary)) != 0 {
					tests = "primary+secondary"
				}
				if paramsMask {
					if j >= len(x.spec.P) {
						sc.add(problem{Where: "mask-bit", Func: fn, Pos: j, Note: fmt.Sprintf("mask=%#x", m), Nested: nested})
						continue
					}
					sc.add(problem{Where: "guest-param", Func: fn, Pos: j, Type: wenc.TypeName(x.spec.P[j]), Sym: "guest-judge-failed",
						Note: fmt.Sprintf("mask=%#x tests=%s", m, tests), Nested: nested})
					continue
				}
				if j >= n {
					sc.add(problem{Where: "mask-bit", Func: fn, Pos: j, Note: fmt.Sprintf("mask=%#x", m), Nested: nested})
					continue
				}
				sym := symptom(resTypes[j], exp[j], got[j], exp[:n])
				if sym == "same" {
					sym = "guest-judge-only"
				}
				sc.add(problem{Where: "mask", Style: styleName, Func: fn, Pos: j, Type: label(j), Exp: exp[j].String(), Got: got[j].String(),
					Sym: sym, Note: fmt.Sprintf("mask=%#x tests=%s", m, tests), Nested: nested})
			}
		}
	}
}

func (x *engineRun) sigOf(p *problem) string {
	kind := "guestfn"
	if st := styleByName(p.Style); st != nil {
		kind = st.Kind
	}
	eng := ":" + x.engine
	switch p.Where {
	case "host-param":
		if p.Sym == "snan-quieted" || p.Sym == "sign-extended-slot" {
			eng = ""
		}
		return fmt.Sprintf("%s-%s-param:%s%s", kind, p.Type, p.Sym, eng)
	case "result", "mask":
		if p.Sym == "snan-quieted" || p.Sym == "sign-extended-slot" {
			eng = ""
		}
		return fmt.Sprintf("%s-%s-result:%s%s", kind, p.Type, p.Sym, eng)
	case "guest-param":
		return fmt.Sprintf("guestfn-%s-param:%s%s", p.Type, p.Sym, eng)
	case "canary":
		return fmt.Sprintf("%s:guest-local-clobbered-across-host-call%s", kind, eng)
	case "host-stack-len":
		return fmt.Sprintf("%s:host-stack-length%s", kind, eng)
	case "host-stack-changed":
		return "reentry:host-stack-changed" + eng
	case "host-module":
		return fmt.Sprintf("%s:module-parameter-is-not-the-caller%s", kind, eng)
	case "host-call-order":
		return fmt.Sprintf("%s:host-call-order%s", kind, eng)
	case "host-context":
		return fmt.Sprintf("%s:context-not-propagated%s", kind, eng)
	case "call-error":
		if strings.HasPrefix(p.Func, "x_") {
			if strings.HasPrefix(p.Note, "Module.ExportedFunction panics") {
				return "reexported-host-function:ExportedFunction-panics" + eng
			}
			return "reexported-host-function:" + errClassStr(p.Note) + eng
		}
		return "call-error:" + errClassStr(p.Note) + eng
	}
	return p.Where + eng
}

type callInfo struct {
	fn   string
	form string // call | callwithstack
	k    int
	args []uint64
}

func (x *engineRun) flush(col *collector, sc *script, ci callInfo) {
	for i := range sc.problems {
		p := &sc.problems[i]
		sig := x.sigOf(p)
		if isTailFn(ci.fn) {
			// the ordinary wrappers ran first: what they show too is not a tail-call matter
			if col.seen[sig] {
				continue
			}
			sig = "tail-call:" + mixedSig(sig)
		}
		if col.seen[sig] {
			continue
		}
		col.seen[sig] = true
		detail := fmt.Sprintf("signature %s engine %s top-level %s (%s) vector %d: %s in func %s style %s nested=%v: pos %d type %s expected %s got %s %s",
			x.tc.Sig, x.engine, ci.fn, ci.form, ci.k, p.Where, p.Func, p.Style, p.Nested, p.Pos, p.Type, p.Exp, p.Got, p.Note)
		col.findings = append(col.findings, finding{Sig: sig, Detail: detail, Witness: map[string]any{
			"case": x.tc, "engine": x.engine, "func": ci.fn, "form": ci.form, "vector": ci.k, "args": fmt.Sprintf("%#x", ci.args),
			"problem": p,
		}})
	}
}

func errClassStr(s string) string {
	if i := strings.IndexByte(s, '\n'); i >= 0 {
		s = s[:i]
	}
	s = reNum.ReplaceAllString(s, "N")
	return core.Trunc(strings.ReplaceAll(s, " ", "_"), 80)
}

// top performs one call from Go and decides it.
func (x *engineRun) top(col *collector, seq bool, mod api.Module, fnName string, viaStack bool, k int, args []uint64,
	resTypes []T, exp []val, hasMask, paramsMask bool, st *style, sc *script) {
	form := "call"
	if viaStack {
		form = "callwithstack"
	}
	ci := callInfo{fn: fnName, form: form, k: k, args: args}
	ctx := context.WithValue(context.Background(), scriptKey{}, sc)
	sc.fn = []string{fnName}
	if seq {
		x.host.cur = sc
	}
	col.calls++
	col.byForm[form]++
	if st != nil {
		col.byStyle[st.Name]++
	} else {
		col.byStyle["guest-defined"]++
	}
	var fn api.Function
	func() {
		defer func() {
			if r := recover(); r != nil {
				sc.add(problem{Where: "call-error", Func: fnName, Note: fmt.Sprintf("Module.ExportedFunction panics: %v", r)})
			}
		}()
		fn = mod.ExportedFunction(fnName)
		if fn == nil {
			sc.add(problem{Where: "call-error", Func: fnName, Note: "missing export " + fnName})
		}
	}()
	if fn == nil {
		if seq {
			x.host.cur = nil
		}
		x.flush(col, sc, ci)
		return
	}
	nres := slots(resTypes)
	var raw []uint64
	var err error
	if viaStack {
		n := len(args)
		if nres > n {
			n = nres
		}
		stk := make([]uint64, n+k%3)
		for i := range stk {
			stk[i] = 0xA5A5A5A5A5A5A5A5
		}
		copy(stk, args)
		err = fn.CallWithStack(ctx, stk)
		raw = stk[:nres]
	} else {
		raw, err = fn.Call(ctx, args...)
	}
	if seq {
		x.host.cur = nil
	}
	if err != nil {
		sc.add(problem{Where: "call-error", Func: fnName, Note: err.Error()})
	} else {
		x.compareResults(sc, fnName, st, resTypes, exp, raw, hasMask, false, paramsMask)
		n := len(resTypes)
		if hasMask {
			n--
			col.masks++
			if paramsMask {
				col.maskBits += int64(len(x.spec.P))
			} else {
				col.maskBits += int64(n)
			}
		}
		col.values += int64(n)
		for j, v := range unflatten(resTypes, raw)[:n] {
			if upperDirty(resTypes[j], v) {
				col.upperGo++
				kind := "guest-defined"
				if st != nil {
					kind = st.Kind
				}
				col.upperBy[x.engine+" "+form+" "+kind+" "+wenc.TypeName(resTypes[j])]++
			}
		}
		if sc.next != len(sc.exp) {
			sc.add(problem{Where: "host-call-order", Style: styleName(st), Func: fnName, Exp: fmt.Sprint(len(sc.exp)), Got: fmt.Sprint(sc.next), Note: "number of host calls"})
		}
	}
	col.values += int64(sc.next * len(x.spec.P))
	x.flush(col, sc, ci)
}

func styleName(st *style) string {
	if st == nil {
		return ""
	}
	return st.Name
}

func extArgs(ts []T, vs []val) []uint64 {
	var out []uint64
	for i, t := range ts {
		if t == wenc.ExternRef || t == wenc.FuncRef {
			out = append(out, vs[i].Lo)
		}
	}
	return out
}

func plusMask(ts []T) []T { return append(append([]T(nil), ts...), wenc.I32) }

// styleCalls drives every call that goes through host style st.
func (x *engineRun) styleCalls(col *collector, seq bool, si int, styles []string, lo, hi int) {
	s := x.spec
	K := s.K
	st := styleByName(styles[si])
	rMask := plusMask(s.R)
	for k := lo; k < hi; k++ {
		pv, rv := x.resolve(s.P, s.PV[k]), x.resolve(s.R, s.RV[k])
		// A: judging wrapper c_<style>_<k>
		sc := &script{}
		e := &expect{Style: st.Name, Params: pv, Results: rv}
		sc.exp = []*expect{e}
		k2 := (k + 5) % K
		pv2, rv2 := x.resolve(s.P, s.PV[k2]), x.resolve(s.R, s.RV[k2])
		switch k % 4 {
		case 1:
			e.Reenter = &reenter{Func: fmt.Sprintf("g_%d", k2), ViaStack: false, Args: flatten(s.P, pv2), ResTypes: rMask,
				Expect: append(x.resolve(s.R, gExpectedResults(s, k2, pv2)), val{}), IsMask: true, ParamsMask: true, K: k2}
		case 3:
			st2 := styleByName(styles[(si+1)%len(styles)])
			if !seq && !st2.hasCtx() {
				st2 = st
			}
			e.Reenter = &reenter{Func: fmt.Sprintf("c_%s_%d", st2.Name, k2), ViaStack: true, Args: extArgs(s.P, pv2), ResTypes: rMask,
				Expect: append(append([]val(nil), rv2...), val{}), Style: st2, IsMask: true, K: k2}
			sc.exp = append(sc.exp, &expect{Style: st2.Name, Params: pv2, Results: rv2})
		}
		x.top(col, seq, x.guest, fmt.Sprintf("c_%s_%d", st.Name, k), k%2 == 1, k, extArgs(s.P, pv), rMask,
			append(append([]val(nil), rv...), val{}), true, false, st, sc)
		// B: pass-through p_<style>
		k3 := (k + 3) % K
		rv3 := x.resolve(s.R, s.RV[k3])
		sc = &script{}
		e = &expect{Style: st.Name, Params: pv, Results: rv3}
		sc.exp = []*expect{e}
		if k%4 == 2 {
			if len(s.P) > 0 {
				e.Reenter = &reenter{Func: "idp", ViaStack: k%8 == 2, Args: flatten(s.P, pv2), ResTypes: s.P, Expect: pv2, K: k2}
			} else if len(s.R) > 0 {
				e.Reenter = &reenter{Func: "idr", ViaStack: k%8 == 2, Args: flatten(s.R, rv2), ResTypes: s.R, Expect: rv2, K: k2}
			}
		}
		x.top(col, seq, x.guest, "p_"+st.Name, k%2 == 0, k, flatten(s.P, pv), s.R, rv3, false, false, st, sc)
	}
	if !seq {
		return
	}
	// C: the host function itself called from Go, re-exported by the guest (wazero forbids
	// ExportedFunction on host module instances), through both forms
	for k := 0; k < K && k < 4; k++ {
		pv, rv := x.resolve(s.P, s.PV[k]), x.resolve(s.R, s.RV[(k+1)%K])
		sc := &script{exp: []*expect{{Style: st.Name, Params: pv, Results: rv, Direct: true}}}
		x.top(col, seq, x.guest, "x_"+st.Name, k%2 == 0, k, flatten(s.P, pv), s.R, rv, false, false, st, sc)
		sc = &script{exp: []*expect{{Style: st.Name, Params: pv, Results: rv, Direct: true}}}
		x.top(col, seq, x.guest, "x_"+st.Name, k%2 == 1, k+4, flatten(s.P, pv), s.R, rv, false, false, st, sc)
	}
}

// tailCalls: the tail-call forms of the wrappers of one style, from Go (both
// forms) and from a judging guest function.
func (x *engineRun) tailCalls(col *collector, si int, styles []string) {
	s := x.spec
	st := styleByName(styles[si])
	rMask := plusMask(s.R)
	eArgs := flatten(s.E, s.EV)
	for k := 0; k < s.K; k++ {
		pv, rv := x.resolve(s.P, s.PV[k]), x.resolve(s.R, s.RV[(k+2)%s.K])
		name := "t_" + st.Name
		if k%2 == 1 {
			name = "ti_" + st.Name
		}
		sc := &script{exp: []*expect{{Style: st.Name, Params: pv, Results: rv}}}
		before := col.calls
		x.top(col, true, x.guest, name, k%4 < 2, k, append(append([]uint64(nil), eArgs...), flatten(s.P, pv)...), s.R, rv, false, false, st, sc)
		if k < 4 {
			rvk := x.resolve(s.R, s.RV[k])
			sc = &script{exp: []*expect{{Style: st.Name, Params: pv, Results: rvk}}}
			x.top(col, true, x.guest, fmt.Sprintf("tj_%s_%d", st.Name, k), k%2 == 0, k, extArgs(s.P, pv), rMask,
				append(append([]val(nil), rvk...), val{}), true, false, st, sc)
		}
		x.res.TailCalls += col.calls - before
	}
}

func isTailFn(n string) bool {
	return strings.HasPrefix(n, "t_") || strings.HasPrefix(n, "ti_") || strings.HasPrefix(n, "tj_")
}

// guestCalls: exported guest-defined functions called from Go through both forms.
func (x *engineRun) guestCalls(col *collector, seq bool, lo, hi int) {
	s := x.spec
	rMask := plusMask(s.R)
	for k := lo; k < hi; k++ {
		pv, rv := x.resolve(s.P, s.PV[k]), x.resolve(s.R, s.RV[k])
		for _, via := range []bool{false, true} {
			exp := append(x.resolve(s.R, gExpectedResults(s, k, pv)), val{})
			x.top(col, seq, x.guest, fmt.Sprintf("g_%d", k), via, k, flatten(s.P, pv), rMask, exp, true, true, nil, &script{})
			if len(s.P) > 0 {
				x.top(col, seq, x.guest, "idp", via, k, flatten(s.P, pv), s.P, pv, false, false, nil, &script{})
				rt := rotTypes(s.P)
				x.top(col, seq, x.guest, "rotp", !via, k, flatten(s.P, pv), rt, append(append([]val(nil), pv[1:]...), pv[0]), false, false, nil, &script{})
			}
			if len(s.R) > 0 {
				x.top(col, seq, x.guest, "idr", via, k, flatten(s.R, rv), s.R, rv, false, false, nil, &script{})
			}
		}
	}
}

func (x *engineRun) run(wasm []byte, styles []string) {
	ctx := context.Background()
	var cfg wazero.RuntimeConfig
	if x.engine == "interpreter" {
		cfg = wazero.NewRuntimeConfigInterpreter()
	} else {
		cfg = wazero.NewRuntimeConfigCompiler()
	}
	if x.spec.Tail {
		cfg = cfg.WithCoreFeatures(api.CoreFeaturesV2 | experimental.CoreFeaturesTailCall)
	}
	rt := wazero.NewRuntimeWithConfig(ctx, cfg)
	defer rt.Close(ctx)
	x.host = &hostState{x: x}
	var err error
	x.hostMod, err = x.buildHost(ctx, rt, styles)
	if err != nil {
		x.res.BuildErr = "host: " + err.Error()
		return
	}
	if x.spec.Mixed {
		if _, err = rt.InstantiateWithConfig(ctx, provWasm, wazero.NewModuleConfig().WithName(provName)); err != nil {
			x.res.BuildErr = "provider: " + err.Error()
			return
		}
	}
	func() {
		defer func() {
			if r := recover(); r != nil {
				err = fmt.Errorf("panic while compiling/instantiating: %v", r)
			}
		}()
		x.guest, err = rt.InstantiateWithConfig(ctx, wasm, wazero.NewModuleConfig().WithName(guestName))
	}()
	if err != nil {
		x.res.BuildErr = x.engine + " guest: " + err.Error()
		return
	}
	for i := 0; i < nTargets; i++ {
		// (the compiler hands out a fresh opaque value per ref.func evaluation, so
		// the value is obtained once and used as "the" reference to target i)
		a, err1 := x.guest.ExportedFunction(fmt.Sprintf("getref%d", i)).Call(ctx)
		if err1 != nil || len(a) != 1 || a[0] == 0 {
			x.res.BuildErr = fmt.Sprintf("getref%d: %v %v", i, a, err1)
			return
		}
		x.refv[i+1] = a[0]
	}
	K := x.spec.K
	for si := range styles {
		x.styleCalls(x.col, true, si, styles, 0, K)
	}
	x.guestCalls(x.col, true, 0, K)
	if x.spec.Tail {
		for si := range styles {
			x.tailCalls(x.col, si, styles)
		}
	}
	if x.tc.Conc && !hasType(x.spec.P, wenc.FuncRef) && !hasType(x.spec.R, wenc.FuncRef) {
		// two goroutines, each with its own api.Function objects and its own
		// script carried by the context; only styles that receive the context.
		var wg sync.WaitGroup
		cols := []*collector{newCollector(), newCollector()}
		for g := 0; g < 2; g++ {
			wg.Add(1)
			go func(g int) {
				defer wg.Done()
				for si, name := range styles {
					if (si+g)%2 == 0 && styleByName(name).hasCtx() {
						x.styleCalls(cols[g], false, si, styles, 0, K)
					}
				}
				x.guestCalls(cols[g], false, 0, K)
			}(g)
		}
		wg.Wait()
		for _, c := range cols {
			x.res.ConcCalls += c.calls
			x.col.merge(c)
		}
	}
	x.res.Engines++
	x.res.HostCalls += x.host.hostCalls.Load()
	x.res.UpperHost += x.host.upperDirt.Load()
	x.res.Reentries += x.host.reentries.Load()
	if n := x.host.orphans.Load(); n > 0 {
		x.col.findings = append(x.col.findings, finding{Sig: "host-call-without-script:" + x.engine,
			Detail: fmt.Sprintf("%d host calls arrived outside any expected call", n), Witness: map[string]any{"case": x.tc}})
	}
}

// runCase runs a case; a mixed-import case first runs its plain control (same
// signature, values and styles with a functions-only import section): what
// only the mixed guest shows is reported under "mixed-import-section:".
func runCase(tc *echoCase) *caseResult {
	if !tc.Mixed {
		return runCase1(tc)
	}
	plain := *tc
	plain.Mixed = false
	a := runCase1(&plain)
	if a.BuildErr != "" || a.Inconclusive != "" {
		return a
	}
	b := runCase1(tc)
	inPlain := map[string]bool{}
	for _, f := range a.Findings {
		inPlain[f.Sig] = true
	}
	if b.BuildErr != "" {
		eng := "compiler"
		if strings.HasPrefix(b.BuildErr, "interpreter") {
			eng = "interpreter"
		}
		b.Findings = append(b.Findings, finding{Sig: "guest-does-not-build:" + eng, Detail: "signature " + tc.Sig + ": " + core.Trunc(b.BuildErr, 500),
			Witness: map[string]any{"case": tc, "error": core.Trunc(b.BuildErr, 2000)}})
		b.BuildErr = ""
		b.Engines = 2
	}
	for _, f := range b.Findings {
		if inPlain[f.Sig] {
			continue
		}
		{
			f.Witness["unclassified_sig"] = f.Sig
			f.Sig = "mixed-import-section:" + mixedSig(f.Sig)
			f.Detail = "only with non-function imports interleaved and a decoy type 0 (the functions-only control guest is clean): " + f.Detail
		}
		a.Findings = append(a.Findings, f)
	}
	a.Calls += b.Calls
	a.HostCalls += b.HostCalls
	a.Values += b.Values
	a.Masks += b.Masks
	a.MaskTests += b.MaskTests
	a.Reentries += b.Reentries
	a.MixedCalls = b.Calls
	a.TailCalls += b.TailCalls
	if b.Engines != 2 {
		a.Engines = b.Engines
	}
	return a
}

// mixedSig collapses what only the mixed guest shows to the direction that is
// wrong (one root cause otherwise fans out over every style and type).
func mixedSig(sig string) string {
	eng := ""
	for _, e := range []string{":compiler", ":interpreter"} {
		if strings.HasSuffix(sig, e) {
			eng = e
		}
	}
	switch {
	case strings.Contains(sig, "-param:"):
		return "host-function-receives-other-values" + eng
	case strings.Contains(sig, "-result:"):
		return "guest-receives-other-results" + eng
	case strings.Contains(sig, "guest-local-clobbered"):
		return "guest-local-clobbered-across-host-call" + eng
	}
	return sig
}

func runCase1(tc *echoCase) *caseResult {
	res := &caseResult{ByStyle: map[string]int64{}, ByForm: map[string]int64{}, Classes: map[string]int64{}}
	P, R := parseSig(tc.Sig)
	if len(P) > maxArity || len(R) > maxArity {
		res.Inconclusive = "arity"
		return res
	}
	r := core.NewRng(int64(tc.Seed), 8)
	spec := &guestSpec{P: P, R: R, K: tc.K, Mixed: tc.Mixed, Layout: tc.Seed ^ 0x5EED}
	spec.PV = genVectors(r, P, tc.K, int(tc.Seed%7))
	spec.RV = genVectors(r, R, tc.K, int(tc.Seed%5)+3)
	spec.Styles = stylesFor(P, R)
	res.Styles = spec.Styles
	if tc.Tail {
		spec.Tail = true
		spec.E, spec.EV = tailExtras(tc.Seed)
		res.TailShape = tailShape(spec)
	}
	for k := 0; k < tc.K; k++ {
		for i, t := range P {
			res.Classes["param "+valueClass(t, spec.PV[k][i])]++
		}
		for j, t := range R {
			res.Classes["result "+valueClass(t, spec.RV[k][j])]++
		}
	}
	wasm := buildGuest(spec)
	res.ModuleBytes = len(wasm)
	col := newCollector()
	for _, eng := range []string{"interpreter", "compiler"} {
		x := &engineRun{tc: tc, engine: eng, spec: spec, signMask: tc.SignMask, res: res, col: col}
		x.run(wasm, spec.Styles)
	}
	res.Findings = col.findings
	res.Calls, res.Values, res.Masks, res.MaskTests, res.UpperGo = col.calls, col.values, col.masks, col.maskBits, col.upperGo
	res.ByStyle, res.ByForm, res.UpperGoBy = col.byStyle, col.byForm, col.upperBy
	return res
}

func child(mode string, in json.RawMessage) any {
	if mode == "bighost" {
		return childBig(in)
	}
	if mode == "namedfixed" {
		return childNamed(in)
	}
	var tc echoCase
	if err := json.Unmarshal(in, &tc); err != nil {
		return &caseResult{Inconclusive: "bad-case"}
	}
	return runCase(&tc)
}

// tailExtras: the extra leading parameters of the tail-call wrappers: 0..12
// values of the integer or of the float class (biased to 7..12, where the
// wrapper gets stack-passed parameters), a few of the other class mixed in.
func tailExtras(seed uint64) ([]T, []val) {
	r := core.NewRng(int64(seed), 90)
	n := r.Intn(13)
	if r.Bool() {
		n = 7 + r.Intn(6)
	}
	floats := r.Bool()
	ts := make([]T, n)
	vs := make([]val, n)
	for i := range ts {
		fl := floats
		if r.Chance(1, 8) {
			fl = !fl
		}
		if fl {
			ts[i] = []T{wenc.F64, wenc.F32}[r.Intn(2)]
		} else {
			ts[i] = []T{wenc.I64, wenc.I32}[r.Intn(2)]
		}
		vs[i] = genVal(r, ts[i], r.Intn(nEdge), i, 0)
	}
	return ts, vs
}

func classCount(ts []T) (ints, floats int) {
	for _, t := range ts {
		switch t {
		case wenc.F32, wenc.F64, wenc.V128:
			floats++
		default:
			ints++
		}
	}
	return
}

// tailShape says whether the wrapper has stack-passed parameters (amd64: more
// than 7 integer/reference or 8 float parameters) while the callee has none, and
// whether the results go beyond the result registers (9 integer, 8 float).
func tailShape(s *guestSpec) string {
	wi, wf := classCount(append(append([]T(nil), s.E...), s.P...))
	pi, pf := classCount(s.P)
	ri, rf := classCount(s.R)
	out := "other"
	if (wi > 7 || wf > 8) && pi <= 7 && pf <= 8 {
		switch {
		case ri > 9 && rf > 8:
			out = "wrapper-stack-params+callee-reg-params+stack-results-int+float"
		case ri > 9:
			out = "wrapper-stack-params+callee-reg-params+stack-results-int"
		case rf > 8:
			out = "wrapper-stack-params+callee-reg-params+stack-results-float"
		default:
			out = "wrapper-stack-params+callee-reg-params+reg-results"
		}
	}
	return out
}
