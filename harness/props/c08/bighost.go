package c08

import (
	"context"
	"encoding/json"
	"fmt"
	"math"
	"reflect"
	"sort"
	"strings"
	"sync"

	"github.com/tetratelabs/wazero"
	"github.com/tetratelabs/wazero/api"
	"github.com/tetratelabs/wazero/verifharness/core"
	"github.com/tetratelabs/wazero/verifharness/wenc"
)

// Large host modules: host modules with hundreds of exported functions
// (sizes around the 256 / 512 / 1024 boundaries), every function with its own
// identity, a guest that imports all of them (or a subset that contains the
// boundary indexes) with one pass-through wrapper per import. The oracle: the
// host function that ran is exactly the one the guest imported (module and
// index), it received exactly the parameters sent, and Go received exactly the
// identity-derived results of that function.

type bigCase struct {
	Seed   uint64 `json:"seed"`
	Sizes  []int  `json:"sizes"`           // number of exported functions of host module m ("hm<m>")
	Subset bool   `json:"subset"`          // guest imports a PRNG subset (always with the boundary indexes) instead of everything
	Mixed  bool   `json:"mixed,omitempty"` // mixed import section with a decoy type 0 (mixed.go)
	Class  string `json:"class"`
}

type bigResult struct {
	Findings      []finding        `json:"findings,omitempty"`
	Engines       int              `json:"engines"`
	Calls         int64            `json:"calls"`
	CallsGE256    int64            `json:"calls_ge256"`
	CallsShadowed int64            `json:"calls_shadowed,omitempty"` // calls to function imports that follow a non-function import with the same per-kind index
	HostFuncs     int64            `json:"host_funcs"`
	Imports       int64            `json:"imports"`
	Modules       int              `json:"modules"`
	Values        int64            `json:"values"`
	ByStyle       map[string]int64 `json:"by_style"`
	ByForm        map[string]int64 `json:"by_form"`
	Probed        []string         `json:"probed,omitempty"` // boundary indexes that were called
	BuildErr      string           `json:"build_err,omitempty"`
	Inconclusive  string           `json:"inconclusive,omitempty"`
}

type bigShape struct{ P, R []T }

var bigShapes = []bigShape{
	{nil, []T{wenc.I32}},
	{[]T{wenc.I32}, []T{wenc.I32}},
	{[]T{wenc.I64, wenc.F64, wenc.I32}, []T{wenc.I64, wenc.F64, wenc.I32}},
	{[]T{wenc.F32, wenc.I64}, []T{wenc.I64}},
	{[]T{wenc.I32, wenc.I32, wenc.I64, wenc.F64, wenc.F32, wenc.I64, wenc.I32, wenc.I64, wenc.I64, wenc.I32}, []T{wenc.I64, wenc.I32}},
	{[]T{wenc.I64}, nil},
}

var bigStyles = []string{"gf", "gm", "r0s", "r2u"}

type bigFunc struct {
	M, J  int
	Shape int
	Style string
}

type bigRec struct {
	M, J int
	Got  []uint64
	Note string
}

// cleanBits: keep a value of type t free of NaNs (this scenario is about
// routing; NaN bit patterns are the echo scenario's business).
func cleanBits(t T, v uint64) uint64 {
	switch t {
	case wenc.I32:
		return uint64(uint32(v))
	case wenc.F32:
		return uint64(uint32(v) &^ 0x40000000)
	case wenc.F64:
		return v &^ 0x4000000000000000
	}
	return v
}

// bigResultOf: result r of host function (m, j) for the given parameters.
func bigResultOf(m, j, r int, t T, params []uint64) uint64 {
	h := uint64(m+1)*0x9E3779B97F4A7C15 ^ uint64(j+1)*0xD1B54A32D192ED03 ^ uint64(r+1)*0x94D049BB133111EB
	for i, p := range params {
		h ^= (p + uint64(i)) * 0xBF58476D1CE4E5B9
		h = h<<13 | h>>51
	}
	// the identity is also readable directly: low 16 bits = j, next 8 = m
	h = h&^0xFFFFFF | uint64(j&0xFFFF) | uint64(m&0xFF)<<16
	return cleanBits(t, h)
}

func bigLayout(tc *bigCase) [][]bigFunc {
	r := core.NewRng(int64(tc.Seed), 85)
	out := make([][]bigFunc, len(tc.Sizes))
	for m, n := range tc.Sizes {
		out[m] = make([]bigFunc, n)
		for j := range out[m] {
			f := bigFunc{M: m, J: j}
			if m == 0 {
				// periods divide 256: a call that lands on index j&0xff finds the same shape and style
				f.Shape = []int{2, 1, 4, 3}[j%4]
				f.Style = bigStyles[(j/4)%4]
			} else {
				f.Shape = r.Intn(len(bigShapes))
				f.Style = bigStyles[r.Intn(len(bigStyles))]
			}
			out[m][j] = f
		}
	}
	return out
}

type bigRun struct {
	engine string
	mu     sync.Mutex
	recs   []bigRec
}

func (b *bigRun) record(rec bigRec) {
	b.mu.Lock()
	b.recs = append(b.recs, rec)
	b.mu.Unlock()
}

func bigGoType(t T, unsigned bool) reflect.Type {
	switch t {
	case wenc.I32:
		if unsigned {
			return tUint32
		}
		return tInt32
	case wenc.I64:
		if unsigned {
			return tUint64
		}
		return tInt64
	case wenc.F32:
		return tFloat32
	}
	return tFloat64
}

func (b *bigRun) addHostFunc(hb wazero.HostModuleBuilder, f bigFunc) {
	sh := bigShapes[f.Shape]
	name := fmt.Sprintf("f%d", f.J)
	stackBody := func(stack []uint64) {
		rec := bigRec{M: f.M, J: f.J}
		n := slots(sh.P)
		if len(stack) < n {
			rec.Note = fmt.Sprintf("stack has %d slots, function (%d,%d) takes %d", len(stack), f.M, f.J, n)
			n = len(stack)
		}
		params := make([]uint64, n)
		for i := 0; i < n; i++ {
			params[i] = cleanOrRaw(sh.P, i, stack[i])
		}
		rec.Got = params
		b.record(rec)
		for r, t := range sh.R {
			if r < len(stack) {
				stack[r] = bigResultOf(f.M, f.J, r, t, params)
			}
		}
	}
	switch f.Style {
	case "gf":
		hb.NewFunctionBuilder().WithGoFunction(api.GoFunc(func(_ context.Context, stack []uint64) { stackBody(stack) }), sh.P, sh.R).Export(name)
	case "gm":
		hb.NewFunctionBuilder().WithGoModuleFunction(api.GoModuleFunc(func(_ context.Context, _ api.Module, stack []uint64) { stackBody(stack) }), sh.P, sh.R).Export(name)
	default:
		unsigned := f.Style == "r2u"
		var in, out []reflect.Type
		if unsigned {
			in = append(in, tCtx, tMod)
		}
		off := len(in)
		for _, t := range sh.P {
			in = append(in, bigGoType(t, unsigned))
		}
		for _, t := range sh.R {
			out = append(out, bigGoType(t, unsigned))
		}
		fn := reflect.MakeFunc(reflect.FuncOf(in, out, false), func(args []reflect.Value) []reflect.Value {
			params := make([]uint64, len(sh.P))
			for i := range sh.P {
				a := args[off+i]
				switch a.Kind() {
				case reflect.Int32:
					params[i] = uint64(uint32(int32(a.Int())))
				case reflect.Int64:
					params[i] = uint64(a.Int())
				case reflect.Uint32, reflect.Uint64:
					params[i] = a.Uint()
				case reflect.Float32:
					params[i] = uint64(math.Float32bits(a.Interface().(float32)))
				case reflect.Float64:
					params[i] = math.Float64bits(a.Float())
				}
			}
			b.record(bigRec{M: f.M, J: f.J, Got: params})
			rv := make([]reflect.Value, len(sh.R))
			for r, t := range sh.R {
				v := bigResultOf(f.M, f.J, r, t, params)
				switch out[r] {
				case tInt32:
					rv[r] = reflect.ValueOf(int32(uint32(v)))
				case tUint32:
					rv[r] = reflect.ValueOf(uint32(v))
				case tInt64:
					rv[r] = reflect.ValueOf(int64(v))
				case tUint64:
					rv[r] = reflect.ValueOf(v)
				case tFloat32:
					rv[r] = reflect.ValueOf(math.Float32frombits(uint32(v)))
				default:
					rv[r] = reflect.ValueOf(math.Float64frombits(v))
				}
			}
			return rv
		})
		hb.NewFunctionBuilder().WithFunc(fn.Interface()).Export(name)
	}
}

// cleanOrRaw: 32-bit parameters are read as the low half of the slot.
func cleanOrRaw(ts []T, i int, v uint64) uint64 {
	if i < len(ts) && (ts[i] == wenc.I32 || ts[i] == wenc.F32) {
		return uint64(uint32(v))
	}
	return v
}

type bigProbe struct {
	f    bigFunc
	name string // wrapper export
}

// bigBoundary: the indexes of a module of size n that must be probed.
func bigBoundary(n int) []int {
	var out []int
	for _, j := range []int{0, 1, 254, 255, 256, 257, 258, 511, 512, 513, 767, 768, 1023, 1024, 1025, n - 2, n - 1} {
		if j >= 0 && j < n {
			out = append(out, j)
		}
	}
	return out
}

func runBig(tc *bigCase) *bigResult {
	res := &bigResult{ByStyle: map[string]int64{}, ByForm: map[string]int64{}, Modules: len(tc.Sizes)}
	layout := bigLayout(tc)
	r := core.NewRng(int64(tc.Seed), 86)
	// which functions the guest imports, in which order
	var imports []bigFunc
	must := map[[2]int]bool{}
	for m, fs := range layout {
		for _, j := range bigBoundary(len(fs)) {
			must[[2]int{m, j}] = true
		}
	}
	for m, fs := range layout {
		for j, f := range fs {
			if !tc.Subset || must[[2]int{m, j}] || r.Chance(1, 6) {
				imports = append(imports, f)
			}
		}
	}
	for i := len(imports) - 1; i > 0; i-- { // guest import order is independent of host order
		k := r.Intn(i + 1)
		imports[i], imports[k] = imports[k], imports[i]
	}
	gm := &wenc.Module{}
	addImp := func(i int) {
		f := imports[i]
		sh := bigShapes[f.Shape]
		gm.ImportFunc(fmt.Sprintf("hm%d", f.M), fmt.Sprintf("f%d", f.J), sh.P, sh.R)
	}
	shadowed := make([]bool, len(imports))
	if tc.Mixed {
		gm.AddType([]T{wenc.F64, wenc.F64, wenc.F64}, nil) // decoy type 0: none of the shapes
		shadowed = addMixedImports(gm, core.NewRng(int64(tc.Seed), 88), len(imports), addImp)
	} else {
		for i := range imports {
			addImp(i)
		}
	}
	isShadowed := map[string]bool{}
	var probes, mustProbes []bigProbe
	for i, f := range imports {
		if shadowed[i] {
			must[[2]int{f.M, f.J}] = true
			isShadowed[fmt.Sprintf("w%d_%d", f.M, f.J)] = true
		}
		sh := bigShapes[f.Shape]
		c := &wenc.Code{}
		for p := range sh.P {
			c.LocalGet(uint32(p))
		}
		c.Call(uint32(i)).End()
		name := fmt.Sprintf("w%d_%d", f.M, f.J)
		gm.ExportFunc(name, gm.AddFunc(sh.P, sh.R, nil, c.B))
		if must[[2]int{f.M, f.J}] {
			mustProbes = append(mustProbes, bigProbe{f, name})
		} else {
			probes = append(probes, bigProbe{f, name})
		}
	}
	// sample: all boundary probes + PRNG others up to ~200 (biased to indexes >= 256)
	sort.Slice(mustProbes, func(a, b int) bool {
		if mustProbes[a].f.M != mustProbes[b].f.M {
			return mustProbes[a].f.M < mustProbes[b].f.M
		}
		return mustProbes[a].f.J < mustProbes[b].f.J
	})
	sample := append([]bigProbe(nil), mustProbes...)
	for len(sample) < 200 && len(probes) > 0 {
		k := r.Intn(len(probes))
		if probes[k].f.J < 256 && r.Chance(1, 2) {
			k = r.Intn(len(probes))
		}
		sample = append(sample, probes[k])
		probes[k] = probes[len(probes)-1]
		probes = probes[:len(probes)-1]
	}
	wasm := gm.Encode()
	res.Imports = int64(len(imports))
	for _, p := range mustProbes {
		res.Probed = append(res.Probed, fmt.Sprintf("hm%d(%d).f%d", p.f.M, len(layout[p.f.M]), p.f.J))
	}
	seen := map[string]bool{}
	report := func(eng, what string, p bigProbe, form, detail string, extra map[string]any) {
		cls := "index<256"
		if p.f.J >= 256 {
			cls = "index>=256"
		}
		if isShadowed[p.name] {
			cls = "function-import-after-non-function-import"
		}
		sig := fmt.Sprintf("large-host-module:%s:%s:%s", what, cls, eng)
		if seen[sig] {
			return
		}
		seen[sig] = true
		w := map[string]any{"big_case": tc, "engine": eng, "wrapper": p.name, "host_module": fmt.Sprintf("hm%d", p.f.M),
			"host_module_size": len(layout[p.f.M]), "host_function_index": p.f.J, "style": p.f.Style, "form": form}
		for k, v := range extra {
			w[k] = v
		}
		res.Findings = append(res.Findings, finding{Sig: sig, Witness: w,
			Detail: fmt.Sprintf("%s: guest wrapper %s calls hm%d.f%d (module of %d functions, style %s) via %s: %s", eng, p.name, p.f.M, p.f.J, len(layout[p.f.M]), p.f.Style, form, detail)})
	}
	ctx := context.Background()
	for _, eng := range []string{"interpreter", "compiler"} {
		cfg := wazero.NewRuntimeConfigCompiler()
		if eng == "interpreter" {
			cfg = wazero.NewRuntimeConfigInterpreter()
		}
		rt := wazero.NewRuntimeWithConfig(ctx, cfg)
		b := &bigRun{engine: eng}
		ok := true
		for m, fs := range layout {
			hb := rt.NewHostModuleBuilder(fmt.Sprintf("hm%d", m))
			for _, f := range fs {
				b.addHostFunc(hb, f)
			}
			if _, err := hb.Instantiate(ctx); err != nil {
				res.BuildErr = fmt.Sprintf("%s host module %d (%d functions): %v", eng, m, len(fs), err)
				ok = false
				break
			}
			res.HostFuncs += int64(len(fs))
		}
		var guest api.Module
		if ok && tc.Mixed {
			if _, err := rt.InstantiateWithConfig(ctx, provWasm, wazero.NewModuleConfig().WithName(provName)); err != nil {
				res.BuildErr = fmt.Sprintf("%s provider: %v", eng, err)
				ok = false
			}
		}
		if ok {
			var err error
			func() {
				defer func() {
					if r := recover(); r != nil {
						err = fmt.Errorf("panic while compiling/instantiating: %v", r)
					}
				}()
				guest, err = rt.InstantiateWithConfig(ctx, wasm, wazero.NewModuleConfig().WithName("big"))
			}()
			if err != nil && tc.Mixed {
				res.Findings = append(res.Findings, finding{Sig: "large-host-module:mixed-import-section:guest-does-not-build:" + eng,
					Detail: core.Trunc(err.Error(), 500), Witness: map[string]any{"big_case": tc, "error": core.Trunc(err.Error(), 2000)}})
				rt.Close(ctx)
				res.Engines++
				continue
			}
			if err != nil {
				res.BuildErr = fmt.Sprintf("%s guest: %v", eng, err)
				ok = false
			}
		}
		if !ok {
			rt.Close(ctx)
			return res
		}
		vr := core.NewRng(int64(tc.Seed), 87) // same values on both engines
		for n, p := range sample {
			sh := bigShapes[p.f.Shape]
			params := make([]uint64, len(sh.P))
			for i, t := range sh.P {
				switch t {
				case wenc.I32:
					params[i] = uint64(vr.I32())
				case wenc.I64:
					params[i] = vr.I64()
				case wenc.F32:
					params[i] = cleanBits(t, uint64(vr.F32()))
				default:
					params[i] = cleanBits(t, vr.F64())
				}
			}
			want := make([]uint64, len(sh.R))
			for rI, t := range sh.R {
				want[rI] = bigResultOf(p.f.M, p.f.J, rI, t, params)
			}
			viaStack := n%2 == 1
			form := "call"
			if viaStack {
				form = "callwithstack"
			}
			b.recs = b.recs[:0]
			fn := guest.ExportedFunction(p.name)
			var got []uint64
			var err error
			if viaStack {
				sz := len(params)
				if len(want) > sz {
					sz = len(want)
				}
				stk := make([]uint64, sz)
				copy(stk, params)
				err = fn.CallWithStack(ctx, stk)
				got = stk[:len(want)]
			} else {
				got, err = fn.Call(ctx, params...)
			}
			res.Calls++
			if p.f.J >= 256 {
				res.CallsGE256++
			}
			if isShadowed[p.name] {
				res.CallsShadowed++
			}
			res.ByStyle[p.f.Style]++
			res.ByForm[form]++
			recs := append([]bigRec(nil), b.recs...)
			ran := make([]string, len(recs))
			for i, rc := range recs {
				ran[i] = fmt.Sprintf("hm%d.f%d", rc.M, rc.J)
			}
			extra := map[string]any{"params": fmt.Sprintf("%#x", params), "expected_results": fmt.Sprintf("%#x", want),
				"got_results": fmt.Sprintf("%#x", got), "host_functions_that_ran": ran}
			// 1. identity: exactly the imported host function ran
			misrouted := false
			switch {
			case len(recs) == 1 && (recs[0].M != p.f.M || recs[0].J != p.f.J):
				misrouted = true
				report(eng, "call-dispatched-to-other-host-function", p, form,
					fmt.Sprintf("host function hm%d.f%d received the call instead (params it saw %#x)", recs[0].M, recs[0].J, recs[0].Got), extra)
			case len(recs) == 0 && err == nil:
				report(eng, "host-function-not-called", p, form, "no host function recorded the call", extra)
			case len(recs) > 1:
				report(eng, "several-host-functions-called", p, form, strings.Join(ran, ","), extra)
			}
			if err != nil {
				extra["error"] = core.Trunc(err.Error(), 600)
				what := "call-error:" + errClassStr(err.Error())
				if len(recs) == 0 {
					what = "call-failed-before-the-imported-function-ran" // (error text in the detail: usually a type assertion on another function's Go value)
				}
				if !misrouted {
					report(eng, what, p, form, core.Trunc(err.Error(), 300), extra)
				}
				continue
			}
			if misrouted {
				continue
			}
			// 2. params exact
			if len(recs) == 1 {
				if recs[0].Note != "" {
					report(eng, "host-stack-too-short", p, form, recs[0].Note, extra)
				}
				for i := range params {
					res.Values++
					if i >= len(recs[0].Got) || recs[0].Got[i] != cleanOrRaw(sh.P, i, params[i]) {
						report(eng, "param-mismatch:"+wenc.TypeName(sh.P[i]), p, form,
							fmt.Sprintf("param %d sent %#x, host saw %#x", i, params[i], recs[0].Got), extra)
						break
					}
				}
			}
			// 3. results exact (32-bit types on the low half of the slot)
			if len(got) != len(want) {
				report(eng, "result-count", p, form, fmt.Sprintf("%d results, want %d", len(got), len(want)), extra)
				continue
			}
			for rI, t := range sh.R {
				res.Values++
				if cleanOrRaw(sh.R, rI, got[rI]) != want[rI] {
					det := fmt.Sprintf("result %d = %#x, want %#x", rI, got[rI], want[rI])
					if j, m := int(got[rI]&0xFFFF), int(got[rI]>>16&0xFF); t == wenc.I64 && (j != p.f.J || m != p.f.M) {
						det += fmt.Sprintf(" (carries the identity of hm%d.f%d)", m, j)
					}
					report(eng, "result-mismatch:"+wenc.TypeName(t), p, form, det, extra)
					break
				}
			}
		}
		rt.Close(ctx)
		res.Engines++
	}
	return res
}

func childBig(in json.RawMessage) any {
	var tc bigCase
	if err := json.Unmarshal(in, &tc); err != nil || len(tc.Sizes) == 0 {
		return &bigResult{Inconclusive: "bad-case"}
	}
	return runBig(&tc)
}

// genBigCases: sizes around the 256 / 512 / 1024 boundaries (and two controls
// at and below 256), single large modules and several modules per guest.
func genBigCases(c *core.Ctx, r *core.Rng) []bigCase {
	var out []bigCase
	n := c.N(14, 70)
	for i := 0; i < n; i++ {
		var size int
		switch i % 7 {
		case 0:
			size = 257 + r.Intn(8)
		case 1:
			size = 505 + r.Intn(16)
		case 2:
			size = 1018 + r.Intn(14)
		case 3:
			size = 258 + r.Intn(843) // anywhere in 258..1100
		case 4:
			size = []int{255, 256, 257, 512, 513, 1024, 1025, 1100}[r.Intn(8)]
		case 5:
			size = 1100 - r.Intn(40)
		default:
			size = 300 + r.Intn(300)
		}
		bc := bigCase{Seed: r.U64() >> 1, Sizes: []int{size}, Subset: i%3 == 2, Class: "single-large-module"}
		if i%7 == 6 || i%7 == 3 {
			// several host modules: small ones around a large one, and a second large one
			bc.Class = "several-modules"
			bc.Sizes = []int{260 + r.Intn(300), 3 + r.Intn(60), 257 + r.Intn(40), 1 + r.Intn(20)}
			if r.Bool() {
				bc.Sizes = append(bc.Sizes, 513+r.Intn(30))
			}
			bc.Subset = r.Bool()
		}
		bc.Mixed = i%2 == 1
		out = append(out, bc)
	}
	return out
}
