package c08

import (
	"github.com/tetratelabs/wazero/verifharness/core"
	"github.com/tetratelabs/wazero/verifharness/wenc"
)

// Mixed import sections: the guest imports, besides the host functions, four
// globals, a memory and a table from a small provider module of the harness,
// interleaved in PRNG order with the function imports (non-function imports
// first in at least half of the cases), and its type section starts with a
// decoy type of another arity, so no imported function uses type 0.

const provName = "prov"

// providerModule exports g_i32 g_i64 g_f32 g_f64 (immutable globals), mem (1 page), tab (funcref, 2).
func providerModule() []byte {
	m := &wenc.Module{}
	m.Globals = []wenc.Global{
		{Type: wenc.GlobalType{Type: wenc.I32}, Init: wenc.ConstI32(0x1234567)},
		{Type: wenc.GlobalType{Type: wenc.I64}, Init: wenc.ConstI64(0x1122334455667788)},
		{Type: wenc.GlobalType{Type: wenc.F32}, Init: wenc.ConstF32(0x40490FDB)},
		{Type: wenc.GlobalType{Type: wenc.F64}, Init: wenc.ConstF64(0x400921FB54442D18)},
	}
	m.Mems = []wenc.Limits{{Min: 1}}
	m.Tables = []wenc.TableType{{Elem: wenc.FuncRef, Lim: wenc.Limits{Min: 2}}}
	for i, n := range []string{"g_i32", "g_i64", "g_f32", "g_f64"} {
		m.Exports = append(m.Exports, wenc.Export{Name: n, Kind: wenc.ExtGlobal, Idx: uint32(i)})
	}
	m.Exports = append(m.Exports, wenc.Export{Name: "mem", Kind: wenc.ExtMemory}, wenc.Export{Name: "tab", Kind: wenc.ExtTable})
	return m.Encode()
}

var provWasm = providerModule()

// nonFuncImports: the six non-function imports of a mixed guest.
func nonFuncImports() []wenc.Import {
	return []wenc.Import{
		{Module: provName, Name: "g_i32", Kind: wenc.ExtGlobal, Global: wenc.GlobalType{Type: wenc.I32}},
		{Module: provName, Name: "g_i64", Kind: wenc.ExtGlobal, Global: wenc.GlobalType{Type: wenc.I64}},
		{Module: provName, Name: "g_f32", Kind: wenc.ExtGlobal, Global: wenc.GlobalType{Type: wenc.F32}},
		{Module: provName, Name: "g_f64", Kind: wenc.ExtGlobal, Global: wenc.GlobalType{Type: wenc.F64}},
		{Module: provName, Name: "mem", Kind: wenc.ExtMemory, Mem: wenc.Limits{Min: 1}},
		{Module: provName, Name: "tab", Kind: wenc.ExtTable, Table: wenc.TableType{Elem: wenc.FuncRef, Lim: wenc.Limits{Min: 1}}},
	}
}

const (
	nImportedGlobals = 4
	nImportedTables  = 1
)

// mixedOrder decides where the non-function imports go among nFuncs function
// imports: out[i] = true means "function import next", false = "next
// non-function import". Non-function imports come first in 5 of 8 layouts.
func mixedOrder(r *core.Rng, nFuncs int) []bool {
	nf := len(nonFuncImports())
	out := make([]bool, 0, nFuncs+nf)
	if r.Intn(8) < 5 {
		for i := 0; i < nf; i++ {
			out = append(out, false)
		}
		for i := 0; i < nFuncs; i++ {
			out = append(out, true)
		}
		return out
	}
	// interleaved: the non-function imports are shuffled among the first few
	// function imports (later ones could not share a per-kind index anyway)
	head := nFuncs
	if head > 8 {
		head = 8
	}
	for i := 0; i < head; i++ {
		out = append(out, true)
	}
	for i := 0; i < nf; i++ {
		out = append(out, false)
	}
	for i := len(out) - 1; i > 0; i-- {
		k := r.Intn(i + 1)
		out[i], out[k] = out[k], out[i]
	}
	for i := head; i < nFuncs; i++ {
		out = append(out, true)
	}
	return out
}

// addMixedImports adds the imports in the decided order; addFunc(i) must add
// the i-th function import. It returns, per function import, whether an earlier
// non-function import has the same per-kind index.
func addMixedImports(m *wenc.Module, r *core.Rng, nFuncs int, addFunc func(i int)) (shadowed []bool) {
	nfs := nonFuncImports()
	for i := len(nfs) - 1; i > 0; i-- {
		k := r.Intn(i + 1)
		nfs[i], nfs[k] = nfs[k], nfs[i]
	}
	shadowed = make([]bool, nFuncs)
	perKind := map[byte]int{}
	seenIdx := map[int]bool{} // per-kind indexes taken by earlier non-function imports
	fi, ni := 0, 0
	for _, isFunc := range mixedOrder(r, nFuncs) {
		if isFunc {
			shadowed[fi] = seenIdx[fi]
			addFunc(fi)
			fi++
		} else {
			im := nfs[ni]
			ni++
			seenIdx[perKind[im.Kind]] = true
			perKind[im.Kind]++
			m.Imports = append(m.Imports, im)
		}
	}
	return shadowed
}

// decoyType: a type of another arity than (p -> r), placed at type index 0.
func decoyType(p, r []T) (dp, dr []T) {
	switch {
	case len(p) >= 2:
		return []T{p[len(p)-1]}, r
	case len(p) == 1:
		return nil, r
	}
	return []T{wenc.I64}, r
}
