// Package c08 decides C08 (values cross the host/guest boundary unchanged)
// with an echo protocol over generated signatures: for every signature a
// guest built with wenc passes harness-chosen values to host functions of every
// definition style; the host functions record what arrived and return fresh
// known values; the guest returns them to Go and also judges them inside wasm
// against baked constants (bit mask result). The reverse direction (exported
// guest functions through Call / CallWithStack) and host functions re-entering
// the guest are driven the same way. Both engines; all expectations are
// computed by the harness, no engine is trusted as reference.
package c08

import (
	"encoding/json"
	"fmt"
	"os"
	"sort"
	"strings"
	"time"

	"github.com/tetratelabs/wazero/verifharness/core"
	"github.com/tetratelabs/wazero/verifharness/wenc"
)

var Prop = &core.Prop{ID: "C08", Run: run, Child: child, Replay: replay}

var numeric = []T{wenc.I32, wenc.I64, wenc.F32, wenc.F64}
var all7 = []T{wenc.I32, wenc.I64, wenc.F32, wenc.F64, wenc.ExternRef, wenc.FuncRef, wenc.V128}

// tuples returns every type list over alphabet with length <= maxLen.
func tuples(alphabet []T, maxLen int) [][]T {
	out := [][]T{nil}
	prev := [][]T{nil}
	for l := 1; l <= maxLen; l++ {
		var cur [][]T
		for _, p := range prev {
			for _, t := range alphabet {
				cur = append(cur, append(append([]T(nil), p...), t))
			}
		}
		out = append(out, cur...)
		prev = cur
	}
	return out
}

func background(kind string, n int) []T {
	out := make([]T, n)
	for i := range out {
		switch kind {
		case "int":
			out[i] = []T{wenc.I64, wenc.I32}[i%2]
		case "float":
			out[i] = []T{wenc.F64, wenc.F32}[i%2]
		default:
			out[i] = []T{wenc.I32, wenc.F64, wenc.I64, wenc.F32}[i%4]
		}
	}
	return out
}

func repeat(t T, n int) []T {
	out := make([]T, n)
	for i := range out {
		out[i] = t
	}
	return out
}

type sigClass struct {
	sig, class string
}

// genSigs: the fixed signature list of a tier (PRNG part derived from the seed).
func genSigs(c *core.Ctx, r *core.Rng) []sigClass {
	var out []sigClass
	seen := map[string]bool{}
	add := func(p, rs []T, class string) {
		s := sigString(p, rs)
		if seen[s] {
			return
		}
		seen[s] = true
		out = append(out, sigClass{s, class})
	}
	// 1. exhaustive: params <= 3, results <= 2 over the numeric types
	for _, p := range tuples(numeric, 3) {
		for _, rs := range tuples(numeric, 2) {
			add(p, rs, "exhaustive-numeric")
		}
	}
	// 2. covering set: every type at every position 0..13 on both sides, with
	// integer-heavy / float-heavy / mixed neighbours, full length and minimal length
	for _, bg := range [][2]string{{"int", "int"}, {"float", "float"}, {"int", "float"}, {"float", "int"}, {"mixed", "mixed"}} {
		for _, t := range all7 {
			for pos := 0; pos < maxArity; pos++ {
				for _, n := range []int{maxArity, pos + 1} {
					p, rs := background(bg[0], n), background(bg[1], n)
					p[pos], rs[pos] = t, t
					add(p, rs, "covering")
				}
			}
		}
	}
	// 3. register cliffs: n values of one class, then one of another
	for _, a := range numeric {
		for n := 0; n <= maxArity; n++ {
			add(repeat(a, n), repeat(a, (n+7)%(maxArity+1)), "cliff")
		}
	}
	for _, a := range []T{wenc.I64, wenc.F64, wenc.I32, wenc.F32} {
		for _, b := range all7 {
			if a == b {
				continue
			}
			for n := 5; n <= 12; n++ {
				add(append(repeat(a, n), b), append(repeat(a, n+1), b), "cliff")
				add(append(append(repeat(a, n), b), a), append(repeat(a, n-1), b, b), "cliff")
			}
		}
	}
	// 3b. tail-call cliff: few (register-passed) params, 9..12 results of one class (beyond the
	// result registers); run with tail-call wrappers that have up to 12 extra params of their own
	for _, a := range numeric {
		for _, b := range numeric {
			for _, np := range []int{0, 1, 3} {
				for nr := 9; nr <= 12; nr++ {
					add(repeat(a, np), repeat(b, nr), "tail-cliff")
				}
			}
		}
	}
	// 4. exhaustive small arities over all seven types (quick: PRNG sample)
	var ex7 []sigClass
	for _, p := range tuples(all7, 3) {
		for _, rs := range tuples(all7, 2) {
			if s := sigString(p, rs); !seen[s] {
				ex7 = append(ex7, sigClass{s, "exhaustive-all-types"})
			}
		}
	}
	if c.Quick() {
		for i := 0; i < 450; i++ {
			e := ex7[r.Intn(len(ex7))]
			if !seen[e.sig] {
				seen[e.sig] = true
				out = append(out, e)
			}
		}
	} else {
		for _, e := range ex7 {
			seen[e.sig] = true
			out = append(out, e)
		}
	}
	// 5. PRNG signatures
	nRand := c.N(900, 30000)
	for i := 0; i < nRand; i++ {
		gen := func() []T {
			n := r.Intn(maxArity + 1)
			if r.Chance(1, 3) {
				n = 6 + r.Intn(maxArity-5)
			}
			ts := make([]T, n)
			mode := r.Intn(4)
			for j := range ts {
				switch {
				case mode == 0:
					ts[j] = numeric[r.Intn(4)]
				case mode == 1 && r.Chance(3, 4):
					ts[j] = []T{wenc.I32, wenc.I64}[r.Intn(2)]
				case mode == 2 && r.Chance(3, 4):
					ts[j] = []T{wenc.F32, wenc.F64}[r.Intn(2)]
				default:
					ts[j] = all7[r.Intn(7)]
				}
			}
			return ts
		}
		add(gen(), gen(), "prng")
	}
	return out
}

func run(c *core.Ctx) int {
	rng := core.NewRng(c.Seed, 8)
	sigs := genSigs(c, rng.Split())
	K := c.N(12, 40)
	var cases []json.RawMessage
	var ecs []echoCase
	vr := rng.Split()
	for _, s := range sigs {
		ec := echoCase{Sig: s.sig, Seed: vr.U64() >> 1, K: K, Class: s.class, SignMask: 0xFFFFFFFF}
		if s.class != "exhaustive-numeric" {
			ec.SignMask = vr.U32()
		}
		// tail-call forms of the wrappers (tail-call feature enabled): the cliff class and a share of the rest
		ec.Tail = s.class == "tail-cliff" || len(ecs)%5 == 0
		ecs = append(ecs, ec)
		cases = append(cases, core.J(ec))
	}
	// mixed import sections: a PRNG sample of the signatures again, with globals, a memory and a table
	// imported in between the host functions and a decoy type 0 (each case runs its plain control first)
	nPlain := len(ecs)
	mr := rng.Split()
	for i, n := 0, c.N(400, 5000); i < n; i++ {
		ec := ecs[mr.Intn(nPlain)]
		if i%4 != 0 { // mostly signatures with parameters and a few values
			for tries := 0; tries < 10 && strings.IndexByte(ec.Sig, '>') < 2; tries++ {
				ec = ecs[mr.Intn(nPlain)]
			}
		}
		ec.Mixed, ec.Class, ec.Seed = true, "mixed-imports", mr.U64()>>1
		ecs = append(ecs, ec)
		cases = append(cases, core.J(ec))
	}
	res := core.RunCases(c, "echo", cases, core.ChildOpts{Batch: c.N(12, 24), TimeoutS: 900, RlimitAS: 8 << 30})
	c.Extra("phase_echo_s", time.Since(c.Start).Seconds())

	// -race / checkptr flavour on a sample, with two goroutines calling concurrently
	nRace := c.N(160, 2000)
	var raceCases []json.RawMessage
	var raceEcs []echoCase
	rr := rng.Split()
	for i := 0; i < nRace; i++ {
		ec := ecs[rr.Intn(nPlain)]
		if i%3 == 0 { // bias to the large ones
			for tries := 0; tries < 20 && len(ec.Sig) < 12; tries++ {
				ec = ecs[rr.Intn(nPlain)]
			}
		}
		ec.K = 12
		ec.Conc = !strings.Contains(ec.Sig, "r")
		raceEcs = append(raceEcs, ec)
		raceCases = append(raceCases, core.J(ec))
	}
	var raceRes []core.CaseResult
	if bin := os.Getenv("VCHECK_RACE_BIN"); bin != "" {
		raceRes = core.RunCases(c, "echo", raceCases, core.ChildOpts{Bin: bin, Batch: 5, TimeoutS: 1200, Procs: 4,
			Env: []string{"GORACE=halt_on_error=0 exitcode=0"}})
	} else {
		c.Inconclusive("race-binary-missing")
	}
	c.Extra("phase_race_s", time.Since(c.Start).Seconds())

	// large host modules (> 256 functions), all imported by one guest; several host modules per guest
	bigCases := genBigCases(c, rng.Split())
	var bigJSON []json.RawMessage
	for _, bc := range bigCases {
		bigJSON = append(bigJSON, core.J(bc))
	}
	bigRes := core.RunCases(c, "bighost", bigJSON, core.ChildOpts{Batch: 1, TimeoutS: 900, RlimitAS: 8 << 30})
	c.Extra("phase_bighost_s", time.Since(c.Start).Seconds())

	var calls int64
	for _, r := range bigRes {
		bc := bigCases[r.Index]
		if r.Crash != nil {
			if r.Crash.Kind == "timeout" {
				c.Inconclusive("watchdog")
				continue
			}
			c.Violate("large-host-module:crash:"+r.Crash.Kind+":"+firstWords(r.Crash.Detail), r.Crash.Detail,
				map[string]any{"big_case": bc, "crash": r.Crash})
			continue
		}
		var br bigResult
		if r.Out == nil || json.Unmarshal(r.Out, &br) != nil || br.Inconclusive != "" {
			c.Inconclusive("bad-child-output")
			continue
		}
		if br.BuildErr != "" {
			c.Violate("large-host-module:build-error:"+firstWords(errClassStr(br.BuildErr)), br.BuildErr, map[string]any{"big_case": bc})
			continue
		}
		for _, f := range br.Findings {
			c.Violate(f.Sig, f.Detail, f.Witness)
			c.Count("findings_reported_by_children", 1)
		}
		if br.Engines != 2 {
			c.Inconclusive("engine-run-incomplete")
			continue
		}
		calls += br.Calls
		c.Count("bighost_cases_"+bc.Class, 1)
		if bc.Mixed {
			c.Count("bighost_cases_mixed_import_section", 1)
			c.Count("bighost_calls_to_shadowed_imports", br.CallsShadowed)
		}
		c.Count("bighost_calls", br.Calls)
		c.Count("bighost_calls_to_index_ge_256", br.CallsGE256)
		c.Count("bighost_host_functions_defined", br.HostFuncs)
		c.Count("bighost_guest_imports", br.Imports)
		c.Count("bighost_values_compared", br.Values)
		for k, v := range br.ByStyle {
			c.Count("bighost_calls_style_"+k, v)
		}
		for k, v := range br.ByForm {
			c.Count("bighost_calls_form_"+k, v)
		}
		for _, s := range bc.Sizes {
			c.Distinct("bighost_module_sizes", fmt.Sprint(s))
		}
		for _, pr := range br.Probed {
			if i := strings.LastIndex(pr, ".f"); i >= 0 {
				c.Distinct("bighost_boundary_indexes_probed", pr[i+2:])
			}
		}
		if c.Counter("bighost_cases_"+bc.Class) == 1 {
			c.Sample(map[string]any{"flavour": "bighost", "case": bc, "calls": br.Calls, "calls_to_index_ge_256": br.CallsGE256,
				"host_functions": br.HostFuncs, "guest_imports": br.Imports, "boundary_probes": br.Probed})
		}
	}
	for _, k := range []string{"bighost_calls_to_index_ge_256", "bighost_cases_single-large-module", "bighost_cases_several-modules",
		"bighost_calls_form_call", "bighost_calls_form_callwithstack", "bighost_calls_style_gf", "bighost_calls_style_gm",
		"bighost_calls_style_r0s", "bighost_calls_style_r2u"} {
		if c.Counter(k) == 0 {
			c.Inconclusive("never-reached:" + k)
		}
	}
	// compile-time typed host functions with user-defined parameter / result types
	var namedJSON []json.RawMessage
	nr := rng.Split()
	for i, n := 0, c.N(2, 6); i < n; i++ {
		namedJSON = append(namedJSON, core.J(namedCase{Seed: nr.U64() >> 1, K: K}))
	}
	for _, r := range core.RunCases(c, "namedfixed", namedJSON, core.ChildOpts{Batch: 1, TimeoutS: 900, RlimitAS: 8 << 30}) {
		if r.Crash != nil {
			if r.Crash.Kind == "timeout" {
				c.Inconclusive("watchdog")
				continue
			}
			c.Violate("named-fixed-family:crash:"+r.Crash.Kind+":"+firstWords(r.Crash.Detail), r.Crash.Detail,
				map[string]any{"named_case": namedJSON[r.Index], "crash": r.Crash})
			continue
		}
		var nres namedResult
		if r.Out == nil || json.Unmarshal(r.Out, &nres) != nil {
			c.Inconclusive("bad-child-output")
			continue
		}
		if nres.BuildErr != "" {
			c.Violate("named-fixed-family:build-error:"+firstWords(errClassStr(nres.BuildErr)), nres.BuildErr, map[string]any{"named_case": namedJSON[r.Index]})
			continue
		}
		for _, f := range nres.Findings {
			c.Violate(f.Sig, f.Detail, f.Witness)
			c.Count("findings_reported_by_children", 1)
		}
		if nres.Engines != 2 {
			c.Inconclusive("engine-run-incomplete")
			continue
		}
		calls += nres.Calls
		c.Count("named_fixed_cases", 1)
		c.Count("named_fixed_calls", nres.Calls)
		c.Count("named_fixed_values_compared", nres.Values)
		c.Count("named_fixed_masks_checked", nres.Masks)
		c.Count("named_fixed_functions", int64(nres.Functions))
		for k, v := range nres.GoTypes {
			c.Count("named_fixed "+k, v)
			c.Distinct("named_fixed_go_types", k)
		}
		for k, v := range nres.Forms {
			c.Count("named_fixed_form "+k, v)
		}
	}
	for _, dir := range []string{"param", "result"} {
		for _, t := range []string{"myI32", "myU32", "myI64", "myU64", "myF32", "myF64", "myPtr"} {
			if c.Counter("named_fixed "+dir+" "+t) == 0 {
				c.Inconclusive("never-reached:named-fixed-" + dir + "-" + t)
			}
		}
	}
	matrix := map[string]*[maxArity]int64{}
	cell := func(side string, t T, pos int) {
		k := side + " " + wenc.TypeName(t)
		if matrix[k] == nil {
			matrix[k] = &[maxArity]int64{}
		}
		matrix[k][pos]++
		c.Distinct("position_x_type", fmt.Sprintf("%s@%d", k, pos))
	}
	sampled := map[string]bool{}
	handle := func(ecs []echoCase, cases []json.RawMessage, rs []core.CaseResult, flavour string) {
		for _, r := range rs {
			ec := ecs[r.Index]
			if r.Crash != nil {
				switch r.Crash.Kind {
				case "race":
					logb, _ := os.ReadFile(r.Crash.Log)
					for key, rep := range core.RaceReports(logb) {
						c.Violate("race:"+strings.ReplaceAll(key, "github.com/tetratelabs/wazero", "wazero"), rep,
							map[string]any{"case": cases[r.Index], "flavour": flavour, "report": rep})
					}
					c.Count("race_reports", 1)
				case "timeout":
					c.Inconclusive("watchdog")
					continue
				default:
					if ec.Mixed {
						c.Violate("mixed-import-section:child-crash:"+r.Crash.Kind, r.Crash.Detail,
							map[string]any{"case": cases[r.Index], "flavour": flavour, "crash": r.Crash})
						continue
					}
					c.Violate("crash:"+r.Crash.Kind+":"+firstWords(r.Crash.Detail), r.Crash.Detail,
						map[string]any{"case": cases[r.Index], "flavour": flavour, "crash": r.Crash})
					continue
				}
			}
			var cr caseResult
			if r.Out == nil || json.Unmarshal(r.Out, &cr) != nil {
				c.Inconclusive("bad-child-output")
				continue
			}
			if cr.Inconclusive != "" {
				c.Inconclusive(cr.Inconclusive)
				continue
			}
			if cr.BuildErr != "" {
				c.Violate("build-error:"+firstWords(errClassStr(cr.BuildErr)), cr.BuildErr, map[string]any{"case": cases[r.Index]})
				continue
			}
			for _, f := range cr.Findings {
				f.Witness["flavour"] = flavour
				c.Violate(f.Sig, f.Detail, f.Witness)
				c.Count("findings_reported_by_children", 1)
			}
			if cr.Engines != 2 {
				c.Inconclusive("engine-run-incomplete")
				continue
			}
			calls += cr.Calls
			c.Count("cases_"+flavour, 1)
			c.Count("calls_from_go", cr.Calls)
			c.Count("host_function_calls", cr.HostCalls)
			c.Count("values_compared", cr.Values)
			c.Count("wasm_judge_masks_checked", cr.Masks)
			c.Count("wasm_judge_value_tests", cr.MaskTests)
			c.Count("reentrant_calls_from_host", cr.Reentries)
			c.Count("concurrent_calls", cr.ConcCalls)
			c.Count("calls_through_mixed_import_guests", cr.MixedCalls)
			c.Count("calls_through_tail_call_wrappers", cr.TailCalls)
			if cr.TailShape != "" && cr.TailCalls > 0 {
				c.Count("tail_cases "+cr.TailShape, 1)
			}
			c.Count("allowed_dirty_upper_half_at_host", cr.UpperHost)
			c.Count("allowed_dirty_upper_half_at_go", cr.UpperGo)
			for k, v := range cr.UpperGoBy {
				c.Count("allowed_dirty_upper_half_at_go "+k, v)
			}
			for k, v := range cr.ByStyle {
				c.Count("calls_style_"+k, v)
				c.Distinct("styles", k)
			}
			for k, v := range cr.ByForm {
				c.Count("calls_form_"+k, v)
			}
			for k, v := range cr.Classes {
				c.Count("value "+k, v)
				c.Distinct("value_classes", k)
			}
			P, R := parseSig(ec.Sig)
			if flavour == "plain" {
				for i, t := range P {
					cell("param", t, i)
				}
				for j, t := range R {
					cell("result", t, j)
				}
				if len(P)+len(R) > 0 {
					c.Distinct("signatures", ec.Sig)
				}
				c.Distinct("arity", fmt.Sprintf("%dx%d", len(P), len(R)))
				c.Count("class_"+ec.Class, 1)
			}
			if !sampled[ec.Class+flavour] {
				sampled[ec.Class+flavour] = true
				c.Sample(map[string]any{"flavour": flavour, "case": ec, "styles": cr.Styles, "calls": cr.Calls, "host_calls": cr.HostCalls,
					"values_compared": cr.Values, "masks_checked": cr.Masks, "module_bytes": cr.ModuleBytes})
			}
		}
	}
	handle(ecs, cases, res, "plain")
	handle(raceEcs, raceCases, raceRes, "race")

	// every workload class and monitor must have been reached
	for _, s := range allStyles {
		if c.Counter("calls_style_"+s.Name) == 0 {
			c.Inconclusive("style-never-reached:" + s.Name)
		}
	}
	for _, k := range []string{"calls_style_guest-defined", "calls_form_call", "calls_form_callwithstack", "host_function_calls",
		"wasm_judge_masks_checked", "reentrant_calls_from_host", "calls_through_mixed_import_guests", "bighost_cases_mixed_import_section",
		"calls_through_tail_call_wrappers", "tail_cases wrapper-stack-params+callee-reg-params+stack-results-int",
		"tail_cases wrapper-stack-params+callee-reg-params+stack-results-float", "tail_cases wrapper-stack-params+callee-reg-params+reg-results"} {
		if c.Counter(k) == 0 {
			c.Inconclusive("never-reached:" + k)
		}
	}
	if raceRes != nil && c.Counter("concurrent_calls") == 0 {
		c.Inconclusive("never-reached:concurrent_calls")
	}
	holes := 0
	mx := map[string][]int64{}
	var keys []string
	for _, side := range []string{"param", "result"} {
		for _, t := range all7 {
			k := side + " " + wenc.TypeName(t)
			keys = append(keys, k)
			if matrix[k] == nil {
				holes += maxArity
				continue
			}
			mx[k] = matrix[k][:]
			for _, n := range matrix[k] {
				if n == 0 {
					holes++
				}
			}
		}
	}
	sort.Strings(keys)
	c.Extra("position_x_type_matrix_signatures", mx)
	if holes > 0 {
		c.Inconclusive(fmt.Sprintf("position-type-matrix-holes=%d", holes))
	}
	c.Assume("32-bit values (i32/f32) are compared on the low half of the uint64 slot at the Go side and inside stack-based host functions (api.DecodeU32/DecodeF32 view); a non-zero upper half there is counted, not flagged. Inside wasm every i32 test must agree with the baked constant.")
	c.Assume("externref values are opaque integers chosen by the harness; funcref values are the opaque values the engine hands out for ref.func of four guest functions (identity checked by calling through them inside wasm)")
	c.Assume("v128 only where wazero accepts it: guest-defined functions and stack-based host functions (two slots, low half first)")
	return c.Finish(calls, int64(c.DistinctN("signatures")),
		"evaluations = calls from Go that were decided (each checks every parameter inside the host function, every result at Go and, for judging wrappers, an in-wasm mask; large-host-module calls additionally check which host function ran); distinct = distinct non-empty signatures fully run on both engines with all definition styles")
}

func firstWords(s string) string {
	f := strings.Fields(strings.ReplaceAll(s, "_", " "))
	if len(f) > 6 {
		f = f[:6]
	}
	return strings.Join(f, "_")
}

// replay re-runs the case of a witness file in-process and prints what it finds.
func replay(c *core.Ctx, path string) int {
	b, err := os.ReadFile(path)
	if err != nil {
		fmt.Println(err)
		return 2
	}
	var w struct {
		Sig     string `json:"sig"`
		Witness struct {
			Case echoCase `json:"case"`
		} `json:"witness"`
	}
	if err := json.Unmarshal(b, &w); err != nil || w.Witness.Case.Sig == "" {
		fmt.Println("not a C08 echo witness:", err)
		return 2
	}
	cr := runCase(&w.Witness.Case)
	hit := 1
	for _, f := range cr.Findings {
		fmt.Printf("sig=%s\n  %s\n", f.Sig, f.Detail)
		if f.Sig == w.Sig {
			hit = 1
		}
	}
	if len(cr.Findings) == 0 {
		fmt.Println("no violation reproduced")
		return 0
	}
	return hit
}
