package c08

import (
	"fmt"

	"github.com/tetratelabs/wazero/verifharness/core"
	"github.com/tetratelabs/wazero/verifharness/wenc"
)

// Mask layout of the i32 judge result: bit j = primary comparison of value j
// failed, bit 14+j = one of the secondary tests of value j failed, bits 28/29 =
// an i64 / f64 local of the wrapper did not survive the host call.
const (
	maxArity     = 14
	bitSecondary = 14
	bitCanaryI   = 28
	bitCanaryF   = 29
)

const (
	canaryI = uint64(0x1122334455667788)
	canaryF = uint64(0x400921FB54442D18)
)

type guestSpec struct {
	P, R   []T
	Styles []string // one host import per style: module "h", name = style
	K      int
	PV, RV [][]val // abstract vectors (funcref = target index)
	Tail   bool    // tail-call wrappers t_/ti_/tj_ (needs the tail-call feature)
	E      []T     // tail wrappers: extra leading parameters of the wrapper (numeric)
	EV     []val   // their values
	Mixed  bool    // mixed import section (mixed.go) with a decoy type 0
	Layout uint64  // PRNG seed of the import order
}

type gb struct {
	m       *wenc.Module
	targets [nTargets]uint32
	tI32    uint32 // type index of () -> i32
	tbl     uint32 // index of the guest's own table
	glob    uint32 // index of the guest's first own global
}

func pushConst(c *wenc.Code, g *gb, t T, v val) {
	switch t {
	case wenc.I32:
		c.I32Const(int32(uint32(v.Lo)))
	case wenc.I64:
		c.I64Const(int64(v.Lo))
	case wenc.F32:
		c.F32Const(uint32(v.Lo))
	case wenc.F64:
		c.F64Const(v.Lo)
	case wenc.V128:
		c.V128Const(v.Lo, v.Hi)
	case wenc.FuncRef:
		if v.Lo == 0 {
			c.RefNull(wenc.FuncRef)
		} else {
			c.RefFunc(g.targets[v.Lo-1])
		}
	case wenc.ExternRef:
		c.RefNull(wenc.ExternRef)
	}
}

func b2i(b bool) int32 {
	if b {
		return 1
	}
	return 0
}

// orBit: stack [cond(0/1)] -> mask |= cond<<bit.
func orBit(c *wenc.Code, bit int, mask uint32) {
	c.I32Const(int32(bit)).Op(0x74).LocalGet(mask).Op(0x72).LocalSet(mask)
}

// judge emits the in-wasm comparison of local l (type t) against the baked
// constant e. Only instructions whose result the spec fixes bit for bit are used.
func judge(c *wenc.Code, g *gb, l uint32, t T, e val, pos int, mask uint32) {
	pri, sec := pos, bitSecondary+pos
	switch t {
	case wenc.I32:
		x := int32(uint32(e.Lo))
		c.LocalGet(l).I32Const(x).Op(0x47) // i32.ne
		orBit(c, pri, mask)
		c.LocalGet(l).I32Const(x).Op(0x73, 0x45, 0x45)           // xor eqz eqz
		c.LocalGet(l).I32Const(0).Op(0x48).I32Const(b2i(x < 0))  // lt_s 0
		c.Op(0x47, 0x72)                                         // ne, or
		c.LocalGet(l).I32Const(x).Op(0x46, 0x45, 0x72)           // eq eqz, or
		c.LocalGet(l).Op(0xac).I64Const(int64(x)).Op(0x52, 0x72) // extend_s, i64.ne, or
		c.LocalGet(l).Op(0xad).I64Const(int64(uint32(x))).Op(0x52, 0x72)
		c.LocalGet(l).I32Const(16).Op(0x76).I32Const(int32(uint32(x)>>16)).Op(0x47, 0x72) // shr_u 16
		c.LocalGet(l).I32Const(x).Op(0x49).Op(0x72)                                       // lt_u const must be 0
		c.LocalGet(l).I32Const(x).Op(0x4b).Op(0x72)                                       // gt_u const must be 0
		orBit(c, sec, mask)
	case wenc.I64:
		x := int64(e.Lo)
		c.LocalGet(l).I64Const(x).Op(0x52)
		orBit(c, pri, mask)
		c.LocalGet(l).I64Const(x).Op(0x85, 0x50, 0x45) // xor, i64.eqz, i32.eqz
		c.LocalGet(l).I64Const(32).Op(0x88, 0xa7).I32Const(int32(uint32(e.Lo>>32))).Op(0x47, 0x72)
		c.LocalGet(l).Op(0xa7).I32Const(int32(uint32(e.Lo))).Op(0x47, 0x72)
		c.LocalGet(l).I64Const(0).Op(0x53).I32Const(b2i(x < 0)).Op(0x47, 0x72) // i64.lt_s 0
		orBit(c, sec, mask)
	case wenc.F32:
		b := uint32(e.Lo)
		c.LocalGet(l).Op(0xbc).I32Const(int32(b)).Op(0x47)
		orBit(c, pri, mask)
		if isNaN32(b) {
			c.LocalGet(l).LocalGet(l).Op(0x5b) // f32.eq x x must be 0
		} else {
			c.LocalGet(l).F32Const(b).Op(0x5c) // f32.ne must be 0
		}
		want := uint32(0x3F800000)
		if b&0x80000000 != 0 {
			want = 0xBF800000
		}
		c.F32Const(0x3F800000).LocalGet(l).Op(0x98, 0xbc).I32Const(int32(want)).Op(0x47, 0x72) // copysign(1,x)
		orBit(c, sec, mask)
	case wenc.F64:
		b := e.Lo
		c.LocalGet(l).Op(0xbd).I64Const(int64(b)).Op(0x52)
		orBit(c, pri, mask)
		if isNaN64(b) {
			c.LocalGet(l).LocalGet(l).Op(0x61)
		} else {
			c.LocalGet(l).F64Const(b).Op(0x62)
		}
		want := uint64(0x3FF0000000000000)
		if b>>63 != 0 {
			want = 0xBFF0000000000000
		}
		c.F64Const(0x3FF0000000000000).LocalGet(l).Op(0xa6, 0xbd).I64Const(int64(want)).Op(0x52, 0x72)
		orBit(c, sec, mask)
	case wenc.ExternRef:
		c.LocalGet(l).RefIsNull().I32Const(b2i(e.Lo == 0)).Op(0x47)
		orBit(c, pri, mask)
	case wenc.FuncRef:
		if e.Lo == 0 {
			c.LocalGet(l).RefIsNull().Op(0x45)
		} else {
			c.LocalGet(l).RefIsNull().If(wenc.I32).I32Const(1).Else()
			c.I32Const(0).LocalGet(l).TableSet(g.tbl)
			c.I32Const(0).CallIndirect(g.tI32, g.tbl).I32Const(int32(1000 + e.Lo - 1)).Op(0x47)
			c.End()
		}
		orBit(c, pri, mask)
	case wenc.V128:
		c.LocalGet(l).Op(0xfd, 0x1d, 0).I64Const(int64(e.Lo)).Op(0x52)
		c.LocalGet(l).Op(0xfd, 0x1d, 1).I64Const(int64(e.Hi)).Op(0x52, 0x72)
		orBit(c, pri, mask)
		c.LocalGet(l).V128Const(e.Lo, e.Hi).Op(0xfd, 0x24).Op(0xfd, 0x53) // i8x16.ne, v128.any_true
		orBit(c, sec, mask)
	}
}

func extPositions(ts []T) []int {
	var out []int
	for i, t := range ts {
		if t == wenc.ExternRef {
			out = append(out, i)
		}
	}
	return out
}

// refPositions: reference-typed positions. References cannot be baked into a
// wrapper as constants the harness knows (externref has no constants; the
// compiler hands out a fresh opaque value for every ref.func evaluation), so
// judging wrappers receive them as their own parameters.
func refPositions(ts []T) []int {
	var out []int
	for i, t := range ts {
		if t == wenc.ExternRef || t == wenc.FuncRef {
			out = append(out, i)
		}
	}
	return out
}

// refBehaviour marks an expected funcref that can only be checked by calling
// through it (val.Lo = target index + 1, 0 = null).
const refBehaviour = 0xF00CF00C

func rotTypes(ts []T) []T {
	if len(ts) == 0 {
		return nil
	}
	return append(append([]T(nil), ts[1:]...), ts[0])
}

// buildGuest builds the echo guest of one signature. Exports:
//
//	p_<style>      P -> R           pass-through to host import <style>
//	c_<style>_<k>  refs(P) -> R+i32   bakes vector k's params, calls the import, judges vector k's results in wasm
//	x_<style>      re-export of the import itself
//	g_<k>          P -> R+i32       guest-defined: judges its params against vector k, returns vector k's results
//	idp, idr       identity on P / on R;  rotp: P -> P rotated left by one
//	getref<i>      () -> funcref of target i (targets return 1000+i);  callref: (funcref) -> i32 calls through it
func buildGuest(s *guestSpec) []byte {
	m := &wenc.Module{}
	g := &gb{m: m}
	imp := map[string]uint32{}
	if s.Mixed {
		dp, dr := decoyType(s.P, s.R)
		m.AddType(dp, dr) // type 0
		addMixedImports(m, core.NewRng(int64(s.Layout), 88), len(s.Styles), func(i int) {
			imp[s.Styles[i]] = m.ImportFunc("h", s.Styles[i], s.P, s.R)
		})
		g.tbl, g.glob = nImportedTables, nImportedGlobals
	} else {
		for _, st := range s.Styles {
			imp[st] = m.ImportFunc("h", st, s.P, s.R)
		}
	}
	g.tI32 = m.AddType(nil, []T{wenc.I32})
	m.Tables = []wenc.TableType{{Elem: wenc.FuncRef, Lim: wenc.Limits{Min: 2 + uint32(len(s.Styles))}}}
	m.Globals = []wenc.Global{
		{Type: wenc.GlobalType{Type: wenc.I64, Mutable: true}, Init: wenc.ConstI64(int64(canaryI))},
		{Type: wenc.GlobalType{Type: wenc.F64, Mutable: true}, Init: wenc.ConstF64(canaryF)},
	}
	for i := 0; i < nTargets; i++ {
		g.targets[i] = m.AddFunc(nil, []T{wenc.I32}, nil, (&wenc.Code{}).I32Const(int32(1000+i)).End().B)
	}
	m.Elems = []wenc.Elem{{Mode: 2, FuncIdx: g.targets[:]}}
	if s.Tail {
		// table slot 2+i holds the host import of style i (for return_call_indirect)
		el := wenc.Elem{Mode: 0, TableIdx: g.tbl, Offset: wenc.ConstI32(2)}
		for _, st := range s.Styles {
			el.FuncIdx = append(el.FuncIdx, imp[st])
		}
		m.Elems = append(m.Elems, el)
	}
	for i := 0; i < nTargets; i++ {
		m.ExportFunc(fmt.Sprintf("getref%d", i), m.AddFunc(nil, []T{wenc.FuncRef}, nil, (&wenc.Code{}).RefFunc(g.targets[i]).End().B))
	}
	nP, nR := uint32(len(s.P)), uint32(len(s.R))
	ext := extPositions(s.P)
	refs := refPositions(s.P)
	refT := make([]T, len(refs))
	for i, p := range refs {
		refT[i] = s.P[p]
	}
	rPlus := append(append([]T(nil), s.R...), wenc.I32)
	for si, st := range s.Styles {
		h := imp[st]
		if s.Tail {
			buildTailWrappers(m, g, s, si, st, h)
		}
		m.ExportFunc("x_"+st, h)
		// pass-through
		c := &wenc.Code{}
		for i := uint32(0); i < nP; i++ {
			c.LocalGet(i)
		}
		c.Call(h).End()
		m.ExportFunc("p_"+st, m.AddFunc(s.P, s.R, nil, c.B))
		// judging wrappers
		for k := 0; k < s.K; k++ {
			nE := uint32(len(refs))
			locals := append(append([]T(nil), s.R...), wenc.I32, wenc.I64, wenc.F64)
			rl := func(j uint32) uint32 { return nE + j }
			mask, ci, cf := nE+nR, nE+nR+1, nE+nR+2
			c := &wenc.Code{}
			c.GlobalGet(g.glob).LocalSet(ci).GlobalGet(g.glob + 1).LocalSet(cf)
			e := uint32(0)
			for i, t := range s.P {
				if t == wenc.ExternRef || t == wenc.FuncRef {
					c.LocalGet(e)
					e++
				} else {
					pushConst(c, g, t, s.PV[k][i])
				}
			}
			c.Call(h)
			for j := int(nR) - 1; j >= 0; j-- {
				c.LocalSet(rl(uint32(j)))
			}
			for j, t := range s.R {
				judge(c, g, rl(uint32(j)), t, s.RV[k][j], j, mask)
			}
			c.LocalGet(ci).GlobalGet(g.glob).Op(0x52)
			orBit(c, bitCanaryI, mask)
			c.LocalGet(cf).Op(0xbd).GlobalGet(g.glob+1).Op(0xbd, 0x52)
			orBit(c, bitCanaryF, mask)
			for j := uint32(0); j < nR; j++ {
				c.LocalGet(rl(j))
			}
			c.LocalGet(mask).End()
			m.ExportFunc(fmt.Sprintf("c_%s_%d", st, k), m.AddFunc(refT, rPlus, locals, c.B))
		}
	}
	// guest-defined judge functions (reverse direction)
	for k := 0; k < s.K; k++ {
		mask := nP
		c := &wenc.Code{}
		for i, t := range s.P {
			judge(c, g, uint32(i), t, s.PV[k][i], i, mask)
		}
		for j, t := range s.R {
			if t == wenc.ExternRef && len(ext) > 0 {
				c.LocalGet(uint32(ext[j%len(ext)]))
			} else {
				pushConst(c, g, t, s.RV[k][j])
			}
		}
		c.LocalGet(mask).End()
		m.ExportFunc(fmt.Sprintf("g_%d", k), m.AddFunc(s.P, rPlus, []T{wenc.I32}, c.B))
	}
	{
		// callref: (funcref) -> i32: -1 for null, else the result of calling through it
		c := &wenc.Code{}
		c.LocalGet(0).RefIsNull().If(wenc.I32).I32Const(-1).Else()
		c.I32Const(1).LocalGet(0).TableSet(g.tbl).I32Const(1).CallIndirect(g.tI32, g.tbl).End().End()
		m.ExportFunc("callref", m.AddFunc([]T{wenc.FuncRef}, []T{wenc.I32}, nil, c.B))
	}
	if nP > 0 {
		c := &wenc.Code{}
		for i := uint32(0); i < nP; i++ {
			c.LocalGet(i)
		}
		m.ExportFunc("idp", m.AddFunc(s.P, s.P, nil, c.End().B))
		c = &wenc.Code{}
		for i := uint32(1); i < nP; i++ {
			c.LocalGet(i)
		}
		c.LocalGet(0)
		m.ExportFunc("rotp", m.AddFunc(s.P, rotTypes(s.P), nil, c.End().B))
	}
	if nR > 0 {
		c := &wenc.Code{}
		for i := uint32(0); i < nR; i++ {
			c.LocalGet(i)
		}
		m.ExportFunc("idr", m.AddFunc(s.R, s.R, nil, c.End().B))
	}
	return m.Encode()
}

// gExpectedResults: what g_<k> must return for vector k given the params sent.
func gExpectedResults(s *guestSpec, k int, params []val) []val {
	ext := extPositions(s.P)
	out := make([]val, len(s.R))
	for j, t := range s.R {
		switch {
		case t == wenc.ExternRef && len(ext) > 0:
			out[j] = params[ext[j%len(ext)]]
		case t == wenc.ExternRef:
			out[j] = val{}
		case t == wenc.FuncRef:
			out[j] = val{Lo: s.RV[k][j].Lo, Hi: refBehaviour}
		default:
			out[j] = s.RV[k][j]
		}
	}
	return out
}

// buildTailWrappers: tail-call forms of the wrappers of host import h (P -> R):
//
//	t_<style>       E++P -> R   pushes its P part and does `return_call h`
//	ti_<style>      E++P -> R   the same through `return_call_indirect` (table slot 2+si holds h)
//	tj_<style>_<k>  refs(P) -> R+i32   (k < 4) bakes E and vector k's params, CALLs t_ (k even) / ti_ (k odd) and
//	                judges vector k's results in wasm
//
// E are extra leading parameters of the wrapper only (0..12, integer or float
// class), so that the wrapper has stack-passed parameters the callee has not.
func buildTailWrappers(m *wenc.Module, g *gb, s *guestSpec, si int, st string, h uint32) {
	nE, nP, nR := uint32(len(s.E)), uint32(len(s.P)), uint32(len(s.R))
	tP := append(append([]T(nil), s.E...), s.P...)
	c := &wenc.Code{}
	for i := uint32(0); i < nP; i++ {
		c.LocalGet(nE + i)
	}
	t := m.AddFunc(tP, s.R, nil, c.ReturnCall(h).End().B)
	m.ExportFunc("t_"+st, t)
	c = &wenc.Code{}
	for i := uint32(0); i < nP; i++ {
		c.LocalGet(nE + i)
	}
	c.I32Const(int32(2+si)).ReturnCallIndirect(m.AddType(s.P, s.R), g.tbl)
	ti := m.AddFunc(tP, s.R, nil, c.End().B)
	m.ExportFunc("ti_"+st, ti)
	refs := refPositions(s.P)
	refT := make([]T, len(refs))
	for i, p := range refs {
		refT[i] = s.P[p]
	}
	nRef := uint32(len(refs))
	for k := 0; k < s.K && k < 4; k++ {
		mask := nRef + nR
		c := &wenc.Code{}
		for i, et := range s.E {
			pushConst(c, g, et, s.EV[i])
		}
		e := uint32(0)
		for i, pt := range s.P {
			if pt == wenc.ExternRef || pt == wenc.FuncRef {
				c.LocalGet(e)
				e++
			} else {
				pushConst(c, g, pt, s.PV[k][i])
			}
		}
		if k%2 == 0 {
			c.Call(t)
		} else {
			c.Call(ti)
		}
		for j := int(nR) - 1; j >= 0; j-- {
			c.LocalSet(nRef + uint32(j))
		}
		for j, rt := range s.R {
			judge(c, g, nRef+uint32(j), rt, s.RV[k][j], j, mask)
		}
		for j := uint32(0); j < nR; j++ {
			c.LocalGet(nRef + j)
		}
		c.LocalGet(mask).End()
		m.ExportFunc(fmt.Sprintf("tj_%s_%d", st, k), m.AddFunc(refT, append(append([]T(nil), s.R...), wenc.I32), append(append([]T(nil), s.R...), wenc.I32), c.B))
	}
}
