package c08

import (
	"context"
	"fmt"
	"math"
	"reflect"
	"sync/atomic"

	"github.com/tetratelabs/wazero"
	"github.com/tetratelabs/wazero/api"
	"github.com/tetratelabs/wazero/verifharness/wenc"
)

// style is one way of defining the host function of a signature.
type style struct {
	Name   string
	Kind   string // gofunc | gomodfunc | reflect
	CtxPar int    // reflect: 0 = no leading params, 1 = context.Context, 2 = context.Context + api.Module
	Invert bool   // reflect: use the complement of the case's signedness mask
	Named  bool   // reflect: user-defined Go types (type myF32 float32 ...) at the positions the case's mask selects, plain types elsewhere
}

var allStyles = []style{
	{Name: "r0s", Kind: "reflect", CtxPar: 0},
	{Name: "r0u", Kind: "reflect", CtxPar: 0, Invert: true},
	{Name: "r1s", Kind: "reflect", CtxPar: 1},
	{Name: "r1u", Kind: "reflect", CtxPar: 1, Invert: true},
	{Name: "r2s", Kind: "reflect", CtxPar: 2},
	{Name: "r2u", Kind: "reflect", CtxPar: 2, Invert: true},
	{Name: "r0n", Kind: "reflect", CtxPar: 0, Named: true},
	{Name: "r1n", Kind: "reflect", CtxPar: 1, Named: true, Invert: true},
	{Name: "r2n", Kind: "reflect", CtxPar: 2, Named: true},
	{Name: "gf", Kind: "gofunc"},
	{Name: "gm", Kind: "gomodfunc"},
}

func styleByName(n string) *style {
	for i := range allStyles {
		if allStyles[i].Name == n {
			return &allStyles[i]
		}
	}
	return nil
}

// hasCtx: does the host function of this style receive the caller's context?
func (s *style) hasCtx() bool { return s.Kind != "reflect" || s.CtxPar > 0 }

// stylesFor: reflection cannot express funcref or v128.
func stylesFor(p, r []T) []string {
	refl := !hasType(p, wenc.FuncRef) && !hasType(r, wenc.FuncRef) && !hasType(p, wenc.V128) && !hasType(r, wenc.V128)
	var out []string
	for _, s := range allStyles {
		if s.Kind == "reflect" && !refl {
			continue
		}
		out = append(out, s.Name)
	}
	return out
}

var (
	tInt32   = reflect.TypeOf(int32(0))
	tUint32  = reflect.TypeOf(uint32(0))
	tInt64   = reflect.TypeOf(int64(0))
	tUint64  = reflect.TypeOf(uint64(0))
	tFloat32 = reflect.TypeOf(float32(0))
	tFloat64 = reflect.TypeOf(float64(0))
	tUintptr = reflect.TypeOf(uintptr(0))
	tCtx     = reflect.TypeOf((*context.Context)(nil)).Elem()
	tMod     = reflect.TypeOf((*api.Module)(nil)).Elem()
)

// User-defined types of every kind wazero's reflection path accepts.
type (
	myI32 int32
	myU32 uint32
	myI64 int64
	myU64 uint64
	myF32 float32
	myF64 float64
	myPtr uintptr
)

var namedOf = map[reflect.Type]reflect.Type{
	tInt32: reflect.TypeOf(myI32(0)), tUint32: reflect.TypeOf(myU32(0)), tInt64: reflect.TypeOf(myI64(0)), tUint64: reflect.TypeOf(myU64(0)),
	tFloat32: reflect.TypeOf(myF32(0)), tFloat64: reflect.TypeOf(myF64(0)), tUintptr: reflect.TypeOf(myPtr(0)),
}

// goTypeOf: Go type of position bit for a reflect style (params: bit = index,
// results: bit = 16+index). Named styles use the user-defined type of the same
// kind at every position when the mask is all ones (exhaustive class), else at
// the positions a second mask derived from it selects.
func (st *style) goTypeOf(t T, signMask uint32, bit int) reflect.Type {
	gt := goType(t, signMask, bit, st.Invert)
	if st.Named {
		nm := signMask*0x9E3779B1 ^ signMask>>7
		if signMask == 0xFFFFFFFF || (nm>>uint(bit))&1 == 1 {
			return namedOf[gt]
		}
	}
	return gt
}

func goType(t T, signMask uint32, bit int, invert bool) reflect.Type {
	signed := (signMask>>uint(bit))&1 == 1
	if invert {
		signed = !signed
	}
	switch t {
	case wenc.I32:
		if signed {
			return tInt32
		}
		return tUint32
	case wenc.I64:
		if signed {
			return tInt64
		}
		return tUint64
	case wenc.F32:
		return tFloat32
	case wenc.F64:
		return tFloat64
	case wenc.ExternRef:
		return tUintptr
	}
	panic("no Go type for " + wenc.TypeName(t))
}

// typeLabel: what the violation signature calls the type at a position.
func (x *engineRun) typeLabel(st *style, isParam bool, pos int) string {
	ts, bit := x.spec.R, 16+pos
	if isParam {
		ts, bit = x.spec.P, pos
	}
	if st != nil && st.Kind == "reflect" {
		return st.goTypeOf(ts[pos], x.signMask, bit).Name()
	}
	return wenc.TypeName(ts[pos])
}

// ---- call scripts ----

// expect is one expected host call.
type expect struct {
	Style   string
	Params  []val // concrete (funcref resolved)
	Results []val // concrete
	Reenter *reenter
	Direct  bool // called straight from Go (module parameter is not the guest)
}

// reenter: what the host function does before returning.
type reenter struct {
	Func       string
	ViaStack   bool
	Args       []uint64
	ResTypes   []T
	Expect     []val
	Style      *style // style whose host import the callee calls (nil: none)
	IsMask     bool   // last result is a judge mask that must be 0
	ParamsMask bool   // the mask judges the callee's parameters (g_<k>)
	K          int
}

type problem struct {
	Where  string // host-param | host-call-order | host-stack-len | host-stack-changed | host-module | result | mask | call-error
	Style  string
	Func   string
	Pos    int
	Type   string // label for the sig
	Exp    string
	Got    string
	Sym    string
	Note   string
	Nested bool
}

type script struct {
	exp      []*expect
	next     int
	problems []problem
	depth    int
	fn       []string // guest functions in flight (outermost first)
}

func (sc *script) curFn() string {
	if len(sc.fn) == 0 {
		return ""
	}
	return sc.fn[len(sc.fn)-1]
}

type scriptKey struct{}

func (sc *script) add(p problem) {
	if p.Func == "" {
		p.Func = sc.curFn()
	}
	if len(sc.problems) < 64 {
		sc.problems = append(sc.problems, p)
	}
}

// hostState is the monitor inside the host functions of one engine run.
type hostState struct {
	x         *engineRun
	cur       *script // for styles that get no context (sequential phase only)
	orphans   atomic.Int64
	hostCalls atomic.Int64
	upperDirt atomic.Int64 // i32/f32 params whose slot had a non-zero upper half (allowed; counted)
	reentries atomic.Int64
}

// onCall is the common body of every host function: check what arrived,
// optionally re-enter the guest, say what to return.
func (h *hostState) onCall(st *style, ctx context.Context, mod api.Module, got []val, stack []uint64) []val {
	h.hostCalls.Add(1)
	x := h.x
	var sc *script
	if st.hasCtx() {
		if ctx != nil {
			sc, _ = ctx.Value(scriptKey{}).(*script)
		}
		if sc == nil {
			h.orphans.Add(1)
			if h.cur != nil {
				h.cur.add(problem{Where: "host-context", Style: st.Name, Note: "host function did not receive the caller's context"})
			}
			sc = h.cur
		}
	} else {
		sc = h.cur
	}
	if sc == nil {
		h.orphans.Add(1)
		return make([]val, len(x.spec.R))
	}
	if sc.next >= len(sc.exp) {
		sc.add(problem{Where: "host-call-order", Style: st.Name, Note: "unexpected extra host call"})
		return make([]val, len(x.spec.R))
	}
	e := sc.exp[sc.next]
	sc.next++
	if e.Style != st.Name {
		sc.add(problem{Where: "host-call-order", Style: st.Name, Note: "expected call of " + e.Style})
	}
	nested := sc.depth > 0
	for i, t := range x.spec.P {
		if upperDirty(t, got[i]) {
			h.upperDirt.Add(1)
		}
		if !sameValue(t, e.Params[i], got[i]) {
			sc.add(problem{Where: "host-param", Style: st.Name, Pos: i, Type: x.typeLabel(st, true, i),
				Exp: e.Params[i].String(), Got: got[i].String(), Sym: symptom(t, e.Params[i], got[i], e.Params), Nested: nested})
		}
	}
	if stack != nil {
		want := slots(x.spec.P)
		if r := slots(x.spec.R); r > want {
			want = r
		}
		if len(stack) != want {
			sc.add(problem{Where: "host-stack-len", Style: st.Name, Exp: fmt.Sprint(want), Got: fmt.Sprint(len(stack))})
		}
	}
	if (st.Kind == "gomodfunc" || st.Kind == "reflect" && st.CtxPar == 2) && !e.Direct {
		if mod == nil || mod.Name() != guestName {
			n := "<nil>"
			if mod != nil {
				n = mod.Name()
			}
			sc.add(problem{Where: "host-module", Style: st.Name, Exp: guestName, Got: n})
		}
	}
	if e.Reenter != nil {
		var snap []uint64
		if stack != nil {
			snap = append(snap, stack...)
		}
		h.doReenter(sc, st, e.Reenter, ctx)
		for i := range snap {
			if i < slots(x.spec.P) && stack[i] != snap[i] {
				sc.add(problem{Where: "host-stack-changed", Style: st.Name, Pos: i, Exp: fmt.Sprintf("%#x", snap[i]), Got: fmt.Sprintf("%#x", stack[i])})
				break
			}
		}
	}
	return e.Results
}

func (h *hostState) doReenter(sc *script, st *style, r *reenter, ctx context.Context) {
	x := h.x
	h.reentries.Add(1)
	fn := x.guest.ExportedFunction(r.Func)
	if fn == nil {
		sc.add(problem{Where: "call-error", Func: r.Func, Note: "missing export"})
		return
	}
	if ctx == nil {
		ctx = context.WithValue(context.Background(), scriptKey{}, sc)
	}
	sc.depth++
	sc.fn = append(sc.fn, r.Func)
	defer func() { sc.fn = sc.fn[:len(sc.fn)-1] }()
	nres := slots(r.ResTypes)
	var raw []uint64
	var err error
	if r.ViaStack {
		n := len(r.Args)
		if nres > n {
			n = nres
		}
		stk := make([]uint64, n)
		copy(stk, r.Args)
		err = fn.CallWithStack(ctx, stk)
		raw = stk[:nres]
	} else {
		raw, err = fn.Call(ctx, r.Args...)
	}
	sc.depth--
	if err != nil {
		sc.add(problem{Where: "call-error", Func: r.Func, Note: err.Error(), Nested: true})
		return
	}
	x.compareResults(sc, r.Func, r.Style, r.ResTypes, r.Expect, raw, r.IsMask, true, r.ParamsMask)
}

// f32BitsOf reads the bits of a (possibly named) float32 reflect.Value from
// memory, without any floating-point conversion.
func f32BitsOf(a reflect.Value) uint32 {
	p := reflect.New(a.Type())
	p.Elem().Set(a)
	return *(*uint32)(p.UnsafePointer())
}

// valueOfBits builds a value of (possibly named) type t from raw bits, floats
// written through memory so that signalling NaNs survive.
func valueOfBits(t reflect.Type, v uint64) reflect.Value {
	p := reflect.New(t)
	switch t.Kind() {
	case reflect.Int32:
		p.Elem().SetInt(int64(int32(uint32(v))))
	case reflect.Int64:
		p.Elem().SetInt(int64(v))
	case reflect.Uint32:
		p.Elem().SetUint(uint64(uint32(v)))
	case reflect.Uint64, reflect.Uintptr:
		p.Elem().SetUint(v)
	case reflect.Float32:
		*(*uint32)(p.UnsafePointer()) = uint32(v)
	case reflect.Float64:
		*(*uint64)(p.UnsafePointer()) = v
	}
	return p.Elem()
}

// ---- building the host module ----

func (x *engineRun) buildHost(ctx context.Context, rt wazero.Runtime, styles []string) (api.Module, error) {
	b := rt.NewHostModuleBuilder("h")
	P, R := x.spec.P, x.spec.R
	h := x.host
	for _, name := range styles {
		st := styleByName(name)
		switch st.Kind {
		case "gofunc", "gomodfunc":
			body := func(ctx context.Context, mod api.Module, stack []uint64) {
				got := unflatten(P, stack)
				res := h.onCall(st, ctx, mod, got, stack)
				copy(stack, flatten(R, res))
			}
			if st.Kind == "gofunc" {
				b.NewFunctionBuilder().WithGoFunction(api.GoFunc(func(ctx context.Context, stack []uint64) { body(ctx, nil, stack) }), P, R).Export(name)
			} else {
				b.NewFunctionBuilder().WithGoModuleFunction(api.GoModuleFunc(body), P, R).Export(name)
			}
		case "reflect":
			var in, out []reflect.Type
			if st.CtxPar >= 1 {
				in = append(in, tCtx)
			}
			if st.CtxPar == 2 {
				in = append(in, tMod)
			}
			off := len(in)
			for i, t := range P {
				in = append(in, st.goTypeOf(t, x.signMask, i))
			}
			for j, t := range R {
				out = append(out, st.goTypeOf(t, x.signMask, 16+j))
			}
			ft := reflect.FuncOf(in, out, false)
			fn := reflect.MakeFunc(ft, func(args []reflect.Value) []reflect.Value {
				var ctx context.Context
				var mod api.Module
				if st.CtxPar >= 1 {
					ctx, _ = args[0].Interface().(context.Context)
				}
				if st.CtxPar == 2 {
					mod, _ = args[1].Interface().(api.Module)
				}
				got := make([]val, len(P))
				for i := range P {
					a := args[off+i]
					switch a.Kind() {
					case reflect.Int32:
						got[i].Lo = uint64(uint32(int32(a.Int())))
					case reflect.Int64:
						got[i].Lo = uint64(a.Int())
					case reflect.Uint32, reflect.Uint64, reflect.Uintptr:
						got[i].Lo = a.Uint()
					case reflect.Float32:
						got[i].Lo = uint64(f32BitsOf(a)) // no float64 round trip: keeps sNaNs
					case reflect.Float64:
						got[i].Lo = math.Float64bits(a.Float())
					}
				}
				res := h.onCall(st, ctx, mod, got, nil)
				rv := make([]reflect.Value, len(R))
				for j := range R {
					v := res[j].Lo
					rv[j] = valueOfBits(out[j], v)
				}
				return rv
			})
			b.NewFunctionBuilder().WithFunc(fn.Interface()).Export(name)
		}
	}
	return b.Instantiate(ctx)
}
