package c08

import (
	"fmt"
	"strings"

	"github.com/tetratelabs/wazero/verifharness/core"
	"github.com/tetratelabs/wazero/verifharness/wenc"
)

// T is a wasm value type (wenc encoding).
type T = byte

// Signature strings: one char per type, params '>' results, e.g. "iIf>Fe".
const typeChars = "iIfFerv"

var charType = map[byte]T{'i': wenc.I32, 'I': wenc.I64, 'f': wenc.F32, 'F': wenc.F64, 'e': wenc.ExternRef, 'r': wenc.FuncRef, 'v': wenc.V128}

func typeChar(t T) byte {
	switch t {
	case wenc.I32:
		return 'i'
	case wenc.I64:
		return 'I'
	case wenc.F32:
		return 'f'
	case wenc.F64:
		return 'F'
	case wenc.ExternRef:
		return 'e'
	case wenc.FuncRef:
		return 'r'
	case wenc.V128:
		return 'v'
	}
	return '?'
}

func sigString(p, r []T) string {
	var sb strings.Builder
	for _, t := range p {
		sb.WriteByte(typeChar(t))
	}
	sb.WriteByte('>')
	for _, t := range r {
		sb.WriteByte(typeChar(t))
	}
	return sb.String()
}

func parseSig(s string) (p, r []T) {
	i := strings.IndexByte(s, '>')
	for _, c := range []byte(s[:i]) {
		p = append(p, charType[c])
	}
	for _, c := range []byte(s[i+1:]) {
		r = append(r, charType[c])
	}
	return
}

func hasType(ts []T, t T) bool {
	for _, x := range ts {
		if x == t {
			return true
		}
	}
	return false
}

// val is one wasm value; Hi is used by v128 only. For funcref in *abstract*
// vectors Lo is 0 (null) or 1..nTargets (reference to guest function t<Lo-1>);
// it is resolved to the engine's opaque value at run time.
type val struct {
	Lo, Hi uint64
}

func (v val) String() string {
	if v.Hi != 0 {
		return fmt.Sprintf("%#x:%#x", v.Lo, v.Hi)
	}
	return fmt.Sprintf("%#x", v.Lo)
}

const nTargets = 4

// The value classes the property names: 0, 1, -1, min, max, 0x80000000,
// 0xFFFFFFFF, high bits set, NaNs with payloads (quiet and signalling), -0, +-inf.
var (
	edgeI32 = []uint64{0, 1, 0xFFFFFFFF, 0x80000000, 0x7FFFFFFF, 0x80000001, 0xFFFF0000, 0xDEADBEEF, 0x00010000, 0xFFFFFF80, 0x7F, 0xAAAAAAAA}
	edgeI64 = []uint64{0, 1, 0xFFFFFFFFFFFFFFFF, 0x8000000000000000, 0x7FFFFFFFFFFFFFFF, 0x80000000, 0xFFFFFFFF, 0xFFFFFFFF00000000,
		0x100000000, 0xDEADBEEFCAFEBABE, 0xFFFFFFFF80000000, 0x7FFFFFFF}
	edgeF32 = []uint64{0, 0x80000000, 0x3F800000, 0xBF800000, 0x7F800000, 0xFF800000, 0x7FC00000, 0x7FC12345, 0x7F800001, 0xFFA54321,
		0x7F7FFFFF, 0x00000001}
	edgeF64 = []uint64{0, 0x8000000000000000, 0x3FF0000000000000, 0xBFF0000000000000, 0x7FF0000000000000, 0xFFF0000000000000,
		0x7FF8000000000000, 0x7FF8000012345678, 0x7FF0000000000001, 0xFFF4000087654321, 0x7FEFFFFFFFFFFFFF, 0x0000000000000001}
	edgeExt = []uint64{0, 1, 0xDEADBEEF, 0xFFFFFFFFFFFFFFFF, 0x8000000000000000, 0xC000123450, 0, 0xFFFFFFFF, 0x100000000, 0x7FFFFFFFFFFFFFFF, 8, 0xFFFFFFFF00000000}
)

const nEdge = 12

func isNaN32(b uint32) bool { return b&0x7F800000 == 0x7F800000 && b&0x007FFFFF != 0 }
func isNaN64(b uint64) bool {
	return b&0x7FF0000000000000 == 0x7FF0000000000000 && b&0x000FFFFFFFFFFFFF != 0
}
func isSNaN32(b uint32) bool { return isNaN32(b) && b&0x00400000 == 0 }
func isSNaN64(b uint64) bool { return isNaN64(b) && b&0x0008000000000000 == 0 }

// genVal: vector k, position pos. The first nEdge vectors walk the edge table
// so that every position sees every edge value; later vectors are PRNG
// (edge-biased generators of core.Rng).
func genVal(r *core.Rng, t T, k, pos, salt int) val {
	e := (k + 5*pos + salt) % nEdge
	switch t {
	case wenc.I32:
		if k < nEdge {
			return val{Lo: edgeI32[e]}
		}
		return val{Lo: uint64(r.I32())}
	case wenc.I64:
		if k < nEdge {
			return val{Lo: edgeI64[e]}
		}
		return val{Lo: r.I64()}
	case wenc.F32:
		if k < nEdge {
			return val{Lo: edgeF32[e]}
		}
		return val{Lo: uint64(r.F32())}
	case wenc.F64:
		if k < nEdge {
			return val{Lo: edgeF64[e]}
		}
		return val{Lo: r.F64()}
	case wenc.ExternRef:
		if k < nEdge {
			return val{Lo: edgeExt[e]}
		}
		if r.Chance(1, 5) {
			return val{}
		}
		return val{Lo: r.I64()}
	case wenc.FuncRef:
		return val{Lo: uint64((k + pos + salt) % (nTargets + 1))}
	case wenc.V128:
		if k < nEdge {
			if (k+pos)%2 == 0 {
				return val{Lo: edgeI64[e], Hi: edgeF64[(e+3)%nEdge]}
			}
			return val{Lo: edgeF32[e] | edgeF32[(e+7)%nEdge]<<32, Hi: edgeI32[(e+1)%nEdge] | edgeI32[(e+5)%nEdge]<<32}
		}
		return val{Lo: r.I64(), Hi: r.F64()}
	}
	return val{}
}

func genVectors(r *core.Rng, ts []T, K, salt int) [][]val {
	out := make([][]val, K)
	for k := range out {
		out[k] = make([]val, len(ts))
		for i, t := range ts {
			out[k][i] = genVal(r, t, k, i, salt)
		}
	}
	return out
}

// valueClass names the class of a value for the evidence counters.
func valueClass(t T, v val) string {
	switch t {
	case wenc.I32:
		switch uint32(v.Lo) {
		case 0:
			return "i32:0"
		case 1:
			return "i32:1"
		case 0xFFFFFFFF:
			return "i32:-1/0xFFFFFFFF"
		case 0x80000000:
			return "i32:min/0x80000000"
		case 0x7FFFFFFF:
			return "i32:max"
		}
		if v.Lo&0x80000000 != 0 {
			return "i32:bit31-set"
		}
		return "i32:other"
	case wenc.I64:
		switch v.Lo {
		case 0:
			return "i64:0"
		case 1:
			return "i64:1"
		case 0xFFFFFFFFFFFFFFFF:
			return "i64:-1"
		case 0x8000000000000000:
			return "i64:min"
		case 0x7FFFFFFFFFFFFFFF:
			return "i64:max"
		case 0x80000000:
			return "i64:0x80000000"
		case 0xFFFFFFFF:
			return "i64:0xFFFFFFFF"
		}
		if v.Lo>>32 != 0 {
			return "i64:high-bits-set"
		}
		return "i64:other"
	case wenc.F32:
		b := uint32(v.Lo)
		switch {
		case b == 0:
			return "f32:+0"
		case b == 0x80000000:
			return "f32:-0"
		case isSNaN32(b):
			return "f32:sNaN"
		case isNaN32(b):
			if b&0x003FFFFF != 0 {
				return "f32:qNaN-payload"
			}
			return "f32:qNaN"
		case b&0x7FFFFFFF == 0x7F800000:
			return "f32:inf"
		}
		return "f32:other"
	case wenc.F64:
		b := v.Lo
		switch {
		case b == 0:
			return "f64:+0"
		case b == 0x8000000000000000:
			return "f64:-0"
		case isSNaN64(b):
			return "f64:sNaN"
		case isNaN64(b):
			if b&0x0007FFFFFFFFFFFF != 0 {
				return "f64:qNaN-payload"
			}
			return "f64:qNaN"
		case b&0x7FFFFFFFFFFFFFFF == 0x7FF0000000000000:
			return "f64:inf"
		}
		return "f64:other"
	case wenc.ExternRef:
		if v.Lo == 0 {
			return "externref:null"
		}
		if v.Lo>>32 != 0 {
			return "externref:high-bits-set"
		}
		return "externref:nonnull"
	case wenc.FuncRef:
		if v.Lo == 0 {
			return "funcref:null"
		}
		return "funcref:nonnull"
	case wenc.V128:
		return "v128"
	}
	return "?"
}

// slots: number of uint64 stack slots of a type list.
func slots(ts []T) int {
	n := 0
	for _, t := range ts {
		if t == wenc.V128 {
			n += 2
		} else {
			n++
		}
	}
	return n
}

// flatten encodes values as the api documents (i32/f32 zero-extended).
func flatten(ts []T, vs []val) []uint64 {
	out := make([]uint64, 0, len(ts)+2)
	for i, t := range ts {
		switch t {
		case wenc.V128:
			out = append(out, vs[i].Lo, vs[i].Hi)
		case wenc.I32, wenc.F32:
			out = append(out, uint64(uint32(vs[i].Lo)))
		default:
			out = append(out, vs[i].Lo)
		}
	}
	return out
}

// unflatten decodes raw slots (no masking: the raw slot is kept so that dirty
// upper halves can be seen).
func unflatten(ts []T, raw []uint64) []val {
	out := make([]val, len(ts))
	j := 0
	for i, t := range ts {
		if j >= len(raw) {
			break
		}
		if t == wenc.V128 {
			out[i].Lo = raw[j]
			if j+1 < len(raw) {
				out[i].Hi = raw[j+1]
			}
			j += 2
		} else {
			out[i].Lo = raw[j]
			j++
		}
	}
	return out
}

// sameValue: does got carry the value exp for type t? 32-bit types are
// compared on the low half of the slot only (api.DecodeU32/DecodeF32 view);
// everything else bit for bit.
func sameValue(t T, exp, got val) bool {
	switch t {
	case wenc.I32, wenc.F32:
		return uint32(exp.Lo) == uint32(got.Lo)
	case wenc.V128:
		return exp == got
	}
	return exp.Lo == got.Lo
}

func upperDirty(t T, got val) bool {
	return (t == wenc.I32 || t == wenc.F32) && got.Lo>>32 != 0
}

// symptom classifies a wrong (or dirty) observation; it is the part of the
// violation signature that names the failure mode.
func symptom(t T, exp, got val, others []val) string {
	switch t {
	case wenc.I32, wenc.F32:
		if uint32(exp.Lo) == uint32(got.Lo) {
			if t == wenc.I32 && got.Lo == uint64(int64(int32(uint32(exp.Lo)))) && got.Lo>>32 != 0 {
				return "sign-extended-slot"
			}
			if got.Lo>>32 != 0 {
				return "upper-bits-dirty"
			}
			return "same"
		}
		if t == wenc.F32 && isSNaN32(uint32(exp.Lo)) && uint32(got.Lo) == uint32(exp.Lo)|0x00400000 {
			return "snan-quieted"
		}
		if t == wenc.F32 && isNaN32(uint32(exp.Lo)) && isNaN32(uint32(got.Lo)) {
			return "nan-payload-changed"
		}
	case wenc.F64:
		if exp.Lo == got.Lo {
			return "same"
		}
		if isSNaN64(exp.Lo) && got.Lo == exp.Lo|0x0008000000000000 {
			return "snan-quieted"
		}
		if isNaN64(exp.Lo) && isNaN64(got.Lo) {
			return "nan-payload-changed"
		}
	case wenc.I64, wenc.ExternRef, wenc.FuncRef:
		if exp.Lo == got.Lo {
			return "same"
		}
		if got.Lo == exp.Lo&0xFFFFFFFF && got.Lo != 0 {
			return "truncated-to-32-bits"
		}
		if got.Lo == uint64(int64(int32(uint32(exp.Lo)))) && got.Lo != 0 {
			return "low-half-sign-extended"
		}
	case wenc.V128:
		if exp == got {
			return "same"
		}
		if exp.Lo == got.Hi && exp.Hi == got.Lo {
			return "halves-swapped"
		}
		if exp.Lo == got.Lo || exp.Hi == got.Hi {
			return "one-half-wrong"
		}
	}
	for _, o := range others {
		if o == got && o != exp && (got.Lo != 0 || got.Hi != 0) {
			return "value-of-other-position"
		}
	}
	return "wrong-value"
}
