package c08

import (
	"context"
	"encoding/json"
	"fmt"
	"math"
	"reflect"

	"github.com/tetratelabs/wazero"
	"github.com/tetratelabs/wazero/api"
	"github.com/tetratelabs/wazero/verifharness/core"
	"github.com/tetratelabs/wazero/verifharness/wenc"
)

// A fixed family of host functions typed at compile time (not reflect.MakeFunc)
// whose parameters and results use user-defined types of every kind wazero's
// reflection path accepts, in first / middle / last position, mixed with plain
// types, without and with context.Context / api.Module. (The echo protocol's
// r0n/r1n/r2n styles cover arbitrary signatures with the same named types
// through reflect.FuncOf; this family makes sure ordinary Go functions behave
// the same.)

type fixedRec struct {
	got   []uint64 // bits of the parameters the function received
	ret   []uint64 // bits it must return
	calls int
}

func fb32(f float32) uint64 { return uint64(math.Float32bits(f)) }
func fb64(f float64) uint64 { return math.Float64bits(f) }
func bf32(v uint64) float32 { return math.Float32frombits(uint32(v)) }
func bf64(v uint64) float64 { return math.Float64frombits(v) }

func (r *fixedRec) in(v ...uint64) { r.got = v; r.calls++ }

func fixedFamily(r *fixedRec) []any {
	type C = context.Context
	type M = api.Module
	return []any{
		// named float32 parameter: first / middle / last
		func(a myF32, b uint32, c float64) uint32 {
			r.in(fb32(float32(a)), uint64(b), fb64(c))
			return uint32(r.ret[0])
		},
		func(_ C, a int64, b myF32, c uint32) float32 {
			r.in(uint64(a), fb32(float32(b)), uint64(c))
			return bf32(r.ret[0])
		},
		func(_ C, _ M, a uint64, b float32, c myF32) int32 {
			r.in(a, fb32(b), fb32(float32(c)))
			return int32(uint32(r.ret[0]))
		},
		// named float64 parameter
		func(a myF64, b float32, c int32) uint64 {
			r.in(fb64(float64(a)), fb32(b), uint64(uint32(c)))
			return r.ret[0]
		},
		func(_ C, a int32, b myF64, c float32) float64 {
			r.in(uint64(uint32(a)), fb64(float64(b)), fb32(c))
			return bf64(r.ret[0])
		},
		func(_ C, _ M, a uint32, b uint64, c myF64) int64 {
			r.in(uint64(a), b, fb64(float64(c)))
			return int64(r.ret[0])
		},
		// named integer / pointer parameters
		func(a myI32, b float64, c myU32) int32 {
			r.in(uint64(uint32(a)), fb64(b), uint64(c))
			return int32(uint32(r.ret[0]))
		},
		func(_ C, a float32, b myI64, c float32) uint32 {
			r.in(fb32(a), uint64(b), fb32(c))
			return uint32(r.ret[0])
		},
		func(_ C, _ M, a myU64, b int32, c myPtr) uintptr {
			r.in(uint64(a), uint64(uint32(b)), uint64(c))
			return uintptr(r.ret[0])
		},
		func(a uintptr, b myPtr, c myI32) uint64 {
			r.in(uint64(a), uint64(b), uint64(uint32(c)))
			return r.ret[0]
		},
		// named results: first / middle / last
		func(a float32) (myF32, uint32, float64) {
			r.in(fb32(a))
			return myF32(bf32(r.ret[0])), uint32(r.ret[1]), bf64(r.ret[2])
		},
		func(_ C, a float32) (uint32, myF32, int64) {
			r.in(fb32(a))
			return uint32(r.ret[0]), myF32(bf32(r.ret[1])), int64(r.ret[2])
		},
		func(_ C, _ M, a float32) (int64, float64, myF32) {
			r.in(fb32(a))
			return int64(r.ret[0]), bf64(r.ret[1]), myF32(bf32(r.ret[2]))
		},
		func(a float64) (myF64, float32) { r.in(fb64(a)); return myF64(bf64(r.ret[0])), bf32(r.ret[1]) },
		func(_ C, a float64) (int32, myF64) {
			r.in(fb64(a))
			return int32(uint32(r.ret[0])), myF64(bf64(r.ret[1]))
		},
		func(a int32) (myI32, myU32, myI64) {
			r.in(uint64(uint32(a)))
			return myI32(uint32(r.ret[0])), myU32(r.ret[1]), myI64(r.ret[2])
		},
		func(_ C, _ M, a int64) (myU64, myPtr, myI32) {
			r.in(uint64(a))
			return myU64(r.ret[0]), myPtr(r.ret[1]), myI32(uint32(r.ret[2]))
		},
		// everything named
		func(_ C, a myF32, b myF64) (myF64, myF32) {
			r.in(fb32(float32(a)), fb64(float64(b)))
			return myF64(bf64(r.ret[0])), myF32(bf32(r.ret[1]))
		},
		func(a myI32, b myU32, c myI64, d myU64, e myPtr) (myPtr, myU64, myI64, myU32, myI32) {
			r.in(uint64(uint32(a)), uint64(b), uint64(c), uint64(d), uint64(e))
			return myPtr(r.ret[0]), myU64(r.ret[1]), myI64(r.ret[2]), myU32(r.ret[3]), myI32(uint32(r.ret[4]))
		},
		func(_ C, _ M, a myF32) myF32 { r.in(fb32(float32(a))); return myF32(bf32(r.ret[0])) },
		func() myF32 { r.in(); return myF32(bf32(r.ret[0])) },
		func(a myF32) { r.in(fb32(float32(a))) },
		func(_ C, a myF64) myF64 { r.in(fb64(float64(a))); return myF64(bf64(r.ret[0])) },
		func(a, b, c, d, e, f, g, h, i, j myF32) (myF32, myF32) { // stack-passed named floats on the compiler
			r.in(fb32(float32(a)), fb32(float32(b)), fb32(float32(c)), fb32(float32(d)), fb32(float32(e)), fb32(float32(f)),
				fb32(float32(g)), fb32(float32(h)), fb32(float32(i)), fb32(float32(j)))
			return myF32(bf32(r.ret[0])), myF32(bf32(r.ret[1]))
		},
	}
}

func wasmTypeOfKind(k reflect.Kind) T {
	switch k {
	case reflect.Int32, reflect.Uint32:
		return wenc.I32
	case reflect.Int64, reflect.Uint64:
		return wenc.I64
	case reflect.Float32:
		return wenc.F32
	case reflect.Float64:
		return wenc.F64
	}
	return wenc.ExternRef
}

type fixedFn struct {
	fn       any
	form     string // no-ctx | ctx | ctx+module
	P, R     []T
	PGo, RGo []string
}

func describeFixed(fn any) fixedFn {
	t := reflect.TypeOf(fn)
	f := fixedFn{fn: fn, form: "no-ctx"}
	i := 0
	if t.NumIn() > 0 && t.In(0) == tCtx {
		i, f.form = 1, "ctx"
		if t.NumIn() > 1 && t.In(1) == tMod {
			i, f.form = 2, "ctx+module"
		}
	}
	for ; i < t.NumIn(); i++ {
		f.P = append(f.P, wasmTypeOfKind(t.In(i).Kind()))
		f.PGo = append(f.PGo, t.In(i).Name())
	}
	for j := 0; j < t.NumOut(); j++ {
		f.R = append(f.R, wasmTypeOfKind(t.Out(j).Kind()))
		f.RGo = append(f.RGo, t.Out(j).Name())
	}
	return f
}

type namedCase struct {
	Seed uint64 `json:"seed"`
	K    int    `json:"k"`
}

type namedResult struct {
	Findings  []finding        `json:"findings,omitempty"`
	Engines   int              `json:"engines"`
	Calls     int64            `json:"calls"`
	Values    int64            `json:"values"`
	Masks     int64            `json:"masks"`
	Functions int              `json:"functions"`
	GoTypes   map[string]int64 `json:"go_types"` // "param myF32" -> values checked
	Forms     map[string]int64 `json:"forms"`
	BuildErr  string           `json:"build_err,omitempty"`
}

func runNamedFixed(tc *namedCase) *namedResult {
	res := &namedResult{GoTypes: map[string]int64{}, Forms: map[string]int64{}}
	rec := &fixedRec{}
	var fns []fixedFn
	for _, f := range fixedFamily(rec) {
		fns = append(fns, describeFixed(f))
	}
	res.Functions = len(fns)
	r := core.NewRng(int64(tc.Seed), 89)
	K := tc.K
	pv, rv := make([][][]val, len(fns)), make([][][]val, len(fns))
	// guest: pass-through p<i> and judging wrapper c<i>_<k> per function
	m := &wenc.Module{}
	g := &gb{m: m}
	imp := make([]uint32, len(fns))
	for i, f := range fns {
		imp[i] = m.ImportFunc("nf", fmt.Sprintf("f%d", i), f.P, f.R)
		pv[i], rv[i] = genVectors(r, f.P, K, i), genVectors(r, f.R, K, i+3)
	}
	for i, f := range fns {
		c := &wenc.Code{}
		for p := range f.P {
			c.LocalGet(uint32(p))
		}
		m.ExportFunc(fmt.Sprintf("p%d", i), m.AddFunc(f.P, f.R, nil, c.Call(imp[i]).End().B))
		refs := refPositions(f.P)
		refT := make([]T, len(refs))
		for x, p := range refs {
			refT[x] = f.P[p]
		}
		nE, nR := uint32(len(refs)), uint32(len(f.R))
		for k := 0; k < K; k++ {
			c := &wenc.Code{}
			e := uint32(0)
			for p, t := range f.P {
				if t == wenc.ExternRef {
					c.LocalGet(e)
					e++
				} else {
					pushConst(c, g, t, pv[i][k][p])
				}
			}
			c.Call(imp[i])
			for j := int(nR) - 1; j >= 0; j-- {
				c.LocalSet(nE + uint32(j))
			}
			mask := nE + nR
			for j, t := range f.R {
				judge(c, g, nE+uint32(j), t, rv[i][k][j], j, mask)
			}
			for j := uint32(0); j < nR; j++ {
				c.LocalGet(nE + j)
			}
			c.LocalGet(mask).End()
			m.ExportFunc(fmt.Sprintf("c%d_%d", i, k), m.AddFunc(refT, plusMask(f.R), append(append([]T(nil), f.R...), wenc.I32), c.B))
		}
	}
	wasm := m.Encode()
	seen := map[string]bool{}
	report := func(eng string, i int, fnName, form, dir string, pos int, goT string, t T, exp, got val, others []val, note string) {
		sym := symptom(t, exp, got, others)
		if sym == "same" {
			sym = "guest-judge-only"
		}
		e := ":" + eng
		if sym == "snan-quieted" || sym == "sign-extended-slot" {
			e = ""
		}
		sig := fmt.Sprintf("reflect-%s-%s:%s%s", goT, dir, sym, e)
		if seen[sig] {
			return
		}
		seen[sig] = true
		res.Findings = append(res.Findings, finding{Sig: sig,
			Detail: fmt.Sprintf("compile-time typed host function %s (%s): engine %s guest func %s via %s: %s %d of Go type %s expected %s got %s %s",
				reflect.TypeOf(fns[i].fn), fns[i].form, eng, fnName, form, dir, pos, goT, exp, got, note),
			Witness: map[string]any{"named_case": tc, "engine": eng, "go_func_type": reflect.TypeOf(fns[i].fn).String(), "guest_func": fnName,
				"form": form, "direction": dir, "pos": pos, "expected": exp.String(), "got": got.String()}})
	}
	other := func(eng, what, detail string) {
		sig := "named-fixed-family:" + what + ":" + eng
		if !seen[sig] {
			seen[sig] = true
			res.Findings = append(res.Findings, finding{Sig: sig, Detail: detail, Witness: map[string]any{"named_case": tc, "engine": eng}})
		}
	}
	ctx := context.Background()
	for _, eng := range []string{"interpreter", "compiler"} {
		cfg := wazero.NewRuntimeConfigCompiler()
		if eng == "interpreter" {
			cfg = wazero.NewRuntimeConfigInterpreter()
		}
		rt := wazero.NewRuntimeWithConfig(ctx, cfg)
		hb := rt.NewHostModuleBuilder("nf")
		for i, f := range fns {
			hb.NewFunctionBuilder().WithFunc(f.fn).Export(fmt.Sprintf("f%d", i))
		}
		if _, err := hb.Instantiate(ctx); err != nil {
			res.BuildErr = eng + " host: " + err.Error()
			rt.Close(ctx)
			return res
		}
		guest, err := rt.Instantiate(ctx, wasm)
		if err != nil {
			res.BuildErr = eng + " guest: " + err.Error()
			rt.Close(ctx)
			return res
		}
		for i, f := range fns {
			for k := 0; k < K; k++ {
				for _, judged := range []bool{true, false} {
					name := fmt.Sprintf("p%d", i)
					args := flatten(f.P, pv[i][k])
					resT := f.R
					kr := (k + 3) % K
					if judged {
						name, args, resT, kr = fmt.Sprintf("c%d_%d", i, k), extArgs(f.P, pv[i][k]), plusMask(f.R), k
					}
					rec.got, rec.calls = nil, 0
					rec.ret = flatten(f.R, rv[i][kr])
					viaStack := (k%2 == 0) == judged
					form := "call"
					var raw []uint64
					var err error
					fn := guest.ExportedFunction(name)
					if viaStack {
						form = "callwithstack"
						n := len(args)
						if len(resT) > n {
							n = len(resT)
						}
						stk := make([]uint64, n)
						copy(stk, args)
						err = fn.CallWithStack(ctx, stk)
						raw = stk[:len(resT)]
					} else {
						raw, err = fn.Call(ctx, args...)
					}
					res.Calls++
					res.Forms[f.form+" "+form]++
					if err != nil {
						other(eng, "call-error:"+errClassStr(err.Error()), name+": "+core.Trunc(err.Error(), 400))
						continue
					}
					if rec.calls != 1 || len(rec.got) != len(f.P) {
						other(eng, "host-function-calls", fmt.Sprintf("%s: host function ran %d times with %d params", name, rec.calls, len(rec.got)))
						continue
					}
					for p, t := range f.P {
						res.Values++
						res.GoTypes["param "+f.PGo[p]]++
						if got := (val{Lo: rec.got[p]}); !sameValue(t, pv[i][k][p], got) {
							report(eng, i, name, form, "param", p, f.PGo[p], t, pv[i][k][p], got, pv[i][k], "")
						}
					}
					got := unflatten(resT, raw)
					for j, t := range f.R {
						res.Values++
						res.GoTypes["result "+f.RGo[j]]++
						if !sameValue(t, rv[i][kr][j], got[j]) {
							report(eng, i, name, form, "result", j, f.RGo[j], t, rv[i][kr][j], got[j], rv[i][kr], "")
						}
					}
					if judged {
						res.Masks++
						if mk := uint32(raw[len(raw)-1]); mk != 0 {
							for j, t := range f.R {
								if mk&(1<<uint(j)|1<<uint(j+bitSecondary)) != 0 {
									report(eng, i, name, form, "result", j, f.RGo[j], t, rv[i][kr][j], got[j], rv[i][kr], fmt.Sprintf("(in-wasm judge mask=%#x)", mk))
								}
							}
						}
					}
				}
			}
		}
		rt.Close(ctx)
		res.Engines++
	}
	return res
}

func childNamed(in json.RawMessage) any {
	var tc namedCase
	if err := json.Unmarshal(in, &tc); err != nil || tc.K == 0 {
		return &namedResult{BuildErr: "bad-case"}
	}
	return runNamedFixed(&tc)
}
