// Package c10 decides C10 (module lifecycle and name registry are linearizable):
// many short concurrent histories of instantiate / lookup / close / compile /
// runtime-close over two names and the anonymous name are recorded at the client
// boundary and checked with porcupine against the sequential registry model of
// DESIGN.md Appendix C; counters (close notifications, module closed flags,
// requests after close) are checked at quiescence; a -race flavour runs the same
// workload without any harness synchronisation between clients; a sequential
// phase replays single-client scripts against the model and shrinks divergences
// to the triggering operations.
package c10

import (
	"encoding/json"
	"fmt"
	"os"
	"path/filepath"
	"sort"
	"strings"
	"time"

	"github.com/tetratelabs/wazero/verifharness/core"
)

var Prop = &core.Prop{ID: "C10", Run: run, Child: child, Replay: replay}

type caseIn struct {
	Seed   uint64 `json:"seed"`
	Engine int    `json:"engine"`
	Reps   int    `json:"reps"`
	N      int    `json:"n,omitempty"` // large-registry histories: names
	G      int    `json:"g,omitempty"` // large-registry histories: clients
}

type caseOut struct {
	Findings   []finding      `json:"findings,omitempty"`
	Ops        map[string]int `json:"ops"`
	Hists      int            `json:"hists"`
	NOps       int            `json:"nops"`
	Porc       map[string]int `json:"porc,omitempty"`
	EvOrders   []string       `json:"ev,omitempty"`
	PointSeqs  []string       `json:"ps,omitempty"`
	PointHits  []int          `json:"ph,omitempty"`
	Overlaps   int            `json:"overlaps"`
	Overlapped int            `json:"overlapped_hists"`
	Modules    int            `json:"modules"`
	Clients    int            `json:"clients"`
	Sample     []string       `json:"sample,omitempty"`
}

func (o *caseOut) add(f finding) {
	for _, g := range o.Findings {
		if g.Sig == f.Sig {
			return
		}
	}
	o.Findings = append(o.Findings, f)
}

func child(mode string, in json.RawMessage) any {
	var ci caseIn
	json.Unmarshal(in, &ci)
	out := &caseOut{Ops: map[string]int{}, Porc: map[string]int{}, PointHits: make([]int, nPoints+1)}
	r := core.NewRng(int64(ci.Seed), 10)
	switch mode {
	case "big":
		return runBig(ci, mode)
	case "seq":
		s := genSeq(r, ci.Engine)
		run := replaySeq(s)
		out.Hists = 1
		out.NOps = len(run.trace)
		for k, n := range run.ops {
			out.Ops[k] += n
		}
		if s.FS {
			out.Ops["seq-fs-variant"]++
		}
		for _, f := range run.finds {
			out.add(f)
		}
		if run.div == nil {
			out.Porc["seq-agrees"]++
		} else {
			out.Porc["seq-diverges"]++
			if strings.HasPrefix(run.div.Class, "atomicity:") { // schedule dependent: reported as it is
				out.add(finding{Sig: run.div.Class, Detail: "single client, " + engineName(s.Engine) + ": " + run.div.Text,
					Witness: map[string]any{"script": s, "trace": lines(run.trace)}})
				return out
			}
			ms, mr := shrink(s, run.div)
			if mr.div == nil {
				mr, ms = run, s
			}
			out.add(finding{Sig: seqSig(ms, mr), Detail: "single client, " + engineName(s.Engine) + ": " + mr.div.Text,
				Witness: map[string]any{"minimal_script": ms, "minimal_trace": lines(mr.trace), "original_script": s, "original_trace": lines(run.trace), "divergence": run.div.Text}})
		}
		if len(run.trace) >= 8 {
			out.Sample = lines(run.trace)
		}
		return out
	}
	sc := genScript(r, ci.Engine)
	out.Clients = len(sc.G)
	orders := map[string]bool{}
	for rep := 0; rep < max(1, ci.Reps); rep++ {
		hc := genHookCfg(r)
		ho := runHistory(sc, hc, mode)
		out.Hists++
		out.NOps += len(ho.lops)
		out.Modules += ho.modules
		for k, n := range ho.ops {
			out.Ops[k] += n
		}
		for i, n := range ho.pointHits {
			out.PointHits[i] += n
		}
		for _, f := range ho.findings {
			out.add(f)
		}
		if mode != "conc" {
			continue
		}
		out.EvOrders = append(out.EvOrders, ho.evOrder)
		out.PointSeqs = append(out.PointSeqs, ho.pointSeq)
		orders[ho.evOrder] = true
		out.Overlaps += ho.overlaps
		if ho.overlaps > 0 {
			out.Overlapped++
		}
		if rep == 0 {
			out.Sample = lines(ho.lops)
		}
		judge(out, sc, ho)
	}
	if mode == "conc" && len(orders) > 1 {
		out.Ops["scripts-with-more-than-one-observed-event-order"]++
	}
	return out
}

func lines(h []lop) []string {
	var out []string
	for _, o := range h {
		out = append(out, fmt.Sprintf("c%d [%d,%d] %s", o.Client, o.Call, o.Ret, o.String()))
	}
	return out
}

// judge hands one recorded history to porcupine and labels an illegal one.
func judge(out *caseOut, sc *script, ho *histOut) {
	if ho.skipPorc != "" {
		out.Porc["skipped:"+ho.skipPorc]++
		return
	}
	if ho.modules > 60 {
		out.Porc["skipped:too-many-modules"]++
		return
	}
	v := decide(ho.lops)
	switch v.Result {
	case "ok":
		out.Porc["linearizable"]++
		return
	case "unknown":
		out.Porc["unknown"]++
		return
	}
	w := map[string]any{"engine": engineName(sc.Engine), "script": sc, "history": lines(ho.lops)}
	// a defect a single client can trigger is named by its minimal sequential script
	s := seqOfHistory(sc.Engine, sc.CD, ho.lops)
	if sr := replaySeq(s); sr.div != nil {
		ms, mr := shrink(s, sr.div)
		if mr.div != nil {
			out.Porc["illegal:sequentially-reproducible"]++
			w["minimal_script"], w["minimal_trace"] = ms, lines(mr.trace)
			out.add(finding{Sig: seqSig(ms, mr), Detail: "history is not linearizable; its operations run by one client in call order already diverge: " + mr.div.Text, Witness: w})
			return
		}
	}
	if v.None {
		out.Porc["illegal:unexplained"]++
		w["core"] = lines(v.Core)
		w["longest_partial_linearization"] = v.Longest
		out.add(finding{Sig: "nonlin:" + label(v.Core), Witness: w,
			Detail: "history has no linearization in the sequential registry model (not even with two-step closes); illegal part: " + core.Trunc(strings.Join(lines(v.Core), "; "), 600)})
		return
	}
	out.Porc["illegal:"+v.Level.String()]++
	w["admitted_by"] = v.Level.String()
	if v.Level.M {
		out.add(finding{Sig: "atomicity:module-close-steps-visible", Witness: w,
			Detail: "history has no linearization with an atomic Module.Close, but has one if Close first marks the module closed and releases its name later, and a Close that finds the module already marked returns at once: clients saw a closed module still owning its name"})
	}
	if v.Level.R {
		out.add(finding{Sig: "atomicity:runtime-close-steps-visible", Witness: w,
			Detail: "history has no linearization with an atomic Runtime.Close, but has one if Close first makes requests fail, then closes modules one by one and empties the registry last, and a Close that finds the runtime already marked returns at once"})
	}
	if v.Level.D {
		out.add(finding{Sig: "nonlin:explained-by:failed-duplicate-instantiate-releases-name", Witness: w,
			Detail: "history is linearizable only in a registry where an instantiate failing with 'name in use' releases that name (see the seq: finding for the single-client trigger)"})
	}
	if v.Level.H {
		out.add(finding{Sig: "nonlin:explained-by:host-compile-ignores-closed-runtime", Witness: w,
			Detail: "history is linearizable only if HostModuleBuilder.Compile may succeed after requests started to fail with 'runtime closed'"})
	}
}

func run(c *core.Ctx) int {
	os.RemoveAll(filepath.Join(c.Out, "children")) // logs of earlier runs
	rng := core.NewRng(c.Seed, 10)
	mk := func(n, reps int) []json.RawMessage {
		var cs []json.RawMessage
		for i := 0; i < n; i++ {
			cs = append(cs, core.J(caseIn{Seed: rng.U64(), Engine: i % 2, Reps: reps}))
		}
		return cs
	}
	seqCases := mk(c.N(3000, 40000), 1)
	concCases := mk(c.N(1500, 30000), c.N(2, 3)) // 3 000 / 90 000 histories
	raceCases := mk(c.N(600, 15000), 1)

	mkBig := func(n int, conc bool) []json.RawMessage {
		var cs []json.RawMessage
		for i := 0; i < n; i++ {
			g := 1
			if conc || i%4 == 3 {
				g = 2 + rng.Intn(3)
			}
			cs = append(cs, core.J(caseIn{Seed: rng.U64(), Engine: i % 2, N: pickBigN(rng), G: g}))
		}
		return cs
	}
	bigCases := mkBig(c.N(160, 2400), false)
	bigRaceCases := mkBig(c.N(12, 160), true)
	bigRes := core.RunCases(c, "big", bigCases, core.ChildOpts{Batch: 5, TimeoutS: 900})
	c.Extra("phase_big_s", time.Since(c.Start).Seconds())
	seqRes := core.RunCases(c, "seq", seqCases, core.ChildOpts{Batch: 100, TimeoutS: 600})
	c.Extra("phase_seq_s", time.Since(c.Start).Seconds())
	concRes := core.RunCases(c, "conc", concCases, core.ChildOpts{Batch: 40, TimeoutS: 900})
	c.Extra("phase_conc_s", time.Since(c.Start).Seconds())
	var raceRes, bigRaceRes []core.CaseResult
	if bin := os.Getenv("VCHECK_RACE_BIN"); bin != "" {
		raceRes = core.RunCases(c, "race", raceCases, core.ChildOpts{Bin: bin, Batch: 20, TimeoutS: 900, Procs: 4,
			Env: []string{"GORACE=halt_on_error=0 exitcode=0"}})
		bigRaceRes = core.RunCases(c, "big", bigRaceCases, core.ChildOpts{Bin: bin, Batch: 2, TimeoutS: 900, Procs: 4,
			Env: []string{"GORACE=halt_on_error=0 exitcode=0"}})
	} else {
		c.Inconclusive("race-binary-missing")
	}
	c.Extra("phase_race_s", time.Since(c.Start).Seconds())

	var evals int64
	pointHits := make([]int64, nPoints+1)
	handle := func(mode string, cases []json.RawMessage, rs []core.CaseResult) {
		for _, r := range rs {
			if r.Crash != nil {
				switch r.Crash.Kind {
				case "race":
					logb, _ := os.ReadFile(r.Crash.Log)
					for _, rep := range parseRaces(string(logb)) {
						if rep.Harness {
							c.Inconclusive("race-report-with-harness-frame")
							c.Extra("harness_race_sample", rep.Text)
							continue
						}
						c.Distinct("race_reports", rep.Sig)
						c.Violate(rep.Sig, "data race inside wazero:\n"+rep.Text, map[string]any{"batch_ending_with_case": cases[r.Index], "mode": mode, "report": rep.Text})
					}
					c.Count("batches_with_race_reports", 1)
				case "timeout":
					c.Inconclusive("watchdog")
					continue
				default:
					logb, _ := os.ReadFile(r.Crash.Log)
					c.Violate(crashSig(r.Crash, string(logb)), r.Crash.Detail, map[string]any{"case": cases[r.Index], "mode": mode, "crash": r.Crash, "log_head": core.Trunc(crashHead(string(logb)), 3000)})
					continue
				}
				if r.Out == nil { // the race-flavour child died on this case
					logb, _ := os.ReadFile(r.Crash.Log)
					if strings.Contains(string(logb), "fatal error:") || strings.Contains(string(logb), "\npanic:") {
						c.Violate(crashSig(r.Crash, string(logb)), "race-flavour child died", map[string]any{"case": cases[r.Index], "mode": mode, "log_head": core.Trunc(crashHead(string(logb)), 3000)})
					} else {
						c.Inconclusive("race-child-no-output")
					}
					continue
				}
			}
			var o caseOut
			if r.Out == nil || json.Unmarshal(r.Out, &o) != nil {
				c.Inconclusive("bad-child-output")
				continue
			}
			c.Count("histories_"+mode, int64(o.Hists))
			c.Count("operations_"+mode, int64(o.NOps))
			c.Count("modules_instantiated", int64(o.Modules))
			for k, n := range o.Ops {
				if strings.HasPrefix(k, "bigN:") {
					c.Distinct("big_registry_sizes", strings.TrimPrefix(k, "bigN:"))
					continue
				}
				if strings.HasPrefix(k, "othererr:") {
					c.Distinct("errors_other_than_name_in_use_or_closed", strings.TrimPrefix(k, "othererr:"))
					continue
				}
				c.Count("op:"+k, int64(n))
				if i := strings.IndexByte(k, '='); i > 0 && !strings.Contains(k, ":") {
					c.Distinct("op_kinds_"+mode, k[:i])
					c.Distinct("outcomes", k)
				}
			}
			for k, n := range o.Porc {
				c.Count("verdict:"+k, int64(n))
				switch {
				case k == "linearizable" || strings.HasPrefix(k, "illegal") || strings.HasPrefix(k, "seq-") || strings.HasPrefix(k, "big-"):
					evals += int64(n)
				case k == "unknown":
					for i := 0; i < n; i++ {
						c.Inconclusive("porcupine-timeout")
					}
				default:
					for i := 0; i < n; i++ {
						c.Inconclusive(k)
					}
				}
			}
			if mode == "race" {
				evals += int64(o.Hists)
			}
			for _, e := range o.EvOrders {
				c.Distinct("event_orders", e)
			}
			for _, e := range o.PointSeqs {
				c.Distinct("point_hit_sequences", e)
			}
			for i, n := range o.PointHits {
				pointHits[i] += int64(n)
			}
			c.Count("overlapping_operation_pairs", int64(o.Overlaps))
			c.Count("histories_with_overlap", int64(o.Overlapped))
			if o.Clients > 0 {
				c.Distinct("client_counts", fmt.Sprint(o.Clients))
			}
			if len(o.Sample) > 0 && r.Index%211 == 0 {
				c.Sample(map[string]any{"mode": mode, "case": json.RawMessage(cases[r.Index]), "history": o.Sample})
			}
			for _, f := range o.Findings {
				c.Violate(f.Sig, f.Detail, map[string]any{"case": json.RawMessage(cases[r.Index]), "mode": mode, "finding": f})
			}
		}
	}
	handle("big", bigCases, bigRes)
	handle("big-race", bigRaceCases, bigRaceRes)
	handle("seq", seqCases, seqRes)
	handle("conc", concCases, concRes)
	handle("race", raceCases, raceRes)

	hits := map[string]int64{}
	broken := ""
	for i, n := range pointNames {
		hits[n] = pointHits[i]
		if pointHits[i] == 0 {
			c.Inconclusive("hook-point-never-hit:" + n)
			broken = "schedule point " + n + " was never reached"
		}
	}
	hits["(unknown point)"] = pointHits[nPoints]
	c.Extra("schedule_point_hits", hits)
	for _, mode := range []string{"seq", "conc", "race"} {
		if mode == "race" && raceRes == nil {
			continue
		}
		want := int(nCoreKinds)
		if mode == "seq" {
			want = int(nKinds)
		}
		if n := c.DistinctN("op_kinds_" + mode); n < want {
			c.Inconclusive("operation-kind-never-run:" + mode)
			broken = fmt.Sprintf("only %d of %d operation kinds ran in mode %s", n, want, mode)
		}
	}
	if c.Counter("verdict:linearizable") == 0 && c.Counter("verdict:illegal:sequentially-reproducible") == 0 {
		broken = "porcupine decided no history"
	}
	c.Assume("module identity = api.Module value returned by instantiate / Runtime.Module (host modules: the comparable wrapper value)")
	c.Assume("an instantiate error other than name-in-use is accepted exactly where the model allows 'runtime closed'")
	c.Assume("CompileModule / InstantiateWithConfig use a binary unique within the history, so shared compiled-code entries of identical binaries (C12) are out of scope")
	c.Assume("race flavour: no logical clock, no shared counters in the hook handler (would order the clients); linearizability is decided in the plain flavour only")
	c.Assume("large-registry histories: every client works on names of its own, so its observations of them are decided by its own operations (no porcupine needed); the reference knows nothing of map capacities")
	c.Assume("file close counts are checked in the sequential phase only (WASI guest opening a file of a counting fs.FS mount in _start)")
	code := c.Finish(evals, int64(c.DistinctN("event_orders")),
		"evaluation = one history decided (porcupine verdict on a stamped concurrent history, sequential script compared with the model step by step, or a race-flavour history with its quiescence checks); distinct = distinct orders of call/return events by client over the stamped concurrent histories (3-8 clients x 3-6 operations)")
	if broken != "" && code == 0 {
		fmt.Println("BROKEN:", broken)
		return 2
	}
	return code
}

// crashHead is the part of a child log from the fatal error / panic line on.
func crashHead(log string) string {
	for _, m := range []string{"fatal error:", "\npanic:"} {
		if i := strings.Index(log, m); i >= 0 {
			return log[i:]
		}
	}
	return log
}

// crashSig names a child crash by its message and the receiver type (or
// function) of the first wazero frame of the crashing goroutine, so that the
// different places where one unprotected map blows up share a signature.
func crashSig(cr *core.Crash, log string) string {
	head := crashHead(log)
	msg, frame := "", ""
	for i, l := range strings.Split(head, "\n") {
		if i == 0 {
			msg = strings.TrimSpace(strings.TrimPrefix(strings.TrimPrefix(l, "fatal error:"), "panic:"))
			continue
		}
		if i > 200 {
			break
		}
		if strings.HasPrefix(l, "github.com/tetratelabs/wazero") && !strings.Contains(l, "/verifharness/") {
			frame = strings.TrimPrefix(l, "github.com/tetratelabs/")
			if j := strings.LastIndex(frame, "("); j > 0 {
				frame = frame[:j]
			}
			if j := strings.Index(frame, ")."); j > 0 { // method: keep the receiver type
				frame = frame[:j+1]
			}
			break
		}
	}
	kind := cr.Kind
	if strings.HasPrefix(head, "fatal error:") {
		kind = "fatal"
	}
	if strings.HasPrefix(msg, "concurrent map") {
		msg = "concurrent map access"
	}
	if len(msg) > 60 {
		msg = msg[:60]
	}
	return "crash:" + kind + ":" + msg + ":" + frame
}

func firstWords(s string) string {
	f := strings.Fields(s)
	if len(f) > 6 {
		f = f[:6]
	}
	return strings.Join(f, "_")
}

// replay re-runs the case of a witness file a few times in this process (plain
// flavour) and prints what the monitors find.
func replay(c *core.Ctx, path string) int {
	b, err := os.ReadFile(path)
	if err != nil {
		fmt.Println(err)
		return 2
	}
	var w struct {
		Sig     string `json:"sig"`
		Witness struct {
			Case json.RawMessage `json:"case"`
			Mode string          `json:"mode"`
		} `json:"witness"`
	}
	if json.Unmarshal(b, &w) != nil || w.Witness.Case == nil {
		fmt.Println("witness has no replayable case (race reports are attributed to a batch)")
		return 2
	}
	mode := w.Witness.Mode
	if mode == "race" {
		mode = "conc"
	}
	if mode == "big-race" {
		mode = "big"
	}
	seen := map[string]int{}
	for i := 0; i < 20; i++ {
		o := child(mode, w.Witness.Case).(*caseOut)
		for _, f := range o.Findings {
			seen[f.Sig]++
		}
	}
	var ks []string
	for k := range seen {
		ks = append(ks, k)
	}
	sort.Strings(ks)
	for _, k := range ks {
		fmt.Printf("%3d/20 %s\n", seen[k], k)
	}
	if seen[strings.ReplaceAll(w.Sig, "_", " ")] > 0 || seen[w.Sig] > 0 {
		fmt.Println("REPRODUCED", w.Sig)
		return 1
	}
	fmt.Println("not reproduced in 20 runs (schedule dependent)")
	return 0
}
