package c10

import (
	"fmt"
	"strings"

	"github.com/tetratelabs/wazero"
	"github.com/tetratelabs/wazero/api"
	"github.com/tetratelabs/wazero/imports/wasi_snapshot_preview1"
	"github.com/tetratelabs/wazero/verifharness/core"
)

// sop is one operation of a sequential script. Ref is the index of the
// operation (instantiate or lookup) whose resulting module a close / isclosed
// acts on; an operation whose producer yielded no module is skipped.
type sop struct {
	K   opKind `json:"k"`
	N   int    `json:"n"`
	Ref int    `json:"ref"`
	X   uint32 `json:"x,omitempty"`
	CC  bool   `json:"cc,omitempty"`
	F   int    `json:"f,omitempty"`
	P   int    `json:"p,omitempty"`
	S   int    `json:"s,omitempty"`
	N2  int    `json:"n2,omitempty"`
}

type seqScript struct {
	Engine int   `json:"engine"`
	CD     bool  `json:"close_on_context_done,omitempty"`
	FS     bool  `json:"fs"` // InstantiateModule uses a WASI guest that opens a file of a counting FS mount
	Ops    []sop `json:"ops"`
}

func genSeq(r *core.Rng, engine int) *seqScript {
	s := &seqScript{Engine: engine, FS: r.Chance(1, 4), CD: r.Chance(1, 3)}
	n := 4 + r.Intn(17)
	var producers []int
	for i := 0; i < n; i++ {
		o := genOp(r, r.Chance(1, 3))
		so := sop{K: o.K, N: o.N, X: o.X, CC: o.CC, Ref: -1}
		if so.K == kInst && r.Chance(1, 4) {
			so.K = kInstBin
		}
		if so.K == kInstBin && r.Chance(2, 3) { // start function outcome
			so.S, so.X, so.N2 = 1+r.Intn(nStart-1), uint32(r.Intn(3)), r.Intn(2)
		} else if (so.K == kInst || so.K == kInstBin) && r.Chance(1, 3) {
			so.F = 1 + r.Intn(2) // holds an open file; for half of them its Close fails
			so.P = r.Intn(len(placeName))
		}
		if s.CD && !s.FS && so.K.onHandle() && r.Chance(1, 3) {
			so.K = kCtxClose // a call cut by cancel (X even) or deadline (X odd)
			so.X = uint32(r.Intn(2))
		} else if so.K == kIsClosed && r.Bool() {
			so.K = kCall
		}
		switch {
		case so.K.onHandle():
			if len(producers) == 0 {
				so.K = kInst
			} else if r.Chance(2, 3) {
				so.Ref = producers[len(producers)-1-r.Intn(min(3, len(producers)))]
			} else {
				so.Ref = producers[r.Intn(len(producers))]
			}
		}
		if so.K.isInst() || so.K == kLookup {
			producers = append(producers, i)
		}
		s.Ops = append(s.Ops, so)
	}
	return s
}

// divergence: the first point where wazero and the sequential model disagree.
type divergence struct {
	At    int    // index of the operation; len(ops) = at quiescence
	Class string // stable class: operation kind, got, want
	Text  string
}

type seqRun struct {
	trace []lop // executed operations with outcomes (ids in order of creation)
	panic bool  // an operation panicked: reported under its own signature, the script stops there
	div   *divergence
	ops   map[string]int
	finds []finding // quiescence findings (not minimised further)
	opID  []int     // per script operation: id of the module it returned (0: none / skipped)
}

// replaySeq runs a script with one client on a fresh runtime and compares each
// outcome with the strict model. It stops at the first divergence; otherwise
// it closes the runtime and runs the quiescence checks.
func replaySeq(s *seqScript) *seqRun {
	run := &seqRun{ops: map[string]int{}, opID: make([]int, len(s.Ops))}
	h := &hist{stamp: true, engine: s.Engine, cd: s.CD}
	h.rt = wazero.NewRuntimeWithConfig(bg, rtConfig(s.Engine, s.CD))
	defer h.rt.Close(bg)
	instantiateEnv(h.rt)
	var err error
	if s.FS {
		if _, err = wasi_snapshot_preview1.Instantiate(bg, h.rt); err != nil {
			panic(err)
		}
		h.fsys = newCountFS(false)
		h.cm, err = h.rt.CompileModule(bg, fsBin)
	} else {
		h.cm, err = h.rt.CompileModule(bg, baseBin)
	}
	if err != nil {
		panic(err)
	}
	var st mstate
	failing := map[int]bool{}
	ctxClosed := map[int]bool{}
	boom := map[int]bool{}
	results := make([]api.Module, len(s.Ops))
	ids := map[api.Module]int{}
	var recs []rec
	for i, o := range s.Ops {
		sp := opSpec{K: o.K, N: o.N, X: o.X, CC: o.CC, F: o.F, P: o.P, S: o.S, N2: o.N2}
		var hs []api.Module
		if o.K.onHandle() {
			if o.Ref < 0 || o.Ref >= i || results[o.Ref] == nil {
				continue // producer gone or produced nothing
			}
			hs = []api.Module{results[o.Ref]}
		}
		var bin []byte
		if o.K == kInstBin || o.K == kCompile {
			bin = guestBin(i+1, o.S, o.X, o.N2)
		}
		r := h.exec(1, sp, &hs, bin)
		recs = append(recs, r)
		results[i] = nil
		if r.res == rOK || r.res == rMod {
			results[i] = r.mod
		}
		id := 0
		if r.mod != nil {
			if _, ok := ids[r.mod]; !ok {
				ids[r.mod] = len(ids) + 1
			}
			id = ids[r.mod]
		}
		if results[i] != nil {
			run.opID[i] = id
		}
		lo := lop{Client: 1, Kind: r.kind, Name: r.name, ID: id, Res: r.res, Call: r.call, Ret: r.ret, Err: r.err, X: o.X}
		if r.cfs != nil {
			lo.F, lo.P = 1, o.P
			if r.cfs.fail {
				lo.F = 2
				failing[id] = true
			}
		}
		if r.kind == kInstBin {
			lo.S, lo.N2 = o.S, o.N2
		}
		if r.res == rOK && (r.kind == kInstBin || (r.kind == kInst && !s.FS)) {
			boom[id] = true // instances of the harness's guests export "boom"
		}
		lo.fill()
		run.trace = append(run.trace, lo)
		run.ops[kindName[r.kind]+"="+resName[r.res]]++

		if r.res == rPanic {
			sig, inner := panicSig(r.pv, r.stack)
			run.panic = true
			run.finds = append(run.finds, finding{Sig: sig, Detail: fmt.Sprintf("%s panicked instead of returning: %s (innermost wazero frame %s)", kindName[r.kind], r.pv, inner),
				Witness: map[string]any{"engine": engineName(s.Engine), "trace": lines(run.trace), "stack": core.Trunc(r.stack, 3000)}})
			return run
		}
		// what must a single client see here?
		got := r.res
		if got == rOtherErr {
			got = rClosedErr // any error is fine once the runtime is closed
		}
		if got == rResErr && failing[id] {
			got = rNone // Close may report the failing resource's error; its effect is the same
		}
		want := expect(st, r.kind, r.name, id)
		peer := 0
		if r.kind == kInstBin && o.S != sNone && !st.closed {
			// imports are resolved before the name is checked; the start function runs after registration
			peer = int(st.names[o.N2])
			switch {
			case o.S == sCallPeer && (peer == 0 || !boom[peer]):
				want = rOtherErr // no such instance / no such export: nothing happens
				if r.res == rOtherErr {
					got = rOtherErr
				}
			case want != rOK:
			case o.S == sTrap, o.S != sReturn && o.X != 0:
				// closing the calling module with a non-zero code makes the call fail with that exit error too
				want = rStartFail
			case o.S != sReturn:
				want = rOKClosed
			}
		}
		wantText := resName[want]
		bad := got != want
		if r.kind == kLookup && !bad && want == rMod && uint8(id) != st.names[r.name] {
			bad, wantText = true, "owner"
		}
		if r.kind.isInst() && got == rOK && id != 0 && st.open&bit(id) != 0 {
			bad, wantText = true, "new-module"
		}
		if r.kind == kCtxClose && id != 0 {
			ctxClosed[id] = true
		}
		if bad && r.name != anon && (r.kind.isInst() && r.res == rDup || r.kind == kLookup && r.res == rMod) {
			// Is the name still held by a module that wazero's own context watcher goroutine has marked
			// closed but not unregistered yet? That is the two-step Module.Close seen by one client.
			if owner := h.rt.Module(modNames[r.name]); owner != nil && ctxClosed[ids[owner]] && safeIsClosed(owner) {
				run.div = &divergence{At: i, Class: "atomicity:module-close-steps-visible",
					Text: fmt.Sprintf("%s: the name is still registered for m%d, which the context-driven close has already marked closed (its call returned the exit error, IsClosed()==true): the closed flag is set before the name is released", lo.String(), ids[owner])}
				return run
			}
		}
		if bad {
			gotText := resName[r.res]
			if r.res == rMod {
				gotText = "other-module"
			}
			run.div = &divergence{At: i, Class: fmt.Sprintf("%s:got=%s:want=%s", family(r.kind), gotText, wantText),
				Text: fmt.Sprintf("%s returned %s %s, a sequential registry returns %s", lo.String(), resName[r.res], r.err, wantText)}
			return run
		}
		if r.res == rOtherErr && want == rOtherErr {
			continue // failed import: no effect
		}
		if next := step(relax{}, st, pin{kind: r.kind, name: r.name, id: id}, pout{res: r.res, id: id}); len(next) == 1 {
			st = next[0]
		}
		if (r.res == rOKClosed || r.res == rStartFail) && id != 0 {
			if next := step(relax{}, st, pin{kind: r.kind, name: r.name, id: id, phase: 2}, pout{res: r.res, id: id}); len(next) == 1 {
				st = next[0]
			}
			if o.S == sCallPeer && peer != 0 { // the peer exited itself
				st = step(relax{}, st, pin{kind: kClose, id: peer, name: anon}, pout{res: rNone})[0]
			}
		}
	}
	var none []api.Module
	recs = append(recs, h.exec(1, opSpec{K: kRtClose}, &none, nil))
	out := &histOut{ops: map[string]int{}}
	h.finish(out, nil, recs, nil)
	for k, n := range out.ops {
		if strings.HasPrefix(k, "after-close:") || k == "fs-files-handed-out" || k == "notified" {
			run.ops[k] += n
		}
	}
	for _, f := range out.findings {
		// requests after close, panics and schedule-dependent observations do not depend on the script: reported as they are
		if strings.HasPrefix(f.Sig, "after-close:") || strings.HasPrefix(f.Sig, "panic:") || strings.HasPrefix(f.Sig, "atomicity:") {
			run.finds = append(run.finds, f)
			continue
		}
		if run.div == nil {
			run.div = &divergence{At: len(s.Ops), Class: f.Sig, Text: f.Detail}
		}
	}
	return run
}

// family names an operation kind up to flavour, so that a divergence class
// survives the flavour simplification of shrink.
func family(k opKind) string {
	switch {
	case k.isInst():
		return "instantiate"
	case k == kClose || k == kCloseX || k == kCtxClose:
		return "close"
	case k == kCompile || k == kHostComp:
		return "compile"
	}
	return kindName[k]
}

func without(ops []sop, i int) []sop {
	var out []sop
	for j, o := range ops {
		if j == i {
			continue
		}
		switch {
		case o.Ref == i:
			o.Ref = -2
		case o.Ref > i:
			o.Ref--
		}
		out = append(out, o)
	}
	return out
}

// shrink reduces a diverging sequential script to a 1-minimal one that still
// shows the same class of divergence, then simplifies operation flavours.
// Sequential replays are deterministic, so this names the trigger.
func shrink(s *seqScript, d *divergence) (*seqScript, *seqRun) {
	cur := &seqScript{Engine: s.Engine, FS: s.FS, CD: s.CD, Ops: append([]sop(nil), s.Ops...)}
	if d.At < len(cur.Ops) {
		cur.Ops = cur.Ops[:d.At+1]
	}
	same := func(c *seqScript) *seqRun {
		r := replaySeq(c)
		if r.div != nil && r.div.Class == d.Class {
			return r
		}
		return nil
	}
	best := same(cur)
	if best == nil {
		return cur, replaySeq(cur)
	}
	// a close / isclosed that got its module from a lookup acts on the instantiate's module just as well
	for i, o := range cur.Ops {
		if o.Ref >= 0 && o.Ref < len(cur.Ops) && cur.Ops[o.Ref].K == kLookup && best.opID[o.Ref] != 0 {
			for j := 0; j < o.Ref; j++ {
				if cur.Ops[j].K.isInst() && best.opID[j] == best.opID[o.Ref] {
					c := &seqScript{Engine: cur.Engine, FS: cur.FS, CD: cur.CD, Ops: append([]sop(nil), cur.Ops...)}
					c.Ops[i].Ref = j
					if r := same(c); r != nil {
						cur, best = c, r
					}
					break
				}
			}
		}
	}
	ddmin := func() {
		for changed := true; changed; {
			changed = false
			for i := len(cur.Ops) - 1; i >= 0; i-- {
				c := &seqScript{Engine: cur.Engine, FS: cur.FS, CD: cur.CD, Ops: without(cur.Ops, i)}
				if r := same(c); r != nil {
					if r.div.At < len(c.Ops) {
						c.Ops = c.Ops[:r.div.At+1]
					}
					cur, best, changed = c, r, true
					break
				}
			}
		}
	}
	ddmin()
	// start functions: a host function raising the exit error if the peer is not needed; exit code 1 for any non-zero one
	for i := range cur.Ops {
		if cur.Ops[i].S == sNone {
			continue
		}
		for _, alt := range []sop{{S: sPanicExit, X: min(cur.Ops[i].X, 1)}, {S: cur.Ops[i].S, X: min(cur.Ops[i].X, 1)}} {
			if alt.S == cur.Ops[i].S && alt.X == cur.Ops[i].X {
				continue
			}
			c := &seqScript{Engine: cur.Engine, FS: cur.FS, CD: cur.CD, Ops: append([]sop(nil), cur.Ops...)}
			c.Ops[i].S, c.Ops[i].X = alt.S, alt.X
			if r := same(c); r != nil && r.div.At == best.div.At {
				cur, best = c, r
				break
			}
		}
	}
	ddmin()
	for pass := 0; pass < 2; pass++ {
		// plain runtime and plain guest if the WASI guest / close-on-context-done do not matter
		if cur.FS {
			c := &seqScript{Engine: cur.Engine, FS: false, CD: cur.CD, Ops: cur.Ops}
			if r := same(c); r != nil {
				cur, best = c, r
			}
		}
		if cur.CD {
			c := &seqScript{Engine: cur.Engine, FS: cur.FS, CD: false, Ops: cur.Ops}
			if r := same(c); r != nil {
				cur, best = c, r
			}
		}
		simpler := map[opKind]opKind{kInstBin: kInst, kHostInst: kInst, kCloseX: kClose, kHostComp: kCompile, kCtxClose: kClose, kCall: kIsClosed}
		for i := range cur.Ops {
			if k, ok := simpler[cur.Ops[i].K]; ok {
				c := &seqScript{Engine: cur.Engine, FS: cur.FS, CD: cur.CD, Ops: append([]sop(nil), cur.Ops...)}
				c.Ops[i].K = k
				if r := same(c); r != nil && r.div.At == best.div.At {
					cur, best = c, r
				}
			}
		}
		// held files: none if it does not matter, else one that closes fine
		for i := range cur.Ops {
			for f := 0; f < cur.Ops[i].F; f++ {
				c := &seqScript{Engine: cur.Engine, FS: cur.FS, CD: cur.CD, Ops: append([]sop(nil), cur.Ops...)}
				c.Ops[i].F = f
				if r := same(c); r != nil && r.div.At == best.div.At {
					cur, best = c, r
					break
				}
			}
		}
		// placement of the held file: the plain one if it does not matter, a single slot instead of several
		for i := range cur.Ops {
			for _, p := range []int{0, 2} { // 2 = stdout's slot stands for any stdio slot and for "several"
				if cur.Ops[i].F == 0 || cur.Ops[i].P == p || (p == 2 && cur.Ops[i].P > 4) {
					continue
				}
				c := &seqScript{Engine: cur.Engine, FS: cur.FS, CD: cur.CD, Ops: append([]sop(nil), cur.Ops...)}
				c.Ops[i].P = p
				if r := same(c); r != nil && r.div.At == best.div.At {
					cur, best = c, r
					break
				}
			}
		}
		// names: the anonymous name if it does not matter, else the first name
		for i := range cur.Ops {
			if !(cur.Ops[i].K.isInst() || cur.Ops[i].K == kLookup) {
				continue
			}
			for _, n := range []int{anon, 0} {
				if cur.Ops[i].N == anon || cur.Ops[i].N == n || (n == anon && cur.Ops[i].K == kHostInst) { // anon: already the simplest
					continue
				}
				c := &seqScript{Engine: cur.Engine, FS: cur.FS, CD: cur.CD, Ops: append([]sop(nil), cur.Ops...)}
				c.Ops[i].N = n
				if r := same(c); r != nil && r.div.At == best.div.At {
					cur, best = c, r
					break
				}
			}
		}
	}
	return cur, best
}

// seqSig renders a minimal diverging trace as a signature.
func seqSig(s *seqScript, r *seqRun) string {
	t := canonSeq(r.trace)
	if s.FS {
		t = "fs:" + t
	}
	return "seq:" + t + "!" + r.div.Class
}

// canonSeq is canon without merging operation flavours (shrink already
// replaced every flavour that does not matter).
func canonSeq(h []lop) string {
	names, ids := map[int]int{}, map[int]int{}
	var parts []string
	for _, o := range h {
		c := o
		if c.Kind.isInst() || c.Kind == kLookup {
			if c.Name != anon {
				if _, ok := names[c.Name]; !ok {
					names[c.Name] = len(names)
				}
				c.Name = names[c.Name]
			}
			if c.S == sCallPeer {
				if _, ok := names[c.N2]; !ok {
					names[c.N2] = len(names)
				}
				c.N2 = names[c.N2]
			}
		}
		if c.ID != 0 {
			if _, ok := ids[c.ID]; !ok {
				ids[c.ID] = len(ids) + 1
			}
			c.ID = ids[c.ID]
		}
		if c.Res == rOtherErr {
			c.Res = rClosedErr
		}
		parts = append(parts, c.String())
	}
	return strings.Join(parts, ",")
}

// seqOfHistory lists a concurrent history's operations in call order as a
// sequential script (used to tell sequentially reproducible defects from
// genuinely concurrent ones).
func seqOfHistory(engine int, cd bool, h []lop) *seqScript {
	s := &seqScript{Engine: engine, CD: cd}
	producer := map[int]int{}
	for _, o := range h {
		so := sop{K: o.Kind, N: o.Name, X: o.X, Ref: -1, F: o.F, P: o.P, S: o.S, N2: o.N2}
		if o.Kind.onHandle() {
			p, ok := producer[o.ID]
			if !ok {
				continue
			}
			so.Ref = p
		}
		if o.Kind == kCloseX && so.X == 0 {
			so.X = 1
		}
		if o.registers() {
			producer[o.ID] = len(s.Ops)
		}
		s.Ops = append(s.Ops, so)
	}
	return s
}
