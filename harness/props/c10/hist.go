package c10

import (
	"context"
	"errors"
	"fmt"
	"hash/fnv"
	"io/fs"
	"runtime"
	"runtime/debug"
	"sort"
	"strings"
	"sync"
	"sync/atomic"
	"testing/fstest"
	"time"

	"github.com/tetratelabs/wazero"
	"github.com/tetratelabs/wazero/api"
	"github.com/tetratelabs/wazero/experimental"
	experimentalsys "github.com/tetratelabs/wazero/experimental/sys"
	"github.com/tetratelabs/wazero/imports/wasi_snapshot_preview1"
	"github.com/tetratelabs/wazero/internal/verifhook"
	"github.com/tetratelabs/wazero/internal/wasm"
	"github.com/tetratelabs/wazero/sys"
	"github.com/tetratelabs/wazero/verifharness/core"
	"github.com/tetratelabs/wazero/verifharness/wenc"
)

// ---------------------------------------------------------------------------
// Scripts

type opSpec struct {
	K  opKind `json:"k"`
	N  int    `json:"n"`            // name index: 0, 1, anon
	H  int    `json:"h,omitempty"`  // handle selector (close / isclosed): index into the client's handle list
	X  uint32 `json:"x,omitempty"`  // exit code
	CC bool   `json:"cc,omitempty"` // compile: close the CompiledModule afterwards
	F  int    `json:"f,omitempty"`  // instantiate: 1 = mount a counting FS and open a file on it, 2 = that file's Close fails
	P  int    `json:"p,omitempty"`  // where that file sits: 0 first free descriptor, 1-3 stdio slot 0-2, 4 several, 5/6 renumbered to 70/130
	S  int    `json:"s,omitempty"`  // InstantiateWithConfig: start function behaviour (sReturn..sCallPeer), exit code X
	N2 int    `json:"n2,omitempty"` // sCallPeer: name of the peer instance
}

func (o opSpec) String() string {
	switch {
	case o.K.isInst() || o.K == kLookup:
		return fmt.Sprintf("%s(%s%s)", kindShort[o.K], nameStr(o.N), lop{F: o.F, P: o.P, S: o.S, X: o.X, N2: o.N2}.mark())
	case o.K == kClose || o.K == kIsClosed || o.K == kCtxClose || o.K == kCall:
		return fmt.Sprintf("%s(h%d)", kindShort[o.K], o.H)
	case o.K == kCloseX:
		return fmt.Sprintf("CX(h%d,%d)", o.H, o.X)
	case o.K == kRtClose && o.X != 0:
		return fmt.Sprintf("RC(%d)", o.X)
	}
	return kindShort[o.K]
}

type script struct {
	Engine int        `json:"engine"` // 0 interpreter, 1 compiler
	CD     bool       `json:"close_on_context_done,omitempty"`
	Pre    []opSpec   `json:"pre"` // sequential prefix run by client 0; its handles are given to every client
	G      [][]opSpec `json:"clients"`
}

var modNames = [3]string{"a", "b", ""}

func genOp(r *core.Rng, withRC bool) opSpec {
	o := opSpec{}
	switch n := r.Intn(10); {
	case n < 5:
		o.N = 0
	case n < 8:
		o.N = 1
	default:
		o.N = anon
	}
	w := r.Intn(100)
	switch {
	case w < 22:
		o.K = kInst
	case w < 28:
		o.K = kInstBin
		if r.Bool() { // start function outcome (the peer variant only runs in sequential scripts)
			o.S = 1 + r.Intn(sCallPeer-1)
			o.X = uint32(r.Intn(3))
		}
	case w < 34:
		o.K = kHostInst
	case w < 52:
		o.K = kLookup
	case w < 64:
		o.K = kClose
	case w < 70:
		o.K = kCloseX
		o.X = uint32(1 + r.Intn(3))
	case w < 81:
		o.K = kIsClosed
	case w < 87:
		o.K = kCompile
		o.CC = r.Bool()
	case w < 92:
		o.K = kHostComp
		o.CC = r.Bool()
	default:
		if withRC {
			o.K = kRtClose
			if r.Chance(1, 4) {
				o.X = uint32(1 + r.Intn(3))
			}
		} else {
			o.K = kInst
		}
	}
	if o.K == kHostInst && o.N == anon {
		o.N = r.Intn(2) // a host module must have a name
	}
	o.H = r.Intn(8)
	return o
}

func genScript(r *core.Rng, engine int) *script {
	sc := &script{Engine: engine, CD: r.Chance(1, 3)}
	for i, n := 0, r.Intn(3); i < n; i++ { // 0-2 modules that exist before the clients start
		o := opSpec{K: kInst, N: r.Intn(3)}
		if r.Chance(1, 5) {
			o.K, o.N = kHostInst, r.Intn(2)
		} else if r.Chance(2, 3) {
			// fault injection: this instance holds an open file; for half of them its Close fails.
			// Only instances created before the clients start get one: opening a file on an
			// instance that other goroutines may already be closing would be the harness's race.
			o.F, o.P = 1+r.Intn(2), r.Intn(len(placeName))
			if r.Chance(1, 4) {
				o.K = kInstBin
			}
		}
		sc.Pre = append(sc.Pre, o)
	}
	withRC := r.Bool()
	g := 3 + r.Intn(6)
	for i := 0; i < g; i++ {
		n := 3 + r.Intn(4)
		var ops []opSpec
		for j := 0; j < n; j++ {
			ops = append(ops, genOp(r, withRC))
		}
		sc.G = append(sc.G, ops)
	}
	return sc
}

// envName is the harness's host module every guest imports from.
const envName = "c10env"

// instantiateEnv adds the host functions the guests' start functions use. The
// api.Module a Go host function receives is the calling instance.
func instantiateEnv(rt wazero.Runtime) {
	_, err := rt.NewHostModuleBuilder(envName).
		NewFunctionBuilder().WithFunc(func(_ context.Context, _ api.Module, n uint32) {
		panic(sys.NewExitError(n)) // an exit error surfacing without anything having been closed
	}).Export("panic_exit").
		NewFunctionBuilder().WithFunc(func(ctx context.Context, m api.Module, n uint32) {
		_ = m.CloseWithExitCode(ctx, n) // the guest goes on and returns
	}).Export("close_self").
		NewFunctionBuilder().WithFunc(func(ctx context.Context, m api.Module, n uint32) {
		_ = m.CloseWithExitCode(ctx, n) // what WASI proc_exit does
		panic(sys.NewExitError(n))
	}).Export("exit").
		NewFunctionBuilder().WithFunc(func(ctx context.Context) {
		if s, ok := ctx.Value(startedKey{}).(*startSignal); ok {
			s.once.Do(func() { close(s.c) })
		}
		runtime.Gosched()
	}).Export("tick").
		Instantiate(bg)
	if err != nil {
		panic(err)
	}
}

// guestBin builds a tiny guest: a function type of k i32 parameters (k > 0:
// unknown to the store, which also makes the module id unique within a
// history), an export "boom"(n) that exits the instance itself with code n,
// and for start != sNone an export "_start" with the given behaviour.
func guestBin(k, start int, x uint32, peer int) []byte {
	m := &wenc.Module{}
	i32 := []wenc.ValType{wenc.I32}
	fPanic := m.ImportFunc(envName, "panic_exit", i32, nil)
	fClose := m.ImportFunc(envName, "close_self", i32, nil)
	fExit := m.ImportFunc(envName, "exit", i32, nil)
	fTick := m.ImportFunc(envName, "tick", nil, nil)
	var fPeer uint32
	if start == sCallPeer {
		fPeer = m.ImportFunc(modNames[peer], "boom", i32, nil)
	}
	params := make([]wenc.ValType, k)
	for i := range params {
		params[i] = wenc.I32
	}
	m.ExportFunc("f", m.AddFunc(params, nil, nil, (&wenc.Code{}).End().B))
	m.ExportFunc("boom", m.AddFunc(i32, nil, nil, (&wenc.Code{}).LocalGet(0).Call(fExit).End().B))
	m.ExportFunc("nop", m.AddFunc(nil, nil, nil, (&wenc.Code{}).End().B))
	// spin: loop { tick() } - only a context-driven close ends it
	m.ExportFunc("spin", m.AddFunc(nil, nil, nil, (&wenc.Code{}).Loop(0x40).Call(fTick).Br(0).End().End().B))
	c := &wenc.Code{}
	switch start {
	case sNone:
		return m.Encode()
	case sReturn:
	case sTrap:
		c.Unreachable()
	case sPanicExit:
		c.I32Const(int32(x)).Call(fPanic)
	case sCloseSelf:
		c.I32Const(int32(x)).Call(fClose)
	case sExit:
		c.I32Const(int32(x)).Call(fExit)
	case sCallPeer:
		c.I32Const(int32(x)).Call(fPeer)
	}
	m.ExportFunc("_start", m.AddFunc(nil, nil, nil, c.End().B))
	return m.Encode()
}

func uniqueBin(k int) []byte { return guestBin(k, sNone, 0, 0) }

var baseBin = guestBin(0, sNone, 0, 0)

// fsBin imports WASI path_open and opens the file "f" of preopen 3 in _start.
var fsBin = func() []byte {
	m := &wenc.Module{}
	i32, i64 := wenc.ValType(wenc.I32), wenc.ValType(wenc.I64)
	po := m.ImportFunc("wasi_snapshot_preview1", "path_open", []wenc.ValType{i32, i32, i32, i32, i32, i64, i64, i32, i32}, []wenc.ValType{i32})
	m.Mems = []wenc.Limits{{Min: 1}}
	m.Datas = []wenc.Data{{Offset: wenc.ConstI32(16), Bytes: []byte("f")}}
	c := (&wenc.Code{}).I32Const(3).I32Const(0).I32Const(16).I32Const(1).I32Const(0).I64Const(0).I64Const(0).I32Const(0).I32Const(32).Call(po).Drop().End()
	m.ExportFunc("_start", m.AddFunc(nil, nil, nil, c.B))
	m.Exports = append(m.Exports, wenc.Export{Name: "memory", Kind: wenc.ExtMemory})
	return m.Encode()
}()

func rtConfig(engine int, closeOnContextDone ...bool) wazero.RuntimeConfig {
	cfg := wazero.NewRuntimeConfigInterpreter()
	if engine == 1 {
		cfg = wazero.NewRuntimeConfigCompiler()
	}
	if len(closeOnContextDone) > 0 && closeOnContextDone[0] {
		cfg = cfg.WithCloseOnContextDone(true)
	}
	return cfg
}

// startSignal lets the host function "tick" tell the harness that the guest
// call it is part of is running.
type startedKey struct{}
type startSignal struct {
	once sync.Once
	c    chan struct{}
}

// ---------------------------------------------------------------------------
// Schedule-widening hook handler (one per process, histories run one after another)

var pointNames = []string{
	"runtime.instantiate.after-closed-check", "store.instantiate.before-register", "store.instantiate.after-register",
	"runtime.instantiate.after-store", "module.close.after-cas", "module.close.after-delete",
	"runtime.close.after-cas", "runtime.close.after-store",
}

const nPoints = 8

var pointIdx = func() map[string]int {
	m := map[string]int{}
	for i, n := range pointNames {
		m[n] = i
	}
	return m
}()

type hookCfg struct {
	seed    uint64
	pYield  [nPoints]uint16 // per mille
	pSleep  [nPoints]uint16
	sleepUs [nPoints]uint16
}

func genHookCfg(r *core.Rng) hookCfg {
	h := hookCfg{seed: r.U64()}
	py := []uint16{0, 100, 300, 600}
	ps := []uint16{0, 50, 200, 400}
	for i := 0; i < nPoints; i++ {
		h.pYield[i] = py[r.Intn(4)]
		h.pSleep[i] = ps[r.Intn(4)]
		h.sleepUs[i] = uint16(1 + r.Intn(40))
	}
	return h
}

type hookState struct {
	cfg      hookCfg
	recorded bool // plain flavour: record the global order of point hits
	hitN     int64
	hits     [768]uint8
	racy     uint64           // race flavour: unsynchronised PRNG state (see racyNext)
	racyHits [nPoints + 1]int // race flavour: unsynchronised hit counters
}

var curHook atomic.Pointer[hookState]

func init() {
	verifhook.SetHandlers(func(name string) {
		if h := curHook.Load(); h != nil {
			h.point(name)
		}
	}, nil)
}

func mix(a, b uint64) uint64 {
	z := a + b*0x9E3779B97F4A7C15
	z = (z ^ (z >> 30)) * 0xBF58476D1CE4E5B9
	z = (z ^ (z >> 27)) * 0x94D049BB133111EB
	return z ^ (z >> 31)
}

// racyNext advances the race flavour's PRNG and hit counters without any
// synchronisation: an atomic here would order the wazero code before and after
// the point across goroutines and hide exactly the races we are looking for.
//
//go:norace
func (h *hookState) racyNext(idx int) uint64 {
	h.racy = h.racy*6364136223846793005 + 1442695040888963407
	h.racyHits[idx]++
	return h.racy >> 20
}

func (h *hookState) point(name string) {
	idx, ok := pointIdx[name]
	if !ok {
		idx = nPoints
		if !h.recorded {
			h.racyNext(idx)
		}
		return
	}
	var r uint64
	if h.recorded {
		n := atomic.AddInt64(&h.hitN, 1)
		if n <= int64(len(h.hits)) {
			h.hits[n-1] = uint8(idx)
		}
		r = mix(h.cfg.seed, uint64(n))
	} else {
		r = h.racyNext(idx)
	}
	p := uint16(r % 1000)
	switch {
	case p < h.cfg.pYield[idx]:
		runtime.Gosched()
	case p < h.cfg.pYield[idx]+h.cfg.pSleep[idx]:
		time.Sleep(time.Duration(h.cfg.sleepUs[idx]) * time.Microsecond)
	}
}

// ---------------------------------------------------------------------------
// Executing one history

type instRec struct {
	notif int32  // close notifications received
	code  uint32 // exit code of the last one
}

type rec struct {
	client    int
	spec      opSpec
	kind      opKind
	name      int
	call, ret int64
	res       resKind
	mod       api.Module // result (instantiate ok / lookup) or target (close / isclosed)
	err       string
	pv        string // panic value
	stack     string
	inst      *instRec
	cfs       *countFS // fault injection: the FS whose file this instance holds open
	lag       bool     // context-driven close: closed flag seen before the name was released
}

type finding struct {
	Sig     string `json:"sig"`
	Detail  string `json:"detail"`
	Witness any    `json:"witness,omitempty"`
}

type hist struct {
	cd     bool // runtime built WithCloseOnContextDone(true)
	rt     wazero.Runtime
	cm     wazero.CompiledModule
	stamp  bool
	clock  int64
	fsys   *countFS // sequential FS variant only
	engine int
}

func (h *hist) tick() int64 {
	if !h.stamp {
		return 0
	}
	return atomic.AddInt64(&h.clock, 1)
}

var bg = context.Background()

func classifyInstErr(err error) (resKind, string) {
	s := err.Error()
	var ee *sys.ExitError
	switch {
	case errors.As(err, &ee), strings.Contains(s, "function[") && strings.Contains(s, "] failed"):
		return rStartFail, s // the start function ran and failed
	case strings.Contains(s, "has already been instantiated"):
		return rDup, ""
	case strings.Contains(s, "closed"):
		return rClosedErr, ""
	}
	return rOtherErr, s
}

// exec runs one operation for a client and records it at the client boundary:
// call stamp before invoking, return stamp after the reply. A panic is
// recovered; the operation then has no return stamp.
func (h *hist) exec(client int, sp opSpec, hs *[]api.Module, bin []byte) (r rec) {
	r = rec{client: client, spec: sp, kind: sp.K, name: sp.N}
	if sp.K.onHandle() {
		if len(*hs) == 0 {
			r.kind = kLookup // nothing to act on yet: look the name up instead
		} else {
			r.mod = (*hs)[sp.H%len(*hs)]
			if _, guest := r.mod.(*wasm.ModuleInstance); r.kind == kCtxClose || r.kind == kCall {
				switch {
				case !guest || r.mod.ExportedFunction("spin") == nil: // host module / guest without the exports
					r.kind = map[opKind]opKind{kCtxClose: kCloseX, kCall: kIsClosed}[r.kind]
				case r.kind == kCtxClose && !h.cd:
					r.kind = kCloseX // nothing would ever stop the call
				}
			}
		}
	}
	defer func() {
		if p := recover(); p != nil {
			r.res, r.ret = rPanic, 0
			r.pv = fmt.Sprint(p)
			r.stack = string(debug.Stack())
		}
	}()
	name := modNames[r.name]
	var ctx context.Context
	if r.kind.isInst() {
		ir := &instRec{}
		r.inst = ir
		ctx = experimental.WithCloseNotifier(bg, experimental.CloseNotifyFunc(func(_ context.Context, code uint32) {
			atomic.StoreUint32(&ir.code, code)
			atomic.AddInt32(&ir.notif, 1)
		}))
	}
	instDone := func(m api.Module, err error) {
		if err != nil {
			r.res, r.err = classifyInstErr(err)
			if r.res == rStartFail && m != nil {
				r.mod = m // InstantiateModule hands the (closed) module back along with the error
				if !m.IsClosed() {
					r.res = rStartFailOpen
				}
			}
			return
		}
		r.res, r.mod = rOK, m
		if sp.S != sNone && m.IsClosed() {
			r.res = rOKClosed // the start function ended the instance; no handle worth keeping
			return
		}
		*hs = append(*hs, m)
		if r.cfs != nil {
			if e := openOn(m, sp.P, r.cfs); e != "" {
				r.err, r.cfs = "harness could not open the file: "+e, nil
			}
		}
	}
	closeDone := func(err error) {
		if err != nil {
			r.res, r.err = rResErr, err.Error()
		}
	}
	withRes := func(cfg wazero.ModuleConfig) wazero.ModuleConfig {
		if sp.F == 0 || (h.fsys != nil && r.kind == kInst) {
			return cfg
		}
		r.cfs = newCountFS(sp.F == 2)
		return cfg.WithFSConfig(wazero.NewFSConfig().WithFSMount(r.cfs, "/"))
	}
	compDone := func(cm wazero.CompiledModule, err error) {
		if err != nil {
			r.res, r.err = classifyInstErr(err)
			if r.res == rDup {
				r.res = rOtherErr
			}
			return
		}
		r.res = rOK
		if sp.CC {
			_ = cm.Close(bg)
		}
	}
	switch r.kind {
	case kInst:
		cfg := withRes(wazero.NewModuleConfig().WithName(name))
		cm := h.cm
		if h.fsys != nil {
			cfg = cfg.WithFSConfig(wazero.NewFSConfig().WithFSMount(h.fsys, "/"))
		}
		r.call = h.tick()
		m, err := h.rt.InstantiateModule(ctx, cm, cfg)
		r.ret = h.tick()
		instDone(m, err)
	case kInstBin:
		cfg := withRes(wazero.NewModuleConfig().WithName(name))
		r.call = h.tick()
		m, err := h.rt.InstantiateWithConfig(ctx, bin, cfg)
		instDone(m, err) // with a start function: includes looking at IsClosed, inside the stamped interval
		r.ret = h.tick()
	case kHostInst:
		b := h.rt.NewHostModuleBuilder(name).NewFunctionBuilder().WithFunc(func() {}).Export("f")
		r.call = h.tick()
		m, err := b.Instantiate(ctx)
		r.ret = h.tick()
		instDone(m, err)
	case kLookup:
		r.call = h.tick()
		m := h.rt.Module(name)
		r.ret = h.tick()
		if m == nil {
			r.res = rNil
		} else {
			r.res, r.mod = rMod, m
			*hs = append(*hs, m)
		}
	case kClose:
		r.call = h.tick()
		err := r.mod.Close(bg)
		r.ret = h.tick()
		closeDone(err)
	case kCloseX:
		r.call = h.tick()
		err := r.mod.CloseWithExitCode(bg, sp.X)
		r.ret = h.tick()
		closeDone(err)
	case kCtxClose:
		spin, nop := r.mod.ExportedFunction("spin"), r.mod.ExportedFunction("nop")
		sig := &startSignal{c: make(chan struct{})}
		cctx := context.WithValue(bg, startedKey{}, sig)
		var cancel context.CancelFunc
		done := make(chan struct{})
		if sp.X%2 == 1 {
			cctx, cancel = context.WithTimeout(cctx, 200*time.Microsecond)
		} else {
			cctx, cancel = context.WithCancel(cctx)
			go func(cancel context.CancelFunc) { // cancel once the guest is known to be running
				select {
				case <-sig.c:
					cancel()
				case <-done:
				}
			}(cancel)
		}
		r.call = h.tick()
		_, err := spin.Call(cctx)
		close(done)
		cancel()
		_, err2 := nop.Call(bg) // one more call on the handle: must fail, must not notify again
		closed := r.mod.IsClosed()
		if nm := r.mod.Name(); closed && nm != "" && h.rt.Module(nm) == r.mod {
			// wazero's context watcher goroutine has marked the module closed (that is what ended the
			// call) but has not unregistered it yet: the two-step close, seen by a single client. Noted
			// under its own signature; the operation is taken to last until the watcher is through.
			r.lag = true
			for i := 0; i < 200000 && h.rt.Module(nm) == r.mod; i++ {
				runtime.Gosched()
			}
		}
		r.ret = h.tick()
		var ee *sys.ExitError
		switch {
		case err == nil:
			r.res, r.err = rOtherErr, "the spinning call returned without an error"
		case !errors.As(err, &ee):
			r.res, r.err = rOtherErr, "the call cut by the context did not return an exit error: "+err.Error()
		case !closed:
			r.res, r.err = rOtherErr, "the module is still open after its call was cut by the context: "+err.Error()
		case err2 == nil:
			r.res, r.err = rOtherErr, "a call on the module closed by the context succeeded"
		default:
			r.err = err.Error()
		}
	case kCall:
		nop := r.mod.ExportedFunction("nop")
		r.call = h.tick()
		_, err := nop.Call(bg)
		r.ret = h.tick()
		r.res = rOK
		if err != nil {
			r.res, r.err = rClosedErr, err.Error()
			var ee *sys.ExitError
			if !errors.As(err, &ee) {
				r.res = rOtherErr
			}
		}
	case kIsClosed:
		r.call = h.tick()
		b := r.mod.IsClosed()
		r.ret = h.tick()
		r.res = rFalse
		if b {
			r.res = rTrue
		}
	case kCompile:
		r.call = h.tick()
		cm, err := h.rt.CompileModule(bg, bin)
		r.ret = h.tick()
		compDone(cm, err)
	case kHostComp:
		b := h.rt.NewHostModuleBuilder("hc").NewFunctionBuilder().WithFunc(func() {}).Export("f")
		r.call = h.tick()
		cm, err := b.Compile(bg)
		r.ret = h.tick()
		compDone(cm, err)
	case kRtClose:
		r.call = h.tick()
		var err error
		if sp.X != 0 {
			err = h.rt.CloseWithExitCode(bg, sp.X)
		} else {
			err = h.rt.Close(bg)
		}
		r.ret = h.tick()
		if err != nil {
			r.err = err.Error()
		}
	}
	return r
}

// histOut is what one executed history yields.
type histOut struct {
	lops      []lop
	findings  []finding
	ops       map[string]int
	evOrder   string // hash of the order of call/return events by client
	pointSeq  string // hash of the global order of schedule-point hits
	pointHits [nPoints + 1]int
	overlaps  int  // pairs of operations of different clients that overlapped
	panicked  bool // some operation panicked
	skipPorc  string
	modules   int
}

func (o *histOut) add(sig, detail string, w any) {
	for _, f := range o.findings {
		if f.Sig == sig {
			return
		}
	}
	o.findings = append(o.findings, finding{Sig: sig, Detail: detail, Witness: w})
}

var rePanicAddr = strings.NewReplacer("\n", " ", "\t", " ")

// panicSig names the public wazero method the panic escaped from (innermost
// frame of the root package) and the panic text with addresses removed.
func panicSig(pv, stack string) (sig, inner string) {
	api, innermost := "", ""
	for _, l := range strings.Split(stack, "\n") {
		if !strings.HasPrefix(l, "github.com/tetratelabs/wazero") || strings.Contains(l, "/verifharness/") {
			continue
		}
		fn := l
		if i := strings.LastIndex(fn, "("); i > 0 {
			fn = fn[:i]
		}
		fn = strings.TrimPrefix(fn, "github.com/tetratelabs/")
		if innermost == "" {
			innermost = fn
		}
		if api == "" && strings.HasPrefix(fn, "wazero.") {
			api = strings.TrimPrefix(fn, "wazero.")
		}
	}
	msg := pv
	if i := strings.Index(msg, "0x"); i >= 0 {
		msg = msg[:i]
	}
	if len(msg) > 80 {
		msg = msg[:80]
	}
	return "panic:" + api + ":" + strings.TrimSpace(msg), innermost
}

func hash64(b []byte) string {
	f := fnv.New64a()
	f.Write(b)
	return fmt.Sprintf("%016x", f.Sum64())
}

// runHistory executes a script once. mode: "conc" (stamped, point hits
// recorded) or "race" (no harness synchronisation between clients).
func runHistory(sc *script, hc hookCfg, mode string) *histOut {
	out := &histOut{ops: map[string]int{}}
	h := &hist{stamp: mode == "conc", engine: sc.Engine, cd: sc.CD}
	h.rt = wazero.NewRuntimeWithConfig(bg, rtConfig(sc.Engine, sc.CD))
	var err error
	instantiateEnv(h.rt)
	if h.cm, err = h.rt.CompileModule(bg, baseBin); err != nil {
		panic(err)
	}
	hk := &hookState{cfg: hc, recorded: mode == "conc", racy: hc.seed | 1}
	curHook.Store(hk)
	defer curHook.Store(nil)

	// unique binaries, prepared before the clients start
	k := 1
	bins := make([][][]byte, len(sc.G))
	for g, ops := range sc.G {
		bins[g] = make([][]byte, len(ops))
		for i, o := range ops {
			if o.K == kInstBin || o.K == kCompile {
				bins[g][i] = guestBin(k, o.S, o.X, o.N2)
				k++
			}
		}
	}
	var recs []rec
	var pre []api.Module
	for _, o := range sc.Pre {
		var bin []byte
		if o.K == kInstBin {
			bin = uniqueBin(k)
			k++
		}
		recs = append(recs, h.exec(0, o, &pre, bin))
	}
	perClient := make([][]rec, len(sc.G))
	start := make(chan struct{})
	var wg sync.WaitGroup
	for g := range sc.G {
		wg.Add(1)
		go func(g int) {
			defer wg.Done()
			hs := append([]api.Module(nil), pre...)
			<-start
			for i, o := range sc.G[g] {
				r := h.exec(g+1, o, &hs, bins[g][i])
				perClient[g] = append(perClient[g], r)
				if r.res == rPanic {
					return // the client is gone; its operation stays open
				}
			}
		}(g)
	}
	close(start)
	wg.Wait()
	for _, rs := range perClient {
		recs = append(recs, rs...)
	}
	if sc.CD { // after the clients: client 0 lets the context close what it created in the beginning
		for i := range pre {
			recs = append(recs, h.exec(0, opSpec{K: kCtxClose, H: i, X: uint32(i)}, &pre, nil))
		}
	}
	var none []api.Module
	recs = append(recs, h.exec(0, opSpec{K: kRtClose}, &none, nil))
	curHook.Store(nil)

	h.finish(out, sc, recs, hk)
	return out
}

// finish resolves module identities, runs the quiescence checks and derives
// the logical history.
func (h *hist) finish(out *histOut, sc *script, recs []rec, hk *hookState) {
	if h.stamp {
		sort.SliceStable(recs, func(i, j int) bool { return recs[i].call < recs[j].call })
	}
	ids := map[api.Module]int{}
	var mods []api.Module
	idOf := func(m api.Module) int {
		if m == nil {
			return 0
		}
		if id, ok := ids[m]; ok {
			return id
		}
		ids[m] = len(ids) + 1
		mods = append(mods, m)
		return ids[m]
	}
	failing := map[int]bool{} // modules holding a file whose Close fails
	rtCodes := map[uint32]bool{0: true}
	modCodes := map[int]map[uint32]bool{}
	for i := range recs {
		r := &recs[i]
		o := lop{Client: r.client, Kind: r.kind, Name: r.name, ID: idOf(r.mod), Res: r.res, Call: r.call, Ret: r.ret, Err: r.err, X: r.spec.X}
		if r.cfs != nil {
			o.F, o.P = 1, r.spec.P
			if r.cfs.fail {
				o.F = 2
				failing[o.ID] = true
			}
		}
		if r.kind == kInstBin {
			o.S, o.N2 = r.spec.S, r.spec.N2
		}
		if r.spec.S != sNone && o.ID != 0 { // exit codes the start function may have closed it with
			if modCodes[o.ID] == nil {
				modCodes[o.ID] = map[uint32]bool{}
			}
			modCodes[o.ID][0], modCodes[o.ID][r.spec.X] = true, true
		}
		if r.spec.S == sCallPeer {
			rtCodes[r.spec.X] = true // the peer's exit code (its id is not known here)
		}
		o.fill()
		out.lops = append(out.lops, o)
		out.ops[kindName[r.kind]+"="+resName[r.res]]++
		if r.res == rOtherErr {
			out.ops["othererr:"+core.Trunc(r.err, 90)]++
		}
		if strings.HasPrefix(r.err, "harness could not open the file") {
			out.ops["harness-open-failed"]++
			out.add("harness:could-not-place-held-file", r.err, nil)
		} else if r.cfs != nil {
			out.ops["held-file-placement"+placeName[r.spec.P]]++
		}
		switch r.kind {
		case kRtClose:
			rtCodes[r.spec.X] = true
		case kClose, kCloseX, kCtxClose:
			if modCodes[o.ID] == nil {
				modCodes[o.ID] = map[uint32]bool{}
			}
			x := r.spec.X
			if r.kind == kClose {
				x = 0
			}
			if r.kind == kCtxClose {
				x = sys.ExitCodeContextCanceled
				if r.spec.X%2 == 1 {
					// a deadline that has already passed when the call begins still closes with the deadline code
					x = sys.ExitCodeDeadlineExceeded
				}
				if r.lag {
					out.ops["context-close-returned-before-name-release"]++
					out.add("atomicity:module-close-steps-visible", fmt.Sprintf("context-driven close of m%d: the cut call returned its exit error and IsClosed() was true while Runtime.Module(name) still returned the module (the watcher sets the closed flag before it releases the name)", o.ID), nil)
				}
				if r.res == rOtherErr {
					out.add("context-close:"+strings.SplitN(r.err, ":", 2)[0], fmt.Sprintf("context-driven close of m%d: %s", o.ID, r.err), nil)
				}
			}
			modCodes[o.ID][x] = true
		}
	}
	out.modules = len(mods)
	witness := func() any {
		var lines []string
		for _, o := range out.lops {
			lines = append(lines, fmt.Sprintf("c%d [%d,%d] %s %s", o.Client, o.Call, o.Ret, o.String(), o.Err))
		}
		return map[string]any{"engine": engineName(h.engine), "script": sc, "history": lines}
	}
	// panics
	for i := range recs {
		r := &recs[i]
		if r.res != rPanic {
			continue
		}
		out.panicked = true
		sig, inner := panicSig(r.pv, r.stack)
		out.add(sig, fmt.Sprintf("%s panicked instead of returning: %s (innermost wazero frame %s)", kindName[r.kind], r.pv, inner),
			map[string]any{"history": witness(), "stack": core.Trunc(r.stack, 3000)})
		if r.kind.isMutator() && !strings.Contains(r.stack, ".Compile(") && !strings.Contains(r.stack, ".CompileModule(") {
			out.skipPorc = "panic-in-mutator"
		}
	}
	// quiescence: the runtime is closed and every client has stopped
	for i := range recs {
		r := &recs[i]
		if r.inst == nil {
			continue
		}
		n := atomic.LoadInt32(&r.inst.notif)
		id := idOf(r.mod)
		ended := r.res == rOKClosed || r.res == rStartFail || r.res == rStartFailOpen
		if ended && r.mod != nil {
			out.ops["instantiations-ended-by-their-start-function"]++
			what := fmt.Sprintf("%s(%q) whose start function did %q", kindName[r.kind], modNames[r.name], startName[r.spec.S])
			if r.res == rStartFailOpen {
				out.add("start-function-failed:module-left-open", what+" returned the error "+r.err+" but left the module open (IsClosed()==false on return)", witness())
			}
			if n == 0 {
				out.add("start-function-failed:close-notify-lost", what+": the instance's CloseNotifier never fired", witness())
			}
		}
		if r.res == rOK && r.spec.S >= sPanicExit && r.spec.S <= sCallPeer {
			out.add("start-function-exited:module-left-open", fmt.Sprintf("%s(%q): the start function did %q with exit code %d, the call returned no error and an open module", kindName[r.kind], modNames[r.name], startName[r.spec.S], r.spec.X), witness())
		}
		switch {
		case r.res == rOK && n == 0:
			out.add("close-notify:lost", fmt.Sprintf("%s(%q) returned module m%d, the runtime is closed, but its CloseNotifier never fired", kindName[r.kind], modNames[r.name], id), witness())
		case n > 1:
			out.add("close-notify:fired-more-than-once", fmt.Sprintf("%s(%q) -> %s: CloseNotifier fired %d times", kindName[r.kind], modNames[r.name], resName[r.res], n), witness())
		case r.res == rOK && n == 1:
			code := atomic.LoadUint32(&r.inst.code)
			if !rtCodes[code] && !modCodes[id][code] {
				out.add("close-notify:exit-code-nobody-passed", fmt.Sprintf("m%d notified with exit code %d which no close call used", id, code), witness())
			}
		}
		out.ops["notified"] += int(n)
	}
	for _, m := range mods {
		if !safeIsClosed(m) {
			out.add("runtime-close:module-still-open", fmt.Sprintf("m%d IsClosed()==false after Runtime.Close returned", ids[m]), witness())
		}
	}
	for n := 0; n < 2; n++ {
		if m := h.rt.Module(modNames[n]); m != nil {
			out.add("runtime-close:name-still-registered", fmt.Sprintf("Runtime.Module(%q) != nil after Runtime.Close returned", modNames[n]), witness())
		}
	}
	h.afterClose(out)
	if h.fsys != nil {
		h.fsys.check(out, witness)
	}
	// fault injection: every held file was closed exactly once; only a module holding a
	// failing file may report an error from Close, and at most one Close of it does.
	errCloses := map[int]int{}
	for i := range recs {
		r := &recs[i]
		if r.cfs != nil {
			r.cfs.check(out, witness)
			out.ops["instances-holding-a-file"]++
			if r.cfs.fail {
				out.ops["instances-holding-a-failing-file"]++
			}
		}
		if (r.kind == kClose || r.kind == kCloseX) && r.res == rResErr {
			id := idOf(r.mod)
			errCloses[id]++
			if !failing[id] {
				out.add("close:error-without-failing-resource", fmt.Sprintf("Close of m%d returned %q although nothing it holds fails to close", id, r.err), witness())
			} else if errCloses[id] > 1 {
				out.add("close:resource-error-reported-twice", fmt.Sprintf("two Close calls of m%d returned the resource's error: its resources were released twice", id), witness())
			}
		}
	}

	// interleaving measures
	if h.stamp {
		type ev struct {
			t int64
			b byte
		}
		var evs []ev
		for _, o := range out.lops {
			evs = append(evs, ev{o.Call, byte(o.Client) << 1})
			if o.Ret != 0 {
				evs = append(evs, ev{o.Ret, byte(o.Client)<<1 | 1})
			}
		}
		sort.Slice(evs, func(i, j int) bool { return evs[i].t < evs[j].t })
		bs := make([]byte, len(evs))
		for i, e := range evs {
			bs[i] = e.b
		}
		out.evOrder = hash64(bs)
		for i, a := range out.lops {
			for _, b := range out.lops[i+1:] {
				if a.Client != b.Client && a.Ret != 0 && b.Ret != 0 && a.Call < b.Ret && b.Call < a.Ret {
					out.overlaps++
				}
			}
		}
	}
	if hk != nil {
		if hk.recorded {
			n := int(atomic.LoadInt64(&hk.hitN))
			if n > len(hk.hits) {
				n = len(hk.hits)
			}
			for _, p := range hk.hits[:n] {
				out.pointHits[p]++
			}
			out.pointSeq = hash64(hk.hits[:n])
		} else {
			for i, n := range hk.racyHits {
				out.pointHits[i] += n
			}
		}
	}
}

func safeIsClosed(m api.Module) (b bool) {
	defer func() {
		if recover() != nil {
			b = false
		}
	}()
	return m.IsClosed()
}

// afterClose: once Runtime.Close has returned, every further request must fail
// with an error - not succeed, not panic.
func (h *hist) afterClose(out *histOut) {
	try := func(what string, f func() error) {
		var err error
		pv, stack := "", ""
		func() {
			defer func() {
				if p := recover(); p != nil {
					pv, stack = fmt.Sprint(p), string(debug.Stack())
				}
			}()
			err = f()
		}()
		out.ops["after-close:"+what]++
		switch {
		case pv != "":
			sig, inner := panicSig(pv, stack)
			out.add(sig, fmt.Sprintf("%s after Runtime.Close panicked (%s, innermost wazero frame %s) instead of returning an error", what, pv, inner),
				map[string]any{"engine": engineName(h.engine), "stack": core.Trunc(stack, 3000)})
		case err == nil:
			out.add("after-close:"+what+":succeeded", what+" after Runtime.Close returned no error", map[string]any{"engine": engineName(h.engine)})
		}
	}
	try("InstantiateModule", func() error {
		_, err := h.rt.InstantiateModule(bg, h.cm, wazero.NewModuleConfig().WithName("zz"))
		return err
	})
	try("InstantiateWithConfig", func() error {
		_, err := h.rt.InstantiateWithConfig(bg, uniqueBin(70), wazero.NewModuleConfig().WithName("zz"))
		return err
	})
	try("CompileModule", func() error { _, err := h.rt.CompileModule(bg, uniqueBin(71)); return err })
	try("HostModuleBuilder.Compile", func() error {
		_, err := h.rt.NewHostModuleBuilder("zh").NewFunctionBuilder().WithFunc(func(uint32) {}).Export("f").Compile(bg)
		return err
	})
	try("HostModuleBuilder.Instantiate", func() error {
		_, err := h.rt.NewHostModuleBuilder("zh").NewFunctionBuilder().WithFunc(func(uint64) {}).Export("f").Instantiate(bg)
		return err
	})
}

func engineName(e int) string {
	if e == 1 {
		return "compiler"
	}
	return "interpreter"
}

// ---------------------------------------------------------------------------
// Counting file system for the sequential FS variant

type countFS struct {
	inner fs.FS
	fail  bool // Close of the files handed out reports an I/O error
	mu    sync.Mutex
	files []*countFile
}

type countFile struct {
	fs.File
	name   string
	slot   string // where in the descriptor table the harness put it
	fail   bool
	closes int32
}

func newCountFS(fail bool) *countFS {
	return &countFS{fail: fail, inner: fstest.MapFS{"f": &fstest.MapFile{Data: []byte("x")}}}
}

// openOn opens the file "f" of the instance's first pre-open, the way a guest's
// path_open would, from the harness. Only called while no other goroutine can
// know the instance.
//
// place says where the file ends up, the way a guest gets it there: 0 = lowest
// free descriptor (above the pre-opens); 1-3 = in stdio slot 0-2 (fd_close of
// the stdio stream, then path_open takes the lowest free descriptor: the classic
// redirection); 4 = several files, in stdio slots and above; 5, 6 = moved to
// descriptor 70 / 130 with fd_renumber.
func openOn(m api.Module, place int, cfs *countFS) string {
	mi, ok := m.(*wasm.ModuleInstance)
	if !ok || mi.Sys == nil {
		return "not a guest instance"
	}
	fsc := mi.Sys.FS()
	pre, ok := fsc.LookupFile(3)
	if !ok || pre.FS == nil {
		return "no pre-open"
	}
	open := func(class string, want int32) (int32, string) {
		cfs.mu.Lock()
		before := len(cfs.files)
		cfs.mu.Unlock()
		fd, errno := fsc.OpenFile(pre.FS, "f", experimentalsys.O_RDONLY, 0)
		if errno != 0 {
			return 0, errno.Error()
		}
		if want >= 0 && fd != want {
			return 0, fmt.Sprintf("file landed at descriptor %d, not %d", fd, want)
		}
		cfs.mu.Lock()
		for _, f := range cfs.files[before:] {
			f.slot = class
		}
		cfs.mu.Unlock()
		return fd, ""
	}
	inStdio := func(slot int32) string {
		if errno := fsc.CloseFile(slot); errno != 0 {
			return "closing the stdio stream: " + errno.Error()
		}
		_, e := open("stdio-slot", slot)
		return e
	}
	high := func(to int32) string {
		fd, e := open("high-fd", -1)
		if e != "" {
			return e
		}
		if errno := fsc.Renumber(fd, to); errno != 0 {
			return "renumber: " + errno.Error()
		}
		return ""
	}
	switch place {
	case 1, 2, 3:
		return inStdio(int32(place - 1))
	case 4:
		for _, step := range []func() string{
			func() string { return inStdio(1) },
			func() string { _, e := open("above-preopens", -1); return e },
			func() string { return inStdio(0) },
			func() string { _, e := open("above-preopens", -1); return e },
			func() string { return high(70) },
		} {
			if e := step(); e != "" {
				return e
			}
		}
		return ""
	case 5:
		return high(70)
	case 6:
		return high(130)
	}
	_, e := open("above-preopens", -1)
	return e
}

func (c *countFS) Open(name string) (fs.File, error) {
	f, err := c.inner.Open(name)
	if err != nil {
		return nil, err
	}
	cf := &countFile{File: f, name: name, fail: c.fail && name == "f"}
	c.mu.Lock()
	c.files = append(c.files, cf)
	c.mu.Unlock()
	return cf, nil
}

func (f *countFile) Close() error {
	atomic.AddInt32(&f.closes, 1)
	err := f.File.Close()
	if f.fail {
		return errors.New("flush failed")
	}
	return err
}

func (c *countFS) check(out *histOut, witness func() any) {
	c.mu.Lock()
	defer c.mu.Unlock()
	for _, f := range c.files {
		out.ops["fs-files-handed-out"]++
		switch n := atomic.LoadInt32(&f.closes); {
		case n == 0:
			out.add("fs-close:never-closed"+suffix(f.slot), fmt.Sprintf("file %q opened through the mounted FS (%s) was never closed although the runtime is closed", f.name, f.slot), witness())
		case n > 1:
			out.add("fs-close:closed-more-than-once"+suffix(f.slot), fmt.Sprintf("file %q opened through the mounted FS (%s) was closed %d times", f.name, f.slot, n), witness())
		}
	}
}

func suffix(slot string) string {
	if slot == "" {
		return "" // opened by a guest's own path_open (WASI variant of the sequential phase)
	}
	return ":" + slot
}

var _ = wasi_snapshot_preview1.ModuleName
