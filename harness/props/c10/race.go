package c10

import (
	"regexp"
	"sort"
	"strings"
)

// raceReport is one deduplicated data race report.
type raceReport struct {
	Sig     string // race:<func A> <-> <func B> of the first non-runtime frames, sorted
	Harness bool   // one side's first non-runtime frame is in the harness
	Text    string
}

var (
	reAccess = regexp.MustCompile(`(?m)^(?:Read|Write|Previous read|Previous write|Atomic \w+|Previous atomic \w+) at 0x[0-9a-f]+ by .*:$`)
	reFrame  = regexp.MustCompile(`(?m)^  (\S+)\(\)$`)
)

// parseRaces extracts the reports of a race detector log. Each side of a
// report is named by its first frame outside the Go runtime, without line
// numbers or addresses.
func parseRaces(log string) []raceReport {
	seen := map[string]bool{}
	var out []raceReport
	parts := strings.Split(log, "WARNING: DATA RACE")
	for _, p := range parts[1:] {
		if end := strings.Index(p, "=================="); end > 0 {
			p = p[:end]
		}
		hdrs := reAccess.FindAllStringIndex(p, -1)
		if len(hdrs) < 2 {
			continue
		}
		var sides []string
		harness := false
		for i, hd := range hdrs[:2] {
			end := len(p)
			if i+1 < len(hdrs) {
				end = hdrs[i+1][0]
			}
			sec := p[hd[1]:end]
			if j := strings.Index(sec, "\n\n"); j >= 0 {
				sec = sec[:j]
			}
			fn := "?"
			for _, m := range reFrame.FindAllStringSubmatch(sec, -1) {
				f := m[1]
				if strings.HasPrefix(f, "runtime.") || strings.HasPrefix(f, "sync.") || strings.HasPrefix(f, "sync/atomic.") || strings.HasPrefix(f, "internal/") {
					continue
				}
				fn = f
				break
			}
			if strings.Contains(fn, "/verifharness/") || !strings.Contains(fn, "tetratelabs/wazero") {
				harness = true
			}
			sides = append(sides, strings.ReplaceAll(fn, "github.com/tetratelabs/wazero", "wazero"))
		}
		sort.Strings(sides)
		sig := "race:" + sides[0] + " <-> " + sides[1]
		if seen[sig] {
			continue
		}
		seen[sig] = true
		if len(p) > 3500 {
			p = p[:3500]
		}
		out = append(out, raceReport{Sig: sig, Harness: harness, Text: p})
	}
	return out
}
