package c10

import (
	"context"
	"fmt"
	"sync"
	"sync/atomic"

	"github.com/tetratelabs/wazero"
	"github.com/tetratelabs/wazero/api"
	"github.com/tetratelabs/wazero/experimental"
	"github.com/tetratelabs/wazero/verifharness/core"
)

// Large-registry histories: the registry is grown to N simultaneously open
// named modules, N drawn around the sizes at which the store's name map grows
// and shrinks (internal/wasm: nameToModuleShrinkThreshold = 100, shrink when
// live*2 <= capacity), closed in PRNG order down to a few with a lookup of
// every closed name, re-instantiation under closed names and full sweeps
// interleaved, then grown and closed again. The reference is the same
// sequential registry (name -> open module); it knows nothing of capacities.
// With G > 1 clients every client owns a disjoint set of names, so what it
// sees of its own names is decided by its own operations alone.

// bigSizes are the registry sizes tried (the harness's host module is one more
// named module, hence the +-2 neighbourhoods).
var bigSizes = []int{98, 99, 100, 101, 102, 150, 198, 199, 200, 201, 202, 250, 300, 398, 399, 400, 401, 402, 450}

func pickBigN(r *core.Rng) int {
	switch r.Intn(10) {
	case 0:
		return 990 + r.Intn(40)
	case 1, 2:
		return 90 + r.Intn(420)
	}
	return bigSizes[r.Intn(len(bigSizes))]
}

type bigSlot struct {
	name string
	mod  api.Module // nil: no open module owns the name (as far as the owner of the slot knows)
}

type bigRun struct {
	rt    wazero.Runtime
	cm    wazero.CompiledModule
	slots []bigSlot
	live  int64 // open named modules of the workload (atomic)

	mu    sync.Mutex
	finds []finding
	insts []*bigInst
	nops  int64
	ops   map[string]int
	maxLv int64
	in    caseIn
}

type bigInst struct {
	ir   instRec
	mod  api.Module
	name string
}

func (b *bigRun) fail(sig, detail string, recent []string) {
	b.mu.Lock()
	defer b.mu.Unlock()
	for _, f := range b.finds {
		if f.Sig == sig {
			return
		}
	}
	b.finds = append(b.finds, finding{Sig: sig, Detail: detail, Witness: map[string]any{
		"engine": engineName(b.in.Engine), "registry_size": b.in.N, "clients": b.in.G, "open_named_modules_now": atomic.LoadInt64(&b.live),
		"last_operations": recent}})
}

// instantiate a module under the name of slot i; ok reports success.
func (b *bigRun) instantiate(i int) (api.Module, error) {
	bi := &bigInst{name: b.slots[i].name}
	ctx := experimental.WithCloseNotifier(bg, experimental.CloseNotifyFunc(func(_ context.Context, code uint32) {
		atomic.StoreUint32(&bi.ir.code, code)
		atomic.AddInt32(&bi.ir.notif, 1)
	}))
	m, err := b.rt.InstantiateModule(ctx, b.cm, wazero.NewModuleConfig().WithName(bi.name))
	if err == nil {
		bi.mod = m
		b.mu.Lock()
		b.insts = append(b.insts, bi)
		b.mu.Unlock()
		lv := atomic.AddInt64(&b.live, 1)
		for {
			mx := atomic.LoadInt64(&b.maxLv)
			if lv <= mx || atomic.CompareAndSwapInt64(&b.maxLv, mx, lv) {
				break
			}
		}
	}
	return m, err
}

// client works on its own slots only.
type bigClient struct {
	b      *bigRun
	r      *core.Rng
	own    []int
	recent []string
	ops    map[string]int
	dead   bool
}

func (c *bigClient) note(s string) {
	c.recent = append(c.recent, s)
	if len(c.recent) > 12 {
		c.recent = c.recent[1:]
	}
}

func (c *bigClient) bad(sig, detail string) {
	c.b.fail(sig, detail, append([]string(nil), c.recent...))
	c.dead = true
}

// lookup compares Runtime.Module(name) with what the client knows about slot i.
func (c *bigClient) lookup(i int, when string) {
	s := &c.b.slots[i]
	got := c.b.rt.Module(s.name)
	c.ops["lookup"]++
	switch {
	case got == s.mod:
	case s.mod == nil && safeIsClosed(got):
		c.note(fmt.Sprintf("Module(%s) = a closed module", s.name))
		c.bad("big-registry:lookup-returns-closed-module", fmt.Sprintf("%s: Runtime.Module(%q) returned a module although the module of that name was closed (IsClosed()==true) and nothing was instantiated under it since", when, s.name))
	case s.mod == nil:
		c.bad("big-registry:lookup-returns-module-for-free-name", fmt.Sprintf("%s: Runtime.Module(%q) returned an open module nobody instantiated", when, s.name))
	case got == nil:
		c.bad("big-registry:lookup-nil-for-open-module", fmt.Sprintf("%s: Runtime.Module(%q) == nil although its module is open", when, s.name))
	default:
		c.bad("big-registry:lookup-returns-other-module", fmt.Sprintf("%s: Runtime.Module(%q) returned a different module than the one instantiated under the name", when, s.name))
	}
}

func (c *bigClient) open(i int, when string) {
	s := &c.b.slots[i]
	m, err := c.b.instantiate(i)
	c.ops["instantiate"]++
	if err != nil {
		c.note(fmt.Sprintf("InstantiateModule(%s) = %v", s.name, err))
		c.bad("big-registry:name-not-reusable-after-close", fmt.Sprintf("%s: InstantiateModule under the free name %q failed: %v", when, s.name, err))
		return
	}
	c.note(fmt.Sprintf("InstantiateModule(%s) ok", s.name))
	s.mod = m
	c.lookup(i, "right after instantiating it")
}

func (c *bigClient) close(i int) {
	s := &c.b.slots[i]
	m := s.mod
	var err error
	switch c.r.Intn(4) {
	case 0:
		err = m.CloseWithExitCode(bg, uint32(1+c.r.Intn(3)))
	case 1:
		err = m.Close(bg)
		_ = m.Close(bg) // idempotent
	default:
		err = m.Close(bg)
	}
	c.ops["close"]++
	atomic.AddInt64(&c.b.live, -1)
	s.mod = nil
	c.note(fmt.Sprintf("Close(%s) with %d open named modules left", s.name, atomic.LoadInt64(&c.b.live)))
	if err != nil {
		c.bad("close:error-without-failing-resource", fmt.Sprintf("Close of %q returned %v", s.name, err))
		return
	}
	if !safeIsClosed(m) {
		c.bad("big-registry:closed-module-reports-open", fmt.Sprintf("IsClosed()==false after Close(%q) returned", s.name))
		return
	}
	c.lookup(i, "right after closing it")
}

func (c *bigClient) sweep(when string) {
	for _, i := range c.own {
		if c.dead {
			return
		}
		c.lookup(i, when)
	}
	c.ops["sweeps"]++
}

// shrinkPhase closes the client's open modules in PRNG order down to keep.
func (c *bigClient) shrinkPhase(keep int, phase string) {
	var open, closed []int
	for _, i := range c.own {
		if c.b.slots[i].mod != nil {
			open = append(open, i)
		} else {
			closed = append(closed, i)
		}
	}
	for i := len(open) - 1; i > 0; i-- {
		j := c.r.Intn(i + 1)
		open[i], open[j] = open[j], open[i]
	}
	every := 1 + c.r.Intn(24)
	for n := 0; len(open) > keep && !c.dead; n++ {
		i := open[len(open)-1]
		open = open[:len(open)-1]
		c.close(i)
		closed = append(closed, i)
		if c.dead {
			return
		}
		lv := atomic.LoadInt64(&c.b.live)
		near := lv%50 <= 1 || lv%50 == 49 // sizes at which a capacity-halving map would act
		if n%every == every-1 || (near && c.r.Chance(1, 2)) {
			// take a closed name again, look it up, and (mostly) close it again
			k := c.r.Intn(len(closed))
			j := closed[k]
			c.open(j, phase+": re-instantiating under a closed name")
			if c.dead {
				return
			}
			closed[k] = closed[len(closed)-1]
			closed = closed[:len(closed)-1]
			if c.r.Chance(3, 4) {
				c.close(j)
				closed = append(closed, j)
			} else {
				open = append([]int{j}, open...)
			}
		}
		if !c.dead && (n%64 == 63 || (near && len(c.own) <= 1100 && c.b.in.G == 1)) {
			c.sweep(phase + ": sweep over all names")
		}
	}
}

func (c *bigClient) growPhase(frac int, phase string) {
	var closed []int
	for _, i := range c.own {
		if c.b.slots[i].mod == nil {
			closed = append(closed, i)
		}
	}
	for i := len(closed) - 1; i > 0; i-- {
		j := c.r.Intn(i + 1)
		closed[i], closed[j] = closed[j], closed[i]
	}
	closed = closed[:len(closed)*frac/4]
	for _, i := range closed {
		if c.dead {
			return
		}
		c.open(i, phase+": growing the registry again")
	}
}

func (c *bigClient) run() {
	c.shrinkPhase(c.r.Intn(4), "first shrink")
	if !c.dead {
		c.growPhase(1+c.r.Intn(4), "regrow")
	}
	if !c.dead {
		c.sweep("after regrowing")
	}
	if !c.dead {
		c.shrinkPhase(c.r.Intn(1+len(c.own)/2), "second shrink")
	}
	if !c.dead {
		c.sweep("after the second shrink")
	}
}

// runBig executes one large-registry history.
func runBig(ci caseIn, mode string) *caseOut {
	out := &caseOut{Ops: map[string]int{}, Porc: map[string]int{}, PointHits: make([]int, nPoints+1), Hists: 1, Clients: ci.G}
	r := core.NewRng(int64(ci.Seed), 11)
	b := &bigRun{in: ci, ops: map[string]int{}}
	b.rt = wazero.NewRuntimeWithConfig(bg, rtConfig(ci.Engine))
	defer b.rt.Close(bg)
	instantiateEnv(b.rt)
	var err error
	if b.cm, err = b.rt.CompileModule(bg, baseBin); err != nil {
		panic(err)
	}
	b.slots = make([]bigSlot, ci.N)
	for i := range b.slots {
		b.slots[i].name = fmt.Sprintf("n%d", i)
	}
	clients := make([]*bigClient, ci.G)
	for g := range clients {
		clients[g] = &bigClient{b: b, r: r.Split(), ops: map[string]int{}}
	}
	for i := range b.slots { // deal the names out
		g := r.Intn(ci.G)
		clients[g].own = append(clients[g].own, i)
	}
	// grow: all N open at once
	grower := &bigClient{b: b, r: r.Split(), ops: map[string]int{}}
	for i := range b.slots {
		grower.own = append(grower.own, i)
		grower.open(i, "initial growth")
		if grower.dead {
			break
		}
	}
	var hk *hookState
	if !grower.dead {
		if ci.G > 1 {
			hk = &hookState{cfg: genHookCfg(r), recorded: false, racy: r.U64() | 1}
			curHook.Store(hk)
		}
		var wg sync.WaitGroup
		for _, c := range clients {
			wg.Add(1)
			go func(c *bigClient) {
				defer wg.Done()
				defer func() {
					if p := recover(); p != nil {
						c.bad("big-registry:panic", fmt.Sprint(p))
					}
				}()
				c.run()
			}(c)
		}
		wg.Wait()
		curHook.Store(nil)
		for _, c := range clients {
			if !c.dead {
				c.sweep("after all clients stopped")
			}
		}
	}
	// quiescence
	_ = b.rt.Close(bg)
	dead := grower.dead
	for _, c := range clients {
		dead = dead || c.dead
	}
	for _, bi := range b.insts {
		n := atomic.LoadInt32(&bi.ir.notif)
		switch {
		case !safeIsClosed(bi.mod):
			b.fail("runtime-close:module-still-open", fmt.Sprintf("module %q IsClosed()==false after Runtime.Close returned", bi.name), nil)
		case n == 0:
			b.fail("close-notify:lost", fmt.Sprintf("module %q is closed but its CloseNotifier never fired", bi.name), nil)
		case n > 1:
			b.fail("close-notify:fired-more-than-once", fmt.Sprintf("module %q: CloseNotifier fired %d times", bi.name, n), nil)
		}
	}
	if !dead {
		for i := range b.slots {
			if b.rt.Module(b.slots[i].name) != nil {
				b.fail("runtime-close:name-still-registered", fmt.Sprintf("Runtime.Module(%q) != nil after Runtime.Close returned", b.slots[i].name), nil)
				break
			}
		}
	}
	for _, c := range append(clients, grower) {
		for k, n := range c.ops {
			out.Ops["big:"+k] += n
			out.NOps += n
		}
	}
	out.Ops[fmt.Sprintf("bigN:%d", ci.N)]++
	out.Modules = len(b.insts)
	out.Findings = b.finds
	if len(b.finds) == 0 {
		out.Porc["big-agrees"]++
	} else {
		out.Porc["big-diverges"]++
	}
	if hk != nil {
		for i, n := range hk.racyHits {
			out.PointHits[i] += n
		}
	}
	out.Sample = []string{fmt.Sprintf("registry of %d names, %d client(s), %s, max %d open at once, %d operations", ci.N, ci.G, engineName(ci.Engine), atomic.LoadInt64(&b.maxLv), out.NOps)}
	_ = mode
	return out
}
