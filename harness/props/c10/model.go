package c10

import (
	"fmt"
	"sort"
	"strings"
	"time"

	"github.com/anishathalye/porcupine"
)

// ---------------------------------------------------------------------------
// Logical operations (what a client saw) and the sequential registry model of
// DESIGN.md Appendix C.

type opKind uint8

const (
	kInst     opKind = iota // Runtime.InstantiateModule(compiled, name)
	kInstBin                // Runtime.InstantiateWithConfig(binary, name)
	kHostInst               // HostModuleBuilder(name).Instantiate
	kLookup                 // Runtime.Module(name)
	kClose                  // api.Module.Close
	kCloseX                 // api.Module.CloseWithExitCode
	kIsClosed               // api.Module.IsClosed
	kCompile                // Runtime.CompileModule (+ optional CompiledModule.Close)
	kHostComp               // HostModuleBuilder.Compile
	kRtClose                // Runtime.Close / CloseWithExitCode
	kCtxClose               // context-driven close: a spinning guest call is cut by cancel / deadline (WithCloseOnContextDone)
	kCall                   // a guest call on a module handle: succeeds iff the module is open
	nKinds
)

const nCoreKinds = kRtClose + 1 // kinds every mode runs

// onHandle: the operation acts on a module handle the client got earlier.
func (k opKind) onHandle() bool {
	return k == kClose || k == kCloseX || k == kIsClosed || k == kCtxClose || k == kCall
}

var kindName = [...]string{"InstantiateModule", "InstantiateWithConfig", "HostInstantiate", "Module", "Close", "CloseWithExitCode",
	"IsClosed", "CompileModule", "HostCompile", "RuntimeClose", "ContextClose", "Call"}
var kindShort = [...]string{"I", "IW", "HI", "L", "C", "CX", "Q", "CM", "HC", "RC", "XC", "CALL"}

func (k opKind) isInst() bool { return k <= kHostInst }
func (k opKind) isMutator() bool {
	return k.isInst() || k == kClose || k == kCloseX || k == kRtClose || k == kCtxClose
}

type resKind uint8

const (
	rNone      resKind = iota // Close / RuntimeClose returned (any error value is ignored)
	rOK                       // instantiate/compile succeeded; ID set for instantiate
	rDup                      // instantiate: name in use
	rClosedErr                // error mentioning the closed runtime
	rOtherErr                 // any other error (legal only once the runtime is closed)
	rMod                      // lookup returned a module (ID)
	rNil                      // lookup returned nil
	rTrue                     // IsClosed
	rFalse
	rPanic  // the call panicked: the operation never returned
	rResErr // Close returned the error of a resource whose release failed (same effect as a plain return)
	// instantiate whose start function ran and ended the instance: the module was registered
	// for the duration of the start function and is closed and unregistered when the call returns
	rOKClosed      // nil error (exit code 0, or the start function closed its own module and returned)
	rStartFail     // error from the start function (trap, exit code != 0)
	rStartFailOpen // error from the start function, but the module was still open on return (a violation by itself)
)

// registers: the instantiate made a module visible in the registry (for good or for a while).
func (o lop) registers() bool {
	return o.Kind.isInst() && o.ID != 0 && (o.Res == rOK || o.Res == rOKClosed || o.Res == rStartFail || o.Res == rStartFailOpen)
}

// start function behaviours of the instantiated guest
const (
	sNone      = iota // no start function
	sReturn           // returns normally
	sTrap             // unreachable
	sPanicExit        // calls a host function that panics with sys.NewExitError(x) without closing anything
	sCloseSelf        // calls a host function that closes the calling module with exit code x and returns
	sExit             // calls a host function that closes the calling module with x and panics with the exit error (proc_exit)
	sCallPeer         // calls the export "boom" of the instance named N2, which exits itself with x
	nStart
)

var startName = [...]string{"", "return", "trap", "panic-exit", "close-self", "exit", "peer-exits"}

var resName = [...]string{"done", "ok", "errNameInUse", "errClosed", "errOther", "mod", "nil", "true", "false", "PANIC", "errResource", "ok-closed", "errStart", "errStart-left-open"}

const anon = 2 // name index of the anonymous name ""

// lop is one operation of a history as seen at the client boundary.
type lop struct {
	Client int     `json:"client"`
	Kind   opKind  `json:"-"`
	K      string  `json:"op"`
	Name   int     `json:"name"`         // 0,1 or anon (instantiate / lookup)
	ID     int     `json:"id,omitempty"` // target module (close/isclosed) or result module (instantiate ok / lookup)
	Res    resKind `json:"-"`
	R      string  `json:"res"`
	Call   int64   `json:"call"`
	Ret    int64   `json:"ret"` // 0 = never returned (panic)
	Err    string  `json:"err,omitempty"`
	X      uint32  `json:"exit_code,omitempty"`
	F      int     `json:"resource,omitempty"`  // instantiate: 1 = holds an open file, 2 = holds an open file whose Close fails
	P      int     `json:"placement,omitempty"` // where the held file sits (placeName)
	S      int     `json:"start,omitempty"`     // instantiate: start function behaviour (sReturn...)
	N2     int     `json:"peer,omitempty"`      // sCallPeer: name of the instance whose export is called
}

var resMark = [...]string{"", "+file", "+failing-file"}

// placements of the held file(s) in the instance's descriptor table
var placeName = [...]string{"", "@fd0", "@fd1", "@fd2", "@several", "@fd70", "@fd130"}

func (o lop) mark() string {
	s := resMark[o.F]
	if o.F != 0 {
		s += placeName[o.P]
	}
	switch o.S {
	case sNone:
	case sReturn, sTrap:
		s += "+start=" + startName[o.S]
	case sCallPeer:
		s += fmt.Sprintf("+start=%s(%s):%d", startName[o.S], nameStr(o.N2), o.X)
	default:
		s += fmt.Sprintf("+start=%s:%d", startName[o.S], o.X)
	}
	return s
}

func (o *lop) fill() { o.K = kindShort[o.Kind]; o.R = resName[o.Res] }

func nameStr(n int) string {
	if n == anon {
		return `""`
	}
	return string(rune('a' + n))
}

func (o lop) String() string {
	switch {
	case o.Kind.isInst():
		s := fmt.Sprintf("%s(%s%s)=%s", kindShort[o.Kind], nameStr(o.Name), o.mark(), resName[o.Res])
		if o.Res == rOK {
			s = fmt.Sprintf("%s(%s%s)=m%d", kindShort[o.Kind], nameStr(o.Name), o.mark(), o.ID)
		} else if o.registers() {
			s += fmt.Sprintf(":m%d", o.ID)
		}
		return s
	case o.Kind == kLookup:
		if o.Res == rMod {
			return fmt.Sprintf("L(%s)=m%d", nameStr(o.Name), o.ID)
		}
		return fmt.Sprintf("L(%s)=%s", nameStr(o.Name), resName[o.Res])
	case o.Kind.onHandle():
		return fmt.Sprintf("%s(m%d)=%s", kindShort[o.Kind], o.ID, resName[o.Res])
	default:
		return fmt.Sprintf("%s=%s", kindShort[o.Kind], resName[o.Res])
	}
}

// mstate is the registry state. Module ids are 1..63.
type mstate struct {
	closing bool // runtime close has begun: requests fail from here on
	closed  bool // runtime close is complete: nothing is open, no name is taken
	pendRC  uint8
	names   [2]uint8
	open    uint64
	rel     uint64    // defect model D: modules whose (first) close already released the name they were created under
	pendC   [64]uint8 // relaxed module close: closes that marked the module closed and have not returned yet
}

func bit(id int) uint64 { return uint64(1) << uint(id) }

// relax selects which documented-as-atomic steps the model lets clients see in
// two steps. The zero value is the strict model of Appendix C.
//
// M: Module.Close marks the module closed first and releases its name later in
// the same call; a Close that finds the module already marked returns at once
// (so it may return while the name is still taken by the other, unfinished Close).
// R: Runtime.Close makes requests fail first, then closes the modules one by
// one and empties the registry last; a Close that finds the runtime already
// marked returns at once.
// In both cases the call that did the marking must have finished the job by
// the time the last overlapping close returns.
//
// D and H describe two defects that a single client can already trigger; they
// exist only to attribute the concurrent histories these defects spoil to one
// signature each instead of to arbitrary symptoms:
// D: an instantiate that fails with "name in use" afterwards releases the name
// (the owner stays open, nameless), and the first close of a module releases
// the name it was instantiated under whoever owns it now.
// H: HostModuleBuilder.Compile does not look at the closed flag.
type relax struct{ M, R, D, H bool }

var relaxNames = []string{"module-close-steps-visible", "runtime-close-steps-visible",
	"failed-duplicate-instantiate-releases-name", "host-compile-ignores-closed-runtime"}

func (r relax) parts() []string {
	var p []string
	for i, on := range []bool{r.M, r.R, r.D, r.H} {
		if on {
			p = append(p, relaxNames[i])
		}
	}
	return p
}

func (r relax) String() string {
	if p := r.parts(); len(p) > 0 {
		return strings.Join(p, "+")
	}
	return "strict"
}

// pin is the input handed to porcupine; phase 2 marks the second half of a
// split close.
type pin struct {
	kind  opKind
	name  int
	id    int
	phase int
}
type pout struct {
	res resKind
	id  int
}

// release: a close of module id lets go of the name that id owns. In defect
// model D the first close of id may instead let go of the name id was created
// under, whoever owns it now (D only ever adds possibilities).
func (s mstate) release(rx relax, id, name int) []mstate {
	byID := s
	for n := range byID.names {
		if byID.names[n] == uint8(id) {
			byID.names[n] = 0
		}
	}
	if !rx.D || s.rel&bit(id) != 0 {
		return []mstate{byID}
	}
	byID.rel |= bit(id)
	if name == anon || s.names[name] == 0 || s.names[name] == uint8(id) {
		return []mstate{byID}
	}
	byName := s
	byName.rel |= bit(id)
	byName.names[name] = 0
	return []mstate{byID, byName}
}

// closeStep is a close of module id: atomic in the strict model (phase 1
// only); under relaxation M phase 1 marks the module closed and phase 2
// releases the name.
func (s mstate) closeStep(rx relax, id, name, phase int) []mstate {
	if !rx.M {
		s.open &^= bit(id)
		return s.release(rx, id, name)
	}
	if phase != 2 {
		s.open &^= bit(id)
		s.pendC[id]++
		return []mstate{s}
	}
	if s.pendC[id] == 0 {
		return nil
	}
	s.pendC[id]--
	rels := s.release(rx, id, name)
	if s.pendC[id] > 0 && rels[0] != s {
		rels = append(rels, s) // or another close of this module, still running, releases it
	}
	return rels
}

func (s mstate) emptied() mstate {
	s.closing, s.closed, s.open, s.names, s.rel = true, true, 0, [2]uint8{}, 0
	return s
}

// step returns every state the registry may be in after the operation, none if
// the operation cannot return this result in state s.
func step(rx relax, s mstate, in pin, out pout) []mstate {
	one := func(ok bool, t mstate) []mstate {
		if ok {
			return []mstate{t}
		}
		return nil
	}
	switch in.kind { // in the model these are what they amount to for the registry
	case kCtxClose:
		in.kind = kCloseX
	case kCall:
		in.kind = kIsClosed
		if out.res == rOK {
			out.res = rFalse
		} else if out.res != rPanic {
			out.res = rTrue
		}
	}
	if out.res == rPanic {
		// never returned; only operations that had no effect are admitted to a checked
		// history in this state (see finish), so it constrains nothing.
		return []mstate{s}
	}
	switch {
	case in.kind.isInst():
		switch out.res {
		case rOK, rOKClosed, rStartFail, rStartFailOpen:
			if in.phase >= 2 { // the start function (or the cleanup after it) closed the module again
				return s.closeStep(rx, out.id, in.name, in.phase-1)
			}
			if out.id == 0 { // nothing was ever visible
				return one(!s.closed && (in.name == anon || s.names[in.name] == 0), s)
			}
			if s.closed || (!rx.R && s.closing) {
				return nil
			}
			if in.name != anon {
				if s.names[in.name] != 0 {
					return nil
				}
				s.names[in.name] = uint8(out.id)
			}
			s.open |= bit(out.id)
			return []mstate{s}
		case rDup:
			if in.phase == 2 { // defect model D: the failed instantiate's cleanup releases the name, later in the same call
				if in.name == anon || s.names[in.name] == 0 {
					return []mstate{s}
				}
				t := s
				t.names[in.name] = 0
				return []mstate{s, t} // D only ever adds possibilities
			}
			return one(!s.closed && in.name != anon && s.names[in.name] != 0, s)
		case rClosedErr, rOtherErr:
			return one(s.closing, s)
		}
	case in.kind == kLookup:
		if in.name == anon {
			return one(out.res == rNil, s)
		}
		if out.res == rNil {
			return one(s.names[in.name] == 0, s)
		}
		return one(s.names[in.name] == uint8(out.id), s)
	case in.kind == kClose || in.kind == kCloseX:
		return s.closeStep(rx, in.id, in.name, in.phase)
	case in.kind == kIsClosed:
		isOpen := s.open&bit(in.id) != 0
		if out.res == rFalse {
			return one(isOpen, s)
		}
		if !isOpen {
			return []mstate{s}
		}
		if rx.R && s.closing && !s.closed { // closed by the runtime close in progress
			s.open &^= bit(in.id)
			return []mstate{s}
		}
		return nil
	case in.kind == kCompile || in.kind == kHostComp:
		if out.res == rOK {
			return one(!s.closing || (rx.H && in.kind == kHostComp), s)
		}
		return one(s.closing, s)
	case in.kind == kRtClose:
		if !rx.R {
			return []mstate{s.emptied()}
		}
		if in.phase != 2 {
			s.closing = true
			s.pendRC++
			return []mstate{s}
		}
		if s.pendRC == 0 {
			return nil
		}
		s.pendRC--
		if s.closed || s.pendRC == 0 {
			return []mstate{s.emptied()}
		}
		return []mstate{s.emptied(), s} // or the close that began first, still running, does it
	}
	return nil
}

func porcModel(rx relax) porcupine.Model {
	nm := porcupine.NondeterministicModel{
		Init: func() []interface{} { return []interface{}{mstate{}} },
		Step: func(st, in, out interface{}) []interface{} {
			var r []interface{}
			for _, t := range step(rx, st.(mstate), in.(pin), out.(pout)) {
				r = append(r, t)
			}
			return r
		},
		Equal: func(a, b interface{}) bool { return a.(mstate) == b.(mstate) },
		Hash: func(a interface{}) uint64 {
			s := a.(mstate)
			h := s.open*0x9E3779B97F4A7C15 ^ uint64(s.names[0])<<8 ^ uint64(s.names[1])<<16 ^ uint64(s.pendRC)<<24
			if s.closing {
				h ^= 1 << 40
			}
			if s.closed {
				h ^= 1 << 41
			}
			return h
		},
		DescribeOperation: func(in, out interface{}) string {
			i, o := in.(pin), out.(pout)
			return lop{Kind: i.kind, Name: i.name, ID: max(i.id, o.id), Res: o.res}.String()
		},
	}
	return nm.ToModel()
}

// buildOps turns logical operations into porcupine operations for a model.
func buildOps(rx relax, h []lop) []porcupine.Operation {
	var maxStamp int64
	for _, o := range h {
		if o.Call > maxStamp {
			maxStamp = o.Call
		}
		if o.Ret > maxStamp {
			maxStamp = o.Ret
		}
	}
	nameOf := map[int]int{}
	for _, o := range h {
		if o.registers() {
			nameOf[o.ID] = o.Name
		}
	}
	var ops []porcupine.Operation
	for _, o := range h {
		ret := o.Ret
		if ret == 0 {
			ret = maxStamp + 1
		}
		in := pin{kind: o.Kind, name: o.Name}
		out := pout{res: o.Res}
		switch {
		case o.Kind.isInst() || o.Kind == kLookup:
			out.id = o.ID
		default:
			in.id = o.ID
			in.name = anon
			if n, ok := nameOf[o.ID]; ok {
				in.name = n
			}
		}
		ops = append(ops, porcupine.Operation{ClientId: o.Client, Input: in, Output: out, Call: o.Call, Return: ret})
		if o.Res == rPanic {
			continue
		}
		ended := o.registers() && (o.Res == rOKClosed || o.Res == rStartFail)
		if (rx.M && (o.Kind == kClose || o.Kind == kCloseX || o.Kind == kCtxClose)) || (rx.R && o.Kind == kRtClose) || (rx.D && o.Kind.isInst() && o.Res == rDup) || ended {
			in.phase = 2
			ops = append(ops, porcupine.Operation{ClientId: o.Client, Input: in, Output: out, Call: o.Call, Return: ret})
		}
		if ended && rx.M {
			in.phase = 3
			ops = append(ops, porcupine.Operation{ClientId: o.Client, Input: in, Output: out, Call: o.Call, Return: ret})
		}
	}
	return ops
}

const porcTimeout = 60 * time.Second

func check(rx relax, h []lop) porcupine.CheckResult {
	return porcupine.CheckOperationsTimeout(porcModel(rx), buildOps(rx, h), porcTimeout)
}

// verdict of one history against the model family.
type verdict struct {
	Result  string // ok | illegal | unknown
	Level   relax  // for illegal: the smallest set of relaxations that admits the history
	None    bool   // no set of relaxations admits it
	Core    []lop  // then: an illegal sub-history (labelling only)
	Longest int    // then: operations in porcupine's longest partial linearization
}

// decide checks the strict model first; an illegal history is then classified by
// an irreducible set of relaxations that admits it, or minimised when none does.
func decide(h []lop) verdict {
	switch check(relax{}, h) {
	case porcupine.Ok:
		return verdict{Result: "ok"}
	case porcupine.Unknown:
		return verdict{Result: "unknown"}
	}
	// every relaxation together admits at least what any subset admits
	all := relax{M: true, R: true, D: true, H: true}
	switch check(all, h) {
	case porcupine.Illegal:
		res, info := porcupine.CheckOperationsVerbose(porcModel(all), buildOps(all, h), porcTimeout)
		_ = res
		longest := 0
		for _, part := range info.PartialLinearizations() {
			for _, l := range part {
				longest = max(longest, len(l))
			}
		}
		return verdict{Result: "illegal", None: true, Core: minimise(all, h), Longest: longest}
	case porcupine.Unknown:
		return verdict{Result: "unknown"}
	}
	// drop what is not needed (defect models first): an irreducible explaining set
	cur := all
	for _, drop := range []func(*relax){func(r *relax) { r.H = false }, func(r *relax) { r.D = false }, func(r *relax) { r.R = false }, func(r *relax) { r.M = false }} {
		cand := cur
		drop(&cand)
		switch check(cand, h) {
		case porcupine.Ok:
			cur = cand
		case porcupine.Unknown:
			return verdict{Result: "unknown"}
		}
	}
	return verdict{Result: "illegal", Level: cur}
}

// minimise removes operations while the rest stays illegal, using only sound
// removals: an observer (an operation without effect in the model) can always
// go; an effectful operation only when nothing that remains refers to its
// module or its name (runtime closes always stay). So the result is itself an
// illegal sub-history whose operations all bear on each other. The verdict was
// already taken on the full history; this only yields a stable label.
func minimise(rx relax, h []lop) []lop {
	cur := append([]lop(nil), h...)
	illegal := func(x []lop) bool { return check(rx, x) == porcupine.Illegal }
	nameOf := func(x []lop, id int) int {
		for _, o := range x {
			if o.registers() && o.ID == id {
				return o.Name
			}
		}
		return anon
	}
	independent := func(x []lop, i int) bool {
		o := x[i]
		if o.Kind == kRtClose {
			return false
		}
		name := o.Name
		if !o.Kind.isInst() {
			name = nameOf(x, o.ID)
		}
		for j, p := range x {
			if j == i {
				continue
			}
			if p.ID == o.ID && p.ID != 0 {
				return false
			}
			if name != anon {
				pn := anon
				switch {
				case p.Kind.isInst() || p.Kind == kLookup:
					pn = p.Name
				case p.ID != 0:
					pn = nameOf(x, p.ID)
				}
				if pn == name {
					return false
				}
			}
		}
		return true
	}
	for changed := true; changed; {
		changed = false
		for i := len(cur) - 1; i >= 0; i-- {
			if !observer(cur[i]) && !independent(cur, i) {
				continue
			}
			cand := append(append([]lop(nil), cur[:i]...), cur[i+1:]...)
			if len(cand) > 0 && illegal(cand) {
				cur = cand
				changed = true
			}
		}
	}
	return cur
}

// observer: the operation has no effect in the model.
func observer(o lop) bool {
	switch {
	case o.Kind == kRtClose, o.Kind == kClose, o.Kind == kCloseX, o.Kind == kCtxClose:
		return false
	case o.Kind.isInst():
		return !o.registers()
	}
	return true
}

// label names an illegal core by the observations that cannot be explained,
// latest first (or by the whole core when it consists of effects only).
func label(core []lop) string {
	var obs []lop
	for _, o := range core {
		if observer(o) {
			obs = append(obs, o)
		}
	}
	if len(obs) == 0 {
		return canon(shrinkEffects(core))
	}
	parts := strings.Split(canon(obs), ",")
	for i, j := 0, len(parts)-1; i < j; i, j = i+1, j-1 {
		parts[i], parts[j] = parts[j], parts[i]
	}
	return strings.Join(parts, ",")
}

// shrinkEffects reduces a core made of effects only (e.g. two owners of one
// name) to a few operations for the label. Unlike minimise this may drop
// operations the rest depends on, so it is used for naming only.
func shrinkEffects(core []lop) []lop {
	all := relax{M: true, R: true, D: true, H: true}
	cur := append([]lop(nil), core...)
	for changed := true; changed; {
		changed = false
		for i := len(cur) - 1; i >= 0; i-- {
			o := cur[i]
			if o.registers() {
				used := false
				for j, p := range cur {
					if j != i && p.ID == o.ID {
						used = true
					}
				}
				if used {
					continue
				}
			}
			cand := append(append([]lop(nil), cur[:i]...), cur[i+1:]...)
			if len(cand) > 0 && check(all, cand) == porcupine.Illegal {
				cur, changed = cand, true
			}
		}
	}
	return cur
}

// canon renders operations with names and ids renamed in order of appearance
// and instantiate / close flavours merged, for use in a signature.
func canon(h []lop) string {
	hs := append([]lop(nil), h...)
	sort.SliceStable(hs, func(i, j int) bool { return hs[i].Call < hs[j].Call })
	names, ids := map[int]int{}, map[int]int{}
	nm := func(n int) int {
		if n == anon {
			return anon
		}
		if _, ok := names[n]; !ok {
			names[n] = len(names)
		}
		return names[n]
	}
	id := func(i int) int {
		if i == 0 {
			return 0
		}
		if _, ok := ids[i]; !ok {
			ids[i] = len(ids) + 1
		}
		return ids[i]
	}
	var parts []string
	for _, o := range hs {
		c := o
		switch {
		case c.Kind.isInst():
			c.Kind = kInst
			c.Name = nm(c.Name)
			if c.S == sCallPeer {
				c.N2 = nm(c.N2)
			}
			if c.Res == rOtherErr {
				c.Res = rClosedErr
			}
		case c.Kind == kLookup:
			c.Name = nm(c.Name)
		case c.Kind == kCloseX:
			c.Kind = kClose
		}
		if c.Res == rOtherErr {
			c.Res = rClosedErr
		}
		c.ID = id(c.ID)
		parts = append(parts, c.String())
	}
	return strings.Join(parts, ",")
}

// ---------------------------------------------------------------------------
// Sequential reference: expected outcome of one operation in a given state.

// expect returns the result the strict model demands for an operation issued in
// state s by a single client, and the successor state (for instantiate the id
// is supplied by the caller once known).
func expect(s mstate, k opKind, name, id int) resKind {
	switch {
	case k.isInst():
		if s.closed {
			return rClosedErr
		}
		if name != anon && s.names[name] != 0 {
			return rDup
		}
		return rOK
	case k == kLookup:
		if name == anon || s.names[name] == 0 {
			return rNil
		}
		return rMod
	case k == kIsClosed:
		if s.open&bit(id) != 0 {
			return rFalse
		}
		return rTrue
	case k == kCall:
		if s.open&bit(id) != 0 {
			return rOK
		}
		return rClosedErr
	case k == kCompile || k == kHostComp:
		if s.closed {
			return rClosedErr
		}
		return rOK
	}
	return rNone
}
