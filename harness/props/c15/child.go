package c15

import (
	"context"
	"encoding/binary"
	"encoding/json"
	"errors"
	"fmt"
	"io"
	"io/fs"
	"net"
	"os"
	"path/filepath"
	"regexp"
	"runtime"
	"runtime/debug"
	"sort"
	"strings"
	"testing/fstest"
	"time"

	"github.com/tetratelabs/wazero"
	"github.com/tetratelabs/wazero/api"
	"github.com/tetratelabs/wazero/experimental/sock"
	"github.com/tetratelabs/wazero/imports/wasi_snapshot_preview1"
	"github.com/tetratelabs/wazero/internal/wasip1"
	"github.com/tetratelabs/wazero/internal/wasm"
	"github.com/tetratelabs/wazero/sys"
	"github.com/tetratelabs/wazero/verifharness/core"
	"github.com/tetratelabs/wazero/verifharness/wasiproxy"
)

// ---------------------------------------------------------------------------
// case description (parent -> child) and result (child -> parent)

const (
	stFresh = iota
	stOpen
	stRenum
	stClosed
	stClosedPre
	// stdio states (all on top of "open"): a standard stream closed, all of
	// them closed, stdin renumbered away (wazero refuses to renumber pre-opens:
	// ENOTSUP is tolerated and leaves the state at "open"), stdin replaced by a
	// regular file (fd_close(0) then path_open hands out 0)
	stNoStdin
	stNoStdout
	stNoStderr
	stNoStdio
	stStdinMoved
	stStdinReplaced
	// many simultaneously open descriptors (stdio + pre-open + path_open of
	// files and directories): around the 64- and 128-descriptor block
	// boundaries of the table, and a table with a hole across the first boundary
	stMany63
	stMany64
	stMany65
	stMany127
	stMany128
	stMany129
	stGap64 // 70 open, then 60..66 closed
	nStates
)

// manyOpen is the number of simultaneously open descriptors a state builds (0 = not a many-open state).
func manyOpen(state int) int {
	switch state {
	case stMany63:
		return 63
	case stMany64:
		return 64
	case stMany65:
		return 65
	case stMany127:
		return 127
	case stMany128:
		return 128
	case stMany129:
		return 129
	case stGap64:
		return 70
	}
	return 0
}

const nBaseStates = stClosedPre + 1

var stateNames = []string{"fresh", "open", "renumbered", "closed", "closed-preopen",
	"stdin-closed", "stdout-closed", "stderr-closed", "stdio-closed", "stdin-renumbered-away", "stdin-replaced-by-file",
	"63-open", "64-open", "65-open", "127-open", "128-open", "129-open", "70-open-then-60..66-closed"}

const (
	mtDir = iota
	mtRODir
	mtMapFS
	mtDirFS
	mtSock
	nMounts
)

var mountNames = []string{"dir", "readonly-dir", "fs.FS(MapFS)", "fs.FS(os.DirFS)", "dir+tcp-listener"}

type callSpec struct {
	Fn   string   `json:"fn"`
	Args []uint64 `json:"args"`
	// Patch is written over the memory template before the call (structured
	// generators build their input arrays there); Note describes it.
	Patch []memPatch `json:"patch,omitempty"`
	Note  string     `json:"note,omitempty"`
	Shape string     `json:"shape,omitempty"` // coarse class of the structured input (evidence)
}

type memPatch struct {
	At   uint32 `json:"at"`
	Data []byte `json:"data"`
}

type caseSpec struct {
	Fn       string     `json:"fn,omitempty"` // "" = mixed sequence
	Pages    int        `json:"pages"`
	State    int        `json:"state"`
	Mount    int        `json:"mount"`
	Stdio    int        `json:"stdio"`
	ArgsV    int        `json:"argsv"`
	Compiler bool       `json:"compiler,omitempty"`
	Gen      string     `json:"gen"` // product | pairs | prng | mix | explicit
	Lo       int        `json:"lo,omitempty"`
	Hi       int        `json:"hi,omitempty"`
	Seed     uint64     `json:"seed,omitempty"`
	Explicit []callSpec `json:"explicit,omitempty"`
	Tmp      string     `json:"tmp"`
	Listing  bool       `json:"listing,omitempty"` // return the concrete calls (used to isolate a crash)
}

type finding struct {
	Sig    string         `json:"sig"`
	Detail string         `json:"detail"`
	Call   callSpec       `json:"call"`
	Text   string         `json:"text"`
	Prefix []callSpec     `json:"prefix,omitempty"` // earlier calls on the same instance
	Extra  map[string]any `json:"extra,omitempty"`
}

type caseResult struct {
	Calls         int            `json:"calls"`
	PerFn         map[string]int `json:"per_fn"`
	Outcome       map[string]int `json:"outcome"` // errno name / exit / trap kind
	Buckets       map[string]int `json:"buckets"` // fn|bucket vector
	Findings      []finding      `json:"findings,omitempty"`
	MemChecks     int            `json:"mem_checks"`
	MemWritten    int            `json:"mem_written"` // calls that modified memory (inside the allowed set)
	ShadowChecks  int            `json:"shadow_checks"`
	ShadowProbes  int            `json:"shadow_probes"`
	FdsOpened     int            `json:"fds_opened"`
	FdsClosed     int            `json:"fds_closed"`
	FdsMoved      int            `json:"fds_moved"`
	AllocChecks   int            `json:"alloc_checks"`
	MaxAlloc      uint64         `json:"max_alloc"`
	MaxAllocCall  string         `json:"max_alloc_call,omitempty"`
	MaxSys        uint64         `json:"max_sys"`
	SysSuspects   int            `json:"sys_suspects,omitempty"`
	Reinst        int            `json:"reinst"`
	Structured    int            `json:"structured,omitempty"`     // calls with generator-built input arrays
	CreatedJudged int            `json:"created_judged,omitempty"` // successful creating calls whose reported number was checked
	BuildOpens    int            `json:"build_opens,omitempty"`    // descriptors handed out during state build-ups (each judged)
	Setup         string         `json:"setup,omitempty"`          // non-empty: set-up problem (inconclusive)
	List          []callSpec     `json:"list,omitempty"`
	Sample        string         `json:"sample,omitempty"`
}

// ---------------------------------------------------------------------------
// per-process environment

type rtEnv struct {
	rt     wazero.Runtime
	guests [3]wazero.CompiledModule // by pages
}

var (
	envs    [2]*rtEnv
	wsigs   []wasiproxy.Sig
	pnames  = map[string][]string{}
	bgCtx   = context.Background()
	memStat [2]runtime.MemStats
)

func getRT(compiler bool) *rtEnv {
	i := 0
	if compiler {
		i = 1
	}
	if envs[i] != nil {
		return envs[i]
	}
	if wsigs == nil {
		wsigs = wasiproxy.Signatures()
		for _, s := range wsigs {
			pnames[s.Name] = s.PNames
		}
	}
	cfg := wazero.NewRuntimeConfigInterpreter()
	if compiler {
		cfg = wazero.NewRuntimeConfigCompiler()
	}
	e := &rtEnv{rt: wazero.NewRuntimeWithConfig(bgCtx, cfg)}
	wasi_snapshot_preview1.MustInstantiate(bgCtx, e.rt)
	for p := 1; p <= 2; p++ {
		cm, err := e.rt.CompileModule(bgCtx, wasiproxy.Build(wsigs, uint32(p), uint32(p)))
		if err != nil {
			panic(err)
		}
		e.guests[p] = cm
	}
	envs[i] = e
	return e
}

// cappedWriter stands in for a buffered stdout/stderr: it keeps the first 4 KiB
// only, so that the embedder's buffer does not show up as host allocation.
type cappedWriter struct{ buf []byte }

func (w *cappedWriter) Write(p []byte) (int, error) {
	if room := 4096 - len(w.buf); room > 0 {
		if len(p) < room {
			room = len(p)
		}
		w.buf = append(w.buf, p[:room]...)
	}
	return len(p), nil
}

type emptyReader struct{}

func (emptyReader) Read([]byte) (int, error) { return 0, io.EOF }

// ---------------------------------------------------------------------------
// one instance with its monitors

type fdInfo struct {
	Ftype   uint8  `json:"ftype"`
	StatErr uint32 `json:"stat_errno,omitempty"`
	Dev     uint64 `json:"dev"`
	Ino     uint64 `json:"ino"`
	Size    uint64 `json:"size"`
	Head    string `json:"head,omitempty"`
	Preopen bool   `json:"preopen,omitempty"`
	stale   bool   // size/content may have changed legitimately since the last probe
}

func (i fdInfo) class(fd int32) string {
	switch {
	case i.Preopen && fd <= 2:
		return "stdio"
	case i.Preopen:
		return "preopen"
	case i.Ftype == 3:
		return "dir"
	case i.Ftype == 4:
		return "file"
	case i.Ftype == 6:
		return "sock"
	}
	return fmt.Sprintf("type%d", i.Ftype)
}

type inst struct {
	mod    api.Module
	mem    api.Memory
	fns    map[string]api.Function
	shadow map[int32]fdInfo
	peers  []net.Conn
	hist   []callSpec
	closed bool
	judge  func(name string, args []uint64, err error)
}

type runner struct {
	cs    *caseSpec
	e     genEnv
	rt    *rtEnv
	tmpl  []byte
	dir   string
	mapfs fstest.MapFS
	in    *inst
	res   *caseResult
	dirty bool // the host tree may have been modified since it was made
	cur   *callSpec
}

// image is the guest memory the current call starts from: the template plus
// the call's own patches.
func (r *runner) image() []byte {
	if r.cur == nil || len(r.cur.Patch) == 0 {
		return r.tmpl
	}
	m := append([]byte(nil), r.tmpl...)
	for _, p := range r.cur.Patch {
		if int(p.At) < len(m) {
			copy(m[p.At:], p.Data)
		}
	}
	return m
}

const f0Content = "F0: the quick brown fox jumps over the lazy dog; 0123456789 ABCDEFGHIJKLMNOPQRSTUVWXYZ abcdefghijkl\n"
const f1Content = "F1: second file inside d0, fifty bytes of content\n"

// dirties says whether the function can change the host tree.
func (f *fnSpec) dirties() bool {
	switch f.name {
	case "path_filestat_get", "path_readlink":
		return false
	case "fd_filestat_set_times":
		return true
	}
	return f.mutating || strings.HasPrefix(f.name, "path_")
}

var procDir string

func (r *runner) makeTree() error {
	if procDir == "" {
		// one parent directory per child process (no contention on a shared one)
		procDir = filepath.Join(r.cs.Tmp, fmt.Sprintf("p%d", os.Getpid()))
		if err := os.MkdirAll(procDir, 0o755); err != nil {
			return err
		}
	}
	d, err := os.MkdirTemp(procDir, "t-")
	if err != nil {
		return err
	}
	r.dir = d
	os.WriteFile(filepath.Join(d, "f0"), []byte(f0Content), 0o644)
	os.Mkdir(filepath.Join(d, "d0"), 0o755)
	os.WriteFile(filepath.Join(d, "d0", "f1"), []byte(f1Content), 0o644)
	os.Mkdir(filepath.Join(d, "e0"), 0o755)
	os.Symlink("f0", filepath.Join(d, "l0"))
	r.mapfs = fstest.MapFS{
		"f0":    &fstest.MapFile{Data: []byte(f0Content), Mode: 0o644},
		"d0/f1": &fstest.MapFile{Data: []byte(f1Content), Mode: 0o644},
		"e0":    &fstest.MapFile{Mode: fs.ModeDir | 0o755},
	}
	return nil
}

func (in *inst) fn(name string) api.Function {
	f := in.fns[name]
	if f == nil {
		f = in.mod.ExportedFunction(name)
		in.fns[name] = f
	}
	return f
}

// wcall issues a well-formed helper call (set-up, probes); errno 0xffff = call error.
func (in *inst) wcall(name string, args ...uint64) uint32 {
	res, err := in.fn(name).Call(bgCtx, args...)
	if err != nil || len(res) == 0 {
		if err != nil && in.judge != nil {
			in.judge(name, args, err) // the monitors' own calls are judged too
		}
		return 0xffff
	}
	return uint32(res[0])
}

func (in *inst) u32(off uint32) uint32 { v, _ := in.mem.ReadUint32Le(off); return v }
func (in *inst) u64(off uint32) uint64 { v, _ := in.mem.ReadUint64Le(off); return v }

func (in *inst) close() (panicked any, stack []byte) {
	for _, p := range in.peers {
		p.Close()
	}
	in.peers = nil
	if in.mod != nil {
		defer func() {
			if p := recover(); p != nil {
				panicked, stack = p, debug.Stack()
			}
		}()
		in.mod.Close(bgCtx)
	}
	return
}

// endInstance finishes the current instance: in many-descriptor states every
// tracked descriptor is verified once more (per call only a window is), and
// closing the module is judged like a call: it must not panic.
func (r *runner) endInstance() {
	in := r.in
	if in == nil {
		return
	}
	if !in.closed && len(in.shadow) > bigTable {
		r.shadowCheck(historyEnd, nil, 1, true)
	}
	if p, stack := in.close(); p != nil {
		text := fmt.Sprintf("%v (panic in Module.Close)\n%s", p, stack)
		kind, frame := runtimeErrorCause(text)
		r.addFindingAt("module_close:"+kind+"@"+frame+":go-runtime-error", core.Trunc(text, 1500),
			callSpec{Fn: "sched_yield", Args: []uint64{}}, "Module.Close after the history", in.hist, map[string]any{"state": stateNames[r.cs.State]})
	}
	r.in = nil
}

const bigTable = 24

var historyEnd = &fnSpec{name: "history-end"}

// instantiate creates a fresh instance in the case's configuration and brings
// its descriptor table into the case's state.
func (r *runner) instantiate() error {
	cs := r.cs
	r.endInstance()
	if r.dirty {
		// hostile path_* calls of the previous chunk changed the host tree
		os.RemoveAll(r.dir)
		if err := r.makeTree(); err != nil {
			return err
		}
		r.dirty = false
	}
	fsc := wazero.NewFSConfig()
	switch cs.Mount {
	case mtDir, mtSock:
		fsc = fsc.WithDirMount(r.dir, "/")
	case mtRODir:
		fsc = fsc.WithReadOnlyDirMount(r.dir, "/")
	case mtMapFS:
		fsc = fsc.WithFSMount(r.mapfs, "/")
	case mtDirFS:
		fsc = fsc.WithFSMount(os.DirFS(r.dir), "/")
	}
	av := &argsVariants[cs.ArgsV]
	mc := wazero.NewModuleConfig().WithName("").WithFSConfig(fsc).WithArgs(av.args...)
	for _, kv := range av.env {
		mc = mc.WithEnv(kv[0], kv[1])
	}
	switch cs.Stdio {
	case 1:
		mc = mc.WithStdin(emptyReader{}).WithStdout(&cappedWriter{}).WithStderr(&cappedWriter{})
	case 2:
		mc = mc.WithStdin(strings.NewReader("sixteen bytes in")).WithStdout(&cappedWriter{}).WithStderr(&cappedWriter{})
	}
	ctx := bgCtx
	if cs.Mount == mtSock {
		ctx = sock.WithConfig(ctx, sock.NewConfig().WithTCPListener("127.0.0.1", 0))
	}
	mod, err := r.rt.rt.InstantiateModule(ctx, r.rt.guests[cs.Pages], mc)
	if err != nil {
		return err
	}
	in := &inst{mod: mod, mem: mod.Memory(), fns: map[string]api.Function{}, shadow: map[int32]fdInfo{}}
	r.in = in
	r.res.Reinst++
	in.mem.Write(0, r.tmpl)
	in.judge = func(name string, args []uint64, err error) {
		text := err.Error()
		if f := tableByName[name]; f != nil && strings.Contains(text, "recovered by wazero") {
			kind, frame := runtimeErrorCause(text)
			r.addFindingAt(name+":"+kind+"@"+frame+":go-runtime-error", core.Trunc(text, 1500), callSpec{Fn: name, Args: append([]uint64(nil), args...)},
				fmtArgs(f, pnames[name], args)+" (issued by the state build-up / shadow-table probe)", in.hist,
				map[string]any{"during": "state build-up or shadow-table probe", "state": stateNames[cs.State]})
		}
	}

	// descriptor-table state
	writable := cs.Mount == mtDir || cs.Mount == mtSock
	rights := uint64(2)
	if writable {
		rights = 66
	}
	next := uint64(4)
	if cs.Mount == mtSock {
		next = 5
	}
	var problems []string
	// the build-up itself is judged: a new descriptor must not name an open one
	openSet := map[uint64]bool{0: true, 1: true, 2: true, 3: true}
	if cs.Mount == mtSock {
		openSet[4] = true
	}
	const anyFd = ^uint64(0)
	handedOut := func(name string, args []uint64, got uint64) {
		if openSet[got] {
			f := tableByName[name]
			r.addFindingAt(name+":fdtable:returned-open-descriptor",
				fmt.Sprintf("while building state %s: %s returned descriptor %d, which is open (%d descriptors open)", stateNames[cs.State], fmtArgs(f, pnames[name], args), got, len(openSet)),
				callSpec{Fn: name, Args: args}, fmtArgs(f, pnames[name], args)+" (state build-up)", in.hist,
				map[string]any{"returned": got, "open_descriptors": len(openSet), "state": stateNames[cs.State]})
		}
		openSet[got] = true
		r.res.BuildOpens++
	}
	open := func(p uint64, plen uint64, oflags, fdflags uint64, want uint64) {
		rt := rights
		if oflags&2 != 0 {
			rt = 0
		}
		args := []uint64{3, 1, p, plen, oflags, rt, rt, fdflags, aScratch}
		if errno := in.wcall("path_open", args...); errno != 0 {
			problems = append(problems, fmt.Sprintf("path_open(%#x)=%s", p, wasip1.ErrnoName(errno)))
		} else {
			got := uint64(in.u32(aScratch))
			handedOut("path_open", args, got)
			if want != anyFd && got != want {
				problems = append(problems, fmt.Sprintf("path_open(%#x) gave fd %d, expected %d", p, got, want))
			}
		}
	}
	closeFd := func(fd uint64) {
		if errno := in.wcall("fd_close", fd); errno != 0 {
			problems = append(problems, fmt.Sprintf("fd_close(%d)=%s", fd, wasip1.ErrnoName(errno)))
		}
		delete(openSet, fd)
	}
	must := func(name string, args ...uint64) {
		if errno := in.wcall(name, args...); errno != 0 {
			problems = append(problems, fmt.Sprintf("%s%v=%s", name, args, wasip1.ErrnoName(errno)))
		}
	}
	if n := manyOpen(cs.State); n > 0 {
		kinds := [][3]uint64{{aF0, 2, 0}, {aD0F1, 2, 2}, {aD0F1, 5, 0}, {aE0, 2, 2}}
		for k := 0; len(openSet) < n && k < 200; k++ {
			open(kinds[k%4][0], kinds[k%4][1], kinds[k%4][2], 0, anyFd)
		}
		if cs.State == stGap64 {
			for fd := uint64(60); fd <= 66; fd++ {
				closeFd(fd)
			}
		}
	} else if cs.State != stFresh {
		open(aF0, 2, 0, 0, next)     // X1 regular file
		open(aD0F1, 2, 2, 0, next+1) // X2 directory d0
		open(aD0F1, 5, 0, 0, next+2) // X3 regular file d0/f1
		ff := uint64(0)
		if writable {
			ff = 1 // append
		}
		open(aF0, 2, 0, ff, next+3) // X4 second descriptor of f0
	}
	switch cs.State {
	case stRenum:
		must("fd_renumber", next, 9+next-4)
		must("fd_renumber", next+2, 12)
		delete(openSet, next)
		delete(openSet, next+2)
		openSet[9+next-4], openSet[12] = true, true
	case stClosed:
		closeFd(next + 1)
		closeFd(1)
	case stClosedPre:
		closeFd(3)
	case stNoStdin:
		closeFd(0)
	case stNoStdout:
		closeFd(1)
	case stNoStderr:
		closeFd(2)
	case stNoStdio:
		closeFd(0)
		closeFd(1)
		closeFd(2)
	case stStdinMoved:
		if errno := in.wcall("fd_renumber", 0, 9+next-4); errno == 0 {
			delete(openSet, 0)
			openSet[9+next-4] = true
		} else if errno != 58 { // ENOTSUP: pre-opens cannot be renumbered
			problems = append(problems, "fd_renumber(0,9)="+wasip1.ErrnoName(errno))
		}
	case stStdinReplaced:
		closeFd(0)
		open(aF0, 2, 0, 0, 0)
	}
	if cs.Mount == mtSock {
		// listener non-blocking, one accepted non-blocking connection with data
		// waiting, one more connection pending
		type addrer interface{ Addr() *net.TCPAddr }
		fe, ok := mod.(*wasm.ModuleInstance).Sys.FS().LookupFile(4)
		if !ok {
			problems = append(problems, "no listener at fd 4")
		} else if a, ok := fe.File.(addrer); !ok {
			problems = append(problems, "listener has no Addr()")
		} else {
			for k := 0; k < 2; k++ {
				c, err := net.DialTimeout("tcp", a.Addr().String(), 30*time.Second)
				if err != nil {
					problems = append(problems, "dial: "+err.Error())
					break
				}
				c.Write([]byte("hello from the peer, 32 bytes..\n"))
				in.peers = append(in.peers, c)
			}
			must("fd_fdstat_set_flags", 4, 4)
			if len(in.peers) > 0 {
				ok := false
				for try := 0; try < 10000 && !ok; try++ {
					if errno := in.wcall("sock_accept", 4, 4, aScratch); errno == 0 {
						ok = true
						handedOut("sock_accept", []uint64{4, 4, aScratch}, uint64(in.u32(aScratch)))
					} else if errno != 6 { // EAGAIN
						break
					} else {
						time.Sleep(time.Millisecond)
					}
				}
				if !ok {
					problems = append(problems, "sock_accept did not succeed")
				}
			}
		}
	}
	if len(problems) > 0 && r.res.Setup == "" {
		r.res.Setup = fmt.Sprintf("%s/%s: %s", stateNames[cs.State], mountNames[cs.Mount], strings.Join(problems, "; "))
	}
	// shadow table from what is actually there
	var built []int32
	for fd := range openSet {
		built = append(built, int32(fd))
	}
	for _, fd := range r.scanSet(built, true) {
		if ok, info := r.probe(fd); ok {
			if errno := in.wcall("fd_prestat_get", uint64(fd), aScratch); errno == 0 || (fd <= 2 && info.Ftype != 3 && info.Ftype != 4 && info.Ftype != 6) {
				info.Preopen = true
			}
			if cs.Mount == mtSock && fd == 4 {
				info.Preopen = true
			}
			in.shadow[fd] = info
		}
	}
	return nil
}

// scanSet lists the descriptors a shadow check looks at: 0..15 and the block
// boundary 63..65 always, every tracked descriptor while the table is small;
// with many descriptors open (unless full) the windows around the 64/128
// block boundaries, the descriptors the call named, and a rotating sample of
// eight tracked ones — every tracked one again at the end of the instance.
func (r *runner) scanSet(extra []int32, full bool) []int32 {
	set := map[int32]bool{}
	for fd := int32(0); fd < 16; fd++ {
		set[fd] = true
	}
	set[63], set[64], set[65] = true, true, true
	if r.in != nil {
		if full || len(r.in.shadow) <= bigTable {
			for fd := range r.in.shadow {
				set[fd] = true
			}
		} else {
			for fd := int32(58); fd <= 70; fd++ {
				set[fd], set[fd+64] = true, true
			}
			tracked := make([]int32, 0, len(r.in.shadow))
			for fd := range r.in.shadow {
				tracked = append(tracked, fd)
			}
			sort.Slice(tracked, func(i, j int) bool { return tracked[i] < tracked[j] })
			for k := 0; k < 8; k++ {
				set[tracked[(r.res.ShadowChecks*8+k)%len(tracked)]] = true
			}
		}
	}
	for _, fd := range extra {
		if fd >= 0 {
			set[fd] = true
		}
	}
	out := make([]int32, 0, len(set))
	for fd := range set {
		out = append(out, fd)
	}
	sort.Slice(out, func(i, j int) bool { return out[i] < out[j] })
	return out
}

// probe asks the guest-visible API what a descriptor is.
func (r *runner) probe(fd int32) (bool, fdInfo) {
	in := r.in
	r.res.ShadowProbes++
	var info fdInfo
	errno := in.wcall("fd_fdstat_get", uint64(uint32(fd)), aScratch)
	if errno == 8 || errno == 0xffff {
		return false, info
	}
	if errno != 0 {
		info.StatErr = errno
		return true, info
	}
	b, _ := in.mem.ReadByte(aScratch)
	info.Ftype = b
	if errno = in.wcall("fd_filestat_get", uint64(uint32(fd)), aScratch+0x40); errno == 0 {
		info.Dev, info.Ino, info.Size = in.u64(aScratch+0x40), in.u64(aScratch+0x48), in.u64(aScratch+0x40+32)
	} else {
		info.StatErr = errno
	}
	if info.Ftype == 4 {
		in.mem.WriteUint32Le(aScratch+0x100, aScratch+0x200)
		in.mem.WriteUint32Le(aScratch+0x104, 64)
		if errno = in.wcall("fd_pread", uint64(uint32(fd)), aScratch+0x100, 1, 0, aScratch+0x110); errno == 0 {
			n := in.u32(aScratch + 0x110)
			if n > 64 {
				n = 64
			}
			h, _ := in.mem.Read(aScratch+0x200, n)
			info.Head = string(h)
		} else {
			info.Head = "errno:" + wasip1.ErrnoName(errno)
		}
	}
	return true, info
}

var (
	reFrame = regexp.MustCompile(`github\.com/tetratelabs/wazero/(?:imports|internal|experimental)[\w/\-]*\.([\w.()*\[\]]+)\(`)
	reGoErr = regexp.MustCompile(`^(runtime error: )?([a-z ]+?)( \[|:| with|$)`)
)

// runtimeErrorCause names the failing operation and the first wazero frame below the panic.
func runtimeErrorCause(text string) (kind, frame string) {
	first := text
	if i := strings.IndexByte(first, '\n'); i >= 0 {
		first = first[:i]
	}
	first = strings.TrimSuffix(first, " (recovered by wazero)")
	kind = first
	if m := reGoErr.FindStringSubmatch(first); m != nil {
		kind = m[2]
	}
	switch {
	case strings.Contains(first, "nil pointer"):
		kind = "nil-dereference"
	case strings.Contains(first, "slice bounds"):
		kind = "slice-bounds-out-of-range"
	case strings.Contains(first, "makeslice"):
		kind = "makeslice"
	}
	kind = strings.ReplaceAll(strings.TrimSpace(kind), " ", "-")
	rest := text
	if i := strings.Index(rest, "\npanic("); i >= 0 {
		rest = rest[i:]
	}
	for _, m := range reFrame.FindAllStringSubmatch(rest, -1) {
		if strings.Contains(m[0], "wasmdebug") || strings.Contains(m[0], "/engine/") {
			continue
		}
		frame = m[1]
		break
	}
	return
}

func (r *runner) addFinding(sig, detail string, f *fnSpec, args []uint64, extra map[string]any) {
	call := callSpec{Fn: f.name, Args: append([]uint64(nil), args...)}
	text := fmtArgs(f, pnames[f.name], args)
	if r.cur != nil && r.cur.Fn == f.name {
		call.Patch, call.Note = r.cur.Patch, r.cur.Note
		if r.cur.Note != "" {
			text += " with " + r.cur.Note
		}
	}
	var prefix []callSpec
	if n := len(r.in.hist); n > 1 {
		prefix = r.in.hist[:n-1]
	}
	if f == historyEnd {
		call, prefix = callSpec{Fn: "sched_yield", Args: []uint64{}}, r.in.hist
	}
	r.addFindingAt(sig, detail, call, text, prefix, extra)
}

// addFindingAt records a finding whose witness is: the case's state, then
// prefix on one instance, then call.
func (r *runner) addFindingAt(sig, detail string, call callSpec, text string, prefix []callSpec, extra map[string]any) {
	for _, x := range r.res.Findings {
		if x.Sig == sig {
			return
		}
	}
	fd := finding{Sig: sig, Detail: detail, Call: call, Text: text, Extra: extra}
	if len(prefix) > 0 {
		fd.Prefix = append([]callSpec(nil), prefix...)
	}
	r.res.Findings = append(r.res.Findings, fd)
}

// overflowArg names a count/length parameter whose byte size no longer fits 32 bits.
func overflowArg(f *fnSpec, args []uint64) string {
	for i, ro := range f.roles {
		if el := ro.elem(); el > 1 && uint64(uint32(args[i]))*el >= 1<<32 {
			return pname(f, i) + "-overflow"
		}
	}
	return ""
}

func pname(f *fnSpec, i int) string {
	n := fmt.Sprintf("p%d", i)
	if ns := pnames[f.name]; i < len(ns) {
		n = strings.TrimPrefix(ns[i], "result.")
	}
	return n
}

// lenClass describes the length/count parameters of the output regions (part of
// a stray-write signature: "ri_data_len-zero:").
func lenClass(f *fnSpec, args []uint64, e *genEnv) string {
	var sb strings.Builder
	names := map[byte]string{'0': "zero", 'v': "fits", 'e': "fits", 'o': "exceeds-memory", 'X': "overflows-32-bits"}
	seen := map[int]bool{}
	for _, ro := range f.roles {
		if (ro.k == kBufOut || ro.k == kIovsOut || ro.k == kEvents) && !seen[ro.lenArg] {
			seen[ro.lenArg] = true
			sb.WriteString(pname(f, ro.lenArg) + "-" + names[f.roles[ro.lenArg].bucket(args[ro.lenArg], args, e)] + ":")
		}
	}
	return sb.String()
}

// hugeArg explains an out-of-proportion allocation by the argument that asks for it.
func hugeArg(f *fnSpec, args []uint64) string {
	for i, ro := range f.roles {
		v := uint64(uint32(args[i]))
		if ro.k == kFdTo && v >= 1<<16 && int32(v) > 0 {
			return "huge-target"
		}
	}
	for i, ro := range f.roles {
		v := uint64(uint32(args[i]))
		if ro.k == kFd && v >= 1<<16 && int32(v) > 0 {
			return "huge-" + pname(f, i)
		}
	}
	for i, ro := range f.roles {
		if ro.elem() > 0 && uint64(uint32(args[i])) >= 1<<16 {
			return "huge-" + pname(f, i)
		}
	}
	for i, ro := range f.roles {
		if ro.wantI64() && args[i] >= 1<<16 {
			return "huge-" + pname(f, i)
		}
	}
	return "unexplained"
}

// doCall performs one hostile call under all four monitors.
func (r *runner) doCall(f *fnSpec, args []uint64) {
	in := r.in
	res := r.res
	if r.cur != nil && r.cur.Fn == f.name {
		in.hist = append(in.hist, *r.cur)
	} else {
		in.hist = append(in.hist, callSpec{Fn: f.name, Args: args})
	}
	before := r.image()
	if (r.cs.Mount == mtDir || r.cs.Mount == mtSock) && f.dirties() {
		r.dirty = true
	}
	in.mem.Write(0, before)
	allowed := f.allowedWrites(args, before, &r.e)
	fn := in.fn(f.name)

	runtime.ReadMemStats(&memStat[0])
	out, err := fn.Call(bgCtx, args...)
	runtime.ReadMemStats(&memStat[1])

	res.Calls++
	res.PerFn[f.name]++
	if r.cur != nil && r.cur.Shape != "" {
		res.Buckets[f.name+"|"+f.bucketKey(args, &r.e)+"|"+r.cur.Shape]++
		res.Structured++
	} else {
		res.Buckets[f.name+"|"+f.bucketKey(args, &r.e)]++
	}

	// (1) outcome class
	outcome := ""
	errno := uint32(0xffff)
	switch {
	case err == nil:
		if f.name == "proc_exit" {
			outcome = "returned"
			r.addFinding("proc_exit:returned-to-guest", "proc_exit returned normally", f, args, nil)
		} else if len(out) != 1 {
			outcome = "no-result"
			r.addFinding(f.name+":no-errno-result", fmt.Sprintf("results=%v", out), f, args, nil)
		} else if errno = uint32(out[0]); out[0] > 76 {
			outcome = "not-errno"
			r.addFinding(f.name+":result-not-an-errno", fmt.Sprintf("result=%#x", out[0]), f, args, nil)
		} else {
			outcome = wasip1.ErrnoName(errno)
			if errno == 0 {
				outcome = "ESUCCESS"
			}
		}
	default:
		var ee *sys.ExitError
		var re runtime.Error
		text := err.Error()
		switch {
		case errors.As(err, &ee):
			outcome = "exit"
			if f.name != "proc_exit" {
				r.addFinding(f.name+":unexpected-exit", text, f, args, nil)
			} else if ee.ExitCode() != uint32(args[0]) {
				r.addFinding("proc_exit:wrong-exit-code", fmt.Sprintf("exit code %d for rval %d", ee.ExitCode(), uint32(args[0])), f, args, nil)
			}
			in.closed = true
		case errors.As(err, &re) || (strings.Contains(text, "recovered by wazero") && strings.Contains(text, "runtime error")):
			outcome = "go-runtime-error"
			kind, frame := runtimeErrorCause(text)
			// a wrapped count explains an index/slice/makeslice error, nothing else
			cause := ""
			if strings.Contains(kind, "out-of-range") || kind == "makeslice" {
				cause = overflowArg(f, args)
			}
			if cause == "" {
				cause = kind + "@" + frame
			}
			r.addFinding(f.name+":"+cause+":go-runtime-error", core.Trunc(text, 1500), f, args,
				map[string]any{"go_error": kind, "frame": frame})
		case strings.Contains(text, "recovered by wazero"):
			outcome = "host-panic"
			first := strings.SplitN(text, "\n", 2)[0]
			r.addFinding(f.name+":host-panic:"+strings.ReplaceAll(core.Trunc(first, 60), " ", "-"), core.Trunc(text, 1500), f, args, nil)
		default:
			// a wasm trap (wasm error: ...) is a documented way for a guest call to end
			first := strings.SplitN(text, "\n", 2)[0]
			outcome = "trap:" + core.Trunc(first, 60)
		}
	}
	res.Outcome[outcome]++

	// (2) guest memory: whole-memory diff against the allowed write set
	if after, ok := in.mem.Read(0, uint32(len(before))); ok {
		res.MemChecks++
		if lo, hi, ok := strayWrites(before, after, allowed); !ok {
			cls := "on-error"
			if errno == 0 {
				cls = "on-success"
			}
			r.addFinding(f.name+":stray-write:"+lenClass(f, args, &r.e)+cls, fmt.Sprintf("bytes [%#x,%#x) of guest memory (size %#x) changed outside the allowed write set %v: before %x after %x; outcome %s",
				lo, hi, len(before), fmtIntervals(allowed), before[lo:hi], after[lo:hi], outcome), f, args,
				map[string]any{"allowed": fmtIntervals(allowed), "stray": [2]int{lo, hi}})
		} else if len(allowed) > 0 && string(after) != string(before) {
			res.MemWritten++
		}
	} else if !in.closed {
		r.addFinding(f.name+":memory-unreadable", "guest memory could not be read back after the call", f, args, nil)
	}

	// (4) host allocation during the call
	res.AllocChecks++
	limit := 4*r.e.size + 1<<20
	dAlloc := memStat[1].TotalAlloc - memStat[0].TotalAlloc
	dSys := uint64(0)
	if memStat[1].Sys > memStat[0].Sys {
		dSys = memStat[1].Sys - memStat[0].Sys
	}
	if dAlloc > res.MaxAlloc {
		res.MaxAlloc = dAlloc
		res.MaxAllocCall = fmtArgs(f, pnames[f.name], args)
	}
	if dSys > res.MaxSys {
		res.MaxSys = dSys
	}
	big, skipShadow := false, false
	if dAlloc > limit {
		big = true
		r.addFinding(f.name+":"+hugeArg(f, args)+":host-allocation",
			fmt.Sprintf("TotalAlloc grew by %d bytes and Sys by %d bytes during the call; guest memory is %d bytes (limit 4x+1MiB = %d); outcome %s", dAlloc, dSys, r.e.size, limit, outcome),
			f, args, map[string]any{"total_alloc_delta": dAlloc, "sys_delta": dSys, "limit": limit})
	} else if dSys > limit {
		// the Go heap grows in 4 MiB steps whenever it needs pages, also for the
		// harness's own garbage: only a growth that repeats on a collected heap counts
		res.SysSuspects++
		hist := in.hist
		if r.confirmSys(f, args, limit) {
			r.in.hist = hist
			r.addFinding(f.name+":"+hugeArg(f, args)+":host-allocation:off-heap",
				fmt.Sprintf("Sys grew by %d bytes (TotalAlloc %d) during the call, reproduced after a forced GC; limit %d", dSys, dAlloc, limit), f, args, nil)
		}
		big, skipShadow = true, true // the instance was replaced by the confirmation run
	}

	// (3) shadow descriptor table
	if in.closed || skipShadow {
		// proc_exit closed the module (or the instance was used up): start over
		if err := r.instantiate(); err != nil {
			res.Setup = "re-instantiate: " + err.Error()
		}
	} else {
		r.shadowCheck(f, args, errno, false)
		if big {
			// do not keep a gigabyte-sized descriptor table around
			if err := r.instantiate(); err != nil {
				res.Setup = "re-instantiate: " + err.Error()
			}
			debug.FreeOSMemory()
		}
	}
}

// confirmSys repeats a call on a fresh instance after a forced collection and
// says whether Sys grew beyond the limit again.
func (r *runner) confirmSys(f *fnSpec, args []uint64, limit uint64) bool {
	if err := r.instantiate(); err != nil {
		return false
	}
	in := r.in
	in.mem.Write(0, r.image())
	fn := in.fn(f.name)
	runtime.GC()
	runtime.ReadMemStats(&memStat[0])
	fn.Call(bgCtx, args...)
	runtime.ReadMemStats(&memStat[1])
	return memStat[1].Sys > memStat[0].Sys && memStat[1].Sys-memStat[0].Sys > limit
}

func fmtIntervals(iv []interval) string {
	var sb strings.Builder
	for i, v := range iv {
		if i > 6 {
			sb.WriteString(" …")
			break
		}
		fmt.Fprintf(&sb, " [%#x,%#x)", v.lo, v.hi)
	}
	return strings.TrimSpace(sb.String())
}

// shadowCheck updates the shadow table with what the call legitimately did and
// compares every descriptor with what the guest-visible API reports now.
func (r *runner) shadowCheck(f *fnSpec, args []uint64, errno uint32, full bool) {
	in := r.in
	res := r.res
	res.ShadowChecks++
	var extra []int32
	sameFd := false
	// what a descriptor-creating call told the guest (read before the probes use their scratch area)
	var created []int32
	reported, reportable := uint32(0), false
	if f.creates && errno == 0 {
		for i, ro := range f.roles {
			if ro.k == kPtrOut {
				reported, reportable = in.mem.ReadUint32Le(uint32(args[i]))
			}
		}
	}
	if errno == 0 {
		switch f.name {
		case "fd_close":
			if _, ok := in.shadow[int32(args[0])]; ok {
				delete(in.shadow, int32(args[0]))
				res.FdsClosed++
			}
		case "fd_renumber":
			from, to := int32(args[0]), int32(args[1])
			extra = append(extra, to)
			if from == to {
				sameFd = true // a no-op in every reasonable reading of the docs
			} else if e, ok := in.shadow[from]; ok {
				in.shadow[to] = e
				delete(in.shadow, from)
				res.FdsMoved++
			}
		}
	}
	if f.mutating && !full && len(in.shadow) > bigTable {
		// only a window of a big table is probed after this call: the other
		// descriptors of the files it may have changed are re-baselined when
		// they are probed next
		for fd, e := range in.shadow {
			if e.Ftype == 4 {
				e.stale = true
				in.shadow[fd] = e
			}
		}
	}
	for i, ro := range f.roles {
		if v := uint32(args[i]); (ro.k == kFd || ro.k == kFdTo) && v < 1<<16 {
			extra = append(extra, int32(v)) // the descriptors the call named
		}
	}
	for _, fd := range r.scanSet(extra, full) {
		want, tracked := in.shadow[fd]
		present, got := r.probe(fd)
		symptom := ""
		switch {
		case tracked && !present:
			symptom = "gone"
		case !tracked && present:
			if f.creates && errno == 0 {
				// a successful path_open / sock_accept hands out a new descriptor
				in.shadow[fd] = got
				res.FdsOpened++
				created = append(created, fd)
				continue
			}
			// nothing else may add a descriptor — in particular not a call that failed
			symptom = "appeared"
			if f.creates {
				symptom = "added-by-failing-call-" + wasip1.ErrnoName(errno)
			}
		case !tracked:
			continue
		case got.StatErr != 0 && want.StatErr == 0:
			symptom = "stat-fails-" + wasip1.ErrnoName(got.StatErr)
		case got.Ftype != want.Ftype:
			symptom = "filetype-changed"
		case got.Dev != want.Dev || got.Ino != want.Ino:
			symptom = "refers-to-another-file"
		case got.Ftype == 4 && !f.mutating && !want.stale && (got.Size != want.Size || got.Head != want.Head):
			symptom = "content-changed"
		}
		if symptom == "" {
			got.Preopen = want.Preopen
			in.shadow[fd] = got // re-baseline size/content after mutating calls
			continue
		}
		cls := "unknown"
		if tracked {
			cls = want.class(fd)
		} else {
			cls = got.class(fd)
		}
		sig := fmt.Sprintf("%s:fdtable:%s-%s", f.name, cls, symptom)
		if sameFd && len(args) > 0 && fd == int32(args[0]) {
			sig = "fd_renumber:same-fd:closes-file"
		}
		r.addFinding(sig, fmt.Sprintf("after %s (errno %d) descriptor %d: shadow table says %+v (tracked=%v), the guest-visible API says %+v (present=%v); state %s, mount %s",
			fmtArgs(f, pnames[f.name], args), errno, fd, want, tracked, got, present, stateNames[r.cs.State], mountNames[r.cs.Mount]), f, args,
			map[string]any{"fd": fd, "shadow": want, "observed": got, "present": present})
		// resynchronise so that one defect is reported once
		if present {
			got.Preopen = want.Preopen
			in.shadow[fd] = got
		} else {
			delete(in.shadow, fd)
		}
	}
	// a successful creating call must have told the guest the number of the
	// descriptor it added: an entry the guest cannot know is a leak in the table
	if len(created) > 0 {
		res.CreatedJudged++
		told := false
		for _, fd := range created {
			if reportable && uint32(fd) == reported {
				told = true
			}
		}
		if !reportable {
			r.addFinding(f.name+":fdtable:new-descriptor-not-reported:result-pointer-out-of-range",
				fmt.Sprintf("%s returned success and added descriptor(s) %v to the table, but the result pointer cannot hold 4 bytes, so nothing was written: the guest cannot know or close the descriptor; state %s, mount %s",
					fmtArgs(f, pnames[f.name], args), created, stateNames[r.cs.State], mountNames[r.cs.Mount]), f, args, map[string]any{"added": created})
		} else if !told {
			r.addFinding(f.name+":fdtable:new-descriptor-not-reported:wrong-number",
				fmt.Sprintf("%s returned success and added descriptor(s) %v to the table, but wrote %d to the result pointer; state %s, mount %s",
					fmtArgs(f, pnames[f.name], args), created, reported, stateNames[r.cs.State], mountNames[r.cs.Mount]), f, args, map[string]any{"added": created, "reported": reported})
		}
	}
}

// ---------------------------------------------------------------------------
// case execution

func runCase(cs *caseSpec) *caseResult {
	res := &caseResult{PerFn: map[string]int{}, Outcome: map[string]int{}, Buckets: map[string]int{}}
	if cs.Pages < 1 || cs.Pages > 2 || cs.ArgsV < 0 || cs.ArgsV >= len(argsVariants) {
		res.Setup = "bad case"
		return res
	}
	r := &runner{cs: cs, res: res, rt: getRT(cs.Compiler)}
	r.e = genEnv{size: uint64(cs.Pages) * 65536, av: &argsVariants[cs.ArgsV]}
	end := endNone
	var fixed *fnSpec
	if cs.Fn != "" {
		fixed = tableByName[cs.Fn]
		if fixed == nil {
			res.Setup = "unknown function " + cs.Fn
			return res
		}
		end = fixed.end
	} else {
		end = endNone + 1 + int(cs.Seed%3)
	}
	r.tmpl = buildTemplate(int(r.e.size), end)
	if err := r.makeTree(); err != nil {
		res.Setup = "tree: " + err.Error()
		return res
	}
	defer os.RemoveAll(r.dir)

	calls := expandCalls(cs, &r.e)
	if cs.Listing {
		res.List = calls
	}
	chunk := 8
	if fixed != nil {
		chunk = fixed.chunk
	} else {
		chunk = 1 << 30 // one history
	}
	for i, c := range calls {
		f := tableByName[c.Fn]
		if f == nil || len(c.Args) != len(f.roles) {
			res.Setup = "bad call " + c.Fn
			continue
		}
		if r.in == nil || i%chunk == 0 {
			if err := r.instantiate(); err != nil {
				res.Setup = "instantiate: " + err.Error()
				return res
			}
		}
		cc := c
		r.cur = &cc
		r.doCall(f, c.Args)
	}
	if len(calls) > 0 {
		c := calls[len(calls)/2]
		res.Sample = fmtArgs(tableByName[c.Fn], pnames[c.Fn], c.Args)
	}
	r.endInstance()
	return res
}

// expandCalls regenerates the concrete calls of a case (same code in parent and child).
func expandCalls(cs *caseSpec, e *genEnv) []callSpec {
	fixed := tableByName[cs.Fn]
	var calls []callSpec
	switch cs.Gen {
	case "explicit":
		calls = cs.Explicit
	case "product":
		vs := valueSets(fixed, e)
		for i := cs.Lo; i < cs.Hi && i < productCount(vs); i++ {
			calls = append(calls, callSpec{Fn: fixed.name, Args: productTuple(vs, i)})
		}
	case "pairs":
		vs := valueSets(fixed, e)
		all := pairTuples(fixed, vs, cs.Seed)
		for i := cs.Lo; i < cs.Hi && i < len(all); i++ {
			calls = append(calls, callSpec{Fn: fixed.name, Args: all[i]})
		}
	case "prng":
		vs := valueSets(fixed, e)
		rng := core.NewRng(int64(cs.Seed), 151)
		for i := 0; i < cs.Hi; i++ {
			calls = append(calls, callSpec{Fn: fixed.name, Args: prngTuple(fixed, vs, rng, 30, false)})
		}
	case "mix":
		rng := core.NewRng(int64(cs.Seed), 152)
		for i := 0; i < cs.Hi; i++ {
			f := &table[rng.Intn(len(table))]
			if f.name == "proc_exit" && !rng.Chance(1, 20) {
				f = tableByName["fd_renumber"]
			}
			calls = append(calls, callSpec{Fn: f.name, Args: prngTuple(f, valueSets(f, e), rng, 55, true)})
		}
	case "pollstruct":
		rng := core.NewRng(int64(cs.Seed), 153)
		for i := 0; i < cs.Hi; i++ {
			calls = append(calls, structuredPoll(rng, e))
		}
	}
	return calls
}

func child(mode string, in json.RawMessage) any {
	var cs caseSpec
	if err := json.Unmarshal(in, &cs); err != nil {
		return &caseResult{Setup: "bad case json: " + err.Error()}
	}
	return runCase(&cs)
}

var _ = binary.LittleEndian
