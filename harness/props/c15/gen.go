package c15

import (
	"encoding/binary"
	"fmt"
	"hash/fnv"
	"sort"
	"strings"

	"github.com/tetratelabs/wazero/verifharness/core"
)

// Tuple generators. Parent and child run the same deterministic code: a case
// names a generator and an index range, the child regenerates the tuples (the
// case list of the thorough tier would otherwise be hundreds of megabytes).

func valueSets(f *fnSpec, e *genEnv) [][]uint64 {
	vs := make([][]uint64, len(f.roles))
	for i, r := range f.roles {
		vs[i] = r.values(e)
	}
	return vs
}

// productCount is the size of the full cross product of the value sets.
func productCount(vs [][]uint64) int {
	n := 1
	for _, v := range vs {
		n *= len(v)
	}
	return n
}

// productTuple decodes index idx of the cross product (last role fastest).
func productTuple(vs [][]uint64, idx int) []uint64 {
	t := make([]uint64, len(vs))
	for i := len(vs) - 1; i >= 0; i-- {
		t[i] = vs[i][idx%len(vs[i])]
		idx /= len(vs[i])
	}
	return t
}

func nameHash(s string) uint64 {
	h := fnv.New64a()
	h.Write([]byte(s))
	return h.Sum64()
}

// pairTuples covers every pair of values of every pair of roles twice: once
// with all other parameters well-formed (so that the call reaches the code
// behind the pair), once with the others drawn at random from their sets.
func pairTuples(f *fnSpec, vs [][]uint64, seed uint64) [][]uint64 {
	r := core.NewRng(int64(seed^nameHash(f.name)), 15)
	var out [][]uint64
	for a := 0; a < len(vs); a++ {
		for b := a + 1; b < len(vs); b++ {
			for _, va := range vs[a] {
				for _, vb := range vs[b] {
					for pass := 0; pass < 2; pass++ {
						t := make([]uint64, len(vs))
						for i := range t {
							switch {
							case i == a:
								t[i] = va
							case i == b:
								t[i] = vb
							case pass == 0:
								t[i] = f.roles[i].nice
								if len(vs[i]) > 0 {
									t[i] = vs[i][0]
								}
							default:
								t[i] = vs[i][r.Intn(len(vs[i]))]
							}
						}
						out = append(out, t)
					}
				}
			}
		}
	}
	return out
}

// prngTuple draws one tuple: mostly set members (with a bias to well-formed
// values so that calls get deep), otherwise edge-biased random integers or
// small perturbations of set members (size±k, etc.). tame keeps renumber targets
// at 2^20 (mixed histories must not die half-way).
func prngTuple(f *fnSpec, vs [][]uint64, r *core.Rng, niceBias int, tame bool) []uint64 {
	t := make([]uint64, len(vs))
	for i := range t {
		ro := f.roles[i]
		switch x := r.Intn(100); {
		case x < niceBias:
			t[i] = vs[i][0]
		case x < niceBias+(100-niceBias)*6/10:
			t[i] = vs[i][r.Intn(len(vs[i]))]
		case x < niceBias+(100-niceBias)*8/10:
			d := uint64(r.Intn(17)) - 8
			t[i] = vs[i][r.Intn(len(vs[i]))] + d
		default:
			if ro.wantI64() {
				t[i] = r.I64()
			} else {
				t[i] = uint64(r.I32())
			}
		}
		if !ro.wantI64() {
			t[i] = uint64(uint32(t[i]))
		}
		// a renumber target in [2^28, 2^31) asks the host for 2–16 GiB; the
		// three set members 2^20, 2^27 and 2^31-1 represent that class, random
		// draws stay below so that the run does not spend its time zeroing memory
		if ro.k == kFdTo && t[i] >= 1<<21 && t[i] < 1<<31 && (tame || (t[i] != 1<<27 && t[i] != 1<<31-1)) {
			t[i] = 1 << 20
		}
	}
	return t
}

// structuredPoll builds one poll_oneoff call with 1-6 well-formed
// subscriptions (clock relative/absolute, fd_read, fd_write on descriptors of
// every class) written into guest memory, with the in/out arrays and the
// nevents cell placed normally, overlapping each other, or at the end of memory.
func structuredPoll(r *core.Rng, e *genEnv) callSpec {
	S := uint32(e.size)
	n := 1 + r.Intn(6)
	subs := make([]byte, 48*n)
	var note, shape strings.Builder
	pickFd := func() (uint32, byte) {
		switch x := r.Intn(100); {
		case x < 30:
			return uint32(r.Intn(3)), 's'
		case x < 45:
			return 3, 'p'
		case x < 75:
			return uint32(4 + r.Intn(5)), 'm'
		case x < 85:
			return []uint32{9, 10, 12, 13}[r.Intn(4)], 'm'
		case x < 88:
			return 77, 'b'
		case x < 95:
			return []uint32{1 << 20, 1<<31 - 1, 1 << 16}[r.Intn(3)], 'h'
		default:
			return 0xffffffff, 'n'
		}
	}
	for i := 0; i < n; i++ {
		b := subs[48*i : 48*i+48]
		binary.LittleEndian.PutUint64(b, 0x0101010101010101*uint64(i+1))
		switch x := r.Intn(100); {
		case x < 22: // relative clock, small timeout (the default nanosleep is a fake)
			to := []uint64{0, 1, 1000, 1000000}[r.Intn(4)]
			b[8] = 0
			binary.LittleEndian.PutUint32(b[16:], uint32(r.Intn(2)))
			binary.LittleEndian.PutUint64(b[24:], to)
			fmt.Fprintf(&note, "clock(rel,%d) ", to)
			shape.WriteByte('c')
		case x < 30: // absolute clock
			b[8] = 0
			binary.LittleEndian.PutUint64(b[24:], 5)
			binary.LittleEndian.PutUint16(b[40:], 1)
			note.WriteString("clock(abs) ")
			shape.WriteByte('a')
		case x < 32: // undefined clock flags
			b[8] = 0
			binary.LittleEndian.PutUint16(b[40:], 2)
			note.WriteString("clock(flags=2) ")
			shape.WriteByte('x')
		case x < 72:
			fd, cl := pickFd()
			b[8] = 1
			binary.LittleEndian.PutUint32(b[16:], fd)
			fmt.Fprintf(&note, "fd_read(%d) ", int32(fd))
			shape.WriteByte('r')
			shape.WriteByte(cl)
		case x < 98:
			fd, cl := pickFd()
			b[8] = 2
			binary.LittleEndian.PutUint32(b[16:], fd)
			fmt.Fprintf(&note, "fd_write(%d) ", int32(fd))
			shape.WriteByte('w')
			shape.WriteByte(cl)
		default:
			b[8] = 7
			note.WriteString("tag(7) ")
			shape.WriteByte('t')
		}
	}
	m := uint32(n)
	switch x := r.Intn(100); {
	case x < 7 && n > 1:
		m = uint32(n - 1)
	case x < 14:
		m = uint32(n + 1)
	case x < 16:
		m = 0
	}
	pi, po, pn := 0, 0, 0
	if r.Chance(1, 2) {
		pi, po, pn = r.Intn(4), r.Intn(7), r.Intn(5)
	}
	in := uint32(0x2000)
	switch pi {
	case 1:
		in = S - uint32(48*n) // ends exactly at the end of memory
	case 2:
		in = S - uint32(48*n) + 8 // straddles the end
	case 3:
		in = 0x2001
	}
	out := uint32(aOut)
	switch po {
	case 1:
		out = in // the two arrays coincide
	case 2:
		out = in + 16
	case 3:
		out = in - 32
	case 4:
		out = S - 32*m
	case 5:
		out = S - 32*m + 4
	case 6:
		out = in + uint32(48*n)
	}
	nev := uint32(aOut2)
	switch pn {
	case 1:
		nev = S - 4
	case 2:
		nev = out + 8
	case 3:
		nev = in + 16
	case 4:
		nev = S - 2
	}
	data := subs
	if in < S && uint64(in)+uint64(len(data)) > uint64(S) {
		data = data[:S-in]
	}
	c := callSpec{Fn: "poll_oneoff", Args: []uint64{uint64(in), uint64(out), uint64(m), uint64(nev)}}
	if in < S {
		c.Patch = []memPatch{{At: in, Data: data}}
	}
	c.Note = fmt.Sprintf("subscriptions=[%s] placement in/out/nevents=%d/%d/%d", strings.TrimSpace(note.String()), pi, po, pn)
	// coarse class: the set of subscription kinds (with descriptor class) + placement
	toks := map[string]bool{}
	sh := shape.String()
	for i := 0; i < len(sh); i++ {
		t := sh[i : i+1]
		if sh[i] == 'r' || sh[i] == 'w' {
			t = sh[i : i+2]
			i++
		}
		toks[t] = true
	}
	var tl []string
	for t := range toks {
		tl = append(tl, t)
	}
	sort.Strings(tl)
	c.Shape = fmt.Sprintf("%s/%d%d%d", strings.Join(tl, ","), pi, po, pn)
	return c
}
