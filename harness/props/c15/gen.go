package c15

import (
	"hash/fnv"

	"github.com/tetratelabs/wazero/verifharness/core"
)

// Tuple generators. Parent and child run the same deterministic code: a case
// names a generator and an index range, the child regenerates the tuples (the
// case list of the thorough tier would otherwise be hundreds of megabytes).

func valueSets(f *fnSpec, e *genEnv) [][]uint64 {
	vs := make([][]uint64, len(f.roles))
	for i, r := range f.roles {
		vs[i] = r.values(e)
	}
	return vs
}

// productCount is the size of the full cross product of the value sets.
func productCount(vs [][]uint64) int {
	n := 1
	for _, v := range vs {
		n *= len(v)
	}
	return n
}

// productTuple decodes index idx of the cross product (last role fastest).
func productTuple(vs [][]uint64, idx int) []uint64 {
	t := make([]uint64, len(vs))
	for i := len(vs) - 1; i >= 0; i-- {
		t[i] = vs[i][idx%len(vs[i])]
		idx /= len(vs[i])
	}
	return t
}

func nameHash(s string) uint64 {
	h := fnv.New64a()
	h.Write([]byte(s))
	return h.Sum64()
}

// pairTuples covers every pair of values of every pair of roles twice: once
// with all other parameters well-formed (so that the call reaches the code
// behind the pair), once with the others drawn at random from their sets.
func pairTuples(f *fnSpec, vs [][]uint64, seed uint64) [][]uint64 {
	r := core.NewRng(int64(seed^nameHash(f.name)), 15)
	var out [][]uint64
	for a := 0; a < len(vs); a++ {
		for b := a + 1; b < len(vs); b++ {
			for _, va := range vs[a] {
				for _, vb := range vs[b] {
					for pass := 0; pass < 2; pass++ {
						t := make([]uint64, len(vs))
						for i := range t {
							switch {
							case i == a:
								t[i] = va
							case i == b:
								t[i] = vb
							case pass == 0:
								t[i] = f.roles[i].nice
								if len(vs[i]) > 0 {
									t[i] = vs[i][0]
								}
							default:
								t[i] = vs[i][r.Intn(len(vs[i]))]
							}
						}
						out = append(out, t)
					}
				}
			}
		}
	}
	return out
}

// prngTuple draws one tuple: mostly set members (with a bias to well-formed
// values so that calls get deep), otherwise edge-biased random integers or
// small perturbations of set members (size±k, etc.). tame keeps renumber targets
// at 2^20 (mixed histories must not die half-way).
func prngTuple(f *fnSpec, vs [][]uint64, r *core.Rng, niceBias int, tame bool) []uint64 {
	t := make([]uint64, len(vs))
	for i := range t {
		ro := f.roles[i]
		switch x := r.Intn(100); {
		case x < niceBias:
			t[i] = vs[i][0]
		case x < niceBias+(100-niceBias)*6/10:
			t[i] = vs[i][r.Intn(len(vs[i]))]
		case x < niceBias+(100-niceBias)*8/10:
			d := uint64(r.Intn(17)) - 8
			t[i] = vs[i][r.Intn(len(vs[i]))] + d
		default:
			if ro.wantI64() {
				t[i] = r.I64()
			} else {
				t[i] = uint64(r.I32())
			}
		}
		if !ro.wantI64() {
			t[i] = uint64(uint32(t[i]))
		}
		// a renumber target in [2^28, 2^31) asks the host for 2–16 GiB; the
		// three set members 2^20, 2^27 and 2^31-1 represent that class, random
		// draws stay below so that the run does not spend its time zeroing memory
		if ro.k == kFdTo && t[i] >= 1<<21 && t[i] < 1<<31 && (tame || (t[i] != 1<<27 && t[i] != 1<<31-1)) {
			t[i] = 1 << 20
		}
	}
	return t
}
