// Package c15 decides C15 (WASI calls are safe for any argument values).
//
// Every function of wazero's wasi_snapshot_preview1 host module is called as
// a guest (through the wasiproxy pass-through module) with hostile argument
// tuples drawn from per-role boundary sets (roles.go): the full cross product
// for functions with at most three parameters, all value pairs plus PRNG
// tuples beyond, PRNG histories mixing all functions, and structured
// poll_oneoff calls (well-formed subscription arrays on descriptors of every
// class, in/out arrays placed normally, overlapping and at the end of memory)
// — in eleven descriptor-table states (files open, renumbered, closed,
// pre-open closed, each standard stream closed / all closed / stdin replaced
// by a file), five mount/socket configurations, three stdio
// configurations, 1- and 2-page memories, interpreter (all) and compiler
// (sample). Four monitors decide every single call (child.go):
//
//  1. outcome class: errno / ExitError of proc_exit / wasm trap are fine, a
//     recovered Go runtime error, a host panic or the death of the child is not;
//  2. byte diff of the whole guest memory against the allowed write set
//     computed from the arguments (DESIGN.md Appendix A);
//  3. shadow descriptor table: every descriptor 0..15, 63..65 and every
//     tracked one is re-probed through fd_fdstat_get / fd_filestat_get /
//     fd_pread after each call and must be what the shadow table says;
//  4. runtime.MemStats TotalAlloc (and confirmed Sys) growth during the call
//     must stay within 4 x guest memory + 1 MiB.
package c15

import (
	"encoding/json"
	"fmt"
	"os"
	"path/filepath"
	"sort"
	"strconv"
	"strings"
	"time"

	"github.com/tetratelabs/wazero/api"
	"github.com/tetratelabs/wazero/verifharness/core"
	"github.com/tetratelabs/wazero/verifharness/wasiproxy"
)

var Prop = &core.Prop{ID: "C15", Run: run, Child: child, Replay: replay}

// Address-space limits of the children. fd_renumber cases get 6 GiB (a 2^27
// target is a 1 GiB table that is measured in-process, 2^31-1 is 16 GiB and a
// clean fatal error) and run four at a time; everything else gets 2 GiB, so
// that even a tree on which every child runs away cannot exhaust the machine.
const (
	rlimitHeavy = 6 << 30
	rlimitLight = 2 << 30
)

// parallelism can be lowered for experiments on a busy machine (C15_PAR=n)
func par(n int) int {
	if v, err := strconv.Atoi(os.Getenv("C15_PAR")); err == nil && v > 0 && v < n {
		return v
	}
	return n
}

// checkTable cross-checks the role table against the host module.
func checkTable(sigs []wasiproxy.Sig) (problems []string) {
	seen := map[string]bool{}
	for _, s := range sigs {
		seen[s.Name] = true
		f := tableByName[s.Name]
		if f == nil {
			problems = append(problems, "no role table entry for exported function "+s.Name)
			continue
		}
		if len(f.roles) != len(s.Params) {
			problems = append(problems, fmt.Sprintf("%s: %d roles for %d parameters", s.Name, len(f.roles), len(s.Params)))
			continue
		}
		for i, r := range f.roles {
			if r.wantI64() != (s.Params[i] == api.ValueTypeI64) {
				problems = append(problems, fmt.Sprintf("%s: parameter %d value type does not fit its role", s.Name, i))
			}
			if r.k == kBufOut || r.k == kIovsOut || r.k == kIovsIn || r.k == kEvents || r.k == kSubs {
				if r.lenArg <= 0 || r.lenArg >= len(f.roles) || f.roles[r.lenArg].elem() == 0 {
					problems = append(problems, fmt.Sprintf("%s: parameter %d has no length parameter", s.Name, i))
				}
			}
		}
	}
	for _, f := range table {
		if !seen[f.name] {
			problems = append(problems, "role table entry for a function the host module does not export: "+f.name)
		}
	}
	return
}

type builder struct {
	c     *core.Ctx
	tmp   string
	ctr   int
	cases []caseSpec
}

// dims fills the configuration dimensions that are rotated rather than crossed.
func (b *builder) dims(cs *caseSpec) {
	n := b.ctr
	b.ctr++
	cs.Pages = 1 + n%2
	cs.Stdio = (n / 2) % 3
	cs.ArgsV = 1
	if (n/6)%4 == 3 {
		cs.ArgsV = 0
	}
	cs.Compiler = n%8 == 5
	cs.Tmp = b.tmp
}

type combo struct{ state, mount int }

// combos: thorough = every base state x every mount plus the stdio states x two
// mounts; quick = a diagonal through the state x mount square that rotates with
// the function and the seed, so that a quick run still sees every state and mount.
func (b *builder) combos(f *fnSpec, fi int) []combo {
	mounts := []int{mtDir, mtRODir, mtMapFS, mtDirFS}
	if f.sock {
		mounts = append(mounts, mtSock)
	}
	rot := fi + int(b.c.Seed)
	if rot < 0 {
		rot = -rot
	}
	var out []combo
	// poll_oneoff looks descriptors up twice (per subscription, then stdin for
	// the deferred ones): it runs in every state in both tiers
	everyState := f.name == "poll_oneoff"
	if !b.c.Quick() {
		for s := 0; s < nStates; s++ {
			switch {
			case s < nBaseStates || everyState:
				for _, m := range mounts {
					out = append(out, combo{s, m})
				}
			default: // stdio states: the writable mount and one rotating other
				out = append(out, combo{s, mtDir}, combo{s, mounts[1+(s+rot)%(len(mounts)-1)]})
			}
		}
		return out
	}
	if everyState {
		for s := 0; s < nStates; s++ {
			out = append(out, combo{s, mounts[(s+rot)%len(mounts)]})
		}
		return append(out, combo{stNoStdin, mtSock})
	}
	// six of the states, rotating with the function and the seed (the stride
	// is coprime to the number of states, so that the functions together use all)
	for k := 0; k < 6; k++ {
		out = append(out, combo{(rot + 5*k) % nStates, mounts[(k+rot)%len(mounts)]})
	}
	if f.sock { // the socket configuration is where sock_* get past EBADF
		out = append(out, combo{(rot + 1) % nStates, mtSock})
	}
	return out
}

func (b *builder) add(cs caseSpec) { b.cases = append(b.cases, cs) }

func run(c *core.Ctx) int {
	sigs := wasiproxy.Signatures()
	for _, s := range sigs {
		pnames[s.Name] = s.PNames
	}
	if problems := checkTable(sigs); len(problems) > 0 {
		for _, p := range problems {
			fmt.Println("BROKEN: role table:", p)
			c.Inconclusive("role-table-mismatch")
		}
		c.Finish(0, 0, "role table does not match the host module")
		return 2
	}
	os.RemoveAll(filepath.Join(c.Out, "children")) // logs of children that died in earlier runs
	tmp, err := os.MkdirTemp("", "c15-")
	if err != nil {
		fmt.Println("BROKEN:", err)
		return 2
	}
	defer os.RemoveAll(tmp)

	rng := core.NewRng(c.Seed, 15)
	b := &builder{c: c, tmp: tmp}
	perCase := 64
	nPrngSmall, nPrngBig := c.N(32, 192), c.N(96, 512)
	for fi := range table {
		f := &table[fi]
		for _, cb := range b.combos(f, fi) {
			base := caseSpec{Fn: f.name, State: cb.state, Mount: cb.mount}
			b.dims(&base)
			e := genEnv{size: uint64(base.Pages) * 65536, av: &argsVariants[base.ArgsV]}
			vs := valueSets(f, &e)
			per := perCase
			if f.chunk == 1 {
				per = 4 // a fresh instance per call anyway; small cases keep a child death cheap
			}
			if len(f.roles) <= 3 {
				total := productCount(vs)
				for lo := 0; lo < total; lo += per {
					cs := base
					cs.Gen, cs.Lo, cs.Hi = "product", lo, min(lo+per, total)
					b.add(cs)
				}
			} else {
				seed := rng.U64()
				total := len(pairTuples(f, vs, seed))
				for lo := 0; lo < total; lo += per {
					cs := base
					cs.Gen, cs.Lo, cs.Hi, cs.Seed = "pairs", lo, min(lo+per, total), seed
					b.add(cs)
				}
			}
			n := nPrngSmall
			if len(f.roles) > 3 {
				n = nPrngBig
			}
			if len(f.roles) > 0 {
				for done := 0; done < n; done += per {
					cs := base
					cs.Gen, cs.Hi, cs.Seed = "prng", min(per, n-done), rng.U64()
					b.add(cs)
				}
			}
		}
	}
	// mixed histories (no socket configuration: a history may make a socket
	// blocking and then read from it)
	nMix, mixLen := c.N(400, 8000), c.N(40, 60)
	for i := 0; i < nMix; i++ {
		cs := caseSpec{Gen: "mix", Hi: mixLen, Seed: rng.U64(), State: i % nStates, Mount: (i / nStates) % (nMounts - 1)}
		b.dims(&cs)
		b.add(cs)
	}

	// structured poll_oneoff: well-formed subscription arrays in every state x configuration
	nPoll := c.N(2, 12)
	for s := 0; s < nStates; s++ {
		for m := 0; m < nMounts; m++ {
			for k := 0; k < nPoll; k++ {
				cs := caseSpec{Fn: "poll_oneoff", Gen: "pollstruct", Hi: 48, Seed: rng.U64(), State: s, Mount: m}
				b.dims(&cs)
				b.add(cs)
			}
		}
	}

	// fd_renumber with huge targets really allocates (1 GiB for 2^27): those
	// cases run four at a time with a 6 GiB limit, everything else sixteen at a time
	var heavy, light []caseSpec
	for _, cs := range b.cases {
		isHeavy := false
		if cs.Fn == "fd_renumber" {
			e := genEnv{size: uint64(cs.Pages) * 65536, av: &argsVariants[cs.ArgsV]}
			for _, call := range expandCalls(&cs, &e) {
				if to := call.Args[1]; to >= 1<<21 && to < 1<<31 {
					isHeavy = true
				}
			}
		}
		if isHeavy {
			heavy = append(heavy, cs)
		} else {
			light = append(light, cs)
		}
	}
	st := &stats{c: c, byFn: map[string]map[string]int64{}, best: map[string]found{}, occ: map[string]int64{}}
	runGroup := func(group []caseSpec, npar int, rlimitAS uint64, label string) {
		raw := make([]json.RawMessage, len(group))
		for i := range group {
			raw[i] = core.J(group[i])
		}
		st.rlimit = rlimitAS
		t0 := time.Now()
		res := core.RunCases(c, "calls", raw, core.ChildOpts{Batch: 24, TimeoutS: 900, RlimitAS: rlimitAS, Par: npar})
		c.Extra("phase_"+label+"_s", time.Since(t0).Seconds())
		var crashed []caseSpec
		for i, r := range res {
			if st.handle(&group[i], r) {
				crashed = append(crashed, group[i])
			}
		}
		// isolate crashes: every call of a crashed case alone on a fresh instance
		if len(crashed) > 0 {
			var iso []caseSpec
			var owner []int
			for ci, cs := range crashed {
				e := genEnv{size: uint64(cs.Pages) * 65536, av: &argsVariants[cs.ArgsV]}
				if cs.Fn == "" {
					continue
				}
				for _, call := range expandCalls(&cs, &e) {
					one := cs
					one.Gen, one.Explicit, one.Lo, one.Hi = "explicit", []callSpec{call}, 0, 0
					iso = append(iso, one)
					owner = append(owner, ci)
				}
			}
			raw := make([]json.RawMessage, len(iso))
			for i := range iso {
				raw[i] = core.J(iso[i])
			}
			res := core.RunCases(c, "isolate", raw, core.ChildOpts{Batch: 8, TimeoutS: 300, RlimitAS: rlimitAS, Par: par(3)})
			reproduced := map[int]bool{}
			for i, r := range res {
				if r.Crash != nil && r.Crash.Kind != "timeout" {
					reproduced[owner[i]] = true
					st.crashViolation(&iso[i], r.Crash, true)
				} else {
					// the other calls of the chunk still count (they ran under the monitors now)
					st.handle(&iso[i], r)
				}
			}
			for ci := range crashed {
				if !reproduced[ci] {
					st.crashViolation(&crashed[ci], st.crashOf[caseKey(&crashed[ci])], false)
				}
			}
		}
	}
	runGroup(light, par(16), rlimitLight, "main")
	runGroup(heavy, par(4), rlimitHeavy, "renumber")
	st.report()

	// a run that did not reach every function / monitor / configuration is broken
	var missing []string
	for _, s := range sigs {
		if st.byFn[s.Name]["calls"] == 0 {
			missing = append(missing, "function-never-called:"+s.Name)
		}
	}
	for k, v := range map[string]int64{"memory-diff-never-saw-a-write": st.memWritten, "shadow-table-never-saw-an-open": st.opened,
		"shadow-table-never-saw-a-close": st.closed, "shadow-table-never-saw-a-renumber": st.moved, "compiler-engine-never-used": st.compiler,
		"allocation-monitor-never-ran": st.allocChecks, "structured-poll_oneoff-never-ran": st.structured, "state-build-never-judged": st.buildOpens} {
		if v == 0 {
			missing = append(missing, k)
		}
	}
	for s := 0; s < nStates; s++ {
		if st.stateCalls[s] == 0 {
			missing = append(missing, "state-never-used:"+stateNames[s])
		}
	}
	for m := 0; m < nMounts; m++ {
		if st.mountCalls[m] == 0 {
			missing = append(missing, "mount-never-used:"+mountNames[m])
		}
	}
	sort.Strings(missing)
	for _, m := range missing {
		c.Inconclusive(m)
	}
	c.Extra("per_function", st.byFn)
	c.Extra("max_alloc_in_a_passing_call", map[string]any{"bytes": st.maxAlloc, "call": st.maxAllocCall})
	c.Extra("max_sys_growth_in_a_call", st.maxSys)
	c.Extra("cases", len(b.cases))
	c.Assume("allowed write sets are supersets (Appendix A): output regions are allowed whatever errno the call returns")
	c.Assume("descriptor identity = file type + (dev, ino) + for regular files size and first 64 bytes, as reported by fd_fdstat_get/fd_filestat_get/fd_pread")
	c.Assume("Sys growth alone counts only if it repeats after a forced GC on a fresh instance (the Go heap grows in 4 MiB steps for the harness's own garbage too)")
	c.Assume("socket configuration is left out of mixed histories (a history may switch a socket to blocking and read from it)")
	code := c.Finish(st.calls, int64(c.DistinctN("arg_buckets")),
		"one evaluation = one WASI call decided by all four monitors (outcome class, whole-memory diff vs allowed write set, shadow descriptor table re-probe, allocation delta); distinct = distinct (function, per-parameter bucket vector) combinations, buckets: pointer null/inside/exact-end/straddle/at-size/beyond/wrap, length zero/fits/equal/exceeds-memory/product-overflows-32-bits, fd negative/stdio/preopen/small/large/huge, flags valid/invalid, scalars zero/small/big/negative")
	if len(missing) > 0 {
		fmt.Printf("BROKEN: C15 did not reach: %s\n", strings.Join(missing, ", "))
		if code == 0 {
			code = 2
		}
	}
	return code
}

func caseKey(cs *caseSpec) string { return string(core.J(cs)) }

type stats struct {
	c            *core.Ctx
	calls        int64
	byFn         map[string]map[string]int64
	memWritten   int64
	opened       int64
	closed       int64
	moved        int64
	compiler     int64
	allocChecks  int64
	structured   int64
	buildOpens   int64
	maxAlloc     uint64
	maxAllocCall string
	maxSys       uint64
	stateCalls   [nStates]int64
	mountCalls   [nMounts]int64
	crashOf      map[string]*core.Crash
	samples      int
	best         map[string]found
	occ          map[string]int64
	deaths       []death
	rlimit       uint64
}

// handle folds one case result into the evidence; it returns true if the case
// crashed the child (to be isolated).
func (st *stats) handle(cs *caseSpec, r core.CaseResult) bool {
	c := st.c
	if r.Crash != nil {
		if r.Crash.Kind == "timeout" {
			c.Inconclusive("watchdog")
			return false
		}
		if st.crashOf == nil {
			st.crashOf = map[string]*core.Crash{}
		}
		st.crashOf[caseKey(cs)] = r.Crash
		c.Count("child_deaths", 1)
		return true
	}
	var cr caseResult
	if err := json.Unmarshal(r.Out, &cr); err != nil {
		c.Inconclusive("bad-child-output")
		return false
	}
	if cr.Setup != "" {
		c.Inconclusive("setup-problem:" + strings.SplitN(cr.Setup, ":", 2)[0])
		c.Extra("setup_problem_example", cr.Setup)
	}
	st.calls += int64(cr.Calls)
	st.memWritten += int64(cr.MemWritten)
	st.opened += int64(cr.FdsOpened)
	st.closed += int64(cr.FdsClosed)
	st.moved += int64(cr.FdsMoved)
	st.allocChecks += int64(cr.AllocChecks)
	st.structured += int64(cr.Structured)
	st.buildOpens += int64(cr.BuildOpens)
	c.Count("new_descriptor_reports_judged", int64(cr.CreatedJudged))
	c.Count("state_build_descriptors_judged", int64(cr.BuildOpens))
	c.Count("structured_poll_oneoff_calls", int64(cr.Structured))
	st.stateCalls[cs.State] += int64(cr.Calls)
	st.mountCalls[cs.Mount] += int64(cr.Calls)
	eng := "interpreter"
	if cs.Compiler {
		st.compiler += int64(cr.Calls)
		eng = "compiler"
	}
	c.Count("calls_engine_"+eng, int64(cr.Calls))
	c.Count("calls_gen_"+cs.Gen, int64(cr.Calls))
	c.Count("calls_state_"+stateNames[cs.State], int64(cr.Calls))
	c.Count("calls_mount_"+mountNames[cs.Mount], int64(cr.Calls))
	c.Count(fmt.Sprintf("calls_pages_%d", cs.Pages), int64(cr.Calls))
	c.Count(fmt.Sprintf("calls_stdio_%d", cs.Stdio), int64(cr.Calls))
	c.Count("memory_diffs", int64(cr.MemChecks))
	c.Count("memory_diffs_with_writes_inside_allowed_set", int64(cr.MemWritten))
	c.Count("shadow_table_checks", int64(cr.ShadowChecks))
	c.Count("shadow_table_probes", int64(cr.ShadowProbes))
	c.Count("shadow_fds_opened", int64(cr.FdsOpened))
	c.Count("shadow_fds_closed", int64(cr.FdsClosed))
	c.Count("shadow_fds_renumbered", int64(cr.FdsMoved))
	c.Count("allocation_checks", int64(cr.AllocChecks))
	c.Count("sys_growth_suspects_rechecked", int64(cr.SysSuspects))
	c.Count("instances", int64(cr.Reinst))
	if cr.MaxAlloc > st.maxAlloc && cr.MaxAlloc <= 4*uint64(cs.Pages)*65536+1<<20 {
		st.maxAlloc, st.maxAllocCall = cr.MaxAlloc, cr.MaxAllocCall
	}
	if cr.MaxSys > st.maxSys {
		st.maxSys = cr.MaxSys
	}
	for fn, n := range cr.PerFn {
		m := st.byFn[fn]
		if m == nil {
			m = map[string]int64{}
			st.byFn[fn] = m
		}
		m["calls"] += int64(n)
		c.Distinct("functions_called", fn)
	}
	for o, n := range cr.Outcome {
		c.Count("outcome_"+o, int64(n))
		if cs.Fn != "" {
			st.byFn[cs.Fn][o] += int64(n)
		}
	}
	for k := range cr.Buckets {
		c.Distinct("arg_buckets", k)
	}
	if cr.Sample != "" && st.samples < 400 {
		st.samples++
		if st.samples%67 == 1 {
			c.Sample(map[string]any{"call": cr.Sample, "state": stateNames[cs.State], "mount": mountNames[cs.Mount], "pages": cs.Pages, "gen": cs.Gen, "outcomes_of_its_case": cr.Outcome})
		}
	}
	for _, f := range cr.Findings {
		st.occ[f.Sig]++
		if old, ok := st.best[f.Sig]; !ok || len(f.Prefix) < len(old.f.Prefix) {
			st.best[f.Sig] = found{f, *cs}
		}
	}
	return false
}

type found struct {
	f  finding
	cs caseSpec
}

// explicitCase is the replayable form of a finding: same configuration, the
// calls that preceded it on the same instance, then the call itself.
func (fo found) explicitCase(withPrefix bool) caseSpec {
	one := fo.cs
	one.Gen, one.Lo, one.Hi, one.Seed = "explicit", 0, 0, 0
	one.Explicit = []callSpec{fo.f.Call}
	if withPrefix {
		one.Explicit = append(append([]callSpec(nil), fo.f.Prefix...), fo.f.Call)
	}
	return one
}

// report hands the findings to the verdict bookkeeping, one witness per
// signature: the one with the shortest history, reduced to the single call
// when that call alone (fresh instance, same state) shows the same signature.
func (st *stats) report() {
	c := st.c
	var sigs []string
	for s := range st.best {
		sigs = append(sigs, s)
	}
	// descriptor-table findings first: they are usually the cause of the rest
	// (the verdict bookkeeping keeps the first 20 signatures)
	prio := func(s string) int {
		if strings.Contains(s, ":fdtable:") || strings.HasPrefix(s, "module_close:") {
			return 0
		}
		return 1
	}
	sort.Slice(sigs, func(i, j int) bool {
		if prio(sigs[i]) != prio(sigs[j]) {
			return prio(sigs[i]) < prio(sigs[j])
		}
		return sigs[i] < sigs[j]
	})
	var raw []json.RawMessage
	var idx []string
	for _, s := range sigs {
		if fo := st.best[s]; len(fo.f.Prefix) > 0 {
			raw = append(raw, core.J(fo.explicitCase(false)))
			idx = append(idx, s)
		}
	}
	single := map[string]bool{}
	if len(raw) > 0 {
		for i, r := range core.RunCases(c, "minimize", raw, core.ChildOpts{Batch: 1, TimeoutS: 300, RlimitAS: rlimitHeavy, Par: par(3)}) {
			var cr caseResult
			if r.Crash == nil && json.Unmarshal(r.Out, &cr) == nil {
				for _, f := range cr.Findings {
					if f.Sig == idx[i] {
						single[idx[i]] = true
					}
				}
			}
		}
	}
	for _, s := range sigs {
		fo := st.best[s]
		withPrefix := len(fo.f.Prefix) > 0 && !single[s]
		eng := "interpreter"
		if fo.cs.Compiler {
			eng = "compiler"
		}
		w := map[string]any{
			"case": fo.explicitCase(withPrefix), "call": fo.f.Text, "state": stateNames[fo.cs.State], "mount": mountNames[fo.cs.Mount],
			"pages": fo.cs.Pages, "stdio": fo.cs.Stdio, "engine": eng, "detail": fo.f.Detail, "extra": fo.f.Extra,
			"needs_the_calls_before_it": withPrefix, "occurrences_this_run": st.occ[s]}
		var also []string
		for _, d := range st.deaths {
			if d.sig == s && len(also) < 5 {
				also = append(also, d.detail)
			}
		}
		if also != nil {
			w["calls_that_killed_the_child_for_the_same_reason"] = also
		}
		for n := int64(0); n < max(st.occ[s], 1); n++ {
			c.Violate(s, fo.f.Text+": "+fo.f.Detail, w)
		}
	}
	for _, d := range st.deaths {
		c.Violate(d.sig, d.detail, d.witness)
	}
}

// crashViolation reports the death of a child. single = the case is one call
// that killed a fresh instance on its own.
func (st *stats) crashViolation(cs *caseSpec, cr *core.Crash, single bool) {
	if cr == nil {
		return
	}
	c := st.c
	fn := cs.Fn
	if fn == "" {
		fn = "mixed-history"
	}
	sig := fn + ":child-death:" + cr.Kind + ":" + firstWords(cr.Detail, 5)
	text := fn
	if single && len(cs.Explicit) == 1 {
		call := cs.Explicit[0]
		f := tableByName[call.Fn]
		text = fmtArgs(f, pnames[call.Fn], call.Args)
		if cr.Kind == "fatal" && (strings.Contains(cr.Detail, "out of memory") || strings.Contains(cr.Detail, "cannot allocate")) {
			// same root cause as an over-limit TotalAlloc delta: the host tried to allocate
			sig = fn + ":" + hugeArg(f, call.Args) + ":host-allocation"
		}
		st.calls++
		m := st.byFn[fn]
		if m == nil {
			m = map[string]int64{}
			st.byFn[fn] = m
		}
		m["calls"]++
		m["child-death"]++
		c.Count("outcome_child-death", 1)
	} else {
		sig += ":not-reproduced-by-a-single-call"
	}
	var logTail string
	if b, err := os.ReadFile(cr.Log); err == nil {
		logTail = core.Trunc(string(b), 3000)
	}
	// reported after the in-process findings (report()), so that a measured
	// witness of the same signature comes first and this one is attached to it
	st.deaths = append(st.deaths, death{sig, fmt.Sprintf("%s killed the child process (RLIMIT_AS %d GiB): %s: %s", text, st.rlimit>>30, cr.Kind, cr.Detail),
		map[string]any{"case": cs, "call": text, "state": stateNames[cs.State], "mount": mountNames[cs.Mount], "crash": cr, "log": logTail}})
}

type death struct {
	sig, detail string
	witness     map[string]any
}

func firstWords(s string, n int) string {
	f := strings.Fields(s)
	if len(f) > n {
		f = f[:n]
	}
	return strings.Join(f, "_")
}

// replay re-runs the case of a witness file in a supervised child and prints
// what the monitors say.
func replay(c *core.Ctx, path string) int {
	b, err := os.ReadFile(path)
	if err != nil {
		fmt.Println(err)
		return 2
	}
	var w struct {
		Witness struct {
			Case caseSpec `json:"case"`
		} `json:"witness"`
	}
	if err := json.Unmarshal(b, &w); err != nil || w.Witness.Case.Gen == "" {
		fmt.Println("not a C15 witness:", err)
		return 2
	}
	for _, s := range wasiproxy.Signatures() {
		pnames[s.Name] = s.PNames
	}
	tmp, err := os.MkdirTemp("", "c15-replay-")
	if err != nil {
		return 2
	}
	defer os.RemoveAll(tmp)
	cs := w.Witness.Case
	cs.Tmp = tmp
	res := core.RunCases(c, "replay", []json.RawMessage{core.J(cs)}, core.ChildOpts{Batch: 1, TimeoutS: 300, RlimitAS: rlimitHeavy, Par: 1})
	if res[0].Crash != nil {
		fmt.Printf("child died: %s: %s (log %s)\n", res[0].Crash.Kind, res[0].Crash.Detail, res[0].Crash.Log)
		return 1
	}
	var cr caseResult
	json.Unmarshal(res[0].Out, &cr)
	fmt.Printf("calls=%d outcomes=%v setup=%q\n", cr.Calls, cr.Outcome, cr.Setup)
	for _, f := range cr.Findings {
		fmt.Printf("VIOLATION sig=%s\n  %s\n  %s\n", f.Sig, f.Text, core.Trunc(f.Detail, 600))
	}
	if len(cr.Findings) > 0 {
		return 1
	}
	return 0
}
