package c15

import (
	"encoding/binary"
	"fmt"
	"sort"
)

// ---------------------------------------------------------------------------
// Argument roles. Every parameter of every WASI function gets exactly one role;
// the role decides (a) the boundary-value set the generator draws from, (b) the
// bucket the value is counted under in the evidence, and (c) — for output roles
// — the region of guest memory the call may write (DESIGN.md Appendix A).

type kind uint8

const (
	kFd      kind = iota // descriptor looked up in the table
	kFdTo                // fd_renumber target
	kPtrOut              // pointer to a fixed-size result (n bytes)
	kBufOut              // pointer to an output buffer whose byte length is args[lenArg]
	kBufIn               // pointer to an input buffer (never written)
	kLen                 // byte length of a buffer
	kRdLen               // fd_readdir buf_len (adds dirent-size boundaries)
	kIovsOut             // pointer to an iovec array whose buffers are written (count = args[lenArg])
	kIovsIn              // pointer to an iovec array whose buffers are only read
	kCount               // number of 8-byte iovecs
	kPath                // pointer to a path string
	kPathLen             // its length
	kSubs                // poll_oneoff in: 48-byte subscriptions
	kEvents              // poll_oneoff out: 32-byte events, count = args[lenArg]
	kNSubs               // nsubscriptions
	kArgv                // args_get/environ_get pointer array (n: 0 args, 1 environ)
	kArgvBuf             // args_get/environ_get string buffer
	kFlags               // bit set with n defined bits
	kEnum                // enumeration 0..n
	kClock               // clock id
	kI64                 // 64-bit scalar (offset, length, size, time, precision)
	kCookie              // fd_readdir cookie
	kRights              // rights bit set
	kI32                 // plain 32-bit scalar (exit code, signal)
)

type role struct {
	k      kind
	n      int    // fixed size (kPtrOut), defined bits (kFlags), max (kEnum), args/environ (kArgv*)
	lenArg int    // index of the parameter carrying the length / count
	nice   uint64 // a well-formed value that lets the call get past this parameter
}

type fnSpec struct {
	name     string
	roles    []role
	chunk    int  // calls per fresh instance (state-destroying functions use 1)
	mutating bool // may legitimately change contents/size of open files
	creates  bool // may legitimately add a descriptor
	end      int  // what sits at the very end of memory: endIovs | endSubs | endPath
	sock     bool // worth running in the socket configuration
}

const (
	endNone = iota
	endIovs
	endSubs
	endPath
)

// fixed guest addresses (all in page 0, independent of the memory size)
const (
	aIov0       = 0x0000 // 2 valid iovecs (so that pointer 0 is a usable array)
	aIovValid   = 0x0100 // 4 iovecs, one of them empty
	aIovHostile = 0x0140 // a valid iovec, then straddling / wrapping / huge ones
	aIovEnd     = 0x0180 // 2 iovecs whose buffers end exactly at the end of memory
	aIovWhole   = 0x01c0 // 1 iovec covering the whole memory
	aF0         = 0x0200 // "f0"   regular file
	aD0F1       = 0x0210 // "d0/f1" (prefix "d0" directory, "d0/" with slash)
	aL0         = 0x0220 // "l0"   symlink to f0
	aN0         = 0x0230 // "n0"   does not exist
	aE0         = 0x0240 // "e0"   empty directory
	aDot        = 0x0250 // "."
	aSubsA      = 0x0300 // clock, fd_read(stdin), fd_write(stdout)
	aSubsB      = 0x0400 // fd_read(4), fd_write(77), fd_read(5)
	aSubsC      = 0x0500 // invalid event type
	aSubsD      = 0x0540 // clock abstime, clock bad flags
	aData       = 0x1000 // iovec data buffers 0x1000..0x13ff
	aOut        = 0x3000 // roomy, aligned output area
	aOut2       = 0x3100
	aScratch    = 0x4000 // used by the monitors' own probe calls (after the diff)
)

func fd(nice uint64) role              { return role{k: kFd, nice: nice} }
func out(n int) role                   { return role{k: kPtrOut, n: n, nice: aOut2} }
func bufOut(lenArg int) role           { return role{k: kBufOut, lenArg: lenArg, nice: aOut} }
func length(nice uint64) role          { return role{k: kLen, nice: nice} }
func path(nice uint64) role            { return role{k: kPath, nice: nice} }
func pathLen(nice uint64) role         { return role{k: kPathLen, nice: nice} }
func flags(bits int, nice uint64) role { return role{k: kFlags, n: bits, nice: nice} }
func enum(max int) role                { return role{k: kEnum, n: max} }
func i64(nice uint64) role             { return role{k: kI64, nice: nice} }

// table is written from the WASI snapshot-01 docs and the parameter lists of
// wazero's host module; run() cross-checks arity and value types against
// wasiproxy.Signatures() and refuses to run on a mismatch.
var table = []fnSpec{
	{name: "args_get", roles: []role{{k: kArgv, n: 0, nice: aOut}, {k: kArgvBuf, n: 0, nice: aOut2}}},
	{name: "args_sizes_get", roles: []role{out(4), {k: kPtrOut, n: 4, nice: aOut}}},
	{name: "environ_get", roles: []role{{k: kArgv, n: 1, nice: aOut}, {k: kArgvBuf, n: 1, nice: aOut2}}},
	{name: "environ_sizes_get", roles: []role{out(4), {k: kPtrOut, n: 4, nice: aOut}}},
	{name: "clock_res_get", roles: []role{{k: kClock}, out(8)}},
	{name: "clock_time_get", roles: []role{{k: kClock}, i64(0), out(8)}},
	{name: "fd_advise", roles: []role{fd(4), i64(0), i64(16), enum(5)}},
	{name: "fd_allocate", roles: []role{fd(4), i64(0), i64(16)}, mutating: true},
	{name: "fd_close", roles: []role{fd(4)}, chunk: 1, sock: true},
	{name: "fd_datasync", roles: []role{fd(4)}},
	{name: "fd_fdstat_get", roles: []role{fd(4), out(24)}, sock: true},
	{name: "fd_fdstat_set_flags", roles: []role{fd(4), flags(5, 0)}, sock: true},
	{name: "fd_fdstat_set_rights", roles: []role{fd(4), {k: kRights, nice: 66}, {k: kRights, nice: 66}}},
	{name: "fd_filestat_get", roles: []role{fd(4), out(64)}, sock: true},
	{name: "fd_filestat_set_size", roles: []role{fd(4), i64(10)}, mutating: true},
	{name: "fd_filestat_set_times", roles: []role{fd(4), i64(1), i64(1), flags(4, 5)}},
	{name: "fd_pread", roles: []role{fd(4), {k: kIovsOut, lenArg: 2, nice: aIovValid}, {k: kCount, nice: 4}, i64(0), out(4)}, end: endIovs},
	{name: "fd_prestat_get", roles: []role{fd(3), out(8)}},
	{name: "fd_prestat_dir_name", roles: []role{fd(3), bufOut(2), length(1)}},
	{name: "fd_pwrite", roles: []role{fd(4), {k: kIovsIn, lenArg: 2, nice: aIovValid}, {k: kCount, nice: 4}, i64(0), out(4)}, end: endIovs, mutating: true},
	{name: "fd_read", roles: []role{fd(4), {k: kIovsOut, lenArg: 2, nice: aIovValid}, {k: kCount, nice: 4}, out(4)}, end: endIovs, sock: true},
	{name: "fd_readdir", roles: []role{fd(3), bufOut(2), {k: kRdLen, nice: 256}, {k: kCookie}, out(4)}},
	{name: "fd_renumber", roles: []role{fd(4), {k: kFdTo, nice: 9}}, chunk: 1, sock: true},
	{name: "fd_seek", roles: []role{fd(4), i64(3), enum(2), out(8)}},
	{name: "fd_sync", roles: []role{fd(4)}},
	{name: "fd_tell", roles: []role{fd(4), out(8)}},
	{name: "fd_write", roles: []role{fd(4), {k: kIovsIn, lenArg: 2, nice: aIovValid}, {k: kCount, nice: 4}, out(4)}, end: endIovs, mutating: true, sock: true},
	{name: "path_create_directory", roles: []role{fd(3), path(aN0), pathLen(2)}, end: endPath},
	{name: "path_filestat_get", roles: []role{fd(3), flags(1, 1), path(aF0), pathLen(2), out(64)}, end: endPath},
	{name: "path_filestat_set_times", roles: []role{fd(3), flags(1, 1), path(aF0), pathLen(2), i64(1), i64(1), flags(4, 5)}, end: endPath},
	{name: "path_link", roles: []role{fd(3), flags(1, 1), path(aF0), pathLen(2), fd(3), path(aN0), pathLen(2)}, end: endPath},
	{name: "path_open", roles: []role{fd(3), flags(1, 1), path(aF0), pathLen(2), flags(4, 0), {k: kRights, nice: 2}, {k: kRights, nice: 2}, flags(5, 0), out(4)}, end: endPath, mutating: true, creates: true},
	{name: "path_readlink", roles: []role{fd(3), path(aL0), pathLen(2), bufOut(4), length(64), out(4)}, end: endPath},
	{name: "path_remove_directory", roles: []role{fd(3), path(aE0), pathLen(2)}, end: endPath},
	{name: "path_rename", roles: []role{fd(3), path(aF0), pathLen(2), fd(3), path(aN0), pathLen(2)}, end: endPath},
	{name: "path_symlink", roles: []role{path(aF0), pathLen(2), fd(3), path(aN0), pathLen(2)}, end: endPath},
	{name: "path_unlink_file", roles: []role{fd(3), path(aF0), pathLen(2)}, end: endPath},
	{name: "poll_oneoff", roles: []role{{k: kSubs, lenArg: 2, nice: aSubsA}, {k: kEvents, lenArg: 2, nice: aOut}, {k: kNSubs, nice: 3}, out(4)}, end: endSubs, sock: true},
	{name: "proc_exit", roles: []role{{k: kI32}}, chunk: 1},
	{name: "proc_raise", roles: []role{{k: kI32}}},
	{name: "sched_yield", roles: nil},
	{name: "random_get", roles: []role{bufOut(1), length(64)}},
	{name: "sock_accept", roles: []role{fd(4), flags(3, 4), out(4)}, creates: true, sock: true, chunk: 4},
	{name: "sock_recv", roles: []role{fd(5), {k: kIovsOut, lenArg: 2, nice: aIovValid}, {k: kCount, nice: 4}, flags(2, 0), out(4), {k: kPtrOut, n: 4, nice: aOut}}, end: endIovs, sock: true},
	{name: "sock_send", roles: []role{fd(5), {k: kIovsIn, lenArg: 2, nice: aIovValid}, {k: kCount, nice: 4}, flags(1, 0), out(4)}, end: endIovs, sock: true},
	{name: "sock_shutdown", roles: []role{fd(5), enum(3)}, sock: true},
}

var tableByName = func() map[string]*fnSpec {
	m := map[string]*fnSpec{}
	for i := range table {
		if table[i].chunk == 0 {
			table[i].chunk = 8
		}
		m[table[i].name] = &table[i]
	}
	return m
}()

// wantI64 says whether the role travels as an i64 parameter.
func (r role) wantI64() bool { return r.k == kI64 || r.k == kCookie || r.k == kRights }

// argsInfo describes the args/environ configuration variants (static so that
// parent and child agree on the value sets).
type argsInfo struct {
	args   []string
	env    [][2]string
	cnt    [2]uint32 // argc, environc
	bufLen [2]uint32 // argv_len, environ_len
}

var argsVariants = func() []argsInfo {
	v := []argsInfo{
		{},
		{args: []string{"prog", "arg-one", ""}, env: [][2]string{{"K", "V"}, {"EMPTY", ""}, {"LONGER_KEY", "longer value"}}},
	}
	for i := range v {
		v[i].cnt[0] = uint32(len(v[i].args))
		for _, a := range v[i].args {
			v[i].bufLen[0] += uint32(len(a)) + 1
		}
		v[i].cnt[1] = uint32(len(v[i].env))
		for _, kv := range v[i].env {
			v[i].bufLen[1] += uint32(len(kv[0])+len(kv[1])) + 2
		}
	}
	return v
}()

// genEnv is everything the value sets depend on.
type genEnv struct {
	size uint64 // guest memory size in bytes
	av   *argsInfo
}

func dedup(v []uint64) []uint64 {
	seen := map[uint64]bool{}
	out := v[:0:0]
	for _, x := range v {
		if !seen[x] {
			seen[x] = true
			out = append(out, x)
		}
	}
	return out
}

func u32s(v ...int64) []uint64 {
	out := make([]uint64, len(v))
	for i, x := range v {
		out[i] = uint64(uint32(x))
	}
	return out
}

// fdSet is the same in every descriptor-table state: 0..13 covers the standard
// streams, the pre-opens and every descriptor any state set-up opens or
// renumbers to, 62..66 and 126..130 the 64-descriptor block boundaries of the
// table (open in the many-descriptor states).
var fdSet = append(u32s(-1, 0, 1, 2, 3, 4, 5, 6, 7, 8, 9, 10, 11, 12, 13, 62, 63, 64, 65, 66, 126, 127, 128, 129, 130, 1<<20, 1<<27, 1<<31-1), 1<<31, 1<<32-2)

// values returns the boundary set of a role (first element = the nice value).
func (r role) values(e *genEnv) []uint64 {
	S := int64(e.size)
	var v []uint64
	switch r.k {
	case kFd, kFdTo:
		v = append([]uint64{r.nice}, fdSet...)
	case kPtrOut:
		n := int64(r.n)
		v = append([]uint64{r.nice}, u32s(0, 1, S-n-1, S-n, S-n+1, S-1, S, 1<<31, 1<<32-n, 1<<32-1)...)
	case kBufOut, kBufIn:
		v = append([]uint64{r.nice}, u32s(0, 1, S-64, S-24, S-1, S, 1<<31, 1<<32-1)...)
	case kLen:
		v = append([]uint64{r.nice}, u32s(0, 1, 16, 64, 4096, S-aOut, S, S+1, 1<<28, 1<<29, 1<<31, 1<<32-1)...)
	case kRdLen:
		v = append([]uint64{r.nice}, u32s(0, 1, 23, 24, 25, 26, 47, 48, 50, 74, 100, 4096, S-aOut, S, S+1, 1<<28, 1<<29, 1<<31, 1<<32-1)...)
	case kIovsOut, kIovsIn:
		v = append([]uint64{r.nice}, u32s(aIov0, 1, aIovHostile, aIovEnd, aIovWhole, S-16, S-8, S-4, S, 1<<31, 1<<32-1)...)
	case kCount:
		v = append([]uint64{r.nice}, u32s(0, 1, 2, S/8, S/8+1, 1<<28, 1<<29, 1<<29+1, 1<<29+2, 1<<31, 1<<32-1)...)
	case kPath:
		v = append([]uint64{r.nice}, u32s(aF0, aD0F1, aL0, aN0, aE0, aDot, 0, 1, S-5, S-1, S, 1<<31, 1<<32-1)...)
	case kPathLen:
		v = append([]uint64{r.nice}, u32s(0, 1, 2, 3, 5, 6, 255, 256, 4096, S, 1<<28, 1<<31, 1<<32-1)...)
	case kSubs:
		v = append([]uint64{r.nice}, u32s(aSubsB, aSubsC, aSubsD, 0, 1, S-48, S-47, S, 1<<31, 1<<32-1)...)
	case kEvents:
		v = append([]uint64{r.nice}, u32s(0, 1, S-96, S-64, S-32, S-31, S, 1<<31, 1<<32-1)...)
	case kNSubs:
		// 2^27·32, 2^28·48 (and every higher power of two) are ≡ 0 mod 2^32;
		// 0x05555556·48 ≡ 32
		v = append([]uint64{r.nice}, u32s(0, 1, 2, 4, S/48, S/32+1, 1<<27, 1<<27+1, 1<<28, 1<<28+1, 0x05555556, 1<<29, 1<<30, 1<<31, 1<<32-1)...)
	case kArgv:
		n := int64(4 * e.av.cnt[r.n])
		v = append([]uint64{r.nice}, u32s(0, 1, S-n-1, S-n, S-n+1, S-1, S, 1<<31, 1<<32-1)...)
	case kArgvBuf:
		n := int64(e.av.bufLen[r.n])
		v = append([]uint64{r.nice}, u32s(0, 1, S-n-1, S-n, S-n+1, S-1, S, 1<<31, 1<<32-1)...)
	case kFlags:
		v = []uint64{r.nice}
		for i := 0; i < 1<<r.n; i++ {
			v = append(v, uint64(i))
		}
		v = append(v, 1<<r.n, 0xff, 0x100, 0xffff, 0x10000, 0xffffffff)
	case kEnum:
		v = []uint64{r.nice}
		for i := 0; i <= r.n+1; i++ {
			v = append(v, uint64(i))
		}
		v = append(v, 0xff, 0x100, 0x10000, 0x80000000, 0xffffffff)
	case kClock:
		v = []uint64{0, 1, 2, 3, 4, 0x80000000, 0xffffffff}
	case kI64:
		v = []uint64{r.nice, 0, 1, 5, 100, 1<<31 - 1, 1 << 31, 1<<32 - 1, 1 << 32, 1<<63 - 1, 1 << 63, 1<<64 - 1}
	case kCookie:
		v = []uint64{0, 1, 2, 3, 4, 5, 7, 1 << 31, 1 << 32, 1<<63 - 1, 1 << 63, 1<<64 - 1}
	case kRights:
		v = []uint64{r.nice, 0, 2, 64, 66, 1<<64 - 1}
	case kI32:
		v = []uint64{0, 1, 2, 255, 256, 1<<31 - 1, 1 << 31, 1<<32 - 1}
	}
	return dedup(v)
}

// bucket classifies a value of a role (one character, used for the evidence's
// argument-bucket coverage and for violation signatures).
func (r role) bucket(x uint64, args []uint64, e *genEnv) byte {
	S := e.size
	ptr := func(n uint64) byte {
		switch {
		case x == 0:
			return '0'
		case x+n < S:
			return 'v' // inside
		case x+n == S:
			return 'e' // ends exactly at the end of memory
		case x < S:
			return 's' // straddles the end
		case x == S:
			return 'z'
		case x+n > 1<<32:
			return 'w' // wraps 32 bits
		default:
			return 'o'
		}
	}
	switch r.k {
	case kFd, kFdTo:
		switch {
		case int32(x) < 0:
			return 'n'
		case x <= 2:
			return 's'
		case x == 3:
			return 'p'
		case x < 16:
			return 'm' // small: open or closed depending on the state
		case x < 1<<16:
			return 'l'
		default:
			return 'H' // huge
		}
	case kPtrOut:
		return ptr(uint64(r.n))
	case kBufOut, kBufIn:
		return ptr(uint64(uint32(args[r.lenArg])))
	case kEvents:
		return ptr(uint64(uint32(args[r.lenArg])) * 32)
	case kSubs:
		return ptr(uint64(uint32(args[r.lenArg])) * 48)
	case kIovsOut, kIovsIn:
		return ptr(uint64(uint32(args[r.lenArg])) * 8)
	case kPath:
		return ptr(1)
	case kArgv:
		return ptr(uint64(4 * e.av.cnt[r.n]))
	case kArgvBuf:
		return ptr(uint64(e.av.bufLen[r.n]))
	case kLen, kRdLen, kPathLen:
		return lenBucket(x, 1, S)
	case kCount:
		return lenBucket(x, 8, S)
	case kNSubs:
		return lenBucket(x, 48, S)
	case kFlags:
		if x < 1<<r.n {
			return 'v'
		}
		return 'i'
	case kEnum:
		if x <= uint64(r.n) {
			return 'v'
		}
		return 'i'
	case kClock:
		if x < 2 {
			return 'v'
		}
		return 'i'
	case kI64, kCookie, kRights:
		switch {
		case x == 0:
			return '0'
		case x < 1<<31:
			return 's'
		case x < 1<<63:
			return 'b'
		default:
			return 'n' // negative as int64
		}
	}
	if x < 256 {
		return 's'
	}
	return 'b'
}

func lenBucket(x, elem, S uint64) byte {
	switch {
	case x == 0:
		return '0'
	case x*elem >= 1<<32:
		return 'X' // product overflows 32 bits
	case x*elem > S:
		return 'o' // larger than memory
	case x*elem == S:
		return 'e'
	default:
		return 'v'
	}
}

// elem returns the element size a count/length role multiplies with (0 = not a count).
func (r role) elem() uint64 {
	switch r.k {
	case kCount:
		return 8
	case kNSubs:
		return 48
	case kLen, kRdLen, kPathLen:
		return 1
	}
	return 0
}

// ---------------------------------------------------------------------------
// guest memory template

type iovec struct{ buf, len uint32 }

func putIovs(m []byte, at int, iv ...iovec) {
	for i, v := range iv {
		binary.LittleEndian.PutUint32(m[at+8*i:], v.buf)
		binary.LittleEndian.PutUint32(m[at+8*i+4:], v.len)
	}
}

func putSub(m []byte, at int, userdata uint64, tag byte, a uint32, timeout uint64, fl uint16) {
	for i := 0; i < 48; i++ {
		m[at+i] = 0
	}
	binary.LittleEndian.PutUint64(m[at:], userdata)
	m[at+8] = tag
	binary.LittleEndian.PutUint32(m[at+16:], a) // clock id or fd
	if tag == 0 {
		binary.LittleEndian.PutUint64(m[at+24:], timeout)
		binary.LittleEndian.PutUint16(m[at+40:], fl)
	}
}

// buildTemplate lays out the guest memory every call starts from. The
// background pattern has the top bit of every byte set, so that stray bytes
// read as a pointer or a length are far out of bounds.
func buildTemplate(size int, end int) []byte {
	m := make([]byte, size)
	for i := range m {
		m[i] = 0x80 | byte(i%113)
	}
	for i := 0; i < 0x600; i++ {
		m[i] = 0
	}
	S := uint32(size)
	putIovs(m, aIov0, iovec{aData, 16}, iovec{aData + 0x100, 32})
	putIovs(m, aIovValid, iovec{aData, 16}, iovec{aData + 0x200, 0}, iovec{aData + 0x100, 32}, iovec{aData + 0x300, 8})
	putIovs(m, aIovHostile, iovec{S - 64, 16}, iovec{S - 4, 8}, iovec{0xffffffff, 1}, iovec{0, 0xffffffff})
	putIovs(m, aIovEnd, iovec{S - 32, 16}, iovec{S - 16, 16})
	putIovs(m, aIovWhole, iovec{0, S})
	copy(m[aF0:], "f0")
	copy(m[aD0F1:], "d0/f1")
	copy(m[aL0:], "l0")
	copy(m[aN0:], "n0")
	copy(m[aE0:], "e0")
	copy(m[aDot:], ".")
	putSub(m, aSubsA, 0x1111111111111111, 0, 1, 1000, 0)
	putSub(m, aSubsA+48, 0x2222222222222222, 1, 0, 0, 0)
	putSub(m, aSubsA+96, 0x3333333333333333, 2, 1, 0, 0)
	putSub(m, aSubsB, 0x4444444444444444, 1, 4, 0, 0)
	putSub(m, aSubsB+48, 0x5555555555555555, 2, 77, 0, 0)
	putSub(m, aSubsB+96, 0x6666666666666666, 1, 5, 0, 0)
	putSub(m, aSubsC, 0x7777777777777777, 9, 0, 0, 0)
	putSub(m, aSubsD, 0x8888888888888888, 0, 0, 5, 1)
	putSub(m, aSubsD+48, 0x9999999999999999, 0, 0, 5, 2)
	for i := 0; i < 0x400; i++ {
		m[aData+i] = "0123456789abcdefghijklmnopqrstuvwxyz"[i%36]
	}
	switch end {
	case endIovs:
		putIovs(m, size-16, iovec{aData, 16}, iovec{aData + 0x100, 32})
	case endSubs:
		putSub(m, size-48, 0xaaaaaaaaaaaaaaaa, 0, 0, 1<<62, 0)
	case endPath:
		copy(m[size-5:], "d0/f1")
	}
	return m
}

// ---------------------------------------------------------------------------
// allowed write sets (DESIGN.md Appendix A)

type interval struct{ lo, hi uint64 } // [lo,hi)

// allowedWrites computes the union of regions the call may write, from the
// arguments and from iovecs as they are in memory before the call (= tmpl).
// Everything is computed in 64 bits and clipped to the memory size.
func (f *fnSpec) allowedWrites(args []uint64, tmpl []byte, e *genEnv) []interval {
	var iv []interval
	add := func(lo, n uint64) {
		if n == 0 || lo >= e.size {
			return
		}
		hi := lo + n
		if hi > e.size {
			hi = e.size
		}
		iv = append(iv, interval{lo, hi})
	}
	for i, r := range f.roles {
		a := uint64(uint32(args[i]))
		switch r.k {
		case kPtrOut:
			add(a, uint64(r.n))
		case kBufOut:
			add(a, uint64(uint32(args[r.lenArg])))
		case kEvents:
			add(a, 32*uint64(uint32(args[r.lenArg])))
		case kArgv:
			add(a, 4*uint64(e.av.cnt[r.n]))
		case kArgvBuf:
			add(a, uint64(e.av.bufLen[r.n]))
		case kIovsOut:
			cnt := uint64(uint32(args[r.lenArg]))
			for j := uint64(0); j < cnt; j++ {
				p := a + 8*j
				if p+8 > e.size {
					break
				}
				add(uint64(binary.LittleEndian.Uint32(tmpl[p:])), uint64(binary.LittleEndian.Uint32(tmpl[p+4:])))
			}
		}
	}
	sort.Slice(iv, func(i, j int) bool { return iv[i].lo < iv[j].lo })
	return iv
}

// strayWrites returns the first byte range modified outside the allowed set
// (ok=true if none) and the number of modified bytes inside it.
func strayWrites(before, after []byte, allowed []interval) (lo, hi int, ok bool) {
	pos := uint64(0)
	check := func(a, b uint64) bool {
		if a >= b {
			return true
		}
		x, y := before[a:b], after[a:b]
		if string(x) == string(y) { // compiles to memequal, no allocation
			return true
		}
		for i := range x {
			if x[i] != y[i] {
				lo = int(a) + i
				hi = lo + 1
				for hi < int(b) && hi-lo < 64 && before[hi] != after[hi] {
					hi++
				}
				return false
			}
		}
		return true
	}
	for _, iv := range allowed {
		if iv.lo > pos {
			if !check(pos, iv.lo) {
				return lo, hi, false
			}
		}
		if iv.hi > pos {
			pos = iv.hi
		}
	}
	if !check(pos, uint64(len(before))) {
		return lo, hi, false
	}
	return 0, 0, true
}

func (f *fnSpec) bucketKey(args []uint64, e *genEnv) string {
	b := make([]byte, len(f.roles))
	for i, r := range f.roles {
		b[i] = r.bucket(args[i], args, e)
	}
	return string(b)
}

func fmtArgs(f *fnSpec, pnames []string, args []uint64) string {
	s := f.name + "("
	for i, a := range args {
		if i > 0 {
			s += ", "
		}
		n := fmt.Sprintf("p%d", i)
		if i < len(pnames) {
			n = pnames[i]
		}
		if f.roles[i].wantI64() {
			s += fmt.Sprintf("%s=%#x", n, a)
		} else {
			s += fmt.Sprintf("%s=%#x", n, uint32(a))
		}
	}
	return s + ")"
}
