// Package c12 decides C12 (non-semantic configuration does not change guest
// behaviour): for generated programs and PRNG call scripts, the canonical
// guest trace at every point of the lattice of performance/tooling options
// must equal the trace at the base point (no cache, defaults).
package c12

import (
	"context"
	"encoding/hex"
	"encoding/json"
	"fmt"
	"math"
	"os"
	"path/filepath"
	"strings"
	"sync"

	"github.com/tetratelabs/wazero"
	"github.com/tetratelabs/wazero/api"
	"github.com/tetratelabs/wazero/experimental"
	"github.com/tetratelabs/wazero/verifharness/core"
	"github.com/tetratelabs/wazero/verifharness/guardmem"
	"github.com/tetratelabs/wazero/verifharness/props/c20"
	"github.com/tetratelabs/wazero/verifharness/wenc"
	"github.com/tetratelabs/wazero/verifharness/wgen"
	"github.com/tetratelabs/wazero/verifharness/wrun"
)

var Prop = &core.Prop{ID: "C12", Run: run, Child: child}

// point of the configuration lattice
type point struct {
	Cache     int  `json:"cache"` // see cacheNames
	CapMax    bool `json:"capmax"`
	Guard     bool `json:"guardmem"`
	NoDebug   bool `json:"nodebug"`
	Custom    bool `json:"custom"`
	Listeners int  `json:"listeners"` // 0 none, 1 all, 2 subset, 3 factory installed but returns nil for every function
	CloseCtx  bool `json:"closectx"`
	Compiler  bool `json:"compiler"`
}

var cacheNames = []string{"none", "in-memory", "dir-cold", "dir-warm(second process)", "shared:A-compiles-first", "shared:A-closes-its-compiled-module",
	"shared:A-closes-its-runtime", "shared:B-compiles-first,A-compiles+closes-before-B-instantiates",
	"shared:A-and-B-compile-concurrently,A-closes-its-compiled-module"}

func (p point) String() string {
	return fmt.Sprintf("cache=%s capFromMax=%v guardmem=%v debugInfo=%v customSections=%v listeners=%d closeOnCtxDone=%v compiler=%v",
		cacheNames[p.Cache], p.CapMax, p.Guard, !p.NoDebug, p.Custom, p.Listeners, p.CloseCtx, p.Compiler)
}

type pcase struct {
	Directed string `json:"directed,omitempty"` // hand-built program instead of a generated one
	Prog     uint64 `json:"prog"`
	P        point  `json:"point"`
	Dir      string `json:"dir,omitempty"`
	Prime    bool   `json:"prime,omitempty"`
}

type presult struct {
	Sig      string   `json:"sig,omitempty"`
	Detail   string   `json:"detail,omitempty"`
	Bin      string   `json:"bin,omitempty"`
	Calls    int      `json:"calls"`
	Events   int      `json:"events"`
	CacheHit bool     `json:"cache_hit"`
	Listener int      `json:"listener_events"`
	Inconcl  string   `json:"inconcl,omitempty"`
	Sample   []string `json:"sample,omitempty"`
}

func allPoints() []point {
	var out []point
	for cache := 0; cache < len(cacheNames); cache++ {
		for b := 0; b < 32; b++ {
			for l := 0; l < 4; l++ {
				for e := 0; e < 2; e++ {
					out = append(out, point{Cache: cache, CapMax: b&1 != 0, Guard: b&2 != 0, NoDebug: b&4 != 0, Custom: b&8 != 0, CloseCtx: b&16 != 0, Listeners: l, Compiler: e == 1})
				}
			}
		}
	}
	return out
}

func run(c *core.Ctx) int {
	rng := core.NewRng(c.Seed, 12)
	pts := allPoints()
	nFull := c.N(2, 12)
	nPairs := c.N(3000, 100000)
	cacheRoot := filepath.Join(c.Out, "cachedirs")
	os.RemoveAll(cacheRoot)
	os.MkdirAll(cacheRoot, 0o755)
	defer os.RemoveAll(cacheRoot)
	var cases []json.RawMessage
	var raw []pcase
	add := func(pc pcase) {
		if pc.P.Cache == 2 || pc.P.Cache == 3 {
			pc.Dir = filepath.Join(cacheRoot, fmt.Sprintf("d%d", len(raw)))
		}
		raw = append(raw, pc)
	}
	for i := 0; i < nFull; i++ {
		prog := rng.U64()
		for _, p := range pts {
			add(pcase{Prog: prog, P: p})
		}
	}
	for i := 0; i < nPairs; i++ {
		add(pcase{Prog: rng.U64(), P: pts[rng.Intn(len(pts))]})
	}
	// directed program: a deep chain of proper tail calls (constant stack) must stay a deep chain of
	// proper tail calls at every point (e.g. with listeners attached)
	for l := 0; l < 4; l++ {
		for e := 0; e < 2; e++ {
			for _, cache := range []int{0, 1} {
				add(pcase{Directed: "deep-tail-calls", P: point{Cache: cache, Listeners: l, Compiler: e == 1, CloseCtx: l%2 == 1}})
			}
		}
	}
	// directed program: kernels with more live values than registers across loop headers and runtime-assisted operations
	for _, p := range pts {
		if p.Cache <= 1 && !p.Guard {
			add(pcase{Directed: "register-pressure", P: p})
		}
	}
	// cross-module call chains (a -> b -> c / host, imports and shared tables) with and without listeners: the scenario
	// of props/c20/cross.go, of which only the guest-visible verdicts are used here
	for i := 0; i < c.N(150, 3000); i++ {
		add(pcase{Directed: "cross-module-listeners", Prog: rng.U64()})
	}
	// linked modules: link decisions and shared-memory observations of importers around the exporter's current size
	// and maximum must not depend on the point (props/c12/linked.go)
	for _, p := range pts {
		if p.Cache <= 1 {
			add(pcase{Directed: "linked-modules", Prog: rng.U64(), P: p})
		}
	}
	// stage 1: prime the warm directories in separate processes
	var primes []json.RawMessage
	for _, pc := range raw {
		if pc.P.Cache == 3 {
			q := pc
			q.Prime = true
			primes = append(primes, core.J(q))
		}
	}
	pres := core.RunCases(c, "prime", primes, core.ChildOpts{Batch: 60, TimeoutS: 900})
	for _, r := range pres {
		if r.Crash != nil {
			c.Inconclusive("prime-crash")
		}
	}
	for _, pc := range raw {
		cases = append(cases, core.J(pc))
	}
	res := core.RunCases(c, "point", cases, core.ChildOpts{Batch: 120, TimeoutS: 900})
	evals := int64(0)
	for _, r := range res {
		pc := raw[r.Index]
		if r.Crash != nil {
			if r.Crash.Kind == "timeout" {
				c.Inconclusive("watchdog")
				continue
			}
			c.Violate("crash:"+r.Crash.Kind+":"+core.Trunc(strings.Join(strings.Fields(r.Crash.Detail), "_"), 80), r.Crash.Detail, map[string]any{"case": pc, "point": pc.P.String(), "crash": r.Crash})
			continue
		}
		var pr presult
		if json.Unmarshal(r.Out, &pr) != nil {
			c.Inconclusive("bad-child-output")
			continue
		}
		evals++
		c.Count("calls", int64(pr.Calls))
		c.Count("trace_events_compared", int64(pr.Events))
		c.Count("listener_events_delivered", int64(pr.Listener))
		c.Distinct("points", pc.P.String())
		c.Count("cache_"+cacheNames[pc.P.Cache], 1)
		if pr.CacheHit {
			c.Count("disk_cache_entry_present_before_compile", 1)
		}
		if pr.Inconcl != "" {
			c.Inconclusive(pr.Inconcl)
		}
		if pr.Sig != "" {
			c.Violate(pr.Sig, pr.Detail, map[string]any{"case": pc, "point": pc.P.String(), "bin_hex": pr.Bin})
		} else if pr.Events > 0 {
			c.Distinct("pairs", fmt.Sprint(r.Index))
		}
		if len(pr.Sample) > 0 && r.Index%1700 == 0 {
			c.Sample(map[string]any{"point": pc.P.String(), "prog_seed": pc.Prog, "trace_head": pr.Sample})
		}
	}
	c.Extra("lattice_points", len(pts))
	c.Extra("lattice_exhaustive_for_programs", nFull)
	c.Assume("error message text (stack traces) legitimately differs with debug info on/off: only the error class enters the trace")
	c.Assume("listener callbacks are not part of the guest trace (that is C20); memory limit and core features are semantic and held fixed")
	return c.Finish(evals, int64(c.DistinctN("pairs")),
		fmt.Sprintf("full lattice of %d configuration points (8 cache modes x capacity-from-max x guard-page allocator x debug info x custom sections x close-on-context-done x 4 listener settings (none, all, subset, factory returning nil for all) x 2 engines) for %d programs, plus %d PRNG (program, point) pairs; each pair: canonical guest trace at the point vs at the base point; non-trivial = traces compared with >=1 event", len(pts), nFull, nPairs))
}

type countListener struct{ n *int }

func (l countListener) Before(context.Context, api.Module, api.FunctionDefinition, []uint64, experimental.StackIterator) {
	*l.n++
}
func (l countListener) After(context.Context, api.Module, api.FunctionDefinition, []uint64) { *l.n++ }
func (l countListener) Abort(context.Context, api.Module, api.FunctionDefinition, error)    { *l.n++ }

type factory struct {
	n      *int
	subset bool
	none   bool
}

func (f factory) NewFunctionListener(d api.FunctionDefinition) experimental.FunctionListener {
	if f.none || (f.subset && d.Index()%2 == 1) {
		return nil
	}
	return countListener{f.n}
}

// options builds wrun options for a point; cleanup must be called afterwards.
func options(pt point, cache wazero.CompilationCache, events *int) (wrun.Options, func()) {
	ctx := context.Background()
	cleanup := func() {}
	if pt.Guard {
		ga := guardmem.New()
		ctx = experimental.WithMemoryAllocator(ctx, ga)
		cleanup = ga.FreeAll
	}
	if pt.Listeners > 0 {
		ctx = experimental.WithFunctionListenerFactory(ctx, factory{n: events, subset: pt.Listeners == 2, none: pt.Listeners == 3})
	}
	o := wrun.Options{Compiler: pt.Compiler, Ctx: ctx}
	o.RuntimeConfig = func(rc wazero.RuntimeConfig) wazero.RuntimeConfig {
		rc = rc.WithMemoryCapacityFromMax(pt.CapMax).WithDebugInfoEnabled(!pt.NoDebug).WithCustomSections(pt.Custom).WithCloseOnContextDone(pt.CloseCtx)
		if cache != nil {
			rc = rc.WithCompilationCache(cache)
		}
		return rc
	}
	return o, cleanup
}

func runOn(s *wrun.Session, p *wgen.Program, script []wrun.Step) *wrun.Trace {
	in := s.Instantiate(p, "guest")
	for si, st := range script {
		in.Step(si, st)
	}
	return in.T
}

func dirEntries(dir string) int {
	es, _ := os.ReadDir(dir)
	n := 0
	for _, e := range es {
		if !e.IsDir() && !strings.HasSuffix(e.Name(), ".tmp") {
			n++
		}
	}
	// wazero nests by version: count recursively
	filepath.Walk(dir, func(path string, info os.FileInfo, err error) error {
		if err == nil && !info.IsDir() && !strings.HasSuffix(path, ".tmp") {
			n++
		}
		return nil
	})
	return n
}

func child(mode string, in json.RawMessage) any {
	var pc pcase
	json.Unmarshal(in, &pc)
	if pc.Directed == "cross-module-listeners" {
		var pr presult
		fs, calls, shape := c20.CrossGuestVisible(pc.Prog)
		pr.Calls, pr.Events = calls, calls
		pr.Sample = []string{shape}
		if len(fs) > 0 {
			pr.Sig = "listeners-change-cross-module-behaviour:" + strings.TrimPrefix(fs[0].Sig, "cross-module:")
			pr.Detail = fs[0].Detail
			if b, err := json.Marshal(fs[0].Witness); err == nil {
				pr.Bin = string(b)
			}
		}
		return pr
	}
	if pc.Directed == "linked-modules" {
		return linkedCase(pc)
	}
	r := core.NewRng(int64(pc.Prog), 5)
	cfg := wgen.DefaultConfig(r)
	var p *wgen.Program
	var script []wrun.Step
	if pc.Directed == "deep-tail-calls" {
		p, script = deepTailCalls()
		cfg = p.Cfg
	} else if pc.Directed == "register-pressure" {
		p, script = registerPressure()
		cfg = p.Cfg
	} else {
		p = wgen.Generate(r, cfg)
		script = wrun.GenScript(r, p, 3+r.Intn(6))
		decorate(p, int64(pc.Prog))
	}
	feats := wrun.Features(cfg)
	pt := pc.P
	var pr presult
	if mode == "prime" {
		// a separate process that only compiles (and thereby fills the directory)
		cache, err := wazero.NewCompilationCacheWithDir(pc.Dir)
		if err != nil {
			return presult{Inconcl: "cache-dir-error"}
		}
		var ev int
		ptP := pt
		if pc.Prog&2 != 0 {
			// the process that fills the directory uses OTHER non-semantic settings than the process that reads it
			// (listener presence is part of the entry's identity, so it is kept)
			ptP.NoDebug, ptP.Custom, ptP.CapMax, ptP.CloseCtx = !pt.NoDebug, !pt.Custom, !pt.CapMax, pt.CloseCtx
		}
		o, cleanup := options(ptP, cache, &ev)
		s := wrun.NewSession(o, feats)
		runOn(s, p, script)
		s.Close()
		cache.Close(context.Background())
		cleanup()
		return pr
	}
	// base point
	base := wrun.Run(p, script, wrun.Options{Compiler: pt.Compiler})
	var events int
	var cache wazero.CompilationCache
	switch pt.Cache {
	case 1, 4, 5, 6, 7, 8:
		cache = wazero.NewCompilationCache()
	case 2, 3:
		pr.CacheHit = dirEntries(pc.Dir) > 0
		var err error
		cache, err = wazero.NewCompilationCacheWithDir(pc.Dir)
		if err != nil {
			return presult{Inconcl: "cache-dir-error"}
		}
	}
	o, cleanup := options(pt, cache, &events)
	var got *wrun.Trace
	switch pt.Cache {
	case 4, 5, 6:
		// runtime A with *different* other settings touches the shared cache first
		ptA := pt
		if pc.Prog&1 == 1 { // otherwise A and B have the same listener pattern (same module identity)
			ptA.Listeners = (pt.Listeners + 1) % 4
		}
		ptA.NoDebug, ptA.Custom, ptA.CapMax = !pt.NoDebug, !pt.Custom, !pt.CapMax
		var evA int
		oA, cleanupA := options(ptA, cache, &evA)
		sA := wrun.NewSession(oA, feats)
		inA := sA.Instantiate(p, "guest")
		if len(script) > 0 {
			inA.Step(0, script[0])
		}
		switch pt.Cache {
		case 5:
			sA.CloseCompiled(p)
		case 6:
			sA.Close()
		}
		sB := wrun.NewSession(o, feats)
		got = runOn(sB, p, script)
		sB.Close()
		if pt.Cache != 6 {
			sA.Close()
		}
		cleanupA()
	case 7:
		sB := wrun.NewSession(o, feats)
		if err := sB.Compile(p); err != "" {
			got = &wrun.Trace{Events: []string{"compile error: " + err}}
			sB.Close()
			break
		}
		ptA := pt
		if pc.Prog&1 == 1 {
			ptA.Listeners = (pt.Listeners + 1) % 4
		}
		var evA int
		oA, cleanupA := options(ptA, cache, &evA)
		sA := wrun.NewSession(oA, feats)
		sA.Instantiate(p, "guest")
		sA.CloseCompiled(p)
		sA.Close()
		cleanupA()
		got = runOn(sB, p, script)
		sB.Close()
	case 8:
		// both runtimes miss the in-memory cache at the same time and both add their result
		ptA := pt
		ptA.NoDebug, ptA.Custom, ptA.CapMax = !pt.NoDebug, !pt.Custom, !pt.CapMax
		var evA int
		oA, cleanupA := options(ptA, cache, &evA)
		sA := wrun.NewSession(oA, feats)
		sB := wrun.NewSession(o, feats)
		var wg sync.WaitGroup
		start := make(chan struct{})
		var errA, errB string
		wg.Add(2)
		go func() { defer wg.Done(); <-start; errA = sA.Compile(p) }()
		go func() { defer wg.Done(); <-start; errB = sB.Compile(p) }()
		close(start)
		wg.Wait()
		if errA != "" || errB != "" {
			got = &wrun.Trace{Events: []string{"compile error: " + errA + errB}}
		} else {
			sA.CloseCompiled(p)
			got = runOn(sB, p, script)
		}
		sB.Close()
		sA.Close()
		cleanupA()
	default:
		s := wrun.NewSession(o, feats)
		got = runOn(s, p, script)
		s.Close()
	}
	if cache != nil {
		cache.Close(context.Background())
	}
	cleanup()
	pr.Listener = events
	for _, e := range base.Events {
		if strings.HasPrefix(e, "call ") {
			pr.Calls++
		}
	}
	pr.Events = len(base.Events)
	switch {
	case base.Internal != "" || got.Internal != "":
		pr.Sig = "internal-failure"
		pr.Detail = base.Internal + " | " + got.Internal
	case base.StackOverflow || got.StackOverflow:
		pr.Inconcl = "stack-exhaustion"
	default:
		if idx, d := wrun.Diff(base, got); idx >= 0 {
			pr.Sig = "trace-differs-from-base:" + diffClass(base, got, idx) + ":cache=" + cacheNames[pt.Cache]
			if pt.Cache <= 1 {
				pr.Sig = "trace-differs-from-base:" + diffClass(base, got, idx) + ":" + culprit(p, script, pt)
			}
			pr.Detail = "point: " + pt.String() + "\n(A = base, B = point)\n" + d
		}
	}
	if pr.Sig != "" {
		pr.Bin = hex.EncodeToString(p.Bin)
	} else {
		pr.Sample = base.Events[:min(len(base.Events), 4)]
	}
	return pr
}

// decorate appends 0-3 custom sections (never semantic) to the binary of three programs out of four: arbitrary names,
// DWARF section names with arbitrary payloads, and empty payloads (also as the very last bytes of the module). Whether
// they are decoded depends on WithDebugInfoEnabled / WithCustomSections, so acceptance and behaviour must not.
func decorate(p *wgen.Program, seed int64) {
	r := core.NewRng(seed, 77)
	n := r.Intn(4)
	names := []string{"x", "", ".debug_info", ".debug_line", ".debug_abbrev", ".debug_str", ".debug_ranges", "producers", "target_features", "näme"}
	for i := 0; i < n; i++ {
		name := names[r.Intn(len(names))]
		var payload []byte
		switch r.Intn(4) {
		case 0: // empty
		case 1:
			payload = r.Bytes(1 + r.Intn(4))
		default:
			payload = r.Bytes(5 + r.Intn(60))
		}
		if r.Chance(1, 3) {
			// a well-formed, empty DWARF compilation-unit header: debug/dwarf accepts it, so the module "has debug
			// information" (trap paths then consult source offsets) although nothing maps to a line
			name = ".debug_info"
			payload = []byte{7, 0, 0, 0, 4, 0, 0, 0, 0, 0, 4}
		}
		body := append(wenc.U32(nil, uint32(len(name))), name...)
		body = append(body, payload...)
		p.Bin = append(p.Bin, 0)
		p.Bin = wenc.U32(p.Bin, uint32(len(body)))
		p.Bin = append(p.Bin, body...)
	}
}

// deepTailCalls builds count(n) = n==0 ? 42 : return_call count(n-1) and the same through
// return_call_indirect, to be called with n = 5 000 000: only proper tail calls survive that depth.
func deepTailCalls() (*wgen.Program, []wrun.Step) {
	m := &wenc.Module{}
	i32 := []wenc.ValType{wenc.I32}
	ti := m.AddType(i32, i32)
	m.Tables = []wenc.TableType{{Elem: wenc.FuncRef, Lim: wenc.Limits{Min: 2}}}
	m.Mems = []wenc.Limits{{Min: 1, Max: 1, HasMax: true}}
	c0 := &wenc.Code{}
	c0.LocalGet(0).Op(0x45).If(0x40).I32Const(42).Return().End().LocalGet(0).I32Const(1).Op(0x6b).ReturnCall(0).End()
	f0 := m.AddFunc(i32, i32, nil, c0.B)
	c1 := &wenc.Code{}
	c1.LocalGet(0).Op(0x45).If(0x40).I32Const(42).Return().End().LocalGet(0).I32Const(1).Op(0x6b).I32Const(1).ReturnCallIndirect(ti, 0).End()
	f1 := m.AddFunc(i32, i32, nil, c1.B)
	m.Elems = []wenc.Elem{{Mode: 0, Offset: wenc.ConstI32(0), FuncIdx: []uint32{f0, f1}}}
	m.ExportFunc("f0", f0)
	m.ExportFunc("f1", f1)
	m.ExportFunc("__setfuel", m.AddFunc(i32, nil, nil, (&wenc.Code{}).End().B))
	m.Exports = append(m.Exports, wenc.Export{Name: "mem", Kind: wenc.ExtMemory})
	p := &wgen.Program{Bin: m.Encode(), Cfg: wgen.Config{TailCall: true, Fuel: 1}, OpsUsed: map[string]int{"return_call": 1},
		Funcs: []wgen.FuncSig{{Params: i32, Results: i32}, {Params: i32, Results: i32}}, FuncIndex: map[string]uint32{"f0": f0, "f1": f1}, Types: m.Types, Mod: m}
	return p, []wrun.Step{{Kind: "call", Fn: "f0", Args: []uint64{5000000}}, {Kind: "call", Fn: "f1", Args: []uint64{5000000}}, {Kind: "call", Fn: "f0", Args: []uint64{3}}}
}

// registerPressure builds kernels that keep 24 f64, 12 i64 and 2 v128-free accumulators live across a loop header (more than
// the machine has registers, so every allocatable register including the callee-saved ones is in use) with one
// runtime-assisted operation inside the loop: nothing (the loop header itself carries the close-on-context-done check),
// memory.grow 0, table.grow 0 + ref.func, a host call, a call to a small wasm function (listener trampolines). Whatever the
// runtime inserts at a configuration point must preserve all of them.
func registerPressure() (*wgen.Program, []wrun.Step) {
	m := &wenc.Module{}
	i32, i64, f64 := wenc.I32, wenc.I64, wenc.F64
	h0 := m.ImportFunc("env", "h0", []wenc.ValType{i64}, nil)
	m.Tables = []wenc.TableType{{Elem: wenc.FuncRef, Lim: wenc.Limits{Min: 2, Max: 8, HasMax: true}}}
	m.Mems = []wenc.Limits{{Min: 1, Max: 2, HasMax: true}}
	idc := &wenc.Code{}
	idc.LocalGet(0).F64Const(math.Float64bits(0.75)).Op(0xa2).End()
	id := m.AddFunc([]wenc.ValType{f64}, []wenc.ValType{f64}, nil, idc.B)
	const nf, ni = 24, 12
	var locals []wenc.ValType
	for k := 0; k < nf; k++ {
		locals = append(locals, f64)
	}
	for k := 0; k < ni; k++ {
		locals = append(locals, i64)
	}
	locals = append(locals, i32)
	a := func(k int) uint32 { return uint32(1 + k%nf) }
	b := func(k int) uint32 { return uint32(1 + nf + k%ni) }
	ctr := uint32(1 + nf + ni)
	p := &wgen.Program{Cfg: wgen.Config{Fuel: 1}, OpsUsed: map[string]int{"register-pressure": 1}, FuncIndex: map[string]uint32{},
		Host: []wgen.HostImport{{Name: "h0", Kind: "log", Params: []wenc.ValType{i64}}}}
	var steps []wrun.Step
	for v := 0; v < 5; v++ {
		c := &wenc.Code{}
		for k := 0; k < nf; k++ {
			c.F64Const(math.Float64bits(float64(k) + 1.5)).LocalSet(a(k))
		}
		for k := 0; k < ni; k++ {
			c.I64Const(int64(k*7 + 3)).LocalSet(b(k))
		}
		c.Loop(0x40)
		for k := 0; k < nf; k++ {
			c.LocalGet(a(k)).F64Const(math.Float64bits(0.5)).Op(0xa2).LocalGet(a(k + 1)).F64Const(math.Float64bits(0.25)).Op(0xa2).Op(0xa0).F64Const(math.Float64bits(1)).Op(0xa0).LocalSet(a(k))
		}
		for k := 0; k < ni; k++ {
			c.LocalGet(b(k)).I64Const(31).Op(0x7e).LocalGet(b(k + 1)).Op(0x85).LocalSet(b(k))
		}
		switch v {
		case 1:
			c.I32Const(0).MemoryGrow().Drop()
		case 2:
			c.RefNull(wenc.FuncRef).I32Const(0).Prefixed(0xfc, 15).U32(0).Drop()
			c.RefFunc(id).Drop()
		case 3:
			c.LocalGet(b(0)).Call(h0)
		case 4:
			c.LocalGet(a(0)).Call(id).LocalSet(a(0))
		}
		c.LocalGet(ctr).I32Const(1).Op(0x6a).LocalTee(ctr).LocalGet(0).Op(0x49).BrIf(0)
		c.End()
		c.LocalGet(a(0))
		for k := 1; k < nf; k++ {
			c.LocalGet(a(k)).Op(0xa0)
		}
		c.LocalGet(b(0))
		for k := 1; k < ni; k++ {
			c.LocalGet(b(k)).Op(0x85)
		}
		c.Op(0xb9).Op(0xa0).End()
		fi := m.AddFunc([]wenc.ValType{i32}, []wenc.ValType{f64}, locals, c.B)
		name := fmt.Sprintf("f%d", v)
		m.ExportFunc(name, fi)
		p.Funcs = append(p.Funcs, wgen.FuncSig{Params: []wenc.ValType{i32}, Results: []wenc.ValType{f64}})
		p.FuncIndex[name] = fi
		steps = append(steps, wrun.Step{Kind: "call", Fn: name, Args: []uint64{uint64(3 + 7*v)}})
	}
	m.Elems = []wenc.Elem{{Mode: 2, FuncIdx: []uint32{id}}} // declarative: ref.func id is allowed
	m.ExportFunc("__setfuel", m.AddFunc([]wenc.ValType{i32}, nil, nil, (&wenc.Code{}).End().B))
	m.Exports = append(m.Exports, wenc.Export{Name: "mem", Kind: wenc.ExtMemory})
	p.Bin, p.Types, p.Mod = m.Encode(), m.Types, m
	return p, steps
}

// culprit finds a single option that alone reproduces a difference (for the signature).
func culprit(p *wgen.Program, script []wrun.Step, pt point) string {
	base := wrun.Run(p, script, wrun.Options{Compiler: pt.Compiler})
	try := func(q point) bool {
		var ev int
		var cache wazero.CompilationCache
		if q.Cache == 1 {
			cache = wazero.NewCompilationCache()
			defer cache.Close(context.Background())
		}
		o, cleanup := options(q, cache, &ev)
		defer cleanup()
		got := wrun.Run(p, script, o)
		idx, _ := wrun.Diff(base, got)
		return idx >= 0
	}
	single := []struct {
		name string
		q    point
	}{
		{"in-memory-cache", point{Cache: 1}}, {"capFromMax", point{CapMax: true}}, {"guardmem", point{Guard: true}}, {"debugInfoOff", point{NoDebug: true}},
		{"customSections", point{Custom: true}}, {"listeners-all", point{Listeners: 1}}, {"listeners-subset", point{Listeners: 2}}, {"listeners-nil-for-all", point{Listeners: 3}}, {"closeOnCtxDone", point{CloseCtx: true}},
	}
	for _, s := range single {
		q := s.q
		q.Compiler = pt.Compiler
		if try(q) {
			return "option=" + s.name
		}
	}
	return "option=combination"
}

func diffClass(a, b *wrun.Trace, idx int) string {
	get := func(t *wrun.Trace) string {
		if idx < len(t.Events) {
			return t.Events[idx]
		}
		return "<end>"
	}
	eb := get(b)
	switch {
	case strings.HasPrefix(eb, "instantiate: error"), strings.HasPrefix(eb, "compile error"):
		f := strings.Fields(eb)
		if len(f) > 6 {
			f = f[:6]
		}
		return strings.Join(f, "_")
	case strings.Contains(eb, "state:"):
		return "state"
	case strings.HasPrefix(eb, "call "):
		return "call-outcome"
	}
	return "event"
}
