package c12

import (
	"strings"
	"testing"

	"github.com/tetratelabs/wazero/verifharness/wrun"
)

// The directed programs must run to completion (results, no traps) on both engines at the base point.
func TestDirectedProgramsRun(t *testing.T) {
	p, script := registerPressure()
	for _, comp := range []bool{false, true} {
		tr := wrun.Run(p, script, wrun.Options{Compiler: comp})
		if tr.Internal != "" {
			t.Fatal(tr.Internal)
		}
		calls := 0
		for _, e := range tr.Events {
			if strings.HasPrefix(e, "call ") {
				calls++
				if !strings.Contains(e, "-> [") {
					t.Errorf("compiler=%v: %s", comp, e)
				}
			}
		}
		if calls != len(script) {
			t.Errorf("compiler=%v: %d call events, want %d: %v", comp, calls, len(script), tr.Events)
		}
		if !comp {
			for _, e := range tr.Events {
				if strings.HasPrefix(e, "call ") || strings.HasPrefix(e, "  host") {
					t.Log(e)
				}
			}
		}
	}
}
