package c12

import (
	"fmt"
	"strings"

	"github.com/tetratelabs/wazero"
	"github.com/tetratelabs/wazero/api"
	"github.com/tetratelabs/wazero/experimental"
	"github.com/tetratelabs/wazero/verifharness/core"
	"github.com/tetratelabs/wazero/verifharness/wenc"
	"github.com/tetratelabs/wazero/verifharness/wrun"
)

// Directed "linked-modules" case: an exporter of a memory and a table, grown by a PRNG amount, and importers whose
// declared limits lie around the exporter's current size and maximum. Whether each importer links, and what both
// sides then observe through the shared memory, is recorded as a trace; the trace at every lattice point must equal
// the trace of the base point (no configuration, same engine). Link decisions are guest-visible behaviour: a setting
// such as WithMemoryCapacityFromMax, which only chooses how much is allocated in advance, must not change them.

func linkedExporter(min, max uint32, hasMax bool, tmin uint32) []byte {
	m := &wenc.Module{}
	m.Mems = append(m.Mems, wenc.Limits{Min: min, Max: max, HasMax: hasMax})
	m.Tables = append(m.Tables, wenc.TableType{Elem: wenc.FuncRef, Lim: wenc.Limits{Min: tmin, Max: tmin + 6, HasMax: true}})
	m.Exports = append(m.Exports, wenc.Export{Name: "mem", Kind: wenc.ExtMemory, Idx: 0}, wenc.Export{Name: "tab", Kind: wenc.ExtTable, Idx: 0})
	i32 := []wenc.ValType{wenc.I32}
	m.ExportFunc("grow", m.AddFunc(i32, i32, nil, (&wenc.Code{}).LocalGet(0).MemoryGrow().End().B))
	m.ExportFunc("size", m.AddFunc(nil, i32, nil, (&wenc.Code{}).MemorySize().End().B))
	m.ExportFunc("peek", m.AddFunc(i32, i32, nil, (&wenc.Code{}).LocalGet(0).Mem(0x28, 2, 0).End().B))
	m.ExportFunc("poke", m.AddFunc([]wenc.ValType{wenc.I32, wenc.I32}, nil, nil, (&wenc.Code{}).LocalGet(0).LocalGet(1).Mem(0x36, 2, 0).End().B))
	m.ExportFunc("tgrow", m.AddFunc(i32, i32, nil, (&wenc.Code{}).RefNull(wenc.FuncRef).LocalGet(0).Prefixed(0xfc, 15).U32(0).End().B))
	return m.Encode()
}

func linkedImporter(min, max uint32, hasMax bool, withTable bool, tmin uint32) []byte {
	m := &wenc.Module{}
	m.Imports = append(m.Imports, wenc.Import{Module: "e", Name: "mem", Kind: wenc.ExtMemory, Mem: wenc.Limits{Min: min, Max: max, HasMax: hasMax}})
	if withTable {
		m.Imports = append(m.Imports, wenc.Import{Module: "e", Name: "tab", Kind: wenc.ExtTable, Table: wenc.TableType{Elem: wenc.FuncRef, Lim: wenc.Limits{Min: tmin}}})
	}
	i32 := []wenc.ValType{wenc.I32}
	m.ExportFunc("grow", m.AddFunc(i32, i32, nil, (&wenc.Code{}).LocalGet(0).MemoryGrow().End().B))
	m.ExportFunc("size", m.AddFunc(nil, i32, nil, (&wenc.Code{}).MemorySize().End().B))
	m.ExportFunc("peek", m.AddFunc(i32, i32, nil, (&wenc.Code{}).LocalGet(0).Mem(0x28, 2, 0).End().B))
	m.ExportFunc("poke", m.AddFunc([]wenc.ValType{wenc.I32, wenc.I32}, nil, nil, (&wenc.Code{}).LocalGet(0).LocalGet(1).Mem(0x36, 2, 0).End().B))
	return m.Encode()
}

// linkedTrace runs the scenario derived from seed in the session's runtime.
func linkedTrace(s *wrun.Session, seed uint64) (tr []string, calls int) {
	r := core.NewRng(int64(seed), 61)
	min := uint32(r.Intn(3))
	hasMax := true // always: with capacity-from-max a memory without a maximum reserves 4 GiB
	_ = r.Chance(3, 4)
	max := min + uint32(1+r.Intn(4))
	tmin := uint32(1 + r.Intn(3))
	pre := uint32(r.Intn(3))
	tpre := uint32(r.Intn(3))
	call := func(mod api.Module, fn string, args ...uint64) string {
		calls++
		res, err := mod.ExportedFunction(fn).Call(s.Ctx, args...)
		if err != nil {
			return "error: " + strings.SplitN(err.Error(), "\n", 2)[0]
		}
		return fmt.Sprint(res)
	}
	add := func(f string, a ...any) { tr = append(tr, fmt.Sprintf(f, a...)) }
	e, err := s.Rt.InstantiateWithConfig(s.Ctx, linkedExporter(min, max, hasMax, tmin), wazero.NewModuleConfig().WithName("e"))
	if err != nil {
		add("exporter(min=%d,max=%d/%v): %s", min, max, hasMax, strings.SplitN(err.Error(), "\n", 2)[0])
		return
	}
	add("exporter(min=%d,max=%d/%v,tmin=%d) ok", min, max, hasMax, tmin)
	add("e.grow(%d) -> %s", pre, call(e, "grow", uint64(pre)))
	add("e.tgrow(%d) -> %s", tpre, call(e, "tgrow", uint64(tpre)))
	add("e.poke(8, 0x11223344) -> %s", call(e, "poke", 8, 0x11223344))
	cur := uint32(0)
	if m := e.Memory(); m != nil {
		cur = m.Size() / 65536
	}
	n := 0
	for _, imin := range []uint32{0, cur, cur + 1, cur + 2, max, max + 1} {
		for _, imax := range []int64{-1, int64(max), int64(max) + 1, int64(cur)} {
			for _, wt := range []int{-1, 0, 1, 2} { // table import: none / min below / at / above the current size
				if wt >= 0 && (imax != -1 || imin > cur+1) {
					continue
				}
				n++
				itmin := tmin + tpre
				if wt >= 0 {
					itmin = tmin + tpre - 1 + uint32(wt)
				}
				bin := linkedImporter(imin, uint32(max64(imax, 0)), imax >= 0, wt >= 0, itmin)
				name := fmt.Sprintf("i%d", n)
				im, err := s.Rt.InstantiateWithConfig(s.Ctx, bin, wazero.NewModuleConfig().WithName(name))
				if err != nil {
					add("%s import mem(min=%d,max=%d) tab(%d: min=%d): %s", name, imin, imax, wt, itmin, strings.SplitN(err.Error(), "\n", 2)[0])
					continue
				}
				add("%s import mem(min=%d,max=%d) tab(%d: min=%d): ok", name, imin, imax, wt, itmin)
				add(" %s.size -> %s   e.size -> %s", name, call(im, "size"), call(e, "size"))
				add(" %s.peek(8) -> %s", name, call(im, "peek", 8))
				if n%3 == 0 {
					add(" %s.grow(1) -> %s   e.size -> %s", name, call(im, "grow", 1), call(e, "size"))
					last := uint64(0)
					if m := e.Memory(); m != nil && m.Size() >= 4 {
						last = uint64(m.Size() - 4)
					}
					add(" %s.poke(last, n) -> %s   e.peek(last) -> %s", name, call(im, "poke", last, uint64(n)), call(e, "peek", last))
					if m := e.Memory(); m != nil {
						cur = m.Size() / 65536
					}
				}
				im.Close(s.Ctx)
			}
		}
	}
	return
}

func max64(a, b int64) int64 {
	if a > b {
		return a
	}
	return b
}

// linkedCase: trace at the point vs trace at the base point (same engine, no other setting).
func linkedCase(pc pcase) presult {
	var pr presult
	feats := api.CoreFeaturesV2 | experimental.CoreFeaturesThreads
	bs := wrun.NewSession(wrun.Options{Compiler: pc.P.Compiler}, feats)
	base, calls := linkedTrace(bs, pc.Prog)
	bs.Close()
	var cache wazero.CompilationCache
	if pc.P.Cache == 1 {
		cache = wazero.NewCompilationCache()
		defer cache.Close(nil)
	}
	var events int
	o, cleanup := options(pc.P, cache, &events)
	s := wrun.NewSession(o, feats)
	got, _ := linkedTrace(s, pc.Prog)
	s.Close()
	cleanup()
	pr.Calls, pr.Events, pr.Listener = calls, len(base), events
	for i := 0; i < len(base) || i < len(got); i++ {
		a, b := "<end>", "<end>"
		if i < len(base) {
			a = base[i]
		}
		if i < len(got) {
			b = got[i]
		}
		if a != b {
			kind := "call-result"
			if strings.Contains(a, "import mem") || strings.Contains(b, "import mem") {
				kind = "link-decision"
			}
			pr.Sig = "linked-modules:trace-differs-from-base:" + kind + ":" + culpritOf(pc.P)
			pr.Detail = fmt.Sprintf("point: %s\nscenario seed %d, trace line %d\n base:  %s\n point: %s", pc.P.String(), pc.Prog, i, a, b)
			return pr
		}
	}
	pr.Sample = base[:min(len(base), 4)]
	return pr
}

// culpritOf names the settings of the point that differ from the base point.
func culpritOf(pt point) string {
	var on []string
	if pt.Cache != 0 {
		on = append(on, "cache")
	}
	if pt.CapMax {
		on = append(on, "capFromMax")
	}
	if pt.Guard {
		on = append(on, "allocator")
	}
	if pt.NoDebug {
		on = append(on, "noDebugInfo")
	}
	if pt.Custom {
		on = append(on, "customSections")
	}
	if pt.Listeners != 0 {
		on = append(on, "listeners")
	}
	if pt.CloseCtx {
		on = append(on, "closeOnCtxDone")
	}
	if len(on) > 2 {
		return fmt.Sprintf("%d-settings", len(on))
	}
	return strings.Join(on, "+")
}
