package c16

import (
	"sort"
	"strings"
)

// WASI snapshot-01 errno values (written down from the specification's list,
// not imported from wazero).
const (
	eSUCCESS  = 0
	eBADF     = 8
	eEXIST    = 20
	eINVAL    = 28
	eIO       = 29
	eISDIR    = 31
	eNOENT    = 44
	eNOTDIR   = 54
	eNOTEMPTY = 55
	eNOTSUP   = 58
	ePERM     = 63
)

var errnoNames = map[uint32]string{0: "OK", 2: "EACCES", 8: "EBADF", 20: "EEXIST", 21: "EFAULT", 22: "EFBIG", 28: "EINVAL", 29: "EIO",
	31: "EISDIR", 37: "ENAMETOOLONG", 44: "ENOENT", 52: "ENOSYS", 54: "ENOTDIR", 55: "ENOTEMPTY", 58: "ENOTSUP", 61: "EOVERFLOW",
	63: "EPERM", 70: "ESPIPE", 76: "ENOTCAPABLE"}

func errName(e uint32) string {
	if s, ok := errnoNames[e]; ok {
		return s
	}
	return "E" + itoa(int(e))
}

func itoa(i int) string {
	if i == 0 {
		return "0"
	}
	neg := i < 0
	if neg {
		i = -i
	}
	var b [20]byte
	p := len(b)
	for i > 0 {
		p--
		b[p] = byte('0' + i%10)
		i /= 10
	}
	if neg {
		p--
		b[p] = '-'
	}
	return string(b[p:])
}

// WASI constants used by the driver.
const (
	oCREAT     = 1
	oDIRECTORY = 2
	oEXCL      = 4
	oTRUNC     = 8

	fdAPPEND   = 1
	fdDSYNC    = 2
	fdNONBLOCK = 4
	fdRSYNC    = 8
	fdSYNC     = 16

	rightRead  = 1 << 1
	rightWrite = 1 << 6

	ftDir  = 3
	ftFile = 4

	firstFreeFd = 4 // 0,1,2 stdio, 3 the pre-opened mount
	preopenFd   = 3
)

// ---------------------------------------------------------------------------
// fs model: a tree of inodes; open file descriptions; a descriptor table.

type inode struct {
	id       int
	isDir    bool
	data     []byte
	children map[string]*inode // directories
	ever     map[string]bool   // directories: every name that was ever an entry
	parent   *inode            // directories only (nil for root and removed dirs)
	linked   bool              // false once unlinked / removed
}

// ofd is an open file description.
type ofd struct {
	ino      *inode
	off      int64
	append   bool
	canRead  bool
	canWrite bool
	nonblock bool
	opened   string // path text it was opened with (diagnostics only)
}

type model struct {
	root   *inode
	fds    map[int32]*ofd // descriptors >= firstFreeFd; preopen is implicit
	nextID int
	rootFd *ofd
}

func newModel() *model {
	m := &model{fds: map[int32]*ofd{}}
	m.root = m.newInode(true)
	m.rootFd = &ofd{ino: m.root, canRead: true}
	return m
}

func (m *model) newInode(dir bool) *inode {
	m.nextID++
	n := &inode{id: m.nextID, isDir: dir, linked: true}
	if dir {
		n.children = map[string]*inode{}
		n.ever = map[string]bool{}
	}
	return n
}

// link makes node an entry of directory d.
func (d *inode) link(name string, node *inode) {
	d.children[name] = node
	d.ever[name] = true
}

// lowestFree is the POSIX rule: the lowest-numbered descriptor not open.
func (m *model) lowestFree() int32 {
	for fd := int32(firstFreeFd); ; fd++ {
		if _, ok := m.fds[fd]; !ok {
			return fd
		}
	}
}

// lookupFd returns the description for fd (including the preopen), or nil.
func (m *model) lookupFd(fd int32) *ofd {
	if fd == preopenFd {
		return m.rootFd
	}
	return m.fds[fd]
}

func (m *model) maxFd() int32 {
	mx := int32(preopenFd)
	for fd := range m.fds {
		if fd > mx {
			mx = fd
		}
	}
	return mx
}

func (m *model) sortedFds() []int32 {
	out := make([]int32, 0, len(m.fds))
	for fd := range m.fds {
		out = append(out, fd)
	}
	sort.Slice(out, func(i, j int) bool { return out[i] < out[j] })
	return out
}

// resolution of a path relative to a directory inode, POSIX style, with the
// WASI sandbox rule that ".." may not leave the start directory.
type resolved struct {
	err      uint32 // 0, ENOENT or ENOTDIR for a failing intermediate/final lookup
	escape   bool   // leaves the directory the descriptor refers to, or is absolute
	parent   *inode // directory that holds (or would hold) the final component
	name     string // final component ("" when the path denotes the start directory)
	node     *inode // nil when the final component does not exist
	trailing bool   // path had a trailing slash
}

func (m *model) resolve(start *inode, path string) resolved {
	var r resolved
	if strings.HasPrefix(path, "/") {
		r.escape = true
		return r
	}
	r.trailing = strings.HasSuffix(path, "/")
	var comps []string
	for _, c := range strings.Split(path, "/") {
		if c != "" {
			comps = append(comps, c)
		}
	}
	if len(comps) == 0 {
		r.node = start
		return r
	}
	// lexical check first: a path that climbs above its start is refused
	// whether or not the components exist
	depth := 0
	for _, c := range comps {
		switch c {
		case ".":
		case "..":
			depth--
		default:
			depth++
		}
		if depth < 0 {
			r.escape = true
			return r
		}
	}
	cur := start
	var stack []*inode // directories entered below start
	for i, c := range comps {
		last := i == len(comps)-1
		if c == "." {
			if last {
				r.node = cur // name "" : the path denotes a directory reached by a dot component
				return r
			}
			continue
		}
		if c == ".." {
			if len(stack) == 0 {
				r.escape = true
				return r
			}
			cur = stack[len(stack)-1]
			stack = stack[:len(stack)-1]
			if last {
				r.node = cur
				return r
			}
			continue
		}
		var child *inode
		if cur.linked || cur == m.root { // a removed directory has no entries
			child = cur.children[c]
		}
		if last {
			r.parent, r.name, r.node = cur, c, child
			if child != nil && r.trailing && !child.isDir {
				r.err = eNOTDIR
			}
			return r
		}
		if child == nil {
			r.err = eNOENT
			return r
		}
		if !child.isDir {
			r.err = eNOTDIR
			return r
		}
		stack = append(stack, cur)
		cur = child
	}
	return r
}

func nameOf(parent, child *inode) string {
	for n, c := range parent.children {
		if c == child {
			return n
		}
	}
	return ""
}

// isAncestor reports whether a is b or an ancestor directory of b.
func isAncestor(a, b *inode) bool {
	for x := b; x != nil; x = x.parent {
		if x == a {
			return true
		}
	}
	return false
}

// pathOf gives the path of a linked inode from the root ("" if not reachable).
func (m *model) pathOf(n *inode) string {
	var find func(d *inode, prefix string) string
	find = func(d *inode, prefix string) string {
		for name, c := range d.children {
			p := prefix + name
			if c == n {
				return p
			}
			if c.isDir {
				if s := find(c, p+"/"); s != "" {
					return s
				}
			}
		}
		return ""
	}
	if n == m.root {
		return "."
	}
	return find(m.root, "")
}

// snapshot renders the linked tree: path -> "dir" | "file:<hex content>".
func (m *model) snapshot() map[string]string {
	out := map[string]string{}
	var walk func(d *inode, prefix string)
	walk = func(d *inode, prefix string) {
		for name, c := range d.children {
			if c.isDir {
				out[prefix+name] = "dir"
				walk(c, prefix+name+"/")
			} else {
				out[prefix+name] = "file:" + hexs(c.data)
			}
		}
	}
	walk(m.root, "")
	return out
}

const hexd = "0123456789abcdef"

func hexs(b []byte) string {
	out := make([]byte, 0, 2*len(b))
	for _, x := range b {
		out = append(out, hexd[x>>4], hexd[x&15])
	}
	return string(out)
}

// file data primitives
func (n *inode) readAt(off int64, l int) []byte {
	if off >= int64(len(n.data)) || l <= 0 {
		return nil
	}
	end := off + int64(l)
	if end > int64(len(n.data)) {
		end = int64(len(n.data))
	}
	return n.data[off:end]
}

func (n *inode) writeAt(off int64, b []byte) {
	if len(b) == 0 {
		return
	}
	end := off + int64(len(b))
	if end > int64(len(n.data)) {
		nd := make([]byte, end)
		copy(nd, n.data)
		n.data = nd
	}
	copy(n.data[off:], b)
}

func (n *inode) truncate(size int64) {
	if size <= int64(len(n.data)) {
		n.data = n.data[:size:size]
		return
	}
	nd := make([]byte, size)
	copy(nd, n.data)
	n.data = nd
}

// counts for the tree limits of the workload
func (m *model) countFiles() (files, dirs int) {
	var walk func(d *inode)
	walk = func(d *inode) {
		for _, c := range d.children {
			if c.isDir {
				dirs++
				walk(c)
			} else {
				files++
			}
		}
	}
	walk(m.root)
	return
}

func (m *model) depthOf(d *inode) int {
	n := 0
	for x := d; x != nil && x != m.root; x = x.parent {
		n++
	}
	return n
}

// openFdsOf lists descriptors whose description refers to inode n.
func (m *model) openFdsOf(n *inode) []int32 {
	var out []int32
	for _, fd := range m.sortedFds() {
		if m.fds[fd].ino == n {
			out = append(out, fd)
		}
	}
	return out
}
