// Package c16 decides C16 (WASI file operations behave like a POSIX-style
// reference model). Histories of WASI file-system calls are issued as a guest
// (wasiproxy) against a real temp directory mounted with WithDirMount, on the
// interpreter and the compiler engine, while a descriptor model (lowest-free
// allocation, close, renumber-moves) and an in-memory fs model (tree, contents,
// per-description offset / append flag) predict errno and output buffers of
// every call for which the model is defined, and the host directory tree after
// the history. A second workload checks the fd_readdir enumeration contract
// for arbitrary buffer sizes and cookie sequences.
package c16

import (
	"encoding/json"
	"fmt"
	"os"
	"sort"
	"strings"
	"time"

	"github.com/tetratelabs/wazero/verifharness/core"
)

var Prop = &core.Prop{ID: "C16", Run: run, Child: child, Replay: replay}

// interaction classes the workload must reach (prefixes of op:scenario keys)
var requiredClasses = []string{
	"path_open:", "fd_close:file", "fd_close:closed",
	"fd_renumber:onto-itself", "fd_renumber:onto-open", "fd_renumber:onto-closed", "fd_renumber:from-closed",
	"fd_read:file", "fd_pread:file", "fd_write:file", "fd_pwrite:file", "fd_write:file:O_APPEND",
	"fd_seek:file", "fd_tell:file", "fd_filestat_get:", "fd_filestat_set_size:file",
	"fd_readdir:dir", "fd_readdir:preopen",
	"path_create_directory:missing", "path_remove_directory:dir", "path_unlink_file:file", "path_rename:src-file", "path_rename:src-dir",
	"path_filestat_get:file",
}

// substrings that must occur in some scenario key
var requiredInteractions = []string{
	":reuses-closed-fd", ":shrink", ":grow", ":replace", ":non-empty", "path_unlink_file:file:open", "path_unlink_file:file:via-dirfd:open|path_unlink_file:file:open",
	":unlinked", ":past-eof", ":O_TRUNC", ":via-dirfd", ":into-own-subtree", ":open-target|:open-source",
}

func run(c *core.Ctx) int {
	nHist := c.N(2500, 60000)
	nRd := c.N(4000, 150000)
	root, err := os.MkdirTemp("", "c16-")
	if err != nil {
		fmt.Println("cannot create temp dir:", err)
		return 2
	}
	defer os.RemoveAll(root)
	rng := core.NewRng(c.Seed, 16)
	var hcases []json.RawMessage
	for i := 0; i < nHist; i++ {
		hcases = append(hcases, core.J(histCase{Seed: rng.U64(), Ops: 10 + rng.Intn(51), Root: root}))
	}
	hres := core.RunCases(c, "hist", hcases, core.ChildOpts{Batch: 40, TimeoutS: 900, RlimitAS: 4 << 30})
	c.Extra("phase_histories_s", time.Since(c.Start).Seconds())
	var rcases []json.RawMessage
	for i := 0; i < nRd; i++ {
		n := rng.Intn(41)
		switch x := rng.Intn(100); {
		case x < 4:
			n = 100
		case x < 5:
			n = 1000
		case x < 12:
			n = rng.Intn(4)
		}
		buf := 0
		if i%3 == 0 {
			buf = 24 + (i/3)%177
		}
		rcases = append(rcases, core.J(rdCase{Seed: rng.U64(), N: n, Buf: buf, Root: root}))
	}
	rres := core.RunCases(c, "readdir", rcases, core.ChildOpts{Batch: 40, TimeoutS: 900, RlimitAS: 4 << 30})

	nMany := c.N(36, 600)
	var mcases []json.RawMessage
	for i := 0; i < nMany; i++ {
		mcases = append(mcases, core.J(manyCase{Seed: rng.U64(), Root: root}))
	}
	mres := core.RunCases(c, "many", mcases, core.ChildOpts{Batch: 3, TimeoutS: 900, RlimitAS: 4 << 30})

	nRepl := c.N(60, 2000)
	var xcases []json.RawMessage
	for i := 0; i < nRepl; i++ {
		xcases = append(xcases, core.J(replCase{Seed: rng.U64(), Root: root}))
	}
	xres := core.RunCases(c, "replace", xcases, core.ChildOpts{Batch: 10, TimeoutS: 900, RlimitAS: 4 << 30})

	nFsm := c.N(240, 6000)
	var fcases []json.RawMessage
	for i := 0; i < nFsm; i++ {
		fcases = append(fcases, core.J(fsmCase{Seed: rng.U64(), Kind: []string{"dirfs", "mapfs", "seekfs", "plainfs"}[i%4], Root: root}))
	}
	fres := core.RunCases(c, "fsmount", fcases, core.ChildOpts{Batch: 10, TimeoutS: 900, RlimitAS: 4 << 30})

	evals := int64(0)
	crash := func(mode string, cs json.RawMessage, r core.CaseResult) bool {
		if r.Crash == nil {
			return false
		}
		if r.Crash.Kind == "timeout" {
			c.Inconclusive("watchdog")
			return true
		}
		c.Violate("crash:"+mode+":"+r.Crash.Kind+":"+firstWords(r.Crash.Detail), r.Crash.Detail,
			map[string]any{"mode": mode, "case": cs, "crash": r.Crash})
		return true
	}
	scenTotals := map[string]int64{}
	for _, r := range hres {
		if crash("hist", hcases[r.Index], r) {
			continue
		}
		var out struct {
			Runs   []*histResult `json:"runs"`
			Engine string        `json:"engine_diff,omitempty"`
		}
		if err := json.Unmarshal(r.Out, &out); err != nil || len(out.Runs) == 0 {
			c.Inconclusive("bad-child-output")
			continue
		}
		if out.Engine != "" {
			c.Violate("engines-differ:history", out.Engine, map[string]any{"mode": "hist", "case": hcases[r.Index], "detail": out.Engine})
		}
		for ei, hr := range out.Runs {
			if strings.HasPrefix(hr.Ended, "harness:") {
				c.Inconclusive("harness-error")
				continue
			}
			evals++
			c.Count("histories_"+engineNames[ei], 1)
			c.Count("history_ops", int64(hr.NOps))
			c.Count("calls_defined", int64(hr.Defined))
			c.Count("calls_unspecified", int64(hr.Unspecified))
			c.Count("fd_allocation_checks", int64(hr.FdAlloc))
			c.Count("readdir_passes_in_histories", int64(hr.RdPasses))
			c.Count("host_tree_comparisons", int64(hr.TreeCmp))
			c.Count("final_sweeps", int64(hr.Sweeps))
			c.Count("violations_history_continued", int64(hr.Soft))
			if hr.Ended != "" {
				c.Count("history_ended:"+strings.SplitN(hr.Ended, " ", 2)[0], 1)
			}
			for k, n := range hr.Calls {
				c.Count("call_"+k, int64(n))
			}
			for k, n := range hr.Scen {
				scenTotals[k] += int64(n)
				c.Distinct("scenarios", k)
			}
			if hr.NOps >= 10 {
				c.Distinct("history_shapes", hr.Shape)
			}
			if r.Index%499 == 0 && ei == 0 {
				c.Sample(map[string]any{"mode": "hist", "case": hcases[r.Index], "first_calls": hr.Log})
			}
			for fi, f := range hr.Findings {
				c.Count("finding:"+f.Sig, 1)
				if hr.Ended == "violation" && fi == len(hr.Findings)-1 {
					c.Count("history_stopped_by:"+f.Sig, 1)
				}
				c.Violate(f.Sig, f.Detail, map[string]any{"mode": "hist", "case": hcases[r.Index], "engine": f.Engine, "finding": f,
					"replay": "vcheck replay <this file>"})
			}
		}
	}
	for _, r := range rres {
		if crash("readdir", rcases[r.Index], r) {
			continue
		}
		var out struct {
			Runs []*rdResult `json:"runs"`
		}
		if err := json.Unmarshal(r.Out, &out); err != nil || len(out.Runs) == 0 {
			c.Inconclusive("bad-child-output")
			continue
		}
		for _, rr := range out.Runs {
			if strings.HasPrefix(rr.Ended, "harness:") {
				c.Inconclusive("harness-error")
				continue
			}
			evals++
			c.Count("readdir_scripts", 1)
			c.Count("readdir_calls", int64(rr.Calls))
			c.Count("readdir_complete_passes", int64(rr.Passes))
			for k, n := range rr.Counts {
				c.Count("readdir_"+k, int64(n))
			}
			c.Distinct("readdir_scripts", rr.Shape)
			c.Distinct("readdir_dir_sizes", fmt.Sprint(rr.N))
			c.Distinct("readdir_buf_lens", rr.BufBucket)
			if r.Index%997 == 0 {
				c.Sample(map[string]any{"mode": "readdir", "case": rcases[r.Index], "first_calls": rr.Log})
			}
			for _, f := range rr.Findings {
				c.Count("finding:"+f.Sig, 1)
				c.Violate(f.Sig, f.Detail, map[string]any{"mode": "readdir", "case": rcases[r.Index], "engine": f.Engine, "finding": f})
			}
		}
	}
	crossed := map[int]int{}
	for _, r := range mres {
		if crash("many", mcases[r.Index], r) {
			continue
		}
		var out struct {
			Runs []*manyResult `json:"runs"`
		}
		if err := json.Unmarshal(r.Out, &out); err != nil || len(out.Runs) == 0 {
			c.Inconclusive("bad-child-output")
			continue
		}
		for ei, mr := range out.Runs {
			if strings.HasPrefix(mr.Ended, "harness:") {
				c.Inconclusive("harness-error")
				continue
			}
			evals++
			c.Count("many_fd_histories_"+engineNames[ei], 1)
			for k, n := range mr.Counts {
				c.Count("many_fd_"+k, int64(n))
			}
			for _, b := range mr.Crossed {
				crossed[b]++
			}
			c.Distinct("many_fd_max_open", fmt.Sprint(mr.MaxOpen))
			c.Distinct("many_fd_histories", mr.Shape)
			if r.Index%17 == 0 && ei == 0 {
				c.Sample(map[string]any{"mode": "many", "case": mcases[r.Index], "max_open": mr.MaxOpen, "crossed": mr.Crossed, "first_calls": mr.Log})
			}
			for _, f := range mr.Findings {
				c.Count("finding:"+f.Sig, 1)
				c.Violate(f.Sig, f.Detail, map[string]any{"mode": "many", "case": mcases[r.Index], "engine": f.Engine, "finding": f})
			}
		}
	}
	for _, r := range xres {
		if crash("replace", xcases[r.Index], r) {
			continue
		}
		var out struct {
			Runs []*replResult `json:"runs"`
		}
		if err := json.Unmarshal(r.Out, &out); err != nil || len(out.Runs) == 0 {
			c.Inconclusive("bad-child-output")
			continue
		}
		for _, xr := range out.Runs {
			if strings.HasPrefix(xr.Ended, "harness:") {
				c.Inconclusive("harness-error")
				continue
			}
			if strings.HasPrefix(xr.Ended, "inconclusive:") {
				c.Inconclusive("replaced-dir:inode-number-reused")
				continue
			}
			evals++
			c.Count("replaced_dir_scripts", 1)
			for k, n := range xr.Counts {
				c.Count("replaced_dir_"+k, int64(n))
			}
			if xr.Shape != "" {
				c.Distinct("replaced_dir_shapes", xr.Shape)
			}
			if r.Index%23 == 0 {
				c.Sample(map[string]any{"mode": "replace", "case": xcases[r.Index], "shape": xr.Shape, "calls": xr.Log})
			}
			for _, f := range xr.Findings {
				c.Count("finding:"+f.Sig, 1)
				c.Violate(f.Sig, f.Detail, map[string]any{"mode": "replace", "case": xcases[r.Index], "engine": f.Engine, "finding": f})
			}
		}
	}
	for _, sh := range []string{"never-read:removed", "never-read:renamed", "read-fully:removed", "read-fully:renamed", "read-partially:removed", "read-partially:renamed"} {
		if c.Counter("replaced_dir_shape:"+sh) == 0 {
			c.Inconclusive("replaced-dir:shape-not-reached:" + sh)
		}
	}
	for _, r := range fres {
		if crash("fsmount", fcases[r.Index], r) {
			continue
		}
		var out struct {
			Runs []*fsmResult `json:"runs"`
		}
		if err := json.Unmarshal(r.Out, &out); err != nil || len(out.Runs) == 0 {
			c.Inconclusive("bad-child-output")
			continue
		}
		for _, fr := range out.Runs {
			if strings.HasPrefix(fr.Ended, "harness:") {
				c.Inconclusive("harness-error")
				continue
			}
			evals++
			c.Count("fsmount_scripts", 1)
			for k, n := range fr.Counts {
				c.Count("fsmount_"+k, int64(n))
			}
			c.Distinct("fsmount_scripts", fr.Shape)
			if r.Index%37 == 0 {
				c.Sample(map[string]any{"mode": "fsmount", "case": fcases[r.Index], "first_calls": fr.Log})
			}
			for _, f := range fr.Findings {
				c.Count("finding:"+f.Sig, 1)
				c.Violate(f.Sig, f.Detail, map[string]any{"mode": "fsmount", "case": fcases[r.Index], "engine": f.Engine, "finding": f})
			}
		}
	}
	for _, k := range []string{"O_DIRECTORY-on-file", "missing", "O_CREAT-missing", "too-long-name"} {
		if c.Counter("fsmount_failed_opens:"+k) == 0 {
			c.Inconclusive("fsmount:failed-open-kind-not-reached:" + k)
		}
	}
	for _, b := range []int{64, 128, 192} {
		c.Count(fmt.Sprintf("many_fd_crossed_%d_open", b), int64(crossed[b]))
		if crossed[b] == 0 {
			c.Inconclusive(fmt.Sprintf("many-fds:boundary-%d-not-crossed", b))
		}
	}
	// scenario table (top entries) and required workload classes
	type kv struct {
		K string
		V int64
	}
	var tab []kv
	for k, v := range scenTotals {
		tab = append(tab, kv{k, v})
	}
	sort.Slice(tab, func(i, j int) bool { return tab[i].V > tab[j].V || (tab[i].V == tab[j].V && tab[i].K < tab[j].K) })
	top := map[string]int64{}
	for i, e := range tab {
		if i >= 150 {
			break
		}
		top[e.K] = e.V
	}
	c.Extra("scenario_counts_top150", top)
	for _, cls := range requiredClasses {
		hit := false
		for k := range scenTotals {
			if strings.HasPrefix(k, cls) {
				hit = true
				break
			}
		}
		if !hit {
			c.Inconclusive("class-not-reached:" + cls)
		}
	}
	for _, alt := range requiredInteractions {
		hit := false
		for _, sub := range strings.Split(alt, "|") {
			for k := range scenTotals {
				if strings.Contains(k, sub) {
					hit = true
				}
			}
		}
		if !hit {
			c.Inconclusive("interaction-not-reached:" + alt)
		}
	}
	if c.Counter("readdir_complete_passes") == 0 || c.Counter("host_tree_comparisons") == 0 || c.Counter("fd_allocation_checks") == 0 {
		c.Inconclusive("monitor-never-reached")
	}
	c.Assume("the model is compared only where POSIX, the WASI snapshot-01 docs and wazero's own documentation agree; calls marked unspecified (seek/tell on directories, pwrite on O_APPEND, O_TRUNC read-only, O_DIRECTORY|O_CREAT, renumber onto the preopen, readdir of a removed directory, never-returned cookies) only have to not crash")
	c.Assume("where POSIX allows alternatives the model accepts a set (ENOTEMPTY|EEXIST, EISDIR|EPERM for unlink of a directory, EBADF|EINVAL for truncating a read-only descriptor, EISDIR|EBADF for read/write on a directory); sandbox escapes ('..' above the descriptor, absolute paths) must fail with any errno")
	c.Assume("access mode of path_open follows wazero's documented rule: RIGHT_FD_READ/WRITE select it, otherwise read-write iff O_CREAT, O_TRUNC or FD_APPEND is given")
	c.Assume("fd_readdir: a cookie older than the previous successful call's window may be refused with ENOENT (documented by wazero's DirentCache); cookie 0 starts a new pass; directory changes are only required to be visible after a rewind")
	c.Assume("many-descriptor histories: path_open returns the lowest free descriptor number (POSIX rule, documented by wazero at FdPreopen) also across the 64/128/192 table-word boundaries; inode numbers reported by fd_filestat_get are compared with the ones path_filestat_get gave for the same path at the start (same guest view); stdio and the preopen are compared with their own state at start")
	c.Assume("replaced-directory scripts: whatever errno is returned, a descriptor never shows entries or the inode of a different directory created later at the path it was opened with (sig dirfd-adopts-recreated-directory:*); resolution by the stale path name and failing/empty listings of renamed directories stay in the dirfd-stale-name family")
	c.Assume("fs.FS mounts (WithFSMount of os.DirFS / fstest.MapFS): no mutation possible - every mutating call must fail with any errno and the host tree stays unchanged; creation/exclusive flags of path_open are ignored by the adapter, so their outcome is unspecified while the descriptor rules (lowest free number on success, no descriptor left by a failed open) always apply")
	c.Assume("timestamps, inode numbers, nlink and directory sizes are not compared; directory order is not compared, only the multiset")
	return c.Finish(evals, int64(c.DistinctN("history_shapes")+c.DistinctN("readdir_scripts")),
		"evaluations = histories x engines + readdir scripts x engines + many-descriptor histories x engines + replaced-directory scripts x engines + fs.FS-mount scripts x engines run to a verdict; distinct = distinct op:scenario sequences of histories with >=10 operations + distinct readdir call logs")
}

func firstWords(s string) string {
	f := strings.Fields(s)
	if len(f) > 6 {
		f = f[:6]
	}
	return strings.Join(f, "_")
}

// ---------------------------------------------------------------------------
// child side

func child(mode string, in json.RawMessage) any {
	switch mode {
	case "fsmount":
		var fc fsmCase
		json.Unmarshal(in, &fc)
		return map[string]any{"runs": []*fsmResult{runFSMount(fc, 0), runFSMount(fc, 1)}}
	case "replace":
		var xc replCase
		json.Unmarshal(in, &xc)
		return map[string]any{"runs": []*replResult{runReplace(xc, 0), runReplace(xc, 1)}}
	case "many":
		var mc manyCase
		json.Unmarshal(in, &mc)
		return map[string]any{"runs": []*manyResult{runMany(mc, 0), runMany(mc, 1)}}
	case "readdir":
		var rc rdCase
		json.Unmarshal(in, &rc)
		var runs []*rdResult
		if rc.N > 40 {
			runs = append(runs, runReaddir(rc, int(rc.Seed&1)))
		} else {
			runs = append(runs, runReaddir(rc, 0), runReaddir(rc, 1))
		}
		return map[string]any{"runs": runs}
	default:
		var hc histCase
		json.Unmarshal(in, &hc)
		a, b := runHistory(hc, 0), runHistory(hc, 1)
		out := map[string]any{"runs": []*histResult{a, b}}
		if a.Shape != b.Shape || a.NOps != b.NOps || len(a.Findings) != len(b.Findings) {
			out["engine_diff"] = fmt.Sprintf("same seed, interpreter: %d ops shape %s ended %q; compiler: %d ops shape %s ended %q", a.NOps, a.Shape, a.Ended, b.NOps, b.Shape, b.Ended)
		}
		return out
	}
}

// replay re-runs the case of a witness file with full logging.
func replay(c *core.Ctx, path string) int {
	b, err := os.ReadFile(path)
	if err != nil {
		fmt.Println(err)
		return 2
	}
	var w struct {
		Witness struct {
			Mode string          `json:"mode"`
			Case json.RawMessage `json:"case"`
		} `json:"witness"`
	}
	if err := json.Unmarshal(b, &w); err != nil || w.Witness.Case == nil {
		fmt.Println("not a C16 witness:", err)
		return 2
	}
	root, _ := os.MkdirTemp("", "c16-replay-")
	defer os.RemoveAll(root)
	rc := 0
	show := func(engine string, log []string, fs []finding) {
		fmt.Println("== engine:", engine)
		for _, l := range log {
			fmt.Println("  ", l)
		}
		for _, f := range fs {
			fmt.Printf("VIOLATION sig=%s\n  %s\n", f.Sig, f.Detail)
			rc = 1
		}
	}
	if w.Witness.Mode == "fsmount" {
		var k fsmCase
		json.Unmarshal(w.Witness.Case, &k)
		k.Root, k.Trace = root, true
		for e := 0; e < 2; e++ {
			r := runFSMount(k, e)
			show(engineNames[e], r.Log, r.Findings)
		}
	} else if w.Witness.Mode == "replace" {
		var k replCase
		json.Unmarshal(w.Witness.Case, &k)
		k.Root, k.Trace = root, true
		for e := 0; e < 2; e++ {
			r := runReplace(k, e)
			show(engineNames[e], r.Log, r.Findings)
		}
	} else if w.Witness.Mode == "many" {
		var k manyCase
		json.Unmarshal(w.Witness.Case, &k)
		k.Root, k.Trace = root, true
		for e := 0; e < 2; e++ {
			r := runMany(k, e)
			show(engineNames[e], r.Log, r.Findings)
		}
	} else if w.Witness.Mode == "readdir" {
		var k rdCase
		json.Unmarshal(w.Witness.Case, &k)
		k.Root, k.Trace = root, true
		for e := 0; e < 2; e++ {
			r := runReaddir(k, e)
			show(engineNames[e], r.Log, r.Findings)
		}
	} else {
		var k histCase
		json.Unmarshal(w.Witness.Case, &k)
		k.Root, k.Trace = root, true
		for e := 0; e < 2; e++ {
			r := runHistory(k, e)
			show(engineNames[e], r.Log, r.Findings)
		}
	}
	return rc
}
