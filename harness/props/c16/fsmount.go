package c16

import (
	"bytes"
	"fmt"
	"io"
	"io/fs"
	"os"
	"path/filepath"
	"sort"
	"strings"
	"testing/fstest"

	"github.com/tetratelabs/wazero"
	"github.com/tetratelabs/wazero/api"
	"github.com/tetratelabs/wazero/verifharness/core"
)

// Mount-kind dimension: the same small host tree is mounted as an fs.FS
// (FSConfig.WithFSMount(os.DirFS(dir)) and WithFSMount(fstest.MapFS{...})).
// Such a mount is a read-only view: "no mutation possible" (every mutating call
// must fail, wazero documents ENOSYS/EBADF/EROFS-like errors; any errno != 0 is
// accepted, success is a violation, and for os.DirFS the host tree must be
// unchanged at the end). The non-mutating part of the op mix runs with emphasis
// on FAILING opens, each followed by the descriptor model's checks:
//   - a successful path_open returns the lowest free number;
//   - the number a failed path_open would have used is not a descriptor:
//     fd_fdstat_get / fd_close / fd_renumber on it answer EBADF.

type fsmCase struct {
	Seed  uint64 `json:"seed"`
	Kind  string `json:"kind"` // dirfs | mapfs
	Root  string `json:"root"`
	Trace bool   `json:"trace,omitempty"`
}

type fsmResult struct {
	Findings []finding      `json:"findings,omitempty"`
	Counts   map[string]int `json:"counts"`
	Shape    string         `json:"shape"`
	Ended    string         `json:"ended,omitempty"`
	Log      []string       `json:"log,omitempty"`
}

type fsmObj struct {
	path  string
	isDir bool
	data  []byte
	kids  map[string]byte // directories: name -> filetype
}

type fsm struct {
	r      *core.Rng
	g      *guest
	kind   string
	engine string
	res    *fsmResult
	log    []string
	stop   bool
	objs   []*fsmObj
	byPath map[string]*fsmObj
	fds    map[int32]*fsmObj
	// failed opens since the last successful one (kinds), for details
	failedSince []string
	// wouldBe: number -> kind of the first failed open that would have used it
	// (cleared when the number is handed out), so that a dead entry is
	// attributed to the open that left it
	wouldBe map[int32]string
	offs    map[int32]int64 // descriptor offsets of regular files
}

func (s *fsm) logf(f string, a ...any) { s.log = append(s.log, fmt.Sprintf(f, a...)) }

func (s *fsm) violate(sig, detail string) {
	s.stop = true
	s.res.Ended = "violation"
	lg := s.log
	if len(lg) > 50 {
		lg = lg[len(lg)-50:]
	}
	s.res.Findings = append(s.res.Findings, finding{Sig: "fsmount:" + sig, Detail: "[" + s.kind + " mount] " + detail, Engine: s.engine, Log: append([]string(nil), lg...)})
}

func (s *fsm) trapped(fn string) bool {
	if s.g.trap != "" {
		s.violate("trap:"+fn, s.g.trap)
		return true
	}
	return false
}

func (s *fsm) lowestFree() int32 {
	for fd := int32(firstFreeFd); ; fd++ {
		if s.fds[fd] == nil {
			return fd
		}
	}
}

func (s *fsm) sorted() []int32 {
	out := make([]int32, 0, len(s.fds))
	for fd := range s.fds {
		out = append(out, fd)
	}
	sort.Slice(out, func(i, j int) bool { return out[i] < out[j] })
	return out
}

func runFSMount(fc fsmCase, engine int) *fsmResult {
	res := &fsmResult{Counts: map[string]int{}}
	dir, err := os.MkdirTemp(fc.Root, "f-")
	if err != nil {
		res.Ended = "harness: " + err.Error()
		return res
	}
	defer os.RemoveAll(dir)
	r := core.NewRng(int64(fc.Seed), 20)
	s := &fsm{r: r, kind: fc.Kind, engine: engineNames[engine], res: res, fds: map[int32]*fsmObj{}, byPath: map[string]*fsmObj{}, wouldBe: map[int32]string{}, offs: map[int32]int64{}}
	// the tree
	mapfs := fstest.MapFS{}
	root := &fsmObj{path: ".", isDir: true, kids: map[string]byte{}}
	s.byPath["."] = root
	add := func(parent *fsmObj, name string, isDir bool) *fsmObj {
		p := name
		if parent.path != "." {
			p = parent.path + "/" + name
		}
		o := &fsmObj{path: p, isDir: isDir}
		if isDir {
			o.kids = map[string]byte{}
			parent.kids[name] = ftDir
			if err := os.Mkdir(filepath.Join(dir, p), 0o755); err != nil {
				panic(err)
			}
			mapfs[p] = &fstest.MapFile{Mode: fs.ModeDir | 0o755}
		} else {
			o.data = r.Bytes(12 + r.Intn(60))
			parent.kids[name] = ftFile
			if err := os.WriteFile(filepath.Join(dir, p), o.data, 0o644); err != nil {
				panic(err)
			}
			mapfs[p] = &fstest.MapFile{Data: o.data, Mode: 0o644}
		}
		s.objs = append(s.objs, o)
		s.byPath[p] = o
		return o
	}
	for i := 0; i < 2+r.Intn(3); i++ {
		add(root, fmt.Sprintf("f%d", i), false)
	}
	for i := 0; i < 1+r.Intn(2); i++ {
		d := add(root, fmt.Sprintf("d%d", i), true)
		for j := 0; j < r.Intn(4); j++ {
			add(d, fmt.Sprintf("g%d", j), r.Chance(1, 5))
		}
	}
	before, _ := hostTree(dir)
	var fsc wazero.FSConfig
	switch fc.Kind {
	case "mapfs":
		fsc = wazero.NewFSConfig().WithFSMount(mapfs, "/")
	case "seekfs": // files with Read+Seek but no ReadAt: fd_pread goes through wazero's seek fallback
		fsc = wazero.NewFSConfig().WithFSMount(limitedFS{mapfs, true}, "/")
	case "plainfs": // pure fs.File: neither Seek nor ReadAt
		fsc = wazero.NewFSConfig().WithFSMount(limitedFS{mapfs, false}, "/")
	default:
		fsc = wazero.NewFSConfig().WithFSMount(os.DirFS(dir), "/")
	}
	e := getEngines()
	mod, err := e.rts[engine].InstantiateModule(e.ctx, e.cms[engine], wazero.NewModuleConfig().WithName("").WithFSConfig(fsc))
	if err != nil {
		res.Ended = "harness: instantiate: " + err.Error()
		return res
	}
	s.g = &guest{ctx: e.ctx, mod: mod, mem: mod.Memory(), fns: map[string]api.Function{}, dir: dir}
	defer func() {
		if fc.Trace || len(s.log) <= 12 {
			res.Log = s.log
		} else {
			res.Log = s.log[:12]
		}
	}()
	var shape []string
	for i, n := 0, 30+r.Intn(40); i < n && !s.stop; i++ {
		shape = append(shape, s.step())
	}
	if !s.stop {
		s.sweep()
	}
	func() {
		defer func() {
			if p := recover(); p != nil {
				s.violate("module-close:panic", fmt.Sprint(p))
			}
		}()
		mod.Close(e.ctx)
	}()
	if !s.stop && fc.Kind == "dirfs" {
		after, _ := hostTree(dir)
		res.Counts["host_tree_comparisons"]++
		if d := diffTrees(before, after); d != "" {
			s.violate("host-tree-changed-through-fs.FS-mount", d)
		}
	}
	res.Shape = fmt.Sprintf("%s:%x", fc.Kind, fc.Seed)
	_ = shape
	return res
}

// step performs one operation and returns its name.
func (s *fsm) step() string {
	r := s.r
	switch x := r.Intn(100); {
	case x < 22:
		return s.openOK()
	case x < 62:
		return s.openFail()
	case x < 72 && len(s.fds) > 0:
		fds := s.sorted()
		fd := fds[r.Intn(len(fds))]
		e := s.g.call("fd_close", fdArg(fd))
		s.res.Counts["fd_close"]++
		s.logf("fd_close(%d) -> %s", fd, errName(e))
		if !s.trapped("fd_close") && e != 0 {
			s.violate("fd_close:open-descriptor:errno="+errName(e), fmt.Sprintf("fd_close(%d)", fd))
		}
		delete(s.fds, fd)
		delete(s.offs, fd)
		return "close"
	case x < 82 && len(s.fds) > 0:
		s.useFd()
		return "use"
	case x < 90:
		s.mutationAttempt()
		return "mutate"
	default:
		return s.openOK()
	}
}

func (s *fsm) pathOpen(path string, oflags, fdflags uint32, rights uint64) (uint32, int32) {
	p, l := s.g.putPath(offPathA, path)
	s.g.write(offResult, []byte{0xee, 0xee, 0xee, 0xee})
	e := s.g.call("path_open", preopenFd, 1, p, l, uint64(oflags), rights, rights, uint64(fdflags), offResult)
	s.res.Counts["path_open"]++
	return e, int32(s.g.u32(offResult))
}

// afterOpen applies the descriptor model to the outcome of any path_open.
func (s *fsm) afterOpen(desc, kind string, errno uint32, fd int32, target *fsmObj) {
	want := s.lowestFree()
	if errno == 0 {
		s.logf("%s -> OK fd=%d (model: lowest free %d)", desc, fd, want)
		s.res.Counts["fd_allocation_checks"]++
		if fd != want {
			sig := "path_open:fd-not-lowest-free"
			if k := s.wouldBe[want]; k != "" {
				sig += ":after-failed-path_open:" + k
			}
			s.violate(sig, fmt.Sprintf("%s returned fd %d, the lowest free descriptor is %d (open: %v; failed opens since the last successful one: %v)", desc, fd, want, s.sorted(), s.failedSince))
			return
		}
		s.failedSince = nil
		delete(s.wouldBe, fd)
		if target == nil {
			// an open the model does not predict (fs.FS mounts ignore creation flags): find out what it is
			target = &fsmObj{path: "?", isDir: false}
			if s.g.call("fd_fdstat_get", fdArg(fd), offResult) == 0 && s.g.read(offResult, 1)[0] == ftDir {
				target.isDir = true
			}
			target.data = nil
		}
		s.fds[fd] = target
		s.offs[fd] = 0
		return
	}
	s.logf("%s -> %s [%s]", desc, errName(errno), kind)
	s.res.Counts["failed_opens:"+kind]++
	s.failedSince = append(s.failedSince, kind)
	s.wouldBe[want] = kind
	// the number it would have used is not a descriptor
	e := s.g.call("fd_fdstat_get", fdArg(want), offResult)
	s.res.Counts["would-be-fd_checks"]++
	if s.trapped("fd_fdstat_get") {
		return
	}
	if e != eBADF {
		s.logf("fd_fdstat_get(%d) -> %s (model: EBADF)", want, errName(e))
		s.violate("failed-path_open-leaves-descriptor:"+kind+":fd_fdstat_get="+errName(e), fmt.Sprintf("%s failed with %s, yet fd_fdstat_get(%d) answers %s", desc, errName(errno), want, errName(e)))
		return
	}
	// renumbering a number onto itself changes nothing, and tells a free number (EBADF)
	// from a dead table entry (success) right at the open that left it
	e = s.g.call("fd_renumber", fdArg(want), fdArg(want))
	if s.trapped("fd_renumber") {
		return
	}
	if e != eBADF {
		s.logf("fd_renumber(%d,%d) -> %s (model: EBADF)", want, want, errName(e))
		s.violate("failed-path_open-leaves-descriptor:"+kind, fmt.Sprintf("%s failed with %s, yet the number it would have used is occupied afterwards: fd_renumber(%d,%d) answers %s instead of EBADF (fd_fdstat_get(%d) says EBADF: a dead entry)", desc, errName(errno), want, want, errName(e), want))
		return
	}
	switch s.r.Intn(5) {
	case 0:
		e = s.g.call("fd_close", fdArg(want))
		s.logf("fd_close(%d) -> %s (model: EBADF)", want, errName(e))
		if !s.trapped("fd_close") && e != eBADF {
			s.violate("failed-path_open-leaves-descriptor:"+kind+":fd_close="+errName(e), fmt.Sprintf("%s failed with %s, yet fd_close(%d) of the number it never returned answers %s", desc, errName(errno), want, errName(e)))
		}
	case 1:
		to := want + 1 + int32(s.r.Intn(3))
		for s.fds[to] != nil {
			to++
		}
		e = s.g.call("fd_renumber", fdArg(want), fdArg(to))
		s.logf("fd_renumber(%d,%d) -> %s (model: EBADF)", want, to, errName(e))
		if !s.trapped("fd_renumber") && e != eBADF {
			s.violate("failed-path_open-leaves-descriptor:"+kind+":fd_renumber="+errName(e), fmt.Sprintf("%s failed with %s, yet fd_renumber(%d,%d) from the number it never returned answers %s", desc, errName(errno), want, to, errName(e)))
		}
	}
}

func (s *fsm) openOK() string {
	r := s.r
	o := s.objs[r.Intn(len(s.objs))]
	if r.Chance(1, 8) {
		o = s.byPath["."]
	}
	oflags, rights := uint32(0), uint64(rightRead)
	if o.isDir {
		rights = 0
		if r.Chance(2, 3) {
			oflags = oDIRECTORY
		}
	}
	path := o.path
	if r.Chance(1, 8) && path != "." {
		path = "./" + path
	}
	e, fd := s.pathOpen(path, oflags, 0, rights)
	if s.trapped("path_open") {
		return "open"
	}
	desc := fmt.Sprintf("path_open(3,%q,oflags=%#x,rights=%#x)", path, oflags, rights)
	if e != 0 {
		s.logf("%s -> %s", desc, errName(e))
		s.violate("path_open:existing:errno="+errName(e), desc+" of an existing entry, read-only")
		return "open"
	}
	s.afterOpen(desc, "", 0, fd, o)
	if !s.stop {
		s.checkFd(fd)
	}
	return "open"
}

func (s *fsm) openFail() string {
	r := s.r
	var files, dirs []*fsmObj
	for _, o := range s.objs {
		if o.isDir {
			dirs = append(dirs, o)
		} else {
			files = append(files, o)
		}
	}
	f := files[r.Intn(len(files))]
	var path, kind string
	var oflags, fdflags uint32
	rights := uint64(rightRead)
	mustFail, wantErrno := false, uint32(0)
	var target *fsmObj
	switch r.Intn(8) {
	case 0, 1, 2:
		path, kind, oflags, mustFail, wantErrno = f.path, "O_DIRECTORY-on-file", oDIRECTORY, true, eNOTDIR
		if r.Chance(1, 3) {
			rights = 0
		}
	case 3:
		path, kind, mustFail, wantErrno = "nope"+fmt.Sprint(r.Intn(5)), "missing", true, eNOENT
		if len(dirs) > 0 && r.Bool() {
			path = dirs[r.Intn(len(dirs))].path + "/" + path
		}
		if r.Chance(1, 3) {
			oflags = oDIRECTORY
		}
	case 4:
		// fs.FS mounts ignore creation flags: outcome unspecified, the descriptor rules still apply
		path, kind, oflags, rights, target = f.path, "O_CREAT|O_EXCL-on-existing", oCREAT|oEXCL, rightRead|rightWrite, nil
	case 5:
		path, kind, oflags, rights, mustFail = "new"+fmt.Sprint(r.Intn(5)), "O_CREAT-missing", oCREAT, rightRead|rightWrite, true
	case 6:
		path, kind = f.path+"/", "trailing-slash-on-file"
	default:
		path, kind, mustFail = strings.Repeat("x", 260+r.Intn(100)), "too-long-name", true
		if r.Bool() {
			oflags = oDIRECTORY
		}
	}
	if r.Chance(1, 10) {
		fdflags = fdNONBLOCK
	}
	e, fd := s.pathOpen(path, oflags, fdflags, rights)
	if s.trapped("path_open") {
		return kind
	}
	desc := fmt.Sprintf("path_open(3,%q,oflags=%#x,rights=%#x)", trunc(path, 40), oflags, rights)
	if mustFail && e == 0 {
		s.logf("%s -> OK fd=%d", desc, fd)
		s.violate("path_open:"+kind+":succeeds", desc+" succeeded")
		return kind
	}
	if wantErrno != 0 && e != wantErrno {
		s.logf("%s -> %s", desc, errName(e))
		s.violate("path_open:"+kind+":errno="+errName(e)+"-want-"+errName(wantErrno), desc)
		return kind
	}
	if e == 0 && kind == "O_CREAT|O_EXCL-on-existing" || e == 0 && kind == "trailing-slash-on-file" {
		target = f
	}
	s.afterOpen(desc, kind, e, fd, target)
	return kind
}

// checkFd: the descriptor is what the model says.
func (s *fsm) checkFd(fd int32) {
	o := s.fds[fd]
	g := s.g
	e := g.call("fd_fdstat_get", fdArg(fd), offResult)
	s.res.Counts["descriptor_checks"]++
	if s.trapped("fd_fdstat_get") {
		return
	}
	ft := g.read(offResult, 1)[0]
	wantFt := byte(ftFile)
	if o.isDir {
		wantFt = ftDir
	}
	if e != 0 || ft != wantFt {
		s.logf("fd_fdstat_get(%d) -> %s filetype=%d (model: %q filetype %d)", fd, errName(e), ft, o.path, wantFt)
		s.violate("descriptor-not-what-was-opened:fd_fdstat_get", fmt.Sprintf("fd_fdstat_get(%d) -> %s filetype=%d, opened on %q (filetype %d)", fd, errName(e), ft, o.path, wantFt))
		return
	}
	if o.isDir || o.path == "?" {
		return
	}
	s.dataOps(fd, o)
}

// dataOps: sequential and positional reads through one descriptor. Positional
// I/O never moves the descriptor's offset: after an fd_pread (often issued
// exactly at the current offset) fd_tell and the next fd_read continue where
// the sequential reader was.
func (s *fsm) dataOps(fd int32, o *fsmObj) {
	g, r := s.g, s.r
	size := int64(len(o.data))
	seekable := s.kind != "plainfs"
	// sometimes move the sequential position first
	if r.Chance(1, 3) {
		to := int64(r.Intn(int(size) + 1))
		e := g.call("fd_seek", fdArg(fd), uint64(to), 0, offResult)
		s.res.Counts["fd_seek"]++
		if s.trapped("fd_seek") {
			return
		}
		s.logf("fd_seek(%d,%d,SET) -> %s", fd, to, errName(e))
		switch {
		case e == 0 && g.u64(offResult) == uint64(to):
			s.offs[fd] = to
		case e == 0:
			s.violate("fd_seek:wrong-offset", fmt.Sprintf("fd_seek(%d,%d,SET) reports %d", fd, to, g.u64(offResult)))
			return
		case seekable:
			s.violate("fd_seek:errno="+errName(e), fmt.Sprintf("fd_seek(%d,%d,SET) on a seekable file of a %s mount", fd, to, s.kind))
			return
		}
	}
	off := s.offs[fd]
	// positional read, half of the time exactly at the current offset
	poff := off
	where := "at-current-offset"
	if r.Bool() {
		poff, where = int64(r.Intn(int(size)+1)), "elsewhere"
		if poff == off {
			where = "at-current-offset"
		}
	}
	n := 1 + r.Intn(20)
	g.write(offData, bytes.Repeat([]byte{0xa5}, 64))
	ip, in := g.putIovs([]iov{{offData, uint32(n)}})
	g.write(offResult, []byte{0xee, 0xee, 0xee, 0xee})
	e := g.call("fd_pread", fdArg(fd), ip, in, uint64(poff), offResult)
	s.res.Counts["fd_pread"]++
	s.res.Counts["fd_pread:"+where]++
	if s.trapped("fd_pread") {
		return
	}
	nread := int64(0)
	want := o.data[poff:min(poff+int64(n), size)]
	if e == 0 {
		nread = int64(g.u32(offResult))
		got := g.read(offData, uint32(min(nread, 64)))
		s.logf("fd_pread(%d,%d bytes at %d) [%s, descriptor offset %d] -> OK %d bytes", fd, n, poff, where, off, nread)
		if !bytes.Equal(got, want) {
			s.violate("fd_pread:wrong-data", fmt.Sprintf("fd_pread(%d,%d bytes at %d) of %q -> %x, the file has %x", fd, n, poff, o.path, got, want))
			return
		}
	} else {
		s.logf("fd_pread(%d,%d bytes at %d) [%s] -> %s", fd, n, poff, where, errName(e))
		s.res.Counts["fd_pread_refused"]++
		if seekable {
			// ReaderAt or (documented in RATIONALE.md) the io.Seeker fallback must serve it
			s.violate("fd_pread:errno="+errName(e), fmt.Sprintf("fd_pread(%d,%d bytes at %d) on a %s mount", fd, n, poff, s.kind))
			return
		}
	}
	moved := func(now int64) string {
		if now == poff+nread && nread > 0 {
			return fmt.Sprintf("fd_pread(%d, %d bytes at %d) with the descriptor at offset %d left the descriptor at offset %d = end of the data it read; positional reads must not move the offset (%s mount)", fd, n, poff, off, now, s.kind)
		}
		return ""
	}
	// fd_tell
	e = g.call("fd_tell", fdArg(fd), offResult)
	s.res.Counts["fd_tell"]++
	if s.trapped("fd_tell") {
		return
	}
	if e == 0 {
		now := int64(g.u64(offResult))
		s.logf("fd_tell(%d) -> %d (model: %d)", fd, now, off)
		if now != off {
			if d := moved(now); d != "" {
				s.violate("fd_pread:moves-descriptor-offset:"+where, d)
			} else {
				s.violate("fd_tell:wrong-offset:after-fd_pread", fmt.Sprintf("fd_tell(%d)=%d, the model says %d", fd, now, off))
			}
			return
		}
	} else {
		s.logf("fd_tell(%d) -> %s", fd, errName(e))
		if seekable {
			s.violate("fd_tell:errno="+errName(e), fmt.Sprintf("fd_tell(%d) on a %s mount", fd, s.kind))
			return
		}
	}
	// sequential read continues at the model's offset
	n2 := 1 + r.Intn(16)
	g.write(offData, bytes.Repeat([]byte{0xa5}, 64))
	ip, in = g.putIovs([]iov{{offData, uint32(n2)}})
	g.write(offResult, []byte{0xee, 0xee, 0xee, 0xee})
	e = g.call("fd_read", fdArg(fd), ip, in, offResult)
	s.res.Counts["fd_read"]++
	if s.trapped("fd_read") {
		return
	}
	wantSeq := o.data[off:min(off+int64(n2), size)]
	got := g.read(offData, min(g.u32(offResult), 64))
	s.logf("fd_read(%d,%d bytes) -> %s %d bytes (model: %d bytes from offset %d)", fd, n2, errName(e), len(got), len(wantSeq), off)
	if e != 0 || !bytes.Equal(got, wantSeq) {
		alt := o.data[min(poff+nread, size):min(poff+nread+int64(n2), size)]
		if e == 0 && nread > 0 && bytes.Equal(got, alt) && poff+nread != off {
			s.violate("fd_pread:moves-descriptor-offset:"+where, moved(poff+nread)+fmt.Sprintf("; the next fd_read returned %x, the bytes after the pread data, instead of %x", got, wantSeq))
		} else {
			s.violate("fd_read:wrong-data:after-fd_pread", fmt.Sprintf("fd_read(%d,%d bytes) at offset %d of %q -> %s %x, the file has %x", fd, n2, off, o.path, errName(e), got, wantSeq))
		}
		return
	}
	s.offs[fd] = off + int64(len(got))
}

func (s *fsm) useFd() {
	fds := s.sorted()
	fd := fds[s.r.Intn(len(fds))]
	o := s.fds[fd]
	if !o.isDir || o.path == "?" {
		s.checkFd(fd)
		return
	}
	// list the directory from the start
	g := s.g
	seen := map[string]byte{}
	cookie := uint64(0)
	for calls := 0; calls < 32; calls++ {
		e := g.call("fd_readdir", fdArg(fd), offDirBuf, 4096, cookie, offResult)
		s.res.Counts["fd_readdir"]++
		if s.trapped("fd_readdir") {
			return
		}
		if e != 0 {
			s.logf("fd_readdir(%d,4096,%d) -> %s", fd, cookie, errName(e))
			s.violate("fd_readdir:errno="+errName(e), fmt.Sprintf("fd_readdir(%d) of %q", fd, o.path))
			return
		}
		used := g.u32(offResult)
		ents, _, perr := parseDirents(g.read(offDirBuf, min(used, 4096)))
		if perr != "" {
			s.violate("fd_readdir:malformed-buffer", perr)
			return
		}
		for _, x := range ents {
			seen[x.name] = x.typ
			cookie = x.next
		}
		if used < 4096 {
			break
		}
	}
	var problems []string
	want := map[string]byte{".": ftDir, "..": ftDir}
	for n, t := range o.kids {
		want[n] = t
	}
	for n, t := range want {
		if st, ok := seen[n]; !ok {
			problems = append(problems, "missing "+n)
		} else if st != t {
			problems = append(problems, fmt.Sprintf("%s has d_type %d want %d", n, st, t))
		}
	}
	for n := range seen {
		if _, ok := want[n]; !ok {
			problems = append(problems, "unexpected "+n)
		}
	}
	sort.Strings(problems)
	s.logf("fd_readdir(%d) of %q -> %d entries", fd, o.path, len(seen))
	s.res.Counts["readdir_passes"]++
	if len(problems) > 0 {
		s.violate("fd_readdir:listing-differs-from-model", fmt.Sprintf("fd_readdir(%d) of %q: %s", fd, o.path, strings.Join(problems, "; ")))
	}
}

// mutationAttempt: nothing can be changed through an fs.FS mount.
func (s *fsm) mutationAttempt() {
	r, g := s.r, s.g
	var files []*fsmObj
	for _, o := range s.objs {
		if !o.isDir {
			files = append(files, o)
		}
	}
	f := files[r.Intn(len(files))]
	var fn, desc string
	var e uint32
	switch r.Intn(6) {
	case 0:
		fn = "path_create_directory"
		p, l := g.putPath(offPathA, "newdir")
		e = g.call(fn, preopenFd, p, l)
		desc = `(3,"newdir")`
	case 1:
		fn = "path_unlink_file"
		p, l := g.putPath(offPathA, f.path)
		e = g.call(fn, preopenFd, p, l)
		desc = fmt.Sprintf("(3,%q)", f.path)
	case 2:
		fn = "path_rename"
		p, l := g.putPath(offPathA, f.path)
		p2, l2 := g.putPath(offPathB, "renamed")
		e = g.call(fn, preopenFd, p, l, preopenFd, p2, l2)
		desc = fmt.Sprintf("(3,%q,3,\"renamed\")", f.path)
	case 3:
		fn = "path_remove_directory"
		p, l := g.putPath(offPathA, "d0")
		e = g.call(fn, preopenFd, p, l)
		desc = `(3,"d0")`
	default:
		// through a descriptor of a regular file
		var fd int32 = -1
		for _, x := range s.sorted() {
			if o := s.fds[x]; !o.isDir && o.path != "?" {
				fd = x
			}
		}
		if fd < 0 {
			return
		}
		if r.Bool() {
			fn = "fd_write"
			g.write(offData, []byte("overwrite!"))
			ip, in := g.putIovs([]iov{{offData, 10}})
			e = g.call(fn, fdArg(fd), ip, in, offResult)
		} else {
			fn = "fd_filestat_set_size"
			e = g.call(fn, fdArg(fd), 0)
		}
		desc = fmt.Sprintf("(%d,…)", fd)
	}
	s.res.Counts["mutation_attempts"]++
	s.logf("%s%s -> %s (model: fails, fs.FS mount)", fn, desc, errName(e))
	if s.trapped(fn) {
		return
	}
	if e == 0 {
		s.violate("mutation-succeeds-on-fs.FS-mount:"+fn, fn+desc+" returned success")
	}
}

// sweep: every model descriptor valid, every other small number invalid.
func (s *fsm) sweep() {
	top := int32(firstFreeFd)
	for fd := range s.fds {
		if fd > top {
			top = fd
		}
	}
	for fd := int32(firstFreeFd); fd <= top+3 && !s.stop; fd++ {
		if s.fds[fd] != nil {
			s.checkFd(fd)
			continue
		}
		// fd_close is the observation that tells a dead table entry from a free number
		e := s.g.call("fd_close", fdArg(fd))
		s.res.Counts["sweep_closed_checks"]++
		if !s.trapped("fd_close") && e != eBADF {
			s.logf("fd_close(%d) -> %s (model: EBADF)", fd, errName(e))
			kind := s.wouldBe[fd]
			if kind == "" {
				kind = "none"
			}
			s.violate("failed-path_open-leaves-descriptor:"+kind+":fd_close="+errName(e), fmt.Sprintf("final sweep: fd_close(%d) of a number that is not open answers %s (failed opens since the last successful one: %v)", fd, errName(e), s.failedSince))
		}
	}
}

// limitedFS wraps an in-memory fs.FS so that its files expose only
// Read/Stat/Close/ReadDir and, when seek is set, Seek - never ReadAt.
type limitedFS struct {
	inner fs.FS
	seek  bool
}

func (l limitedFS) Open(name string) (fs.File, error) {
	f, err := l.inner.Open(name)
	if err != nil {
		return nil, err
	}
	if l.seek {
		if sk, ok := f.(io.Seeker); ok {
			return &seekOnlyFile{plainFile{f}, sk}, nil
		}
	}
	return &plainFile{f}, nil
}

type plainFile struct{ f fs.File }

func (p *plainFile) Read(b []byte) (int, error) { return p.f.Read(b) }
func (p *plainFile) Stat() (fs.FileInfo, error) { return p.f.Stat() }
func (p *plainFile) Close() error               { return p.f.Close() }
func (p *plainFile) ReadDir(n int) ([]fs.DirEntry, error) {
	if d, ok := p.f.(fs.ReadDirFile); ok {
		return d.ReadDir(n)
	}
	return nil, &fs.PathError{Op: "readdir", Path: "", Err: fs.ErrInvalid}
}

type seekOnlyFile struct {
	plainFile
	sk io.Seeker
}

func (s *seekOnlyFile) Seek(off int64, whence int) (int64, error) { return s.sk.Seek(off, whence) }
