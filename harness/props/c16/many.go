package c16

import (
	"bytes"
	"fmt"
	"os"
	"path/filepath"
	"sort"

	"github.com/tetratelabs/wazero/verifharness/core"
)

// "many descriptors" histories: files and directories are opened until 60-70,
// 125-135 and 190-200 descriptors are open at the same time (crossing the
// 64/128/192 boundaries), with PRNG-interleaved closes and fd_renumber onto
// high numbers that leave gaps. The descriptor model demands of every
// path_open the lowest free number (POSIX rule, what wazero documents for
// FdPreopen and implements) - in particular never a number that names an open
// descriptor - and of every descriptor that it stays valid and keeps referring
// to the same object until closed (stdio 0-2 and the preopen included), that
// closed numbers are invalid, and that the module closes without a panic.

type manyCase struct {
	Seed  uint64 `json:"seed"`
	Root  string `json:"root"`
	Trace bool   `json:"trace,omitempty"`
}

type manyResult struct {
	Findings []finding      `json:"findings,omitempty"`
	Counts   map[string]int `json:"counts"`
	MaxOpen  int            `json:"max_open"`
	Crossed  []int          `json:"crossed"` // multiples of 64 passed by the number of open descriptors
	Shape    string         `json:"shape"`
	Ended    string         `json:"ended,omitempty"`
	Log      []string       `json:"log,omitempty"`
}

// what a descriptor refers to
type manyObj struct {
	path  string
	isDir bool
	ino   uint64
	data  []byte
}

// baseline of a descriptor the history never opens itself (stdio, preopen)
type fdBaseline struct {
	fdstat   []byte // first 4 bytes: filetype + flags
	filestat []byte // dev, ino, filetype, nlink, size
	errFd    uint32
	errFile  uint32
}

type many struct {
	r      *core.Rng
	g      *guest
	engine string
	res    *manyResult
	log    []string
	stop   bool
	objs   []*manyObj
	fds    map[int32]*manyObj // descriptors >= 4
	base   [4]fdBaseline
	closed []int32
}

func (m *many) logf(f string, a ...any) { m.log = append(m.log, fmt.Sprintf(f, a...)) }

func (m *many) violate(sig, detail string) {
	m.stop = true
	m.res.Ended = "violation"
	lg := m.log
	if len(lg) > 40 {
		lg = lg[len(lg)-40:]
	}
	m.res.Findings = append(m.res.Findings, finding{Sig: "many-fds:" + sig, Detail: detail, Engine: m.engine, Log: append([]string(nil), lg...)})
}

func (m *many) lowestFree() int32 {
	for fd := int32(firstFreeFd); ; fd++ {
		if m.fds[fd] == nil {
			return fd
		}
	}
}

func (m *many) openCount() int { return len(m.fds) + 4 }

func (m *many) sorted() []int32 {
	out := make([]int32, 0, len(m.fds))
	for fd := range m.fds {
		out = append(out, fd)
	}
	sort.Slice(out, func(i, j int) bool { return out[i] < out[j] })
	return out
}

func (m *many) trapped(fn string) bool {
	if m.g.trap != "" {
		m.violate("trap:"+fn, m.g.trap)
		return true
	}
	return false
}

func runMany(mc manyCase, engine int) (res *manyResult) {
	res = &manyResult{Counts: map[string]int{}}
	dir, err := os.MkdirTemp(mc.Root, "m-")
	if err != nil {
		res.Ended = "harness: " + err.Error()
		return res
	}
	defer os.RemoveAll(dir)
	r := core.NewRng(int64(mc.Seed), 18)
	m := &many{r: r, engine: engineNames[engine], res: res, fds: map[int32]*manyObj{}}
	for i := 0; i < 12; i++ {
		data := make([]byte, 20+3*i)
		for j := range data {
			data[j] = byte(i*16 + j)
		}
		p := fmt.Sprintf("f%02d", i)
		if err := os.WriteFile(filepath.Join(dir, p), data, 0o644); err != nil {
			panic(err)
		}
		m.objs = append(m.objs, &manyObj{path: p, data: data})
	}
	for i := 0; i < 4; i++ {
		p := fmt.Sprintf("d%d", i)
		if err := os.Mkdir(filepath.Join(dir, p), 0o755); err != nil {
			panic(err)
		}
		m.objs = append(m.objs, &manyObj{path: p, isDir: true})
	}
	g, err := newGuest(engine, dir)
	if err != nil {
		res.Ended = "harness: instantiate: " + err.Error()
		return res
	}
	m.g = g
	defer func() {
		if mc.Trace {
			res.Log = m.log
		} else if len(m.log) > 8 {
			res.Log = m.log[:8]
		} else {
			res.Log = m.log
		}
	}()
	// baselines: inode of every object as the guest sees it, state of 0..3
	for _, o := range m.objs {
		p, l := g.putPath(offPathA, o.path)
		if e := g.call("path_filestat_get", preopenFd, 0, p, l, offResult); e != 0 {
			m.violate("setup:path_filestat_get", errName(e))
			g.close()
			return res
		}
		o.ino = g.u64(offResult + 8)
	}
	for fd := int32(0); fd < 4; fd++ {
		m.base[fd] = m.observe(fd)
	}
	m.run()
	// the module must close cleanly whatever the table looks like
	func() {
		defer func() {
			if p := recover(); p != nil {
				res.Counts["close_panics"]++
				m.violate("module-close:panic", fmt.Sprintf("closing the module panicked: %v (open descriptors in the model: %d, highest %d)", p, m.openCount(), m.maxFd()))
			}
		}()
		if err := g.mod.Close(g.ctx); err != nil {
			m.violate("module-close:error", err.Error())
		}
		res.Counts["module_closes"]++
	}()
	res.Shape = fmt.Sprintf("%016x", mc.Seed)
	return res
}

func (m *many) maxFd() int32 {
	mx := int32(3)
	for fd := range m.fds {
		if fd > mx {
			mx = fd
		}
	}
	return mx
}

func (m *many) observe(fd int32) fdBaseline {
	var b fdBaseline
	b.errFd = m.g.call("fd_fdstat_get", fdArg(fd), offResult)
	b.fdstat = m.g.read(offResult, 4)
	b.errFile = m.g.call("fd_filestat_get", fdArg(fd), offResult)
	b.filestat = m.g.read(offResult, 40)
	return b
}

func (m *many) run() {
	r := m.r
	closePct := 8 + r.Intn(14)
	// renumbering onto high numbers grows the table early; in half of the
	// histories it only starts after the first boundary was crossed by opens
	renumberFrom := 0
	if r.Bool() {
		renumberFrom = 70
	}
	if r.Chance(1, 4) {
		renumberFrom = 1 << 30 // never before the end
	}
	targets := []int{60 + r.Intn(11), 125 + r.Intn(11), 190 + r.Intn(11)}
	for _, target := range targets {
		for m.openCount() < target && !m.stop {
			switch x := r.Intn(100); {
			case x < closePct && len(m.fds) > 0:
				m.doClose()
			case x < closePct+4 && len(m.fds) > 0 && m.openCount() >= renumberFrom:
				m.doRenumber()
			default:
				m.doOpen()
			}
		}
		if m.stop {
			return
		}
		m.verifyAll(fmt.Sprintf("reached-%d-open", m.openCount()))
		if m.stop {
			return
		}
		// leave gaps, high and low, then go on opening
		for k := 0; k < 2+r.Intn(5) && len(m.fds) > 0 && !m.stop; k++ {
			if r.Bool() {
				m.doRenumber()
			} else {
				m.doClose()
			}
		}
	}
	// wind down part of the way and fill up again
	for k := 0; k < 30+r.Intn(60) && len(m.fds) > 0 && !m.stop; k++ {
		m.doClose()
	}
	for k := 0; k < 20+r.Intn(30) && !m.stop; k++ {
		m.doOpen()
	}
	if !m.stop {
		m.verifyAll("end")
	}
	if !m.stop && r.Bool() {
		for _, fd := range m.sorted() {
			if r.Chance(2, 3) && !m.stop {
				m.closeFd(fd)
			}
		}
	}
}

func (m *many) doOpen() {
	g := m.g
	o := m.objs[m.r.Intn(len(m.objs))]
	oflags, rights := uint64(0), uint64(rightRead)
	if o.isDir {
		oflags, rights = oDIRECTORY, 0
	}
	before := m.openCount()
	want := m.lowestFree()
	full := before%64 == 0 && int(want) == before
	p, l := g.putPath(offPathA, o.path)
	g.write(offResult, []byte{0xee, 0xee, 0xee, 0xee})
	e := g.call("path_open", preopenFd, 0, p, l, oflags, rights, 0, 0, offResult)
	m.res.Counts["path_open"]++
	if m.trapped("path_open") {
		return
	}
	got := int32(g.u32(offResult))
	m.logf("path_open(3,%q) with %d open -> %s fd=%d (model: lowest free %d)", o.path, before, errName(e), got, want)
	if e != 0 {
		m.violate("path_open:errno="+errName(e), fmt.Sprintf("path_open(3,%q) failed with %d descriptors open", o.path, before))
		return
	}
	m.res.Counts["fd_checks"]++
	if got != want {
		sfx := ""
		if full {
			sfx = ":table-full-at-multiple-of-64"
		}
		inUse := got >= 0 && got < firstFreeFd || m.fds[got] != nil
		if inUse {
			what := "an open descriptor of this history"
			if got < firstFreeFd {
				what = []string{"stdin", "stdout", "stderr", "the preopen"}[got]
			}
			m.violate("path_open:returned-fd-names-open-descriptor"+sfx,
				fmt.Sprintf("path_open(3,%q) with descriptors %d open (lowest free %d) returned fd %d, which is %s", o.path, before, want, got, what))
		} else {
			m.violate("path_open:fd-not-lowest-free"+sfx,
				fmt.Sprintf("path_open(3,%q) with %d descriptors open returned fd %d, lowest free is %d", o.path, before, got, want))
		}
		return
	}
	m.fds[got] = o
	if n := m.openCount(); n > m.res.MaxOpen {
		m.res.MaxOpen = n
		if n%64 == 1 && n > 1 {
			m.res.Crossed = append(m.res.Crossed, n-1)
		}
	}
	// the new descriptor, stdio and the preopen, a few others; everything near a boundary
	m.verifyFd(got, "after-path_open")
	near := m.openCount() % 64
	if near <= 2 || near >= 62 {
		m.verifyAll("near-boundary")
		return
	}
	for fd := int32(0); fd < 4 && !m.stop; fd++ {
		m.verifyFd(fd, "after-path_open")
	}
	fds := m.sorted()
	for k := 0; k < 3 && !m.stop; k++ {
		m.verifyFd(fds[m.r.Intn(len(fds))], "after-path_open")
	}
	if !m.stop {
		m.verifyClosed(m.lowestFree(), "after-path_open")
	}
}

func (m *many) doClose() {
	fds := m.sorted()
	m.closeFd(fds[m.r.Intn(len(fds))])
}

func (m *many) closeFd(fd int32) {
	e := m.g.call("fd_close", fdArg(fd))
	m.res.Counts["fd_close"]++
	m.logf("fd_close(%d) -> %s", fd, errName(e))
	if m.trapped("fd_close") {
		return
	}
	if e != 0 {
		m.violate("fd_close:errno="+errName(e), fmt.Sprintf("fd_close(%d) of an open descriptor", fd))
		return
	}
	delete(m.fds, fd)
	m.closed = append(m.closed, fd)
	m.verifyClosed(fd, "after-fd_close")
}

func (m *many) doRenumber() {
	r := m.r
	fds := m.sorted()
	from := fds[r.Intn(len(fds))]
	var to int32
	switch r.Intn(4) {
	case 0:
		to = fds[r.Intn(len(fds))] // onto an open one (or itself)
	case 1:
		to = m.maxFd() + 1 + int32(r.Intn(40))
	default:
		to = int32(64 + r.Intn(340))
	}
	e := m.g.call("fd_renumber", fdArg(from), fdArg(to))
	m.res.Counts["fd_renumber"]++
	m.logf("fd_renumber(%d,%d) -> %s", from, to, errName(e))
	if m.trapped("fd_renumber") {
		return
	}
	if e != 0 {
		m.violate("fd_renumber:errno="+errName(e), fmt.Sprintf("fd_renumber(%d,%d) between ordinary descriptors", from, to))
		return
	}
	if to != from {
		m.fds[to] = m.fds[from]
		delete(m.fds, from)
		m.verifyClosed(from, "after-fd_renumber")
	}
	if !m.stop {
		m.verifyFd(to, "after-fd_renumber")
	}
}

// verifyClosed: a number the model does not hold must be invalid.
func (m *many) verifyClosed(fd int32, when string) {
	e := m.g.call("fd_fdstat_get", fdArg(fd), offResult)
	m.res.Counts["closed_checks"]++
	if m.trapped("fd_fdstat_get:closed-descriptor") {
		return
	}
	if e != eBADF {
		m.logf("fd_fdstat_get(%d) -> %s (model: EBADF)", fd, errName(e))
		m.violate("closed-descriptor-looks-open", fmt.Sprintf("%s: fd_fdstat_get(%d) returned %s although no such descriptor is open", when, fd, errName(e)))
	}
}

// verifyFd: an open descriptor still refers to what it was opened on.
func (m *many) verifyFd(fd int32, when string) {
	g := m.g
	m.res.Counts["descriptor_checks"]++
	if fd < firstFreeFd {
		kind := []string{"stdin", "stdout", "stderr", "preopen"}[fd]
		now := m.observe(fd)
		if m.trapped("fd_fdstat_get:" + kind) {
			return
		}
		b := m.base[fd]
		if now.errFd != b.errFd || now.errFile != b.errFile || !bytes.Equal(now.fdstat, b.fdstat) || !bytes.Equal(now.filestat, b.filestat) {
			m.logf("descriptor %d changed: fdstat %s %x (was %s %x) filestat %s %x (was %s %x)", fd, errName(now.errFd), now.fdstat, errName(b.errFd), b.fdstat,
				errName(now.errFile), now.filestat, errName(b.errFile), b.filestat)
			m.violate("descriptor-changed:"+kind, fmt.Sprintf("%s: descriptor %d (%s) no longer is what it was at start: fd_fdstat_get %s %x (was %s %x), fd_filestat_get %s dev/ino/type/nlink/size %x (was %s %x)",
				when, fd, kind, errName(now.errFd), now.fdstat, errName(b.errFd), b.fdstat, errName(now.errFile), now.filestat, errName(b.errFile), b.filestat))
		}
		if fd == preopenFd && !m.stop {
			if e := g.call("fd_prestat_get", preopenFd, offResult); e != 0 && !m.trapped("fd_prestat_get") {
				m.violate("descriptor-changed:preopen", fmt.Sprintf("%s: fd_prestat_get(3) returned %s", when, errName(e)))
			}
		}
		return
	}
	o := m.fds[fd]
	kind := "file"
	wantFt := byte(ftFile)
	if o.isDir {
		kind, wantFt = "dir", ftDir
	}
	e := g.call("fd_fdstat_get", fdArg(fd), offResult)
	if m.trapped("fd_fdstat_get:" + kind) {
		return
	}
	ft := g.read(offResult, 1)[0]
	if e != 0 || ft != wantFt {
		m.logf("fd_fdstat_get(%d) -> %s filetype=%d (model: OK filetype=%d, %q)", fd, errName(e), ft, wantFt, o.path)
		m.violate("descriptor-changed:"+kind+":fd_fdstat_get", fmt.Sprintf("%s: fd_fdstat_get(%d) gives %s filetype=%d, the descriptor was opened on %q (filetype %d)", when, fd, errName(e), ft, o.path, wantFt))
		return
	}
	e = g.call("fd_filestat_get", fdArg(fd), offResult)
	if m.trapped("fd_filestat_get:" + kind) {
		return
	}
	ino, ft2, size := g.u64(offResult+8), g.read(offResult+16, 1)[0], g.u64(offResult+32)
	if e != 0 || ino != o.ino || ft2 != wantFt || (!o.isDir && size != uint64(len(o.data))) {
		m.logf("fd_filestat_get(%d) -> %s ino=%d filetype=%d size=%d (model: %q ino=%d size=%d)", fd, errName(e), ino, ft2, size, o.path, o.ino, len(o.data))
		m.violate("descriptor-changed:"+kind+":fd_filestat_get", fmt.Sprintf("%s: fd_filestat_get(%d) gives %s ino=%d filetype=%d size=%d, the descriptor was opened on %q (ino=%d filetype=%d size=%d)",
			when, fd, errName(e), ino, ft2, size, o.path, o.ino, wantFt, len(o.data)))
		return
	}
	if o.isDir {
		return
	}
	g.write(offData, bytes.Repeat([]byte{0xa5}, 16))
	ip, in := g.putIovs([]iov{{offData, 8}})
	e = g.call("fd_pread", fdArg(fd), ip, in, 3, offResult)
	if m.trapped("fd_pread") {
		return
	}
	if n := g.u32(offResult); e != 0 || n != 8 || !bytes.Equal(g.read(offData, 8), o.data[3:11]) {
		m.logf("fd_pread(%d,8 bytes at 3) -> %s n=%d %x (model: %x)", fd, errName(e), n, g.read(offData, 8), o.data[3:11])
		m.violate("descriptor-changed:file:fd_pread", fmt.Sprintf("%s: fd_pread(%d, 8 bytes at offset 3) gives %s n=%d %x, %q has %x there", when, fd, errName(e), n, g.read(offData, 8), o.path, o.data[3:11]))
	}
}

// verifyAll checks every open descriptor, 0..3 and a band of closed numbers.
func (m *many) verifyAll(when string) {
	m.res.Counts["full_verifications"]++
	for fd := int32(0); fd < 4 && !m.stop; fd++ {
		m.verifyFd(fd, when)
	}
	for _, fd := range m.sorted() {
		if m.stop {
			return
		}
		m.verifyFd(fd, when)
	}
	// numbers around the table's word boundaries and just above the highest descriptor
	cands := []int32{m.lowestFree(), m.maxFd() + 1, m.maxFd() + 2, 63, 64, 65, 127, 128, 129, 191, 192, 193, 255, 256}
	for _, fd := range cands {
		if m.stop {
			return
		}
		if m.fds[fd] == nil && fd >= firstFreeFd {
			m.verifyClosed(fd, when)
		}
	}
}
