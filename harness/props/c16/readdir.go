package c16

import (
	"bytes"
	"crypto/sha256"
	"encoding/binary"
	"encoding/hex"
	"fmt"
	"os"
	"path/filepath"
	"sort"
	"strings"

	"github.com/tetratelabs/wazero/verifharness/core"
)

// ---------------------------------------------------------------------------
// dirent buffer parsing (WASI dirent: d_next u64, d_ino u64, d_namlen u32,
// d_type u8 + 3 pad = 24 bytes, followed by the name)

type dirent struct {
	next, ino uint64
	namlen    uint32
	typ       byte
	name      string
}

// partial is what is left after the last complete entry of a buffer.
type partial struct {
	full      bool // a whole 24-byte header is present
	next, ino uint64
	namlen    uint32
	typ       byte
}

func parseDirents(b []byte) (ents []dirent, tail *partial, perr string) {
	pos := 0
	for pos < len(b) {
		if len(b)-pos < 24 {
			return ents, &partial{}, ""
		}
		e := dirent{
			next:   binary.LittleEndian.Uint64(b[pos:]),
			ino:    binary.LittleEndian.Uint64(b[pos+8:]),
			namlen: binary.LittleEndian.Uint32(b[pos+16:]),
			typ:    b[pos+20],
		}
		if uint64(pos)+24+uint64(e.namlen) > uint64(len(b)) {
			return ents, &partial{full: true, next: e.next, ino: e.ino, namlen: e.namlen, typ: e.typ}, ""
		}
		if e.namlen == 0 {
			return ents, nil, fmt.Sprintf("entry at byte %d has d_namlen 0", pos)
		}
		e.name = string(b[pos+24 : pos+24+int(e.namlen)])
		if strings.ContainsAny(e.name, "/\x00") {
			return ents, nil, fmt.Sprintf("entry at byte %d has name %q", pos, e.name)
		}
		ents = append(ents, e)
		pos += 24 + int(e.namlen)
	}
	return ents, nil, ""
}

// ---------------------------------------------------------------------------
// readdir scripts

type rdCase struct {
	Seed  uint64 `json:"seed"`
	N     int    `json:"n"`
	Buf   int    `json:"buf"` // fixed buffer length of the script, 0 = by mode
	Root  string `json:"root"`
	Trace bool   `json:"trace,omitempty"`
}

type rdResult struct {
	Findings  []finding      `json:"findings,omitempty"`
	Calls     int            `json:"calls"`
	Passes    int            `json:"passes"` // complete enumerations verified
	Counts    map[string]int `json:"counts"` // cookie strategies, truncations, ...
	Shape     string         `json:"shape"`
	Ended     string         `json:"ended,omitempty"`
	Log       []string       `json:"log,omitempty"`
	N         int            `json:"n"`
	BufBucket string         `json:"buf_bucket"`
}

type entryRec struct {
	next     uint64
	ino      uint64
	namlen   uint32
	typ      byte
	name     string
	haveName bool
}

type rdScript struct {
	r      *core.Rng
	g      *guest
	engine string
	res    *rdResult
	log    []string
	stop   bool
	fd     int32
	sub    string // "" when the preopen itself is listed, else the directory name
	want   map[string]byte

	// state of the current pass (since the last rewind)
	chain      map[uint64]*entryRec
	eof        map[uint64]bool
	known      []uint64
	guaranteed map[uint64]bool
	lastCookie uint64
	seqCookie  uint64 // position after the last completely read entry
	lastTail   *partial
	lastFull   int
	dirty      bool // the directory changed since the last rewind
	mustRewind bool

	// twin: a second descriptor of the same directory that receives exactly the
	// successful calls of the script and none of the interleaved failing ones;
	// both listings must stay identical (a failed call has no side effect).
	twin     int32
	passKind string // the one kind of failing call used in the current pass ("" = none yet)
	pending  int    // failing calls issued since the last rewind
}

const (
	offTwinBuf    = offDirBuf + 0x18000
	offTwinResult = offResult + 16
	badPointer    = 0xfffffff0
)

func (s *rdScript) logf(f string, a ...any) { s.log = append(s.log, fmt.Sprintf(f, a...)) }

func (s *rdScript) violate(sig, detail string) {
	s.stop = true
	s.res.Ended = "violation"
	lg := s.log
	if len(lg) > 60 {
		lg = lg[len(lg)-60:]
	}
	s.res.Findings = append(s.res.Findings, finding{Sig: "fd_readdir:" + sig, Detail: detail, Engine: s.engine, Log: append([]string(nil), lg...)})
}

func genName(r *core.Rng, i int) string {
	const alpha = "abcdefghijklmnopqrstuvwxyzABCDEFGHIJKLMNOPQRSTUVWXYZ0123456789-_.,+ "
	l := 1 + r.Intn(14)
	switch r.Intn(12) {
	case 0:
		l = 40 + r.Intn(90)
	case 1:
		l = 200 + r.Intn(40)
	case 2:
		l = 1
	}
	b := make([]byte, l)
	for k := range b {
		b[k] = alpha[r.Intn(len(alpha))]
	}
	// unique: the text after the last '_' is the index; never "." / ".."
	sfx := fmt.Sprintf("_%d", i)
	if len(sfx) >= l {
		return sfx[1:] // digits only
	}
	copy(b[l-len(sfx):], sfx)
	if b[0] == '.' || b[0] == ' ' {
		b[0] = 'x'
	}
	return string(b)
}

func runReaddir(rc rdCase, engine int) *rdResult {
	res := &rdResult{Counts: map[string]int{}, N: rc.N}
	dir, err := os.MkdirTemp(rc.Root, "r-")
	if err != nil {
		res.Ended = "harness: " + err.Error()
		return res
	}
	defer os.RemoveAll(dir)
	r := core.NewRng(int64(rc.Seed), 17)
	s := &rdScript{r: r, engine: engineNames[engine], res: res, want: map[string]byte{".": ftDir, "..": ftDir}}
	listDir := dir
	if r.Chance(7, 10) {
		s.sub = "L"
		listDir = filepath.Join(dir, "L")
		os.Mkdir(listDir, 0o755)
	}
	for i := 0; i < rc.N; i++ {
		nm := genName(r, i)
		if s.sub == "" && nm == "L" {
			nm = "L_"
		}
		if r.Chance(1, 5) {
			if err := os.Mkdir(filepath.Join(listDir, nm), 0o755); err != nil {
				panic(err)
			}
			s.want[nm] = ftDir
		} else {
			if err := os.WriteFile(filepath.Join(listDir, nm), nil, 0o644); err != nil {
				panic(err)
			}
			s.want[nm] = ftFile
		}
	}
	g, err := newGuest(engine, dir)
	if err != nil {
		res.Ended = "harness: instantiate: " + err.Error()
		return res
	}
	defer g.close()
	s.g = g
	s.fd = preopenFd
	if s.sub != "" {
		p, l := g.putPath(offPathA, s.sub)
		if e := g.call("path_open", preopenFd, 0, p, l, oDIRECTORY, 0, 0, 0, offResult); e != 0 {
			s.violate("setup:path_open-directory-failed", errName(e))
			return res
		}
		s.fd = int32(g.u32(offResult))
	}
	{
		tp := s.sub
		if tp == "" {
			tp = "."
		}
		p, l := g.putPath(offPathA, tp)
		if e := g.call("path_open", preopenFd, 0, p, l, oDIRECTORY, 0, 0, 0, offResult); e != 0 {
			s.violate("setup:path_open-twin-failed", errName(e))
			return res
		}
		s.twin = int32(g.u32(offResult))
	}
	s.run(rc)
	sum := sha256.Sum256([]byte(strings.Join(s.log, "\n")))
	res.Shape = hex.EncodeToString(sum[:8])
	if rc.Trace {
		res.Log = s.log
	} else if len(s.log) > 10 {
		res.Log = s.log[:10]
	} else {
		res.Log = s.log
	}
	if g.trap != "" && !s.stop {
		s.violate("trap", g.trap)
	}
	return res
}

func (s *rdScript) resetPass() {
	s.chain = map[uint64]*entryRec{}
	s.eof = map[uint64]bool{}
	s.known = []uint64{0}
	s.guaranteed = map[uint64]bool{0: true}
	s.lastCookie, s.seqCookie = 0, 0
	s.lastTail, s.lastFull = nil, 0
	s.dirty, s.mustRewind = false, false
	s.passKind, s.pending = "", 0
}

func (s *rdScript) run(rc rdCase) {
	r := s.r
	mode := r.Intn(4) // 0 fixed, 1 large, 2 random per call, 3 tiny
	fixed := uint32(rc.Buf)
	if fixed == 0 {
		fixed = uint32(24 + r.Intn(177))
	} else {
		mode = 0
	}
	switch mode {
	case 0:
		s.res.BufBucket = fmt.Sprintf("fixed-%d", fixed)
	case 1:
		s.res.BufBucket = "4096"
	case 2:
		s.res.BufBucket = "random"
	default:
		s.res.BufBucket = "tiny"
	}
	nextBuf := func() uint32 {
		switch mode {
		case 0:
			return fixed
		case 1:
			return 4096
		case 2:
			if r.Chance(1, 10) {
				return 4096
			}
			return uint32(24 + r.Intn(280))
		}
		return uint32(24 + r.Intn(17))
	}
	s.resetPass()
	budget := 6*(rc.N+2) + 60
	if rc.N >= 100 {
		budget = 2*(rc.N+2) + 60
		if mode == 3 || (mode == 0 && fixed < 64) {
			mode, s.res.BufBucket = 2, "random"
		}
	}
	rewinds, passesWanted := 0, 1+r.Intn(2)
	mutateAt := -1
	if rc.N <= 40 && r.Chance(1, 5) {
		mutateAt = 1 + r.Intn(8)
	}
	first := true
	for !s.stop {
		drain := s.res.Calls > budget
		bufLen := nextBuf()
		if drain {
			bufLen = 4096
		}
		injected := false
		if !first && !s.mustRewind && !drain && mutateAt != s.res.Calls && r.Chance(1, 4) {
			injected = s.injectFailing()
			if s.stop {
				return
			}
		}
		cookie := s.seqCookie
		strat := "sequential"
		x := r.Intn(100)
		if injected && !s.mustRewind && r.Chance(3, 5) {
			// continue from the earliest position that is still valid, or somewhere in the window
			x = 72 + r.Intn(9) // reread-last
			if r.Bool() {
				x = 200
			}
		}
		switch {
		case x == 200:
			var win []uint64
			for k := range s.guaranteed {
				win = append(win, k)
			}
			sort.Slice(win, func(i, j int) bool { return win[i] < win[j] })
			cookie, strat = win[r.Intn(len(win))], "in-window"
		case first:
			first = false
		case s.mustRewind:
			cookie, strat = 0, "rewind"
		case drain:
		case x < 66:
		case x < 72 && s.lastTail != nil && s.lastTail.full:
			cookie, strat = s.lastTail.next, "skip-truncated-name"
		case x < 81:
			cookie, strat = s.lastCookie, "reread-last"
			if r.Bool() {
				bufLen = uint32(24 + r.Intn(300))
			}
		case x < 86 && rewinds < 3:
			cookie, strat = 0, "rewind"
			rewinds++
		case x < 95:
			cookie, strat = s.known[r.Intn(len(s.known))], "stale"
			if s.guaranteed[cookie] {
				strat = "in-window"
			}
		case x < 98:
			mx := uint64(0)
			for _, k := range s.known {
				if k > mx {
					mx = k
				}
			}
			cookie, strat = mx+1+uint64(r.Intn(5)), "never-returned"
			if r.Chance(1, 4) {
				cookie = []uint64{1 << 62, 1<<63 + 5, ^uint64(0)}[r.Intn(3)]
			}
		}
		// a sequential reader that got no complete entry grows its buffer
		if strat == "sequential" && s.lastFull == 0 && s.lastTail != nil && cookie == s.lastCookie {
			need := uint32(24 + 256)
			if s.lastTail.full {
				need = 24 + s.lastTail.namlen
			}
			if bufLen < need {
				bufLen = need
				s.res.Counts["grow-buffer"]++
			}
		}
		if mutateAt == s.res.Calls {
			s.mutate()
			if s.stop {
				return
			}
			cookie, strat = 0, "rewind-after-change"
		}
		done := s.call(cookie, bufLen, strat)
		if s.stop {
			return
		}
		if done {
			passesWanted--
			if passesWanted <= 0 {
				return
			}
			if rc.N <= 40 && r.Chance(1, 2) {
				s.mutate()
			}
			s.mustRewind = true
			rewinds = 0
		}
		if s.res.Calls > budget+4*(rc.N+2)+200 {
			s.violate("no-progress", fmt.Sprintf("%d calls without completing a pass over %d entries", s.res.Calls, rc.N))
			return
		}
	}
}

// mutate adds or removes one entry through the guest; the listing is only
// defined again after the next rewind.
func (s *rdScript) mutate() {
	r := s.r
	prefix := ""
	if s.sub != "" {
		prefix = s.sub + "/"
	}
	var names []string
	for n := range s.want {
		if n != "." && n != ".." && n != "L" {
			names = append(names, n)
		}
	}
	sort.Strings(names)
	if len(names) > 0 && r.Bool() {
		n := names[r.Intn(len(names))]
		p, l := s.g.putPath(offPathA, prefix+n)
		fn := "path_unlink_file"
		if s.want[n] == ftDir {
			fn = "path_remove_directory"
		}
		if e := s.g.call(fn, preopenFd, p, l); e != 0 {
			s.violate("setup:"+fn+"-failed", errName(e))
			return
		}
		delete(s.want, n)
		s.logf("%s(3,%q)", fn, prefix+n)
		s.res.Counts["mutate-remove"]++
	} else {
		n := fmt.Sprintf("new-%d", r.Intn(1000))
		if _, dup := s.want[n]; dup {
			return
		}
		p, l := s.g.putPath(offPathA, prefix+n)
		if r.Bool() {
			if e := s.g.call("path_create_directory", preopenFd, p, l); e != 0 {
				s.violate("setup:path_create_directory-failed", errName(e))
				return
			}
			s.want[n] = ftDir
			s.logf("path_create_directory(3,%q)", prefix+n)
		} else {
			if e := s.g.call("path_open", preopenFd, 0, p, l, oCREAT|oEXCL, rightRead|rightWrite, 0, 0, offResult); e != 0 {
				s.violate("setup:path_open-create-failed", errName(e))
				return
			}
			s.g.call("fd_close", uint64(s.g.u32(offResult)))
			s.want[n] = ftFile
			s.logf("path_open(3,%q,O_CREAT|O_EXCL)+fd_close", prefix+n)
		}
		s.res.Counts["mutate-add"]++
	}
	s.dirty, s.mustRewind = true, true
}

// call issues one fd_readdir and applies the oracle; it returns true when a
// complete pass was verified.
func (s *rdScript) call(cookie uint64, bufLen uint32, strat string) bool {
	g := s.g
	s.res.Calls++
	if cookie == 0 {
		// cookie 0 always starts a new pass (the listing may be refreshed)
		if strat == "stale" || strat == "in-window" || strat == "reread-last" {
			strat = "rewind"
		}
		s.resetPass()
	}
	s.res.Counts["cookie-"+strat]++
	g.write(offDirBuf, bytes.Repeat([]byte{0xa5}, int(bufLen)+32))
	g.write(offResult, []byte{0xee, 0xee, 0xee, 0xee})
	errno := g.call("fd_readdir", fdArg(s.fd), offDirBuf, uint64(bufLen), cookie, offResult)
	desc := fmt.Sprintf("fd_readdir(%d,buf_len=%d,cookie=%d) [%s]", s.fd, bufLen, cookie, strat)
	if g.trap != "" {
		s.logf("%s -> trap", desc)
		s.violate("trap:"+strat, g.trap)
		return false
	}
	if !s.compareTwin(desc, strat, errno, cookie, bufLen) {
		return false
	}
	if strat == "never-returned" {
		// unspecified: any answer; the window may have moved
		s.logf("%s -> %s (unspecified)", desc, errName(errno))
		s.res.Counts["unspecified"]++
		if errno == 0 {
			s.mustRewind = true
		}
		return false
	}
	if errno != 0 {
		s.logf("%s -> %s", desc, errName(errno))
		if !s.guaranteed[cookie] && (errno == eNOENT || errno == eINVAL) {
			// wazero documents: cookies before the last call's window are refused
			s.res.Counts["stale-refused"]++
			return false
		}
		s.violate(fmt.Sprintf("cookie-%s:errno=%s", strat, errName(errno)),
			fmt.Sprintf("%s failed with %s; the cookie was returned by (or used in) the previous successful call", desc, errName(errno)))
		return false
	}
	used := g.u32(offResult)
	if used > bufLen {
		s.logf("%s -> bufused=%d", desc, used)
		s.violate("bufused-exceeds-buf_len", fmt.Sprintf("%s: bufused=%d", desc, used))
		return false
	}
	buf := g.read(offDirBuf, used)
	if over := g.read(offDirBuf+bufLen, 32); !bytes.Equal(over, bytes.Repeat([]byte{0xa5}, 32)) {
		s.violate("writes-past-buf_len", fmt.Sprintf("%s wrote beyond the buffer", desc))
		return false
	}
	ents, tail, perr := parseDirents(buf)
	var names []string
	for _, e := range ents {
		names = append(names, fmt.Sprintf("%s→%d", trunc(e.name, 12), e.next))
	}
	tl := ""
	if tail != nil {
		tl = " +partial-header"
		if tail.full {
			tl = fmt.Sprintf(" +header-only(namlen=%d→%d)", tail.namlen, tail.next)
		}
	}
	s.logf("%s -> bufused=%d [%s]%s", desc, used, strings.Join(names, " "), tl)
	if perr != "" {
		s.violate("malformed-buffer", desc+": "+perr)
		return false
	}
	if tail != nil && used < bufLen {
		s.violate("truncated-entry-but-bufused-below-buf_len", fmt.Sprintf("%s: bufused=%d < buf_len yet the last entry is cut off", desc, used))
		return false
	}
	if tail != nil && tail.full && tail.namlen == 0xa5a5a5a5 {
		s.violate("truncated-entry-header-not-written", fmt.Sprintf("%s: bufused=%d covers a header that was not written", desc, used))
		return false
	}
	if tail != nil && tail.full {
		s.res.Counts["header-only-entries"]++
	} else if tail != nil {
		s.res.Counts["partial-headers"]++
	}
	// the entry must not be withheld when it fits
	if len(ents) == 0 && tail != nil && tail.full && 24+tail.namlen <= bufLen {
		s.violate("entry-fits-but-truncated", fmt.Sprintf("%s: d_namlen=%d fits into buf_len", desc, tail.namlen))
		return false
	}
	// thread the entries onto the chain of this pass
	cur := cookie
	visited := map[uint64]bool{cookie: true}
	record := func(next, ino uint64, namlen uint32, typ byte, name string, haveName bool) bool {
		if s.eof[cur] {
			s.violate("entry-after-end-of-directory", fmt.Sprintf("%s: cookie %d was the end of the directory before, now %q follows", desc, cur, name))
			return false
		}
		if visited[next] {
			s.violate("d_next-cycle", fmt.Sprintf("%s: d_next %d repeats", desc, next))
			return false
		}
		visited[next] = true
		if rec := s.chain[cur]; rec != nil {
			if rec.next != next || rec.namlen != namlen || rec.typ != typ || rec.ino != ino || (rec.haveName && haveName && rec.name != name) {
				s.violate("reread-differs", fmt.Sprintf("%s: after cookie %d came {next=%d namlen=%d type=%d ino=%d name=%q}, now {next=%d namlen=%d type=%d ino=%d name=%q}",
					desc, cur, rec.next, rec.namlen, rec.typ, rec.ino, rec.name, next, namlen, typ, ino, name))
				return false
			}
			if haveName && !rec.haveName {
				rec.name, rec.haveName = name, true
			}
		} else {
			s.chain[cur] = &entryRec{next: next, ino: ino, namlen: namlen, typ: typ, name: name, haveName: haveName}
			s.known = append(s.known, next)
		}
		return true
	}
	s.guaranteed = map[uint64]bool{cookie: true}
	for _, e := range ents {
		if !record(e.next, e.ino, e.namlen, e.typ, e.name, true) {
			return false
		}
		cur = e.next
		s.guaranteed[cur] = true
	}
	afterFull := cur
	if tail != nil && tail.full {
		if !record(tail.next, tail.ino, tail.namlen, tail.typ, "", false) {
			return false
		}
		s.guaranteed[tail.next] = true
	}
	s.lastCookie, s.lastTail, s.lastFull = cookie, tail, len(ents)
	s.seqCookie = afterFull
	if used < bufLen {
		// end of directory after the last complete entry
		if rec := s.chain[afterFull]; rec != nil {
			s.violate("premature-end-of-directory", fmt.Sprintf("%s: bufused=%d < buf_len, but an entry (namlen=%d) is known to follow cookie %d", desc, used, rec.namlen, afterFull))
			return false
		}
		s.eof[afterFull] = true
		return s.verifyPass(desc)
	}
	return false
}

// verifyPass walks the chain from cookie 0 to the end and compares the
// multiset of entries with the directory.
func (s *rdScript) verifyPass(desc string) bool {
	cur := uint64(0)
	seen := map[string]int{}
	var nameless []*entryRec
	count := 0
	for !s.eof[cur] {
		rec := s.chain[cur]
		if rec == nil {
			// the script jumped here with a cookie whose predecessors it never read: cannot happen,
			// cookies come from the chain
			s.violate("harness:chain-gap", fmt.Sprintf("cookie %d", cur))
			return false
		}
		count++
		if count > len(s.want)+100000 {
			s.violate("d_next-cycle", "chain does not end")
			return false
		}
		if rec.haveName {
			seen[rec.name]++
			if t, ok := s.want[rec.name]; ok && t != rec.typ {
				s.violate("wrong-d_type", fmt.Sprintf("entry %q d_type=%d, directory has %d", rec.name, rec.typ, t))
				return false
			}
		} else {
			nameless = append(nameless, rec)
		}
		cur = rec.next
	}
	var problems []string
	var missing []string
	for n := range s.want {
		switch seen[n] {
		case 1:
		case 0:
			missing = append(missing, n)
		default:
			problems = append(problems, fmt.Sprintf("%q returned %d times", trunc(n, 30), seen[n]))
		}
	}
	for n, k := range seen {
		if _, ok := s.want[n]; !ok {
			problems = append(problems, fmt.Sprintf("unexpected %q x%d", trunc(n, 30), k))
		}
	}
	// entries whose name the script chose to skip: match by (namlen, type)
	type key struct {
		l uint32
		t byte
	}
	pool := map[key]int{}
	for _, n := range missing {
		pool[key{uint32(len(n)), s.want[n]}]++
	}
	for _, rec := range nameless {
		k := key{rec.namlen, rec.typ}
		if pool[k] == 0 {
			problems = append(problems, fmt.Sprintf("header-only entry namlen=%d type=%d matches no missing name", rec.namlen, rec.typ))
		} else {
			pool[k]--
		}
	}
	left := 0
	for _, v := range pool {
		left += v
	}
	if left > 0 {
		sort.Strings(missing)
		if len(missing) > 6 {
			missing = missing[:6]
		}
		problems = append(problems, fmt.Sprintf("%d entries never returned (e.g. %q)", left, missing))
	}
	if count != len(s.want) && len(problems) == 0 {
		problems = append(problems, fmt.Sprintf("%d entries returned, directory has %d (+2)", count, len(s.want)))
	}
	if len(problems) > 0 {
		sort.Strings(problems)
		kind := "entry-missing-or-duplicated"
		if left > 0 && len(problems) == 1 {
			kind = "entry-skipped"
		}
		s.violate(kind, desc+": "+strings.Join(problems, "; "))
		return false
	}
	s.res.Passes++
	if len(nameless) > 0 {
		s.res.Counts["passes-with-skipped-names"]++
	}
	return true
}

// compareTwin issues the same call on the twin descriptor and demands the same
// answer (errno, bufused, bytes). The primary descriptor additionally received
// failing calls; if they had no side effect the two listings cannot differ.
func (s *rdScript) compareTwin(desc, strat string, errno uint32, cookie uint64, bufLen uint32) bool {
	g := s.g
	used := g.u32(offResult)
	g.write(offTwinBuf, bytes.Repeat([]byte{0xa5}, int(bufLen)+32))
	g.write(offTwinResult, []byte{0xee, 0xee, 0xee, 0xee})
	te := g.call("fd_readdir", fdArg(s.twin), offTwinBuf, uint64(bufLen), cookie, offTwinResult)
	s.res.Counts["twin-comparisons"]++
	if g.trap != "" {
		s.violate("trap:twin", g.trap)
		return false
	}
	tused := g.u32(offTwinResult)
	if strat == "never-returned" {
		// unspecified cookie: answers are not compared; if either stream moved, both rewind
		if te == 0 || errno == 0 {
			s.mustRewind = true
		}
		return true
	}
	same := te == errno
	if same && errno == 0 {
		same = used == tused && used <= bufLen && bytes.Equal(g.read(offDirBuf, used), g.read(offTwinBuf, used))
	}
	if same {
		if s.pending > 0 {
			s.res.Counts["continuations-after-failing-calls-verified"]++
		}
		return true
	}
	show := func(e, u uint32, off uint32) string {
		if e != 0 {
			return errName(e)
		}
		ents, _, _ := parseDirents(g.read(off, min(u, bufLen)))
		var names []string
		for _, x := range ents {
			names = append(names, fmt.Sprintf("%s→%d", trunc(x.name, 12), x.next))
		}
		return fmt.Sprintf("OK bufused=%d [%s]", u, strings.Join(names, " "))
	}
	s.logf("%s -> %s", desc, show(errno, used, offDirBuf))
	s.logf("twin fd_readdir(%d,buf_len=%d,cookie=%d) -> %s", s.twin, bufLen, cookie, show(te, tused, offTwinBuf))
	detail := fmt.Sprintf("%s answered %s, but the twin descriptor %d of the same directory, which got the same successful calls and none of the %d failing ones (%s) issued since the last rewind, answers %s",
		desc, show(errno, used, offDirBuf), s.twin, s.pending, s.passKind, show(te, tused, offTwinBuf))
	if s.pending > 0 {
		s.violate("failed-call-changed-stream-position:"+s.passKind, detail)
	} else {
		s.violate("twin-listing-differs", detail)
	}
	return false
}

// injectFailing issues 1-3 calls of one kind that must fail, on the primary
// descriptor only. A call that nevertheless succeeds is a successful call and
// is repeated on the twin.
func (s *rdScript) injectFailing() bool {
	r, g := s.r, s.g
	if s.passKind == "" {
		// one kind per pass, so that a divergence names its cause. A pointer fault is
		// detected after the stream was consulted, so it is mostly issued with the cookie
		// of the last successful call, which cannot move the stream.
		switch x := r.Intn(40); {
		case x < 28:
			s.passKind = "small-buf_len"
		case x < 33:
			s.passKind = "bad-buf-pointer"
		case x < 38:
			s.passKind = "bad-result-pointer"
		case x < 39:
			s.passKind = "bad-buf-pointer:cookie-elsewhere"
		default:
			s.passKind = "bad-result-pointer:cookie-elsewhere"
		}
	}
	kind := s.passKind
	maxKnown := uint64(0)
	for _, k := range s.known {
		if k > maxKnown {
			maxKnown = k
		}
	}
	for i, n := 0, 1+r.Intn(3); i < n; i++ {
		var cookie uint64
		cls := ""
		switch x := r.Intn(10); {
		case x < 2:
			cookie, cls = 0, "zero"
		case x < 4:
			cookie, cls = s.seqCookie, "current"
		case x < 6:
			cookie, cls = s.known[r.Intn(len(s.known))], "earlier"
		case x < 9:
			cookie, cls = maxKnown, "latest"
		default:
			cookie, cls = []uint64{1 << 40, 1<<63 + 1, ^uint64(0)}[r.Intn(3)], "huge"
		}
		buf, bufLen, result := uint64(offDirBuf), uint64(24+r.Intn(200)), uint64(offResult)
		switch {
		case kind == "small-buf_len":
			bufLen = uint64(r.Intn(24))
		case strings.HasPrefix(kind, "bad-buf-pointer"):
			buf = badPointer
		default:
			result = badPointer
		}
		if kind == "bad-buf-pointer" || kind == "bad-result-pointer" {
			if s.lastCookie == 0 {
				return i > 0 // cookie 0 is a rewind: it would move the stream
			}
			cookie, cls = s.lastCookie, "window-start"
		} else if kind != "small-buf_len" && cls == "huge" {
			cookie, cls = maxKnown, "latest" // a valid cookie
		}
		errno := g.call("fd_readdir", fdArg(s.fd), buf, bufLen, cookie, result)
		s.res.Counts["failing-"+kind]++
		s.res.Counts["failing-cookie-"+cls]++
		s.logf("fd_readdir(%d,buf=%#x,buf_len=%d,cookie=%d,result=%#x) [must fail: %s, %s cookie] -> %s", s.fd, buf, bufLen, cookie, result, kind, cls, errName(errno))
		if g.trap != "" {
			s.violate("trap:failing-call:"+kind, g.trap)
			return true
		}
		if errno == 0 {
			// not a failed call after all (e.g. nothing to write at the end of the directory):
			// a successful call, repeated on the twin; both start over
			s.res.Counts["failing-call-succeeded"]++
			g.call("fd_readdir", fdArg(s.twin), offTwinBuf, bufLen, cookie, offTwinResult)
			s.mustRewind = true
			return true
		}
		s.pending++
	}
	return true
}
