package c16

import (
	"context"
	"encoding/binary"
	"fmt"
	"os"
	"path/filepath"
	"sort"
	"sync"

	"github.com/tetratelabs/wazero"
	"github.com/tetratelabs/wazero/api"
	"github.com/tetratelabs/wazero/imports/wasi_snapshot_preview1"
	"github.com/tetratelabs/wazero/verifharness/wasiproxy"
)

// guest memory layout (4 pages)
const (
	memPages  = 4
	offPathA  = 0x0100
	offPathB  = 0x0400
	offIovs   = 0x0800
	offResult = 0x0900 // 64 bytes
	offData   = 0x1000 // .. 0x3000
	dataSize  = 0x2000
	offDirBuf = 0x4000 // .. 0x34000
	dirBufMax = 0x30000
)

var engineNames = [2]string{"interpreter", "compiler"}

type engines struct {
	ctx context.Context
	rts [2]wazero.Runtime
	cms [2]wazero.CompiledModule
}

var (
	engOnce sync.Once
	eng     *engines
)

func getEngines() *engines {
	engOnce.Do(func() {
		ctx := context.Background()
		e := &engines{ctx: ctx}
		bin := wasiproxy.Build(wasiproxy.Signatures(), memPages, memPages)
		for i, cfg := range []wazero.RuntimeConfig{wazero.NewRuntimeConfigInterpreter(), wazero.NewRuntimeConfigCompiler()} {
			e.rts[i] = wazero.NewRuntimeWithConfig(ctx, cfg)
			wasi_snapshot_preview1.MustInstantiate(ctx, e.rts[i])
			cm, err := e.rts[i].CompileModule(ctx, bin)
			if err != nil {
				panic(err)
			}
			e.cms[i] = cm
		}
		eng = e
	})
	return eng
}

// guest is one instantiation of the proxy on a host directory.
type guest struct {
	ctx  context.Context
	mod  api.Module
	mem  api.Memory
	fns  map[string]api.Function
	dir  string
	trap string // first trap / host panic seen ("" = none)
}

func newGuest(engine int, dir string) (*guest, error) {
	e := getEngines()
	cfg := wazero.NewModuleConfig().WithName("").
		WithFSConfig(wazero.NewFSConfig().WithDirMount(dir, "/"))
	mod, err := e.rts[engine].InstantiateModule(e.ctx, e.cms[engine], cfg)
	if err != nil {
		return nil, err
	}
	return &guest{ctx: e.ctx, mod: mod, mem: mod.Memory(), fns: map[string]api.Function{}, dir: dir}, nil
}

func (g *guest) close() { g.mod.Close(g.ctx) }

// call issues one WASI call as the guest; a trap (host panic, closed module)
// is recorded and reported as errno 0xffffffff.
func (g *guest) call(name string, args ...uint64) uint32 {
	f := g.fns[name]
	if f == nil {
		f = g.mod.ExportedFunction(name)
		g.fns[name] = f
	}
	res, err := f.Call(g.ctx, args...)
	if err != nil {
		if g.trap == "" {
			g.trap = fmt.Sprintf("%s: %v", name, err)
		}
		return 0xffffffff
	}
	return uint32(res[0])
}

func (g *guest) write(off uint32, b []byte) {
	if !g.mem.Write(off, b) {
		panic("harness: guest memory write out of range")
	}
}

func (g *guest) read(off, n uint32) []byte {
	b, ok := g.mem.Read(off, n)
	if !ok {
		panic("harness: guest memory read out of range")
	}
	out := make([]byte, n)
	copy(out, b)
	return out
}

func (g *guest) u32(off uint32) uint32 { v, _ := g.mem.ReadUint32Le(off); return v }
func (g *guest) u64(off uint32) uint64 { v, _ := g.mem.ReadUint64Le(off); return v }

func (g *guest) putPath(off uint32, p string) (uint64, uint64) {
	g.write(off, []byte(p))
	return uint64(off), uint64(len(p))
}

type iov struct{ off, l uint32 }

func (g *guest) putIovs(iovs []iov) (uint64, uint64) {
	b := make([]byte, 8*len(iovs))
	for i, v := range iovs {
		binary.LittleEndian.PutUint32(b[8*i:], v.off)
		binary.LittleEndian.PutUint32(b[8*i+4:], v.l)
	}
	g.write(offIovs, b)
	return offIovs, uint64(len(iovs))
}

// hostTree walks the mounted host directory: path -> "dir" | "file:<hex>".
func hostTree(dir string) (map[string]string, error) {
	out := map[string]string{}
	err := filepath.Walk(dir, func(p string, info os.FileInfo, err error) error {
		if err != nil {
			return err
		}
		rel, _ := filepath.Rel(dir, p)
		if rel == "." {
			return nil
		}
		rel = filepath.ToSlash(rel)
		switch {
		case info.IsDir():
			out[rel] = "dir"
		case info.Mode().IsRegular():
			b, err := os.ReadFile(p)
			if err != nil {
				return err
			}
			out[rel] = "file:" + hexs(b)
		default:
			out[rel] = "other:" + info.Mode().String()
		}
		return nil
	})
	return out, err
}

func diffTrees(want, got map[string]string) string {
	var keys []string
	seen := map[string]bool{}
	for k := range want {
		keys = append(keys, k)
		seen[k] = true
	}
	for k := range got {
		if !seen[k] {
			keys = append(keys, k)
		}
	}
	sort.Strings(keys)
	var out string
	for _, k := range keys {
		w, wok := want[k]
		g, gok := got[k]
		switch {
		case !wok:
			out += fmt.Sprintf("unexpected %q=%s; ", k, trunc(g, 60))
		case !gok:
			out += fmt.Sprintf("missing %q=%s; ", k, trunc(w, 60))
		case w != g:
			out += fmt.Sprintf("%q: want %s got %s; ", k, trunc(w, 60), trunc(g, 60))
		}
	}
	return out
}

func trunc(s string, n int) string {
	if len(s) > n {
		return s[:n] + "…"
	}
	return s
}
