package c16

import (
	"bytes"
	"crypto/sha256"
	"encoding/hex"
	"fmt"
	"os"
	"path/filepath"
	"sort"
	"strings"

	"github.com/tetratelabs/wazero/verifharness/core"
)

// histCase is one history (run on both engines by the child).
type histCase struct {
	Seed  uint64 `json:"seed"`
	Ops   int    `json:"ops"`
	Root  string `json:"root"`
	Trace bool   `json:"trace,omitempty"`
}

type finding struct {
	Sig    string   `json:"sig"`
	Detail string   `json:"detail"`
	Engine string   `json:"engine"`
	Log    []string `json:"log,omitempty"` // the calls up to and including the failing one
}

type histResult struct {
	Findings    []finding      `json:"findings,omitempty"`
	Calls       map[string]int `json:"calls"` // WASI calls per function
	Scen        map[string]int `json:"scen"`  // generated operations per op:scenario
	Defined     int            `json:"defined"`
	Unspecified int            `json:"unspecified"`
	FdAlloc     int            `json:"fd_alloc"`
	RdPasses    int            `json:"rd_passes"`
	TreeCmp     int            `json:"tree_cmp"`
	Sweeps      int            `json:"sweeps"`
	Shape       string         `json:"shape"`
	NOps        int            `json:"n_ops"`
	Ended       string         `json:"ended,omitempty"`
	Soft        int            `json:"soft,omitempty"` // violations after which the history continued
	Log         []string       `json:"log,omitempty"`
}

// expectation of one call
type exp struct {
	kind int // xOK | xErr | xFail | xAny
	errs []uint32
	why  string // the precondition that decides the expected error (used in signatures)
}

func (e exp) because(why string) exp { e.why = why; return e }

const (
	xOK   = iota // must succeed
	xErr         // must fail with one of errs
	xFail        // must fail, errno unspecified
	xAny         // unspecified: anything but a crash
)

func wantOK() exp             { return exp{kind: xOK} }
func wantErr(e ...uint32) exp { return exp{kind: xErr, errs: e} }
func wantFail() exp           { return exp{kind: xFail} }
func wantAny() exp            { return exp{kind: xAny} }
func (e exp) String() string {
	switch e.kind {
	case xOK:
		return "OK"
	case xErr:
		var s []string
		for _, x := range e.errs {
			s = append(s, errName(x))
		}
		return strings.Join(s, "|")
	case xFail:
		return "any-error"
	}
	return "unspecified"
}

type hint struct {
	kind string // op to prefer next
	fd   int32
	path string
}

type hist struct {
	r      *core.Rng
	m      *model
	g      *guest
	engine string
	res    *histResult
	log    []string
	stop   bool
	closed []int32 // recently closed descriptors
	hints  []hint
	shape  []string
	lastOp string // "op:scenario" of the last generated (non-probe) operation
	// staleDir is set while an operation goes through a descriptor of a
	// directory that was renamed or removed after it was opened: an errno
	// divergence there gets one canonical signature.
	staleDir string
}

var namePool = []string{"a", "b", "c", "d", "e", "f", "longer-name.txt"}

// ---------------------------------------------------------------------------

func runHistory(hc histCase, engine int) *histResult {
	res := &histResult{Calls: map[string]int{}, Scen: map[string]int{}}
	dir, err := os.MkdirTemp(hc.Root, "h-")
	if err != nil {
		res.Ended = "harness: " + err.Error()
		return res
	}
	defer os.RemoveAll(dir)
	h := &hist{r: core.NewRng(int64(hc.Seed), 16), m: newModel(), engine: engineNames[engine], res: res}
	h.seedTree(dir)
	g, err := newGuest(engine, dir)
	if err != nil {
		res.Ended = "harness: instantiate: " + err.Error()
		return res
	}
	h.g = g
	for i := 0; i < hc.Ops && !h.stop; i++ {
		h.step()
		res.NOps++
	}
	if !h.stop {
		h.finalSweep()
	}
	g.close()
	if !h.stop {
		// the host directory tree after the history
		got, err := hostTree(dir)
		res.TreeCmp++
		if err != nil {
			h.violate("host-tree:walk-error", err.Error())
		} else if d := diffTrees(h.m.snapshot(), got); d != "" {
			h.violate("host-tree:differs-from-model", d+" (last operation: "+h.lastOp+")")
		}
	}
	sum := sha256.Sum256([]byte(strings.Join(h.shape, ",")))
	res.Shape = hex.EncodeToString(sum[:8])
	if hc.Trace {
		res.Log = h.log
	} else if len(h.log) > 12 {
		res.Log = h.log[:12]
	} else {
		res.Log = h.log
	}
	return res
}

// seedTree creates the initial host tree and mirrors it in the model.
func (h *hist) seedTree(dir string) {
	r := h.r
	mk := func(parent *inode, hostParent, name string, isDir bool) *inode {
		n := h.m.newInode(isDir)
		parent.link(name, n)
		p := filepath.Join(hostParent, name)
		if isDir {
			n.parent = parent
			if err := os.Mkdir(p, 0o755); err != nil {
				panic(err)
			}
		} else {
			n.data = r.Bytes(r.Intn(90))
			if r.Chance(1, 6) {
				n.data = nil
			}
			if err := os.WriteFile(p, n.data, 0o644); err != nil {
				panic(err)
			}
		}
		return n
	}
	names := append([]string(nil), namePool...)
	for i := range names { // shuffle
		j := i + r.Intn(len(names)-i)
		names[i], names[j] = names[j], names[i]
	}
	nf, nd := r.Intn(4), r.Intn(3)
	k := 0
	var dirs []*inode
	var dirPaths []string
	for i := 0; i < nd; i++ {
		dirs = append(dirs, mk(h.m.root, dir, names[k], true))
		dirPaths = append(dirPaths, filepath.Join(dir, names[k]))
		k++
	}
	for i := 0; i < nf; i++ {
		mk(h.m.root, dir, names[k], false)
		k++
	}
	for i, d := range dirs {
		for j := 0; j < r.Intn(3); j++ {
			nm := namePool[r.Intn(len(namePool))]
			if d.children[nm] != nil {
				continue
			}
			mk(d, dirPaths[i], nm, r.Chance(1, 5))
		}
	}
}

// ---------------------------------------------------------------------------
// bookkeeping

func (h *hist) logf(format string, a ...any) {
	h.log = append(h.log, fmt.Sprintf(format, a...))
}

func (h *hist) violate(sig, detail string) {
	h.stop = true
	h.res.Ended = "violation"
	h.record(sig, detail)
}

// violateSoft records a violation after which model and implementation are
// still known to agree on the state (the call failed on both sides, or the
// call failed and the model skips its effect), so the history continues.
func (h *hist) violateSoft(sig, detail string) {
	for _, f := range h.res.Findings {
		if f.Sig == sig {
			return
		}
	}
	h.res.Soft++
	h.record(sig, detail)
}

func (h *hist) record(sig, detail string) {
	lg := h.log
	if len(lg) > 80 {
		lg = lg[len(lg)-80:]
	}
	h.res.Findings = append(h.res.Findings, finding{Sig: sig, Detail: detail, Engine: h.engine, Log: append([]string(nil), lg...)})
}

// endUnspecified stops a history whose model state became undefined.
func (h *hist) endUnspecified(why string) {
	h.stop = true
	h.res.Ended = "unspecified:" + why
}

// opStart records a generated operation.
func (h *hist) opStart(op, scen string) {
	h.staleDir = ""
	switch {
	case strings.Contains(scen, "renamed"):
		h.staleDir = "renamed"
	case strings.Contains(scen, "removed"):
		h.staleDir = "removed"
	}
	h.lastOp = op + ":" + scen
	h.res.Scen[h.lastOp]++
	h.shape = append(h.shape, h.lastOp)
}

// check compares the errno of one call with the expectation. It returns
// (succeeded, consistent). When not consistent a violation has been recorded.
func (h *hist) check(fn, scen, desc string, got uint32, want exp) (bool, bool) {
	h.res.Calls[fn]++
	if want.kind == xAny {
		h.res.Unspecified++
	} else {
		h.res.Defined++
	}
	h.logf("%s%s [%s] -> %s (model: %s)", fn, desc, scen, errName(got), want)
	if h.g.trap != "" {
		h.violate("trap:"+fn+":"+sigScen(scen), h.g.trap)
		return false, false
	}
	ok := true
	switch want.kind {
	case xOK:
		ok = got == 0
	case xErr:
		ok = false
		for _, e := range want.errs {
			if e == got {
				ok = true
			}
		}
	case xFail:
		ok = got != 0
	}
	if !ok && h.staleDir != "" {
		sig := fmt.Sprintf("dirfd-stale-name:%s:%s", h.staleDir, fn)
		detail := fmt.Sprintf("%s%s [%s] returned %s, the model says %s: the descriptor refers to a directory that was %s after it was opened", fn, desc, scen, errName(got), want, h.staleDir)
		if got != 0 {
			// nothing happened on the implementation side: skip the effect in the model and go on
			h.violateSoft(sig, detail)
			return false, true
		}
		h.violate(sig, detail)
		return true, false
	}
	if !ok {
		key := sigScen(scen)
		if want.why != "" {
			key = want.why
		}
		sig := fmt.Sprintf("%s:%s:errno=%s-want-%s", fn, key, errName(got), want)
		detail := fmt.Sprintf("%s%s returned %s, the model says %s", fn, desc, errName(got), want)
		if got != 0 && want.kind != xOK {
			// both sides failed, only the error number differs: no state change
			h.violateSoft(sig, detail)
			return false, true
		}
		h.violate(sig, detail)
		return got == 0, false
	}
	return got == 0, true
}

// incidental scenario tokens: they describe how a case was reached, not which
// rule of the model decides it, and are left out of signatures so that one
// root cause gives one signature.
var incidental = map[string]bool{"reuses-closed-fd": true, "via-dirfd": true, "open-source": true, "open-target": true, "open": true,
	"short": true, "at-or-past-eof": true, "below-offset": true, "open-fd": true, "closed-fd": true, "hinted": true,
	"whence=0": true, "whence=1": true, "whence=2": true}

func sigScen(scen string) string {
	var keep []string
	for i, t := range strings.Split(scen, ":") {
		if incidental[t] || (i > 0 && t == "dir") {
			continue
		}
		keep = append(keep, t)
	}
	return strings.Join(keep, ":")
}

// mismatch records a wrong output of a call whose errno was as expected.
func (h *hist) mismatch(fn, scen, what, detail string) {
	if h.staleDir != "" && fn == "fd_readdir" && what == "listing-differs-from-model" {
		h.violateSoft(fmt.Sprintf("dirfd-stale-name:%s:fd_readdir:%s", h.staleDir, what),
			detail+": the descriptor refers to a directory that was "+h.staleDir+" after it was opened")
		return
	}
	if what == "fd-not-lowest-free" {
		h.violate(fn+":"+what, detail)
		return
	}
	h.violate(fmt.Sprintf("%s:%s:%s", fn, sigScen(scen), what), detail)
}

func fdArg(fd int32) uint64 { return uint64(uint32(fd)) }

// ---------------------------------------------------------------------------
// choosing descriptors and paths

func (h *hist) fdsOfKind(dir bool) []int32 {
	var out []int32
	for _, fd := range h.m.sortedFds() {
		if h.m.fds[fd].ino.isDir == dir {
			out = append(out, fd)
		}
	}
	return out
}

// pickFd returns a descriptor and its class: file | dir | closed | bogus.
func (h *hist) pickFd(wantDir bool, allowOther bool) (int32, string) {
	r := h.r
	pref, other := h.fdsOfKind(wantDir), h.fdsOfKind(!wantDir)
	cls := func(fd int32) string {
		o := h.m.fds[fd]
		if o == nil {
			return "closed"
		}
		if o.ino.isDir {
			return "dir"
		}
		return "file"
	}
	x := r.Intn(100)
	switch {
	case x < 84 && len(pref) > 0:
		fd := pref[r.Intn(len(pref))]
		return fd, cls(fd)
	case x < 90 && len(other) > 0 && allowOther:
		fd := other[r.Intn(len(other))]
		return fd, cls(fd)
	case x < 97 || len(pref) == 0:
		return h.closedFd(), "closed"
	default:
		return []int32{-1, 1 << 20, 0x7fffffff, -2147483648}[r.Intn(4)], "bogus"
	}
}

// closedFd picks a descriptor number that is not open (never 0..3).
func (h *hist) closedFd() int32 {
	r := h.r
	if len(h.closed) > 0 && r.Chance(2, 3) {
		for k := 0; k < 4; k++ {
			fd := h.closed[len(h.closed)-1-r.Intn(min(3, len(h.closed)))]
			if h.m.fds[fd] == nil {
				return fd
			}
		}
	}
	if r.Bool() {
		return h.m.lowestFree()
	}
	for k := 0; k < 8; k++ {
		fd := int32(firstFreeFd + r.Intn(12))
		if h.m.fds[fd] == nil {
			return fd
		}
	}
	return h.m.lowestFree()
}

type pathPick struct {
	dirfd int32
	cls   string // preopen | dirfd | filefd | closed
	start *inode // directory the descriptor refers to (nil unless preopen/dirfd)
	path  string
	res   resolved
	note  string // "", "renamed-dirfd", "removed-dirfd"
}

// pickDirfd chooses the descriptor a path is relative to.
func (h *hist) pickDirfd(pp *pathPick, forceValid bool) {
	r := h.r
	dirs := h.fdsOfKind(true)
	x := r.Intn(100)
	switch {
	case len(dirs) > 0 && x < 30:
		pp.dirfd = dirs[r.Intn(len(dirs))]
		pp.cls = "dirfd"
		o := h.m.fds[pp.dirfd]
		pp.start = o.ino
		if !o.ino.linked {
			pp.note = "removed-dirfd"
		} else if cur := h.m.pathOf(o.ino); cur != o.opened {
			pp.note = "renamed-dirfd"
		}
	case !forceValid && x >= 94 && x < 97 && len(h.fdsOfKind(false)) > 0:
		fs := h.fdsOfKind(false)
		pp.dirfd, pp.cls = fs[r.Intn(len(fs))], "filefd"
	case !forceValid && x >= 97:
		pp.dirfd, pp.cls = h.closedFd(), "closed"
	default:
		pp.dirfd, pp.cls, pp.start = preopenFd, "preopen", h.m.root
	}
}

type pathWish int

const (
	wishAny pathWish = iota
	wishFile
	wishDir
	wishNew
)

// pickPath chooses a descriptor and a path text. The path is resolved in the
// model relative to the directory the descriptor refers to.
func (h *hist) pickPath(wish pathWish, allowTrailing bool) pathPick {
	r := h.r
	var pp pathPick
	h.pickDirfd(&pp, false)
	if pp.start == nil {
		pp.path = namePool[r.Intn(len(namePool))]
		return pp
	}
	pp.path = h.genPath(pp.start, wish, allowTrailing)
	pp.res = h.m.resolve(pp.start, pp.path)
	return pp
}

// viaDirfd re-aims a path pick at an open directory descriptor (interaction hint).
func (h *hist) viaDirfd(pp *pathPick, fd int32, wish pathWish) {
	o := h.m.fds[fd]
	if o == nil || !o.ino.isDir {
		return
	}
	*pp = pathPick{dirfd: fd, cls: "dirfd", start: o.ino}
	if !o.ino.linked {
		pp.note = "removed-dirfd"
	} else if h.m.pathOf(o.ino) != o.opened {
		pp.note = "renamed-dirfd"
	}
	pp.path = h.genPath(o.ino, wish, false)
	pp.res = h.m.resolve(o.ino, pp.path)
}

type cand struct {
	path string
	ino  *inode
}

func (h *hist) candidates(start *inode) (existing []cand, childDirs []cand) {
	var walk func(d *inode, prefix string, depth int)
	walk = func(d *inode, prefix string, depth int) {
		names := make([]string, 0, len(d.children))
		for n := range d.children {
			names = append(names, n)
		}
		sort.Strings(names)
		for _, n := range names {
			c := d.children[n]
			existing = append(existing, cand{prefix + n, c})
			if c.isDir {
				childDirs = append(childDirs, cand{prefix + n, c})
				if depth < 2 {
					walk(c, prefix+n+"/", depth+1)
				}
			}
		}
	}
	if start.linked || start == h.m.root {
		walk(start, "", 0)
	}
	return
}

func (h *hist) genPath(start *inode, wish pathWish, allowTrailing bool) string {
	r := h.r
	existing, childDirs := h.candidates(start)
	var files, dirs []cand
	for _, c := range existing {
		if c.ino.isDir {
			dirs = append(dirs, c)
		} else {
			files = append(files, c)
		}
	}
	newName := func() string {
		// a name not present in the chosen directory
		base, d := "", start
		if len(childDirs) > 0 && r.Chance(2, 5) {
			c := childDirs[r.Intn(len(childDirs))]
			base, d = c.path+"/", c.ino
		}
		for k := 0; k < 8; k++ {
			n := namePool[r.Intn(len(namePool))]
			if d.children[n] == nil {
				return base + n
			}
		}
		return base + "zz"
	}
	var p string
	x := r.Intn(100)
	switch {
	case wish == wishNew && x < 70:
		p = newName()
	case wish == wishFile && x < 75 && len(files) > 0:
		p = files[r.Intn(len(files))].path
	case wish == wishDir && x < 75 && len(dirs) > 0:
		p = dirs[r.Intn(len(dirs))].path
	case x < 60 && len(existing) > 0:
		p = existing[r.Intn(len(existing))].path
	case x < 90:
		p = newName()
	case x < 95 && len(files) > 0:
		p = files[r.Intn(len(files))].path + "/" + namePool[r.Intn(len(namePool))] // through a file
	default:
		p = "zz/" + namePool[r.Intn(len(namePool))] // missing intermediate
	}
	// decorations
	y := r.Intn(100)
	switch {
	case y < 8:
		p = "./" + p
	case y < 13 && len(childDirs) > 0:
		p = childDirs[r.Intn(len(childDirs))].path + "/../" + p
	case y < 15:
		p = []string{"../" + p, "/" + p, "../../" + p, "x/../../" + p}[r.Intn(4)]
		if len(childDirs) > 0 && r.Bool() {
			p = childDirs[0].path + "/../../" + namePool[0]
		}
	case y < 20 && allowTrailing:
		p += "/"
	}
	return p
}

// pathScen classifies a resolution for scenario names.
func (pp *pathPick) pathScen() string {
	s := ""
	switch {
	case pp.cls == "closed":
		return "closed-dirfd"
	case pp.cls == "filefd":
		return "file-as-dirfd"
	case pp.res.escape:
		s = "escapes-sandbox"
	case pp.res.err == eNOENT:
		s = "lookup-ENOENT"
	case pp.res.err == eNOTDIR:
		s = "lookup-ENOTDIR"
	case pp.res.node == nil:
		s = "missing"
	case pp.res.node.isDir:
		s = "dir"
	default:
		s = "file"
	}
	if pp.cls == "dirfd" {
		s += ":via-dirfd"
	}
	if pp.note != "" {
		s += ":" + pp.note
	}
	return s
}

// lookupErr is the errno every path operation gives for a bad descriptor or a
// failing lookup (ok=false when the path itself is fine).
func (pp *pathPick) lookupErr() (exp, bool) {
	switch {
	case pp.cls == "closed":
		return wantErr(eBADF).because("closed-dirfd"), true
	case pp.cls == "filefd":
		return wantErr(eNOTDIR).because("file-as-dirfd"), true
	case pp.res.escape:
		return wantFail().because("escapes-sandbox"), true
	case pp.res.err != 0:
		return wantErr(pp.res.err).because("lookup-" + errName(pp.res.err)), true
	}
	return exp{}, false
}

// ---------------------------------------------------------------------------
// one step

type opEntry struct {
	name string
	w    int
	f    func(*hint)
}

func (h *hist) step() {
	ops := []opEntry{
		{"path_open", 16, h.opPathOpen},
		{"fd_close", 8, h.opClose},
		{"fd_renumber", 8, h.opRenumber},
		{"fd_read", 8, func(x *hint) { h.opRead(x, false) }},
		{"fd_pread", 6, func(x *hint) { h.opRead(x, true) }},
		{"fd_write", 10, func(x *hint) { h.opWrite(x, false) }},
		{"fd_pwrite", 6, func(x *hint) { h.opWrite(x, true) }},
		{"fd_seek", 7, h.opSeek},
		{"fd_tell", 3, h.opTell},
		{"fd_filestat_get", 3, h.opFdFilestat},
		{"fd_filestat_set_size", 5, h.opSetSize},
		{"fd_readdir", 4, h.opReaddirPass},
		{"path_create_directory", 4, h.opMkdir},
		{"path_remove_directory", 4, h.opRmdir},
		{"path_unlink_file", 5, h.opUnlink},
		{"path_rename", 8, h.opRename},
		{"path_filestat_get", 4, h.opPathFilestat},
	}
	// follow an interaction hint left by the previous operation
	if len(h.hints) > 0 {
		hn := h.hints[0]
		h.hints = h.hints[1:]
		if h.r.Chance(2, 3) {
			for _, o := range ops {
				if o.name == hn.kind {
					o.f(&hn)
					return
				}
			}
		}
	}
	// few descriptors open: open more
	if len(h.m.fds) < 2 && h.r.Chance(1, 2) {
		h.opPathOpen(nil)
		return
	}
	total := 0
	for _, o := range ops {
		total += o.w
	}
	x := h.r.Intn(total)
	for _, o := range ops {
		if x < o.w {
			o.f(nil)
			return
		}
		x -= o.w
	}
}

func (h *hist) hintf(kind string, fd int32, path string) {
	if len(h.hints) < 3 {
		h.hints = append(h.hints, hint{kind, fd, path})
	}
}

// ---------------------------------------------------------------------------
// probes: ordinary calls of the property's list issued right after a
// state-changing operation so that a divergence is attributed to it.

// probeFd checks a descriptor with fd_filestat_get (and fd_tell for files).
func (h *hist) probeFd(fd int32, after string) {
	if h.stop || fd < firstFreeFd {
		return
	}
	defer h.staleProbeGuard(after)()
	o := h.m.fds[fd]
	got := h.g.call("fd_filestat_get", fdArg(fd), offResult)
	if o == nil {
		if _, ok := h.check("fd_filestat_get", "probe-after:"+after+":closed-fd", fmt.Sprintf("(%d)", fd), got, wantErr(eBADF)); !ok {
			h.retagLast(after, "descriptor-still-valid")
		}
		return
	}
	suc, ok := h.check("fd_filestat_get", "probe-after:"+after+":open-fd", fmt.Sprintf("(%d)", fd), got, wantOK())
	if !ok {
		what := "descriptor-unusable"
		if got == eBADF {
			what = "closes-file"
		}
		h.retagLast(after, what)
		if got == eBADF && h.g.trap == "" {
			h.resyncDeadFd(fd)
		}
		return
	}
	if suc {
		ft := h.g.read(offResult+16, 1)[0]
		size := h.g.u64(offResult + 32)
		wantFt := byte(ftFile)
		if o.ino.isDir {
			wantFt = ftDir
		}
		if ft != wantFt || (!o.ino.isDir && size != uint64(len(o.ino.data))) {
			h.violate(sigScen(after)+":then:fd_filestat_get:wrong-file",
				fmt.Sprintf("after %s fd_filestat_get(%d) gives filetype=%d size=%d, the model says filetype=%d size=%d", after, fd, ft, size, wantFt, len(o.ino.data)))
			return
		}
	}
	if !o.ino.isDir {
		got = h.g.call("fd_tell", fdArg(fd), offResult)
		suc, ok = h.check("fd_tell", "probe-after:"+after, fmt.Sprintf("(%d)", fd), got, wantOK())
		if !ok {
			h.retagLast(after, "descriptor-unusable")
			return
		}
		if suc {
			if off := h.g.u64(offResult); off != uint64(o.off) {
				h.violate(sigScen(after)+":then:fd_tell:wrong-offset", fmt.Sprintf("after %s fd_tell(%d)=%d, the model says %d", after, fd, off, o.off))
			}
		}
	}
}

// retagLast renames the signature of the violation just recorded by a probe so
// that it names the operation that caused the state, not the probe.
func (h *hist) retagLast(after, what string) {
	if n := len(h.res.Findings); n > 0 {
		f := &h.res.Findings[n-1]
		f.Detail = "[" + f.Sig + "] " + f.Detail
		f.Sig = sigScen(after) + ":" + what
	}
}

// resyncDeadFd: a descriptor the model holds open was found dead (EBADF).
// Closing it on both sides brings model and implementation back in step, so
// that the rest of the history is still checked.
func (h *hist) resyncDeadFd(fd int32) {
	h.g.call("fd_close", fdArg(fd))
	h.logf("(harness: fd_close(%d) on both sides to resynchronise after the violation)", fd)
	delete(h.m.fds, fd)
	h.closed = append(h.closed, fd)
	h.stop = false
	h.res.Ended = ""
	h.res.Soft++
}

// staleProbeGuard runs a probe without the stale-directory tag. If the probed
// operation went through a descriptor of a renamed/removed directory and
// reported success, any disagreement the probe finds means the operation acted
// on whatever now has the directory's old name.
func (h *hist) staleProbeGuard(after string) func() {
	stale, n0 := h.staleDir, len(h.res.Findings)
	h.staleDir = ""
	return func() {
		h.staleDir = stale
		if n := len(h.res.Findings); stale != "" && n > n0 {
			f := &h.res.Findings[n-1]
			f.Detail = "[" + f.Sig + "] " + f.Detail + " -- the call succeeded but acted on the path the directory had when it was opened"
			f.Sig = "dirfd-stale-name:" + stale + ":" + strings.SplitN(after, ":", 2)[0] + ":effect-in-wrong-directory"
			h.stop = true
			h.res.Ended = "violation"
		}
	}
}

// probePath checks a path (relative to the preopen) with path_filestat_get.
func (h *hist) probePath(path, after string) {
	if h.stop || path == "" {
		return
	}
	defer h.staleProbeGuard(after)()
	res := h.m.resolve(h.m.root, path)
	p, l := h.g.putPath(offPathA, path)
	got := h.g.call("path_filestat_get", preopenFd, 0, p, l, offResult)
	desc := fmt.Sprintf("(3,0,%q)", path)
	var want exp
	switch {
	case res.err != 0:
		want = wantErr(res.err)
	case res.node == nil:
		want = wantErr(eNOENT)
	default:
		want = wantOK()
	}
	suc, ok := h.check("path_filestat_get", "probe-after:"+after, desc, got, want)
	if !ok || (len(h.res.Findings) > 0 && strings.HasPrefix(h.res.Findings[len(h.res.Findings)-1].Sig, "path_filestat_get:probe-after:")) {
		h.stop = true // a failing probe means the states differ, whatever the errno classes
		h.res.Ended = "violation"
		h.retagLast(after, "then:path_filestat_get:"+errName(got)+"-want-"+want.String())
		return
	}
	if suc {
		h.checkFilestat("path_filestat_get", "probe-after:"+after, desc, res.node)
	}
}

func (h *hist) checkFilestat(fn, scen, desc string, n *inode) {
	ft := h.g.read(offResult+16, 1)[0]
	size := h.g.u64(offResult + 32)
	wantFt := byte(ftFile)
	if n.isDir {
		wantFt = ftDir
	}
	if ft != wantFt {
		h.mismatch(fn, scen, "wrong-filetype", fmt.Sprintf("%s%s filetype=%d, the model says %d", fn, desc, ft, wantFt))
	} else if !n.isDir && size != uint64(len(n.data)) {
		h.mismatch(fn, scen, "wrong-size", fmt.Sprintf("%s%s size=%d, the model says %d", fn, desc, size, len(n.data)))
	}
}

// ---------------------------------------------------------------------------
// path_open

func accessMode(rights uint64, oflags, fdflags uint32) (canRead, canWrite bool) {
	rd, wr := rights&rightRead != 0, rights&rightWrite != 0
	switch {
	case rd && wr:
		return true, true
	case wr:
		return false, true
	case rd:
		return true, false
	}
	// no read/write right named: wazero documents read-write when the flags
	// imply writing, read-only otherwise.
	if oflags&(oCREAT|oTRUNC) != 0 || fdflags&fdAPPEND != 0 {
		return true, true
	}
	return true, false
}

func (h *hist) opPathOpen(hn *hint) {
	r := h.r
	wish := []pathWish{wishAny, wishFile, wishFile, wishDir, wishNew}[r.Intn(5)]
	pp := h.pickPath(wish, true)
	if hn != nil && hn.path != "" {
		pp = pathPick{dirfd: preopenFd, cls: "preopen", start: h.m.root, path: hn.path}
		pp.res = h.m.resolve(h.m.root, hn.path)
	} else if hn != nil {
		h.viaDirfd(&pp, hn.fd, wish)
	}
	var oflags, fdflags uint32
	var rights uint64
	creatPct := 30
	if pp.start != nil && pp.res.node == nil && pp.res.err == 0 && !pp.res.escape {
		creatPct = 65 // a missing name: mostly create it
	}
	if r.Chance(creatPct, 100) {
		oflags |= oCREAT
		if r.Chance(1, 4) {
			oflags |= oEXCL
		}
	}
	if r.Chance(15, 100) {
		oflags |= oTRUNC
	}
	isDirTarget := pp.res.node != nil && pp.res.node.isDir
	if r.Chance(8, 100) || (isDirTarget && r.Chance(1, 2)) {
		oflags |= oDIRECTORY
	}
	if r.Chance(20, 100) {
		fdflags |= fdAPPEND
	}
	if r.Chance(8, 100) {
		fdflags |= fdNONBLOCK
	}
	if r.Chance(3, 100) {
		fdflags |= []uint32{fdDSYNC, fdRSYNC, fdSYNC}[r.Intn(3)]
	}
	switch x := r.Intn(100); {
	case x < 25:
		rights = 0
	case x < 45:
		rights = rightRead
	case x < 60:
		rights = rightWrite
	case x < 95:
		rights = rightRead | rightWrite
	default:
		rights = 0x1fffffff
	}
	if isDirTarget && r.Chance(3, 4) {
		// mostly open directories the way a guest does
		rights &^= rightWrite
		oflags &^= oCREAT | oTRUNC | oEXCL
		fdflags &^= fdAPPEND
	}
	files, _ := h.m.countFiles()
	if pp.res.node == nil && files >= 8 {
		oflags &^= oCREAT | oEXCL
	}
	canRead, canWrite := accessMode(rights, oflags, fdflags)
	unspecified := ""
	// combinations POSIX/WASI leave open: not generated, except rarely as
	// "unspecified" operations
	if oflags&oDIRECTORY != 0 && oflags&oCREAT != 0 {
		if r.Chance(1, 10) {
			unspecified = "O_DIRECTORY+O_CREAT"
		} else {
			oflags &^= oCREAT | oEXCL
			canRead, canWrite = accessMode(rights, oflags, fdflags)
		}
	}
	if oflags&oTRUNC != 0 && !canWrite {
		if r.Chance(1, 10) {
			unspecified = "O_TRUNC+read-only"
		} else {
			oflags &^= oTRUNC
		}
	}
	if oflags&oCREAT != 0 && isDirTarget && !canWrite {
		oflags &^= oCREAT | oEXCL
	}
	if oflags&oCREAT != 0 && pp.res.trailing && pp.start != nil {
		pp.path = strings.TrimRight(pp.path, "/")
		pp.res = h.m.resolve(pp.start, pp.path)
	}
	if oflags&oEXCL != 0 && oflags&oCREAT == 0 {
		oflags &^= oEXCL
	}
	if pp.path == "" {
		pp.path = "a"
		if pp.start != nil {
			pp.res = h.m.resolve(pp.start, pp.path)
		}
	}

	// expectation
	var want exp
	scen := pp.pathScen()
	create, truncate := false, false
	if unspecified != "" {
		want = wantAny()
		scen += ":unspecified:" + unspecified
	} else if e, bad := pp.lookupErr(); bad {
		want = e
	} else if pp.res.node == nil {
		switch {
		case oflags&oCREAT == 0:
			want = wantErr(eNOENT).because("missing")
		case pp.res.parent == nil || !(pp.res.parent.linked || pp.res.parent == h.m.root):
			want = wantErr(eNOENT).because("create-in-removed-dir")
			scen += ":create-in-removed-dir"
		default:
			want, create = wantOK(), true
			scen += ":create"
		}
	} else if n := pp.res.node; oflags&oCREAT != 0 && oflags&oEXCL != 0 {
		want = wantErr(eEXIST).because("O_EXCL-exists")
		scen += ":O_EXCL"
	} else if n.isDir {
		if canWrite {
			want = wantErr(eISDIR).because("dir-for-writing")
			scen += ":for-writing"
		} else {
			want = wantOK()
		}
	} else {
		if oflags&oDIRECTORY != 0 {
			want = wantErr(eNOTDIR).because("file-O_DIRECTORY")
			scen += ":O_DIRECTORY"
		} else {
			want = wantOK()
			if oflags&oTRUNC != 0 {
				truncate = true
				scen += ":O_TRUNC"
			}
		}
	}
	wantFd := h.m.lowestFree()
	if want.kind == xOK {
		if fdflags&fdAPPEND != 0 {
			scen += ":O_APPEND"
		}
		if fdflags&fdNONBLOCK != 0 {
			scen += ":NONBLOCK"
		}
		for _, c := range h.closed {
			if c == wantFd {
				scen += ":reuses-closed-fd"
				break
			}
		}
	}
	h.opStart("path_open", scen)
	dirflags := uint64(r.Intn(2))
	p, l := h.g.putPath(offPathA, pp.path)
	h.g.write(offResult, []byte{0xee, 0xee, 0xee, 0xee})
	got := h.g.call("path_open", fdArg(pp.dirfd), dirflags, p, l, uint64(oflags), rights, rights, uint64(fdflags), offResult)
	desc := fmt.Sprintf("(%d,%d,%q,oflags=%#x,rights=%#x,fdflags=%#x)", pp.dirfd, dirflags, pp.path, oflags, rights, fdflags)
	suc, ok := h.check("path_open", scen, desc, got, want)
	if !ok {
		return
	}
	if want.kind == xAny {
		if suc {
			h.endUnspecified("path_open " + unspecified + " succeeded")
		}
		return
	}
	if !suc {
		return
	}
	newFd := int32(h.g.u32(offResult))
	h.log[len(h.log)-1] += fmt.Sprintf(" fd=%d", newFd)
	h.res.FdAlloc++
	if newFd != wantFd {
		h.mismatch("path_open", scen, "fd-not-lowest-free", fmt.Sprintf("path_open%s returned fd %d, lowest free descriptor is %d (open: %v)", desc, newFd, wantFd, h.m.sortedFds()))
		return
	}
	n := pp.res.node
	if create {
		n = h.m.newInode(false)
		pp.res.parent.link(pp.res.name, n)
	}
	if truncate {
		n.data = nil
	}
	o := &ofd{ino: n, canRead: canRead, canWrite: canWrite, append: fdflags&fdAPPEND != 0, nonblock: fdflags&fdNONBLOCK != 0}
	o.opened = h.m.pathOf(n)
	h.m.fds[newFd] = o
	h.probeFd(newFd, "path_open:"+scen)
	if create || truncate {
		h.probePath(o.opened, "path_open:"+scen)
	}
	if !n.isDir {
		h.hintf([]string{"fd_write", "fd_read", "fd_pwrite", "fd_seek"}[r.Intn(4)], newFd, "")
	} else if r.Bool() {
		h.hintf("fd_readdir", newFd, "")
	}
}

// ---------------------------------------------------------------------------
// fd_close / fd_renumber

func (h *hist) opClose(hn *hint) {
	fd, cls := h.pickFd(h.r.Chance(1, 4), true)
	if hn != nil {
		fd, cls = hn.fd, "hinted"
		if h.m.fds[fd] == nil {
			cls = "closed"
		}
	}
	want := wantErr(eBADF)
	if h.m.fds[fd] != nil {
		want = wantOK()
	}
	scen := cls
	h.opStart("fd_close", scen)
	got := h.g.call("fd_close", fdArg(fd))
	suc, ok := h.check("fd_close", scen, fmt.Sprintf("(%d)", fd), got, want)
	if !ok || !suc {
		return
	}
	delete(h.m.fds, fd)
	h.closed = append(h.closed, fd)
	h.probeFd(fd, "fd_close:"+scen)
	if h.r.Chance(3, 4) {
		h.hintf("path_open", 0, "")
	}
}

func (h *hist) opRenumber(hn *hint) {
	r := h.r
	from, fcls := h.pickFd(r.Chance(1, 5), true)
	if fcls == "bogus" && r.Bool() {
		from, fcls = h.closedFd(), "closed"
	}
	var to int32
	scen := ""
	open := h.m.sortedFds()
	x := r.Intn(100)
	switch {
	case x < 6 && h.m.fds[from] != nil:
		to, scen = from, "onto-itself"
	case x < 42 && len(open) > 1:
		for {
			to = open[r.Intn(len(open))]
			if to != from {
				break
			}
		}
		scen = "onto-open"
	case x < 76:
		to, scen = h.closedFd(), "onto-closed"
		if to == from {
			to++
			for h.m.fds[to] != nil {
				to++
			}
		}
	case x < 88:
		to = h.m.maxFd() + 1 + int32(r.Intn(3))
		scen = "onto-closed-above"
	case x < 94:
		to = []int32{63, 64, 65, 127, 128, 200}[r.Intn(6)]
		scen = "onto-closed-boundary"
		if h.m.fds[to] != nil {
			scen = "onto-open"
		}
		if to == from {
			scen = "onto-itself"
		}
	case x < 96:
		to, scen = preopenFd, "onto-preopen"
	case x < 98:
		to, scen = []int32{-1, -2147483648}[r.Intn(2)], "onto-negative"
	default:
		to, scen = h.closedFd(), "onto-closed"
		if to == from {
			to = h.m.maxFd() + 1
		}
	}
	fo := h.m.fds[from]
	var want exp
	switch {
	case fo == nil:
		want = wantErr(eBADF)
		scen = "from-" + fcls + ":" + scen
	case to < 0:
		want = wantErr(eBADF)
	case to == preopenFd:
		want = wantAny()
		scen += ":unspecified"
	default:
		want = wantOK()
		if fo.ino.isDir && to != from {
			scen += ":dir"
		}
	}
	h.opStart("fd_renumber", scen)
	got := h.g.call("fd_renumber", fdArg(from), fdArg(to))
	suc, ok := h.check("fd_renumber", scen, fmt.Sprintf("(%d,%d)", from, to), got, want)
	if !ok {
		return
	}
	if want.kind == xAny {
		if suc {
			h.endUnspecified("fd_renumber onto the preopen succeeded")
		}
		return
	}
	if !suc {
		if fo != nil {
			h.probeFd(from, "fd_renumber:"+scen)
		}
		return
	}
	if to != from {
		h.m.fds[to] = fo
		delete(h.m.fds, from)
		h.closed = append(h.closed, from)
	}
	h.probeFd(to, "fd_renumber:"+scen)
	if to != from {
		h.probeFd(from, "fd_renumber:"+scen)
	}
	switch r.Intn(4) {
	case 0:
		h.hintf("path_open", 0, "")
	case 1:
		if !fo.ino.isDir {
			h.hintf("fd_read", to, "")
		}
	case 2:
		h.hintf("fd_close", to, "")
	}
}

// ---------------------------------------------------------------------------
// data operations

func (h *hist) pickFileFd(hn *hint) (int32, string, *ofd) {
	fd, cls := h.pickFd(false, true)
	if hn != nil && h.m.fds[hn.fd] != nil {
		fd = hn.fd
		cls = "file"
		if h.m.fds[fd].ino.isDir {
			cls = "dir"
		}
	}
	return fd, cls, h.m.fds[fd]
}

// genIovs lays 1..3 vectors out in the data area.
func (h *hist) genIovs() ([]iov, int) {
	r := h.r
	n := 1 + r.Intn(3)
	var out []iov
	pos := uint32(offData)
	total := 0
	for i := 0; i < n; i++ {
		l := uint32(r.Intn(40))
		switch r.Intn(10) {
		case 0:
			l = 0
		case 1:
			l = uint32(100 + r.Intn(150))
		}
		pos += uint32(r.Intn(24))
		out = append(out, iov{pos, l})
		pos += l
		total += int(l)
	}
	if r.Chance(1, 8) { // vectors need not be in address order
		out[0], out[len(out)-1] = out[len(out)-1], out[0]
	}
	return out, total
}

func fileScen(o *ofd) string {
	s := "file"
	if o.append {
		s += ":O_APPEND"
	}
	if o.nonblock {
		s += ":NONBLOCK"
	}
	if !o.ino.linked {
		s += ":unlinked"
	}
	return s
}

func (h *hist) negOffset() int64 {
	return []int64{-1, -9223372036854775808, -4096}[h.r.Intn(3)]
}

func (h *hist) pickOffset(o *ofd) int64 {
	r := h.r
	size := int64(len(o.ino.data))
	switch r.Intn(8) {
	case 0:
		return 0
	case 1:
		return o.off
	case 2:
		return size
	case 3:
		return size + int64(r.Intn(12))
	case 4:
		if size > 0 {
			return size - 1 - int64(r.Intn(int(min(size, 8))))
		}
		return 0
	default:
		return int64(r.Intn(int(size) + 6))
	}
}

func (h *hist) opRead(hn *hint, positional bool) {
	fn := "fd_read"
	if positional {
		fn = "fd_pread"
	}
	fd, cls, o := h.pickFileFd(hn)
	iovs, total := h.genIovs()
	var off int64
	var want exp
	scen := cls
	switch {
	case o == nil:
		want = wantErr(eBADF)
	case o.ino.isDir:
		want = wantErr(eISDIR, eBADF).because("dir")
	default:
		scen = fileScen(o)
		off = o.off
		if positional {
			off = h.pickOffset(o)
			if h.r.Chance(1, 40) {
				off = h.negOffset()
			}
		}
		switch {
		case !o.canRead && off < 0:
			want = wantFail().because("several-errors")
			scen += ":write-only:negative-offset"
		case !o.canRead:
			want = wantErr(eBADF).because("write-only")
			scen += ":write-only"
		case off < 0:
			want = wantErr(eINVAL, eIO).because("negative-offset") // wazero's own WASI tests pin EIO here; the experimental/sys docs say EINVAL: both accepted
			scen += ":negative-offset"
		default:
			want = wantOK()
			if off >= int64(len(o.ino.data)) {
				scen += ":at-or-past-eof"
			} else if off+int64(total) > int64(len(o.ino.data)) {
				scen += ":short"
			}
		}
	}
	if total == 0 && want.kind != xOK && o != nil {
		// POSIX: a zero-length transfer may or may not detect errors
		want = wantAny()
		scen += ":zero-length:unspecified"
	}
	h.opStart(fn, scen)
	h.g.write(offData, bytes.Repeat([]byte{0xa5}, dataSize))
	ip, in := h.g.putIovs(iovs)
	h.g.write(offResult, []byte{0xee, 0xee, 0xee, 0xee})
	var got uint32
	var desc string
	if positional {
		got = h.g.call(fn, fdArg(fd), ip, in, uint64(off), offResult)
		desc = fmt.Sprintf("(%d,iovs=%v,offset=%d)", fd, iovLens(iovs), off)
	} else {
		got = h.g.call(fn, fdArg(fd), ip, in, offResult)
		desc = fmt.Sprintf("(%d,iovs=%v)", fd, iovLens(iovs))
	}
	suc, ok := h.check(fn, scen, desc, got, want)
	if !ok || !suc || o == nil || want.kind == xAny {
		return
	}
	exp := o.ino.readAt(off, total)
	nread := h.g.u32(offResult)
	h.log[len(h.log)-1] += fmt.Sprintf(" nread=%d", nread)
	if int(nread) != len(exp) {
		h.mismatch(fn, scen, "wrong-count", fmt.Sprintf("%s%s read %d bytes, the model says %d (file size %d, offset %d)", fn, desc, nread, len(exp), len(o.ino.data), off))
		return
	}
	var gotData []byte
	rem := int(nread)
	for _, v := range iovs {
		k := min(rem, int(v.l))
		gotData = append(gotData, h.g.read(v.off, uint32(k))...)
		rem -= k
	}
	if !bytes.Equal(gotData, exp) {
		h.mismatch(fn, scen, "wrong-data", fmt.Sprintf("%s%s returned %x, the model says %x", fn, desc, gotData, exp))
		return
	}
	if !positional {
		o.off += int64(nread)
	}
}

func iovLens(iovs []iov) []uint32 {
	out := make([]uint32, len(iovs))
	for i, v := range iovs {
		out[i] = v.l
	}
	return out
}

func (h *hist) opWrite(hn *hint, positional bool) {
	fn := "fd_write"
	if positional {
		fn = "fd_pwrite"
	}
	fd, cls, o := h.pickFileFd(hn)
	iovs, total := h.genIovs()
	data := h.r.Bytes(total)
	var off int64
	var want exp
	scen := cls
	switch {
	case o == nil:
		want = wantErr(eBADF)
	case o.ino.isDir:
		want = wantErr(eISDIR, eBADF).because("dir")
	default:
		scen = fileScen(o)
		off = o.off
		if positional {
			off = h.pickOffset(o)
			if h.r.Chance(1, 40) {
				off = h.negOffset()
			}
		} else if o.append {
			off = int64(len(o.ino.data))
		}
		switch {
		case !o.canWrite && positional && (off < 0 || o.append):
			want = wantFail().because("several-errors")
			scen += ":read-only:and-more"
		case !o.canWrite:
			want = wantErr(eBADF).because("read-only")
			scen += ":read-only"
		case positional && off < 0 && o.append:
			want = wantFail().because("several-errors")
			scen += ":negative-offset:and-more"
		case positional && off < 0:
			want = wantErr(eINVAL, eIO).because("negative-offset") // wazero's own WASI tests pin EIO here; the experimental/sys docs say EINVAL: both accepted
			scen += ":negative-offset"
		case positional && o.append:
			// POSIX: the offset is honoured; Linux: data is appended; Go refuses
			want = wantAny()
			scen += ":unspecified"
		default:
			want = wantOK()
			if off > int64(len(o.ino.data)) {
				scen += ":past-eof"
			}
		}
	}
	if total == 0 && want.kind != xOK && want.kind != xAny && o != nil {
		want = wantAny()
		scen += ":zero-length:unspecified"
	}
	h.opStart(fn, scen)
	h.g.write(offData, bytes.Repeat([]byte{0xa5}, dataSize))
	pos := 0
	for _, v := range iovs {
		h.g.write(v.off, data[pos:pos+int(v.l)])
		pos += int(v.l)
	}
	ip, in := h.g.putIovs(iovs)
	h.g.write(offResult, []byte{0xee, 0xee, 0xee, 0xee})
	var got uint32
	var desc string
	if positional {
		got = h.g.call(fn, fdArg(fd), ip, in, uint64(off), offResult)
		desc = fmt.Sprintf("(%d,iovs=%v,offset=%d)", fd, iovLens(iovs), off)
	} else {
		got = h.g.call(fn, fdArg(fd), ip, in, offResult)
		desc = fmt.Sprintf("(%d,iovs=%v)", fd, iovLens(iovs))
	}
	suc, ok := h.check(fn, scen, desc, got, want)
	if !ok || o == nil {
		return
	}
	if want.kind == xAny {
		if suc && total > 0 {
			h.endUnspecified("fd_pwrite on an O_APPEND descriptor succeeded")
		}
		return
	}
	if !suc {
		return
	}
	nw := h.g.u32(offResult)
	h.log[len(h.log)-1] += fmt.Sprintf(" nwritten=%d", nw)
	if int(nw) != total {
		h.mismatch(fn, scen, "wrong-count", fmt.Sprintf("%s%s wrote %d bytes of %d", fn, desc, nw, total))
		return
	}
	o.ino.writeAt(off, data)
	if !positional && total > 0 {
		o.off = off + int64(total)
	}
	// the size must be visible through the descriptor at once
	h.probeFd(fd, fn+":"+scen)
	if h.stop {
		return
	}
	switch h.r.Intn(5) {
	case 0:
		h.hintf("fd_seek", fd, "")
	case 1:
		h.hintf("fd_pread", fd, "")
	case 2:
		if fds := h.m.openFdsOf(o.ino); len(fds) > 1 {
			h.hintf("fd_read", fds[h.r.Intn(len(fds))], "")
		}
	}
}

func (h *hist) opSeek(hn *hint) {
	r := h.r
	fd, cls, o := h.pickFileFd(hn)
	whence := uint32(r.Intn(3))
	var off int64
	var want exp
	scen := cls
	var newOff int64
	switch {
	case o == nil:
		want = wantErr(eBADF)
	case o.ino.isDir:
		want = wantAny() // POSIX allows it, wazero answers EISDIR
		scen += ":unspecified"
	default:
		size := int64(len(o.ino.data))
		scen = fileScen(o)
		switch whence {
		case 0:
			off = int64(r.Intn(int(size)+12)) - 2
			newOff = off
		case 1:
			off = int64(r.Intn(int(o.off)+14)) - o.off - 2
			newOff = o.off + off
		case 2:
			off = int64(r.Intn(int(size)+8)) - size - 2
			newOff = size + off
		}
		scen += fmt.Sprintf(":whence=%d", whence)
		if r.Chance(1, 30) {
			whence = []uint32{3, 255, 0x80000000}[r.Intn(3)]
			want = wantErr(eINVAL).because("bad-whence")
			scen = fileScen(o) + ":bad-whence"
		} else if newOff < 0 {
			want = wantErr(eINVAL).because("negative-result")
			scen += ":negative"
		} else {
			want = wantOK()
			if newOff > size {
				scen += ":past-eof"
			}
		}
	}
	h.opStart("fd_seek", scen)
	h.g.write(offResult, bytes.Repeat([]byte{0xee}, 8))
	got := h.g.call("fd_seek", fdArg(fd), uint64(off), uint64(whence), offResult)
	desc := fmt.Sprintf("(%d,%d,whence=%d)", fd, off, whence)
	suc, ok := h.check("fd_seek", scen, desc, got, want)
	if !ok || !suc || o == nil || want.kind == xAny {
		return
	}
	if v := h.g.u64(offResult); v != uint64(newOff) {
		h.mismatch("fd_seek", scen, "wrong-offset", fmt.Sprintf("fd_seek%s reports %d, the model says %d", desc, v, newOff))
		return
	}
	o.off = newOff
	if r.Chance(1, 2) {
		h.hintf([]string{"fd_read", "fd_write", "fd_tell"}[r.Intn(3)], fd, "")
	}
}

func (h *hist) opTell(hn *hint) {
	fd, cls, o := h.pickFileFd(hn)
	var want exp
	scen := cls
	switch {
	case o == nil:
		want = wantErr(eBADF)
	case o.ino.isDir:
		want = wantAny()
		scen += ":unspecified"
	default:
		want = wantOK()
		scen = fileScen(o)
	}
	h.opStart("fd_tell", scen)
	got := h.g.call("fd_tell", fdArg(fd), offResult)
	desc := fmt.Sprintf("(%d)", fd)
	suc, ok := h.check("fd_tell", scen, desc, got, want)
	if !ok || !suc || o == nil || want.kind == xAny {
		return
	}
	if v := h.g.u64(offResult); v != uint64(o.off) {
		h.mismatch("fd_tell", scen, "wrong-offset", fmt.Sprintf("fd_tell%s reports %d, the model says %d", desc, v, o.off))
	}
}

func (h *hist) opFdFilestat(hn *hint) {
	fd, cls := h.pickFd(h.r.Chance(1, 3), true)
	if h.r.Chance(1, 10) {
		fd, cls = preopenFd, "preopen"
	}
	o := h.m.lookupFd(fd)
	want := wantErr(eBADF)
	if o != nil {
		want = wantOK()
		if !o.ino.linked && o.ino != h.m.root {
			cls += ":unlinked"
		}
	}
	h.opStart("fd_filestat_get", cls)
	got := h.g.call("fd_filestat_get", fdArg(fd), offResult)
	desc := fmt.Sprintf("(%d)", fd)
	suc, ok := h.check("fd_filestat_get", cls, desc, got, want)
	if !ok || !suc {
		return
	}
	h.checkFilestat("fd_filestat_get", cls, desc, o.ino)
	if h.stop || !o.ino.isDir || fd == preopenFd || o.opened == "" {
		return
	}
	if res := h.m.resolve(h.m.root, o.opened); res.err == 0 && res.node != nil && res.node != o.ino && res.node.isDir {
		ino := h.g.u64(offResult + 8)
		p, l := h.g.putPath(offPathA, o.opened)
		if e := h.g.call("path_filestat_get", preopenFd, 0, p, l, offResult); e == 0 && h.g.u64(offResult+8) == ino {
			h.logf("path_filestat_get(3,0,%q) -> same inode %d as fd_filestat_get(%d)", o.opened, ino, fd)
			h.record("dirfd-adopts-recreated-directory:fd_filestat_get",
				fmt.Sprintf("fd_filestat_get(%d) reports inode %d, the inode of the different directory that now has the path %q the descriptor was opened with", fd, ino, o.opened))
			h.res.Soft++
		}
	}
}

func (h *hist) opSetSize(hn *hint) {
	r := h.r
	fd, cls, o := h.pickFileFd(hn)
	var size int64
	var want exp
	scen := cls
	switch {
	case o == nil:
		want = wantErr(eBADF)
		size = int64(r.Intn(50))
	case o.ino.isDir:
		want = wantErr(eISDIR, eBADF, eINVAL)
		size = int64(r.Intn(50))
	default:
		cur := int64(len(o.ino.data))
		scen = fileScen(o)
		switch r.Intn(5) {
		case 0:
			size = 0
		case 1:
			size = cur
		case 2:
			size = cur + 1 + int64(r.Intn(40))
		default:
			size = int64(r.Intn(int(cur) + 1))
		}
		switch {
		case size == cur:
			scen += ":same"
		case size < cur:
			scen += ":shrink"
		default:
			scen += ":grow"
		}
		if size < o.off {
			scen += ":below-offset"
		}
		if r.Chance(1, 30) {
			size = h.negOffset()
			scen = fileScen(o) + ":negative"
		}
		switch {
		case !o.canWrite:
			want = wantErr(eBADF, eINVAL).because("read-only")
			scen += ":read-only"
		case size < 0:
			want = wantErr(eINVAL).because("negative-size")
		default:
			want = wantOK()
		}
	}
	h.opStart("fd_filestat_set_size", scen)
	got := h.g.call("fd_filestat_set_size", fdArg(fd), uint64(size))
	suc, ok := h.check("fd_filestat_set_size", scen, fmt.Sprintf("(%d,%d)", fd, size), got, want)
	if !ok || !suc || o == nil {
		return
	}
	o.ino.truncate(size)
	h.probeFd(fd, "fd_filestat_set_size:"+scen)
	if h.stop {
		return
	}
	switch r.Intn(4) {
	case 0:
		h.hintf("fd_read", fd, "")
	case 1:
		h.hintf("fd_write", fd, "")
	case 2:
		h.hintf("fd_seek", fd, "")
	}
}

// ---------------------------------------------------------------------------
// directory operations

func (h *hist) opMkdir(hn *hint) {
	pp := h.pickPath(wishNew, true)
	_, dirs := h.m.countFiles()
	if pp.start != nil && pp.res.node == nil && pp.res.err == 0 && !pp.res.escape &&
		(dirs >= 4 || (pp.res.parent != nil && h.m.depthOf(pp.res.parent) >= 2)) {
		// keep the tree small: aim at something existing instead
		pp.path = h.genPath(pp.start, wishAny, false)
		pp.res = h.m.resolve(pp.start, pp.path)
		if pp.res.node == nil && pp.res.err == 0 && !pp.res.escape {
			pp.path, pp.res = ".", h.m.resolve(pp.start, ".")
		}
	}
	scen := pp.pathScen()
	var want exp
	create := false
	if e, bad := pp.lookupErr(); bad {
		want = e
		if pp.res.err == eNOTDIR && !pp.res.escape && pp.cls != "filefd" && pp.cls != "closed" {
			want = wantErr(eNOTDIR, eNOENT).because("lookup-ENOTDIR") // wazero documents ENOENT here
			if pp.res.node != nil {
				// "file/" : the name exists (EEXIST) and is not a directory (ENOTDIR)
				want = wantErr(eNOTDIR, eNOENT, eEXIST).because("existing-file-with-trailing-slash")
			}
		}
	} else if pp.res.node != nil {
		want = wantErr(eEXIST)
	} else if pp.res.parent == nil || !(pp.res.parent.linked || pp.res.parent == h.m.root) {
		want = wantErr(eNOENT)
		scen += ":in-removed-dir"
	} else {
		want, create = wantOK(), true
	}
	h.opStart("path_create_directory", scen)
	p, l := h.g.putPath(offPathA, pp.path)
	got := h.g.call("path_create_directory", fdArg(pp.dirfd), p, l)
	suc, ok := h.check("path_create_directory", scen, fmt.Sprintf("(%d,%q)", pp.dirfd, pp.path), got, want)
	if !ok || !suc {
		return
	}
	if create {
		n := h.m.newInode(true)
		n.parent = pp.res.parent
		pp.res.parent.link(pp.res.name, n)
		h.probePath(h.m.pathOf(n), "path_create_directory:"+scen)
		if h.r.Chance(1, 3) {
			h.hintf("path_open", 0, h.m.pathOf(n))
		}
	}
}

func (h *hist) opRmdir(hn *hint) {
	pp := h.pickPath(wishDir, true)
	scen := pp.pathScen()
	var want exp
	remove := false
	if e, bad := pp.lookupErr(); bad {
		want = e
	} else if pp.res.node == nil {
		want = wantErr(eNOENT)
	} else if pp.res.name == "" || pp.res.parent == nil {
		// the start directory itself ("." or "x/.."): EINVAL/EBUSY/ENOTEMPTY by system
		want = wantFail()
		scen += ":start-dir"
	} else if !pp.res.node.isDir {
		want = wantErr(eNOTDIR)
	} else if len(pp.res.node.children) > 0 {
		want = wantErr(eNOTEMPTY, eEXIST)
		scen += ":non-empty"
	} else {
		want, remove = wantOK(), true
		if len(h.m.openFdsOf(pp.res.node)) > 0 {
			scen += ":open"
		}
	}
	h.opStart("path_remove_directory", scen)
	p, l := h.g.putPath(offPathA, pp.path)
	got := h.g.call("path_remove_directory", fdArg(pp.dirfd), p, l)
	suc, ok := h.check("path_remove_directory", scen, fmt.Sprintf("(%d,%q)", pp.dirfd, pp.path), got, want)
	if !ok || !suc {
		return
	}
	if remove {
		n := pp.res.node
		where := h.m.pathOf(n)
		delete(pp.res.parent.children, pp.res.name)
		n.linked, n.parent = false, nil
		h.probePath(where, "path_remove_directory:"+scen)
	}
}

func (h *hist) opUnlink(hn *hint) {
	pp := h.pickPath(wishFile, true)
	if pp.res.node != nil && pp.res.node.isDir && pp.res.trailing {
		pp.path = strings.TrimRight(pp.path, "/")
		pp.res = h.m.resolve(pp.start, pp.path)
	}
	scen := pp.pathScen()
	var want exp
	remove := false
	if e, bad := pp.lookupErr(); bad {
		want = e
	} else if pp.res.node == nil {
		want = wantErr(eNOENT)
	} else if pp.res.node.isDir {
		want = wantErr(eISDIR, ePERM)
	} else {
		want, remove = wantOK(), true
		if len(h.m.openFdsOf(pp.res.node)) > 0 {
			scen += ":open"
		}
	}
	h.opStart("path_unlink_file", scen)
	p, l := h.g.putPath(offPathA, pp.path)
	got := h.g.call("path_unlink_file", fdArg(pp.dirfd), p, l)
	suc, ok := h.check("path_unlink_file", scen, fmt.Sprintf("(%d,%q)", pp.dirfd, pp.path), got, want)
	if !ok || !suc {
		return
	}
	if remove {
		n := pp.res.node
		where := h.m.pathOf(n)
		delete(pp.res.parent.children, pp.res.name)
		n.linked = false
		h.probePath(where, "path_unlink_file:"+scen)
		if fds := h.m.openFdsOf(n); len(fds) > 0 && !h.stop {
			fd := fds[h.r.Intn(len(fds))]
			h.probeFd(fd, "path_unlink_file:"+scen)
			h.hintf([]string{"fd_read", "fd_write", "fd_pread", "fd_filestat_set_size"}[h.r.Intn(4)], fd, "")
		} else if h.r.Chance(1, 3) {
			h.hintf("path_open", 0, where)
		}
	}
}

func (h *hist) opRename(hn *hint) {
	r := h.r
	src := h.pickPath([]pathWish{wishAny, wishFile, wishDir}[r.Intn(3)], false)
	var dst pathPick
	h.pickDirfd(&dst, true)
	if _, bad := src.lookupErr(); bad || src.res.node == nil {
		// the source already fails: keep the destination simple and valid
		dst = pathPick{dirfd: preopenFd, cls: "preopen", start: h.m.root, path: "zz"}
	} else {
		switch x := r.Intn(100); {
		case x < 45:
			dst.path = h.genPath(dst.start, wishAny, false) // often existing: rename over
		case x < 55:
			dst.path = src.path
			dst.dirfd, dst.cls, dst.start, dst.note = src.dirfd, src.cls, src.start, src.note
		default:
			dst.path = h.genPath(dst.start, wishNew, false)
		}
		// into its own subtree
		if src.res.node.isDir && r.Chance(1, 6) {
			if sp := h.m.pathOf(src.res.node); sp != "" {
				dst = pathPick{dirfd: preopenFd, cls: "preopen", start: h.m.root, path: sp + "/" + namePool[r.Intn(len(namePool))]}
			}
		}
	}
	dst.res = h.m.resolve(dst.start, dst.path)
	sscen, dscen := src.pathScen(), dst.pathScen()
	var want exp
	scen := ""
	do := false
	samePathMissing := false
	dotEnd := func(p string) bool {
		b := p[strings.LastIndex(p, "/")+1:]
		return b == "." || b == ".." || b == ""
	}
	if e, bad := src.lookupErr(); bad {
		want, scen = e, "src-"+sscen
	} else if src.res.node == nil {
		want, scen = wantErr(eNOENT), "src-missing"
		if r.Chance(1, 25) { // old and new name the same missing entry
			dst = src
		}
		if dst.start == src.start && dst.res.parent == src.res.parent && dst.res.name == src.res.name && dst.res.err == 0 && !dst.res.escape {
			scen = "src-missing:dst-same-path"
			samePathMissing = true
		}
	} else if e, bad := dst.lookupErr(); bad {
		want, scen = e, "src-"+sscen+":dst-"+dscen
	} else if dotEnd(src.path) || dotEnd(dst.path) || src.res.name == "" || dst.res.name == "" {
		want, scen = wantFail(), "dot-component"
	} else if dst.res.parent == nil || !(dst.res.parent.linked || dst.res.parent == h.m.root) {
		want, scen = wantErr(eNOENT), "src-"+sscen+":dst-in-removed-dir"
	} else {
		s, d := src.res.node, dst.res.node
		scen = "src-" + sscen + ":dst-" + dscen
		switch {
		case s == d:
			want = wantOK() // same file: no-op
			scen += ":same"
		case s.isDir && isAncestor(s, dst.res.parent):
			want = wantErr(eINVAL)
			scen += ":into-own-subtree"
		case d == nil:
			want, do = wantOK(), true
		case s.isDir && !d.isDir:
			want = wantErr(eNOTDIR)
		case !s.isDir && d.isDir && len(d.children) > 0:
			want = wantErr(eISDIR, eNOTEMPTY, eEXIST) // two POSIX conditions hold; Linux answers ENOTEMPTY for an ancestor
			scen += ":non-empty"
		case !s.isDir && d.isDir:
			want = wantErr(eISDIR)
		case s.isDir && len(d.children) > 0:
			want = wantErr(eNOTEMPTY, eEXIST)
			scen += ":non-empty"
		default:
			want, do = wantOK(), true
			scen += ":replace"
			if len(h.m.openFdsOf(d)) > 0 {
				scen += ":open-target"
			}
		}
		if len(h.m.openFdsOf(s)) > 0 {
			scen += ":open-source"
		}
	}
	for _, n := range []string{src.note, dst.note} {
		if n != "" && !strings.Contains(scen, n) {
			scen += ":" + n
		}
	}
	h.opStart("path_rename", scen)
	p1, l1 := h.g.putPath(offPathA, src.path)
	p2, l2 := h.g.putPath(offPathB, dst.path)
	got := h.g.call("path_rename", fdArg(src.dirfd), p1, l1, fdArg(dst.dirfd), p2, l2)
	if samePathMissing && got == 0 {
		// renaming a missing name onto itself cannot have changed anything: report and go on
		h.res.Calls["path_rename"]++
		h.res.Defined++
		h.logf("path_rename(%d,%q,%d,%q) [%s] -> OK (model: ENOENT)", src.dirfd, src.path, dst.dirfd, dst.path, scen)
		h.violateSoft("path_rename:src-missing:dst-same-path:errno=OK-want-ENOENT",
			fmt.Sprintf("path_rename(%d,%q,%d,%q) returned OK although the source does not exist", src.dirfd, src.path, dst.dirfd, dst.path))
		return
	}
	suc, ok := h.check("path_rename", scen, fmt.Sprintf("(%d,%q,%d,%q)", src.dirfd, src.path, dst.dirfd, dst.path), got, want)
	if !ok || !suc || !do {
		return
	}
	s, d := src.res.node, dst.res.node
	oldPath := h.m.pathOf(s)
	if d != nil {
		d.linked, d.parent = false, nil
	}
	delete(src.res.parent.children, src.res.name)
	dst.res.parent.link(dst.res.name, s)
	if s.isDir {
		s.parent = dst.res.parent
	}
	h.probePath(oldPath, "path_rename:"+scen)
	h.probePath(h.m.pathOf(s), "path_rename:"+scen)
	if h.stop {
		return
	}
	if fds := h.m.openFdsOf(s); len(fds) > 0 {
		fd := fds[r.Intn(len(fds))]
		h.probeFd(fd, "path_rename:"+scen)
		if s.isDir {
			h.hintf([]string{"fd_readdir", "path_open", "path_filestat_get"}[r.Intn(3)], fd, "")
		} else {
			h.hintf("fd_write", fd, "")
		}
	}
	if d != nil {
		if fds := h.m.openFdsOf(d); len(fds) > 0 && !d.isDir {
			h.hintf("fd_read", fds[0], "")
		}
	}
}

func (h *hist) opPathFilestat(hn *hint) {
	pp := h.pickPath(wishAny, true)
	if hn != nil {
		h.viaDirfd(&pp, hn.fd, wishAny)
	}
	scen := pp.pathScen()
	var want exp
	if e, bad := pp.lookupErr(); bad {
		want = e
	} else if pp.res.node == nil {
		want = wantErr(eNOENT)
	} else {
		want = wantOK()
	}
	h.opStart("path_filestat_get", scen)
	flags := uint64(h.r.Intn(2))
	p, l := h.g.putPath(offPathA, pp.path)
	got := h.g.call("path_filestat_get", fdArg(pp.dirfd), flags, p, l, offResult)
	desc := fmt.Sprintf("(%d,%d,%q)", pp.dirfd, flags, pp.path)
	suc, ok := h.check("path_filestat_get", scen, desc, got, want)
	if !ok || !suc {
		return
	}
	h.checkFilestat("path_filestat_get", scen, desc, pp.res.node)
}

// ---------------------------------------------------------------------------
// fd_readdir inside histories: one complete pass from cookie 0 with random
// buffer sizes; the names must be exactly the model's children plus "." "..".

func (h *hist) opReaddirPass(hn *hint) {
	r := h.r
	fd, cls := h.pickFd(true, true)
	if hn != nil && h.m.fds[hn.fd] != nil {
		fd, cls = hn.fd, "dir"
	} else if r.Chance(1, 4) {
		fd, cls = preopenFd, "preopen"
	}
	o := h.m.lookupFd(fd)
	scen := cls
	if o != nil && o.ino.isDir {
		scen = "dir"
		if fd == preopenFd {
			scen = "preopen"
		} else if !o.ino.linked {
			scen = "dir:removed:unspecified"
		} else if h.m.pathOf(o.ino) != o.opened {
			scen = "dir:renamed"
		}
	} else if o != nil {
		scen = "file"
	}
	h.opStart("fd_readdir", scen)
	bufLen := uint32(24 + r.Intn(120))
	if r.Chance(1, 4) {
		bufLen = 4096
	}
	if o == nil || !o.ino.isDir || !(o.ino.linked || o.ino == h.m.root) {
		got := h.g.call("fd_readdir", fdArg(fd), offDirBuf, uint64(bufLen), 0, offResult)
		var want exp
		switch {
		case o == nil:
			want = wantErr(eBADF)
		case !o.ino.isDir:
			want = wantErr(eBADF, eNOTDIR)
		default:
			want = wantAny() // POSIX: an empty listing; wazero re-opens by name
		}
		suc, _ := h.check("fd_readdir", scen, fmt.Sprintf("(%d,buf_len=%d,cookie=0)", fd, bufLen), got, want)
		if suc && o != nil && o.ino.isDir {
			// unspecified what a removed directory lists, but never entries it did not have
			ents, _, _ := parseDirents(h.g.read(offDirBuf, min(h.g.u32(offResult), bufLen)))
			var names []string
			for _, e := range ents {
				names = append(names, e.name)
			}
			h.checkForeign(fd, o, names)
		}
		return
	}
	want := map[string]byte{".": ftDir, "..": ftDir}
	for n, c := range o.ino.children {
		if c.isDir {
			want[n] = ftDir
		} else {
			want[n] = ftFile
		}
	}
	seen := map[string]int{}
	cookie := uint64(0)
	for calls := 0; ; calls++ {
		if calls > 200 {
			h.mismatch("fd_readdir", scen, "no-progress", "200 calls without reaching the end of a small directory")
			return
		}
		got := h.g.call("fd_readdir", fdArg(fd), offDirBuf, uint64(bufLen), cookie, offResult)
		desc := fmt.Sprintf("(%d,buf_len=%d,cookie=%d)", fd, bufLen, cookie)
		suc, ok := h.check("fd_readdir", scen, desc, got, wantOK())
		if !ok || !suc {
			return
		}
		used := h.g.u32(offResult)
		if used > bufLen {
			h.mismatch("fd_readdir", scen, "bufused-exceeds-buf_len", fmt.Sprintf("fd_readdir%s bufused=%d", desc, used))
			return
		}
		ents, tail, perr := parseDirents(h.g.read(offDirBuf, used))
		if perr != "" {
			h.mismatch("fd_readdir", scen, "malformed-buffer", fmt.Sprintf("fd_readdir%s: %s", desc, perr))
			return
		}
		var nms []string
		for _, e := range ents {
			nms = append(nms, e.name)
		}
		h.log[len(h.log)-1] += fmt.Sprintf(" bufused=%d %q", used, nms)
		for _, e := range ents {
			seen[e.name]++
			if t, ok := want[e.name]; ok && t != e.typ {
				h.mismatch("fd_readdir", scen, "wrong-d_type", fmt.Sprintf("fd_readdir%s entry %q d_type=%d, the model says %d", desc, e.name, e.typ, t))
				return
			}
			cookie = e.next
		}
		if used < bufLen {
			if tail != nil {
				h.mismatch("fd_readdir", scen, "truncated-entry-at-end-of-directory", fmt.Sprintf("fd_readdir%s bufused=%d < buf_len but the last entry is cut", desc, used))
				return
			}
			break
		}
		if len(ents) == 0 {
			// nothing fitted: a guest grows its buffer
			need := uint32(24 + 256)
			if tail != nil && tail.full {
				need = 24 + tail.namlen
			}
			if need <= bufLen {
				h.mismatch("fd_readdir", scen, "entry-not-returned-though-it-fits", fmt.Sprintf("fd_readdir%s returned no entry, d_namlen=%d", desc, need-24))
				return
			}
			bufLen = need
		} else if r.Chance(1, 3) {
			bufLen = uint32(24 + r.Intn(150))
		}
	}
	h.res.RdPasses++
	if h.staleDir != "" {
		var names []string
		for n := range seen {
			names = append(names, n)
		}
		sort.Strings(names)
		if h.checkForeign(fd, o, names) {
			return
		}
	}
	var problems []string
	for n := range want {
		if seen[n] != 1 {
			problems = append(problems, fmt.Sprintf("%q seen %d times", n, seen[n]))
		}
	}
	for n, k := range seen {
		if _, ok := want[n]; !ok {
			problems = append(problems, fmt.Sprintf("unexpected %q x%d", n, k))
		}
	}
	if len(problems) > 0 {
		sort.Strings(problems)
		h.mismatch("fd_readdir", scen, "listing-differs-from-model", strings.Join(problems, "; "))
	}
}

// checkForeign: a listing through a descriptor of a renamed/removed directory
// must not contain names that directory never had; when another directory now
// lives at the path the descriptor was opened with, such names mean the
// descriptor turned into that directory.
func (h *hist) checkForeign(fd int32, o *ofd, names []string) bool {
	var foreign []string
	for _, n := range names {
		if n != "." && n != ".." && !o.ino.ever[n] {
			foreign = append(foreign, n)
		}
	}
	if len(foreign) == 0 {
		return false
	}
	sig := "fd_readdir:lists-entries-the-directory-never-had"
	if res := h.m.resolve(h.m.root, o.opened); res.node != nil && res.node != o.ino && res.node.isDir {
		sig = "dirfd-adopts-recreated-directory:fd_readdir"
	}
	h.record(sig, fmt.Sprintf("fd_readdir(%d): the descriptor was opened on %q, a directory that never contained %q; a different directory now has that path", fd, o.opened, foreign))
	h.res.Soft++
	return true
}

// ---------------------------------------------------------------------------
// final sweep: every descriptor the model holds is still valid and refers to
// the right file at the right offset with the right content; every other small
// descriptor number is invalid.

func (h *hist) finalSweep() {
	h.res.Sweeps++
	h.staleDir = ""
	after := "final-sweep"
	top := h.m.maxFd() + 3
	for fd := int32(firstFreeFd); fd <= top && !h.stop; fd++ {
		h.probeFd(fd, after)
		o := h.m.fds[fd]
		if h.stop || o == nil || o.ino.isDir || !o.canRead {
			continue
		}
		size := len(o.ino.data)
		h.g.write(offData, bytes.Repeat([]byte{0xa5}, dataSize))
		ip, in := h.g.putIovs([]iov{{offData, uint32(size + 16)}})
		got := h.g.call("fd_pread", fdArg(fd), ip, in, 0, offResult)
		suc, ok := h.check("fd_pread", "final-sweep", fmt.Sprintf("(%d,whole file)", fd), got, wantOK())
		if !ok || !suc {
			continue
		}
		n := h.g.u32(offResult)
		if int(n) != size || !bytes.Equal(h.g.read(offData, n), o.ino.data) {
			h.violate("final-sweep:content-differs", fmt.Sprintf("fd %d: read %d bytes %x, the model says %d bytes %x", fd, n, h.g.read(offData, min(n, 64)), size, o.ino.data))
		}
	}
}
