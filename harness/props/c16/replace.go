package c16

import (
	"fmt"
	"os"
	"strings"

	"github.com/tetratelabs/wazero/verifharness/core"
)

// "directory replaced under an open descriptor" scripts. A directory is opened
// (and never read / read partially / read to the end), then its path is made
// to name ANOTHER directory (remove + re-create, or rename away + create), the
// new directory gets distinctive entries, and the OLD descriptor is observed
// with fd_readdir / fd_filestat_get / fd_fdstat_get / path_* calls.
//
// Property: a descriptor stays valid until closed and refers to the object it
// was opened on. Whatever errno the implementation answers, a listing through
// the old descriptor must not contain entries that only ever existed in the new
// directory, and fd_filestat_get must not report the new directory's inode
// (sig dirfd-adopts-recreated-directory:<op>). That wazero resolves path_*
// calls relative to such a descriptor by its old name, and fails or empties
// listings of a renamed directory, is the separate dirfd-stale-name family.

type replCase struct {
	Seed  uint64 `json:"seed"`
	Root  string `json:"root"`
	Trace bool   `json:"trace,omitempty"`
}

type replResult struct {
	Findings []finding      `json:"findings,omitempty"`
	Counts   map[string]int `json:"counts"`
	Shape    string         `json:"shape"`
	Ended    string         `json:"ended,omitempty"`
	Log      []string       `json:"log,omitempty"`
}

type repl struct {
	r      *core.Rng
	g      *guest
	engine string
	res    *replResult
	log    []string
	failed bool
}

func (s *repl) logf(f string, a ...any) { s.log = append(s.log, fmt.Sprintf(f, a...)) }

func (s *repl) violate(sig, detail string) {
	for _, f := range s.res.Findings {
		if f.Sig == sig {
			return
		}
	}
	s.res.Findings = append(s.res.Findings, finding{Sig: sig, Detail: detail, Engine: s.engine, Log: append([]string(nil), s.log...)})
}

// must issues a set-up call that has to succeed.
func (s *repl) must(desc string, errno uint32) bool {
	s.logf("%s -> %s", desc, errName(errno))
	if s.g.trap != "" {
		s.violate("replaced-dir:trap:setup", s.g.trap)
		s.failed = true
		return false
	}
	if errno != 0 {
		s.violate("replaced-dir:setup-failed:"+strings.SplitN(desc, "(", 2)[0], desc+" returned "+errName(errno))
		s.failed = true
		return false
	}
	return true
}

func (s *repl) mkdir(p string) bool {
	a, l := s.g.putPath(offPathA, p)
	return s.must(fmt.Sprintf("path_create_directory(3,%q)", p), s.g.call("path_create_directory", preopenFd, a, l))
}

func (s *repl) creat(p string) bool {
	a, l := s.g.putPath(offPathA, p)
	if !s.must(fmt.Sprintf("path_open(3,%q,O_CREAT|O_EXCL)", p), s.g.call("path_open", preopenFd, 0, a, l, oCREAT|oEXCL, rightRead|rightWrite, 0, 0, offResult)) {
		return false
	}
	fd := s.g.u32(offResult)
	return s.must(fmt.Sprintf("fd_close(%d)", fd), s.g.call("fd_close", uint64(fd)))
}

func (s *repl) inoOfPath(p string) (uint64, bool) {
	a, l := s.g.putPath(offPathA, p)
	if !s.must(fmt.Sprintf("path_filestat_get(3,0,%q)", p), s.g.call("path_filestat_get", preopenFd, 0, a, l, offResult)) {
		return 0, false
	}
	return s.g.u64(offResult + 8), true
}

func runReplace(rc replCase, engine int) *replResult {
	res := &replResult{Counts: map[string]int{}}
	dir, err := os.MkdirTemp(rc.Root, "x-")
	if err != nil {
		res.Ended = "harness: " + err.Error()
		return res
	}
	defer os.RemoveAll(dir)
	g, err := newGuest(engine, dir)
	if err != nil {
		res.Ended = "harness: instantiate: " + err.Error()
		return res
	}
	defer g.close()
	r := core.NewRng(int64(rc.Seed), 19)
	s := &repl{r: r, g: g, engine: engineNames[engine], res: res}
	defer func() {
		if rc.Trace || len(s.log) <= 14 {
			res.Log = s.log
		} else {
			res.Log = s.log[:14]
		}
	}()

	// 1. the old directory, possibly nested, with a few entries of its own
	dpath := "d"
	if r.Chance(1, 3) {
		if !s.mkdir("p") {
			return res
		}
		dpath = "p/d"
	}
	if !s.mkdir(dpath) {
		return res
	}
	old := map[string]byte{}
	for i, n := 0, r.Intn(6); i < n; i++ {
		nm := fmt.Sprintf("old-%d", i)
		if r.Chance(1, 4) {
			if !s.mkdir(dpath + "/" + nm) {
				return res
			}
			old[nm] = ftDir
		} else {
			if !s.creat(dpath + "/" + nm) {
				return res
			}
			old[nm] = ftFile
		}
	}
	// names the old directory ever had: a reader that continues from an earlier
	// cookie may still be handed entries that were removed since (POSIX leaves that open)
	everOld := map[string]bool{}
	for nm := range old {
		everOld[nm] = true
	}
	// 2. open it; read nothing / one buffer / everything
	a, l := g.putPath(offPathA, dpath)
	of := uint64(oDIRECTORY)
	if r.Chance(1, 4) {
		of = 0
	}
	if !s.must(fmt.Sprintf("path_open(3,%q,oflags=%d)", dpath, of), g.call("path_open", preopenFd, 0, a, l, of, 0, 0, 0, offResult)) {
		return res
	}
	fd := int32(g.u32(offResult))
	if !s.must(fmt.Sprintf("fd_filestat_get(%d)", fd), g.call("fd_filestat_get", fdArg(fd), offResult)) {
		return res
	}
	inoOld := g.u64(offResult + 8)
	readState := []string{"never-read", "never-read", "read-partially", "read-fully"}[r.Intn(4)]
	nextCookie := uint64(0)
	switch readState {
	case "read-partially":
		bl := uint64(60 + r.Intn(40))
		if !s.must(fmt.Sprintf("fd_readdir(%d,buf_len=%d,cookie=0)", fd, bl), g.call("fd_readdir", fdArg(fd), offDirBuf, bl, 0, offResult)) {
			return res
		}
		ents, _, _ := parseDirents(g.read(offDirBuf, g.u32(offResult)))
		if len(ents) > 0 {
			nextCookie = ents[len(ents)-1].next
		}
	case "read-fully":
		if !s.must(fmt.Sprintf("fd_readdir(%d,buf_len=8192,cookie=0)", fd), g.call("fd_readdir", fdArg(fd), offDirBuf, 8192, 0, offResult)) {
			return res
		}
		ents, _, _ := parseDirents(g.read(offDirBuf, g.u32(offResult)))
		if len(ents) > 0 {
			nextCookie = ents[len(ents)-1].next
		}
	}
	// 3. make the path name another directory
	how := []string{"removed", "renamed", "removed", "renamed", "renamed-not-recreated", "removed-not-recreated"}[r.Intn(6)]
	recreate := !strings.HasSuffix(how, "not-recreated")
	state := strings.SplitN(how, "-", 2)[0] // removed | renamed
	if state == "removed" {
		for nm, t := range old {
			a, l := g.putPath(offPathA, dpath+"/"+nm)
			fn := "path_unlink_file"
			if t == ftDir {
				fn = "path_remove_directory"
			}
			if !s.must(fmt.Sprintf("%s(3,%q)", fn, dpath+"/"+nm), g.call(fn, preopenFd, a, l)) {
				return res
			}
		}
		old = map[string]byte{}
		a, l := g.putPath(offPathA, dpath)
		if !s.must(fmt.Sprintf("path_remove_directory(3,%q)", dpath), g.call("path_remove_directory", preopenFd, a, l)) {
			return res
		}
	} else {
		a, l := g.putPath(offPathA, dpath)
		b, l2 := g.putPath(offPathB, "gone")
		if !s.must(fmt.Sprintf("path_rename(3,%q,3,\"gone\")", dpath), g.call("path_rename", preopenFd, a, l, preopenFd, b, l2)) {
			return res
		}
	}
	inoNew := uint64(0)
	intruders := map[string]bool{}
	if recreate {
		if !s.mkdir(dpath) {
			return res
		}
		// 4. distinctive entries that only ever exist in the new directory
		for i, n := 0, 1+r.Intn(4); i < n; i++ {
			nm := fmt.Sprintf("intruder-%d", i)
			ok := false
			if r.Chance(1, 3) {
				ok = s.mkdir(dpath + "/" + nm)
			} else {
				ok = s.creat(dpath + "/" + nm)
			}
			if !ok {
				return res
			}
			intruders[nm] = true
		}
		var ok bool
		if inoNew, ok = s.inoOfPath(dpath); !ok {
			return res
		}
		if inoNew == inoOld {
			res.Ended = "inconclusive: the new directory got the old inode number"
			return res
		}
	}
	res.Shape = fmt.Sprintf("%s:%s:%d-old-entries", readState, how, len(old))
	res.Counts["shape:"+readState+":"+how]++

	// 5. observe the OLD descriptor
	tag := "dirfd-stale-name:" + state + ":"
	for step, n := 0, 3+r.Intn(4); step < n; step++ {
		switch r.Intn(6) {
		case 0, 1, 2: // fd_readdir
			cookie := uint64(0)
			if readState != "never-read" && r.Chance(1, 3) {
				cookie = nextCookie // go on where the reader was
			}
			bl := uint32(8192)
			if r.Chance(1, 3) {
				bl = uint32(64 + r.Intn(200))
			}
			// collect a whole pass from this cookie
			startCookie := cookie
			var names []string
			var errno uint32
			for calls := 0; calls < 64; calls++ {
				errno = g.call("fd_readdir", fdArg(fd), offDirBuf, uint64(bl), cookie, offResult)
				res.Counts["fd_readdir"]++
				if g.trap != "" {
					s.logf("fd_readdir(%d,buf_len=%d,cookie=%d) -> trap", fd, bl, cookie)
					s.violate("replaced-dir:trap:fd_readdir", g.trap)
					return res
				}
				if errno != 0 {
					s.logf("fd_readdir(%d,buf_len=%d,cookie=%d) -> %s", fd, bl, cookie, errName(errno))
					break
				}
				used := g.u32(offResult)
				ents, tail, perr := parseDirents(g.read(offDirBuf, min(used, bl)))
				var got []string
				for _, e := range ents {
					got = append(got, e.name)
					cookie = e.next
				}
				s.logf("fd_readdir(%d,buf_len=%d,...) -> OK bufused=%d %q", fd, bl, used, got)
				names = append(names, got...)
				if perr != "" {
					s.violate("replaced-dir:fd_readdir:malformed-buffer", perr)
					return res
				}
				if used < bl {
					break
				}
				if len(ents) == 0 {
					if tail != nil && tail.full {
						bl = 24 + tail.namlen
					} else {
						bl = 512
					}
				}
			}
			var foreign, unknown []string
			for _, nm := range names {
				switch {
				case nm == "." || nm == "..":
				case intruders[nm]:
					foreign = append(foreign, nm)
				case !everOld[nm]:
					unknown = append(unknown, nm)
				}
			}
			if len(foreign) > 0 {
				res.Counts["adopted"]++
				s.violate("dirfd-adopts-recreated-directory:fd_readdir",
					fmt.Sprintf("descriptor %d was opened on %q (inode %d, %s before the directory was %s); a new directory was created at that path and fd_readdir(%d) now lists %q, entries that only ever existed in the NEW directory",
						fd, dpath, inoOld, readState, state, fd, foreign))
			}
			if len(unknown) > 0 {
				s.violate("replaced-dir:fd_readdir:lists-entries-that-do-not-exist", fmt.Sprintf("fd_readdir(%d) lists %q", fd, unknown))
			}
			// what POSIX says the listing is (the old directory's own entries) vs. wazero's known
			// behaviour for renamed directories: the separate stale-name family
			if state == "renamed" && errno != 0 {
				s.violate(tag+"fd_readdir", fmt.Sprintf("fd_readdir(%d) on a directory renamed after it was opened returned %s", fd, errName(errno)))
			} else if state == "renamed" && startCookie == 0 && len(foreign) == 0 {
				seen := map[string]bool{}
				for _, nm := range names {
					seen[nm] = true
				}
				missing := 0
				for nm := range old {
					if !seen[nm] {
						missing++
					}
				}
				if missing > 0 || !seen["."] || !seen[".."] {
					s.violate(tag+"fd_readdir:listing-differs-from-model", fmt.Sprintf("fd_readdir(%d) of the renamed directory lists %q, the directory has %d entries", fd, names, len(old)))
				}
			}
		case 3: // fd_filestat_get: still the object it was opened on
			errno := g.call("fd_filestat_get", fdArg(fd), offResult)
			res.Counts["fd_filestat_get"]++
			ino, ft := g.u64(offResult+8), g.read(offResult+16, 1)[0]
			s.logf("fd_filestat_get(%d) -> %s ino=%d filetype=%d (opened on ino %d; new directory has %d)", fd, errName(errno), ino, ft, inoOld, inoNew)
			switch {
			case g.trap != "":
				s.violate("replaced-dir:trap:fd_filestat_get", g.trap)
				return res
			case errno != 0:
				s.violate("replaced-dir:fd_filestat_get:errno="+errName(errno), fmt.Sprintf("fd_filestat_get(%d) on an open descriptor of a %s directory", fd, state))
			case recreate && ino == inoNew:
				res.Counts["adopted"]++
				s.violate("dirfd-adopts-recreated-directory:fd_filestat_get",
					fmt.Sprintf("descriptor %d was opened on %q (inode %d); after the directory was %s and a new one created at that path, fd_filestat_get(%d) reports inode %d, the NEW directory", fd, dpath, inoOld, state, fd, ino))
			case ino != inoOld || ft != ftDir:
				s.violate("replaced-dir:fd_filestat_get:identity-changed", fmt.Sprintf("fd_filestat_get(%d) ino=%d filetype=%d, opened on ino=%d directory", fd, ino, ft, inoOld))
			}
		case 4: // fd_fdstat_get: still a directory
			errno := g.call("fd_fdstat_get", fdArg(fd), offResult)
			res.Counts["fd_fdstat_get"]++
			ft := g.read(offResult, 1)[0]
			s.logf("fd_fdstat_get(%d) -> %s filetype=%d", fd, errName(errno), ft)
			if g.trap != "" {
				s.violate("replaced-dir:trap:fd_fdstat_get", g.trap)
				return res
			}
			if errno != 0 || ft != ftDir {
				s.violate("replaced-dir:fd_fdstat_get:not-a-valid-directory-descriptor", fmt.Sprintf("fd_fdstat_get(%d) -> %s filetype=%d", fd, errName(errno), ft))
			}
		default: // path lookups relative to the old descriptor
			nm := "intruder-0"
			if len(old) > 0 && r.Bool() {
				nm = "old-0"
			}
			_, inOld := old[nm]
			a, l := g.putPath(offPathA, nm)
			fn := "path_filestat_get"
			var errno uint32
			if r.Bool() {
				errno = g.call(fn, fdArg(fd), 0, a, l, offResult)
			} else {
				fn = "path_open"
				errno = g.call(fn, fdArg(fd), 0, a, l, 0, 0, 0, 0, offResult)
				if errno == 0 {
					g.call("fd_close", uint64(g.u32(offResult)))
				}
			}
			res.Counts[fn]++
			wantOK := inOld && state == "renamed"
			s.logf("%s(%d,%q) -> %s (POSIX: %v)", fn, fd, nm, errName(errno), map[bool]string{true: "OK", false: "ENOENT"}[wantOK])
			if g.trap != "" {
				s.violate("replaced-dir:trap:"+fn, g.trap)
				return res
			}
			if (errno == 0) != wantOK {
				// resolution by the old path name: the known stale-name family
				s.violate(tag+fn, fmt.Sprintf("%s(%d,%q) relative to a descriptor of a %s directory returned %s", fn, fd, nm, state, errName(errno)))
			}
		}
	}
	res.Counts["scripts_completed"]++
	return res
}
