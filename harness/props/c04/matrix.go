package c04

import (
	"context"
	"fmt"
	"strings"

	"github.com/tetratelabs/wazero"
	"github.com/tetratelabs/wazero/api"
	"github.com/tetratelabs/wazero/experimental"
	"github.com/tetratelabs/wazero/verifharness/wenc"
)

// ---------------------------------------------------------------------------
// The matching matrix: one export, one import, accept or reject.

type pairCase struct {
	Exp     Ext    `json:"exp"`
	ExpHost bool   `json:"exp_host,omitempty"` // exported by a host module (functions only)
	Grow    uint32 `json:"grow,omitempty"`     // exporter grows its memory/table by this much before the importer arrives
	Imp     Ext    `json:"imp"`
	Missing string `json:"missing,omitempty"` // "name" | "module"
	Via     bool   `json:"via,omitempty"`     // the import goes through a module that re-exports its own import
	Limit   uint32 `json:"limit"`             // runtime page limit
}

func (p pairCase) String() string {
	s := fmt.Sprintf("export %s", p.Exp)
	if p.ExpHost {
		s += " (host module)"
	}
	if p.Grow > 0 {
		s += fmt.Sprintf(" grown by %d", p.Grow)
	}
	if p.Via {
		s += " via re-export"
	}
	s += fmt.Sprintf(" <- import %s", p.Imp)
	if p.Missing != "" {
		s += " (missing " + p.Missing + ")"
	}
	if p.Limit != DefaultPageLimit {
		s += fmt.Sprintf(" [page limit %d]", p.Limit)
	}
	return s
}

func limitsDomain(maxMin, maxMax uint32, shared bool) []wenc.Limits {
	var out []wenc.Limits
	for mn := uint32(0); mn <= maxMin; mn++ {
		out = append(out, wenc.Limits{Min: mn})
		for mx := uint32(1); mx <= maxMax; mx++ {
			if mx >= mn {
				out = append(out, wenc.Limits{Min: mn, Max: mx, HasMax: true})
				if shared {
					out = append(out, wenc.Limits{Min: mn, Max: mx, HasMax: true, Shared: true})
				}
			}
		}
	}
	return out
}

var matrixFuncTypes = []wenc.FuncType{
	ft(nil, nil), ft(tI32, nil), ft(nil, tI32), ft(tI32, tI32), ft(tI64, tI32), ft(tI32, tI64),
	ft([]wenc.ValType{wenc.I32, wenc.I32}, tI32), ft(tI32, []wenc.ValType{wenc.I32, wenc.I32}),
	ft([]wenc.ValType{wenc.F32}, []wenc.ValType{wenc.F32}), ft([]wenc.ValType{wenc.F64}, []wenc.ValType{wenc.F32}),
	ft([]wenc.ValType{wenc.ExternRef}, []wenc.ValType{wenc.FuncRef}), ft([]wenc.ValType{wenc.V128}, nil),
}

// matrixPairs enumerates the matching matrix. wide = thorough tier domain.
func matrixPairs(wide bool) []pairCase {
	var out []pairCase
	maxMin, maxMax, maxGrow := uint32(2), uint32(3), uint32(2)
	if wide {
		maxMin, maxMax, maxGrow = 3, 4, 3
	}
	D := uint32(DefaultPageLimit)
	// memories
	mems := limitsDomain(maxMin, maxMax, true)
	for _, e := range mems {
		for _, i := range mems {
			for gr := uint32(0); gr <= maxGrow; gr++ {
				for _, via := range []bool{false, true} {
					if via && gr == 1 {
						continue
					}
					out = append(out, pairCase{Exp: Ext{Kind: wenc.ExtMemory, Mem: e}, Imp: Ext{Kind: wenc.ExtMemory, Mem: i}, Grow: gr, Via: via, Limit: D})
				}
			}
			// small runtime page limits (a minimum above the limit does not compile)
			if !e.Shared && !i.Shared && e.Min <= 2 && i.Min <= 2 {
				out = append(out, pairCase{Exp: Ext{Kind: wenc.ExtMemory, Mem: e}, Imp: Ext{Kind: wenc.ExtMemory, Mem: i}, Limit: 2})
				out = append(out, pairCase{Exp: Ext{Kind: wenc.ExtMemory, Mem: e}, Imp: Ext{Kind: wenc.ExtMemory, Mem: i}, Grow: 1, Limit: 3})
			}
		}
	}
	// tables
	tl := limitsDomain(maxMin, maxMax, false)
	for _, ee := range []wenc.ValType{wenc.FuncRef, wenc.ExternRef} {
		for _, ie := range []wenc.ValType{wenc.FuncRef, wenc.ExternRef} {
			for _, e := range tl {
				for _, i := range tl {
					for gr := uint32(0); gr <= maxGrow; gr++ {
						for _, via := range []bool{false, true} {
							if via && (gr == 1 || ee != ie) {
								continue
							}
							out = append(out, pairCase{Exp: Ext{Kind: wenc.ExtTable, Table: wenc.TableType{Elem: ee, Lim: e}},
								Imp: Ext{Kind: wenc.ExtTable, Table: wenc.TableType{Elem: ie, Lim: i}}, Grow: gr, Via: via, Limit: D})
						}
					}
				}
			}
		}
	}
	// globals
	for _, et := range allValTypes {
		for _, em := range []bool{false, true} {
			for _, it := range allValTypes {
				for _, im := range []bool{false, true} {
					for _, via := range []bool{false, true} {
						out = append(out, pairCase{Exp: Ext{Kind: wenc.ExtGlobal, Global: gt(et, em)}, Imp: Ext{Kind: wenc.ExtGlobal, Global: gt(it, im)}, Via: via, Limit: D})
					}
				}
			}
		}
	}
	// functions (wasm and host exporters)
	for _, e := range matrixFuncTypes {
		for _, i := range matrixFuncTypes {
			out = append(out, pairCase{Exp: Ext{Kind: wenc.ExtFunc, Func: e}, Imp: Ext{Kind: wenc.ExtFunc, Func: i}, Limit: D})
			out = append(out, pairCase{Exp: Ext{Kind: wenc.ExtFunc, Func: e}, Imp: Ext{Kind: wenc.ExtFunc, Func: i}, Via: true, Limit: D})
			host := true
			for _, t := range append(append([]wenc.ValType{}, e.Params...), e.Results...) {
				if t == wenc.V128 || t == wenc.FuncRef {
					host = false
				}
			}
			if host {
				out = append(out, pairCase{Exp: Ext{Kind: wenc.ExtFunc, Func: e}, ExpHost: true, Imp: Ext{Kind: wenc.ExtFunc, Func: i}, Limit: D})
			}
		}
	}
	// kind mismatches and missing names/modules
	kinds := []Ext{
		{Kind: wenc.ExtFunc, Func: ft(nil, nil)},
		{Kind: wenc.ExtTable, Table: wenc.TableType{Elem: wenc.FuncRef, Lim: wenc.Limits{Min: 1}}},
		{Kind: wenc.ExtMemory, Mem: wenc.Limits{Min: 1}},
		{Kind: wenc.ExtGlobal, Global: gt(wenc.I32, false)},
		{Kind: wenc.ExtGlobal, Global: gt(wenc.FuncRef, true)},
	}
	for _, e := range kinds {
		for _, i := range kinds {
			out = append(out, pairCase{Exp: e, Imp: i, Limit: D})
			out = append(out, pairCase{Exp: e, Imp: i, Via: true, Limit: D})
			if e.Kind == wenc.ExtFunc {
				out = append(out, pairCase{Exp: e, ExpHost: true, Imp: i, Limit: D})
			}
		}
		out = append(out, pairCase{Exp: e, Imp: e, Missing: "name", Limit: D})
		out = append(out, pairCase{Exp: e, Imp: e, Missing: "module", Limit: D})
	}
	return out
}

// ---- building the two (three) modules of a pair

func exporterModule(p pairCase) []byte {
	m := &wenc.Module{}
	switch p.Exp.Kind {
	case wenc.ExtFunc:
		idx := m.AddFunc(p.Exp.Func.Params, p.Exp.Func.Results, nil, (&wenc.Code{}).Unreachable().End().B)
		m.ExportFunc("x", idx)
	case wenc.ExtMemory:
		m.Mems = []wenc.Limits{p.Exp.Mem}
		m.Exports = append(m.Exports, wenc.Export{Name: "x", Kind: wenc.ExtMemory})
		m.ExportFunc("grow", m.AddFunc(tI32, tI32, nil, (&wenc.Code{}).LocalGet(0).MemoryGrow().End().B))
		m.ExportFunc("size", m.AddFunc(nil, tI32, nil, (&wenc.Code{}).MemorySize().End().B))
	case wenc.ExtTable:
		m.Tables = []wenc.TableType{p.Exp.Table}
		m.Exports = append(m.Exports, wenc.Export{Name: "x", Kind: wenc.ExtTable})
		m.ExportFunc("grow", m.AddFunc(tI32, tI32, nil, (&wenc.Code{}).RefNull(p.Exp.Table.Elem).LocalGet(0).Prefixed(0xfc, 15).U32(0).End().B))
		m.ExportFunc("size", m.AddFunc(nil, tI32, nil, (&wenc.Code{}).Prefixed(0xfc, 16).U32(0).End().B))
	case wenc.ExtGlobal:
		m.Globals = []wenc.Global{{Type: p.Exp.Global, Init: wenc.ZeroConst(p.Exp.Global.Type)}}
		m.Exports = append(m.Exports, wenc.Export{Name: "x", Kind: wenc.ExtGlobal})
	}
	return m.Encode()
}

func wencImport(mod, name string, e Ext, m *wenc.Module) wenc.Import {
	wi := wenc.Import{Module: mod, Name: name, Kind: e.Kind, Table: e.Table, Mem: e.Mem, Global: e.Global}
	if e.Kind == wenc.ExtFunc {
		wi.TypeIdx = m.AddType(e.Func.Params, e.Func.Results)
	}
	return wi
}

// viaModule imports the exporter's object with the loosest matching type and re-exports it.
func viaModule(p pairCase, from string) []byte {
	m := &wenc.Module{}
	e := p.Exp
	switch e.Kind {
	case wenc.ExtMemory:
		e.Mem = wenc.Limits{Min: 0, Shared: e.Mem.Shared}
		if e.Mem.Shared {
			e.Mem.HasMax, e.Mem.Max = true, 65536
		}
	case wenc.ExtTable:
		e.Table.Lim = wenc.Limits{}
	}
	m.Imports = append(m.Imports, wencImport(from, "x", e, m))
	m.Exports = append(m.Exports, wenc.Export{Name: "x", Kind: e.Kind})
	return m.Encode()
}

func importerModule(p pairCase, from string) []byte {
	m := &wenc.Module{}
	name := "x"
	if p.Missing == "name" {
		name = "nope"
	}
	if p.Missing == "module" {
		from = "ghost"
	}
	m.Imports = append(m.Imports, wencImport(from, name, p.Imp, m))
	switch p.Imp.Kind {
	case wenc.ExtMemory:
		m.ExportFunc("size", m.AddFunc(nil, tI32, nil, (&wenc.Code{}).MemorySize().End().B))
	case wenc.ExtTable:
		m.ExportFunc("size", m.AddFunc(nil, tI32, nil, (&wenc.Code{}).Prefixed(0xfc, 16).U32(0).End().B))
	}
	return m.Encode()
}

type matrixRuntimes struct {
	ctx context.Context
	rts map[string]wazero.Runtime
	seq int
}

func (mr *matrixRuntimes) get(compiler bool, limit uint32) wazero.Runtime {
	key := fmt.Sprintf("%v/%d", compiler, limit)
	if rt, ok := mr.rts[key]; ok {
		return rt
	}
	var cfg wazero.RuntimeConfig
	if compiler {
		cfg = wazero.NewRuntimeConfigCompiler()
	} else {
		cfg = wazero.NewRuntimeConfigInterpreter()
	}
	cfg = cfg.WithCoreFeatures(api.CoreFeaturesV2 | experimental.CoreFeaturesThreads)
	if limit != DefaultPageLimit {
		cfg = cfg.WithMemoryLimitPages(limit)
	}
	rt := wazero.NewRuntimeWithConfig(mr.ctx, cfg)
	mr.rts[key] = rt
	return rt
}

func (mr *matrixRuntimes) close() {
	for _, rt := range mr.rts {
		rt.Close(mr.ctx)
	}
}

type pairObs struct {
	Accepted bool
	Err      string
	GrowOK   bool   // the exporter's grow returned what the model predicted
	SizeOK   bool   // sizes read through exporter and importer equal the model after linking
	Problem  string // harness-level problem (exporter did not compile, ...)
}

func apiTypes(ts []wenc.ValType) []api.ValueType {
	out := make([]api.ValueType, len(ts))
	for i, t := range ts {
		out[i] = api.ValueType(t)
	}
	return out
}

// runPair links one pair on one engine.
func (mr *matrixRuntimes) runPair(p pairCase, compiler bool, cur, growWant uint32) (o pairObs) {
	defer func() {
		if r := recover(); r != nil {
			o.Problem = "PANIC:" + firstLine(fmt.Sprint(r))
		}
	}()
	ctx := mr.ctx
	rt := mr.get(compiler, p.Limit)
	mr.seq++
	en := fmt.Sprintf("e%d", mr.seq)
	var closers []api.Closer
	defer func() {
		for i := len(closers) - 1; i >= 0; i-- {
			closers[i].Close(ctx)
		}
	}()
	var exp api.Module
	if p.ExpHost {
		b := rt.NewHostModuleBuilder(en)
		b.NewFunctionBuilder().WithGoModuleFunction(api.GoModuleFunc(func(context.Context, api.Module, []uint64) {}),
			apiTypes(p.Exp.Func.Params), apiTypes(p.Exp.Func.Results)).Export("x")
		m, err := b.Instantiate(ctx)
		if err != nil {
			o.Problem = "host exporter: " + firstLine(err.Error())
			return
		}
		exp = m
	} else {
		cm, err := rt.CompileModule(ctx, exporterModule(p))
		if err != nil {
			o.Problem = "exporter compile: " + firstLine(err.Error())
			return
		}
		closers = append(closers, cm)
		m, err := rt.InstantiateModule(ctx, cm, wazero.NewModuleConfig().WithName(en))
		if err != nil {
			o.Problem = "exporter instantiate: " + firstLine(err.Error())
			return
		}
		exp = m
	}
	closers = append(closers, exp)
	o.GrowOK = true
	if p.Grow > 0 && (p.Exp.Kind == wenc.ExtMemory || p.Exp.Kind == wenc.ExtTable) {
		r, err := exp.ExportedFunction("grow").Call(ctx, uint64(p.Grow))
		o.GrowOK = err == nil && len(r) == 1 && uint32(r[0]) == growWant
	}
	from := en
	if p.Via {
		cm, err := rt.CompileModule(ctx, viaModule(p, en))
		if err != nil {
			o.Problem = "via compile: " + firstLine(err.Error())
			return
		}
		closers = append(closers, cm)
		from = en + "v"
		m, err := rt.InstantiateModule(ctx, cm, wazero.NewModuleConfig().WithName(from))
		if err != nil {
			o.Problem = "via instantiate: " + firstLine(err.Error())
			return
		}
		closers = append(closers, m)
	}
	cm, err := rt.CompileModule(ctx, importerModule(p, from))
	if err != nil {
		o.Problem = "importer compile: " + firstLine(err.Error())
		return
	}
	closers = append(closers, cm)
	imp, err := rt.InstantiateModule(ctx, cm, wazero.NewModuleConfig().WithName(en+"i"))
	if err != nil {
		o.Err = firstLine(err.Error())
		return
	}
	closers = append(closers, imp)
	o.Accepted = true
	o.SizeOK = true
	if (p.Imp.Kind == wenc.ExtMemory || p.Imp.Kind == wenc.ExtTable) && p.Imp.Kind == p.Exp.Kind {
		a, err1 := exp.ExportedFunction("size").Call(ctx)
		b, err2 := imp.ExportedFunction("size").Call(ctx)
		o.SizeOK = err1 == nil && err2 == nil && uint32(a[0]) == cur && uint32(b[0]) == cur
	}
	return
}

type matrixCase struct {
	Lo   int  `json:"lo"`
	Hi   int  `json:"hi"`
	Wide bool `json:"wide"`
}

type matrixResult struct {
	Findings  []Finding      `json:"findings,omitempty"`
	Counts    map[string]int `json:"counts"`
	InfoKinds []string       `json:"info_kinds,omitempty"`
	InfoPairs []string       `json:"info_pairs,omitempty"`
	Pairs     int            `json:"pairs"`
	Sample    string         `json:"sample,omitempty"`
}

func runMatrix(mc matrixCase) matrixResult {
	pairs := matrixPairs(mc.Wide)
	res := matrixResult{Counts: map[string]int{}}
	mr := &matrixRuntimes{ctx: context.Background(), rts: map[string]wazero.Runtime{}}
	defer mr.close()
	seenInfo := map[string]bool{}
	add := func(sig, detail string) {
		for _, f := range res.Findings {
			if f.Sig == sig {
				return
			}
		}
		res.Findings = append(res.Findings, Finding{Sig: sig, Detail: detail})
	}
	for k := mc.Lo; k < mc.Hi && k < len(pairs); k++ {
		p := pairs[k]
		// model: current size after the exporter's grow, then the matching rule
		cur, growWant := uint32(0), uint32(0)
		switch p.Exp.Kind {
		case wenc.ExtMemory:
			cur = p.Exp.Mem.Min
			growWant = cur
			if p.Grow > 0 {
				if cur+p.Grow <= effMax(p.Exp.Mem, p.Limit) {
					cur += p.Grow
				} else {
					growWant = 0xffffffff
				}
			}
		case wenc.ExtTable:
			cur = p.Exp.Table.Lim.Min
			growWant = cur
			if p.Grow > 0 {
				if !p.Exp.Table.Lim.HasMax || cur+p.Grow <= p.Exp.Table.Lim.Max {
					cur += p.Grow
				} else {
					growWant = 0xffffffff
				}
			}
		}
		want, why := Match(p.Imp, p.Exp, cur, p.Limit)
		if p.Missing != "" {
			want, why = false, "missing-import"
		}
		oi := mr.runPair(p, false, cur, growWant)
		oc := mr.runPair(p, true, cur, growWant)
		res.Pairs++
		res.Counts["pairs_"+kindName(p.Exp.Kind)+"_export"]++
		if want {
			res.Counts["model_accepts"]++
		} else {
			res.Counts["model_rejects"]++
			res.Counts["model_rejects_"+why]++
		}
		if res.Sample == "" && k%97 == 0 {
			res.Sample = fmt.Sprintf("%s: model accept=%v (%s), interpreter accept=%v, compiler accept=%v", p, want, why, oi.Accepted, oc.Accepted)
		}
		for ei, o := range []pairObs{oi, oc} {
			eng := engineName(ei == 1)
			if o.Problem != "" {
				if strings.HasPrefix(o.Problem, "PANIC:") {
					add("link:panic:"+kindName(p.Exp.Kind)+":"+eng, p.String()+": "+o.Problem)
				} else {
					res.Counts["harness_problem"]++
					add("matrix:harness-problem:"+strings.SplitN(o.Problem, ":", 2)[0], p.String()+": "+o.Problem)
				}
				continue
			}
			if !o.GrowOK {
				add("matrix:exporter-grow:wrong-result:"+kindName(p.Exp.Kind)+":"+eng, p.String())
			}
			if o.Accepted && !o.SizeOK {
				add("matrix:size-after-link:wrong:"+kindName(p.Exp.Kind)+":"+eng, p.String())
			}
		}
		if oi.Problem != "" || oc.Problem != "" {
			continue
		}
		if oi.Accepted != oc.Accepted {
			add("link:engines-differ:"+kindName(p.Imp.Kind), fmt.Sprintf("%s: interpreter accepted=%v (%s), compiler accepted=%v (%s)", p, oi.Accepted, oi.Err, oc.Accepted, oc.Err))
		}
		acc := oi.Accepted || oc.Accepted
		switch {
		case acc && !want:
			res.Counts["accepted_although_incompatible"]++
			who := "both"
			if !oi.Accepted {
				who = "compiler"
			} else if !oc.Accepted {
				who = "interpreter"
			}
			host := ""
			if p.ExpHost {
				host = ":host-export"
			}
			add("link:"+why+":accepted:"+who+host, p.String()+": the specification's matching rule rejects this import ("+why+") but InstantiateModule succeeded")
		case !acc && want:
			res.Counts["info_compatible_rejected"]++
			kind := infoKind(p, cur)
			if !seenInfo[kind] {
				seenInfo[kind] = true
				res.InfoKinds = append(res.InfoKinds, kind)
				res.InfoPairs = append(res.InfoPairs, p.String()+" => "+oi.Err)
			}
		case acc:
			res.Counts["accepted_and_compatible"]++
		default:
			res.Counts["rejected_and_incompatible"]++
		}
	}
	return res
}

// infoKind classifies a compatible import that was rejected (reported as information only).
func infoKind(p pairCase, cur uint32) string {
	s := kindName(p.Imp.Kind)
	switch p.Imp.Kind {
	case wenc.ExtTable:
		if p.Imp.Table.Lim.Min > p.Exp.Table.Lim.Min && p.Imp.Table.Lim.Min <= cur {
			return s + ":import-min-above-declared-min-but-within-current-size"
		}
	case wenc.ExtMemory:
		if p.Imp.Mem.Min > p.Exp.Mem.Min && p.Imp.Mem.Min <= cur {
			return s + ":import-min-above-declared-min-but-within-current-size"
		}
	}
	return s + ":other"
}
