package c04

import (
	"encoding/binary"
	"fmt"

	"github.com/tetratelabs/wazero/verifharness/wenc"
)

// ---------------------------------------------------------------------------
// The store model: shared cells for globals, a byte array per memory, a slot
// array per table. Instances bind indexes to objects; imports bind to the
// SAME object as the exporter, which is the whole content of the property.

const pageSize = 65536

const (
	trapOOBMem   = "trap:out of bounds memory access"
	trapTable    = "trap:invalid table access"
	trapSig      = "trap:indirect call type mismatch"
	trapUnreach  = "trap:unreachable"
	hostAddConst = 7777
)

type mMem struct {
	id     int
	data   []byte
	decl   wenc.Limits
	max    uint32 // effective maximum in pages
	owners int    // live instances bound to it
}

func (m *mMem) pages() uint32 { return uint32(len(m.data) / pageSize) }

type mRef struct {
	fn  *mFunc
	ext uint64
}

type mTab struct {
	id     int
	decl   wenc.TableType
	slots  []mRef
	owners int
}

type mGlob struct {
	id         int
	typ        wenc.GlobalType
	lo, hi     uint64
	fn         *mFunc // funcref value
	initLo     uint64 // value at creation (what a stale read would see)
	initHi     uint64
	initFn     *mFunc
	owners     int
	definedIn  string
	definedIdx int
}

type mFunc struct {
	inst *mInst
	idx  int // function index in inst (for wasm functions)
	typ  wenc.FuncType
	sem  Sem
	host string // "hadd" | "hpeek" | "hpoke" | "hgrow" (host functions; inst = the importing instance)
}

func (f *mFunc) String() string {
	if f == nil {
		return "null"
	}
	if f.host != "" {
		return "env." + f.host
	}
	return fmt.Sprintf("%s.%s#%d", f.inst.name, f.sem.Op, f.idx)
}

type mExport struct {
	kind byte
	mem  *mMem
	tab  *mTab
	glob *mGlob
	fn   *mFunc
}

func (e mExport) ext() (Ext, uint32) {
	switch e.kind {
	case wenc.ExtFunc:
		return Ext{Kind: e.kind, Func: e.fn.typ}, 0
	case wenc.ExtTable:
		return Ext{Kind: e.kind, Table: e.tab.decl}, uint32(len(e.tab.slots))
	case wenc.ExtMemory:
		return Ext{Kind: e.kind, Mem: e.mem.decl}, e.mem.pages()
	default:
		return Ext{Kind: e.kind, Global: e.glob.typ}, 0
	}
}

type mInst struct {
	name     string
	spec     *ModSpec
	lay      *Layout
	mem      *mMem
	tabs     []*mTab
	globs    []*mGlob
	funcs    []*mFunc
	exports  map[string]mExport
	impFrom  []string // per import: the instance it was resolved against (store name, or what the ImportResolver answered)
	passElem [][]mRef
	passData [][]byte
	live     bool
}

type model struct {
	insts     map[string]*mInst
	pageLimit uint32
	nextID    int
	host      bool // host module "env" present
	// resolver: what the experimental ImportResolver in the instantiation context answers (import module name ->
	// instance name); names it does not contain are declined and looked up in the store. nil: no resolver.
	resolver map[string]string
}

func newModel(pageLimit uint32, host bool) *model {
	return &model{insts: map[string]*mInst{}, pageLimit: pageLimit, host: host}
}

func (m *model) id() int { m.nextID++; return m.nextID }

var hostTypes = map[string]wenc.FuncType{
	"hadd":  ft(tI32, tI32),
	"hpeek": ft(tI32, tI32),
	"hpoke": ft([]wenc.ValType{wenc.I32, wenc.I32}, nil),
	"hgrow": ft(tI32, tI32),
}

// lookup finds what an import refers to. ok=false: unknown module or name.
func (m *model) lookup(im ImportSpec) (mExport, bool) {
	if im.Mod == "env" && m.host {
		t, ok := hostTypes[im.Name]
		if !ok {
			return mExport{}, false
		}
		return mExport{kind: wenc.ExtFunc, fn: &mFunc{typ: t, host: im.Name}}, true
	}
	name := im.Mod
	if to, ok := m.resolver[im.Mod]; ok {
		name = to // the resolver takes precedence over the store
	}
	in, ok := m.insts[name]
	if !ok || !in.live {
		return mExport{}, false
	}
	e, ok := in.exports[im.Name]
	return e, ok
}

// instResult describes the model's verdict on an instantiation.
type instResult struct {
	OK     bool
	Fail   string // "missing" | "link:<reason>" | "elem-oob" | "data-oob" | "start-trap"
	Inst   *mInst // also set for failures after linking (the zombie owns functions that may sit in shared tables)
	Probes []captureProbe
}

// captureProbe says where a value captured by a constant expression can be observed.
type captureProbe struct {
	Site    string // global-init | data-offset | elem-offset | elem-init
	Mutable bool   // the referenced imported global is mutable (the lenient case)
	Global  int    // defined global index (global-init)
	Addr    uint32 // data-offset: address of first byte
	Byte    byte
	Prev    byte // what was there before the segment was applied
	Table   int  // elem-*: table index and slot
	Slot    uint32
	Want    mRef
	PrevRef mRef
	// stale: what would be observed had the initial (declaration-time) value been captured
	StaleLo, StaleHi uint64
	StaleAddr        uint32
	StaleSlot        uint32
	StaleValid       bool
	StaleFn          *mFunc
}

// instantiate applies the specification's instantiation procedure to the model.
func (m *model) instantiate(spec *ModSpec) instResult { return m.instantiateAs(spec, spec.Name) }

// instantiateAs instantiates spec under another instance name (sibling instances of one compiled module).
func (m *model) instantiateAs(spec *ModSpec, name string) instResult {
	lay := BuildLayout(spec)
	in := &mInst{name: name, spec: spec, lay: lay, exports: map[string]mExport{}}
	// 1. imports: all are matched before anything is allocated or written
	var bound []mExport
	for _, im := range spec.Imports {
		e, ok := m.lookup(im)
		if !ok {
			return instResult{Fail: "missing"}
		}
		ext, cur := e.ext()
		if ok, why := Match(im.Ext, ext, cur, m.pageLimit); !ok {
			return instResult{Fail: "link:" + why}
		}
		bound = append(bound, e)
		from := im.Mod
		if to, ok := m.resolver[im.Mod]; ok {
			from = to
		}
		in.impFrom = append(in.impFrom, from)
	}
	for j, e := range bound {
		switch e.kind {
		case wenc.ExtFunc:
			f := e.fn
			if f.host != "" {
				f = &mFunc{inst: in, typ: f.typ, host: f.host}
			}
			in.funcs = append(in.funcs, f)
		case wenc.ExtTable:
			in.tabs = append(in.tabs, e.tab)
		case wenc.ExtMemory:
			in.mem = e.mem
		case wenc.ExtGlobal:
			in.globs = append(in.globs, e.glob)
		}
		_ = j
	}
	// 2. own functions
	for i := lay.NImpF; i < len(lay.Funcs); i++ {
		in.funcs = append(in.funcs, &mFunc{inst: in, idx: i, typ: lay.Funcs[i].Type, sem: lay.Funcs[i].Sem})
	}
	res := instResult{Inst: in}
	// 3. globals (initialisers see the CURRENT value of imported globals)
	for gi, g := range spec.Globals {
		ng := &mGlob{id: m.id(), typ: g.Type, definedIn: name, definedIdx: lay.NImpG + gi}
		switch g.Init {
		case "const":
			ng.lo, ng.hi = g.Lo, g.Hi
		case "global":
			src := in.globs[g.Ref]
			ng.lo, ng.hi, ng.fn = src.lo, src.hi, src.fn
			res.Probes = append(res.Probes, captureProbe{Site: "global-init", Mutable: src.typ.Mutable, Global: lay.NImpG + gi,
				StaleLo: src.initLo, StaleHi: src.initHi, StaleValid: true, StaleFn: src.initFn})
		case "reffunc":
			ng.fn = in.funcs[lay.Refable[g.Ref]]
		}
		ng.initLo, ng.initHi, ng.initFn = ng.lo, ng.hi, ng.fn
		in.globs = append(in.globs, ng)
	}
	// 4. tables, memory
	for _, t := range spec.Tables {
		in.tabs = append(in.tabs, &mTab{id: m.id(), decl: t, slots: make([]mRef, t.Lim.Min)})
	}
	if spec.Mem != nil {
		in.mem = &mMem{id: m.id(), decl: *spec.Mem, max: effMax(*spec.Mem, m.pageLimit), data: make([]byte, int(spec.Mem.Min)*pageSize)}
	}
	// exports (only visible to others when instantiation succeeds)
	if in.mem != nil {
		in.exports["mem"] = mExport{kind: wenc.ExtMemory, mem: in.mem}
	}
	for i, t := range in.tabs {
		if spec.HideImportedTables && i < lay.NImpT {
			continue
		}
		in.exports[fmt.Sprintf("t%d", i)] = mExport{kind: wenc.ExtTable, tab: t}
	}
	for i, g := range in.globs {
		in.exports[fmt.Sprintf("g%d", i)] = mExport{kind: wenc.ExtGlobal, glob: g}
	}
	for i, f := range lay.Funcs {
		if f.Name != "" {
			in.exports[f.Name] = mExport{kind: wenc.ExtFunc, fn: in.funcs[i]}
		}
	}
	evalOff := func(o SegOff) (uint32, *mGlob) {
		if o.Global >= 0 {
			return uint32(in.globs[o.Global].lo), in.globs[o.Global]
		}
		return uint32(o.Const), nil
	}
	evalItem := func(it ElemItem, t *mTab) (mRef, *mGlob) {
		switch it.Kind {
		case "func":
			return mRef{fn: in.funcs[lay.Refable[it.Ref]]}, nil
		case "global":
			g := in.globs[it.Ref] // funcref globals only (the generator never puts global.get into externref segments)
			return mRef{fn: g.fn}, g
		}
		return mRef{}, nil
	}
	// 5. element segments in order, then data segments in order (specification order)
	in.passElem = make([][]mRef, len(spec.Elems))
	for ei, e := range spec.Elems {
		t := in.tabs[e.Table]
		refs := make([]mRef, len(e.Items))
		srcs := make([]*mGlob, len(e.Items))
		for k, it := range e.Items {
			refs[k], srcs[k] = evalItem(it, t)
		}
		if e.Passive {
			in.passElem[ei] = refs
			continue
		}
		off, og := evalOff(e.Off)
		if uint64(off)+uint64(len(refs)) > uint64(len(t.slots)) {
			res.Fail = "elem-oob"
			return res
		}
		for k, r := range refs {
			p := captureProbe{Table: e.Table, Slot: off + uint32(k), Want: r, PrevRef: t.slots[off+uint32(k)]}
			switch {
			case r.fn == nil && p.PrevRef.fn != nil && t.decl.Elem == wenc.FuncRef:
				p.Site = "elem-null-item" // a ref.null item overwrites what was in the slot
				res.Probes = append(res.Probes, p)
			case og != nil && k == 0:
				p.Site, p.Mutable = "elem-offset", og.typ.Mutable
				p.StaleSlot, p.StaleValid = uint32(og.initLo), true
				res.Probes = append(res.Probes, p)
			case srcs[k] != nil:
				p.Site, p.Mutable = "elem-init", srcs[k].typ.Mutable
				res.Probes = append(res.Probes, p)
			}
		}
		copy(t.slots[off:], refs)
	}
	in.passData = make([][]byte, len(spec.Datas))
	for di, d := range spec.Datas {
		if d.Passive {
			in.passData[di] = d.Bytes
			continue
		}
		off, og := evalOff(d.Off)
		if in.mem == nil || uint64(off)+uint64(len(d.Bytes)) > uint64(len(in.mem.data)) {
			res.Fail = "data-oob"
			return res
		}
		if og != nil && len(d.Bytes) > 0 {
			res.Probes = append(res.Probes, captureProbe{Site: "data-offset", Mutable: og.typ.Mutable, Addr: off, Byte: d.Bytes[0],
				Prev: in.mem.data[off], StaleAddr: uint32(og.initLo), StaleValid: true})
		}
		copy(in.mem.data[off:], d.Bytes)
	}
	// 6. start function
	if spec.Start != nil {
		if _, trap := m.call(in.funcs[lay.StartFn], nil); trap != "" {
			res.Fail = "start-trap"
			return res
		}
	}
	in.live = true
	m.insts[name] = in
	if in.mem != nil {
		in.mem.owners++
	}
	for _, t := range in.tabs {
		t.owners++
	}
	for _, g := range in.globs {
		g.owners++
	}
	res.OK = true
	return res
}

func b2u(b bool) uint64 {
	if b {
		return 1
	}
	return 0
}

func maskVal(t wenc.ValType, v uint64) uint64 {
	if t == wenc.I32 || t == wenc.F32 {
		return uint64(uint32(v))
	}
	return v
}

func (m *model) refK(in *mInst, k uint64) mRef {
	if uint32(k) < uint32(len(in.lay.Refable)) {
		return mRef{fn: in.funcs[in.lay.Refable[uint32(k)]]}
	}
	return mRef{}
}

func memRange(mem *mMem, addr uint64, n uint64) bool {
	return mem != nil && addr+n <= uint64(len(mem.data))
}

// grow models memory.grow: previous size in pages, or 0xffffffff.
func (m *model) memGrow(mem *mMem, n uint32) uint32 {
	old := mem.pages()
	if uint64(old)+uint64(n) > uint64(mem.max) {
		return 0xffffffff
	}
	mem.data = append(mem.data, make([]byte, int(n)*pageSize)...)
	return old
}

func tabGrow(t *mTab, n uint32, init mRef) uint32 {
	old := uint32(len(t.slots))
	if t.decl.Lim.HasMax && uint64(old)+uint64(n) > uint64(t.decl.Lim.Max) {
		return 0xffffffff
	}
	for i := uint32(0); i < n; i++ {
		t.slots = append(t.slots, init)
	}
	return old
}

// indirect models call_indirect / return_call_indirect with type (i32)->i32: the callee runs in ITS OWN
// instance's context whoever the caller is.
func (m *model) indirect(t *mTab, slot uint32, arg uint64) ([]uint64, string) {
	if slot >= uint32(len(t.slots)) || t.slots[slot].fn == nil {
		return nil, trapTable
	}
	callee := t.slots[slot].fn
	if string(callee.typ.Params) != string(tI32) || string(callee.typ.Results) != string(tI32) {
		return nil, trapSig
	}
	return m.call(callee, []uint64{arg})
}

// call interprets a function of the model. args/results are in wazero's
// uint64 encoding (v128 takes two).
func (m *model) call(f *mFunc, a []uint64) ([]uint64, string) {
	in := f.inst
	if f.host != "" {
		switch f.host {
		case "hadd":
			return []uint64{uint64(uint32(a[0]) + hostAddConst)}, ""
		case "hpeek":
			if !memRange(in.mem, uint64(uint32(a[0])), 1) {
				return []uint64{0xffffffff}, ""
			}
			return []uint64{uint64(in.mem.data[uint32(a[0])])}, ""
		case "hpoke":
			if memRange(in.mem, uint64(uint32(a[0])), 1) {
				in.mem.data[uint32(a[0])] = byte(a[1])
			}
			return nil, ""
		case "hgrow":
			if in.mem == nil {
				return []uint64{0xffffffff}, ""
			}
			return []uint64{uint64(m.memGrow(in.mem, uint32(a[0])))}, ""
		}
		panic("host " + f.host)
	}
	s := f.sem
	u := func(i int) uint32 { return uint32(a[i]) }
	switch s.Op {
	case "leaf0":
		return []uint64{uint64(u(0) + uint32(leafConst(in.spec.ID, 0)))}, ""
	case "leaf1":
		if in.lay.Gacc >= 0 {
			g := in.globs[in.lay.Gacc]
			g.lo = uint64(uint32(g.lo) + u(0))
			return []uint64{uint64(uint32(g.lo) + uint32(leafConst(in.spec.ID, 1)))}, ""
		}
		return []uint64{uint64(u(0) + uint32(leafConst(in.spec.ID, 1)))}, ""
	case "leaf2":
		if in.lay.HasMem {
			if !memRange(in.mem, uint64(u(0)), 1) {
				return nil, trapOOBMem
			}
			return []uint64{uint64(uint32(in.mem.data[u(0)]) + uint32(leafConst(in.spec.ID, 2)))}, ""
		}
		return []uint64{uint64(u(0) + uint32(leafConst(in.spec.ID, 2)))}, ""
	case "leaf3":
		return []uint64{uint64(int64(leafConst(in.spec.ID, 3)))}, ""
	case "leaf4":
		if in.lay.FT0 < 0 {
			return []uint64{uint64(u(0) + uint32(leafConst(in.spec.ID, 4)))}, ""
		}
		if u(0) == 0 {
			return []uint64{uint64(uint32(leafConst(in.spec.ID, 4)))}, ""
		}
		return m.indirect(in.tabs[in.lay.FT0], u(0)&0xff, uint64(u(0)>>8))
	case "gget":
		g := in.globs[s.A]
		if g.typ.Type == wenc.V128 {
			return []uint64{g.lo, g.hi}, ""
		}
		return []uint64{g.lo}, ""
	case "gset":
		g := in.globs[s.A]
		if g.typ.Type == wenc.V128 {
			g.lo, g.hi = a[0], a[1]
		} else {
			g.lo = maskVal(g.typ.Type, a[0])
		}
		return nil, ""
	case "gsetf":
		in.globs[s.A].fn = m.refK(in, a[0]).fn
		return nil, ""
	case "galias":
		gw, gr := in.globs[s.A], in.globs[s.B]
		v128 := gw.typ.Type == wenc.V128
		out := []uint64{gr.lo}
		if v128 {
			out = append(out, gr.hi)
			gw.lo, gw.hi = a[0], a[1]
		} else {
			gw.lo = maskVal(gw.typ.Type, a[0])
		}
		out = append(out, gr.lo)
		if v128 {
			out = append(out, gr.hi)
		}
		return out, ""
	case "talias":
		tw, tr := in.tabs[s.A], in.tabs[s.B]
		if u(0) >= uint32(len(tr.slots)) {
			return nil, trapTable
		}
		pre := b2u(tr.slots[u(0)].fn == nil)
		if u(0) >= uint32(len(tw.slots)) {
			return nil, trapTable
		}
		tw.slots[u(0)] = m.refK(in, a[1])
		return []uint64{pre, b2u(tr.slots[u(0)].fn == nil)}, ""
	case "tgalias":
		tw, tr := in.tabs[s.A], in.tabs[s.B]
		pre := uint64(len(tr.slots))
		gr := uint64(tabGrow(tw, u(0), mRef{}))
		return []uint64{pre, gr, uint64(len(tr.slots))}, ""
	case "g2t":
		t := in.tabs[s.B]
		if u(0) >= uint32(len(t.slots)) {
			return nil, trapTable
		}
		t.slots[u(0)] = mRef{fn: in.globs[s.A].fn}
		return nil, ""
	case "ld8":
		if !memRange(in.mem, uint64(u(0)), 1) {
			return nil, trapOOBMem
		}
		return []uint64{uint64(in.mem.data[u(0)])}, ""
	case "ld8far":
		if !memRange(in.mem, uint64(u(0))+65536, 1) {
			return nil, trapOOBMem
		}
		return []uint64{uint64(in.mem.data[uint64(u(0))+65536])}, ""
	case "ld32":
		if !memRange(in.mem, uint64(u(0)), 4) {
			return nil, trapOOBMem
		}
		return []uint64{uint64(binary.LittleEndian.Uint32(in.mem.data[u(0):]))}, ""
	case "ld64":
		if !memRange(in.mem, uint64(u(0)), 8) {
			return nil, trapOOBMem
		}
		return []uint64{binary.LittleEndian.Uint64(in.mem.data[u(0):])}, ""
	case "st8":
		if !memRange(in.mem, uint64(u(0)), 1) {
			return nil, trapOOBMem
		}
		in.mem.data[u(0)] = byte(a[1])
		return nil, ""
	case "st32":
		if !memRange(in.mem, uint64(u(0)), 4) {
			return nil, trapOOBMem
		}
		binary.LittleEndian.PutUint32(in.mem.data[u(0):], u(1))
		return nil, ""
	case "st64":
		if !memRange(in.mem, uint64(u(0)), 8) {
			return nil, trapOOBMem
		}
		binary.LittleEndian.PutUint64(in.mem.data[u(0):], a[1])
		return nil, ""
	case "msize":
		return []uint64{uint64(in.mem.pages())}, ""
	case "mgrow":
		return []uint64{uint64(m.memGrow(in.mem, u(0)))}, ""
	case "mfill":
		if !memRange(in.mem, uint64(u(0)), uint64(u(2))) {
			return nil, trapOOBMem
		}
		for i := uint32(0); i < u(2); i++ {
			in.mem.data[u(0)+i] = byte(a[1])
		}
		return nil, ""
	case "mcopy":
		if !memRange(in.mem, uint64(u(0)), uint64(u(2))) || !memRange(in.mem, uint64(u(1)), uint64(u(2))) {
			return nil, trapOOBMem
		}
		copy(in.mem.data[u(0):u(0)+u(2)], in.mem.data[u(1):u(1)+u(2)])
		return nil, ""
	case "minit":
		src := in.passData[s.A]
		if uint64(u(1))+uint64(u(2)) > uint64(len(src)) || !memRange(in.mem, uint64(u(0)), uint64(u(2))) {
			return nil, trapOOBMem
		}
		copy(in.mem.data[u(0):], src[u(1):u(1)+u(2)])
		return nil, ""
	case "tsize":
		return []uint64{uint64(len(in.tabs[s.A].slots))}, ""
	case "tgrow":
		return []uint64{uint64(tabGrow(in.tabs[s.A], u(0), m.refK(in, a[1])))}, ""
	case "xgrow":
		return []uint64{uint64(tabGrow(in.tabs[s.A], u(0), mRef{ext: a[1]}))}, ""
	case "tset":
		t := in.tabs[s.A]
		if u(0) >= uint32(len(t.slots)) {
			return nil, trapTable
		}
		t.slots[u(0)] = m.refK(in, a[1])
		return nil, ""
	case "xset":
		t := in.tabs[s.A]
		if u(0) >= uint32(len(t.slots)) {
			return nil, trapTable
		}
		t.slots[u(0)] = mRef{ext: a[1]}
		return nil, ""
	case "xget":
		t := in.tabs[s.A]
		if u(0) >= uint32(len(t.slots)) {
			return nil, trapTable
		}
		return []uint64{t.slots[u(0)].ext}, ""
	case "tisnull":
		t := in.tabs[s.A]
		if u(0) >= uint32(len(t.slots)) {
			return nil, trapTable
		}
		return []uint64{b2u(t.slots[u(0)].fn == nil)}, ""
	case "tcall", "rtcall":
		return m.indirect(in.tabs[s.A], u(0), a[1])
	case "tfill":
		t := in.tabs[s.A]
		if uint64(u(0))+uint64(u(2)) > uint64(len(t.slots)) {
			return nil, trapTable
		}
		r := m.refK(in, a[1])
		for i := uint32(0); i < u(2); i++ {
			t.slots[u(0)+i] = r
		}
		return nil, ""
	case "tcopy":
		t := in.tabs[s.A]
		if uint64(u(0))+uint64(u(2)) > uint64(len(t.slots)) || uint64(u(1))+uint64(u(2)) > uint64(len(t.slots)) {
			return nil, trapTable
		}
		copy(t.slots[u(0):u(0)+u(2)], t.slots[u(1):u(1)+u(2)])
		return nil, ""
	case "tinit":
		t := in.tabs[s.A]
		src := in.passElem[s.B]
		if uint64(u(1))+uint64(u(2)) > uint64(len(src)) || uint64(u(0))+uint64(u(2)) > uint64(len(t.slots)) {
			return nil, trapTable
		}
		copy(t.slots[u(0):], src[u(1):u(1)+u(2)])
		return nil, ""
	case "ci", "rci", "import":
		return m.call(in.funcs[s.A], a)
	case "cim":
		a1, a2 := uint64(uint32(a[len(a)-2])), uint64(uint32(a[len(a)-1]))
		if !memRange(in.mem, a1, 1) {
			return nil, trapOOBMem
		}
		pre := uint64(in.mem.data[a1])
		res, trap := m.call(in.funcs[s.A], a[:len(a)-2])
		if trap != "" {
			return nil, trap
		}
		if !memRange(in.mem, a2, 1) {
			return nil, trapOOBMem
		}
		return append(append([]uint64{}, res...), pre, uint64(in.mem.data[a2]), uint64(in.mem.pages())), ""
	case "cig":
		g := in.globs[s.B]
		pre := []uint64{g.lo}
		if g.typ.Type == wenc.V128 {
			pre = append(pre, g.hi)
		}
		res, trap := m.call(in.funcs[s.A], a)
		if trap != "" {
			return nil, trap
		}
		out := append(append([]uint64{}, res...), pre...)
		out = append(out, g.lo)
		if g.typ.Type == wenc.V128 {
			out = append(out, g.hi)
		}
		return out, ""
	case "cit":
		t := in.tabs[s.B]
		slot := uint32(a[len(a)-1])
		pre := uint64(len(t.slots))
		res, trap := m.call(in.funcs[s.A], a[:len(a)-1])
		if trap != "" {
			return nil, trap
		}
		if slot >= uint32(len(t.slots)) {
			return nil, trapTable
		}
		return append(append([]uint64{}, res...), pre, uint64(len(t.slots)), b2u(t.slots[slot].fn == nil)), ""
	case "start":
		for _, act := range in.spec.Start.Acts {
			switch act.Kind {
			case "st8":
				if !memRange(in.mem, uint64(uint32(act.A)), 1) {
					return nil, trapOOBMem
				}
				in.mem.data[uint32(act.A)] = byte(act.B)
			case "gset":
				in.globs[act.A].lo = maskVal(in.globs[act.A].typ.Type, act.V)
			case "tset":
				t := in.tabs[act.A]
				if uint32(act.B) >= uint32(len(t.slots)) {
					return nil, trapTable
				}
				t.slots[act.B] = mRef{fn: in.funcs[in.lay.Refable[act.C]]}
			case "mgrow":
				m.memGrow(in.mem, uint32(act.A))
			}
		}
		if in.spec.Start.Trap {
			return nil, trapUnreach
		}
		return nil, ""
	}
	panic("model: unknown op " + s.Op)
}
