package c04

import (
	"fmt"

	"github.com/tetratelabs/wazero/verifharness/core"
	"github.com/tetratelabs/wazero/verifharness/wenc"
)

// Directed scenarios: fixed small graphs that make sure every capture site and
// every failed-instantiation class of the property is reached in every run,
// with signatures that name the class. Expectations still come from the model.

func gt(t wenc.ValType, mut bool) wenc.GlobalType { return wenc.GlobalType{Type: t, Mutable: mut} }

func cg(t wenc.ValType, mut bool, lo uint64) GlobalSpec {
	return GlobalSpec{Type: gt(t, mut), Init: "const", Lo: lo}
}

// exporterSpec: memory 1..4 pages, funcref table 4..8, one global of every value type, mutable and immutable.
//
//	g0 mut i32=1  g1 const i32=2  g2 mut i64=10  g3 mut f32  g4 mut f64  g5 mut v128  g6 mut funcref=L0  g7 mut externref
//	g8 const i64=77 g9 const funcref=L2
func exporterSpec(name string, id int) *ModSpec {
	return &ModSpec{Name: name, ID: id,
		Mem:    &wenc.Limits{Min: 1, Max: 4, HasMax: true},
		Tables: []wenc.TableType{{Elem: wenc.FuncRef, Lim: wenc.Limits{Min: 4, Max: 8, HasMax: true}}},
		Globals: []GlobalSpec{
			cg(wenc.I32, true, 1), cg(wenc.I32, false, 2), cg(wenc.I64, true, 10), cg(wenc.F32, true, 0x3fc00000),
			cg(wenc.F64, true, 0x4004000000000000), {Type: gt(wenc.V128, true), Init: "const", Lo: 3, Hi: 4},
			{Type: gt(wenc.FuncRef, true), Init: "reffunc", Ref: 0}, {Type: gt(wenc.ExternRef, true), Init: "null"},
			cg(wenc.I64, false, 77), {Type: gt(wenc.FuncRef, false), Init: "reffunc", Ref: 2},
		}}
}

func impG(mod string, gi int, t wenc.GlobalType) ImportSpec {
	return ImportSpec{Mod: mod, Name: fmt.Sprintf("g%d", gi), Ext: Ext{Kind: wenc.ExtGlobal, Global: t}}
}
func impMem(mod string, l wenc.Limits) ImportSpec {
	return ImportSpec{Mod: mod, Name: "mem", Ext: Ext{Kind: wenc.ExtMemory, Mem: l}}
}
func impTab(mod string, l wenc.Limits) ImportSpec {
	return ImportSpec{Mod: mod, Name: "t0", Ext: Ext{Kind: wenc.ExtTable, Table: wenc.TableType{Elem: wenc.FuncRef, Lim: l}}}
}

// setAlt attaches an alternative observation (with its name) to the last step.
func (g *gen) setAlt(name string, vals ...uint64) {
	st := &g.sc.Steps[len(g.sc.Steps)-1]
	if !valsEqual(st.RT, st.Exp, vals) || st.ExpErr != "" {
		st.Alt, st.AltName = vals, name
	}
}

type directed struct {
	name string
	run  func(g *gen)
}

var newVals = map[wenc.ValType][]uint64{
	wenc.I32: {5}, wenc.I64: {0x1122334455667788}, wenc.F32: {0x40490fdb}, wenc.F64: {0x400921fb54442d18},
	wenc.V128: {0xaaaaaaaa55555555, 0x0123456789abcdef}, wenc.ExternRef: {0x2020},
}

var typeGlobal = map[wenc.ValType]int{wenc.I32: 0, wenc.I64: 2, wenc.F32: 3, wenc.F64: 4, wenc.V128: 5, wenc.FuncRef: 6, wenc.ExternRef: 7}

func directedScenarios() []directed {
	var out []directed
	// ---- captures of a MUTABLE imported global (lenient validator), one per type and writer
	for _, t := range allValTypes {
		for _, writer := range []string{"exporter", "api", "other-importer"} {
			t, writer := t, writer
			if writer == "api" && (t == wenc.V128 || t == wenc.FuncRef) {
				continue
			}
			out = append(out, directed{fmt.Sprintf("capture-mutable-%s-written-by-%s", wenc.TypeName(t), writer), func(g *gen) {
				g.lenient = true
				e := g.instantiate(exporterSpec("e", 0)).Inst
				gi := typeGlobal[t]
				w := e
				if writer == "other-importer" {
					w = g.instantiate(&ModSpec{Name: "w", ID: 1, Imports: []ImportSpec{impG("e", gi, gt(t, true))}}).Inst
				}
				wgi := gi
				if w != e {
					wgi = 0
				}
				switch {
				case t == wenc.FuncRef:
					g.call(w, fmt.Sprintf("gsetf%d", wgi), 1) // L1 of the writer
				case writer == "api":
					g.api(w, "global.set", uint64(wgi), newVals[t][0])
				default:
					g.call(w, fmt.Sprintf("gset%d", wgi), newVals[t]...)
				}
				spec := &ModSpec{Name: "i", ID: 2,
					Imports: []ImportSpec{impTab("e", wenc.Limits{Min: 1}), impG("e", gi, gt(t, true))},
					Globals: []GlobalSpec{{Type: gt(t, false), Init: "global", Ref: 0}, {Type: gt(t, true), Init: "global", Ref: 0}}}
				g.instantiate(spec)
				g.sweep()
			}})
		}
	}
	// ---- captures of IMMUTABLE imported globals (what the specification allows)
	out = append(out, directed{"capture-immutable-all-types", func(g *gen) {
		e := g.instantiate(exporterSpec("e", 0)).Inst
		_ = e
		spec := &ModSpec{Name: "i", ID: 1,
			Imports: []ImportSpec{impMem("e", wenc.Limits{Min: 1}), impTab("e", wenc.Limits{Min: 1}),
				impG("e", 1, gt(wenc.I32, false)), impG("e", 8, gt(wenc.I64, false)), impG("e", 9, gt(wenc.FuncRef, false))},
			Globals: []GlobalSpec{{Type: gt(wenc.I32, true), Init: "global", Ref: 0}, {Type: gt(wenc.I64, false), Init: "global", Ref: 1},
				{Type: gt(wenc.FuncRef, true), Init: "global", Ref: 2}},
			Datas: []DataSpec{{Off: SegOff{Global: 0}, Bytes: []byte("im")}},
			Elems: []ElemSpec{{Table: 0, Off: SegOff{Global: 0}, Items: []ElemItem{{Kind: "global", Ref: 2}, {Kind: "func", Ref: 1}}},
				{Passive: true, Table: 0, Items: []ElemItem{{Kind: "global", Ref: 2}, {Kind: "null"}}}}}
		i := g.instantiate(spec).Inst
		g.call(i, "tinit0", 0, 0, 2)
		g.sweep()
	}})
	// ---- a mutable i32 import as data / element offset, a mutable funcref import as element initialiser
	for _, site := range []string{"data-offset", "elem-offset", "elem-init", "passive-elem-init"} {
		site := site
		out = append(out, directed{"capture-mutable-" + site, func(g *gen) {
			g.lenient = true
			e := g.instantiate(exporterSpec("e", 0)).Inst
			g.call(e, "gset0", 2)  // created with 1; both 1 and 2 are in range below
			g.call(e, "gsetf6", 3) // created with L0, now L3 (another signature)
			g.call(e, "st8", 1, 0x11)
			spec := &ModSpec{Name: "i", ID: 1,
				Imports: []ImportSpec{impMem("e", wenc.Limits{Min: 1}), impTab("e", wenc.Limits{Min: 4}),
					impG("e", 0, gt(wenc.I32, true)), impG("e", 6, gt(wenc.FuncRef, true))}}
			switch site {
			case "data-offset":
				spec.Datas = []DataSpec{{Off: SegOff{Global: 0}, Bytes: []byte{0xd1}}}
			case "elem-offset":
				spec.Elems = []ElemSpec{{Table: 0, Off: SegOff{Global: 0}, Items: []ElemItem{{Kind: "func", Ref: 0}}}}
			case "elem-init":
				spec.Elems = []ElemSpec{{Table: 0, Off: SegOff{Global: -1, Const: 0}, Items: []ElemItem{{Kind: "global", Ref: 1}}}}
			default:
				spec.Elems = []ElemSpec{{Passive: true, Table: 0, Items: []ElemItem{{Kind: "global", Ref: 1}}}}
			}
			i := g.instantiate(spec).Inst
			if site == "passive-elem-init" {
				g.override, g.suffix = "const-expr:global.get-mutable-import", "site=passive-elem-init"
				g.call(i, "tinit0", 3, 0, 1)
				g.call(i, "tcall0", 3, 1) // L3 has another signature: a stale capture (L0) would return instead of trapping
				g.setAlt("stale-value", uint64(1+uint32(leafConst(0, 0))))
				g.override, g.suffix = "", ""
			}
			if site == "elem-init" {
				g.override, g.suffix = "const-expr:global.get-mutable-import", "site=elem-init"
				g.call(i, "tcall0", 0, 1)
				g.setAlt("stale-value", uint64(1+uint32(leafConst(0, 0))))
				g.override, g.suffix = "", ""
			}
			g.sweep()
		}})
	}
	// ---- a ref.null item of an active element segment clears the slot it lands on
	out = append(out, directed{"elem-null-item-overwrites-shared-slot", func(g *gen) {
		e := g.instantiate(exporterSpec("e", 0)).Inst
		g.call(e, "tset0", 1, 0)
		g.call(e, "tset0", 2, 1)
		spec := &ModSpec{Name: "i", ID: 1, Imports: []ImportSpec{impTab("e", wenc.Limits{Min: 4})},
			Elems: []ElemSpec{{Table: 0, Off: SegOff{Global: -1, Const: 1}, Items: []ElemItem{{Kind: "null"}, {Kind: "func", Ref: 0}}}}}
		g.instantiate(spec)
		g.sweep()
	}})
	// ---- re-exported imports: the function an importer (or the host API) reaches must be the original one
	for _, how := range []string{"imported-by-third-module", "called-through-api"} {
		how := how
		out = append(out, directed{"reexported-function-imports-" + how, func(g *gen) {
			g.sc.Host, g.m.host = true, true
			hadd := ImportSpec{Mod: "env", Name: "hadd", Host: true, Ext: Ext{Kind: wenc.ExtFunc, Func: hostTypes["hadd"]}}
			// the origin module has function imports itself, so its function indexes differ from its defined-function indexes
			o := exporterSpec("o", 0)
			o.Imports = []ImportSpec{hadd, hadd}
			g.instantiate(o)
			fimp := func(mod, name string, t wenc.FuncType) ImportSpec {
				return ImportSpec{Mod: mod, Name: name, Ext: Ext{Kind: wenc.ExtFunc, Func: t}}
			}
			a := g.instantiate(&ModSpec{Name: "a", ID: 1, Imports: []ImportSpec{fimp("o", "L0", ft(tI32, tI32)), fimp("o", "L1", ft(tI32, tI32)),
				fimp("o", "gget2", ft(nil, tI64)), fimp("o", "L3", ft(nil, tI64))}}).Inst
			for j := 0; j < 4; j++ {
				g.call(a, fmt.Sprintf("ci%d", j), g.argsFor(a.funcs[j])...)
			}
			if how == "called-through-api" {
				for j := 0; j < 4; j++ {
					g.call(a, fmt.Sprintf("fi%d", j), g.argsFor(a.funcs[j])...)
				}
				return
			}
			b := g.instantiate(&ModSpec{Name: "b", ID: 2, Imports: []ImportSpec{hadd, fimp("a", "fi0", ft(tI32, tI32)), fimp("a", "fi1", ft(tI32, tI32)),
				fimp("a", "fi2", ft(nil, tI64)), fimp("a", "fi3", ft(nil, tI64))}}).Inst
			for j := 1; j < 5; j++ {
				g.call(b, fmt.Sprintf("ci%d", j), g.argsFor(b.funcs[j])...)
			}
		}})
	}
	// ---- the callee (another instance, or the host) grows / writes the shared object, the caller reads it in the same function
	out = append(out, directed{"call-then-read-in-one-function", func(g *gen) {
		g.sc.Host, g.m.host = true, true
		e := g.instantiate(exporterSpec("e", 0)).Inst
		fimp := func(name string) ImportSpec {
			f := e.funcs[e.lay.ByName[name]]
			return ImportSpec{Mod: "e", Name: name, Ext: Ext{Kind: wenc.ExtFunc, Func: f.typ}}
		}
		i := g.instantiate(&ModSpec{Name: "i", ID: 1, Imports: []ImportSpec{
			fimp("mgrow"), fimp("tgrow0"), fimp("gset0"), fimp("st8"), fimp("tset0"),
			{Mod: "env", Name: "hgrow", Host: true, Ext: Ext{Kind: wenc.ExtFunc, Func: hostTypes["hgrow"]}},
			impMem("e", wenc.Limits{Min: 1}), impTab("e", wenc.Limits{Min: 1}), impG("e", 0, gt(wenc.I32, true))}}).Inst
		g.call(e, "st8", 5, 0x55)
		g.call(i, "cim0", 1, 5, 65536+7)             // e.mgrow(1) then load from the new page
		g.call(i, "cim3", 65536+7, 0x77, 5, 65536+7) // e.st8 into the new page then load it
		g.call(i, "cim5", 1, 5, 2*65536+9)           // host grows through api.Memory then load from the new page
		g.call(i, "cig2", 41)                        // e.gset0(41) then global.get
		g.call(i, "cig0", 0)                         // unrelated callee: global unchanged
		g.call(i, "cit1", 2, 1, 5)                   // e.tgrow0(2, L1) then table.size / table.get in the grown part
		g.call(i, "cit4", 0, 2, 0)                   // e.tset0(0, L2) then table.get
		g.call(i, "cim0", 1, 5, 3*65536+1)           // grows to the maximum
		g.call(i, "cim0", 1, 5, 0)                   // grow fails
		g.sweep()
	}})
	// ---- sibling instances of ONE compiled module share a table (and nothing else): every cross-instance call form
	// must run the callee against the CALLEE's private memory and global
	for _, tail := range []bool{false, true} {
		tail := tail
		nm := "sibling-instances-share-a-table"
		if tail {
			nm += "-tail-calls"
		}
		out = append(out, directed{nm, func(g *gen) {
			es := exporterSpec("e", 0)
			es.Tail = tail
			e := g.instantiate(es).Inst
			spec := &ModSpec{Name: "s1", ID: 1, Tail: tail,
				Imports: []ImportSpec{impTab("e", wenc.Limits{Min: 4}), {Mod: "e", Name: "L1", Ext: Ext{Kind: wenc.ExtFunc, Func: ft(tI32, tI32)}}},
				Mem:     &wenc.Limits{Min: 1, Max: 2, HasMax: true},
				Globals: []GlobalSpec{cg(wenc.I32, true, 5), cg(wenc.I64, true, 6)},
				Datas:   []DataSpec{{Passive: true, Bytes: []byte("sibling")}}}
			s1 := g.instantiate(spec).Inst
			s2 := g.instantiateAs(spec, "s2").Inst
			s3 := g.instantiateAs(spec, "s3").Inst
			for k, in := range []*mInst{s1, s2, s3} {
				g.initPrivate(in, k+1)
				g.call(in, "mfill", uint64(64+k), uint64(0xa0+k), 3)
			}
			// slot k: L1 of s(k+1) (adds to its own global), slot 3: L2 of s2 (loads from its own memory)
			g.call(s1, "tset0", 0, 1)
			g.call(s2, "tset0", 1, 1)
			g.call(s3, "tset0", 2, 1)
			g.call(s2, "tset0", 3, 2)
			forms := []string{"tcall0"}
			if tail {
				forms = append(forms, "rtcall0")
			}
			for _, caller := range []*mInst{s1, s2, s3, e} {
				for _, f := range forms {
					for slot := uint64(0); slot < 3; slot++ {
						g.call(caller, f, slot, 10)
					}
					for _, a := range []uint64{1, 7, 33, 64, 65} {
						g.call(caller, f, 3, a)
					}
				}
				for _, in := range []*mInst{s1, s2, s3} {
					g.call(in, "gget1")
				}
			}
			if tail {
				// hops: L4 of one sibling tail-calls into the next one
				g.call(s1, "tset0", 0, 4)
				g.call(s3, "tset0", 2, 4)
				for _, caller := range []*mInst{s1, s2, s3, e} {
					g.call(caller, "rtcall0", 0, 0x210)    // s1.L4 -> slot 0x10? out of range: trap
					g.call(caller, "rtcall0", 0, 0x0901)   // s1.L4 -> slot 1 (s2.L1) with 9
					g.call(caller, "rtcall0", 2, 0x2103)   // s3.L4 -> slot 3 (s2.L2) loads s2 memory at 0x21
					g.call(caller, "rtcall0", 0, 0x070102) // s1.L4 -> slot 2 (s3.L4) -> slot 1 (s2.L1) with 7
					g.call(caller, "tcall0", 2, 0x070100)  // s3.L4 -> slot 0 (s1.L4) -> slot 1 (s2.L1) with 7
				}
				for _, in := range []*mInst{s1, s2, s3} {
					g.call(in, "rci0", 3) // return_call of the imported e.L1
					g.call(in, "gget1")
				}
			}
			g.sweep()
		}})
	}
	// ---- the same global / table / function imported under two indexes (directly and through a re-export)
	out = append(out, directed{"same-entity-imported-twice", func(g *gen) {
		e := g.instantiate(exporterSpec("e", 0)).Inst
		g.instantiate(&ModSpec{Name: "m", ID: 1, Imports: []ImportSpec{impG("e", 0, gt(wenc.I32, true)), impTab("e", wenc.Limits{Min: 1})}})
		l1 := ImportSpec{Mod: "e", Name: "L1", Ext: Ext{Kind: wenc.ExtFunc, Func: ft(tI32, tI32)}}
		i := g.instantiate(&ModSpec{Name: "i", ID: 2, Imports: []ImportSpec{
			impG("e", 0, gt(wenc.I32, true)), l1, impG("e", 0, gt(wenc.I32, true)), impTab("e", wenc.Limits{Min: 1}),
			impG("e", 2, gt(wenc.I64, true)), impG("m", 0, gt(wenc.I32, true)), impG("e", 2, gt(wenc.I64, true)), l1,
			{Mod: "m", Name: "t0", Ext: Ext{Kind: wenc.ExtTable, Table: wenc.TableType{Elem: wenc.FuncRef, Lim: wenc.Limits{Min: 1}}}},
			impG("e", 5, gt(wenc.V128, true)), impG("e", 5, gt(wenc.V128, true))}}).Inst
		for round := uint64(0); round < 3; round++ {
			g.call(i, "galias0_1", 50+round)
			g.call(i, "galias1_0", 60+round)
			g.call(i, "galias0_3", 70+round) // index 3 is the same global re-exported by m
			g.call(i, "galias3_0", 80+round)
			g.call(i, "gget0")
			g.call(i, "gget1")
			g.call(i, "gget3")
			g.call(e, "gget0")
			g.call(i, "ci0", 5) // e.L1 adds to e.g0
			g.call(i, "gget1")
			g.call(i, "cig0", 7) // e.L1 then global.get of the first mutable global, in one function
			g.call(i, "cig1", 9)
		}
		g.call(i, "galias2_4", 0x1111222233334444)
		g.call(i, "galias4_2", 0x5555)
		g.call(i, "gget2")
		g.call(i, "gget4")
		g.call(i, "galias5_6", 1, 2)
		g.call(i, "galias6_5", 3, 4)
		g.call(i, "talias0_1", 1, 0)
		g.call(i, "talias1_0", 1, 9) // null again
		g.call(i, "talias0_1", 2, 1)
		g.call(i, "tgalias0_1", 2)
		g.call(i, "tgalias1_0", 1)
		g.call(i, "tgalias0_1", 3) // beyond the maximum
		g.call(i, "tsize0")
		g.call(i, "tsize1")
		g.call(e, "tsize0")
		g.sweep()
	}})
	// ---- segments that are in range only because the exporter has grown
	out = append(out, directed{"segments-in-grown-region", func(g *gen) {
		e := g.instantiate(exporterSpec("e", 0)).Inst
		g.call(e, "mgrow", 1)
		g.call(e, "tgrow0", 2, 4)
		spec := &ModSpec{Name: "i", ID: 1,
			Imports: []ImportSpec{impMem("e", wenc.Limits{Min: 2}), impTab("e", wenc.Limits{Min: 1})},
			Datas:   []DataSpec{{Off: SegOff{Global: -1, Const: 65536 + 100}, Bytes: []byte("grown")}},
			Elems:   []ElemSpec{{Table: 0, Off: SegOff{Global: -1, Const: 5}, Items: []ElemItem{{Kind: "func", Ref: 0}}}}}
		g.noteHot(65536 + 100)
		i := g.instantiate(spec).Inst
		if i != nil {
			g.call(i, "ld8", 65536+100)
			g.call(e, "tcall0", 5, 9)
		}
		g.sweep()
	}})
	// ---- failed instantiations
	// tagged probes are read-only: a mismatch is reported under the tag and the run goes on
	tagged := func(g *gen, tag string, f func()) {
		save := g.override
		g.override = tag
		n := len(g.sc.Steps)
		f()
		for i := n; i < len(g.sc.Steps); i++ {
			g.sc.Steps[i].Soft = true
		}
		g.override = save
	}
	out = append(out, directed{"fail-data-oob-after-applied-data", func(g *gen) {
		e := g.instantiate(exporterSpec("e", 0)).Inst
		g.call(e, "st8", 65535, 0x5a)
		spec := &ModSpec{Name: "b", ID: 1, Imports: []ImportSpec{impMem("e", wenc.Limits{Min: 1})},
			Datas: []DataSpec{{Off: SegOff{Global: -1, Const: 0}, Bytes: []byte("AB")},
				{Off: SegOff{Global: -1, Const: 65535}, Bytes: []byte("XYZ")},
				{Off: SegOff{Global: -1, Const: 8}, Bytes: []byte("Q")}}}
		g.instantiate(spec)
		tagged(g, "failed-instantiation:data-oob:earlier-data-segment", func() { g.call(e, "ld8", 0); g.setAlt("not-written", 0) })
		tagged(g, "failed-instantiation:data-oob:failing-data-segment", func() { g.call(e, "ld8", 65535); g.setAlt("partially-written", 'X') })
		tagged(g, "failed-instantiation:data-oob:later-data-segment", func() { g.call(e, "ld8", 8); g.setAlt("written", 'Q') })
		g.noteHot(0)
		g.noteHot(1)
		g.noteHot(8)
		g.sweep()
	}})
	out = append(out, directed{"fail-data-oob-after-applied-elem", func(g *gen) {
		e := g.instantiate(exporterSpec("e", 0)).Inst
		spec := &ModSpec{Name: "b", ID: 1, Imports: []ImportSpec{impMem("e", wenc.Limits{Min: 1}), impTab("e", wenc.Limits{Min: 1})},
			Elems: []ElemSpec{{Table: 0, Off: SegOff{Global: -1, Const: 1}, Items: []ElemItem{{Kind: "func", Ref: 0}}}},
			Datas: []DataSpec{{Off: SegOff{Global: -1, Const: 65536}, Bytes: []byte("d")}}}
		g.instantiate(spec)
		g.push(Step{Kind: "gc", Tag: "gc"})
		// the specification initialises tables before memories: the element segment was applied before the trap
		tagged(g, "failed-instantiation:data-oob:earlier-active-elem-segment", func() {
			g.call(e, "tisnull0", 1)
			g.setAlt("not-written", 1)
		})
	}})
	out = append(out, directed{"fail-elem-oob-after-applied-elem", func(g *gen) {
		e := g.instantiate(exporterSpec("e", 0)).Inst
		spec := &ModSpec{Name: "b", ID: 1, Imports: []ImportSpec{impTab("e", wenc.Limits{Min: 1})},
			Elems: []ElemSpec{{Table: 0, Off: SegOff{Global: -1, Const: 0}, Items: []ElemItem{{Kind: "func", Ref: 1}}},
				{Table: 0, Off: SegOff{Global: -1, Const: 3}, Items: []ElemItem{{Kind: "func", Ref: 0}, {Kind: "func", Ref: 0}}},
				{Table: 0, Off: SegOff{Global: -1, Const: 2}, Items: []ElemItem{{Kind: "func", Ref: 2}}}}}
		g.instantiate(spec)
		g.push(Step{Kind: "gc", Tag: "gc"})
		tagged(g, "failed-instantiation:elem-oob:earlier-elem-segment", func() {
			g.call(e, "tisnull0", 0)
			g.setAlt("not-written", 1)
			g.call(e, "tcall0", 0, 7)
		})
		tagged(g, "failed-instantiation:elem-oob:failing-elem-segment", func() { g.call(e, "tisnull0", 3); g.setAlt("partially-written", 0) })
		tagged(g, "failed-instantiation:elem-oob:later-elem-segment", func() { g.call(e, "tisnull0", 2); g.setAlt("written", 0) })
		g.sweep()
	}})
	out = append(out, directed{"fail-elem-oob-then-data-and-start", func(g *gen) {
		e := g.instantiate(exporterSpec("e", 0)).Inst
		spec := &ModSpec{Name: "b", ID: 1,
			Imports: []ImportSpec{impMem("e", wenc.Limits{Min: 1}), impTab("e", wenc.Limits{Min: 1}), impG("e", 0, gt(wenc.I32, true))},
			Elems:   []ElemSpec{{Table: 0, Off: SegOff{Global: -1, Const: 4}, Items: []ElemItem{{Kind: "func", Ref: 0}}}},
			Datas:   []DataSpec{{Off: SegOff{Global: -1, Const: 32}, Bytes: []byte("D")}},
			Start:   &StartSpec{Acts: []StartAct{{Kind: "gset", A: 0, V: 99}}}}
		g.instantiate(spec)
		// the specification traps in the element segment: neither the data segment nor the start function run
		tagged(g, "failed-instantiation:elem-oob:data-segment-after-trap", func() { g.call(e, "ld8", 32); g.setAlt("written", 'D') })
		tagged(g, "failed-instantiation:elem-oob:start-function-after-trap", func() { g.call(e, "gget0"); g.setAlt("ran", 99) })
	}})
	for _, hide := range []bool{false, true} {
		hide := hide
		out = append(out, directed{map[bool]string{false: "fail-start-trap-after-writes", true: "fail-start-trap-after-writes-table-not-reexported"}[hide], func(g *gen) {
			e := g.instantiate(exporterSpec("e", 0)).Inst
			spec := &ModSpec{Name: "b", ID: 1, HideImportedTables: hide,
				Imports: []ImportSpec{impMem("e", wenc.Limits{Min: 1}), impTab("e", wenc.Limits{Min: 1}), impG("e", 0, gt(wenc.I32, true))},
				Elems:   []ElemSpec{{Table: 0, Off: SegOff{Global: -1, Const: 2}, Items: []ElemItem{{Kind: "func", Ref: 1}}}},
				Datas:   []DataSpec{{Off: SegOff{Global: -1, Const: 16}, Bytes: []byte("S")}},
				Start: &StartSpec{Trap: true, Acts: []StartAct{{Kind: "st8", A: 20, B: 7}, {Kind: "gset", A: 0, V: 33},
					{Kind: "tset", A: 0, B: 3, C: 0}, {Kind: "mgrow", A: 1}}}}
			g.instantiate(spec)
			g.push(Step{Kind: "gc", Tag: "gc"})
			tagged(g, "failed-instantiation:start-trap:data-segment", func() { g.call(e, "ld8", 16); g.setAlt("not-written", 0) })
			tagged(g, "failed-instantiation:start-trap:store-by-start-function", func() { g.call(e, "ld8", 20); g.setAlt("not-written", 0) })
			tagged(g, "failed-instantiation:start-trap:global.set-by-start-function", func() { g.call(e, "gget0"); g.setAlt("not-written", 1) })
			tagged(g, "failed-instantiation:start-trap:memory.grow-by-start-function", func() { g.call(e, "msize"); g.setAlt("not-grown", 1) })
			// functions of the failed instance stay callable through the shared table
			tagged(g, "failed-instantiation:start-trap:function-of-failed-instance-in-shared-table", func() {
				g.call(e, "tcall0", 2, 1)
				g.call(e, "tcall0", 3, 1)
				g.call(e, "gget0")
			})
			g.noteHot(16)
			g.noteHot(20)
			g.sweep()
			// a later importer links against the survivors as if nothing had happened
			i := g.instantiate(&ModSpec{Name: "i", ID: 2, Imports: []ImportSpec{impMem("e", wenc.Limits{Min: 2}), impTab("e", wenc.Limits{Min: 1}), impG("e", 0, gt(wenc.I32, true))}}).Inst
			if i != nil {
				g.push(Step{Kind: "gc", Tag: "gc"})
				tagged(g, "failed-instantiation:start-trap:function-of-failed-instance-in-shared-table", func() {
					g.call(i, "tcall0", 2, 5)
					g.call(i, "tcall0", 3, 5)
				})
				g.call(i, "ld8", 20)
			}
			g.sweep()
		}})
	}
	for _, how := range []string{"missing-name", "missing-module", "global-mutability", "func-signature", "kind"} {
		how := how
		out = append(out, directed{"fail-link-" + how + "-with-pending-segments", func(g *gen) {
			e := g.instantiate(exporterSpec("e", 0)).Inst
			bad := impG("e", 1, gt(wenc.I32, true)) // g1 is immutable
			switch how {
			case "missing-name":
				bad = impG("e", 55, gt(wenc.I32, false))
			case "missing-module":
				bad = impG("ghost", 0, gt(wenc.I32, false))
			case "func-signature":
				bad = ImportSpec{Mod: "e", Name: "L0", Ext: Ext{Kind: wenc.ExtFunc, Func: ft(tI32, tI64)}}
			case "kind":
				bad = ImportSpec{Mod: "e", Name: "mem", Ext: Ext{Kind: wenc.ExtGlobal, Global: gt(wenc.I32, false)}}
			}
			imports := []ImportSpec{impMem("e", wenc.Limits{Min: 1}), impTab("e", wenc.Limits{Min: 1}), impG("e", 0, gt(wenc.I32, true)), bad}
			if how == "func-signature" {
				imports = []ImportSpec{bad, impMem("e", wenc.Limits{Min: 1}), impTab("e", wenc.Limits{Min: 1}), impG("e", 0, gt(wenc.I32, true))}
			}
			spec := &ModSpec{Name: "b", ID: 1, Imports: imports,
				Elems: []ElemSpec{{Table: 0, Off: SegOff{Global: -1, Const: 2}, Items: []ElemItem{{Kind: "func", Ref: 1}}}},
				Datas: []DataSpec{{Off: SegOff{Global: -1, Const: 16}, Bytes: []byte("S")}},
				Start: &StartSpec{Acts: []StartAct{{Kind: "gset", A: 0, V: 33}}}}
			g.instantiate(spec)
			tagged(g, "failed-instantiation:link:data-segment", func() { g.call(e, "ld8", 16); g.setAlt("written", 'S') })
			tagged(g, "failed-instantiation:link:elem-segment", func() { g.call(e, "tisnull0", 2); g.setAlt("written", 0) })
			tagged(g, "failed-instantiation:link:start-function", func() { g.call(e, "gget0"); g.setAlt("ran", 33) })
			g.noteHot(16)
			g.sweep()
		}})
	}
	// ---- a chain: m2 imports from m1 what m1 imported from m0; writes through each are seen by all
	out = append(out, directed{"chain-of-reexports", func(g *gen) {
		e := g.instantiate(exporterSpec("e", 0)).Inst
		all := []ImportSpec{impMem("e", wenc.Limits{Min: 1}), impTab("e", wenc.Limits{Min: 4}), impG("e", 0, gt(wenc.I32, true)), impG("e", 2, gt(wenc.I64, true))}
		m1 := g.instantiate(&ModSpec{Name: "m1", ID: 1, Imports: all}).Inst
		all2 := []ImportSpec{impMem("m1", wenc.Limits{Min: 1}), impTab("m1", wenc.Limits{Min: 4}), impG("m1", 0, gt(wenc.I32, true)), impG("m1", 1, gt(wenc.I64, true))}
		m2 := g.instantiate(&ModSpec{Name: "m2", ID: 2, Imports: all2}).Inst
		insts := []*mInst{e, m1, m2}
		gname := func(in *mInst, i32 bool) int {
			if in == e {
				if i32 {
					return 0
				}
				return 2
			}
			if i32 {
				return 0
			}
			return 1
		}
		for round, w := range insts {
			g.call(w, fmt.Sprintf("gset%d", gname(w, true)), uint64(100+round))
			g.call(w, fmt.Sprintf("gset%d", gname(w, false)), uint64(1000+round))
			g.call(w, "st32", uint64(64+8*round), uint64(0xc0ffee00+round))
			g.call(w, "tset0", uint64(round), 1)
			g.call(w, "mgrow", 1)
			g.call(w, "tgrow0", 1, 0)
			for _, rd := range insts {
				g.call(rd, fmt.Sprintf("gget%d", gname(rd, true)))
				g.call(rd, fmt.Sprintf("gget%d", gname(rd, false)))
				g.call(rd, "ld32", uint64(64+8*round))
				g.call(rd, "tcall0", uint64(round), 3)
				g.call(rd, "msize")
				g.call(rd, "tsize0")
				g.call(rd, "ld8", uint64(65536*(round+1)+5))
				g.api(rd, "mem.size")
				g.api(rd, "global.get", uint64(gname(rd, true)))
			}
			g.api(w, "mem.write32", uint64(128+8*round), uint64(0xabcd0000+round))
			g.api(w, "global.set", uint64(gname(w, false)), uint64(5000+round))
			g.api(w, "mem.grow", 0)
			for _, rd := range insts {
				g.call(rd, "ld32", uint64(128+8*round))
				g.call(rd, fmt.Sprintf("gget%d", gname(rd, false)))
				g.api(rd, "mem.read32", uint64(128+8*round))
			}
		}
		g.sweep()
	}})
	return out
}

func genDirected(idx int, seed uint64) *gen {
	ds := directedScenarios()
	d := ds[idx%len(ds)]
	g := newGen(core.NewRng(int64(seed), 5), "directed:"+d.name, DefaultPageLimit, false, false)
	d.run(g)
	g.count("directed_" + d.name)
	return g
}
