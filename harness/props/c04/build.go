package c04

import (
	"fmt"

	"github.com/tetratelabs/wazero/verifharness/wenc"
)

// ---------------------------------------------------------------------------
// Module specification: one declarative description from which both the wasm
// binary (through wenc) and the store model's instance are derived.

type ImportSpec struct {
	Mod  string `json:"mod"`
	Name string `json:"name"`
	Ext  Ext    `json:"ext"`
	Host bool   `json:"host,omitempty"` // imported from the host module "env"
}

// GlobalSpec is a module-defined global.
type GlobalSpec struct {
	Type wenc.GlobalType `json:"type"`
	// Init: "const" (Lo/Hi), "global" (global.get Ref, an imported global),
	// "reffunc" (ref.func Refable[Ref]), "null".
	Init string `json:"init"`
	Lo   uint64 `json:"lo,omitempty"`
	Hi   uint64 `json:"hi,omitempty"`
	Ref  int    `json:"ref,omitempty"`
}

// SegOff is an active segment's offset expression.
type SegOff struct {
	Global int   `json:"global"` // imported global index, or -1 for i32.const
	Const  int32 `json:"const,omitempty"`
}

type DataSpec struct {
	Passive bool   `json:"passive,omitempty"`
	Off     SegOff `json:"off"`
	Bytes   []byte `json:"bytes"`
}

// ElemItem: Kind "func" (Refable[Ref]), "null", "global" (global.get Ref).
type ElemItem struct {
	Kind string `json:"kind"`
	Ref  int    `json:"ref,omitempty"`
}

type ElemSpec struct {
	Passive bool       `json:"passive,omitempty"`
	Table   int        `json:"table"`
	Off     SegOff     `json:"off"`
	Items   []ElemItem `json:"items"`
}

// StartAct: "st8" (A=addr, B=value), "gset" (A=global, V=value; i32/i64 only),
// "tset" (A=table, B=slot, C=refable k), "mgrow" (A=pages).
type StartAct struct {
	Kind string `json:"kind"`
	A    int    `json:"a"`
	B    int    `json:"b,omitempty"`
	C    int    `json:"c,omitempty"`
	V    uint64 `json:"v,omitempty"`
}

type StartSpec struct {
	Acts []StartAct `json:"acts"`
	Trap bool       `json:"trap,omitempty"`
}

type ModSpec struct {
	Name    string           `json:"name"`
	ID      int              `json:"id"` // distinguishes the constants of the leaf functions
	Imports []ImportSpec     `json:"imports,omitempty"`
	Mem     *wenc.Limits     `json:"mem,omitempty"`    // defined memory
	Tables  []wenc.TableType `json:"tables,omitempty"` // defined tables
	Globals []GlobalSpec     `json:"globals,omitempty"`
	Datas   []DataSpec       `json:"datas,omitempty"`
	Elems   []ElemSpec       `json:"elems,omitempty"`
	Start   *StartSpec       `json:"start,omitempty"`
	// Bare: no leaf/accessor functions at all (matrix importers).
	Bare bool `json:"bare,omitempty"`
	// HideImportedTables: imported tables are not re-exported (a module that re-exports an imported table is
	// registered with it a second time; one that does not is only reachable through its import registration).
	HideImportedTables bool `json:"hide_imported_tables,omitempty"`
	// Tail: the module also gets the tail-call forms of every cross-instance call path (needs the tail-call feature).
	Tail bool `json:"tail,omitempty"`
}

// Sem names what a function does; the model interprets it (model.go), the
// builder below emits the wasm for it. A, B are object indexes.
type Sem struct {
	Op string
	A  int
	B  int
}

type FuncInfo struct {
	Name string // export name, "" if not exported
	Type wenc.FuncType
	Sem  Sem
}

// Layout is the index space of a module built from a ModSpec.
type Layout struct {
	Funcs    []FuncInfo
	NImpF    int
	Refable  []int             // k -> function index usable in ref.func
	Globals  []wenc.GlobalType // imports first
	NImpG    int
	Tables   []wenc.TableType // declared types as seen by this module, imports first
	NImpT    int
	HasMem   bool
	MemImp   bool
	Gacc     int // global used by leaf1, -1 if none
	FT0      int // first funcref table (target of g2t, L4, call-then-read), -1 if none
	PassElem int // element segment index of the passive segment, -1
	PassData int // data segment index of the passive segment, -1
	StartFn  int
	ByName   map[string]int
}

var (
	tI32 = []wenc.ValType{wenc.I32}
	tI64 = []wenc.ValType{wenc.I64}
)

func ft(p, r []wenc.ValType) wenc.FuncType { return wenc.FuncType{Params: p, Results: r} }

func leafConst(id, k int) int32 { return int32((id+1)*100000 + k*1000) }

// BuildLayout computes the index spaces and the function list of spec.
func BuildLayout(spec *ModSpec) *Layout {
	l := &Layout{Gacc: -1, FT0: -1, PassElem: -1, PassData: -1, StartFn: -1, ByName: map[string]int{}}
	nfi := 0
	for _, im := range spec.Imports {
		switch im.Ext.Kind {
		case wenc.ExtFunc:
			fi := FuncInfo{Type: im.Ext.Func, Sem: Sem{Op: "import", A: nfi}}
			if !im.Host {
				fi.Name = fmt.Sprintf("fi%d", nfi)
			}
			l.Funcs = append(l.Funcs, fi)
			nfi++
		case wenc.ExtGlobal:
			l.Globals = append(l.Globals, im.Ext.Global)
		case wenc.ExtTable:
			l.Tables = append(l.Tables, im.Ext.Table)
		case wenc.ExtMemory:
			l.HasMem, l.MemImp = true, true
		}
	}
	l.NImpF, l.NImpG, l.NImpT = len(l.Funcs), len(l.Globals), len(l.Tables)
	for _, g := range spec.Globals {
		l.Globals = append(l.Globals, g.Type)
	}
	l.Tables = append(l.Tables, spec.Tables...)
	if spec.Mem != nil {
		l.HasMem = true
	}
	if spec.Bare {
		l.finish(spec)
		return l
	}
	for i, g := range l.Globals {
		if g.Type == wenc.I32 && g.Mutable {
			l.Gacc = i
			break
		}
	}
	add := func(name string, p, r []wenc.ValType, op string, a, b int) {
		l.Funcs = append(l.Funcs, FuncInfo{Name: name, Type: ft(p, r), Sem: Sem{op, a, b}})
	}
	// leaves
	add("L0", tI32, tI32, "leaf0", 0, 0)
	add("L1", tI32, tI32, "leaf1", 0, 0)
	add("L2", tI32, tI32, "leaf2", 0, 0)
	add("L3", nil, tI64, "leaf3", 0, 0)
	nLeaves := 4
	if spec.Tail {
		// L4(x): x == 0 ? C4 : return_call_indirect table[x & 0xff](x >> 8)   (a hop; chains across instances)
		add("L4", tI32, tI32, "leaf4", 0, 0)
		nLeaves = 5
	}
	// refable: leaves + imported functions
	for k := 0; k < nLeaves; k++ {
		l.Refable = append(l.Refable, l.NImpF+k)
	}
	// (host functions that look at "the calling module" are not put into tables: which module that is when
	// the call comes through another instance's call_indirect is not something the property fixes)
	nf := 0
	for _, im := range spec.Imports {
		if im.Ext.Kind != wenc.ExtFunc {
			continue
		}
		if !im.Host || im.Name == "hadd" {
			l.Refable = append(l.Refable, nf)
		}
		nf++
	}
	// first funcref table (target of g2t)
	ft0 := -1
	for i, t := range l.Tables {
		if t.Elem == wenc.FuncRef {
			ft0 = i
			break
		}
	}
	l.FT0 = ft0
	for i, g := range l.Globals {
		t := []wenc.ValType{g.Type}
		if g.Type == wenc.FuncRef {
			if g.Mutable {
				add(fmt.Sprintf("gsetf%d", i), tI32, nil, "gsetf", i, 0)
			}
			if ft0 >= 0 {
				add(fmt.Sprintf("g2t%d", i), tI32, nil, "g2t", i, ft0)
			}
			continue
		}
		add(fmt.Sprintf("gget%d", i), nil, t, "gget", i, 0)
		if g.Mutable {
			add(fmt.Sprintf("gset%d", i), t, nil, "gset", i, 0)
		}
	}
	// the same object may be imported under two indexes: write through one, read through the other, in
	// straight-line code of ONE function body (no call in between)
	nAl := 0
	for i := 0; i < l.NImpG && nAl < 12; i++ {
		for j := 0; j < l.NImpG && nAl < 12; j++ {
			gi, gj := l.Globals[i], l.Globals[j]
			if i != j && gi.Mutable && gi.Type == gj.Type && gi.Type != wenc.FuncRef {
				t := []wenc.ValType{gi.Type}
				add(fmt.Sprintf("galias%d_%d", i, j), t, []wenc.ValType{gi.Type, gi.Type}, "galias", i, j)
				nAl++
			}
		}
	}
	nAl = 0
	for i := 0; i < l.NImpT && nAl < 2; i++ {
		for j := 0; j < l.NImpT && nAl < 2; j++ {
			if i != j && l.Tables[i].Elem == wenc.FuncRef && l.Tables[j].Elem == wenc.FuncRef {
				add(fmt.Sprintf("talias%d_%d", i, j), []wenc.ValType{wenc.I32, wenc.I32}, []wenc.ValType{wenc.I32, wenc.I32}, "talias", i, j)
				add(fmt.Sprintf("tgalias%d_%d", i, j), tI32, []wenc.ValType{wenc.I32, wenc.I32, wenc.I32}, "tgalias", i, j)
				nAl++
			}
		}
	}
	if l.HasMem {
		add("ld8", tI32, tI32, "ld8", 0, 0)
		add("ld8far", tI32, tI32, "ld8far", 0, 0)
		add("ld32", tI32, tI32, "ld32", 0, 0)
		add("ld64", tI32, tI64, "ld64", 0, 0)
		add("st8", []wenc.ValType{wenc.I32, wenc.I32}, nil, "st8", 0, 0)
		add("st32", []wenc.ValType{wenc.I32, wenc.I32}, nil, "st32", 0, 0)
		add("st64", []wenc.ValType{wenc.I32, wenc.I64}, nil, "st64", 0, 0)
		add("msize", nil, tI32, "msize", 0, 0)
		add("mgrow", tI32, tI32, "mgrow", 0, 0)
		add("mfill", []wenc.ValType{wenc.I32, wenc.I32, wenc.I32}, nil, "mfill", 0, 0)
		add("mcopy", []wenc.ValType{wenc.I32, wenc.I32, wenc.I32}, nil, "mcopy", 0, 0)
	}
	// passive segments
	nd, ne := 0, 0
	for _, d := range spec.Datas {
		if d.Passive && l.PassData < 0 {
			l.PassData = nd
		}
		nd++
	}
	for _, e := range spec.Elems {
		if e.Passive && l.PassElem < 0 {
			l.PassElem = ne
		}
		ne++
	}
	if l.HasMem && l.PassData >= 0 {
		add("minit", []wenc.ValType{wenc.I32, wenc.I32, wenc.I32}, nil, "minit", l.PassData, 0)
	}
	for ti, t := range l.Tables {
		s := fmt.Sprint(ti)
		if t.Elem == wenc.FuncRef {
			add("tsize"+s, nil, tI32, "tsize", ti, 0)
			add("tgrow"+s, []wenc.ValType{wenc.I32, wenc.I32}, tI32, "tgrow", ti, 0)
			add("tset"+s, []wenc.ValType{wenc.I32, wenc.I32}, nil, "tset", ti, 0)
			add("tcall"+s, []wenc.ValType{wenc.I32, wenc.I32}, tI32, "tcall", ti, 0)
			add("tisnull"+s, tI32, tI32, "tisnull", ti, 0)
			if spec.Tail {
				add("rtcall"+s, []wenc.ValType{wenc.I32, wenc.I32}, tI32, "rtcall", ti, 0)
			}
			add("tfill"+s, []wenc.ValType{wenc.I32, wenc.I32, wenc.I32}, nil, "tfill", ti, 0)
			add("tcopy"+s, []wenc.ValType{wenc.I32, wenc.I32, wenc.I32}, nil, "tcopy", ti, 0)
			if l.PassElem >= 0 && spec.Elems[l.PassElem].Table == ti {
				add("tinit"+s, []wenc.ValType{wenc.I32, wenc.I32, wenc.I32}, nil, "tinit", ti, l.PassElem)
			}
		} else {
			add("xsize"+s, nil, tI32, "tsize", ti, 0)
			add("xgrow"+s, []wenc.ValType{wenc.I32, wenc.ExternRef}, tI32, "xgrow", ti, 0)
			add("xset"+s, []wenc.ValType{wenc.I32, wenc.ExternRef}, nil, "xset", ti, 0)
			add("xget"+s, tI32, []wenc.ValType{wenc.ExternRef}, "xget", ti, 0)
		}
	}
	for j := 0; j < l.NImpF; j++ {
		t := l.Funcs[j].Type
		add(fmt.Sprintf("ci%d", j), t.Params, t.Results, "ci", j, 0)
		if spec.Tail {
			add(fmt.Sprintf("rci%d", j), t.Params, t.Results, "rci", j, 0)
		}
	}
	// call-then-read wrappers: the imported function may grow / write the shared object, and the caller looks at
	// it again IN THE SAME FUNCTION (whatever the caller's code cached across the call must have been refreshed)
	cg := -1
	for i, g := range l.Globals {
		if g.Mutable && g.Type != wenc.FuncRef {
			cg = i
			break
		}
	}
	cat := func(a []wenc.ValType, b ...wenc.ValType) []wenc.ValType {
		return append(append([]wenc.ValType{}, a...), b...)
	}
	for j := 0; j < l.NImpF; j++ {
		t := l.Funcs[j].Type
		if l.HasMem {
			add(fmt.Sprintf("cim%d", j), cat(t.Params, wenc.I32, wenc.I32), cat(t.Results, wenc.I32, wenc.I32, wenc.I32), "cim", j, 0)
		}
		if cg >= 0 {
			gt := l.Globals[cg].Type
			add(fmt.Sprintf("cig%d", j), t.Params, cat(t.Results, gt, gt), "cig", j, cg)
		}
		if ft0 >= 0 {
			add(fmt.Sprintf("cit%d", j), cat(t.Params, wenc.I32), cat(t.Results, wenc.I32, wenc.I32, wenc.I32), "cit", j, ft0)
		}
	}
	l.finish(spec)
	return l
}

func (l *Layout) finish(spec *ModSpec) {
	if spec.Start != nil {
		l.StartFn = len(l.Funcs)
		l.Funcs = append(l.Funcs, FuncInfo{Type: ft(nil, nil), Sem: Sem{Op: "start"}})
	}
	for i, f := range l.Funcs {
		if f.Name != "" {
			l.ByName[f.Name] = i
		}
	}
}

func constFor(t wenc.ValType, lo, hi uint64) []byte {
	switch t {
	case wenc.I32:
		return wenc.ConstI32(int32(uint32(lo)))
	case wenc.I64:
		return wenc.ConstI64(int64(lo))
	case wenc.F32:
		return wenc.ConstF32(uint32(lo))
	case wenc.F64:
		return wenc.ConstF64(lo)
	case wenc.V128:
		return wenc.ConstV128(lo, hi)
	}
	return wenc.ConstRefNull(t)
}

func offExpr(o SegOff) []byte {
	if o.Global >= 0 {
		return wenc.ConstGlobal(uint32(o.Global))
	}
	return wenc.ConstI32(o.Const)
}

// refSelect pushes ref.func Refable[k] for k = local `loc`, null when k is out of range.
func refSelect(c *wenc.Code, loc uint32, refable []int) {
	for k, f := range refable {
		c.LocalGet(loc).I32Const(int32(k)).Op(0x46).If(wenc.FuncRef).RefFunc(uint32(f)).Else()
	}
	c.RefNull(wenc.FuncRef)
	for range refable {
		c.End()
	}
}

// Build encodes spec.
func Build(spec *ModSpec) ([]byte, *Layout) {
	l := BuildLayout(spec)
	m := &wenc.Module{}
	for _, im := range spec.Imports {
		wi := wenc.Import{Module: im.Mod, Name: im.Name, Kind: im.Ext.Kind}
		switch im.Ext.Kind {
		case wenc.ExtFunc:
			wi.TypeIdx = m.AddType(im.Ext.Func.Params, im.Ext.Func.Results)
		case wenc.ExtTable:
			wi.Table = im.Ext.Table
		case wenc.ExtMemory:
			wi.Mem = im.Ext.Mem
		case wenc.ExtGlobal:
			wi.Global = im.Ext.Global
		}
		m.Imports = append(m.Imports, wi)
	}
	if spec.Mem != nil {
		m.Mems = []wenc.Limits{*spec.Mem}
	}
	m.Tables = append(m.Tables, spec.Tables...)
	for _, g := range spec.Globals {
		wg := wenc.Global{Type: g.Type}
		switch g.Init {
		case "const":
			wg.Init = constFor(g.Type.Type, g.Lo, g.Hi)
		case "global":
			wg.Init = wenc.ConstGlobal(uint32(g.Ref))
		case "reffunc":
			wg.Init = wenc.ConstRefFunc(uint32(l.Refable[g.Ref]))
		default:
			wg.Init = wenc.ConstRefNull(g.Type.Type)
		}
		m.Globals = append(m.Globals, wg)
	}
	callT := m.AddType(tI32, tI32)
	for i := l.NImpF; i < len(l.Funcs); i++ {
		f := l.Funcs[i]
		c := &wenc.Code{}
		s := f.Sem
		A, B := uint32(s.A), uint32(s.B)
		var locals []wenc.ValType
		switch s.Op {
		case "leaf0":
			c.LocalGet(0).I32Const(leafConst(spec.ID, 0)).Op(0x6a)
		case "leaf1":
			if l.Gacc >= 0 {
				g := uint32(l.Gacc)
				c.GlobalGet(g).LocalGet(0).Op(0x6a).GlobalSet(g).GlobalGet(g).I32Const(leafConst(spec.ID, 1)).Op(0x6a)
			} else {
				c.LocalGet(0).I32Const(leafConst(spec.ID, 1)).Op(0x6a)
			}
		case "leaf2":
			if l.HasMem {
				c.LocalGet(0).Mem(0x2d, 0, 0).I32Const(leafConst(spec.ID, 2)).Op(0x6a)
			} else {
				c.LocalGet(0).I32Const(leafConst(spec.ID, 2)).Op(0x6a)
			}
		case "leaf3":
			c.I64Const(int64(leafConst(spec.ID, 3)))
		case "leaf4":
			if l.FT0 >= 0 {
				c.LocalGet(0).Op(0x45).If(wenc.I32).I32Const(leafConst(spec.ID, 4)).Else()
				c.LocalGet(0).I32Const(8).Op(0x76).LocalGet(0).I32Const(255).Op(0x71).ReturnCallIndirect(callT, uint32(l.FT0))
				c.End()
			} else {
				c.LocalGet(0).I32Const(leafConst(spec.ID, 4)).Op(0x6a)
			}
		case "gget":
			c.GlobalGet(A)
		case "gset":
			c.LocalGet(0).GlobalSet(A)
		case "gsetf":
			refSelect(c, 0, l.Refable)
			c.GlobalSet(A)
		case "g2t":
			c.LocalGet(0).GlobalGet(A).TableSet(B)
		case "galias":
			c.GlobalGet(B).LocalGet(0).GlobalSet(A).GlobalGet(B)
		case "talias":
			c.LocalGet(0).TableGet(B).RefIsNull().LocalGet(0)
			refSelect(c, 1, l.Refable)
			c.TableSet(A).LocalGet(0).TableGet(B).RefIsNull()
		case "tgalias":
			c.Prefixed(0xfc, 16).U32(B).RefNull(wenc.FuncRef).LocalGet(0).Prefixed(0xfc, 15).U32(A).Prefixed(0xfc, 16).U32(B)
		case "ld8":
			c.LocalGet(0).Mem(0x2d, 0, 0)
		case "ld8far":
			c.LocalGet(0).Mem(0x2d, 0, 65536)
		case "ld32":
			c.LocalGet(0).Mem(0x28, 0, 0)
		case "ld64":
			c.LocalGet(0).Mem(0x29, 0, 0)
		case "st8":
			c.LocalGet(0).LocalGet(1).Mem(0x3a, 0, 0)
		case "st32":
			c.LocalGet(0).LocalGet(1).Mem(0x36, 0, 0)
		case "st64":
			c.LocalGet(0).LocalGet(1).Mem(0x37, 0, 0)
		case "msize":
			c.MemorySize()
		case "mgrow":
			c.LocalGet(0).MemoryGrow()
		case "mfill":
			c.LocalGet(0).LocalGet(1).LocalGet(2).Prefixed(0xfc, 11).Op(0)
		case "mcopy":
			c.LocalGet(0).LocalGet(1).LocalGet(2).Prefixed(0xfc, 10).Op(0, 0)
		case "minit":
			c.LocalGet(0).LocalGet(1).LocalGet(2).Prefixed(0xfc, 8).U32(A).Op(0)
		case "tsize":
			c.Prefixed(0xfc, 16).U32(A)
		case "tgrow":
			refSelect(c, 1, l.Refable)
			c.LocalGet(0).Prefixed(0xfc, 15).U32(A)
		case "tset":
			c.LocalGet(0)
			refSelect(c, 1, l.Refable)
			c.TableSet(A)
		case "tcall":
			c.LocalGet(1).LocalGet(0).CallIndirect(callT, A)
		case "tisnull":
			c.LocalGet(0).TableGet(A).RefIsNull()
		case "rtcall":
			c.LocalGet(1).LocalGet(0).ReturnCallIndirect(callT, A)
		case "rci":
			for p := range f.Type.Params {
				c.LocalGet(uint32(p))
			}
			c.ReturnCall(A)
		case "tfill":
			c.LocalGet(0)
			refSelect(c, 1, l.Refable)
			c.LocalGet(2).Prefixed(0xfc, 17).U32(A)
		case "tcopy":
			c.LocalGet(0).LocalGet(1).LocalGet(2).Prefixed(0xfc, 14).U32(A).U32(A)
		case "tinit":
			c.LocalGet(0).LocalGet(1).LocalGet(2).Prefixed(0xfc, 12).U32(B).U32(A)
		case "xgrow":
			c.LocalGet(1).LocalGet(0).Prefixed(0xfc, 15).U32(A)
		case "xset":
			c.LocalGet(0).LocalGet(1).TableSet(A)
		case "xget":
			c.LocalGet(0).TableGet(A)
		case "ci":
			for p := range f.Type.Params {
				c.LocalGet(uint32(p))
			}
			c.Call(A)
		case "cim":
			np := uint32(len(f.Type.Params))
			locals = []wenc.ValType{wenc.I32}
			// (params..., a1, a2): load a1, call, load a2, memory.size
			c.LocalGet(np-2).Mem(0x2d, 0, 0).LocalSet(np)
			for p := uint32(0); p < np-2; p++ {
				c.LocalGet(p)
			}
			c.Call(A).LocalGet(np).LocalGet(np-1).Mem(0x2d, 0, 0).MemorySize()
		case "cig":
			np := uint32(len(f.Type.Params))
			locals = []wenc.ValType{l.Globals[s.B].Type}
			c.GlobalGet(B).LocalSet(np)
			for p := uint32(0); p < np; p++ {
				c.LocalGet(p)
			}
			c.Call(A).LocalGet(np).GlobalGet(B)
		case "cit":
			np := uint32(len(f.Type.Params))
			locals = []wenc.ValType{wenc.I32}
			c.Prefixed(0xfc, 16).U32(B).LocalSet(np)
			for p := uint32(0); p < np-1; p++ {
				c.LocalGet(p)
			}
			c.Call(A).LocalGet(np).Prefixed(0xfc, 16).U32(B).LocalGet(np - 1).TableGet(B).RefIsNull()
		case "start":
			for _, a := range spec.Start.Acts {
				switch a.Kind {
				case "st8":
					c.I32Const(int32(a.A)).I32Const(int32(a.B)).Mem(0x3a, 0, 0)
				case "gset":
					if l.Globals[a.A].Type == wenc.I64 {
						c.I64Const(int64(a.V))
					} else {
						c.I32Const(int32(uint32(a.V)))
					}
					c.GlobalSet(uint32(a.A))
				case "tset":
					c.I32Const(int32(a.B)).RefFunc(uint32(l.Refable[a.C])).TableSet(uint32(a.A))
				case "mgrow":
					c.I32Const(int32(a.A)).MemoryGrow().Drop()
				}
			}
			if spec.Start.Trap {
				c.Unreachable()
			}
		default:
			panic("unknown sem " + s.Op)
		}
		c.End()
		idx := m.AddFunc(f.Type.Params, f.Type.Results, locals, c.B)
		if int(idx) != i {
			panic(fmt.Sprintf("function index mismatch %d != %d", idx, i))
		}
	}
	for i, f := range l.Funcs {
		if f.Name != "" {
			m.ExportFunc(f.Name, uint32(i))
		}
	}
	if l.HasMem {
		m.Exports = append(m.Exports, wenc.Export{Name: "mem", Kind: wenc.ExtMemory})
	}
	for i := range l.Tables {
		if spec.HideImportedTables && i < l.NImpT {
			continue
		}
		m.Exports = append(m.Exports, wenc.Export{Name: fmt.Sprintf("t%d", i), Kind: wenc.ExtTable, Idx: uint32(i)})
	}
	for i := range l.Globals {
		m.Exports = append(m.Exports, wenc.Export{Name: fmt.Sprintf("g%d", i), Kind: wenc.ExtGlobal, Idx: uint32(i)})
	}
	if l.StartFn >= 0 {
		s := uint32(l.StartFn)
		m.Start = &s
	}
	for _, e := range spec.Elems {
		we := wenc.Elem{TableIdx: uint32(e.Table), Type: l.Tables[e.Table].Elem}
		if e.Passive {
			we.Mode = 1
		} else {
			we.Offset = offExpr(e.Off)
		}
		plain := we.Type == wenc.FuncRef
		for _, it := range e.Items {
			if it.Kind != "func" {
				plain = false
			}
		}
		if plain {
			for _, it := range e.Items {
				we.FuncIdx = append(we.FuncIdx, uint32(l.Refable[it.Ref]))
			}
		} else {
			we.UseExprs = true
			for _, it := range e.Items {
				switch it.Kind {
				case "func":
					we.Exprs = append(we.Exprs, wenc.ConstRefFunc(uint32(l.Refable[it.Ref])))
				case "global":
					we.Exprs = append(we.Exprs, wenc.ConstGlobal(uint32(it.Ref)))
				default:
					we.Exprs = append(we.Exprs, wenc.ConstRefNull(we.Type))
				}
			}
		}
		m.Elems = append(m.Elems, we)
	}
	if len(l.Refable) > 0 {
		// declarative segment: makes every refable function a legal ref.func operand
		we := wenc.Elem{Mode: 2}
		for _, f := range l.Refable {
			we.FuncIdx = append(we.FuncIdx, uint32(f))
		}
		m.Elems = append(m.Elems, we)
	}
	for _, d := range spec.Datas {
		wd := wenc.Data{Bytes: d.Bytes}
		if d.Passive {
			wd.Mode = 1
		} else {
			wd.Offset = offExpr(d.Off)
		}
		m.Datas = append(m.Datas, wd)
	}
	if len(m.Datas) > 0 {
		m.DataCount = true
	}
	return m.Encode(), l
}
