package c04

import (
	"fmt"
	"sort"

	"github.com/tetratelabs/wazero/verifharness/core"
	"github.com/tetratelabs/wazero/verifharness/wenc"
)

// Re-export chains with MIXED import sections: a middle module imports
// globals, a memory, a table and several functions of different types in PRNG
// order (so that function indexes differ from import-section positions) and
// re-exports every one of them; next-level modules import those re-exports
// with the exact type (the link model accepts; calling through decides that
// it is the original function / object) and with the type of ANOTHER
// re-exported function or a wrong global/memory/table type (the link model
// rejects). Chains are 3-4 instances long.

// interleaveImports merges the per-kind import sequences in PRNG order. The order within a kind is kept,
// so every index space (functions, tables, globals) stays what the rest of the spec refers to.
func interleaveImports(r *core.Rng, imps []ImportSpec, nonFuncFirst bool) []ImportSpec {
	groups := map[byte][]ImportSpec{}
	var kinds []byte
	for _, im := range imps {
		if _, ok := groups[im.Ext.Kind]; !ok {
			kinds = append(kinds, im.Ext.Kind)
		}
		groups[im.Ext.Kind] = append(groups[im.Ext.Kind], im)
	}
	var out []ImportSpec
	for len(out) < len(imps) {
		var avail []byte
		for _, k := range kinds {
			if len(groups[k]) > 0 && !(nonFuncFirst && len(out) == 0 && k == wenc.ExtFunc && len(imps) > len(groups[wenc.ExtFunc])) {
				avail = append(avail, k)
			}
		}
		k := avail[r.Intn(len(avail))]
		out = append(out, groups[k][0])
		groups[k] = groups[k][1:]
	}
	return out
}

func sortedExports(in *mInst, kind byte) []string {
	var names []string
	for n, e := range in.exports {
		if e.kind == kind {
			names = append(names, n)
		}
	}
	sort.Strings(names)
	return names
}

func sameFuncType(a, b wenc.FuncType) bool {
	return string(a.Params) == string(b.Params) && string(a.Results) == string(b.Results)
}

// reexporterSpec: a module importing from `from` several functions (different types first, re-exports
// of `from`'s own imports preferred), its memory, its funcref table and some globals, interleaved.
func (g *gen) reexporterSpec(name string, from *mInst) *ModSpec {
	r := g.r
	spec := &ModSpec{Name: name, ID: g.nextID}
	g.nextID++
	fn := sortedExports(from, wenc.ExtFunc)
	// PRNG order, re-exported imports ("fi*") first when there are any
	for i := len(fn) - 1; i > 0; i-- {
		j := r.Intn(i + 1)
		fn[i], fn[j] = fn[j], fn[i]
	}
	sort.SliceStable(fn, func(a, b int) bool {
		ra, rb := from.exports[fn[a]].fn.inst != from, from.exports[fn[b]].fn.inst != from
		return ra && !rb
	})
	// functions whose defining instance has function imports itself are left out when possible (see genReexport)
	var clean []string
	for _, n := range fn {
		if f := from.exports[n].fn; f.host == "" && f.inst.lay.NImpF == 0 {
			clean = append(clean, n)
		}
	}
	if len(clean) >= 2 {
		fn = clean
	}
	var chosen []string
	want := 3 + r.Intn(3)
	for pass := 0; pass < 2 && len(chosen) < want; pass++ {
		for _, n := range fn {
			if len(chosen) >= want {
				break
			}
			dup := false
			for _, c := range chosen {
				if c == n || (pass == 0 && sameFuncType(from.exports[c].fn.typ, from.exports[n].fn.typ)) {
					dup = true
				}
			}
			if !dup {
				chosen = append(chosen, n)
			}
		}
	}
	var imps []ImportSpec
	for _, n := range chosen {
		imps = append(imps, ImportSpec{Mod: from.name, Name: n, Ext: Ext{Kind: wenc.ExtFunc, Func: from.exports[n].fn.typ}})
	}
	if e, ok := from.exports["mem"]; ok && r.Chance(4, 5) {
		imps = append(imps, ImportSpec{Mod: from.name, Name: "mem", Ext: Ext{Kind: wenc.ExtMemory, Mem: g.compatLimits(e.mem.decl, e.mem.pages(), 8)}})
	}
	if e, ok := from.exports["t0"]; ok && e.tab.decl.Elem == wenc.FuncRef && r.Chance(4, 5) {
		tt := wenc.TableType{Elem: wenc.FuncRef, Lim: g.compatLimits(e.tab.decl.Lim, uint32(len(e.tab.slots)), e.tab.decl.Lim.Min)}
		imps = append(imps, ImportSpec{Mod: from.name, Name: "t0", Ext: Ext{Kind: wenc.ExtTable, Table: tt}})
	}
	gn := sortedExports(from, wenc.ExtGlobal)
	for n := 1 + r.Intn(3); n > 0 && len(gn) > 0; n-- {
		x := gn[r.Intn(len(gn))]
		imps = append(imps, ImportSpec{Mod: from.name, Name: x, Ext: Ext{Kind: wenc.ExtGlobal, Global: from.exports[x].glob.typ}})
	}
	spec.Imports = interleaveImports(r, imps, r.Chance(2, 3))
	spec.Globals = []GlobalSpec{cg(wenc.I32, true, uint64(10+spec.ID))}
	return spec
}

// bareImporter: a module with exactly one import and nothing else.
func (g *gen) bareImporter(name string, im ImportSpec) *ModSpec {
	spec := &ModSpec{Name: name, ID: g.nextID, Bare: true, Imports: []ImportSpec{im}}
	g.nextID++
	return spec
}

// useInstance looks at everything an instance imported: calls through every function import (guest call and
// host API call of the re-export), reads globals, memory and table.
func (g *gen) useInstance(in *mInst) {
	nf, ng := 0, 0
	for _, im := range in.spec.Imports {
		switch im.Ext.Kind {
		case wenc.ExtFunc:
			g.call(in, fmt.Sprintf("ci%d", nf), g.argsFor(in.funcs[nf])...)
			if n := fmt.Sprintf("fi%d", nf); in.lay.Funcs[nf].Name == n {
				g.call(in, n, g.argsFor(in.funcs[nf])...)
			}
			nf++
		case wenc.ExtGlobal:
			if in.globs[ng].typ.Type != wenc.FuncRef {
				g.call(in, fmt.Sprintf("gget%d", ng))
				if in.globs[ng].typ.Mutable && in.globs[ng].typ.Type != wenc.V128 {
					g.call(in, fmt.Sprintf("gset%d", ng), g.val(in.globs[ng].typ.Type)...)
				}
			}
			ng++
		case wenc.ExtMemory:
			g.call(in, "st8", uint64(40+in.spec.ID), uint64(0x80+in.spec.ID))
			g.noteHot(uint32(40 + in.spec.ID))
			g.call(in, "msize")
		case wenc.ExtTable:
			g.call(in, "tsize0")
			g.call(in, "tset0", 0, uint64(g.r.Intn(4)))
		}
	}
}

// mismatchedImportsOf instantiates single-import modules that import re-exports of `from` with a wrong type.
func (g *gen) mismatchedImportsOf(from *mInst, level int) {
	r := g.r
	fns := sortedExports(from, wenc.ExtFunc)
	var re []string // re-exported imports of from, every index
	for _, n := range fns {
		if from.exports[n].fn.inst != from || from.exports[n].fn.host != "" {
			re = append(re, n)
		}
	}
	type pair struct{ n, as string }
	var pairs []pair
	for _, n := range re {
		for _, m := range re {
			if !sameFuncType(from.exports[n].fn.typ, from.exports[m].fn.typ) {
				pairs = append(pairs, pair{n, m})
			}
		}
		// and the type of a function the module defines itself
		pairs = append(pairs, pair{n, "L3"}, pair{n, "L0"})
	}
	for i := len(pairs) - 1; i > 0; i-- {
		j := r.Intn(i + 1)
		pairs[i], pairs[j] = pairs[j], pairs[i]
	}
	if len(pairs) > 16 {
		pairs = pairs[:16]
	}
	soft := func() { g.sc.Steps[len(g.sc.Steps)-1].Soft = true }
	k := 0
	for _, p := range pairs {
		as, ok := from.exports[p.as]
		if !ok || sameFuncType(as.fn.typ, from.exports[p.n].fn.typ) {
			continue
		}
		g.count("reexport_function_imported_with_type_of_another_function")
		g.instantiate(g.bareImporter(fmt.Sprintf("x%d_%d", level, k), ImportSpec{Mod: from.name, Name: p.n, Ext: Ext{Kind: wenc.ExtFunc, Func: as.fn.typ}}))
		soft()
		k++
	}
	// re-exported globals / memory / table with a wrong type
	ng := 0
	for _, im := range from.spec.Imports {
		name := ""
		ext := im.Ext
		switch im.Ext.Kind {
		case wenc.ExtGlobal:
			name = fmt.Sprintf("g%d", ng)
			ng++
			if r.Bool() {
				ext.Global.Mutable = !ext.Global.Mutable
			} else if ext.Global.Type == wenc.I32 {
				ext.Global.Type = wenc.I64
			} else {
				ext.Global.Type = wenc.I32
			}
		case wenc.ExtMemory:
			name = "mem"
			ext.Mem = wenc.Limits{Min: from.mem.pages() + 1}
		case wenc.ExtTable:
			name = "t0"
			if r.Bool() {
				ext.Table = wenc.TableType{Elem: wenc.ExternRef}
			} else {
				ext.Table = wenc.TableType{Elem: wenc.FuncRef, Lim: wenc.Limits{Min: uint32(len(from.tabs[0].slots)) + 1}}
			}
		default:
			continue
		}
		g.count("reexport_" + kindName(im.Ext.Kind) + "_imported_with_wrong_type")
		g.instantiate(g.bareImporter(fmt.Sprintf("x%d_%d", level, k), ImportSpec{Mod: from.name, Name: name, Ext: ext}))
		soft()
		k++
	}
}

// genReexport generates one re-export chain scenario.
func genReexport(seed uint64) *gen {
	r := core.NewRng(int64(seed), 6)
	g := newGen(r, fmt.Sprintf("reexport-%d", seed), DefaultPageLimit, false, false)
	g.instTag = "reexport-of-import"
	// the origin has no function imports itself (re-export chains whose origin has some run into the
	// wrong-function finding of the compiler; the PRNG graphs and two directed scenarios cover those)
	o := g.instantiate(exporterSpec("o", 0)).Inst
	g.nextID = 1
	g.call(o, "gset0", 7)
	g.call(o, "st8", 3, 0x33)
	g.call(o, "tset0", 1, 1)
	g.call(o, "gsetf6", 2)
	from := o
	depth := 2 + r.Intn(2) // chain of 3-4 instances
	for level := 1; level <= depth; level++ {
		if level > 1 {
			g.mismatchedImportsOf(from, level)
		}
		res := g.instantiate(g.reexporterSpec(fmt.Sprintf("c%d", level), from))
		if !res.OK {
			g.count("reexport_chain_module_predicted_to_fail")
			break
		}
		g.count("reexport_exact_type_importers")
		g.useInstance(res.Inst)
		from = res.Inst
	}
	g.mismatchedImportsOf(from, depth+1)
	g.sweep()
	g.count(fmt.Sprintf("reexport_chain_length_%d", len(g.live)))
	return g
}
