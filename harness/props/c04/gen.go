package c04

import (
	"fmt"
	"sort"
	"strings"

	"github.com/tetratelabs/wazero/verifharness/core"
	"github.com/tetratelabs/wazero/verifharness/wenc"
)

// gen produces a scenario while running the model, so that arguments can be
// chosen relative to the current state (addresses near the end of a memory
// that has just been grown, offsets that are in range only now, ...).
type gen struct {
	r        *core.Rng
	m        *model
	sc       *Scenario
	live     []*mInst
	hot      []uint32
	prefix   string
	override string
	suffix   string
	nextID   int
	lenient  bool
	// apiReexports: also call re-exported imported functions through the host API
	apiReexports bool
	noChains     bool
	sweepHot     int               // how many of the recently written addresses a sweep reads back
	tail         bool              // generated modules get the tail-call forms (and the runtime the tail-call feature)
	useResolver  bool              // the next instantiations carry an ImportResolver answering `resolver`
	resolver     map[string]string // import module name -> instance name; other names are declined
	instTag      string            // tag of instantiation steps (scenario families with their own signatures)
	counts       map[string]int
	lastW        map[int]string // object id -> instance through which it was last written
}

func newGen(r *core.Rng, name string, pageLimit uint32, threads, host bool) *gen {
	return &gen{r: r, m: newModel(pageLimit, host), counts: map[string]int{}, lastW: map[int]string{}, sweepHot: 12,
		sc: &Scenario{Name: name, PageLimit: pageLimit, Threads: threads, Host: host}}
}

func (g *gen) count(k string) { g.counts[k]++ }

func isWrapper(op string) bool {
	return op == "ci" || op == "rci" || op == "cim" || op == "cig" || op == "cit"
}

func (g *gen) resolve(f *mFunc) *mFunc {
	for f.host == "" && isWrapper(f.sem.Op) {
		f = f.inst.funcs[f.sem.A]
	}
	return f
}

var writeOps = map[string]bool{"galias": true, "talias": true, "tgalias": true, "gset": true, "gsetf": true, "g2t": true, "st8": true, "st32": true, "st64": true, "mgrow": true,
	"mfill": true, "mcopy": true, "minit": true, "tgrow": true, "tset": true, "tfill": true, "tcopy": true, "tinit": true,
	"xgrow": true, "xset": true, "leaf1": true}

// objOf: the object a function of instance in touches, whether in imported it.
func objOf(in *mInst, s Sem) (id int, imported bool, owners int, kind string) {
	switch s.Op {
	case "gget", "gset", "gsetf", "galias":
		gl := in.globs[s.A]
		return gl.id, s.A < in.lay.NImpG, gl.owners, "global"
	case "leaf1":
		if in.lay.Gacc >= 0 {
			gl := in.globs[in.lay.Gacc]
			return gl.id, in.lay.Gacc < in.lay.NImpG, gl.owners, "global"
		}
	case "ld8", "ld8far", "ld32", "ld64", "st8", "st32", "st64", "msize", "mgrow", "mfill", "mcopy", "minit":
		return in.mem.id, in.lay.MemImp, in.mem.owners, "memory"
	case "leaf2":
		if in.lay.HasMem {
			return in.mem.id, in.lay.MemImp, in.mem.owners, "memory"
		}
	case "g2t":
		t := in.tabs[s.B]
		return t.id, s.B < in.lay.NImpT, t.owners, "table"
	case "leaf4":
		if in.lay.FT0 >= 0 {
			t := in.tabs[in.lay.FT0]
			return t.id, in.lay.FT0 < in.lay.NImpT, t.owners, "table"
		}
	case "tsize", "tgrow", "tset", "talias", "tgalias", "tcall", "rtcall", "tisnull", "tfill", "tcopy", "tinit", "xgrow", "xset", "xget":
		t := in.tabs[s.A]
		return t.id, s.A < in.lay.NImpT, t.owners, "table"
	}
	return 0, false, 0, ""
}

func classOf(imported bool, owners int, kind string) string {
	switch {
	case kind == "":
		return "fn"
	case imported:
		return "imported"
	case owners > 1:
		return "exported-shared"
	}
	return "private"
}

func (g *gen) tagFor(in *mInst, fidx int) (string, *mFunc) {
	f := in.funcs[fidx]
	pre := ""
	if f.host == "" && f.inst != in {
		pre = "reexported-import:"
	}
	if f.host == "" && isWrapper(f.sem.Op) {
		if f.sem.Op == "ci" {
			pre += "via-import:"
		} else if f.sem.Op == "rci" {
			pre += "return_call-import:"
		} else {
			pre += "call-then-read(" + map[string]string{"cim": "memory", "cig": "global", "cit": "table"}[f.sem.Op] + "):"
		}
		// the imported function is itself a re-exported import of the module it was imported from
		if tgt := in.funcs[f.sem.A]; tgt.host == "" && f.inst == in {
			n := 0
			for ii, im := range in.spec.Imports {
				if im.Ext.Kind != wenc.ExtFunc {
					continue
				}
				if n == f.sem.A && in.impFrom[ii] != tgt.inst.name {
					pre = "via-reexport-chain:" + pre
				}
				n++
			}
		}
	}
	eff := g.resolve(f)
	if eff.host != "" {
		return pre + "host." + eff.host, eff
	}
	_, imp, own, kind := objOf(eff.inst, eff.sem)
	return pre + eff.sem.Op + ":" + classOf(imp, own, kind), eff
}

func (g *gen) push(st Step) {
	if g.override != "" {
		st.Tag = g.override
	} else {
		st.Tag = g.prefix + st.Tag
	}
	if st.Suffix == "" {
		st.Suffix = g.suffix
	}
	g.sc.Steps = append(g.sc.Steps, st)
}

// call appends a call of an exported function with the model's prediction.
func (g *gen) call(in *mInst, name string, args ...uint64) ([]uint64, string) {
	fidx, ok := in.lay.ByName[name]
	if !ok {
		panic("gen: " + in.name + " has no function " + name)
	}
	tag, eff := g.tagFor(in, fidx)
	// cross-instance read-after-write accounting
	if eff.host == "" {
		if id, _, _, kind := objOf(eff.inst, eff.sem); kind != "" {
			if writeOps[eff.sem.Op] {
				g.lastW[id] = in.name
			} else if w := g.lastW[id]; w != "" && w != in.name {
				g.count("cross_instance_read_after_write")
				g.count("cross_instance_read_after_write_" + kind)
			}
		}
		g.count("op_" + eff.sem.Op)
	} else {
		g.count("op_host." + eff.host)
	}
	if f := in.funcs[fidx]; f.host == "" && isWrapper(f.sem.Op) {
		g.count("op_" + f.sem.Op)
	}
	// indirect calls: whose function sits in the slot, relative to the instance executing the call
	if eff.host == "" && (eff.sem.Op == "tcall" || eff.sem.Op == "rtcall") && len(args) > 0 {
		rel := "none"
		if t := eff.inst.tabs[eff.sem.A]; args[0] < uint64(len(t.slots)) && t.slots[args[0]].fn != nil {
			switch callee := g.resolve(t.slots[args[0]].fn); {
			case callee.inst != nil && !callee.inst.live:
				rel = "function-of-failed-instance"
			case callee.host != "":
				rel = "host"
			case callee.inst == eff.inst:
				rel = "same-instance"
			case callee.inst.spec == eff.inst.spec:
				rel = "sibling-instance-of-same-compiled-module"
			default:
				rel = "other-module"
			}
		}
		tag += ":callee=" + rel
		g.count("indirect_" + eff.sem.Op + "_callee_" + rel)
	}
	res, trap := g.m.call(in.funcs[fidx], args)
	if trap != "" {
		g.count("trap_" + trap[5:])
	}
	// galias only READS through the second index: a stale read does not make the state diverge, the run goes on
	g.push(Step{Kind: "call", Inst: in.name, Fn: name, Args: args, Exp: res, ExpErr: trap, RT: in.lay.Funcs[fidx].Type.Results, Tag: tag,
		Soft: eff.host == "" && eff.sem.Op == "galias" && in.funcs[fidx] == eff})
	return res, trap
}

// api appends a host-side API operation on instance in.
func (g *gen) api(in *mInst, op string, args ...uint64) {
	st := Step{Kind: "api", Inst: in.name, Fn: op, Args: args}
	u := func(i int) uint32 { return uint32(args[i]) }
	mem := in.mem
	rd := func(n uint64, get func([]byte) uint64) {
		if memRange(mem, uint64(u(0)), n) {
			st.Exp = []uint64{get(mem.data[u(0):]), 1}
		} else {
			st.Exp = []uint64{0, 0}
		}
	}
	memClass := func() string { return classOf(in.lay.MemImp, mem.owners, "memory") }
	noteR := func(id int, kind string) {
		if w := g.lastW[id]; w != "" && w != in.name+"/api" {
			g.count("cross_instance_read_after_write")
			g.count("cross_instance_read_after_write_api_" + kind)
		}
	}
	switch op {
	case "mem.size", "mem.exported":
		st.Exp = []uint64{uint64(len(mem.data))}
		st.Tag = "api.Memory.Size:" + memClass()
		noteR(mem.id, "memory")
	case "mem.grow":
		old := g.m.memGrow(mem, u(0))
		if old == 0xffffffff {
			st.Exp = []uint64{0, 0}
		} else {
			st.Exp = []uint64{uint64(old), 1}
		}
		st.Tag = "api.Memory.Grow:" + memClass()
		g.lastW[mem.id] = in.name + "/api"
	case "mem.read8":
		rd(1, func(b []byte) uint64 { return uint64(b[0]) })
		st.Tag = "api.Memory.Read:" + memClass()
		noteR(mem.id, "memory")
	case "mem.read32":
		rd(4, func(b []byte) uint64 { return uint64(le32(b)) })
		st.Tag = "api.Memory.Read:" + memClass()
		noteR(mem.id, "memory")
	case "mem.read64":
		rd(8, func(b []byte) uint64 { return le64(b) })
		st.Tag = "api.Memory.Read:" + memClass()
		noteR(mem.id, "memory")
	case "mem.write8", "mem.write32", "mem.write64":
		n := map[string]uint64{"mem.write8": 1, "mem.write32": 4, "mem.write64": 8}[op]
		if memRange(mem, uint64(u(0)), n) {
			for i := uint64(0); i < n; i++ {
				mem.data[uint64(u(0))+i] = byte(args[1] >> (8 * i))
			}
			st.Exp = []uint64{1}
			g.noteHot(u(0))
		} else {
			st.Exp = []uint64{0}
		}
		st.Tag = "api.Memory.Write:" + memClass()
		g.lastW[mem.id] = in.name + "/api"
	case "global.get", "global.string", "global.set", "global.mutable":
		gi := int(args[0])
		gl := in.globs[gi]
		cl := classOf(gi < in.lay.NImpG, gl.owners, "global")
		switch op {
		case "global.get":
			st.Exp = []uint64{gl.lo}
			st.RT = []byte{gl.typ.Type}
			st.Tag = "api.Global.Get:" + cl
			noteR(gl.id, "global")
		case "global.string":
			st.NoExp = true
			st.Tag = "api.Global.String:" + cl
		case "global.mutable":
			st.Exp = []uint64{b2u(gl.typ.Mutable)}
			st.Tag = "api.Global.mutability:" + cl
		case "global.set":
			gl.lo = maskVal(gl.typ.Type, args[1])
			st.Tag = "api.MutableGlobal.Set:" + cl
			g.lastW[gl.id] = in.name + "/api"
		}
	default:
		panic("gen: api " + op)
	}
	g.count("op_api." + op)
	g.push(st)
}

func le32(b []byte) uint32 {
	return uint32(b[0]) | uint32(b[1])<<8 | uint32(b[2])<<16 | uint32(b[3])<<24
}
func le64(b []byte) uint64 { return uint64(le32(b)) | uint64(le32(b[4:]))<<32 }

func (g *gen) noteHot(a uint32) {
	for _, h := range g.hot {
		if h == a {
			return
		}
	}
	if len(g.hot) >= 40 {
		g.hot = append(g.hot[:0], g.hot[1:]...)
	}
	g.hot = append(g.hot, a)
}

// instantiate appends an instantiation step; on success it also appends the
// probes of every value captured by a constant expression.
func (g *gen) instantiate(spec *ModSpec) instResult { return g.instantiateAs(spec, spec.Name) }

// instantiateAs instantiates spec under the given instance name; a spec that was instantiated before is NOT
// compiled again: the new instance is a sibling of the earlier ones (same CompiledModule).
func (g *gen) instantiateAs(spec *ModSpec, name string) instResult {
	if g.useResolver {
		g.m.resolver = g.resolver
		if g.m.resolver == nil {
			g.m.resolver = map[string]string{}
		}
	}
	res := g.m.instantiateAs(spec, name)
	g.m.resolver = nil
	mi := -1
	for i, m := range g.sc.Mods {
		if m == spec {
			mi = i
			g.count("sibling_instances_of_one_compiled_module")
		}
	}
	if mi < 0 {
		g.sc.Mods = append(g.sc.Mods, spec)
		mi = len(g.sc.Mods) - 1
	}
	if spec.Tail {
		g.sc.Tail = true
	}
	st := Step{Kind: "inst", Inst: name, Mod: mi, Resolver: g.useResolver}
	if g.useResolver {
		st.Resolve = map[string]string{}
		for k, v := range g.resolver {
			st.Resolve[k] = v
		}
	}
	st.Tag = g.instTag
	if res.OK && usesMutableImportInConstExpr(spec) {
		// a runtime may also reject such a module (the specification does): see runEngine
		st.Tag = "const-expr:global.get-mutable-import"
	}
	if !res.OK {
		st.ExpErr = "fail:" + res.Fail
		g.count("instantiation_expected_to_fail")
		g.count("fail_" + failClass(res.Fail))
	} else {
		g.count("instantiation_expected_to_succeed")
	}
	keepOverride := g.override
	g.override = ""
	savedPrefix := g.prefix
	g.prefix = ""
	g.push(st)
	g.prefix = savedPrefix
	g.override = keepOverride
	// writes made by the (possibly failed) instantiation
	if in := res.Inst; in != nil {
		if in.mem != nil && len(spec.Datas) > 0 {
			g.lastW[in.mem.id] = name + "/init"
		}
		for _, e := range spec.Elems {
			if !e.Passive {
				g.lastW[in.tabs[e.Table].id] = name + "/init"
			}
		}
	}
	if res.OK {
		g.live = append(g.live, res.Inst)
		g.prefix = ""
		g.captureProbes(res)
		g.chainProbes(res.Inst)
	} else {
		g.prefix = "after-failed-instantiation(" + failClass(res.Fail) + "):"
	}
	return res
}

// usesMutableImportInConstExpr: some constant expression of spec reads a MUTABLE imported global
// (invalid per the specification, accepted by wazero's validator).
func usesMutableImportInConstExpr(spec *ModSpec) bool {
	var mut []bool
	for _, im := range spec.Imports {
		if im.Ext.Kind == wenc.ExtGlobal {
			mut = append(mut, im.Ext.Global.Mutable)
		}
	}
	is := func(i int) bool { return i >= 0 && i < len(mut) && mut[i] }
	for _, g := range spec.Globals {
		if g.Init == "global" && is(g.Ref) {
			return true
		}
	}
	for _, d := range spec.Datas {
		if !d.Passive && is(d.Off.Global) {
			return true
		}
	}
	for _, e := range spec.Elems {
		if !e.Passive && is(e.Off.Global) {
			return true
		}
		for _, it := range e.Items {
			if it.Kind == "global" && is(it.Ref) {
				return true
			}
		}
	}
	return false
}

func failClass(f string) string {
	if len(f) > 5 && f[:5] == "link:" {
		return "link"
	}
	return f
}

func mutName(m bool) string {
	if m {
		return "mutable"
	}
	return "immutable"
}

// chainProbes calls, right after instantiation, every imported function that the exporting module had
// itself imported from a third module (a re-export chain): it must be the original function.
func (g *gen) chainProbes(in *mInst) {
	n := 0
	for ii, im := range in.spec.Imports {
		if im.Ext.Kind != wenc.ExtFunc {
			continue
		}
		if f := in.funcs[n]; f.host == "" && f.inst.name != in.impFrom[ii] {
			if name := fmt.Sprintf("ci%d", n); in.lay.ByName[name] > 0 {
				g.count("reexport_chain_imports")
				g.call(in, name, g.argsFor(f)...)
				g.sweepUnder("via-reexport-chain:after-call:")
			}
		}
		n++
	}
}

// captureProbes reads back, through the new instance, every value that a
// constant expression captured from an imported global.
func (g *gen) captureProbes(res instResult) {
	in := res.Inst
	saveO, saveS := g.override, g.suffix
	defer func() { g.override, g.suffix = saveO, saveS }()
	// ref.null items first (a slot may be written by several segments; only the last write is observable)
	for _, p := range res.Probes {
		if p.Site != "elem-null-item" || in.tabs[p.Table].slots[p.Slot].fn != nil {
			continue
		}
		g.override, g.suffix = "active-elem-segment:ref.null-item", ""
		g.count("elem_null_item_overwrites_entry")
		if _, ok := in.lay.ByName[fmt.Sprintf("tisnull%d", p.Table)]; ok {
			g.call(in, fmt.Sprintf("tisnull%d", p.Table), uint64(p.Slot))
			g.setAlt("not-written", 0)
		}
	}
	for _, p := range res.Probes {
		if p.Site == "elem-null-item" {
			continue
		}
		if (p.Site == "elem-offset" || p.Site == "elem-init") && in.tabs[p.Table].slots[p.Slot] != p.Want {
			continue // overwritten by a later segment
		}
		if p.Site == "data-offset" && in.mem.data[p.Addr] != p.Byte {
			continue // overwritten by a later segment or the start function
		}
		g.override = "const-expr:global.get-" + mutName(p.Mutable) + "-import"
		g.suffix = "site=" + p.Site
		g.count("capture_" + p.Site + "_" + mutName(p.Mutable))
		switch p.Site {
		case "global-init":
			gl := in.globs[p.Global]
			if gl.typ.Type == wenc.FuncRef {
				name := fmt.Sprintf("g2t%d", p.Global)
				if fi, ok := in.lay.ByName[name]; ok {
					t := in.tabs[in.lay.Funcs[fi].Sem.B]
					if len(t.slots) > 0 {
						g.call(in, name, 0)
						g.refProbe(in, in.lay.Funcs[fi].Sem.B, 0)
						// what a stale capture would show: the function the imported global was created with
						if sf := p.StaleFn; sf != nil && sf != gl.fn && sf.host == "" && sf.sem.Op == "leaf0" {
							g.setAlt("stale-value", uint64(1+uint32(leafConst(sf.inst.spec.ID, 0))))
							g.count("capture_discriminating_" + p.Site + "_" + mutName(p.Mutable))
						}
					}
				}
				continue
			}
			name := fmt.Sprintf("gget%d", p.Global)
			g.call(in, name)
			st := &g.sc.Steps[len(g.sc.Steps)-1]
			if p.StaleValid {
				alt := []uint64{p.StaleLo}
				if gl.typ.Type == wenc.V128 {
					alt = append(alt, p.StaleHi)
				}
				if !valsEqual(st.RT, st.Exp, alt) {
					st.Alt, st.AltName = alt, "stale-value"
					g.count("capture_discriminating_" + p.Site + "_" + mutName(p.Mutable))
				}
			}
		case "data-offset":
			g.call(in, "ld8", uint64(p.Addr))
			st := &g.sc.Steps[len(g.sc.Steps)-1]
			if p.Prev != p.Byte {
				st.Alt, st.AltName = []uint64{uint64(p.Prev)}, "stale-value"
				if p.StaleAddr != p.Addr {
					g.count("capture_discriminating_" + p.Site + "_" + mutName(p.Mutable))
				}
			}
		case "elem-offset", "elem-init":
			tn := fmt.Sprintf("tisnull%d", p.Table)
			if _, ok := in.lay.ByName[tn]; !ok {
				continue
			}
			g.call(in, tn, uint64(p.Slot))
			st := &g.sc.Steps[len(g.sc.Steps)-1]
			if (p.PrevRef.fn == nil) != (p.Want.fn == nil) {
				st.Alt, st.AltName = []uint64{b2u(p.PrevRef.fn == nil)}, "stale-value"
			}
			if p.Want.fn != nil {
				g.call(in, fmt.Sprintf("tcall%d", p.Table), uint64(p.Slot), 1)
				if p.PrevRef.fn != p.Want.fn {
					g.count("capture_discriminating_" + p.Site + "_" + mutName(p.Mutable))
				}
			}
		}
	}
	// passive segment items that read a mutable imported funcref global: table.init one of them and look at it
	if pe := in.lay.PassElem; pe >= 0 {
		e := in.spec.Elems[pe]
		name := fmt.Sprintf("tinit%d", e.Table)
		if _, ok := in.lay.ByName[name]; ok && len(in.tabs[e.Table].slots) > 0 {
			for k, it := range e.Items {
				if it.Kind != "global" || !in.globs[it.Ref].typ.Mutable {
					continue
				}
				g.override, g.suffix = "const-expr:global.get-mutable-import", "site=passive-elem-init"
				g.count("capture_passive-elem-init_mutable")
				g.call(in, name, 0, uint64(k), 1)
				g.refProbe(in, e.Table, 0)
				break
			}
		}
	}
}

// refProbe observes which function sits in a funcref table slot.
func (g *gen) refProbe(in *mInst, table int, slot uint32) {
	g.call(in, fmt.Sprintf("tisnull%d", table), uint64(slot))
	if t := in.tabs[table]; int(slot) < len(t.slots) && t.slots[slot].fn != nil {
		x := uint64(1)
		if eff := g.resolve(t.slots[slot].fn); eff.host == "hgrow" || (eff.host == "" && (eff.sem.Op == "mgrow" || eff.sem.Op == "tgrow")) {
			x = 0 // an imported grow function sits in the table: observing it must not grow anything
		}
		g.call(in, fmt.Sprintf("tcall%d", table), uint64(slot), x)
		if _, ok := in.lay.ByName[fmt.Sprintf("rtcall%d", table)]; ok {
			g.call(in, fmt.Sprintf("rtcall%d", table), uint64(slot), x)
		}
	}
}

// ---------------------------------------------------------------------------
// argument generation

func (g *gen) addr(mem *mMem) uint32 {
	if mem == nil {
		return 0
	}
	size := uint32(len(mem.data))
	switch x := g.r.Intn(10); {
	case x < 4 && len(g.hot) > 0:
		return g.hot[g.r.Intn(len(g.hot))]
	case x < 6:
		return uint32(g.r.Intn(64))
	case x < 8:
		return size - 9 + uint32(g.r.Intn(12))
	case x < 9:
		return uint32(g.r.Intn(int(size/pageSize)+2))*pageSize - 4 + uint32(g.r.Intn(8))
	}
	return uint32(g.r.Intn(int(size) + pageSize))
}

func (g *gen) slot(t *mTab) uint64 { return uint64(g.r.Intn(len(t.slots) + 2)) }

func (g *gen) val(t wenc.ValType) []uint64 {
	switch t {
	case wenc.I32:
		return []uint64{uint64(g.r.I32())}
	case wenc.I64:
		return []uint64{g.r.I64()}
	case wenc.F32:
		return []uint64{uint64(g.r.F32())}
	case wenc.F64:
		return []uint64{g.r.F64()}
	case wenc.V128:
		return []uint64{g.r.U64(), g.r.U64()}
	case wenc.ExternRef:
		return []uint64{uint64(g.r.Intn(4)) * 0x1010}
	}
	return []uint64{0}
}

func (g *gen) argsFor(f *mFunc) []uint64 {
	if f.host == "" && isWrapper(f.sem.Op) {
		inner := g.argsFor(f.inst.funcs[f.sem.A])
		switch f.sem.Op {
		case "cim":
			a1, a2 := uint32(g.r.Intn(64)), g.addr(f.inst.mem)
			if g.r.Bool() { // the page that a grow by the callee would add
				a2 = uint32(len(f.inst.mem.data)) + uint32(g.r.Intn(16))
			}
			return append(inner, uint64(a1), uint64(a2))
		case "cit":
			return append(inner, g.slot(f.inst.tabs[f.sem.B]))
		}
		return inner
	}
	eff := g.resolve(f)
	in := eff.inst
	r := g.r
	if eff.host != "" {
		switch eff.host {
		case "hadd":
			return []uint64{uint64(r.I32())}
		case "hpeek":
			return []uint64{uint64(g.addr(in.mem))}
		case "hpoke":
			a := g.addr(in.mem)
			g.noteHot(a)
			return []uint64{uint64(a), uint64(1 + r.Intn(255))}
		case "hgrow":
			return []uint64{g.growN(in.mem)}
		}
	}
	s := eff.sem
	k := func() uint64 { return uint64(r.Intn(len(in.lay.Refable) + 1)) }
	small := func() uint64 { return uint64(r.Intn(5)) }
	switch s.Op {
	case "leaf0", "leaf1":
		return []uint64{uint64(r.Intn(1000))}
	case "leaf4":
		return []uint64{uint64(g.hopArg(in))}
	case "leaf2":
		return []uint64{uint64(g.addr(in.mem))}
	case "leaf3", "gget", "msize", "tsize":
		return nil
	case "gset":
		return g.val(in.globs[s.A].typ.Type)
	case "gsetf":
		return []uint64{k()}
	case "galias":
		return g.val(in.globs[s.A].typ.Type)
	case "talias":
		return []uint64{g.slot(in.tabs[s.A]), k()}
	case "tgalias":
		n := uint64(r.Intn(3))
		if len(in.tabs[s.A].slots) > 12 {
			n = 0
		}
		return []uint64{n}
	case "g2t":
		return []uint64{g.slot(in.tabs[s.B])}
	case "ld8", "ld32", "ld64":
		return []uint64{uint64(g.addr(in.mem))}
	case "ld8far":
		return []uint64{uint64(g.addr(in.mem) - pageSize)}
	case "st8":
		a := g.addr(in.mem)
		g.noteHot(a)
		return []uint64{uint64(a), uint64(1 + r.Intn(255))}
	case "st32":
		a := g.addr(in.mem)
		g.noteHot(a)
		return []uint64{uint64(a), uint64(r.U32() | 0x01010101)}
	case "st64":
		a := g.addr(in.mem)
		g.noteHot(a)
		g.noteHot(a + 7)
		return []uint64{uint64(a), r.U64() | 0x0101010101010101}
	case "mgrow":
		return []uint64{g.growN(in.mem)}
	case "mfill":
		a := g.addr(in.mem)
		g.noteHot(a)
		return []uint64{uint64(a), uint64(1 + r.Intn(255)), uint64(r.Intn(12))}
	case "mcopy":
		d := g.addr(in.mem)
		g.noteHot(d)
		return []uint64{uint64(d), uint64(g.addr(in.mem)), uint64(r.Intn(12))}
	case "minit":
		d := g.addr(in.mem)
		g.noteHot(d)
		n := len(in.passData[s.A])
		return []uint64{uint64(d), uint64(r.Intn(n + 1)), uint64(r.Intn(n + 2))}
	case "tgrow":
		n := uint64(r.Intn(3))
		if len(in.tabs[s.A].slots) > 12 {
			n = 0
		}
		return []uint64{n, k()}
	case "xgrow":
		n := uint64(r.Intn(3))
		if len(in.tabs[s.A].slots) > 12 {
			n = 0
		}
		return []uint64{n, g.val(wenc.ExternRef)[0]}
	case "tset":
		return []uint64{g.slot(in.tabs[s.A]), k()}
	case "xset":
		return []uint64{g.slot(in.tabs[s.A]), g.val(wenc.ExternRef)[0]}
	case "xget", "tisnull":
		return []uint64{g.slot(in.tabs[s.A])}
	case "tcall", "rtcall":
		// the argument suits whatever sits in the slot (a leaf, or an imported accessor such as another module's mgrow)
		sl := g.slot(in.tabs[s.A])
		x := uint64(g.leafArg())
		if t := in.tabs[s.A]; sl < uint64(len(t.slots)) && t.slots[sl].fn != nil {
			if fn := t.slots[sl].fn; string(fn.typ.Params) == string(tI32) && string(fn.typ.Results) == string(tI32) {
				if eff := g.resolve(fn); eff.host != "" || !strings.HasPrefix(eff.sem.Op, "leaf") || eff.sem.Op == "leaf4" {
					x = g.argsFor(fn)[0]
				}
			}
		}
		return []uint64{sl, x}
	case "tfill":
		return []uint64{g.slot(in.tabs[s.A]), k(), small()}
	case "tcopy":
		return []uint64{g.slot(in.tabs[s.A]), g.slot(in.tabs[s.A]), small()}
	case "tinit":
		n := len(in.passElem[s.B])
		return []uint64{g.slot(in.tabs[s.A]), uint64(r.Intn(n + 1)), uint64(r.Intn(n + 2))}
	}
	panic("argsFor: " + s.Op)
}

// initPrivate gives the instance-local state of `in` (its own memory and first own mutable numeric global)
// values that depend on the instance, so that sibling instances of one compiled module differ.
func (g *gen) initPrivate(in *mInst, salt int) {
	for gi := in.lay.NImpG; gi < len(in.globs); gi++ {
		if t := in.globs[gi].typ; t.Mutable && (t.Type == wenc.I32 || t.Type == wenc.I64) {
			g.call(in, fmt.Sprintf("gset%d", gi), uint64(1000*salt+gi))
			break
		}
	}
	if in.spec.Mem != nil && len(in.mem.data) > 0 {
		for _, a := range []uint32{1, 7, 33} {
			g.call(in, "st8", uint64(a), uint64(0x10*salt+int(a))&0xff|1)
			g.noteHot(a)
		}
	}
}

// hopArg builds an argument for L4 (a chain of up to three hops through the table of `in`, then a small value)
// whose walk, in the current state, never hands a large number to a grow function sitting in a table.
func (g *gen) hopArg(in *mInst) uint32 {
	if in.lay.FT0 < 0 {
		return uint32(g.r.Intn(1000))
	}
	for try := 0; try < 6; try++ {
		x := uint32(0)
		n := 1 + g.r.Intn(3)
		x = uint32(1 + g.r.Intn(200)) // what the last callee gets
		for i := 0; i < n; i++ {
			x = x<<8 | uint32(g.slot(in.tabs[in.lay.FT0]))&0xff
		}
		if g.hopSafe(in, x) {
			return x
		}
	}
	return 0
}

func (g *gen) hopSafe(in *mInst, x uint32) bool {
	for hops := 0; hops < 8; hops++ {
		if x == 0 || in.lay.FT0 < 0 {
			return true
		}
		t := in.tabs[in.lay.FT0]
		slot, arg := x&0xff, x>>8
		if slot >= uint32(len(t.slots)) || t.slots[slot].fn == nil {
			return true
		}
		fn := t.slots[slot].fn
		if string(fn.typ.Params) != string(tI32) || string(fn.typ.Results) != string(tI32) {
			return true
		}
		eff := g.resolve(fn)
		if eff.host == "hgrow" || (eff.host == "" && (eff.sem.Op == "mgrow" || eff.sem.Op == "tgrow")) {
			return arg <= 2
		}
		if eff.host != "" || eff.sem.Op != "leaf4" {
			return true
		}
		in, x = eff.inst, arg
	}
	return false
}

// leafArg: an argument that is meaningful whichever leaf is called (leaf2 uses it as an address).
func (g *gen) leafArg() uint32 {
	if len(g.hot) > 0 && g.r.Bool() {
		return g.hot[g.r.Intn(len(g.hot))]
	}
	return uint32(g.r.Intn(200))
}

func (g *gen) growN(mem *mMem) uint64 {
	if mem == nil || mem.pages() >= 6 {
		return 0
	}
	return uint64(g.r.Intn(3))
}

// randomOp performs one PRNG-chosen operation through a PRNG-chosen instance.
func (g *gen) randomOp() {
	in := g.live[g.r.Intn(len(g.live))]
	if g.r.Chance(1, 5) {
		g.randomAPI(in)
		return
	}
	var names []int
	for i, f := range in.lay.Funcs {
		if f.Name != "" && (i >= in.lay.NImpF || g.apiReexports) {
			names = append(names, i)
		}
	}
	if len(names) == 0 {
		return
	}
	fi := names[g.r.Intn(len(names))]
	g.call(in, in.lay.Funcs[fi].Name, g.argsFor(in.funcs[fi])...)
	if fi < in.lay.NImpF {
		// a re-exported import called through the host API: look at everything it may have touched right away,
		// so that a wrong callee is attributed to this call
		g.sweepUnder("reexported-import:after-call:")
	} else if strings.Contains(g.sc.Steps[len(g.sc.Steps)-1].Tag, "via-reexport-chain:") {
		g.sweepUnder("via-reexport-chain:after-call:")
	}
}

func (g *gen) sweepUnder(prefix string) {
	save, sh := g.prefix, g.sweepHot
	g.prefix += prefix
	g.sweepHot = 64
	g.sweep()
	g.prefix, g.sweepHot = save, sh
}

func (g *gen) randomAPI(in *mInst) {
	r := g.r
	if in.mem != nil && r.Bool() {
		switch r.Intn(9) {
		case 0:
			g.api(in, "mem.size")
		case 1:
			g.api(in, "mem.grow", g.growN(in.mem))
		case 2, 3:
			g.api(in, []string{"mem.read8", "mem.read32", "mem.read64"}[r.Intn(3)], uint64(g.addr(in.mem)))
		case 4:
			g.api(in, "mem.exported")
		default:
			g.api(in, []string{"mem.write8", "mem.write32", "mem.write64"}[r.Intn(3)], uint64(g.addr(in.mem)), r.U64()|0x0101010101010101)
		}
		return
	}
	if len(in.globs) == 0 {
		return
	}
	gi := r.Intn(len(in.globs))
	gl := in.globs[gi]
	if gl.typ.Type == wenc.FuncRef || gl.typ.Type == wenc.V128 {
		g.api(in, "global.mutable", uint64(gi))
		return
	}
	switch {
	case gl.typ.Mutable && r.Bool():
		g.api(in, "global.set", uint64(gi), g.val(gl.typ.Type)[0])
	case r.Chance(1, 4) && (gl.typ.Type == wenc.I32 || gl.typ.Type == wenc.I64):
		g.api(in, "global.string", uint64(gi))
	default:
		g.api(in, "global.get", uint64(gi))
	}
}

// sweep reads the whole shared state through every live instance.
func (g *gen) sweep() {
	save := g.prefix
	g.prefix += "sweep:"
	defer func() { g.prefix = save }()
	for _, in := range g.live {
		for gi, gl := range in.globs {
			switch gl.typ.Type {
			case wenc.FuncRef:
				continue
			case wenc.V128:
				g.call(in, fmt.Sprintf("gget%d", gi))
				continue
			}
			g.call(in, fmt.Sprintf("gget%d", gi))
			g.api(in, "global.get", uint64(gi))
			if gl.typ.Type == wenc.I32 || gl.typ.Type == wenc.I64 {
				g.api(in, "global.string", uint64(gi))
			}
		}
		if in.mem != nil {
			g.call(in, "msize")
			g.api(in, "mem.size")
			for i := 0; i < len(g.hot) && i < g.sweepHot; i++ {
				a := g.hot[len(g.hot)-1-i]    // most recent first
				g.call(in, "ld64", uint64(a)) // the widest store; near the end of memory this traps, so:
				if uint64(a)+8 > uint64(len(in.mem.data)) {
					g.call(in, "ld8", uint64(a))
				}
				if i%3 == 0 {
					g.api(in, "mem.read8", uint64(a))
				}
			}
		}
		for ti, t := range in.tabs {
			if t.decl.Elem == wenc.FuncRef {
				g.call(in, fmt.Sprintf("tsize%d", ti))
				for s := 0; s < len(t.slots) && s < 10; s++ {
					g.refProbe(in, ti, uint32(s))
				}
			} else {
				g.call(in, fmt.Sprintf("xsize%d", ti))
				for s := 0; s < len(t.slots) && s < 6; s++ {
					g.call(in, fmt.Sprintf("xget%d", ti), uint64(s))
				}
			}
		}
	}
}

// ---------------------------------------------------------------------------
// module generation

type expRef struct {
	in   *mInst
	name string
	e    mExport
}

func (g *gen) pool(kind byte, ok func(mExport) bool) []expRef {
	var out []expRef
	for _, in := range g.live {
		var names []string
		for n := range in.exports {
			names = append(names, n)
		}
		sort.Strings(names)
		for _, n := range names {
			e := in.exports[n]
			if e.kind == kind && (ok == nil || ok(e)) {
				out = append(out, expRef{in, n, e})
			}
		}
	}
	return out
}

// funcPool: exported functions importable by the next module; with noChains, functions that the exporting
// module itself imported are left out.
func (g *gen) funcPool() []expRef {
	all := g.pool(wenc.ExtFunc, nil)
	if !g.noChains {
		return all
	}
	var out []expRef
	for _, x := range all {
		if x.e.fn.inst == x.in {
			out = append(out, x)
		}
	}
	return out
}

var allValTypes = []wenc.ValType{wenc.I32, wenc.I64, wenc.F32, wenc.F64, wenc.V128, wenc.FuncRef, wenc.ExternRef}

func (g *gen) compatLimits(decl wenc.Limits, cur uint32, minCap uint32) wenc.Limits {
	l := wenc.Limits{Shared: decl.Shared}
	if minCap > cur {
		minCap = cur
	}
	l.Min = uint32(g.r.Intn(int(minCap) + 1))
	if decl.HasMax && (g.r.Bool() || decl.Shared) {
		l.HasMax, l.Max = true, decl.Max+uint32(g.r.Intn(2))
	}
	return l
}

// genModule generates a module whose imports are satisfiable by the live instances.
func (g *gen) genModule(name string) *ModSpec {
	r := g.r
	first := len(g.live) == 0
	spec := &ModSpec{Name: name, ID: g.nextID, Tail: g.tail}
	g.nextID++
	nImpG, nTab := 0, 0
	var impGlobs []*mGlob
	var tabs []*mTab // model objects of imported tables, nil for defined
	var tabTypes []wenc.TableType
	// function imports
	if g.sc.Host {
		for _, h := range []string{"hadd", "hpeek", "hpoke", "hgrow"} {
			if r.Chance(1, 3) {
				spec.Imports = append(spec.Imports, ImportSpec{Mod: "env", Name: h, Host: true, Ext: Ext{Kind: wenc.ExtFunc, Func: hostTypes[h]}})
			}
		}
	}
	if fp := g.funcPool(); len(fp) > 0 {
		var mut []expRef // functions that grow or write a shared object: what the call-then-read wrappers are about
		for _, x := range fp {
			if x.e.fn.host == "" && x.e.fn.inst == x.in {
				switch x.e.fn.sem.Op {
				case "mgrow", "tgrow", "gset", "st8", "tset":
					mut = append(mut, x)
				}
			}
		}
		for n := r.Intn(4); n > 0; n-- {
			x := fp[r.Intn(len(fp))]
			if len(mut) > 0 && r.Bool() {
				x = mut[r.Intn(len(mut))]
			}
			spec.Imports = append(spec.Imports, ImportSpec{Mod: x.in.name, Name: x.name, Ext: Ext{Kind: wenc.ExtFunc, Func: x.e.fn.typ}})
		}
	}
	// memory
	var mem *mMem
	memSize := uint32(0)
	if mp := g.pool(wenc.ExtMemory, nil); len(mp) > 0 && r.Chance(6, 10) {
		x := mp[r.Intn(len(mp))]
		mem = x.e.mem
		memSize = uint32(len(mem.data))
		spec.Imports = append(spec.Imports, ImportSpec{Mod: x.in.name, Name: x.name, Ext: Ext{Kind: wenc.ExtMemory, Mem: g.compatLimits(mem.decl, mem.pages(), 8)}})
	} else if first || r.Chance(8, 10) {
		l := wenc.Limits{Min: uint32(r.Intn(3))}
		if first && l.Min == 0 && r.Bool() {
			l.Min = 1
		}
		if r.Bool() {
			l.HasMax, l.Max = true, l.Min+uint32(r.Intn(3))
		}
		if g.sc.Threads && r.Bool() {
			l.Shared = true
			if !l.HasMax {
				l.HasMax, l.Max = true, l.Min+1
			}
		}
		spec.Mem = &l
		memSize = l.Min * pageSize
	}
	hasMem := mem != nil || spec.Mem != nil
	// tables: imports first
	tp := g.pool(wenc.ExtTable, nil)
	wantFunc := first || r.Chance(9, 10)
	wantExt := r.Chance(3, 10)
	var defined []wenc.TableType
	for _, want := range []struct {
		on   bool
		elem wenc.ValType
	}{{wantFunc, wenc.FuncRef}, {wantExt, wenc.ExternRef}} {
		if !want.on {
			continue
		}
		var cands []expRef
		for _, x := range tp {
			if x.e.tab.decl.Elem == want.elem {
				cands = append(cands, x)
			}
		}
		if len(cands) > 0 && r.Chance(6, 10) {
			x := cands[r.Intn(len(cands))]
			// the import minimum stays within the DECLARED minimum: a larger one that the current
			// size satisfies is exercised by the matching matrix (wazero rejects it; information only)
			tt := wenc.TableType{Elem: want.elem, Lim: g.compatLimits(x.e.tab.decl.Lim, uint32(len(x.e.tab.slots)), x.e.tab.decl.Lim.Min)}
			spec.Imports = append(spec.Imports, ImportSpec{Mod: x.in.name, Name: x.name, Ext: Ext{Kind: wenc.ExtTable, Table: tt}})
			tabs = append(tabs, x.e.tab)
			tabTypes = append(tabTypes, tt)
			if r.Chance(1, 5) { // the same table once more under another index
				spec.Imports = append(spec.Imports, spec.Imports[len(spec.Imports)-1])
				tabs = append(tabs, x.e.tab)
				tabTypes = append(tabTypes, tt)
				g.count("same_table_imported_twice")
			}
		} else {
			tt := wenc.TableType{Elem: want.elem, Lim: wenc.Limits{Min: uint32(1 + r.Intn(4))}}
			if r.Bool() {
				tt.Lim.HasMax, tt.Lim.Max = true, tt.Lim.Min+uint32(r.Intn(4))
			}
			defined = append(defined, tt)
		}
	}
	for _, tt := range defined {
		tabs = append(tabs, nil)
		tabTypes = append(tabTypes, tt)
	}
	spec.Tables = defined
	nTab = len(tabTypes)
	tabSize := func(i int) int {
		if tabs[i] != nil {
			return len(tabs[i].slots)
		}
		return int(tabTypes[i].Lim.Min)
	}
	// global imports
	if gp := g.pool(wenc.ExtGlobal, nil); len(gp) > 0 {
		for n := r.Intn(4); n > 0; n-- {
			x := gp[r.Intn(len(gp))]
			spec.Imports = append(spec.Imports, ImportSpec{Mod: x.in.name, Name: x.name, Ext: Ext{Kind: wenc.ExtGlobal, Global: x.e.glob.typ}})
			impGlobs = append(impGlobs, x.e.glob)
		}
	}
	// the same global once more under another index (writes through one index are reads through the other)
	if len(impGlobs) > 0 && r.Chance(1, 3) {
		k := r.Intn(len(impGlobs))
		n := 0
		for _, im := range spec.Imports {
			if im.Ext.Kind == wenc.ExtGlobal {
				if n == k {
					spec.Imports = append(spec.Imports, im)
					impGlobs = append(impGlobs, impGlobs[k])
					g.count("same_global_imported_twice")
					break
				}
				n++
			}
		}
	}
	nImpG = len(impGlobs)
	usable := func(gl *mGlob) bool { return !gl.typ.Mutable || g.lenient }
	// number of refable functions: 4 leaves + imported functions (see BuildLayout)
	nRef := 4
	if spec.Tail {
		nRef = 5 // L4
	}
	for _, im := range spec.Imports {
		if im.Ext.Kind == wenc.ExtFunc && (!im.Host || im.Name == "hadd") {
			nRef++
		}
	}
	// defined globals
	nDef := 1 + r.Intn(3)
	if first {
		nDef = 2 + r.Intn(4)
	}
	for i := 0; i < nDef; i++ {
		t := allValTypes[r.Intn(len(allValTypes))]
		if first && i == 0 {
			t = wenc.I32 // something every importer can use as an offset
		}
		gs := GlobalSpec{Type: wenc.GlobalType{Type: t, Mutable: r.Bool()}, Init: "const"}
		v := g.val(t)
		gs.Lo = v[0]
		if len(v) > 1 {
			gs.Hi = v[1]
		}
		if t == wenc.I32 && r.Bool() {
			gs.Lo = uint64(r.Intn(48)) // plausible offsets
		}
		if t == wenc.FuncRef {
			gs.Init, gs.Lo = "null", 0
			if r.Chance(2, 3) {
				gs.Init, gs.Ref = "reffunc", r.Intn(nRef)
			}
		}
		if t == wenc.ExternRef {
			gs.Init, gs.Lo = "null", 0
		}
		var src []int
		for j, ig := range impGlobs {
			if ig.typ.Type == t && usable(ig) {
				src = append(src, j)
			}
		}
		if len(src) > 0 && r.Chance(2, 3) {
			gs.Init, gs.Ref, gs.Lo, gs.Hi = "global", src[r.Intn(len(src))], 0, 0
		}
		spec.Globals = append(spec.Globals, gs)
	}
	_ = nImpG
	// offsets through imported i32 globals
	offVia := func(limit int, n int) (SegOff, bool) {
		var c []int
		for j, ig := range impGlobs {
			// for a mutable import the value at its creation must be in range too: a stale read then
			// shows up as a wrong capture (named signature) and not as a failed instantiation
			if ig.typ.Type == wenc.I32 && usable(ig) && int(uint32(ig.lo))+n <= limit && int32(ig.lo) >= 0 &&
				(!ig.typ.Mutable || (int(uint32(ig.initLo))+n <= limit && int32(ig.initLo) >= 0)) {
				c = append(c, j)
			}
		}
		if len(c) == 0 || !r.Chance(2, 3) {
			return SegOff{}, false
		}
		return SegOff{Global: c[r.Intn(len(c))]}, true
	}
	// data segments
	if hasMem {
		for n := r.Intn(3); n > 0; n-- {
			b := make([]byte, 1+r.Intn(8))
			for i := range b {
				b[i] = byte(1 + r.Intn(255))
			}
			if int(memSize) < len(b) {
				continue
			}
			off, ok := offVia(int(memSize), len(b))
			if !ok {
				a := uint32(r.Intn(int(memSize) - len(b) + 1))
				if r.Bool() {
					a = uint32(r.Intn(64))
					if int(a)+len(b) > int(memSize) {
						a = 0
					}
				}
				off = SegOff{Global: -1, Const: int32(a)}
			}
			spec.Datas = append(spec.Datas, DataSpec{Off: off, Bytes: b})
		}
		if r.Bool() {
			b := make([]byte, 2+r.Intn(6))
			for i := range b {
				b[i] = byte(1 + r.Intn(255))
			}
			spec.Datas = append(spec.Datas, DataSpec{Passive: true, Bytes: b})
		}
	}
	// element segments
	nullOdds := 30 // ref.null items in active segments are rare (see elem-null-item); passive segments have more
	item := func() ElemItem {
		switch x := r.Intn(10); {
		case x < 6:
			return ElemItem{Kind: "func", Ref: r.Intn(nRef)}
		case x < 7:
			if r.Chance(3, nullOdds) {
				return ElemItem{Kind: "null"}
			}
			return ElemItem{Kind: "func", Ref: r.Intn(nRef)}
		}
		var c []int
		for j, ig := range impGlobs {
			if ig.typ.Type == wenc.FuncRef && usable(ig) {
				c = append(c, j)
			}
		}
		if len(c) == 0 {
			return ElemItem{Kind: "func", Ref: r.Intn(nRef)}
		}
		return ElemItem{Kind: "global", Ref: c[r.Intn(len(c))]}
	}
	for ti := 0; ti < nTab; ti++ {
		if tabTypes[ti].Elem != wenc.FuncRef {
			if tabSize(ti) > 0 && r.Chance(1, 3) {
				spec.Elems = append(spec.Elems, ElemSpec{Table: ti, Off: SegOff{Global: -1, Const: int32(r.Intn(tabSize(ti)))}, Items: []ElemItem{{Kind: "null"}}})
			}
			continue
		}
		for n := r.Intn(3); n > 0; n-- {
			cnt := 1 + r.Intn(3)
			if tabSize(ti) < cnt {
				continue
			}
			off, ok := offVia(tabSize(ti), cnt)
			if !ok {
				off = SegOff{Global: -1, Const: int32(r.Intn(tabSize(ti) - cnt + 1))}
			}
			e := ElemSpec{Table: ti, Off: off}
			for i := 0; i < cnt; i++ {
				e.Items = append(e.Items, item())
			}
			spec.Elems = append(spec.Elems, e)
		}
	}
	for ti := 0; ti < nTab; ti++ {
		if tabTypes[ti].Elem == wenc.FuncRef && r.Bool() {
			nullOdds = 3
			e := ElemSpec{Passive: true, Table: ti}
			for i := 2 + r.Intn(3); i > 0; i-- {
				e.Items = append(e.Items, item())
			}
			spec.Elems = append(spec.Elems, e)
			break
		}
	}
	// start function
	if r.Chance(1, 4) {
		spec.Start = g.genStart(spec, memSize, tabTypes, tabSize, nRef, impGlobs)
	}
	spec.HideImportedTables = r.Chance(1, 4)
	// the import section lists the kinds in PRNG order (function indexes are not import-section positions)
	if r.Chance(2, 3) {
		spec.Imports = interleaveImports(r, spec.Imports, r.Bool())
		g.count("modules_with_interleaved_import_section")
	}
	return spec
}

func (g *gen) genStart(spec *ModSpec, memSize uint32, tabTypes []wenc.TableType, tabSize func(int) int, nRef int, impGlobs []*mGlob) *StartSpec {
	r := g.r
	st := &StartSpec{}
	for n := 1 + r.Intn(3); n > 0; n-- {
		switch r.Intn(3) {
		case 0:
			if memSize > 0 {
				a := r.Intn(int(memSize))
				if r.Bool() {
					a = r.Intn(64)
				}
				st.Acts = append(st.Acts, StartAct{Kind: "st8", A: a, B: 1 + r.Intn(255)})
				g.noteHot(uint32(a))
			}
		case 1:
			// a mutable i32/i64 global (imported or defined)
			var c []int
			for j, ig := range impGlobs {
				if ig.typ.Mutable && (ig.typ.Type == wenc.I32 || ig.typ.Type == wenc.I64) {
					c = append(c, j)
				}
			}
			for j, dg := range spec.Globals {
				if dg.Type.Mutable && (dg.Type.Type == wenc.I32 || dg.Type.Type == wenc.I64) {
					c = append(c, len(impGlobs)+j)
				}
			}
			if len(c) > 0 {
				st.Acts = append(st.Acts, StartAct{Kind: "gset", A: c[r.Intn(len(c))], V: uint64(r.Intn(40))})
			}
		default:
			for ti, tt := range tabTypes {
				if tt.Elem == wenc.FuncRef && tabSize(ti) > 0 {
					st.Acts = append(st.Acts, StartAct{Kind: "tset", A: ti, B: r.Intn(tabSize(ti)), C: r.Intn(nRef)})
					break
				}
			}
		}
	}
	return st
}
