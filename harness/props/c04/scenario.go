package c04

import (
	"context"
	"fmt"
	"runtime"
	"strings"

	"github.com/tetratelabs/wazero"
	"github.com/tetratelabs/wazero/api"
	"github.com/tetratelabs/wazero/experimental"
	"github.com/tetratelabs/wazero/verifharness/wenc"
	"github.com/tetratelabs/wazero/verifharness/wrun"
)

// ---------------------------------------------------------------------------
// A scenario is a list of module specs and a list of steps with the model's
// prediction attached to every step. It is produced once (generator + model)
// and then executed on each engine.

type Step struct {
	Kind    string   `json:"kind"` // inst | call | api | gc
	Inst    string   `json:"inst,omitempty"`
	Fn      string   `json:"fn,omitempty"`
	Args    []uint64 `json:"args,omitempty"`
	Mod     int      `json:"mod,omitempty"` // inst: index into Scenario.Mods
	Exp     []uint64 `json:"exp,omitempty"`
	ExpErr  string   `json:"exp_err,omitempty"` // trap class; inst: "fail:<kind>"
	RT      []byte   `json:"rt,omitempty"`
	Tag     string   `json:"tag"`
	Suffix  string   `json:"suffix,omitempty"`
	Alt     []uint64 `json:"alt,omitempty"`
	AltName string   `json:"alt_name,omitempty"`
	NoExp   bool     `json:"no_exp,omitempty"` // only compared between the engines
	Soft    bool     `json:"soft,omitempty"`   // a mismatch is reported but the run continues (read-only probes)
	// inst: an experimental.ImportResolver is put into the instantiation context; it answers Resolve[name]
	// (an instance name) and declines (returns nil for) every other import module name
	Resolver bool              `json:"resolver,omitempty"`
	Resolve  map[string]string `json:"resolve,omitempty"`
}

type Scenario struct {
	Name      string     `json:"name"`
	Mods      []*ModSpec `json:"mods"`
	Steps     []Step     `json:"steps"`
	PageLimit uint32     `json:"page_limit"`
	Threads   bool       `json:"threads"`
	Host      bool       `json:"host"`
	Tail      bool       `json:"tail"` // tail-call feature enabled
}

// Obs is what one engine showed for one step.
type Obs struct {
	Res []uint64 `json:"res,omitempty"`
	Err string   `json:"err,omitempty"`
	Str string   `json:"str,omitempty"`
}

func (s *Step) String() string {
	switch s.Kind {
	case "inst":
		e := "ok"
		if s.ExpErr != "" {
			e = s.ExpErr
		}
		return fmt.Sprintf("instantiate %s (mods[%d]) => expect %s", s.Inst, s.Mod, e)
	case "gc":
		return "runtime.GC()"
	}
	e := fmt.Sprintf("%#x", s.Exp)
	if s.ExpErr != "" {
		e = s.ExpErr
	}
	if s.NoExp {
		e = "(engines must agree)"
	}
	return fmt.Sprintf("%s %s.%s(%#x) => expect %s [%s]", s.Kind, s.Inst, s.Fn, s.Args, e, s.Tag)
}

func (o Obs) String() string {
	if o.Err != "" {
		return o.Err
	}
	if o.Str != "" {
		return fmt.Sprintf("%q", o.Str)
	}
	return fmt.Sprintf("%#x", o.Res)
}

// ---------------------------------------------------------------------------
// engine side

type engineRun struct {
	ctx      context.Context
	rt       wazero.Runtime
	mods     map[string]api.Module
	bins     map[int][]byte
	cms      map[int]wazero.CompiledModule // one CompiledModule per module spec: sibling instances share it
	compiler bool
}

func engineName(compiler bool) string {
	if compiler {
		return "compiler"
	}
	return "interpreter"
}

func newEngineRun(sc *Scenario, compiler bool) (*engineRun, error) {
	ctx := context.Background()
	var cfg wazero.RuntimeConfig
	if compiler {
		cfg = wazero.NewRuntimeConfigCompiler()
	} else {
		cfg = wazero.NewRuntimeConfigInterpreter()
	}
	feat := api.CoreFeaturesV2
	if sc.Threads {
		feat |= experimental.CoreFeaturesThreads
	}
	if sc.Tail {
		feat |= experimental.CoreFeaturesTailCall
	}
	cfg = cfg.WithCoreFeatures(feat)
	if sc.PageLimit != 0 && sc.PageLimit != DefaultPageLimit {
		cfg = cfg.WithMemoryLimitPages(sc.PageLimit)
	}
	r := &engineRun{ctx: ctx, rt: wazero.NewRuntimeWithConfig(ctx, cfg), mods: map[string]api.Module{}, bins: map[int][]byte{}, cms: map[int]wazero.CompiledModule{}, compiler: compiler}
	if sc.Host {
		if err := instantiateHost(ctx, r.rt); err != nil {
			r.rt.Close(ctx)
			return nil, err
		}
	}
	return r, nil
}

func instantiateHost(ctx context.Context, rt wazero.Runtime) error {
	i32 := []api.ValueType{api.ValueTypeI32}
	b := rt.NewHostModuleBuilder("env")
	b.NewFunctionBuilder().WithGoModuleFunction(api.GoModuleFunc(func(_ context.Context, _ api.Module, st []uint64) {
		st[0] = uint64(uint32(st[0]) + hostAddConst)
	}), i32, i32).Export("hadd")
	b.NewFunctionBuilder().WithGoModuleFunction(api.GoModuleFunc(func(_ context.Context, mod api.Module, st []uint64) {
		mem := callerMemory(mod)
		if mem == nil {
			st[0] = 0xffffffff
			return
		}
		v, ok := mem.ReadByte(uint32(st[0]))
		if !ok {
			st[0] = 0xffffffff
			return
		}
		st[0] = uint64(v)
	}), i32, i32).Export("hpeek")
	b.NewFunctionBuilder().WithGoModuleFunction(api.GoModuleFunc(func(_ context.Context, mod api.Module, st []uint64) {
		if mem := callerMemory(mod); mem != nil {
			mem.WriteByte(uint32(st[0]), byte(st[1]))
		}
	}), []api.ValueType{api.ValueTypeI32, api.ValueTypeI32}, nil).Export("hpoke")
	b.NewFunctionBuilder().WithGoModuleFunction(api.GoModuleFunc(func(_ context.Context, mod api.Module, st []uint64) {
		mem := callerMemory(mod)
		if mem == nil {
			st[0] = 0xffffffff
			return
		}
		prev, ok := mem.Grow(uint32(st[0]))
		if !ok {
			st[0] = 0xffffffff
			return
		}
		st[0] = uint64(prev)
	}), i32, i32).Export("hgrow")
	_, err := b.Instantiate(ctx)
	return err
}

// callerMemory: the calling module's memory. Module.Memory() hands out a non-nil interface around a nil
// pointer for a module without memory, so the exported name is used (every generated module exports "mem").
func callerMemory(mod api.Module) api.Memory {
	if m := mod.ExportedMemory("mem"); m != nil {
		return m
	}
	return nil
}

var churnSink [][]byte

var churnModule = func() []byte {
	m := &wenc.Module{}
	m.Mems = []wenc.Limits{{Min: 1}}
	m.Tables = []wenc.TableType{{Elem: wenc.FuncRef, Lim: wenc.Limits{Min: 8}}}
	f := m.AddFunc(nil, []wenc.ValType{wenc.I32}, nil, (&wenc.Code{}).I32Const(7).End().B)
	m.ExportFunc("f", f)
	m.Elems = []wenc.Elem{{Offset: wenc.ConstI32(0), FuncIdx: []uint32{f, f, f}}}
	return m.Encode()
}()

// gcWithChurn: two garbage collections with allocation churn and a couple of fresh instantiations in between,
// so that memory of objects that are no longer referenced is actually reused.
func (r *engineRun) gcWithChurn() {
	runtime.GC()
	churnSink = churnSink[:0]
	for i := 0; i < 768; i++ { // ~3 MiB of page-sized objects
		b := make([]byte, 4096)
		b[i%4096] = byte(i)
		churnSink = append(churnSink, b)
	}
	for i := 0; i < 2; i++ {
		if mod, err := r.rt.InstantiateWithConfig(r.ctx, churnModule, wazero.NewModuleConfig().WithName("")); err == nil {
			mod.ExportedFunction("f").Call(r.ctx)
			mod.Close(r.ctx)
		}
	}
	churnSink = nil
	runtime.GC()
	runtime.GC()
}

func (r *engineRun) close() { r.rt.Close(r.ctx) }

func firstLine(s string) string {
	if i := strings.IndexByte(s, '\n'); i >= 0 {
		return s[:i]
	}
	return s
}

func (r *engineRun) exec(sc *Scenario, st *Step) (o Obs) {
	defer func() {
		if p := recover(); p != nil {
			o = Obs{Err: "PANIC:" + firstLine(fmt.Sprint(p))}
		}
	}()
	switch st.Kind {
	case "gc":
		r.gcWithChurn()
		return Obs{}
	case "inst":
		bin, ok := r.bins[st.Mod]
		if !ok {
			bin, _ = Build(sc.Mods[st.Mod])
			r.bins[st.Mod] = bin
		}
		ctx := r.ctx
		if st.Resolver {
			ctx = experimental.WithImportResolver(ctx, func(name string) api.Module {
				if to, ok := st.Resolve[name]; ok {
					if mod := r.mods[to]; mod != nil {
						return mod
					}
				}
				return nil
			})
		}
		if st.ExpErr != "" {
			// expected to fail: instantiate from bytes, so that nobody (not even this harness) holds the
			// CompiledModule or anything else of the failed instance afterwards
			mod, err := r.rt.InstantiateWithConfig(ctx, bin, wazero.NewModuleConfig().WithName(st.Inst))
			if err != nil {
				return Obs{Err: "instantiate:" + firstLine(err.Error())}
			}
			r.mods[st.Inst] = mod
			return Obs{}
		}
		cm, ok := r.cms[st.Mod]
		if !ok {
			var err error
			cm, err = r.rt.CompileModule(r.ctx, bin)
			if err != nil {
				return Obs{Err: "compile:" + firstLine(err.Error())}
			}
			r.cms[st.Mod] = cm
		}
		mod, err := r.rt.InstantiateModule(ctx, cm, wazero.NewModuleConfig().WithName(st.Inst))
		if err != nil {
			return Obs{Err: "instantiate:" + firstLine(err.Error())}
		}
		r.mods[st.Inst] = mod
		return Obs{}
	case "call":
		mod := r.mods[st.Inst]
		if mod == nil {
			return Obs{Err: "no-instance"}
		}
		f := mod.ExportedFunction(st.Fn)
		if f == nil {
			return Obs{Err: "no-export"}
		}
		res, err := f.Call(r.ctx, st.Args...)
		if err != nil {
			return Obs{Err: wrun.ErrClass(err)}
		}
		return Obs{Res: append([]uint64(nil), res...)}
	case "api":
		mod := r.mods[st.Inst]
		if mod == nil {
			return Obs{Err: "no-instance"}
		}
		return r.apiOp(mod, st)
	}
	return Obs{Err: "bad-step"}
}

func (r *engineRun) apiOp(mod api.Module, st *Step) Obs {
	a := func(i int) uint32 { return uint32(st.Args[i]) }
	if strings.HasPrefix(st.Fn, "mem.") {
		mem := mod.Memory()
		if st.Fn == "mem.exported" {
			mem = mod.ExportedMemory("mem")
			if mem == nil {
				return Obs{Err: "no-exported-memory"}
			}
			return Obs{Res: []uint64{uint64(mem.Size())}}
		}
		if mem == nil {
			return Obs{Err: "no-memory"}
		}
		switch st.Fn {
		case "mem.size":
			return Obs{Res: []uint64{uint64(mem.Size())}}
		case "mem.grow":
			prev, ok := mem.Grow(a(0))
			return Obs{Res: []uint64{uint64(prev), b2u(ok)}}
		case "mem.read8":
			v, ok := mem.ReadByte(a(0))
			return Obs{Res: []uint64{uint64(v), b2u(ok)}}
		case "mem.read32":
			v, ok := mem.ReadUint32Le(a(0))
			return Obs{Res: []uint64{uint64(v), b2u(ok)}}
		case "mem.read64":
			v, ok := mem.ReadUint64Le(a(0))
			return Obs{Res: []uint64{v, b2u(ok)}}
		case "mem.write8":
			return Obs{Res: []uint64{b2u(mem.WriteByte(a(0), byte(st.Args[1])))}}
		case "mem.write32":
			return Obs{Res: []uint64{b2u(mem.WriteUint32Le(a(0), a(1)))}}
		case "mem.write64":
			return Obs{Res: []uint64{b2u(mem.WriteUint64Le(a(0), st.Args[1]))}}
		}
	}
	name := fmt.Sprintf("g%d", st.Args[0])
	g := mod.ExportedGlobal(name)
	if g == nil {
		return Obs{Err: "no-exported-global"}
	}
	switch st.Fn {
	case "global.get":
		return Obs{Res: []uint64{g.Get()}}
	case "global.string":
		return Obs{Str: g.String()}
	case "global.set":
		mg, ok := g.(api.MutableGlobal)
		if !ok {
			return Obs{Err: "not-mutable"}
		}
		mg.Set(st.Args[1])
		return Obs{}
	case "global.mutable":
		_, ok := g.(api.MutableGlobal)
		return Obs{Res: []uint64{b2u(ok)}}
	}
	return Obs{Err: "bad-api"}
}

// ---------------------------------------------------------------------------
// deciding

// mismatch compares an observation with the model's prediction; "" = equal.
func mismatch(st *Step, o Obs) string {
	if st.NoExp {
		return ""
	}
	if st.Kind == "inst" {
		switch {
		case st.ExpErr == "" && o.Err != "":
			return "unexpected-failure"
		case st.ExpErr != "" && o.Err == "":
			return "no-error"
		}
		return ""
	}
	if strings.HasPrefix(o.Err, "PANIC:") {
		return "host-panic"
	}
	if st.ExpErr != "" {
		if o.Err == "" {
			if st.AltName != "" && valsEqual(st.RT, st.Alt, o.Res) {
				return st.AltName
			}
			return "missing-trap"
		}
		if o.Err != st.ExpErr {
			return "wrong-trap"
		}
		return ""
	}
	if o.Err != "" {
		if strings.HasPrefix(o.Err, "trap:") {
			return "unexpected-trap"
		}
		return "unexpected-error"
	}
	if !valsEqual(st.RT, st.Exp, o.Res) {
		if st.AltName != "" && valsEqual(st.RT, st.Alt, o.Res) {
			return st.AltName
		}
		return "wrong-value"
	}
	return ""
}

func valsEqual(rt []byte, want, got []uint64) bool {
	typed := len(rt) > 0
	if len(want) != len(got) {
		return false
	}
	if !typed {
		for i := range want {
			if want[i] != got[i] {
				return false
			}
		}
		return true
	}
	p := 0
	for _, t := range rt {
		if p >= len(want) {
			return false
		}
		if t == wenc.V128 {
			if p+1 >= len(want) || want[p] != got[p] || want[p+1] != got[p+1] {
				return false
			}
			p += 2
			continue
		}
		if maskVal(t, want[p]) != maskVal(t, got[p]) {
			return false
		}
		p++
	}
	return p == len(want)
}

type Finding struct {
	Sig    string   `json:"sig"`
	Detail string   `json:"detail"`
	Step   int      `json:"step"`
	Trace  []string `json:"trace,omitempty"`
}

// runResult is one engine's run of a scenario.
type runResult struct {
	Obs      []Obs
	Mismatch int       // step index of the first deciding mismatch that stopped the run, -1
	Kind     string    // mismatch kind at that step
	Soft     []softMis // mismatching steps after which the run continued
	Info     string    // compatible import rejected (information, run stopped)
	Executed int
}

type softMis struct {
	Step int
	Kind string
	Obs  string
}

func runEngine(sc *Scenario, compiler bool) (rr runResult, err error) {
	r, err := newEngineRun(sc, compiler)
	if err != nil {
		return rr, err
	}
	defer r.close()
	rr.Mismatch = -1
	for i := range sc.Steps {
		st := &sc.Steps[i]
		o := r.exec(sc, st)
		rr.Obs = append(rr.Obs, o)
		rr.Executed++
		k := mismatch(st, o)
		if k == "" {
			continue
		}
		if st.Kind == "inst" {
			if k == "no-error" && st.ExpErr == "fail:elem-oob" {
				// wazero deliberately does not fail here; the instance it created is left alone and
				// the survivors keep being checked against the specification's state.
				rr.Soft = append(rr.Soft, softMis{i, k, o.String()})
				continue
			}
			if k == "unexpected-failure" && strings.Contains(o.Err, "import ") {
				rr.Info = o.Err
				return rr, nil
			}
			if k == "unexpected-failure" && st.Tag == "const-expr:global.get-mutable-import" && strings.HasPrefix(o.Err, "compile:") {
				// the module is invalid per the specification (global.get of a mutable global in a constant
				// expression); only IF it is accepted must it capture the current value
				rr.Info = "lenient-const-expr-rejected: " + o.Err
				return rr, nil
			}
		}
		if st.Soft {
			rr.Soft = append(rr.Soft, softMis{i, k, o.String()})
			continue
		}
		rr.Mismatch, rr.Kind = i, k
		return rr, nil
	}
	return rr, nil
}

func sigOf(st *Step, kind string) string {
	var sig string
	if st.Kind == "inst" {
		switch {
		case kind == "unexpected-failure":
			sig = "instantiate:unexpected-failure"
		case strings.HasPrefix(st.ExpErr, "fail:link:"):
			sig = "link:" + strings.TrimPrefix(st.ExpErr, "fail:link:") + ":accepted"
		case st.ExpErr == "fail:missing":
			sig = "link:missing-import:accepted"
		case st.ExpErr == "fail:elem-oob":
			sig = "instantiate:active-elem-segment-out-of-bounds:no-error"
		default:
			sig = "instantiate:" + strings.TrimPrefix(st.ExpErr, "fail:") + ":no-error"
		}
		if st.Tag != "" {
			sig = st.Tag + ":" + sig
		}
		return sig
	}
	return st.Tag + ":" + kind
}

func traceAround(sc *Scenario, obs []Obs, at int) []string {
	var out []string
	lo := at - 12
	if lo < 0 {
		lo = 0
	}
	for i := lo; i <= at && i < len(sc.Steps); i++ {
		got := "(not run)"
		if i < len(obs) {
			got = obs[i].String()
		}
		out = append(out, fmt.Sprintf("#%d %s => got %s", i, sc.Steps[i].String(), got))
	}
	return out
}

// decide runs the scenario on both engines and turns disagreements with the
// model (and between the engines) into findings.
type scenarioResult struct {
	Findings []Finding      `json:"findings,omitempty"`
	Info     []string       `json:"info,omitempty"`
	Counts   map[string]int `json:"counts"`
	Compared int            `json:"compared"` // step observations compared with the model (both engines)
	Err      string         `json:"err,omitempty"`
}

func decide(sc *Scenario) scenarioResult {
	res := scenarioResult{Counts: map[string]int{}}
	ri, err := runEngine(sc, false)
	if err != nil {
		res.Err = "interpreter runtime: " + err.Error()
		return res
	}
	rc, err := runEngine(sc, true)
	if err != nil {
		res.Err = "compiler runtime: " + err.Error()
		return res
	}
	res.Compared = ri.Executed + rc.Executed
	add := func(sig, detail string, step int, obs []Obs) {
		for _, f := range res.Findings {
			if f.Sig == sig {
				return
			}
		}
		res.Findings = append(res.Findings, Finding{Sig: sig, Detail: detail, Step: step, Trace: traceAround(sc, obs, step)})
	}
	report := func(step int, kind string, who string, obs []Obs) {
		st := &sc.Steps[step]
		sig := sigOf(st, kind) + ":" + who
		if strings.Contains(st.Tag, "reexported-import:") && who == "compiler" {
			// one root cause whatever the function does: the host API resolves a re-exported import to another function
			sig = "reexported-import:called-through-ExportedFunction:wrong-function:compiler"
		}
		if strings.Contains(st.Tag, "galias:") && who == "compiler" && (kind == "wrong-value" || kind == "missing-trap") {
			// one root cause wherever the accessor is reached from: the compiler's per-index cache of global values
			sig = "same-global-imported-twice:global.set-through-one-index:stale-global.get-through-the-other:compiler"
		}
		if strings.Contains(st.Tag, "via-reexport-chain:") && who == "compiler" {
			sig = "reexported-import:imported-by-third-module:wrong-function:compiler"
		}
		if st.Suffix != "" {
			sig += ":" + st.Suffix
		}
		add(sig, fmt.Sprintf("%s: step #%d %s => got %s", who, step, st.String(), obs[step].String()), step, obs)
	}
	// soft mismatches (run continued)
	for _, a := range ri.Soft {
		both := false
		for _, b := range rc.Soft {
			if a == b {
				both = true
			}
		}
		if both {
			report(a.Step, a.Kind, "both", ri.Obs)
		} else {
			report(a.Step, a.Kind, "interpreter", ri.Obs)
		}
	}
	for _, b := range rc.Soft {
		both := false
		for _, a := range ri.Soft {
			if a == b {
				both = true
			}
		}
		if !both {
			report(b.Step, b.Kind, "compiler", rc.Obs)
		}
	}
	switch {
	case ri.Mismatch >= 0 && rc.Mismatch == ri.Mismatch && ri.Kind == rc.Kind && ri.Obs[ri.Mismatch].String() == rc.Obs[rc.Mismatch].String():
		report(ri.Mismatch, ri.Kind, "both", ri.Obs)
	default:
		if ri.Mismatch >= 0 {
			report(ri.Mismatch, ri.Kind, "interpreter", ri.Obs)
		}
		if rc.Mismatch >= 0 {
			report(rc.Mismatch, rc.Kind, "compiler", rc.Obs)
		}
	}
	if ri.Info != "" || rc.Info != "" {
		res.Info = append(res.Info, "interpreter="+ri.Info+" compiler="+rc.Info)
		if (ri.Info == "") != (rc.Info == "") && ri.Mismatch < 0 && rc.Mismatch < 0 {
			add("link:engines-differ:compatible-import", "interpreter: "+ri.Info+" / compiler: "+rc.Info, 0, ri.Obs)
		}
	}
	// engine differential over everything both executed (identical observations)
	n := len(ri.Obs)
	if len(rc.Obs) < n {
		n = len(rc.Obs)
	}
	stop := n
	if ri.Mismatch >= 0 && ri.Mismatch < stop {
		stop = ri.Mismatch
	}
	if rc.Mismatch >= 0 && rc.Mismatch < stop {
		stop = rc.Mismatch
	}
	for i := 0; i < stop; i++ {
		st := &sc.Steps[i]
		a, b := ri.Obs[i], rc.Obs[i]
		same := a.Err == b.Err && a.Str == b.Str && (st.Kind == "inst" || a.Err != "" || valsEqual(st.RT, a.Res, b.Res))
		if st.Kind == "inst" {
			same = (a.Err == "") == (b.Err == "")
		}
		if !same && st.Soft && (mismatch(st, a) != "" || mismatch(st, b) != "") {
			continue // already reported against the model
		}
		if !same && st.NoExp {
			add("api.Global.String:engines-differ", fmt.Sprintf("step #%d %s: interpreter %s, compiler %s", i, st.String(), a.String(), b.String()), i, rc.Obs)
			continue
		}
		if !same {
			tag := st.Tag
			if st.Kind == "inst" {
				tag = "instantiate"
			}
			add("engines-differ:"+tag, fmt.Sprintf("step #%d %s: interpreter %s, compiler %s", i, st.String(), a.String(), b.String()), i, rc.Obs)
			break
		}
	}
	return res
}
