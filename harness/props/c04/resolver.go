package c04

import (
	"fmt"
	"sort"

	"github.com/tetratelabs/wazero/verifharness/core"
	"github.com/tetratelabs/wazero/verifharness/wenc"
)

// The import-resolution path: instantiations whose context carries an
// experimental.ImportResolver. Exporters registered under different module
// names export the SAME names with compatible types (a wrong binding links
// silently) but differ in state and in the constants of their functions. The
// resolver answers a PRNG subset of the importer's module names (possibly with
// ANOTHER instance than the store has under that name, or for a name the store
// does not know) and declines the rest. The model is told the mapping; calls
// through every import decide which instance was really bound. Every importer
// is instantiated several times (wazero walks its imports in map order).

func genResolver(seed uint64) *gen {
	r := core.NewRng(int64(seed), 8)
	g := newGen(r, fmt.Sprintf("resolver-%d", seed), DefaultPageLimit, false, false)
	g.instTag = "import-resolver"
	names := []string{"xa", "xb", "xc"}
	for k, n := range names {
		in := g.instantiate(exporterSpec(n, k)).Inst
		g.call(in, "gset0", uint64(100+k))
		g.call(in, "st8", 5, uint64(0x50+k))
		g.call(in, "tset0", 0, 0)
		g.call(in, "tset0", 1, 1)
	}
	g.nextID = 3
	for round := 0; round < 3; round++ {
		// the importer: from 2-3 module names, the same export names from each
		mods := append([]string{}, names...)
		for i := len(mods) - 1; i > 0; i-- {
			j := r.Intn(i + 1)
			mods[i], mods[j] = mods[j], mods[i]
		}
		mods = mods[:2+r.Intn(2)]
		if r.Chance(1, 3) {
			mods[r.Intn(len(mods))] = "alias" // a name the store does not know: only the resolver can satisfy it
		}
		spec := &ModSpec{Name: fmt.Sprintf("i%d", round), ID: g.nextID, HideImportedTables: r.Bool()}
		g.nextID++
		var imps []ImportSpec
		for k, mn := range mods {
			imps = append(imps, ImportSpec{Mod: mn, Name: "L0", Ext: Ext{Kind: wenc.ExtFunc, Func: ft(tI32, tI32)}},
				ImportSpec{Mod: mn, Name: "L1", Ext: Ext{Kind: wenc.ExtFunc, Func: ft(tI32, tI32)}},
				impG(mn, 0, gt(wenc.I32, true)), impG(mn, 1, gt(wenc.I32, false)),
				ImportSpec{Mod: mn, Name: "t0", Ext: Ext{Kind: wenc.ExtTable, Table: wenc.TableType{Elem: wenc.FuncRef, Lim: wenc.Limits{Min: 2}}}})
			if k == 0 {
				imps = append(imps, impMem(mn, wenc.Limits{Min: 1}))
			}
		}
		spec.Imports = interleaveImports(r, imps, r.Bool())
		for _, mode := range []string{"all", "subset", "none", "no-resolver"} {
			for rep := 0; rep < 3; rep++ {
				res := map[string]string{}
				switch mode {
				case "all":
					for _, mn := range mods {
						res[mn] = names[r.Intn(len(names))]
					}
				case "subset":
					pick := r.Intn(len(mods))
					for k, mn := range mods {
						if k == pick || (r.Chance(1, 3) && len(res) < len(mods)-1) {
							res[mn] = names[r.Intn(len(names))]
						}
					}
				}
				g.useResolver, g.resolver = mode != "no-resolver", res
				g.count("resolver_mode_" + mode)
				ir := g.instantiateAs(spec, fmt.Sprintf("i%d_%s%d", round, mode, rep))
				g.useResolver, g.resolver = false, nil
				if !ir.OK {
					g.count("resolver_importer_expected_to_fail")
					g.prefix = ""
					continue
				}
				g.prefix = "import-resolver(" + mode + "):"
				g.useResolved(ir.Inst)
				g.prefix = ""
			}
		}
	}
	g.prefix = "import-resolver:"
	g.sweep()
	return g
}

// useResolved calls through / reads / writes every import of an instance.
func (g *gen) useResolved(in *mInst) {
	nf, ng, nt := 0, 0, 0
	var keys []int
	for i := range in.spec.Imports {
		keys = append(keys, i)
	}
	sort.Ints(keys)
	for _, i := range keys {
		switch in.spec.Imports[i].Ext.Kind {
		case wenc.ExtFunc:
			g.call(in, fmt.Sprintf("ci%d", nf), uint64(3+nf))
			g.call(in, fmt.Sprintf("fi%d", nf), uint64(5+nf))
			nf++
		case wenc.ExtGlobal:
			g.call(in, fmt.Sprintf("gget%d", ng))
			if in.globs[ng].typ.Mutable {
				g.call(in, fmt.Sprintf("gset%d", ng), uint64(g.r.Intn(1000)))
			}
			ng++
		case wenc.ExtMemory:
			g.call(in, "ld8", 5)
			a := uint64(40 + g.r.Intn(8))
			g.call(in, "st8", a, uint64(1+g.r.Intn(255)))
			g.noteHot(uint32(a))
		case wenc.ExtTable:
			g.call(in, fmt.Sprintf("tcall%d", nt), 0, 9)
			g.call(in, fmt.Sprintf("tcall%d", nt), 1, 1)
			g.call(in, fmt.Sprintf("tset%d", nt), 1, uint64(g.r.Intn(2)))
			nt++
		}
	}
}
