package c04

import (
	"encoding/json"
	"fmt"
	"os"
	"strconv"
	"testing"
)

func TestDev(t *testing.T) {
	sigs := map[string]string{}
	for i := range directedScenarios() {
		g := genDirected(i, 1)
		res := decide(g.sc)
		fmt.Printf("%-60s steps=%d compared=%d findings=%d\n", g.sc.Name, len(g.sc.Steps), res.Compared, len(res.Findings))
		for _, f := range res.Findings {
			fmt.Println("    ", f.Sig, "::", f.Detail)
		}
	}
	n, _ := strconv.Atoi(os.Getenv("N"))
	lo, _ := strconv.Atoi(os.Getenv("LO"))
	for s := lo + 1; s <= lo+n; s++ {
		g := genGraph(uint64(s))
		res := decide(g.sc)
		for _, f := range res.Findings {
			if _, ok := sigs[f.Sig]; !ok {
				sigs[f.Sig] = fmt.Sprintf("seed %d: %s", s, f.Detail)
			}
		}
		if res.Err != "" {
			fmt.Println("ERR", s, res.Err)
		}
	}
	for k, v := range sigs {
		fmt.Println("GRAPH", k, "::", v)
	}
}

func TestSeed(t *testing.T) {
	s, _ := strconv.Atoi(os.Getenv("SEED"))
	g := genGraph(uint64(s))
	res := decide(g.sc)
	for _, f := range res.Findings {
		fmt.Println("FINDING", f.Sig, "::", f.Detail)
		for _, l := range f.Trace {
			fmt.Println("   ", l)
		}
	}
	if os.Getenv("MODS") != "" {
		for i, m := range g.sc.Mods {
			bin, _ := Build(m)
			fmt.Printf("---- mods[%d] %s\n%s\n", i, m.Name, safeDis(bin))
		}
	}
}

func TestSteps(t *testing.T) {
	s, _ := strconv.Atoi(os.Getenv("SEED"))
	g := genGraph(uint64(s))
	for i, m := range g.sc.Mods {
		b, _ := json.Marshal(m)
		fmt.Printf("mods[%d] %s\n", i, b)
	}
	ri, _ := runEngine(g.sc, false)
	for i := range g.sc.Steps {
		o := "(not run)"
		if i < len(ri.Obs) {
			o = ri.Obs[i].String()
		}
		fmt.Printf("#%d %s => %s\n", i, g.sc.Steps[i].String(), o)
	}
}
