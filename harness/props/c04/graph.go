package c04

import (
	"fmt"

	"github.com/tetratelabs/wazero/verifharness/core"
	"github.com/tetratelabs/wazero/verifharness/wenc"
)

// specMem returns the model memory an as yet uninstantiated spec would be bound to (nil: defines its own or has none).
func (g *gen) specMem(spec *ModSpec) (mem *mMem, size uint32, has bool) {
	if spec.Mem != nil {
		return nil, spec.Mem.Min * pageSize, true
	}
	for _, im := range spec.Imports {
		if im.Ext.Kind == wenc.ExtMemory {
			if e, ok := g.m.lookup(im); ok {
				return e.mem, uint32(len(e.mem.data)), true
			}
		}
	}
	return nil, 0, false
}

// specFuncTable returns index and current size of the first funcref table of spec.
func (g *gen) specFuncTable(spec *ModSpec) (idx int, size int, imported bool) {
	ti := 0
	for _, im := range spec.Imports {
		if im.Ext.Kind == wenc.ExtTable {
			if im.Ext.Table.Elem == wenc.FuncRef {
				if e, ok := g.m.lookup(im); ok {
					return ti, len(e.tab.slots), true
				}
			}
			ti++
		}
	}
	for _, t := range spec.Tables {
		if t.Elem == wenc.FuncRef {
			return ti, int(t.Lim.Min), false
		}
		ti++
	}
	return -1, 0, false
}

// tableElem: element type of table ti of spec (imports first).
func (g *gen) tableElem(spec *ModSpec, ti int) wenc.ValType {
	n := 0
	for _, im := range spec.Imports {
		if im.Ext.Kind == wenc.ExtTable {
			if n == ti {
				return im.Ext.Table.Elem
			}
			n++
		}
	}
	return spec.Tables[ti-n].Elem
}

func stripActive(spec *ModSpec, datas, elems, start bool) {
	if datas {
		var keep []DataSpec
		for _, d := range spec.Datas {
			if d.Passive {
				keep = append(keep, d)
			}
		}
		spec.Datas = keep
	}
	if elems {
		var keep []ElemSpec
		for _, e := range spec.Elems {
			if e.Passive {
				keep = append(keep, e)
			}
		}
		spec.Elems = keep
	}
	if start {
		spec.Start = nil
	}
}

var badKinds = []string{"missing-name", "missing-module", "link", "data-oob", "elem-oob", "start-trap"}

// badModule generates a module that must fail to instantiate (kind says how).
// It returns nil when the kind is not applicable to the generated module.
func (g *gen) badModule(name, kind string) *ModSpec {
	r := g.r
	// values captured by a module that fails cannot be read back through it: failing modules stay
	// within what the specification allows in constant expressions, and do not import re-exported imports
	saveL := g.lenient
	g.lenient, g.noChains = false, true
	spec := g.genModule(name)
	g.lenient, g.noChains = saveL, false
	spec.HideImportedTables = r.Bool()
	// (ref.null items are probed where the instantiation succeeds; see elem-null-item)
	for ei := range spec.Elems {
		if !spec.Elems[ei].Passive && len(spec.Tables)+1 > 0 {
			for k := range spec.Elems[ei].Items {
				if spec.Elems[ei].Items[k].Kind == "null" && g.tableElem(spec, spec.Elems[ei].Table) == wenc.FuncRef {
					spec.Elems[ei].Items[k] = ElemItem{Kind: "func", Ref: 0}
				}
			}
		}
	}
	switch kind {
	case "missing-name", "missing-module":
		if len(spec.Imports) == 0 {
			in := g.live[r.Intn(len(g.live))]
			spec.Imports = append(spec.Imports, ImportSpec{Mod: in.name, Name: "L0", Ext: Ext{Kind: wenc.ExtFunc, Func: ft(tI32, tI32)}})
		}
		j := r.Intn(len(spec.Imports))
		if kind == "missing-name" {
			spec.Imports[j].Name = "nope"
			spec.Imports[j].Host = false
		} else {
			spec.Imports[j].Mod = "ghost"
			spec.Imports[j].Host = false
		}
	case "link":
		var lims []int
		for j, im := range spec.Imports {
			if im.Ext.Kind == wenc.ExtTable || im.Ext.Kind == wenc.ExtMemory {
				lims = append(lims, j)
			}
		}
		in := g.live[r.Intn(len(g.live))]
		switch x := r.Intn(6); {
		case x < 2 && len(lims) > 0:
			j := lims[r.Intn(len(lims))]
			im := &spec.Imports[j]
			e, _ := g.m.lookup(*im)
			if im.Ext.Kind == wenc.ExtTable {
				l := &im.Ext.Table.Lim
				decl := e.tab.decl.Lim
				switch {
				case decl.HasMax && decl.Max > 0 && r.Bool():
					l.HasMax, l.Max = true, decl.Max-1
					if l.Min > l.Max {
						l.Min = l.Max
					}
				case !decl.HasMax && r.Bool():
					l.HasMax, l.Max = true, uint32(len(e.tab.slots))+5
				default:
					l.Min = uint32(len(e.tab.slots)) + 1
					if l.HasMax && l.Max < l.Min {
						l.Max = l.Min
					}
				}
			} else {
				l := &im.Ext.Mem
				em := effMax(e.mem.decl, g.m.pageLimit)
				switch {
				case g.sc.Threads && r.Chance(1, 3):
					l.Shared = !l.Shared
					if l.Shared && !l.HasMax {
						l.HasMax, l.Max = true, em
					}
				case em > 0 && em <= 16 && r.Bool():
					l.HasMax, l.Max = true, em-1
					if l.Min > l.Max {
						l.Min = l.Max
					}
				default:
					l.Min = e.mem.pages() + 1
					if l.HasMax && l.Max < l.Min {
						l.Max = l.Min
					}
					if l.Min > g.m.pageLimit {
						return nil
					}
				}
			}
		case x < 4:
			// an extra function import: wrong signature, or a name that is not a function
			im := ImportSpec{Mod: in.name, Name: "L0", Ext: Ext{Kind: wenc.ExtFunc, Func: ft(tI32, tI64)}}
			switch r.Intn(6) {
			case 4, 5:
				// a function that `in` re-exports from its own imports, declared with the type of another such function
				var re []string
				for _, n := range sortedExports(in, wenc.ExtFunc) {
					if in.exports[n].fn.inst != in {
						re = append(re, n)
					}
				}
				if len(re) >= 2 {
					a, b := re[r.Intn(len(re))], re[r.Intn(len(re))]
					im.Name, im.Ext.Func = a, in.exports[b].fn.typ
				}
			case 0:
				im.Ext.Func = ft(nil, tI32)
			case 1:
				im.Ext.Func = ft([]wenc.ValType{wenc.I32, wenc.I32}, tI32)
			case 2:
				im.Name = fmt.Sprintf("g%d", r.Intn(len(in.globs)))
			}
			spec.Imports = append(spec.Imports, im)
		default:
			// an extra global import: wrong mutability, wrong value type, or a name that is not a global
			gi := r.Intn(len(in.globs))
			gt := in.globs[gi].typ
			im := ImportSpec{Mod: in.name, Name: fmt.Sprintf("g%d", gi), Ext: Ext{Kind: wenc.ExtGlobal, Global: gt}}
			switch r.Intn(3) {
			case 0:
				im.Ext.Global.Mutable = !gt.Mutable
			case 1:
				for {
					t := allValTypes[r.Intn(len(allValTypes))]
					if t != gt.Type {
						im.Ext.Global.Type = t
						break
					}
				}
			default:
				im.Name = "L1"
			}
			spec.Imports = append(spec.Imports, im)
		}
	case "data-oob":
		_, size, has := g.specMem(spec)
		if !has {
			return nil
		}
		stripActive(spec, true, true, true)
		var segs []DataSpec
		mk := func(off uint32, n int) DataSpec {
			b := make([]byte, n)
			for i := range b {
				b[i] = byte(1 + r.Intn(255))
			}
			return DataSpec{Off: SegOff{Global: -1, Const: int32(off)}, Bytes: b}
		}
		for n := r.Intn(3); n > 0 && size >= 8; n-- {
			a := uint32(r.Intn(int(size) - 7))
			if r.Bool() {
				a = uint32(r.Intn(56))
			}
			g.noteHot(a)
			segs = append(segs, mk(a, 1+r.Intn(8)))
		}
		n := 1 + r.Intn(8)
		var off uint32
		switch r.Intn(4) {
		case 0:
			off = size - uint32(n) + 1 + uint32(r.Intn(n)) // straddles the end
			if size < uint32(n) {
				off = size
			}
			g.noteHot(off)
		case 1:
			off = size + uint32(r.Intn(4))
			n = 1 + r.Intn(4)
		case 2:
			off = 0xfffffff0
		default:
			off = size + pageSize
		}
		segs = append(segs, mk(off, n))
		if size >= 64 {
			a := uint32(56 + r.Intn(8))
			g.noteHot(a)
			segs = append(segs, mk(a, 1)) // after the failing one: must not be applied
		}
		spec.Datas = append(segs, spec.Datas...)
	case "elem-oob":
		ti, size, _ := g.specFuncTable(spec)
		if ti < 0 {
			return nil
		}
		stripActive(spec, true, true, true)
		var segs []ElemSpec
		mk := func(off uint32, n int) ElemSpec {
			e := ElemSpec{Table: ti, Off: SegOff{Global: -1, Const: int32(off)}}
			for i := 0; i < n; i++ {
				e.Items = append(e.Items, ElemItem{Kind: "func", Ref: r.Intn(4)})
			}
			return e
		}
		if size > 0 && r.Bool() {
			segs = append(segs, mk(uint32(r.Intn(size)), 1))
		}
		n := 1 + r.Intn(3)
		off := uint32(size) + uint32(r.Intn(3))
		if r.Bool() && size >= 1 {
			off = uint32(size) - uint32(r.Intn(min(n, size+1))) // straddles the end when n is larger than what is left
			if int(off)+n <= size {
				off = uint32(size-n) + 1
			}
		}
		segs = append(segs, mk(off, n))
		if size > 0 {
			segs = append(segs, mk(uint32(r.Intn(size)), 1)) // after the failing one: must not be applied
		}
		spec.Elems = append(segs, spec.Elems...)
	case "start-trap":
		if spec.Start == nil {
			spec.Start = &StartSpec{}
		}
		spec.Start.Trap = true
	}
	return spec
}

func (g *gen) badAttempt(n int) {
	r := g.r
	kind := badKinds[r.Intn(len(badKinds))]
	spec := g.badModule(fmt.Sprintf("b%d", n), kind)
	if spec == nil {
		return
	}
	g.count("bad_kind_" + kind)
	res := g.instantiate(spec)
	if res.OK {
		g.count("bad_module_turned_out_compatible")
		return
	}
	// nothing but the shared objects may keep what the failed instance left behind alive: collect before looking
	g.push(Step{Kind: "gc", Tag: "gc"})
	g.count("gc_after_failed_instantiation")
	g.sweep()
	for k := 2 + r.Intn(6); k > 0; k-- {
		g.randomOp()
	}
}

// genGraph generates one PRNG module graph with interleaved operations.
func genGraph(seed uint64) *gen {
	r := core.NewRng(int64(seed), 4)
	threads := r.Chance(1, 8)
	host := r.Bool()
	limit := uint32(DefaultPageLimit)
	if r.Chance(1, 8) {
		limit = uint32(4 + r.Intn(3))
	}
	g := newGen(r, fmt.Sprintf("graph-%d", seed), limit, threads, host)
	g.lenient = r.Chance(1, 6)
	g.apiReexports = r.Chance(1, 8)
	g.tail = r.Chance(1, 3)
	siblings := r.Chance(1, 2)
	nGood := 2 + r.Intn(3)
	nb := 0
	for i := 0; i < nGood; i++ {
		if i > 0 && r.Chance(1, 3) {
			g.badAttempt(nb)
			nb++
		}
		res := g.instantiate(g.genModule(fmt.Sprintf("m%d", i)))
		if !res.OK {
			g.count("good_module_predicted_to_fail_" + failClass(res.Fail))
		}
		// (a module whose segment offsets read a mutable imported global could fail the second time; the
		// element-segment failure is a known deviation, so such modules get no siblings)
		if res.OK && siblings && r.Chance(1, 2) && !usesMutableImportInConstExpr(g.sc.Mods[len(g.sc.Mods)-1]) {
			// a second (third) instance of the SAME CompiledModule: same imports, hence the same shared objects,
			// but its own private memory/tables/globals
			spec := g.sc.Mods[len(g.sc.Mods)-1]
			g.initPrivate(res.Inst, 1)
			for k := 1 + r.Intn(2); k > 0; k-- {
				if sr := g.instantiateAs(spec, fmt.Sprintf("m%ds%d", i, k)); sr.OK {
					g.initPrivate(sr.Inst, 1+k)
				}
			}
		}
		if len(g.live) == 0 {
			continue
		}
		for k := 4 + r.Intn(16); k > 0; k-- {
			g.randomOp()
		}
		if r.Chance(1, 12) {
			g.push(Step{Kind: "gc", Tag: "gc"})
		}
	}
	if len(g.live) > 0 && r.Bool() {
		g.badAttempt(nb)
	}
	if len(g.live) > 0 {
		g.sweep()
	}
	g.count(fmt.Sprintf("graph_instances_%d", len(g.live)))
	if g.lenient {
		g.count("graphs_with_lenient_const_expr")
	}
	if g.apiReexports {
		g.count("graphs_calling_reexported_imports_through_api")
	}
	if threads {
		g.count("graphs_with_threads_feature")
	}
	if g.tail {
		g.count("graphs_with_tail_calls")
	}
	if siblings {
		g.count("graphs_with_sibling_instances")
	}
	if host {
		g.count("graphs_with_host_module")
	}
	return g
}
