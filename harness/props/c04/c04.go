// Package c04 decides C04 (linked modules share state exactly as the
// specification says): an executable link model over an exhaustive matching
// matrix, a store model predicting every read of PRNG module graphs whose
// instances share memories, tables, globals and functions, captured constant
// expressions, failed instantiations, both engines.
package c04

import (
	"encoding/hex"
	"encoding/json"
	"fmt"
	"os"
	"strings"
	"time"

	"github.com/tetratelabs/wazero/verifharness/core"
	"github.com/tetratelabs/wazero/verifharness/wdis"
)

var Prop = &core.Prop{ID: "C04", Run: run, Child: child}

type graphCase struct {
	Seed     uint64 `json:"seed"`
	Directed int    `json:"directed"`       // index of a directed scenario, -1 = PRNG graph
	Kind     string `json:"kind,omitempty"` // "reexport": re-export chain with mixed import sections
}

func scenarioFor(gc graphCase) *gen {
	if gc.Kind == "reexport" {
		return genReexport(gc.Seed)
	}
	if gc.Kind == "resolver" {
		return genResolver(gc.Seed)
	}
	if gc.Directed >= 0 {
		return genDirected(gc.Directed, gc.Seed)
	}
	return genGraph(gc.Seed)
}

type graphResult struct {
	scenarioResult
	Name    string         `json:"name"`
	Steps   int            `json:"steps"`
	Mods    int            `json:"mods"`
	Gen     map[string]int `json:"gen"`
	Shape   string         `json:"shape"`
	Witness any            `json:"witness,omitempty"`
	Sample  []string       `json:"sample,omitempty"`
}

func child(mode string, in json.RawMessage) any {
	switch mode {
	case "matrix":
		var mc matrixCase
		json.Unmarshal(in, &mc)
		return runMatrix(mc)
	case "race":
		var rc raceCase
		json.Unmarshal(in, &rc)
		return runRace(rc)
	}
	var gc graphCase
	json.Unmarshal(in, &gc)
	g := scenarioFor(gc)
	res := decide(g.sc)
	gr := graphResult{scenarioResult: res, Name: g.sc.Name, Steps: len(g.sc.Steps), Mods: len(g.sc.Mods), Gen: g.counts, Shape: shapeOf(g.sc)}
	if len(res.Findings) > 0 {
		gr.Witness = witnessOf(g.sc)
	} else {
		for i := 0; i < len(g.sc.Steps) && len(gr.Sample) < 8; i += 1 + len(g.sc.Steps)/8 {
			gr.Sample = append(gr.Sample, g.sc.Steps[i].String())
		}
	}
	return gr
}

// shapeOf canonicalises the link structure of a scenario: which kinds each
// module imports from which module, and which instantiations were expected to fail.
func shapeOf(sc *Scenario) string {
	var sb strings.Builder
	fails := map[int]string{}
	for _, st := range sc.Steps {
		if st.Kind == "inst" && st.ExpErr != "" {
			fails[st.Mod] = failClass(strings.TrimPrefix(st.ExpErr, "fail:"))
		}
	}
	for i, m := range sc.Mods {
		fmt.Fprintf(&sb, "%s[", m.Name)
		for _, im := range m.Imports {
			fmt.Fprintf(&sb, "%s:%c,", im.Mod, kindName(im.Ext.Kind)[0])
		}
		sb.WriteString("]")
		if m.Mem != nil {
			sb.WriteString("M")
		}
		fmt.Fprintf(&sb, "T%d", len(m.Tables))
		if len(m.Datas) > 0 {
			sb.WriteString("D")
		}
		if len(m.Elems) > 0 {
			sb.WriteString("E")
		}
		if m.Start != nil {
			sb.WriteString("S")
		}
		if f, ok := fails[i]; ok {
			sb.WriteString("!" + f)
		}
		sb.WriteString(";")
	}
	return sb.String()
}

func witnessOf(sc *Scenario) any {
	var mods []any
	for _, m := range sc.Mods {
		bin, _ := Build(m)
		mods = append(mods, map[string]any{"name": m.Name, "spec": m, "wasm_hex": hex.EncodeToString(bin), "wat": strings.Split(safeDis(bin), "\n")})
	}
	return map[string]any{"scenario": sc.Name, "page_limit": sc.PageLimit, "threads": sc.Threads, "host_module": sc.Host, "modules": mods}
}

func safeDis(bin []byte) (s string) {
	defer func() {
		if r := recover(); r != nil {
			s = "(disassembler failed)"
		}
	}()
	return wdis.Module(bin)
}

func run(c *core.Ctx) int {
	rng := core.NewRng(c.Seed, 4)
	evals := int64(0)
	crashSig := func(mode string, cr *core.Crash) string {
		f := strings.Fields(strings.ReplaceAll(cr.Detail, "\n", " "))
		var out []string
		for _, w := range f {
			if strings.HasPrefix(w, "0x") || strings.HasPrefix(w, "addr=") || strings.HasPrefix(w, "pc=") {
				continue
			}
			out = append(out, w)
			if len(out) >= 6 {
				break
			}
		}
		return "crash:" + mode + ":" + cr.Kind + ":" + strings.Join(out, "_")
	}
	handleCrash := func(mode string, r core.CaseResult, cs json.RawMessage) bool {
		if r.Crash == nil {
			return false
		}
		switch r.Crash.Kind {
		case "timeout":
			c.Inconclusive("watchdog")
		case "race":
			logb, _ := os.ReadFile(r.Crash.Log)
			for key, rep := range core.RaceReports(logb) {
				c.Violate(raceSig(key, rep), rep, map[string]any{"case": cs, "mode": mode, "report": rep})
			}
			c.Count("race_reports", 1)
			return false // the case still produced output
		default:
			c.Violate(crashSig(mode, r.Crash), r.Crash.Detail, map[string]any{"case": cs, "mode": mode, "crash": r.Crash})
		}
		return true
	}

	// ---- (1) matching matrix
	wide := !c.Quick()
	nPairs := len(matrixPairs(wide))
	var mcases []json.RawMessage
	const chunk = 40
	for lo := 0; lo < nPairs; lo += chunk {
		mcases = append(mcases, core.J(matrixCase{Lo: lo, Hi: min(lo+chunk, nPairs), Wide: wide}))
	}
	mres := core.RunCases(c, "matrix", mcases, core.ChildOpts{Batch: 4, TimeoutS: 600, RlimitAS: 8 << 30})
	c.Extra("phase_matrix_s", time.Since(c.Start).Seconds())
	pairsDone := 0
	infoExamples := map[string]string{}
	for _, r := range mres {
		if handleCrash("matrix", r, mcases[r.Index]) {
			continue
		}
		var mr matrixResult
		if json.Unmarshal(r.Out, &mr) != nil {
			c.Inconclusive("bad-child-output")
			continue
		}
		pairsDone += mr.Pairs
		evals += int64(mr.Pairs)
		for k, v := range mr.Counts {
			c.Count("matrix_"+k, int64(v))
		}
		for i, k := range mr.InfoKinds {
			if _, seen := infoExamples[k]; !seen {
				infoExamples[k] = mr.InfoPairs[i]
			}
			c.Distinct("compatible_import_rejected_information_only", k)
		}
		if mr.Sample != "" && r.Index%25 == 0 {
			c.Sample(map[string]any{"matrix_pair": mr.Sample})
		}
		for _, f := range mr.Findings {
			c.Violate(f.Sig, f.Detail, map[string]any{"phase": "matrix", "pair": f.Detail,
				"replay": "exporter exports the object, (optionally) grows it, importer declares the import; see props/c04/matrix.go exporterModule/importerModule"})
		}
	}
	c.Extra("compatible_import_rejected_examples", infoExamples)
	c.Count("matrix_pairs_enumerated", int64(nPairs))
	if pairsDone < nPairs {
		c.Inconclusive("matrix-incomplete")
	}

	// ---- (2)-(4) directed scenarios and PRNG graphs
	nDirected := len(directedScenarios())
	var gcases []json.RawMessage
	for i := 0; i < nDirected; i++ {
		gcases = append(gcases, core.J(graphCase{Seed: rng.U64(), Directed: i}))
	}
	nReexport := c.N(150, 1500)
	for i := 0; i < nReexport; i++ {
		gcases = append(gcases, core.J(graphCase{Seed: rng.U64(), Directed: -1, Kind: "reexport"}))
	}
	nResolver := c.N(60, 600)
	for i := 0; i < nResolver; i++ {
		gcases = append(gcases, core.J(graphCase{Seed: rng.U64(), Directed: -1, Kind: "resolver"}))
	}
	nGraphs := c.N(3000, 60000)
	for i := 0; i < nGraphs; i++ {
		gcases = append(gcases, core.J(graphCase{Seed: rng.U64(), Directed: -1}))
	}
	gres := core.RunCases(c, "graph", gcases, core.ChildOpts{Batch: 40, TimeoutS: 900, RlimitAS: 8 << 30})
	c.Extra("phase_graph_s", time.Since(c.Start).Seconds())
	directedSeen := 0
	for _, r := range gres {
		if handleCrash("graph", r, gcases[r.Index]) {
			continue
		}
		var gr graphResult
		if json.Unmarshal(r.Out, &gr) != nil {
			c.Inconclusive("bad-child-output")
			continue
		}
		if gr.Err != "" {
			c.Inconclusive("runtime-setup-failed")
			continue
		}
		evals++
		if r.Index < nDirected {
			directedSeen++
			c.Distinct("directed_scenarios", gr.Name)
		} else if r.Index < nDirected+nReexport {
			c.Count("reexport_chain_scenarios", 1)
		} else if r.Index < nDirected+nReexport+nResolver {
			c.Count("import_resolver_scenarios", 1)
		} else {
			c.Count("graphs", 1)
			if gr.Mods >= 2 {
				c.Distinct("graph_shapes", gr.Shape)
			}
		}
		c.Count("steps_generated", int64(gr.Steps))
		c.Count("observations_compared_with_model", int64(gr.Compared))
		for k, v := range gr.Gen {
			c.Count(k, int64(v))
			if strings.HasPrefix(k, "op_") {
				c.Distinct("ops", k[3:])
			}
		}
		for _, s := range gr.Info {
			c.Count("graph_runs_stopped_by_permitted_rejection_information_only", 1)
			if c.DistinctN("graph_permitted_rejections") < 10 {
				c.Distinct("graph_permitted_rejections", s)
			}
		}
		if len(gr.Sample) > 0 && (r.Index == nDirected-1 || r.Index%1100 == 7) {
			c.Sample(map[string]any{"scenario": gr.Name, "shape": gr.Shape, "steps_sample": gr.Sample})
		}
		for _, f := range gr.Findings {
			c.Violate(f.Sig, f.Detail, map[string]any{"case": json.RawMessage(gcases[r.Index]), "finding": f, "graph": gr.Witness,
				"replay": "./check C04 quick --replay <this file> re-runs the case and prints every step with both engines' observations"})
		}
	}
	if directedSeen < nDirected {
		c.Inconclusive("directed-scenarios-incomplete")
	}
	// classes the property names must have been reached
	for _, k := range []string{"cross_instance_read_after_write_global", "cross_instance_read_after_write_memory", "cross_instance_read_after_write_table",
		"indirect_rtcall_callee_sibling-instance-of-same-compiled-module", "indirect_rtcall_callee_other-module", "indirect_tcall_callee_sibling-instance-of-same-compiled-module",
		"op_rci", "op_leaf4", "resolver_mode_all", "resolver_mode_subset", "resolver_mode_none", "reexport_function_imported_with_type_of_another_function", "reexport_exact_type_importers", "modules_with_interleaved_import_section",
		"capture_global-init_immutable", "capture_global-init_mutable", "capture_data-offset_mutable", "capture_elem-offset_mutable", "capture_elem-init_mutable",
		"fail_data-oob", "fail_elem-oob", "fail_start-trap", "fail_missing", "fail_link"} {
		if c.Counter(k) == 0 {
			c.Inconclusive("class-never-reached:" + k)
		}
	}

	// ---- (5) -race sample: concurrent importers of one exporter
	if raceBin := os.Getenv("VCHECK_RACE_BIN"); raceBin != "" {
		var rcases []json.RawMessage
		for i := c.N(160, 1600); i > 0; i-- {
			rcases = append(rcases, core.J(raceCase{Seed: rng.U64()}))
		}
		rres := core.RunCases(c, "race", rcases, core.ChildOpts{Bin: raceBin, Batch: 10, TimeoutS: 900, Procs: 4,
			Env: []string{"GORACE=halt_on_error=0 exitcode=0"}})
		for _, r := range rres {
			if handleCrash("race", r, rcases[r.Index]) {
				continue
			}
			var sr scenarioResult
			if json.Unmarshal(r.Out, &sr) != nil {
				c.Inconclusive("bad-child-output")
				continue
			}
			if sr.Err != "" {
				c.Inconclusive("runtime-setup-failed")
				continue
			}
			evals++
			c.Count("race_sample_cases", 1)
			c.Count("race_sample_reads_compared", int64(sr.Compared))
			for k, v := range sr.Counts {
				c.Count(k, int64(v))
			}
			for _, f := range sr.Findings {
				c.Violate(f.Sig, f.Detail, map[string]any{"case": json.RawMessage(rcases[r.Index]), "mode": "race"})
			}
		}
		c.Extra("phase_race_s", time.Since(c.Start).Seconds())
	} else {
		c.Inconclusive("race-binary-missing")
	}

	c.Assume("verdict on linking is one-directional: only an import that is accepted although the matching rule rejects it is a violation; compatible imports that wazero rejects are listed under compatible_import_rejected_information_only")
	c.Assume("memory maxima are compared as effective maxima under the runtime's page limit (an absent maximum means the limit), as wazero documents for WithMemoryLimitPages")
	c.Assume("error texts are not compared, only accept/reject and the trap class of calls")
	c.Assume("memory.grow/table.grow within the declared maximum are expected to succeed at these sizes (<= 8 pages / <= 16 elements)")
	return c.Finish(evals, int64(c.DistinctN("graph_shapes")),
		"evaluations = import/export pairs of the matching matrix (each linked on both engines) + directed scenarios + PRNG module graphs (each run on both engines, every step compared with the store model) + race-sample cases; distinct = distinct link shapes of PRNG graphs with >=2 modules (who imports which extern kinds from whom in which order, defined memory/tables, presence of data/element segments and start function, expected failure class)")
}

// raceSig names a race report. Reports whose two accesses are both in the code that maintains a table's
// list of using instances (Store.instantiate's loop over exported tables / resolveImports) get one signature.
func raceSig(key, report string) string {
	key = strings.ReplaceAll(key, "github.com/tetratelabs/wazero", "wazero")
	sides := strings.Split(key, " <-> ")
	userList := len(sides) == 2
	for _, s := range sides {
		if !strings.HasSuffix(s, "(*Store).instantiate") && !strings.HasSuffix(s, "(*ModuleInstance).resolveImports") && s != "runtime.growslice" {
			userList = false
		}
	}
	if userList && strings.Contains(report, "(*Store).instantiate") {
		return "race:table-user-list:append-without-lock-for-exported-table"
	}
	return "race:" + key
}

func init() { Prop.Replay = replay }

// replay re-runs the graph case recorded in a witness file and prints every step.
func replay(c *core.Ctx, path string) int {
	b, err := os.ReadFile(path)
	if err != nil {
		fmt.Println(err)
		return 2
	}
	var w struct {
		Witness struct {
			Case *graphCase `json:"case"`
		} `json:"witness"`
	}
	json.Unmarshal(b, &w)
	if w.Witness.Case == nil {
		fmt.Println("not a graph/directed witness (matrix pairs are described in the detail text)")
		return 2
	}
	g := scenarioFor(*w.Witness.Case)
	sc := g.sc
	for i, m := range sc.Mods {
		bin, _ := Build(m)
		fmt.Printf("---- mods[%d] %s (%d bytes)\n%s\n", i, m.Name, len(bin), safeDis(bin))
	}
	ri, _ := runEngine(sc, false)
	rc, _ := runEngine(sc, true)
	for i := range sc.Steps {
		oi, oc := "(not run)", "(not run)"
		if i < len(ri.Obs) {
			oi = ri.Obs[i].String()
		}
		if i < len(rc.Obs) {
			oc = rc.Obs[i].String()
		}
		mark := " "
		if (i < len(ri.Obs) && mismatch(&sc.Steps[i], ri.Obs[i]) != "") || (i < len(rc.Obs) && mismatch(&sc.Steps[i], rc.Obs[i]) != "") {
			mark = ">"
		}
		fmt.Printf("%s #%d %s\n      interpreter: %s\n      compiler:    %s\n", mark, i, sc.Steps[i].String(), oi, oc)
	}
	res := decide(sc)
	for _, f := range res.Findings {
		fmt.Println("FINDING", f.Sig, "::", f.Detail)
	}
	if len(res.Findings) > 0 {
		return 1
	}
	return 0
}
