package c04

import (
	"context"
	"fmt"
	"sync"

	"github.com/tetratelabs/wazero"
	"github.com/tetratelabs/wazero/api"
	"github.com/tetratelabs/wazero/verifharness/core"
	"github.com/tetratelabs/wazero/verifharness/wenc"
)

// The -race sample: several goroutines instantiate importers of ONE exporter
// at the same time (each importer's active segments write a disjoint region of
// the shared memory / a distinct slot of the shared table), then read shared
// state through their own instance. The Go race detector watches wazero's
// linking code (table user lists, import resolution); every read is also
// compared with its (order-independent) prediction.

type raceCase struct {
	Seed uint64 `json:"seed"`
}

const raceG = 4

func runRace(rc raceCase) scenarioResult {
	res := scenarioResult{Counts: map[string]int{}}
	r := core.NewRng(int64(rc.Seed), 9)
	compiler := r.Bool()
	ctx := context.Background()
	var cfg wazero.RuntimeConfig
	if compiler {
		cfg = wazero.NewRuntimeConfigCompiler()
	} else {
		cfg = wazero.NewRuntimeConfigInterpreter()
	}
	rt := wazero.NewRuntimeWithConfig(ctx, cfg)
	defer rt.Close(ctx)
	add := func(sig, detail string) {
		for _, f := range res.Findings {
			if f.Sig == sig {
				return
			}
		}
		res.Findings = append(res.Findings, Finding{Sig: sig + ":" + engineName(compiler), Detail: detail})
	}
	ebin, _ := Build(exporterSpec("e", 0))
	ecm, err := rt.CompileModule(ctx, ebin)
	if err != nil {
		res.Err = err.Error()
		return res
	}
	e, err := rt.InstantiateModule(ctx, ecm, wazero.NewModuleConfig().WithName("e"))
	if err != nil {
		res.Err = err.Error()
		return res
	}
	pre := byte(1 + r.Intn(255))
	for a := uint64(0); a < 16; a++ {
		e.ExportedFunction("st8").Call(ctx, a, uint64(pre)+a)
	}
	type imp struct {
		spec *ModSpec
		bin  []byte
		data []byte
	}
	imps := make([]imp, raceG)
	for gi := range imps {
		b := r.Bytes(16)
		for i := range b {
			b[i] |= 1
		}
		spec := &ModSpec{Name: fmt.Sprintf("r%d", gi), ID: 10 + gi,
			Imports: []ImportSpec{impMem("e", wenc.Limits{Min: 1}), impTab("e", wenc.Limits{Min: 4}), impG("e", 1, gt(wenc.I32, false)), impG("e", 8, gt(wenc.I64, false))},
			Globals: []GlobalSpec{{Type: gt(wenc.I32, false), Init: "global", Ref: 0}},
			Datas:   []DataSpec{{Off: SegOff{Global: -1, Const: int32(1024 + 64*gi)}, Bytes: b}},
			Elems:   []ElemSpec{{Table: 0, Off: SegOff{Global: -1, Const: int32(gi)}, Items: []ElemItem{{Kind: "func", Ref: 0}}}}}
		bin, _ := Build(spec)
		imps[gi] = imp{spec, bin, b}
	}
	var wg sync.WaitGroup
	var mu sync.Mutex
	reads := 0
	for gi := range imps {
		wg.Add(1)
		go func(gi int) {
			defer wg.Done()
			im := imps[gi]
			cm, err := rt.CompileModule(ctx, im.bin)
			if err != nil {
				mu.Lock()
				add("race-sample:importer-compile-failed", err.Error())
				mu.Unlock()
				return
			}
			mod, err := rt.InstantiateModule(ctx, cm, wazero.NewModuleConfig().WithName(im.spec.Name))
			if err != nil {
				mu.Lock()
				add("race-sample:concurrent-importer-rejected", err.Error())
				mu.Unlock()
				return
			}
			n := 0
			check := func(what string, mod api.Module, fn string, want uint64, args ...uint64) {
				got, err := mod.ExportedFunction(fn).Call(ctx, args...)
				n++
				if err != nil || uint32(got[0]) != uint32(want) {
					mu.Lock()
					add("race-sample:read-mismatch:"+what, fmt.Sprintf("importer %d: %s(%v) = %v, %v; want %d", gi, fn, args, got, err, want))
					mu.Unlock()
				}
			}
			for it := 0; it < 20; it++ {
				k := uint64(it % 16)
				check("own-data-segment", mod, "ld8", uint64(im.data[k]), uint64(1024+64*gi)+k)
				check("exporter-memory", mod, "ld8", uint64(byte(uint64(pre)+k)), k)
				check("imported-const-global", mod, "gget0", 2)
				check("captured-const-global", mod, "gget2", 2)
				check("own-elem-segment", mod, "tcall0", uint64(uint32(it)+uint32(leafConst(10+gi, 0))), uint64(gi), uint64(it))
				check("memory.size", mod, "msize", 1)
			}
			mu.Lock()
			reads += n
			mu.Unlock()
		}(gi)
	}
	wg.Wait()
	// everything every importer wrote is visible through the exporter
	for gi, im := range imps {
		for k := 0; k < 16; k++ {
			got, err := e.ExportedFunction("ld8").Call(ctx, uint64(1024+64*gi+k))
			reads++
			if err != nil || byte(got[0]) != im.data[k] {
				add("race-sample:read-mismatch:importer-data-through-exporter", fmt.Sprintf("importer %d byte %d: got %v %v want %d", gi, k, got, err, im.data[k]))
			}
		}
		got, err := e.ExportedFunction("tcall0").Call(ctx, uint64(gi), 5)
		reads++
		if err != nil || uint32(got[0]) != 5+uint32(leafConst(10+gi, 0)) {
			add("race-sample:read-mismatch:importer-elem-through-exporter", fmt.Sprintf("importer %d: got %v %v", gi, got, err))
		}
	}
	res.Compared = reads
	res.Counts["race_sample_concurrent_importers"] = raceG
	res.Counts["race_sample_"+engineName(compiler)] = 1
	return res
}
