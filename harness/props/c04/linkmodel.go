package c04

import (
	"fmt"
	"strings"

	"github.com/tetratelabs/wazero/verifharness/wenc"
)

// DefaultPageLimit is wazero's documented default for the maximum number of
// 64 KiB pages of a memory (RuntimeConfig.WithMemoryLimitPages).
const DefaultPageLimit = 65536

// Ext is an external type: what an import asks for, or what an export was
// declared as (DESIGN.md Appendix B).
type Ext struct {
	Kind   byte            `json:"kind"`
	Func   wenc.FuncType   `json:"func,omitempty"`
	Table  wenc.TableType  `json:"table,omitempty"`
	Mem    wenc.Limits     `json:"mem,omitempty"`
	Global wenc.GlobalType `json:"global,omitempty"`
}

func kindName(k byte) string {
	switch k {
	case wenc.ExtFunc:
		return "func"
	case wenc.ExtTable:
		return "table"
	case wenc.ExtMemory:
		return "memory"
	case wenc.ExtGlobal:
		return "global"
	}
	return "?"
}

func typesString(ts []wenc.ValType) string {
	var s []string
	for _, t := range ts {
		s = append(s, wenc.TypeName(t))
	}
	return strings.Join(s, ",")
}

func funcTypeString(f wenc.FuncType) string {
	return "(" + typesString(f.Params) + ")->(" + typesString(f.Results) + ")"
}

func limString(l wenc.Limits) string {
	s := fmt.Sprintf("min=%d", l.Min)
	if l.HasMax {
		s += fmt.Sprintf(",max=%d", l.Max)
	} else {
		s += ",max=none"
	}
	if l.Shared {
		s += ",shared"
	}
	return s
}

func (e Ext) String() string {
	switch e.Kind {
	case wenc.ExtFunc:
		return "func" + funcTypeString(e.Func)
	case wenc.ExtTable:
		return "table(" + wenc.TypeName(e.Table.Elem) + "," + limString(e.Table.Lim) + ")"
	case wenc.ExtMemory:
		return "memory(" + limString(e.Mem) + ")"
	case wenc.ExtGlobal:
		m := "const"
		if e.Global.Mutable {
			m = "mut"
		}
		return "global(" + m + " " + wenc.TypeName(e.Global.Type) + ")"
	}
	return "?"
}

// effMax is the effective maximum of a memory type under the runtime's page
// limit: an absent maximum means "the runtime's page limit" and a declared
// maximum above the limit is capped by it (as wazero documents for
// WithMemoryLimitPages).
func effMax(l wenc.Limits, pageLimit uint32) uint32 {
	if !l.HasMax || l.Max > pageLimit {
		return pageLimit
	}
	return l.Max
}

// Match is the executable import-matching rule. exp is the DECLARED type of
// the exported object, cur its CURRENT size (table elements / memory pages;
// ignored for functions and globals). It returns whether the specification
// allows the import, and if not, why.
func Match(imp, exp Ext, cur uint32, pageLimit uint32) (bool, string) {
	if imp.Kind != exp.Kind {
		return false, "kind:" + kindName(imp.Kind) + "-vs-" + kindName(exp.Kind)
	}
	switch imp.Kind {
	case wenc.ExtFunc:
		if string(imp.Func.Params) != string(exp.Func.Params) {
			return false, "func:params"
		}
		if string(imp.Func.Results) != string(exp.Func.Results) {
			return false, "func:results"
		}
	case wenc.ExtGlobal:
		if imp.Global.Type != exp.Global.Type {
			return false, "global:valtype"
		}
		if imp.Global.Mutable != exp.Global.Mutable {
			return false, "global:mutability"
		}
	case wenc.ExtTable:
		if imp.Table.Elem != exp.Table.Elem {
			return false, "table:elemtype"
		}
		if cur < imp.Table.Lim.Min {
			return false, "table:min"
		}
		if imp.Table.Lim.HasMax {
			if !exp.Table.Lim.HasMax {
				return false, "table:max-absent"
			}
			if exp.Table.Lim.Max > imp.Table.Lim.Max {
				return false, "table:max"
			}
		}
	case wenc.ExtMemory:
		if imp.Mem.Shared != exp.Mem.Shared {
			return false, "memory:shared-flag"
		}
		if cur < imp.Mem.Min {
			return false, "memory:min"
		}
		if effMax(exp.Mem, pageLimit) > effMax(imp.Mem, pageLimit) {
			return false, "memory:max"
		}
	}
	return true, ""
}
