package c02

import (
	"fmt"
	"strings"

	"github.com/tetratelabs/wazero/verifharness/core"
	"github.com/tetratelabs/wazero/verifharness/wenc"
)

// Parameter locals of the generated function f.
const (
	lP0  = 0 // i32
	lP1  = 1 // i32
	lP2  = 2 // i64
	lSel = 3 // i32
	lVal = 4 // i64
	nPar = 5
)

// baseVar is one way a base address is supplied to accesses. All accesses
// that name the same var use the same wasm local (hence, within a block, the
// same SSA value) unless Inline is set, in which case the expression is
// re-emitted at every use.
type baseVar struct {
	Kind   string `json:"kind"` // p0 p1 const lconst add_pp add_pk shl wrap wrap_add
	K      uint32 `json:"k,omitempty"`
	K64    uint64 `json:"k64,omitempty"`
	Inline bool   `json:"inline,omitempty"`
	Local  uint32 `json:"local"`
	// Kind "wrapx": an i32 produced from an i64 whose upper half the engine
	// must ignore; Shape says how: plain (wrap p2) shr0 addv val exts global
	// select call blockparam loopparam tee load.
	Shape string `json:"shape,omitempty"`
	Fixed bool   `json:"fixed,omitempty"` // K was placed by the template family, do not re-draw
}

// selectBit is the bit of sel that the "select" shape tests.
const selectBit = 0x40000000

// lateDef: the local is defined by an access step (local.tee at its first
// use / wrap of a loaded i64), not in the prologue.
func (v *baseVar) lateDef() bool {
	return v.Kind == "wrapx" && (v.Shape == "tee" || v.Shape == "load")
}

func (v *baseVar) describe() string {
	switch v.Kind {
	case "p0", "p1":
		return "param"
	case "const":
		return "const"
	case "lconst":
		return "const-in-local"
	case "wrapx":
		return "wrapped-i64:" + v.Shape
	}
	if v.Inline {
		return "computed-inline:" + v.Kind
	}
	return "computed-in-local:" + v.Kind
}

type step struct {
	Kind string `json:"kind"` // access bump call grow if brif loop brtable
	// access
	ID      int    `json:"id,omitempty"`
	Op      string `json:"op,omitempty"`
	Var     int    `json:"var"`
	Off     uint32 `json:"off,omitempty"`
	Align   uint32 `json:"align,omitempty"`
	Lane    uint32 `json:"lane,omitempty"`
	ValKind string `json:"valkind,omitempty"` // const | param
	C1      uint64 `json:"c1,omitempty"`
	C2      uint64 `json:"c2,omitempty"`
	SrcVar  int    `json:"srcvar,omitempty"`
	SrcK    uint32 `json:"srck,omitempty"`
	NKind   string `json:"nkind,omitempty"`
	N       uint32 `json:"n,omitempty"`
	FillVal uint32 `json:"fillval,omitempty"`
	Res     int    `json:"res"`
	// bump
	Delta uint32 `json:"delta,omitempty"`
	// call / grow
	Callee string `json:"callee,omitempty"`
	Pages  uint32 `json:"pages,omitempty"`
	// control
	Bit  uint32   `json:"bit,omitempty"`
	Body []step   `json:"body,omitempty"`
	Else []step   `json:"else,omitempty"`
	Arms [][]step `json:"arms,omitempty"`
	Ctr  uint32   `json:"ctr,omitempty"` // loop counter local
	// HasElse: emit the else even when empty. TeeDef: this access defines its
	// base var (expr; local.tee). Def>0: i64.load whose wrapped result defines base var Def-1.
	HasElse bool `json:"has_else,omitempty"`
	TeeDef  bool `json:"tee_def,omitempty"`
	Def     int  `json:"def,omitempty"`
}

type template struct {
	InitPages uint32 `json:"init_pages"`
	MaxPages  uint32 `json:"max_pages"` // effective maximum (65536 when none declared)
	HasMax    bool   `json:"has_max"`
	Shared    bool   `json:"shared"`
	Imported  bool   `json:"imported"`
	Private   bool   `json:"private"` // local memory that is not exported
	Data      []byte `json:"data"`

	Vars     []baseVar      `json:"vars"`
	Steps    []step         `json:"steps"`
	ResTypes []wenc.ValType `json:"res_types"`
	NAccess  int            `json:"n_access"`
	nLocals  []wenc.ValType
	limit    int    // >0: accesses with a larger id are not emitted (crash localisation)
	Family   string `json:"family,omitempty"`
	wrapFn   uint32 // index of (func (param i64) (result i32) local.get 0 i32.wrap_i64)
	blockT   uint32 // type index of [i32] -> [i32]
}

var memSizes = []uint32{0, 1, 2, 3, 32767, 32768, 32769, 40000, 65535, 65536}

// pickAddr picks a value from the boundary sets of the design relative to a
// memory of size bytes and an access of w bytes.
func pickAddr(r *core.Rng, size uint64, w uint64) uint64 {
	if w == 0 {
		w = 1
	}
	var v uint64
	switch r.Intn(20) {
	case 0, 1:
		v = uint64(r.Intn(2))
	case 2:
		v = uint64(r.Intn(70))
	case 3, 4, 5, 6, 7, 8: // size-w-1 … size+1
		v = size - w - 1 + uint64(r.Intn(int(w)+3))
	case 9, 10, 11: // 2^31-w … 2^31+1
		v = 1<<31 - w + uint64(r.Intn(int(w)+2))
	case 12, 13: // 2^32-w … 2^32-1
		v = 1<<32 - w + uint64(r.Intn(int(w)))
	case 14: // page boundaries
		if size > 0 {
			p := r.U64() % (size / pageSize)
			v = p*pageSize - w + uint64(r.Intn(int(w)+1))
		}
	case 15, 16: // uniformly in bounds
		if size > w {
			v = r.U64() % (size - w + 1)
		}
	case 17:
		v = uint64(r.I32())
	default:
		v = uint64(r.U32())
	}
	return v & 0xffffffff
}

// pickInb picks an address at which a w-byte access is in bounds (when the
// memory is large enough), biased to the interesting in-bounds places: the
// last bytes, around 2^31, page boundaries, the first bytes.
func pickInb(r *core.Rng, size uint64, w uint64) uint64 {
	if w == 0 {
		w = 1
	}
	if size < w {
		return 0
	}
	var v uint64
	switch r.Intn(8) {
	case 0:
		v = size - w - uint64(r.Intn(3))
	case 1:
		v = 1<<31 - w + uint64(r.Intn(int(w)+2))
	case 2:
		v = uint64(r.Intn(64))
	case 3:
		p := r.U64() % (size / pageSize)
		v = p*pageSize - w + uint64(r.Intn(int(w)+1))
	case 4:
		v = size - w - uint64(r.Intn(256))
	default:
		v = r.U64() % (size - w + 1)
	}
	if v+w > size { // also catches the wrap below 0
		v = r.U64() % (size - w + 1)
	}
	return v
}

// pickOffset: static offsets: mostly 0 / small, otherwise in-bounds places or the boundary sets.
func pickOffset(r *core.Rng, size uint64, w uint64) uint32 {
	switch r.Intn(20) {
	case 0, 1, 2, 3, 4, 5, 6, 7, 8:
		return 0
	case 9, 10, 11, 12:
		return uint32(1 + r.Intn(64))
	case 13, 14, 15, 16:
		return uint32(pickInb(r, size, w))
	}
	return uint32(pickAddr(r, size, w))
}

// pickConst: a constant base address: in bounds 60% of the time.
func pickConst(r *core.Rng, size uint64, w uint64) uint32 {
	if r.Chance(3, 5) {
		return uint32(pickInb(r, size, w))
	}
	return uint32(pickAddr(r, size, w))
}

func genTemplate(r *core.Rng) *template {
	t := &template{}
	t.InitPages = memSizes[r.Intn(len(memSizes))]
	if r.Chance(1, 12) { // a few other sizes
		t.InitPages = uint32(r.Intn(6))
	}
	t.Shared = r.Chance(1, 6)
	t.Imported = r.Chance(1, 3)
	t.Private = !t.Imported && r.Chance(2, 5)
	switch {
	case t.Shared || r.Chance(2, 3):
		t.HasMax = true
		t.MaxPages = t.InitPages + uint32(r.Intn(7))
		if r.Chance(1, 8) {
			t.MaxPages = t.InitPages
		}
		if t.MaxPages > 65536 {
			t.MaxPages = 65536
		}
	default:
		t.MaxPages = 65536
	}
	t.Data = r.Bytes(r.Intn(80))
	size := uint64(t.InitPages) * pageSize

	if r.Chance(1, 4) {
		return genWrapFamily(r, t, size)
	}
	// base vars
	nv := 1 + r.Intn(3)
	for i := 0; i < nv; i++ {
		var v baseVar
		switch r.Intn(12) {
		case 0, 1:
			v.Kind = "p0"
		case 2:
			v.Kind = "p1"
		case 3:
			v.Kind = "const"
			v.K = pickConst(r, size, uint64(1<<r.Intn(4)))
		case 4, 5, 6:
			v.Kind = "lconst"
			v.K = pickConst(r, size, uint64(1<<r.Intn(4)))
		case 7:
			v.Kind = "add_pp"
		case 8:
			v.Kind = "add_pk"
			v.K = uint32(pickAddr(r, size, 8))
			if r.Bool() {
				v.K = uint32(r.Intn(256))
			}
		case 9:
			v.Kind = "shl"
			v.K = uint32(r.Intn(4))
			if r.Chance(1, 5) {
				v.K = 16
			}
		case 10:
			v.Kind = "wrap"
		case 11:
			v.Kind = "wrap_add"
			v.K64 = r.I64()
		}
		switch v.Kind {
		case "add_pp", "add_pk", "shl", "wrap", "wrap_add":
			v.Inline = r.Chance(1, 3)
		}
		t.Vars = append(t.Vars, v)
	}
	// locals
	t.nLocals = nil
	next := uint32(nPar)
	for i := range t.Vars {
		v := &t.Vars[i]
		switch v.Kind {
		case "p0":
			v.Local = lP0
		case "p1":
			v.Local = lP1
		case "const":
		default:
			if !v.Inline {
				v.Local = next
				next++
				t.nLocals = append(t.nLocals, wenc.I32)
			}
		}
	}
	g := &tgen{r: r, t: t, size: size, nextLocal: next, budget: 1 + r.Intn(8)}
	// favourite var: most accesses reuse it
	g.fav = r.Intn(len(t.Vars))
	if t.InitPages == 0 && t.MaxPages > 0 && r.Bool() {
		// an empty memory: the only thing that does not trap is a bulk operation
		// of dynamic length 0; do one (it makes the function read the memory
		// base while the memory is empty), grow, and go on
		first := g.accessOf(opByName[[]string{"memory.copy", "memory.fill", "memory.init"}[r.Intn(3)]])
		first.NKind = "p1"
		if first.SrcVar < 0 {
			first.SrcK = 0
		}
		g.budget--
		grow := step{Kind: "call", Callee: []string{"grow", "hostgrow", "hostreenter"}[r.Intn(3)], Pages: uint32(1 + r.Intn(int(t.MaxPages)))}
		if t.Imported && r.Bool() {
			grow.Callee = "xgrow"
		}
		if r.Chance(1, 4) {
			grow = step{Kind: "grow", Pages: grow.Pages}
		}
		t.Steps = append(t.Steps, first, grow)
		if g.budget <= 0 {
			g.budget = 1
		}
	}
	t.Steps = append(t.Steps, g.seq(0)...)
	if t.NAccess == 0 {
		t.Steps = append(t.Steps, g.access())
	}
	// constant bases: 60% such that every access through them is in bounds
	// (and aligned when atomics use them), else from the boundary sets
	ceil, atomic := t.ceilings(0)
	for i := range t.Vars {
		v := &t.Vars[i]
		if (v.Kind != "const" && v.Kind != "lconst") || v.Fixed {
			continue
		}
		if r.Chance(3, 5) {
			v.K = uint32(pickInb(r, size, ceil[i]))
			if atomic[i] && r.Chance(4, 5) {
				v.K &^= 7
			}
		} else {
			v.K = uint32(pickAddr(r, size, uint64(1<<r.Intn(4))))
		}
	}
	return t
}

var wrapShapes = []string{"plain", "shr0", "addv", "val", "exts", "global", "select", "call", "blockparam", "loopparam", "tee", "load"}

// genWrapFamily: the "wrapped i64" family. The base address is an i32 whose
// defining instruction leaves the upper half of the 64-bit register
// unspecified unless the engine zero-extends it (i32.wrap_i64 of a
// parameter / global / load result / i64 arithmetic result / sign-extended
// i32, select of wrapped values, local.tee, call result, block or loop
// parameter). It is used for a first access and then for repeat accesses of
// the same value after an if/else merge, a br_if continuation, a loop header
// (several iterations), a br_table, a call, a memory.grow. The tuples give the
// i64 source a non-zero upper half while the low half is in bounds.
func genWrapFamily(r *core.Rng, t *template, size uint64) *template {
	t.Family = "wrapped-i64:"
	if t.InitPages == 0 { // the point is in-bounds low halves
		t.InitPages = uint32(1 + r.Intn(3))
		if t.MaxPages < t.InitPages {
			t.MaxPages = t.InitPages + uint32(r.Intn(3))
		}
		size = uint64(t.InitPages) * pageSize
	}
	shape := wrapShapes[r.Intn(len(wrapShapes))]
	next := uint32(nPar)
	newVarLocal := func() uint32 {
		t.nLocals = append(t.nLocals, wenc.I32)
		next++
		return next - 1
	}
	t.Vars = []baseVar{{Kind: "wrapx", Shape: shape, Local: newVarLocal()}}
	other := baseVar{Kind: "p1", Local: lP1}
	if shape == "exts" || r.Bool() {
		other = baseVar{Kind: "lconst", K: uint32(64 + 8*r.Intn(64)), Fixed: true, Local: newVarLocal()}
	}
	t.Vars = append(t.Vars, other)
	g := &tgen{r: r, t: t, size: size, nextLocal: next, budget: 8}
	var out []step
	if shape == "load" {
		// i64.store p2 at a fixed in-bounds place, load it back, wrap -> base var 0
		c := baseVar{Kind: "lconst", K: uint32(1024 + 8*r.Intn(64)), Fixed: true, Local: g.newLocal(wenc.I32)}
		t.Vars = append(t.Vars, c)
		st := g.accessOf(opByName["i64.store"])
		st.Var, st.Off, st.Align, st.ValKind = 2, 0, 3, "p2"
		t.NAccess++
		ld := step{Kind: "access", ID: t.NAccess, Op: "i64.load", Var: 2, Align: 3, Res: -1, SrcVar: -1, Def: 1, ValKind: "const"}
		out = append(out, st, ld)
	}
	// first access: the widest one, so that the repeats are covered by its bound
	pickPlain := func(maxW uint32) *memOp {
		for {
			o := g.pickOp()
			if o.Width == 0 {
				if maxW == 0 || r.Chance(1, 6) {
					return o
				}
				continue
			}
			if maxW == 0 || o.Width <= maxW {
				return o
			}
		}
	}
	a := g.accessOf(pickPlain(0))
	a.Var = 0
	ao := opByName[a.Op]
	switch r.Intn(10) {
	case 0, 1, 2, 3, 4:
		a.Off = 0
	case 5, 6, 7:
		a.Off = uint32(r.Intn(64))
	default:
		a.Off = uint32(pickInb(r, size, 16)) / 2
	}
	if ao.Atomic {
		a.Off &^= ao.Width - 1
	}
	if ao.Width == 0 {
		a.Off = 0
		a.NKind = "const"
		a.N = uint32(r.Intn(64))
	}
	if shape == "tee" {
		a.TeeDef = true
	}
	out = append(out, a)
	ceilW := ao.Width
	if ceilW == 0 {
		ceilW = 16
	}
	repeat := func() step {
		b := g.accessOf(pickPlain(ceilW))
		b.Var = 0
		bo := opByName[b.Op]
		if bo.Width == 0 {
			b.NKind = "const"
			b.N = uint32(r.Intn(int(ceilW) + 1))
			if b.SrcVar >= 0 {
				b.SrcVar = 0
			}
			return b
		}
		b.Off = a.Off
		if ao.Width > bo.Width {
			b.Off += uint32(r.Intn(int(ao.Width-bo.Width)+1)) &^ (bo.Width - 1)
		}
		if bo.Atomic {
			b.Off &^= bo.Width - 1
		}
		return b
	}
	otherAccess := func() step {
		b := g.accessOf(pickPlain(16))
		b.Var = 1
		if opByName[b.Op].Width == 0 {
			b.NKind, b.N = "const", uint32(r.Intn(16))
			if b.SrcVar >= 0 {
				b.SrcVar = 1
			}
		} else {
			b.Off = uint32(r.Intn(32)) &^ (opByName[b.Op].Width - 1)
		}
		return b
	}
	n := 1 + r.Intn(3)
	for i := 0; i < n; i++ {
		switch r.Intn(12) {
		case 0, 1:
			out = append(out, step{Kind: "if", Bit: g.bit(), HasElse: true})
		case 2:
			out = append(out, step{Kind: "if", Bit: g.bit(), HasElse: true, Body: []step{repeat()}})
		case 3:
			out = append(out, step{Kind: "if", Bit: g.bit(), HasElse: true, Body: []step{repeat()}, Else: []step{otherAccess()}})
		case 4:
			out = append(out, step{Kind: "if", Bit: g.bit(), HasElse: r.Bool()})
		case 5:
			out = append(out, step{Kind: "brif", Bit: g.bit()})
		case 6:
			out = append(out, step{Kind: "brif", Bit: g.bit(), Body: []step{repeat()}})
		case 7:
			l := step{Kind: "loop", Bit: g.bit(), Ctr: g.newLocal(wenc.I32), Body: []step{repeat()}}
			l.N = uint32(2 + r.Intn(3))
			if r.Chance(1, 3) {
				l.Body = append(l.Body, step{Kind: "call", Callee: "nop"})
			}
			out = append(out, l)
		case 8:
			bt := step{Kind: "brtable", Bit: g.bit()}
			g.bit()
			bt.Arms = [][]step{nil, {repeat()}}
			if r.Bool() {
				bt.Arms = append(bt.Arms, []step{otherAccess()})
			}
			out = append(out, bt)
		case 9:
			out = append(out, step{Kind: "call", Callee: []string{"nop", "hostnop"}[r.Intn(2)]})
		case 10:
			out = append(out, step{Kind: "call", Callee: []string{"grow", "hostgrow", "hostreenter"}[r.Intn(3)], Pages: uint32(r.Intn(2))})
		case 11:
			out = append(out, step{Kind: "grow", Pages: uint32(r.Intn(2))})
		}
		out = append(out, repeat())
	}
	t.Steps = out
	return t
}

type tgen struct {
	r         *core.Rng
	t         *template
	size      uint64
	nextLocal uint32
	budget    int
	fav       int
	lastOff   uint32
	lastW     uint32
	bits      uint32
}

func (g *tgen) newLocal(ty wenc.ValType) uint32 {
	g.t.nLocals = append(g.t.nLocals, ty)
	l := g.nextLocal
	g.nextLocal++
	return l
}

func (g *tgen) bit() uint32 {
	b := g.bits
	g.bits = (g.bits + 1) % 30
	return b
}

func (g *tgen) pickVar() int {
	if g.r.Chance(7, 10) {
		return g.fav
	}
	return g.r.Intn(len(g.t.Vars))
}

// weighted choice of an instruction.
func (g *tgen) pickOp() *memOp {
	r := g.r
	classes := []string{clLoad, clLoad, clLoad, clLoad, clStore, clStore, clStore, clVLoad, clVStore, clVExtend, clVSplat, clVZero, clVLoadLane, clVStoreLn,
		clALoad, clAStore, clARmw, clACmpxchg, clANotify, clAWait, clFill, clCopy, clInit}
	for {
		cl := classes[r.Intn(len(classes))]
		if cl == clAWait && !g.t.Shared {
			continue
		}
		var cand []*memOp
		for _, o := range ops {
			if o.Class == cl {
				cand = append(cand, o)
			}
		}
		return cand[r.Intn(len(cand))]
	}
}

func (g *tgen) access() step { return g.accessOf(nil) }

func (g *tgen) accessOf(o *memOp) step {
	r := g.r
	t := g.t
	if o == nil {
		o = g.pickOp()
	}
	t.NAccess++
	s := step{Kind: "access", ID: t.NAccess, Op: o.Name, Var: g.pickVar(), Res: -1, SrcVar: -1}
	w := uint64(o.Width)
	switch o.Class {
	case clFill, clCopy, clInit:
		s.NKind = "const"
		switch r.Intn(10) {
		case 0:
			s.N = 0
		case 1, 2:
			s.N = uint32(1 + r.Intn(16))
		case 3:
			s.N = uint32(pageSize - 2 + r.Intn(5))
		case 4:
			s.N = uint32(pickAddr(r, g.size, 1))
		case 5:
			s.NKind = "p1"
		default:
			s.N = uint32(r.Intn(300))
		}
		s.FillVal = r.U32()
		switch o.Class {
		case clCopy:
			if r.Bool() {
				s.SrcVar = r.Intn(len(t.Vars))
			} else {
				s.SrcK = uint32(pickAddr(r, g.size, uint64(s.N)))
			}
		case clInit:
			s.SrcK = uint32(r.Intn(len(t.Data) + 1))
			if s.NKind == "const" {
				s.N = uint32(r.Intn(len(t.Data) - int(s.SrcK) + 1))
			}
			switch r.Intn(10) {
			case 0:
				s.SrcK = r.I32()
			case 1:
				s.SrcK = uint32(len(t.Data) + r.Intn(2))
			case 2:
				s.N = uint32(len(t.Data)) - s.SrcK + uint32(r.Intn(2))
			case 3:
				s.N = r.I32()
			}
		}
	default:
		// static offset: often reuse the previous offset (same or smaller
		// ceiling: the elided-check path) else boundary sets
		switch {
		case g.lastW != 0 && r.Chance(4, 10):
			s.Off = g.lastOff
			if uint32(w) > g.lastW && s.Off >= uint32(w)-g.lastW && r.Bool() {
				s.Off -= uint32(w) - g.lastW
			}
		default:
			s.Off = pickOffset(r, g.size, w)
		}
		if o.Atomic {
			s.Align = o.natAlign()
			if r.Chance(4, 5) {
				s.Off &^= uint32(w) - 1
			}
		} else {
			s.Align = uint32(r.Intn(int(o.natAlign()) + 1))
		}
		g.lastOff, g.lastW = s.Off, uint32(w)
	}
	s.ValKind = "const"
	s.C1, s.C2 = r.I64(), r.I64()
	if r.Chance(1, 4) {
		switch o.Class {
		case clStore, clAStore, clARmw, clVStore:
			if o.T == wenc.I32 || o.T == wenc.I64 || o.T == wenc.V128 {
				s.ValKind = "param"
			}
		}
	}
	if o.T == wenc.I32 || o.T == wenc.F32 {
		if o.Class != clVLoadLane && o.Class != clVStoreLn {
			s.C1 &= 0xffffffff
			s.C2 &= 0xffffffff
		}
	}
	if o.Class == clVLoadLane || o.Class == clVStoreLn {
		s.Lane = uint32(r.Intn(int(16 / o.Lane)))
	}
	if o.produces() {
		s.Res = len(t.ResTypes)
		t.ResTypes = append(t.ResTypes, o.T)
	}
	return s
}

func (g *tgen) between() []step {
	r := g.r
	var out []step
	if !r.Chance(11, 20) {
		return nil
	}
	n := 1
	if r.Chance(1, 5) {
		n = 2
	}
	for i := 0; i < n; i++ {
		switch r.Intn(10) {
		case 0, 1, 2:
			if r.Chance(1, 4) {
				out = append(out, step{Kind: "call", Callee: "hostwrite", SrcK: uint32(pickInb(r, g.size, 4)), FillVal: r.U32()})
				continue
			}
			c := []string{"nop", "hostnop", "nop"}
			if g.t.Imported {
				c = append(c, "xnop")
			}
			out = append(out, step{Kind: "call", Callee: c[r.Intn(len(c))]})
		case 3, 4, 5:
			c := []string{"grow", "hostgrow", "hostgrow", "hostreenter"}
			if g.t.Imported {
				c = append(c, "xgrow", "xgrow")
			}
			out = append(out, step{Kind: "call", Callee: c[r.Intn(len(c))], Pages: g.growDelta()})
		case 6, 7:
			out = append(out, step{Kind: "grow", Pages: g.growDelta()})
		case 8, 9:
			// bump a var that lives in a local
			v := g.pickVar()
			bv := &g.t.Vars[v]
			if bv.Kind == "const" || bv.Inline {
				continue
			}
			d := []uint32{1, 2, 4, 8, 8, 16, 0xffffffff, 0xfffffffc, 0xfffffff8, 0xfffffff8}
			if r.Chance(1, 6) {
				d = []uint32{pageSize, 0x80000000, 0xffff0000, r.U32()}
			}
			out = append(out, step{Kind: "bump", Var: v, Delta: d[r.Intn(len(d))]})
		}
	}
	return out
}

func (g *tgen) growDelta() uint32 {
	switch g.r.Intn(10) {
	case 0:
		return 0
	case 1:
		return 2
	case 2:
		return 3
	case 3:
		return 65536
	}
	return 1
}

// seq generates a sequence of accesses, between-events and control structures.
func (g *tgen) seq(depth int) []step {
	r := g.r
	var out []step
	first := true
	for g.budget > 0 {
		if !first {
			out = append(out, g.between()...)
		}
		first = false
		if depth < 2 && g.budget >= 1 && r.Chance(1, 4) {
			switch r.Intn(4) {
			case 0:
				s := step{Kind: "if", Bit: g.bit()}
				s.Body = g.arm(depth + 1)
				if r.Chance(2, 3) {
					s.Else = g.arm(depth + 1)
				}
				out = append(out, s)
				out = append(out, g.afterJoin([][]step{s.Body, s.Else})...)
			case 1:
				s := step{Kind: "brif", Bit: g.bit()}
				s.Body = g.arm(depth + 1)
				out = append(out, s)
			case 2:
				s := step{Kind: "loop", Bit: g.bit(), Ctr: g.newLocal(wenc.I32)}
				s.Body = g.arm(depth + 1)
				if r.Bool() {
					s.Body = append(s.Body, g.between()...)
				}
				out = append(out, s)
			case 3:
				s := step{Kind: "brtable", Bit: g.bit()}
				g.bit()
				na := 2 + r.Intn(2)
				for i := 0; i < na; i++ {
					s.Arms = append(s.Arms, g.arm(depth+1))
				}
				out = append(out, s)
				out = append(out, g.afterJoin(s.Arms)...)
			}
			if depth > 0 && r.Bool() {
				break
			}
			continue
		}
		g.budget--
		out = append(out, g.access())
		if depth > 0 && r.Chance(1, 2) {
			break
		}
	}
	return out
}

// afterJoin implements the "diverging arms" pattern: the first plain access
// of each arm is made to go through a different base var, and right after the
// join one of those vars is used again with the same offset and a width that
// is not larger. Only the arm that was executed has checked its base value;
// a bound "known" from the other arm must not survive the join.
func (g *tgen) afterJoin(arms [][]step) []step {
	r := g.r
	if len(g.t.Vars) < 2 || g.budget <= 0 || !r.Chance(1, 2) {
		return nil
	}
	var firsts []*step
	for _, a := range arms {
		for i := range a {
			if a[i].Kind == "access" && opByName[a[i].Op].Width != 0 {
				firsts = append(firsts, &a[i])
				break
			}
		}
	}
	if len(firsts) < 2 {
		return nil
	}
	v0 := r.Intn(len(g.t.Vars))
	for i, f := range firsts {
		f.Var = (v0 + i) % len(g.t.Vars)
	}
	pick := firsts[r.Intn(len(firsts))]
	g.budget--
	s := g.access()
	o := opByName[s.Op]
	if o.Width == 0 || o.Width > opByName[pick.Op].Width || o.Atomic {
		// replace by a narrow plain load
		g.t.ResTypes = g.t.ResTypes[:len(g.t.ResTypes)-btoi(s.Res >= 0)]
		s.Op, s.Align, s.Res, s.SrcVar = "i32.load8_u", 0, len(g.t.ResTypes), -1
		g.t.ResTypes = append(g.t.ResTypes, wenc.I32)
	}
	s.Var, s.Off = pick.Var, pick.Off
	return []step{s}
}

func btoi(b bool) int {
	if b {
		return 1
	}
	return 0
}

// arm: a short sub-sequence (possibly empty, possibly only a call/grow).
func (g *tgen) arm(depth int) []step {
	r := g.r
	switch {
	case g.budget <= 0 || r.Chance(1, 8):
		if r.Bool() {
			return g.between()
		}
		return nil
	}
	var out []step
	if r.Chance(1, 4) {
		out = append(out, g.between()...)
	}
	out = append(out, g.seq(depth)...)
	if r.Chance(1, 4) {
		out = append(out, g.between()...)
	}
	return out
}

// ceilings returns per var the largest offset+width of the accesses through
// it (p1 = current value of parameter 1 for bulk lengths taken from it) and
// whether an atomic access uses it.
func (t *template) ceilings(p1 uint32) (ceil []uint64, atomic []bool) {
	ceil = make([]uint64, len(t.Vars))
	atomic = make([]bool, len(t.Vars))
	for _, a := range t.flat() {
		o := opByName[a.Op]
		w, off := uint64(o.Width), uint64(a.Off)
		if o.Width == 0 {
			w, off = uint64(a.N), 0
			if a.NKind == "p1" {
				w = uint64(p1)
			}
			if o.Class == clCopy && a.SrcVar >= 0 && w > ceil[a.SrcVar] {
				ceil[a.SrcVar] = w
			}
		}
		if off+w > ceil[a.Var] {
			ceil[a.Var] = off + w
		}
		if o.Atomic {
			atomic[a.Var] = true
		}
	}
	return
}

// shape is the canonical structure of a template without the numbers: the
// "distinct templates" evidence is the number of distinct shapes.
func (t *template) shape() string {
	var sb strings.Builder
	fmt.Fprintf(&sb, "%smem=%d/%v/%v/%v/%v|", t.Family, t.InitPages, t.HasMax, t.Shared, t.Imported, t.Private)
	for _, v := range t.Vars {
		sb.WriteString(v.describe() + ";")
	}
	var walk func(ss []step)
	walk = func(ss []step) {
		for i := range ss {
			s := &ss[i]
			switch s.Kind {
			case "access":
				fmt.Fprintf(&sb, "%s@%d ", s.Op, s.Var)
			case "bump":
				fmt.Fprintf(&sb, "bump%d ", s.Var)
			case "call":
				sb.WriteString("call:" + s.Callee + " ")
			case "grow":
				sb.WriteString("grow ")
			case "if":
				sb.WriteString("if{")
				walk(s.Body)
				sb.WriteString("}else{")
				walk(s.Else)
				sb.WriteString("} ")
			case "brif":
				sb.WriteString("brif{")
				walk(s.Body)
				sb.WriteString("} ")
			case "loop":
				sb.WriteString("loop{")
				walk(s.Body)
				sb.WriteString("} ")
			case "brtable":
				sb.WriteString("brtable{")
				for _, a := range s.Arms {
					walk(a)
					sb.WriteString("|")
				}
				sb.WriteString("} ")
			}
		}
	}
	walk(t.Steps)
	return sb.String()
}

// flat returns all access steps in static order.
func (t *template) flat() []*step {
	var out []*step
	var walk func(ss []step)
	walk = func(ss []step) {
		for i := range ss {
			s := &ss[i]
			switch s.Kind {
			case "access":
				out = append(out, s)
			default:
				walk(s.Body)
				walk(s.Else)
				for _, a := range s.Arms {
					walk(a)
				}
			}
		}
	}
	walk(t.Steps)
	return out
}

// ---- wasm emission ----

const (
	fnHostNop     = 0
	fnHostGrow    = 1
	fnHostReenter = 2 // host function that calls back into the exported guest function "growx" (memory.grow)
	fnHostWrite   = 3 // host function that writes 4 bytes through api.Memory
)

type funcIdx struct{ xnop, xgrow, nop, grow, f, probe uint32 }

func (t *template) indices() funcIdx {
	var x funcIdx
	n := uint32(4)
	if t.Imported {
		x.xnop, x.xgrow = 4, 5
		n = 6
	}
	x.nop, x.grow, x.f, x.probe = n, n+1, n+2, n+3
	return x
}

func (t *template) limits() wenc.Limits {
	return wenc.Limits{Min: t.InitPages, Max: t.MaxPages, HasMax: t.HasMax, Shared: t.Shared}
}

// exporter builds the module "env" that owns the memory when it is imported.
func (t *template) exporter() []byte {
	m := &wenc.Module{}
	m.Mems = []wenc.Limits{t.limits()}
	nop := m.AddFunc(nil, nil, nil, (&wenc.Code{}).End().B)
	grow := m.AddFunc([]wenc.ValType{wenc.I32}, []wenc.ValType{wenc.I32}, nil, (&wenc.Code{}).LocalGet(0).MemoryGrow().End().B)
	m.ExportFunc("nop", nop)
	m.ExportFunc("grow", grow)
	m.Exports = append(m.Exports, wenc.Export{Name: "mem", Kind: wenc.ExtMemory, Idx: 0})
	return m.Encode()
}

func (t *template) module() []byte {
	m := &wenc.Module{}
	m.ImportFunc("host", "nop", nil, nil)
	m.ImportFunc("host", "grow", []wenc.ValType{wenc.I32}, []wenc.ValType{wenc.I32})
	m.ImportFunc("host", "reenter", []wenc.ValType{wenc.I32}, []wenc.ValType{wenc.I32})
	m.ImportFunc("host", "write", []wenc.ValType{wenc.I32, wenc.I32}, nil)
	if t.Imported {
		m.ImportFunc("env", "nop", nil, nil)
		m.ImportFunc("env", "grow", []wenc.ValType{wenc.I32}, []wenc.ValType{wenc.I32})
		m.Imports = append(m.Imports, wenc.Import{Module: "env", Name: "mem", Kind: wenc.ExtMemory, Mem: t.limits()})
	} else {
		m.Mems = []wenc.Limits{t.limits()}
		if !t.Private { // a private memory is observed through the allocator's mapping only
			m.Exports = append(m.Exports, wenc.Export{Name: "mem", Kind: wenc.ExtMemory, Idx: 0})
		}
	}
	m.Globals = []wenc.Global{{Type: wenc.GlobalType{Type: wenc.I32, Mutable: true}, Init: wenc.ConstI32(0)},
		{Type: wenc.GlobalType{Type: wenc.I64, Mutable: true}, Init: wenc.ConstI64(0)}}
	t.blockT = m.AddType([]wenc.ValType{wenc.I32}, []wenc.ValType{wenc.I32})
	t.wrapFn = t.indices().probe + 1
	m.Exports = append(m.Exports, wenc.Export{Name: "progress", Kind: wenc.ExtGlobal, Idx: 0})
	m.Datas = []wenc.Data{{Mode: 1, Bytes: t.Data}}
	m.DataCount = true
	x := t.indices()
	m.AddFunc(nil, nil, nil, (&wenc.Code{}).End().B)
	gx := m.AddFunc([]wenc.ValType{wenc.I32}, []wenc.ValType{wenc.I32}, nil, (&wenc.Code{}).LocalGet(0).MemoryGrow().End().B)
	m.ExportFunc("growx", gx)

	// f
	locals := append([]wenc.ValType(nil), t.nLocals...)
	resBase := uint32(nPar + len(locals))
	locals = append(locals, t.ResTypes...)
	c := &wenc.Code{}
	c.I32Const(0).GlobalSet(0) // progress: no access started yet
	for i := range t.Vars {
		v := &t.Vars[i]
		if v.Inline || v.Kind == "p0" || v.Kind == "p1" || v.Kind == "const" || v.lateDef() {
			continue
		}
		t.emitExpr(c, v)
		c.LocalSet(v.Local)
	}
	t.emitSteps(c, t.Steps, x, resBase)
	for i := range t.ResTypes {
		c.LocalGet(resBase + uint32(i))
	}
	c.End()
	f := m.AddFunc([]wenc.ValType{wenc.I32, wenc.I32, wenc.I64, wenc.I32, wenc.I64}, t.ResTypes, locals, c.B)
	m.ExportFunc("f", f)
	// probe: byte load at the address given
	p := m.AddFunc([]wenc.ValType{wenc.I32}, []wenc.ValType{wenc.I32}, nil, (&wenc.Code{}).LocalGet(0).Mem(0x2d, 0, 0).End().B)
	m.ExportFunc("probe", p)
	w := m.AddFunc([]wenc.ValType{wenc.I64}, []wenc.ValType{wenc.I32}, nil, (&wenc.Code{}).LocalGet(0).Op(0xa7).End().B)
	if f != x.f || p != x.probe || w != t.wrapFn {
		panic("function index bookkeeping")
	}
	return m.Encode()
}

func (t *template) emitExpr(c *wenc.Code, v *baseVar) {
	switch v.Kind {
	case "const", "lconst":
		c.I32Const(int32(v.K))
	case "add_pp":
		c.LocalGet(lP0).LocalGet(lP1).Op(0x6a)
	case "add_pk":
		c.LocalGet(lP0).I32Const(int32(v.K)).Op(0x6a)
	case "shl":
		c.LocalGet(lP0).I32Const(int32(v.K)).Op(0x74)
	case "wrap":
		c.LocalGet(lP2).Op(0xa7)
	case "wrap_add":
		c.LocalGet(lP2).I64Const(int64(v.K64)).Op(0x7c).Op(0xa7)
	case "wrapx":
		switch v.Shape {
		case "plain", "tee":
			c.LocalGet(lP2).Op(0xa7)
		case "shr0":
			c.LocalGet(lP2).I64Const(0).Op(0x88).Op(0xa7)
		case "addv":
			c.LocalGet(lP2).LocalGet(lVal).Op(0x7c).Op(0xa7)
		case "val":
			c.LocalGet(lVal).Op(0xa7)
		case "exts":
			c.LocalGet(lP0).Op(0xac).Op(0xa7)
		case "global":
			c.LocalGet(lP2).GlobalSet(1).GlobalGet(1).Op(0xa7)
		case "select":
			c.LocalGet(lP2).Op(0xa7).LocalGet(lVal).Op(0xa7).LocalGet(lSel).I32Const(selectBit).Op(0x71).Select()
		case "call":
			c.LocalGet(lP2).Call(t.wrapFn)
		case "blockparam":
			c.LocalGet(lP2).Op(0xa7).BlockT(0x02, t.blockT).End()
		case "loopparam":
			c.LocalGet(lP2).Op(0xa7).BlockT(0x03, t.blockT).End()
		default:
			panic("emitExpr wrapx " + v.Shape)
		}
	default:
		panic("emitExpr " + v.Kind)
	}
}

func (t *template) emitVar(c *wenc.Code, i int) {
	v := &t.Vars[i]
	switch {
	case v.Kind == "const" || v.Inline:
		t.emitExpr(c, v)
	default:
		c.LocalGet(v.Local)
	}
}

func (t *template) emitSteps(c *wenc.Code, ss []step, x funcIdx, resBase uint32) {
	for i := range ss {
		s := &ss[i]
		switch s.Kind {
		case "access":
			t.emitAccess(c, s, resBase)
		case "bump":
			l := t.Vars[s.Var].Local
			c.LocalGet(l).I32Const(int32(s.Delta)).Op(0x6a).LocalSet(l)
		case "call":
			switch s.Callee {
			case "nop":
				c.Call(x.nop)
			case "hostnop":
				c.Call(fnHostNop)
			case "xnop":
				c.Call(x.xnop)
			case "grow":
				c.I32Const(int32(s.Pages)).Call(x.grow).Drop()
			case "hostgrow":
				c.I32Const(int32(s.Pages)).Call(fnHostGrow).Drop()
			case "hostreenter":
				c.I32Const(int32(s.Pages)).Call(fnHostReenter).Drop()
			case "hostwrite":
				c.I32Const(int32(s.SrcK)).I32Const(int32(s.FillVal)).Call(fnHostWrite)
			case "xgrow":
				c.I32Const(int32(s.Pages)).Call(x.xgrow).Drop()
			}
		case "grow":
			c.I32Const(int32(s.Pages)).MemoryGrow().Drop()
		case "if":
			c.LocalGet(lSel).I32Const(int32(1) << s.Bit).Op(0x71).If(0x40)
			t.emitSteps(c, s.Body, x, resBase)
			if s.Else != nil || s.HasElse {
				c.Else()
				t.emitSteps(c, s.Else, x, resBase)
			}
			c.End()
		case "brif":
			c.Block(0x40)
			c.LocalGet(lSel).I32Const(int32(1) << s.Bit).Op(0x71).BrIf(0)
			t.emitSteps(c, s.Body, x, resBase)
			c.End()
		case "loop":
			// ctr = 1 + ((sel >> bit) & 1)
			if s.N > 0 {
				c.I32Const(int32(s.N)).LocalSet(s.Ctr)
			} else {
				c.LocalGet(lSel).I32Const(int32(s.Bit)).Op(0x76).I32Const(1).Op(0x71).I32Const(1).Op(0x6a).LocalSet(s.Ctr)
			}
			c.Loop(0x40)
			t.emitSteps(c, s.Body, x, resBase)
			c.LocalGet(s.Ctr).I32Const(1).Op(0x6b).LocalTee(s.Ctr).BrIf(0)
			c.End()
		case "brtable":
			n := len(s.Arms)
			c.Block(0x40) // out
			for i := 0; i < n; i++ {
				c.Block(0x40)
			}
			var ls []uint32
			for i := 0; i < n-1; i++ {
				ls = append(ls, uint32(i))
			}
			c.LocalGet(lSel).I32Const(int32(s.Bit)).Op(0x76).I32Const(3).Op(0x71).BrTable(ls, uint32(n-1))
			for i := 0; i < n; i++ {
				c.End()
				t.emitSteps(c, s.Arms[i], x, resBase)
				if i < n-1 {
					c.Br(uint32(n - 1 - i))
				}
			}
			c.End()
		}
	}
}

func emitConst(c *wenc.Code, ty wenc.ValType, lo, hi uint64) {
	switch ty {
	case wenc.I32:
		c.I32Const(int32(uint32(lo)))
	case wenc.I64:
		c.I64Const(int64(lo))
	case wenc.F32:
		c.F32Const(uint32(lo))
	case wenc.F64:
		c.F64Const(lo)
	case wenc.V128:
		c.V128Const(lo, hi)
	}
}

func (t *template) emitOperand(c *wenc.Code, s *step, ty wenc.ValType) {
	if s.ValKind == "p2" { // i64 stores only
		c.LocalGet(lP2)
		return
	}
	if s.ValKind == "param" {
		switch ty {
		case wenc.I32:
			c.LocalGet(lVal).Op(0xa7)
		case wenc.I64:
			c.LocalGet(lVal)
		case wenc.V128:
			c.LocalGet(lVal).Prefixed(0xfd, 18) // i64x2.splat
		default:
			panic("param operand type")
		}
		return
	}
	emitConst(c, ty, s.C1, s.C2)
}

func (t *template) emitAccess(c *wenc.Code, s *step, resBase uint32) {
	o := opByName[s.Op]
	if t.limit > 0 && s.ID > t.limit {
		return
	}
	c.GlobalGet(0).I32Const(1).Op(0x6a).GlobalSet(0) // progress = number of accesses started
	if s.TeeDef {
		t.emitExpr(c, &t.Vars[s.Var])
		c.LocalTee(t.Vars[s.Var].Local)
	} else {
		t.emitVar(c, s.Var)
	}
	memarg := func() {
		if o.Prefix == 0 {
			c.Mem(byte(o.Code), s.Align, s.Off)
		} else {
			c.Prefixed(o.Prefix, o.Code).U32(s.Align).U32(s.Off)
		}
	}
	switch o.Class {
	case clLoad, clVLoad, clVExtend, clVSplat, clVZero, clALoad:
		memarg()
	case clStore, clVStore, clAStore, clARmw:
		t.emitOperand(c, s, o.T)
		memarg()
	case clVLoadLane, clVStoreLn:
		c.V128Const(s.C1, s.C2)
		memarg()
		c.Op(byte(s.Lane))
	case clACmpxchg:
		if o.T == wenc.I32 {
			c.LocalGet(lVal).Op(0xa7)
		} else {
			c.LocalGet(lVal)
		}
		emitConst(c, o.T, s.C2, 0)
		memarg()
	case clANotify:
		c.I32Const(int32(uint32(s.C1)))
		memarg()
	case clAWait:
		if o.Width == 4 {
			c.LocalGet(lVal).Op(0xa7)
		} else {
			c.LocalGet(lVal)
		}
		c.I64Const(0)
		memarg()
	case clFill:
		c.I32Const(int32(s.FillVal))
		t.emitN(c, s)
		c.Prefixed(0xfc, 11).Op(0)
	case clCopy:
		if s.SrcVar >= 0 {
			t.emitVar(c, s.SrcVar)
		} else {
			c.I32Const(int32(s.SrcK))
		}
		t.emitN(c, s)
		c.Prefixed(0xfc, 10).Op(0, 0)
	case clInit:
		c.I32Const(int32(s.SrcK))
		t.emitN(c, s)
		c.Prefixed(0xfc, 8).U32(0).Op(0)
	}
	if s.Def > 0 {
		c.Op(0xa7).LocalSet(t.Vars[s.Def-1].Local)
	} else if s.Res >= 0 {
		c.LocalSet(resBase + uint32(s.Res))
	}
}

func (t *template) emitN(c *wenc.Code, s *step) {
	if s.NKind == "p1" {
		c.LocalGet(lP1)
	} else {
		c.I32Const(int32(s.N))
	}
}
