// Package c02 decides C02 (guest memory accesses never leave the linear
// memory). Two cooperating monitors watch PRNG-instantiated access-pattern
// templates on both engines:
//
//  1. the red-zone sanitizer (guardmem / the local mremap variant for moving
//     huge memories): [8 GiB PROT_NONE | max | 8 GiB PROT_NONE] with only
//     [0,size) accessible, so any out-of-bounds byte touched by interpreter or
//     JIT code kills the supervised child, and the parent decodes the fault
//     address against the reservation and the model's access trace;
//  2. a sparse reference memory (model.go) that predicts for every access
//     trap / no trap by the 64-bit effective-address rule, the loaded values,
//     the exact bytes written, and that a trapping access writes nothing.
package c02

import (
	"bytes"
	"context"
	"encoding/json"
	"fmt"
	"os"
	"path/filepath"
	"regexp"
	"sort"
	"strconv"
	"strings"
	"sync"
	"unsafe"

	"github.com/tetratelabs/wazero"
	"github.com/tetratelabs/wazero/api"
	"github.com/tetratelabs/wazero/experimental"
	"github.com/tetratelabs/wazero/verifharness/core"
	"github.com/tetratelabs/wazero/verifharness/guardmem"
	"github.com/tetratelabs/wazero/verifharness/wdis"
	"github.com/tetratelabs/wazero/verifharness/wenc"
)

var Prop = &core.Prop{ID: "C02", Run: run, Child: child, Replay: replay}

type caseIn struct {
	Seed   uint64 `json:"seed"`
	Tuples int    `json:"tuples"`
	Skip   []int  `json:"skip,omitempty"` // run configurations to skip (they crashed in an earlier pass)
	// Pin (crash localisation): run only configuration Run, tuples 0..Tuple, with
	// every access whose id is > Limit removed from the function; nothing is
	// compared, the parent only looks at whether the child dies.
	Pin *pinSpec `json:"pin,omitempty"`
}

type pinSpec struct {
	Run, Tuple, Limit int
}

type runCfg struct {
	Compiler bool
	Moving   bool
}

var runCfgs = []runCfg{{false, false}, {true, false}, {false, true}, {true, true}}

func (rc runCfg) engine() string {
	if rc.Compiler {
		return "compiler"
	}
	return "interpreter"
}

func (rc runCfg) String() string {
	if rc.Moving {
		return rc.engine() + "/moving-allocator"
	}
	return rc.engine() + "/fixed-allocator"
}

type finding struct {
	Sig     string         `json:"sig"`
	Detail  string         `json:"detail"`
	Witness map[string]any `json:"witness"`
}

type caseOut struct {
	Findings []finding        `json:"findings,omitempty"`
	Counts   map[string]int64 `json:"counts"`
	Shape    string           `json:"shape"`
	Calls    int              `json:"calls"`
	Compared int              `json:"compared"` // calls whose outcome fully agreed with the model
	Inconcl  []string         `json:"inconcl,omitempty"`
	Sample   any              `json:"sample,omitempty"`
}

// ---- deterministic case construction (shared by child, parent crash analysis and replay) ----

func build(ci caseIn) (*template, []params) {
	r := core.NewRng(int64(ci.Seed), 2)
	t := genTemplate(r)
	return t, genTuples(r.Split(), t, ci.Tuples)
}

func genTuples(r *core.Rng, t *template, n int) []params {
	m := newMem(t.InitPages, t.MaxPages, t.Shared, t.Data)
	var out []params
	for i := 0; i < n; i++ {
		for try := 0; try < 8; try++ {
			p := drawParams(r, t, m)
			m.begin()
			o := t.run(m, p)
			if o.Reject != "" {
				m.rollback()
				continue
			}
			out = append(out, p)
			break
		}
	}
	return out
}

func drawParams(r *core.Rng, t *template, m *mem) params {
	S := m.size()
	if r.Chance(1, 6) {
		S += uint64(1+r.Intn(2)) * pageSize
		if S > 1<<32 {
			S = 1 << 32
		}
	}
	p := params{P0: uint32(pickAddr(r, S, 8)), P1: uint32(pickAddr(r, S, 8)), P2: r.I64(), Sel: r.U32(), Val: r.I64()}
	switch r.Intn(6) {
	case 0:
		p.Sel = 0
	case 1:
		p.Sel = 0xffffffff
	}
	if r.Bool() {
		p.P1 = uint32(r.Intn(300))
	}
	if r.Bool() {
		p.P2 = uint64(r.U32())<<32 | pickAddr(r, S, 8)
	}
	// upper half of the i64 a wrapped base value comes from: must be ignored
	// by the engine; 1, 2 and 0xffffffff keep a stray access inside the red zones
	upper := func() uint64 {
		switch r.Intn(8) {
		case 0:
			return 0
		case 1, 2:
			return 1
		case 3:
			return 2
		case 4:
			return 0x7fffffff
		case 5, 6:
			return 0xffffffff
		}
		return uint64(r.U32())
	}
	setVar := func(v *baseVar, base uint32) {
		switch v.Kind {
		case "wrapx":
			x := upper()<<32 | uint64(base)
			switch v.Shape {
			case "addv":
				p.P2 = x - p.Val
			case "val":
				p.Val = x
			case "exts":
				p.P0 = base
			case "select":
				p.P2, p.Val = x, upper()<<32|uint64(base)
			default:
				p.P2 = x
			}
		case "p0":
			p.P0 = base
		case "p1":
			p.P1 = base
		case "add_pp":
			p.P1 = base - p.P0
		case "add_pk":
			p.P0 = base - v.K
		case "shl":
			p.P0 = base >> (v.K & 31)
		case "wrap":
			p.P2 = upper()<<32 | uint64(base)
		case "wrap_add":
			p.P2 = (upper()<<32 | uint64(base)) - v.K64
		}
	}
	acc := t.flat()
	width := func(a *step) (w, off uint64) {
		o := opByName[a.Op]
		if o.Width == 0 {
			if a.NKind == "p1" {
				return uint64(p.P1), 0
			}
			return uint64(a.N), 0
		}
		return uint64(o.Width), uint64(a.Off)
	}
	mode := r.Intn(20)
	if mode < 15 {
		// every base value such that all accesses through it are in bounds (when
		// the static offsets allow it): the whole sequence runs
		ceil, atomic := t.ceilings(p.P1)
		for i := range t.Vars {
			b := uint32(pickInb(r, m.size(), ceil[i]+uint64(r.Intn(2))*8))
			if atomic[i] && r.Chance(5, 6) {
				b &^= 7
			}
			setVar(&t.Vars[i], b)
		}
	}
	if mode >= 9 {
		// aim one access at a boundary
		a := acc[r.Intn(len(acc))]
		o := opByName[a.Op]
		w, off := width(a)
		ea := pickAddr(r, S, w)
		if r.Chance(1, 4) {
			ea = pickInb(r, S, w)
		}
		if o.Atomic && r.Chance(4, 5) {
			ea &^= w - 1
		}
		base := uint32(ea - off) // when off > ea the 64-bit sum crosses 2^32 (wrapping pair)
		if off > 0 && r.Chance(1, 12) {
			base = uint32(1<<32 - off + uint64(r.Intn(int(w)+2)))
		}
		setVar(&t.Vars[a.Var], base)
	}
	if m.size() == 0 && r.Bool() {
		// empty memory: zero-length bulk operations at address 0 are the only
		// accesses that succeed; whatever follows a grow then runs at small addresses
		p.P1 = 0
		for i := range t.Vars {
			setVar(&t.Vars[i], 0)
		}
	} else if r.Chance(1, 10) {
		p.P1 = 0
	}
	// expected operand of cmpxchg / wait: half of the time the current value
	needOld := false
	for _, s := range acc {
		if c := opByName[s.Op].Class; c == clACmpxchg || c == clAWait {
			needOld = true
		}
	}
	if needOld && r.Bool() {
		m.begin()
		o := t.run(m, p)
		m.rollback()
		var olds []uint64
		for _, d := range o.Trace {
			if d.hasOld {
				olds = append(olds, d.old)
			}
		}
		if len(olds) > 0 {
			p.Val = olds[r.Intn(len(olds))]
		}
	}
	return p
}

// ---- parent ----

func run(c *core.Ctx) int {
	// stale witnesses of earlier runs of the same tier and seed (the children
	// directory is left alone: another run may be using it)
	old, _ := filepath.Glob(filepath.Join(c.Out, fmt.Sprintf("violation-%s-%d-*.json", c.Tier, c.Seed)))
	for _, f := range old {
		os.Remove(f)
	}
	n := c.N(6000, 150000)
	tuples := c.N(12, 40)
	if s := os.Getenv("C02_N"); s != "" { // development aid: smaller workload
		n, _ = strconv.Atoi(s)
	}
	rng := core.NewRng(c.Seed, 2)
	cases := make([]caseIn, n)
	for i := range cases {
		cases[i] = caseIn{Seed: rng.U64(), Tuples: tuples}
	}
	final := make([]*caseOut, n)
	pending := make([]int, n)
	for i := range pending {
		pending[i] = i
	}
	evals := int64(0)
	for pass := 0; pass < 5 && len(pending) > 0; pass++ {
		raw := make([]json.RawMessage, len(pending))
		for k, i := range pending {
			raw[k] = core.J(cases[i])
		}
		res := core.RunCases(c, "tmpl", raw, core.ChildOpts{Batch: 40, TimeoutS: 150})
		var next []int
		for k, r := range res {
			i := pending[k]
			if r.Crash != nil {
				if r.Crash.Kind == "timeout" {
					c.Inconclusive("watchdog")
					continue
				}
				runIdx := handleCrash(c, cases[i], r.Crash)
				if runIdx >= 0 && len(cases[i].Skip) < len(runCfgs)-1 {
					cases[i].Skip = append(cases[i].Skip, runIdx)
					next = append(next, i)
				} else {
					c.Count("cases_lost_to_crash", 1)
				}
				continue
			}
			var co caseOut
			if json.Unmarshal(r.Out, &co) != nil {
				c.Inconclusive("bad-child-output")
				continue
			}
			final[i] = &co
		}
		pending = next
	}
	for i, co := range final {
		if co == nil {
			continue
		}
		evals += int64(co.Compared)
		c.Count("calls", int64(co.Calls))
		c.Count("cases", 1)
		for k, v := range co.Counts {
			c.Count(k, v)
			if strings.HasPrefix(k, "cb:") {
				c.Distinct("class_x_bucket", k[3:])
			}
			if strings.HasPrefix(k, "op:") {
				c.Distinct("instructions", k[3:])
			}
		}
		for _, s := range co.Inconcl {
			c.Inconclusive(s)
		}
		if co.Compared > 0 {
			c.Distinct("templates", co.Shape)
		}
		for _, f := range co.Findings {
			f.Witness["case"] = cases[i]
			c.Violate(f.Sig, f.Detail, f.Witness)
			c.Count("findings_reported_by_children", 1)
		}
		if co.Sample != nil && i%(n/6+1) == 0 {
			c.Sample(co.Sample)
		}
	}
	// every workload class must have been reached
	var need []string
	for _, o := range ops {
		need = append(need, "access_"+o.Class)
	}
	for _, s := range memSizes {
		need = append(need, fmt.Sprintf("size_pages_%d", s))
	}
	need = append(need, "run_interpreter/fixed-allocator", "run_compiler/fixed-allocator", "run_interpreter/moving-allocator", "run_compiler/moving-allocator",
		"mem_local", "mem_imported", "mem_shared", "mem_private_not_exported", "callee_hostgrow", "callee_hostreenter", "callee_hostwrite", "since_call-or-grow", "since_join", "since_none", "basekind_param", "basekind_const", "basekind_const-in-local", "basekind_wrapped-i64", "wrapped_base_dirty_upper_half",
		"real_moves", "traps_expected", "traps_observed")
	for _, k := range need {
		if c.Counter(k) == 0 {
			c.Inconclusive("never-reached:" + k)
		}
	}
	c.Assume("trap rule = spec effective-address rule in 64-bit arithmetic; an atomic access that is both misaligned and out of bounds may report either trap kind (engine order difference is a C01 finding)")
	c.Assume("shared memories never run two threads; memory.atomic.wait only with timeout 0; narrow cmpxchg whose expected operand matches only after wrapping is not generated")
	c.Assume("red zones reach 8 GiB on each side; an access further away is only visible through the value oracle")
	return c.Finish(evals, int64(c.DistinctN("templates")),
		"template instance = PRNG access-pattern function (1-8 accesses + calls/grows/joins between reuses of the same base value) x value tuples, run on interpreter and compiler with fixed and moving red-zone allocators; evaluation = one guest call whose trap/no-trap, trap location, results, memory size and memory contents (touched pages +-1, all pages when <=64) agreed with the reference memory; distinct = distinct template shapes (memory config, base kinds, instruction and event sequence) with >=1 agreeing call")
}

var reAddr = regexp.MustCompile(`0x[0-9a-f]+`)
var reGuard = regexp.MustCompile(`GUARDMEM base=(0x[0-9a-f]+) max=(0x[0-9a-f]+)`)
var reAt = regexp.MustCompile(`C02@ run=(\d+) tuple=(\d+)`)

type crashInfo struct {
	found         bool // the log names this case
	runIdx, tuple int
	bases         []uint64
	maxB          uint64
	fault         uint64
	hasAddr       bool
	isFault       bool
	nonCanonical  bool // si_code SI_KERNEL with address 0: the access used a non-canonical host address
	lowAddr       bool // fault address below 4096 (the runtime turned it into a nil-dereference panic and could not unwind)
}

var reFaultAddr = regexp.MustCompile(`C02FAULT addr=(0x[0-9a-f]+)(?: code=(-?\d+))?|unexpected fault address (0x[0-9a-f]+)`)

func parseCrash(ci caseIn, cr *core.Crash) (ci2 crashInfo) {
	x := crashInfo{runIdx: -1, tuple: -1}
	logb, _ := os.ReadFile(cr.Log)
	marker := fmt.Sprintf("C02RUN seed=%d ", ci.Seed)
	at := bytes.LastIndex(logb, []byte(marker))
	if at < 0 {
		return x
	}
	x.found = true
	seg := logb[at:]
	if ms := reAt.FindAllSubmatch(seg, -1); len(ms) > 0 {
		x.runIdx, _ = strconv.Atoi(string(ms[len(ms)-1][1]))
		x.tuple, _ = strconv.Atoi(string(ms[len(ms)-1][2]))
	} else if m := regexp.MustCompile(`C02RUN seed=\d+ run=(\d+)`).FindSubmatch(seg); m != nil {
		x.runIdx, _ = strconv.Atoi(string(m[1]))
	}
	for _, m := range reGuard.FindAllSubmatch(seg, -1) {
		b, _ := strconv.ParseUint(string(m[1][2:]), 16, 64)
		x.bases = append(x.bases, b)
		x.maxB, _ = strconv.ParseUint(string(m[2][2:]), 16, 64)
	}
	// A fault in generated code is reported by the Go runtime either as
	// "unexpected fault address" or, when the engine's own stack lies below the
	// goroutine stack, as "split stack overflow" inside sigpanic (no address),
	// or the process just dies of SIGSEGV.
	x.isFault = strings.Contains(cr.Detail, "fault") || strings.Contains(cr.Detail, "SIGSEGV") ||
		(strings.Contains(cr.Detail, "split stack overflow") && bytes.Contains(seg, []byte("runtime.sigpanic")))
	if strings.Contains(cr.Detail, "unknown caller pc") && bytes.Contains(seg, []byte("runtime.panicmem")) && bytes.Contains(seg, []byte("runtime.sigpanic")) {
		x.isFault, x.lowAddr = true, true
	}
	// the first report after the last journal line is the guest fault (later
	// ones may come from the runtime crashing while it handles the first)
	tail := seg
	if loc := reAt.FindAllIndex(seg, -1); len(loc) > 0 {
		tail = seg[loc[len(loc)-1][1]:]
	}
	if m := reFaultAddr.FindSubmatch(tail); m != nil {
		h := string(m[1])
		if h == "" {
			h = string(m[3])
		}
		x.fault, _ = strconv.ParseUint(h[2:], 16, 64)
		x.nonCanonical = string(m[2]) == "128" && x.fault == 0
		x.hasAddr = true
		x.isFault = true
		x.lowAddr = false
	}
	return x
}

// handleCrash turns a dead child into a violation; returns the run
// configuration that was executing (to skip it in the re-run) or -1.
func handleCrash(c *core.Ctx, ci caseIn, cr *core.Crash) int {
	x := parseCrash(ci, cr)
	if !x.found {
		c.Violate("child-crash:"+cr.Kind+":"+crashWords(cr.Detail), cr.Detail, map[string]any{"case": ci, "crash": cr})
		return -1
	}
	if x.isFault && !x.hasAddr && !x.lowAddr && x.runIdx >= 0 && x.tuple >= 0 && faultRetries < 40 {
		// no address in this report (binary built without cgo, so without the
		// fault reporter of sigaddr_cgo.go): run the same tuples again, another
		// stack placement may let the Go runtime print it
		for try := 0; try < 3 && !x.hasAddr && !x.lowAddr; try++ {
			faultRetries++
			pc := caseIn{Seed: ci.Seed, Tuples: ci.Tuples, Pin: &pinSpec{Run: x.runIdx, Tuple: x.tuple}}
			r := core.RunCases(c, "tmpl", []json.RawMessage{core.J(pc)}, core.ChildOpts{Batch: 1, TimeoutS: 60, Par: 1})
			c.Count("crash_localisation_children", 1)
			if r[0].Crash != nil {
				if y := parseCrash(ci, r[0].Crash); y.found && (y.hasAddr || y.lowAddr) && y.runIdx == x.runIdx {
					x, cr = y, r[0].Crash
				}
			}
		}
	}
	runIdx, tuple, bases, maxB, fault := x.runIdx, x.tuple, x.bases, x.maxB, x.fault
	if !x.isFault || runIdx < 0 || tuple < 0 || len(bases) == 0 {
		c.Violate("child-crash:"+cr.Kind+":"+crashWords(cr.Detail), cr.Detail, map[string]any{"case": ci, "crash": cr, "run": runIdx, "tuple": tuple})
		return runIdx
	}
	if !x.hasAddr && !x.lowAddr {
		c.Count("redzone_hits", 1)
		c.Violate(runCfgs[runIdx].engine()+":fault-without-reported-address:"+crashWords(cr.Detail), runCfgs[runIdx].String()+": the child died of a memory fault while executing tuple "+strconv.Itoa(tuple)+" but the Go runtime did not print the address: "+cr.Detail,
			map[string]any{"case": ci, "crash": cr, "run": runCfgs[runIdx].String(), "tuple": tuple})
		return runIdx
	}
	c.Count("redzone_hits", 1)
	rc := runCfgs[runIdx]
	// replay the model up to the faulting tuple
	t, tuples := build(ci)
	m := newMem(t.InitPages, t.MaxPages, t.Shared, t.Data)
	for i := 0; i < tuple && i < len(tuples); i++ {
		m.begin()
		t.run(m, tuples[i])
	}
	var exp outcome
	if tuple < len(tuples) {
		m.begin()
		exp = t.run(m, tuples[tuple])
	}
	// which reservation?
	region := -1
	for i, b := range bases {
		d := int64(fault) - int64(b)
		if d >= -int64(guardmem.Guard) && d < int64(maxB+guardmem.Guard) {
			region = i
		}
	}
	sig := rc.engine() + ":redzone-fault:"
	where := "outside every reservation"
	var hit *dynAccess
	formula := ""
	localised := ""
	choose := func(cands []faultCand) {
		if len(cands) == 0 {
			return
		}
		k := pinCulprit(c, ci, runIdx, tuple, cands)
		hit, formula = cands[k].a, cands[k].formula
		switch {
		case len(cands) == 1:
			localised = "only this access explains the address"
		case pinOK:
			localised = fmt.Sprintf("%d accesses explain the address; chosen by re-running with the function truncated after each of them (best effort: truncation changes use counts)", len(cands))
		default:
			localised = fmt.Sprintf("%d accesses explain the address; not localised (budget), last one shown", len(cands))
		}
	}
	absolute := false
	switch {
	case x.lowAddr:
		// address unknown but below 4096: an access whose guest address is below 4096 executed with memory base 0
		where = "an absolute host address below 4096 (the Go runtime reported a nil dereference inside generated code)"
		var cands []faultCand
		seen := map[int]bool{}
		for i := range exp.Trace {
			a := &exp.Trace[i]
			if ea := uint64(a.Base) + uint64(a.Off); ea < 4096 && coarse(a.Class) != "bulk" && !seen[a.ID] {
				seen[a.ID] = true
				cands = append(cands, faultCand{a, "base+offset"})
			}
		}
		choose(cands)
		absolute = true
	case x.nonCanonical || (region < 0 && fault >= 1<<33):
		// a non-canonical host address (general-protection fault, no address
		// reported) or a host address far from every reservation: explained by
		// an access through a wrapped i64 whose upper half was not dropped
		if x.nonCanonical {
			where = "a non-canonical host address (general-protection fault, the kernel reports no address)"
		} else {
			where = fmt.Sprintf("host address %#x, far outside every reservation (memory base %+#x)", fault, int64(fault)-int64(bases[len(bases)-1]))
		}
		var cands []faultCand
		seen := map[int]bool{}
		delta := int64(fault) - int64(bases[len(bases)-1])
		for i := range exp.Trace {
			a := &exp.Trace[i]
			if a.Upper == 0 || seen[a.ID] {
				continue
			}
			full := int64(uint64(a.Upper)<<32 | uint64(a.Base))
			n := int64(a.N)
			if coarse(a.Class) != "bulk" {
				full += int64(a.Off)
			}
			if n == 0 {
				n = 1
			}
			hostAddr := bases[len(bases)-1] + uint64(full)
			if (x.nonCanonical && hostAddr >= 1<<47 && hostAddr < 0xffff800000000000) || (!x.nonCanonical && delta >= full && delta < full+n) {
				seen[a.ID] = true
				cands = append(cands, faultCand{a, "upper-half-of-wrapped-i64-used"})
			}
		}
		choose(cands)
	case region < 0 && fault < 1<<33:
		// far below every mapping: the guest address itself used as host address (memory base 0)
		where = fmt.Sprintf("absolute host address %#x", fault)
		choose(matchFault(exp.Trace, int64(fault), 0, 1, false, true))
		absolute = true
	case region >= 0:
		delta := int64(fault) - int64(bases[region])
		choose(matchFault(exp.Trace, delta, region, len(bases), rc.Moving, false))
		switch {
		case delta < 0:
			where = fmt.Sprintf("memory base - %#x", -delta)
		default:
			where = fmt.Sprintf("memory base + %#x", delta)
		}
		if region != len(bases)-1 {
			where += fmt.Sprintf(" of reservation #%d (stale: the memory has since moved to reservation #%d)", region, len(bases)-1)
		}
	}
	memCfg := fmt.Sprintf("shared=%v:initial-pages-0=%v", t.Shared, t.InitPages == 0)
	switch {
	case absolute:
		// the memory base used by the generated code was 0
		sig += "guest-address-used-as-host-address(memory-base-0):" + memCfg
	case hit != nil:
		// (the events since the last use of the base value are in the detail
		// only: which of several accesses with the same address faulted depends
		// on use counts that the localisation by truncation perturbs; the
		// instruction class is in the detail only, too: one address-computation
		// defect shows through plain, atomic and bulk accesses alike)
		if formula == "correct-offset-from-stale-base" {
			// the base kind is irrelevant: the engine kept the memory base across a move
			sig += "stale-memory-base-after-move:memory=" + memVis(t)
		} else {
			sig += formula + ":base=" + strings.SplitN(hit.VarKind, ":", 2)[0]
		}
	default:
		sig += "unmatched:"
		switch {
		case region < 0:
			sig += "outside-reservations"
		case int64(fault) < int64(bases[region]):
			sig += "below-base"
		default:
			sig += "above-base"
		}
		sig += ":" + memCfg
	}
	bin := t.module()
	detail := fmt.Sprintf("%s: process fault at %#x = %s while executing tuple %d (%s); memory %d pages initially (max %d, shared=%v, imported=%v)",
		rc, fault, where, tuple, pstr(tuples, tuple), t.InitPages, t.MaxPages, t.Shared, t.Imported)
	if hit != nil {
		detail += "; " + localised
		detail += fmt.Sprintf("; matches access #%d %s (%s) base=%#x (%s) offset=%#x: faulting address computed as %s; model: mem size %#x, since last use of this base value: %s",
			hit.ID, hit.Op, coarse(hit.Class), hit.Base, hit.VarKind, hit.Off, formula, hit.Size, hit.Since)
	}
	c.Violate(sig, detail, map[string]any{"case": ci, "run": rc.String(), "tuple": tuple, "params": pstr(tuples, tuple), "fault_address": fmt.Sprintf("%#x", fault),
		"reservations": bases, "where": where, "matched_access": hit, "model_trace": exp.Trace, "crash": cr, "module": strings.Split(wdis.Module(bin), "\n")})
	return runIdx
}

func memVis(t *template) string {
	v := "local-exported"
	switch {
	case t.Imported:
		v = "imported"
	case t.Private:
		v = "local-not-exported"
	}
	if t.Shared {
		v += "-shared"
	}
	return v
}

func pstr(ts []params, i int) string {
	if i >= 0 && i < len(ts) {
		return ts[i].String()
	}
	return "?"
}

func sinceCanon(s string) string {
	switch {
	case s == "first" || s == "none":
		return s
	case strings.Contains(s, "grow") || strings.Contains(s, "call"):
		return "call-or-grow"
	case strings.Contains(s, "bump"):
		return "bump"
	}
	return "join"
}

type faultCand struct {
	a       *dynAccess
	formula string
}

// matchFault lists the model accesses (first dynamic occurrence per static
// access) whose correctly or wrongly computed address explains the fault
// offset delta relative to the base of the reservation that was hit.
func matchFault(trace []dynAccess, delta int64, region, nRegions int, moving, absolute bool) (out []faultCand) {
	seen := map[int]bool{}
	for i := range trace {
		a := &trace[i]
		if seen[a.ID] {
			continue
		}
		n := int64(a.N)
		if n == 0 {
			n = 1
		}
		stale := moving && region < a.Grows && region != nRegions-1
		type cand struct {
			name string
			v    int64
		}
		b, o := int64(a.Base), int64(a.Off)
		sb, so := int64(int32(a.Base)), int64(int32(a.Off))
		var cs []cand
		if coarse(a.Class) == "bulk" {
			cs = []cand{{"base", b}, {"sext32(base)", sb}, {"src", int64(a.Src)}, {"sext32(src)", int64(int32(uint32(a.Src)))}}
		} else {
			cs = []cand{{"base+offset", b + o}, {"sext32(base)", sb + o}, {"sext32(offset)", b + so}, {"sext32(base)+sext32(offset)", sb + so},
				{"wrap32(base+offset)", int64(uint32(a.Base + a.Off))}, {"sext32(wrap32(base+offset))", int64(int32(a.Base + a.Off))}}
		}
		if a.Upper != 0 {
			full := int64(uint64(a.Upper)<<32 | uint64(a.Base))
			if coarse(a.Class) != "bulk" {
				full += o
			}
			cs = append(cs[:1], append([]cand{{"upper-half-of-wrapped-i64-used", full}}, cs[1:]...)...)
		}
		for k, c := range cs {
			if delta < c.v || delta >= c.v+n {
				continue
			}
			inb := c.v >= 0 && uint64(c.v)+uint64(n) <= a.Size
			if inb && !stale && !absolute {
				continue // cannot fault
			}
			name := c.name
			if k == 0 {
				name = "correct-address-not-bounds-checked"
				if stale {
					name = "correct-offset-from-stale-base"
				}
			}
			seen[a.ID] = true
			out = append(out, faultCand{a, name})
			break
		}
	}
	return out
}

var faultRetries int

var (
	pinCache = map[string]int{}
	pinRuns  int
	pinOK    bool
)

// pinCulprit decides which of several candidate accesses faulted by re-running
// the case in fresh children with the function truncated after each candidate
// in turn: the first truncation that still dies names the culprit. Results are
// cached per candidate pattern; at most 60 localisations per run.
func pinCulprit(c *core.Ctx, ci caseIn, runIdx, tuple int, cands []faultCand) int {
	pinOK = true
	if len(cands) == 1 {
		return 0
	}
	key := ""
	for _, k := range cands {
		key += k.formula + "/" + coarse(k.a.Class) + "/" + k.a.VarKind + "/" + sinceCanon(k.a.Since) + ";"
	}
	if k, ok := pinCache[key]; ok {
		return k
	}
	if pinRuns >= 60 {
		pinOK = false
		return len(cands) - 1
	}
	pinRuns++
	res := len(cands) - 1
	for k := 0; k < len(cands)-1; k++ {
		pc := caseIn{Seed: ci.Seed, Tuples: ci.Tuples, Pin: &pinSpec{Run: runIdx, Tuple: tuple, Limit: cands[k].a.ID}}
		r := core.RunCases(c, "tmpl", []json.RawMessage{core.J(pc)}, core.ChildOpts{Batch: 1, TimeoutS: 60, Par: 1})
		c.Count("crash_localisation_children", 1)
		if r[0].Crash != nil && r[0].Crash.Kind != "timeout" {
			res = k
			break
		}
	}
	pinCache[key] = res
	return res
}

func crashWords(s string) string {
	s = strings.ReplaceAll(s, "\n", " ")
	var out []string
	for _, w := range strings.Fields(s) {
		if strings.HasPrefix(w, "0x") || strings.HasPrefix(w, "addr=") {
			continue
		}
		out = append(out, reAddr.ReplaceAllString(w, "N"))
		if len(out) >= 6 {
			break
		}
	}
	return strings.Join(out, "_")
}

// ---- child ----

var faultReporter sync.Once

func child(mode string, in json.RawMessage) any {
	faultReporter.Do(installFaultReporter)
	var ci caseIn
	json.Unmarshal(in, &ci)
	t, tuples := build(ci)
	out := &caseOut{Counts: map[string]int64{}, Shape: t.shape()}
	if ci.Pin != nil {
		t.limit = ci.Pin.Limit
		if ci.Pin.Tuple+1 < len(tuples) {
			tuples = tuples[:ci.Pin.Tuple+1]
		}
	}
	bin := t.module()
	var xbin []byte
	if t.Imported {
		xbin = t.exporter()
	}
	for ri, rc := range runCfgs {
		skip := false
		for _, s := range ci.Skip {
			if s == ri {
				skip = true
			}
		}
		if skip || (rc.Moving && t.Shared) { // a shared memory must not move (allocator contract)
			continue
		}
		if ci.Pin != nil && ci.Pin.Run != ri {
			continue
		}
		fmt.Fprintf(os.Stderr, "C02RUN seed=%d run=%d\n", ci.Seed, ri)
		runOne(t, tuples, bin, xbin, ri, rc, out, ci)
	}
	if ci.Pin != nil {
		return &caseOut{Counts: map[string]int64{}}
	}
	if len(tuples) > 0 {
		out.Sample = map[string]any{"seed": ci.Seed, "shape": out.Shape, "first_tuple": tuples[0].String()}
	}
	return out
}

type realView struct {
	ga *guardmem.Allocator
	ma *moveAlloc
}

func (v *realView) cur() (uintptr, uint64) {
	if v.ma != nil {
		return v.ma.current()
	}
	if n := len(v.ga.Regions); n > 0 {
		r := v.ga.Regions[n-1]
		return r.Base, r.Size
	}
	return 0, 0
}

func (v *realView) bytes() []byte {
	b, n := v.cur()
	if n == 0 {
		return nil
	}
	return unsafe.Slice((*byte)(unsafe.Pointer(b)), n)
}

func (v *realView) nRegions() int {
	if v.ma != nil {
		return len(v.ma.regions)
	}
	return len(v.ga.Regions)
}

func (v *realView) free() {
	if v.ma != nil {
		v.ma.freeAll()
	} else {
		v.ga.FreeAll()
	}
}

func trapClass(err error) string {
	if err == nil {
		return ""
	}
	s := err.Error()
	switch {
	case strings.Contains(s, "wasm error: out of bounds memory access"):
		return "oob"
	case strings.Contains(s, "wasm error: unaligned atomic"):
		return "unaligned"
	}
	first := s
	if i := strings.IndexByte(first, '\n'); i > 0 {
		first = first[:i]
	}
	return "error:" + first
}

var reNum = regexp.MustCompile(`[0-9]+`)

func runOne(t *template, tuples []params, bin, xbin []byte, ri int, rc runCfg, out *caseOut, ci caseIn) {
	ctx := context.Background()
	view := &realView{}
	if rc.Moving {
		view.ma = &moveAlloc{announce: true}
		ctx = experimental.WithMemoryAllocator(ctx, view.ma)
	} else {
		view.ga = guardmem.New()
		view.ga.Announce = true
		ctx = experimental.WithMemoryAllocator(ctx, view.ga)
	}
	cfg := wazero.NewRuntimeConfigInterpreter()
	if rc.Compiler {
		cfg = wazero.NewRuntimeConfigCompiler()
	}
	cfg = cfg.WithCoreFeatures(api.CoreFeaturesV2 | experimental.CoreFeaturesThreads)
	rt := wazero.NewRuntimeWithConfig(ctx, cfg)
	defer view.free()
	defer rt.Close(ctx)
	cnt := out.Counts
	report := func(sig, detail string, w map[string]any) {
		if w == nil {
			w = map[string]any{}
		}
		w["run"] = rc.String()
		w["memory"] = fmt.Sprintf("init=%d pages max=%d has_max=%v shared=%v imported=%v exported=%v", t.InitPages, t.MaxPages, t.HasMax, t.Shared, t.Imported, !t.Imported && !t.Private)
		w["vars"] = t.Vars
		w["module"] = strings.Split(wdis.Module(bin), "\n")
		out.Findings = append(out.Findings, finding{Sig: rc.engine() + ":" + sig, Detail: rc.String() + ": " + detail, Witness: w})
	}
	i32 := api.ValueTypeI32
	hb := rt.NewHostModuleBuilder("host")
	hb.NewFunctionBuilder().WithGoModuleFunction(api.GoModuleFunc(func(context.Context, api.Module, []uint64) {}), nil, nil).Export("nop")
	hb.NewFunctionBuilder().WithGoModuleFunction(api.GoModuleFunc(func(_ context.Context, mod api.Module, stack []uint64) {
		old, ok := mod.Memory().Grow(uint32(stack[0]))
		if !ok {
			old = 0xffffffff
		}
		stack[0] = uint64(old)
	}), []api.ValueType{i32}, []api.ValueType{i32}).Export("grow")
	hb.NewFunctionBuilder().WithGoModuleFunction(api.GoModuleFunc(func(ctx context.Context, mod api.Module, stack []uint64) {
		res, err := mod.ExportedFunction("growx").Call(ctx, stack[0])
		if err != nil || len(res) != 1 {
			stack[0] = 0xffffffff
			return
		}
		stack[0] = res[0]
	}), []api.ValueType{i32}, []api.ValueType{i32}).Export("reenter")
	hb.NewFunctionBuilder().WithGoModuleFunction(api.GoModuleFunc(func(_ context.Context, mod api.Module, stack []uint64) {
		mod.Memory().WriteUint32Le(uint32(stack[0]), uint32(stack[1]))
	}), []api.ValueType{i32, i32}, nil).Export("write")
	if _, err := hb.Instantiate(ctx); err != nil {
		out.Inconcl = append(out.Inconcl, "host-module-failed")
		return
	}
	if t.Imported {
		if _, err := rt.InstantiateWithConfig(ctx, xbin, wazero.NewModuleConfig().WithName("env")); err != nil {
			report("generated-exporter-rejected", err.Error(), nil)
			return
		}
	}
	mod, err := rt.InstantiateWithConfig(ctx, bin, wazero.NewModuleConfig().WithName("main"))
	if err != nil {
		report("generated-module-rejected", core.Trunc(err.Error(), 300), nil)
		return
	}
	f := mod.ExportedFunction("f")
	probe := mod.ExportedFunction("probe")
	progress := mod.ExportedGlobal("progress")
	m := newMem(t.InitPages, t.MaxPages, t.Shared, t.Data)
	m.real = view.bytes
	cnt["run_"+rc.String()]++
	switch {
	case t.Shared:
		cnt["mem_shared"]++
	}
	if t.Imported {
		cnt["mem_imported"]++
	} else {
		cnt["mem_local"]++
	}
	if t.Private {
		cnt["mem_private_not_exported"]++
	}
	findings := 0
	// lenBug: compiler + local non-shared memory of exactly 65536 pages: if an
	// in-bounds byte load at address 0 traps, every spurious trap of this run is
	// attributed to that one defect (the 4 GiB length does not fit the 32-bit load).
	lenBug := func() bool {
		if !rc.Compiler || t.Imported || t.Shared || m.pages != 65536 {
			return false
		}
		_, err := probe.Call(ctx, 0)
		return trapClass(err) == "oob"
	}
	for ti, p := range tuples {
		if m.pages == 65536 && lenBug() {
			report("in-bounds-access-traps:local-memory-of-65536-pages:every-access-out-of-bounds",
				fmt.Sprintf("memory has 65536 pages (4 GiB): i32.load8_u at address 0 traps \"out of bounds memory access\" (and so does every other access); before tuple %d", ti),
				map[string]any{"tuple": ti, "probe": "exported func probe(addr) = i32.load8_u(addr); probe(0) trapped", "model_pages": m.pages})
			cnt["runs_stopped_by_65536_page_length_defect"]++
			return
		}
		fmt.Fprintf(os.Stderr, "C02@ run=%d tuple=%d\n", ri, ti)
		regionsBefore := view.nRegions()
		m.begin()
		exp := t.run(m, p)
		if exp.Reject != "" {
			// cannot happen unless an earlier finding re-synchronised the model
			m.rollbackKeepMaterialized()
			cnt["tuples_skipped_after_resync"]++
			continue
		}
		res, err := f.Call(ctx, uint64(p.P0), uint64(p.P1), p.P2, uint64(p.Sel), p.Val)
		out.Calls++
		got := trapClass(err)
		gotProgress := int(uint32(progress.Get()))
		cnt["real_moves"] += int64(view.nRegions() - regionsBefore)
		// evidence
		for _, d := range exp.Trace {
			cnt["access_"+d.Class]++
			cnt["op:"+d.Op]++
			cnt["bucket_"+d.Bucket]++
			cnt["cb:"+d.Class+"|"+d.Bucket]++
			cnt["since_"+sinceCanon(d.Since)]++
			cnt["basekind_"+strings.SplitN(d.VarKind, ":", 2)[0]]++
			if d.Upper != 0 {
				cnt["wrapped_base_dirty_upper_half"]++
				cnt["wrapped_dirty_since_"+sinceCanon(d.Since)]++
				if strings.HasPrefix(d.VarKind, "wrapped-i64:") {
					cnt["wrapped_shape_"+d.VarKind[12:]]++
				}
			}
			pg := d.Size / pageSize
			known := false
			for _, s := range memSizes {
				if uint64(s) == pg {
					known = true
				}
			}
			if known {
				cnt[fmt.Sprintf("size_pages_%d", pg)]++
			} else {
				cnt["size_pages_other"]++
			}
		}
		for k, n := range exp.Callees {
			cnt["callee_"+k] += int64(n)
		}
		if exp.Trap != "" {
			if os.Getenv("C02_DEBUG") != "" {
				d := exp.Trace[len(exp.Trace)-1]
				cnt["dbg_trap:"+strings.SplitN(d.VarKind, ":", 2)[0]+":"+d.Class+":"+d.Bucket+":"+exp.Trap]++
				cnt[fmt.Sprintf("dbg_trap_pos:%d", len(exp.Trace))]++
			}
			cnt["traps_expected"]++
			cnt["traps_expected_"+exp.Trap]++
		}
		if got == "oob" || got == "unaligned" {
			cnt["traps_observed"]++
		}
		// ---- compare ----
		w := func() map[string]any {
			return map[string]any{"tuple": ti, "params": p.String(), "expected": map[string]any{"trap": exp.Trap, "accesses_started": exp.Progress, "results": hex64(exp.Results)},
				"got": map[string]any{"error": errStr(err), "progress_global": gotProgress, "results": hex64(res)}, "model_trace": exp.Trace,
				"tuples_before": tupleStrings(tuples[:ti])}
		}
		// the progress global counts started accesses, so it indexes the model's trace
		nth := func(n int) *dynAccess {
			if n >= 1 && n <= len(exp.Trace) {
				return &exp.Trace[n-1]
			}
			return nil
		}
		desc := func(a *dynAccess) string {
			if a == nil {
				return "unknown-access"
			}
			pg := "pages<65536"
			if a.Size == 1<<32 {
				pg = "pages=65536"
			}
			d := a.Class + ":" + sigBucket(a.Bucket) + ":" + pg
			if a.Upper != 0 {
				d += ":base=wrapped-i64-with-nonzero-upper-half"
			}
			if t.Private {
				d += ":memory-not-exported"
			}
			return d
		}
		long := func(a *dynAccess) string {
			if a == nil {
				return "?"
			}
			return fmt.Sprintf("access #%d %s base=%#x (%s) offset=%#x width=%d, memory size %#x, since last use of the base value: %s", a.ID, a.Op, a.Base, a.VarKind, a.Off, a.N, a.Size, a.Since)
		}
		sig, detail := "", ""
		fatal := false // the instance cannot be trusted afterwards
		trapOK := got == exp.Trap || (exp.Trap == "either" && (got == "oob" || got == "unaligned"))
		switch {
		case strings.HasPrefix(got, "error:"):
			a := nth(gotProgress)
			fatal = true
			ew := words(reNum.ReplaceAllString(got[6:], "N"), 8)
			switch {
			case a != nil && coarse(a.Class) != "bulk" && a.Size == 1<<32 && uint64(a.Base)+uint64(a.Off) < 1<<32 && uint64(a.Base)+uint64(a.Off)+a.N >= 1<<32 &&
				strings.Contains(got, "runtime error: slice bounds out of range"):
				sig = "access-reaching-2^32-on-4GiB-memory:go-runtime-error"
				detail = "access whose last byte is at or beyond the last byte of a 4 GiB memory (in bounds when it ends exactly there) fails with " + got + " instead of succeeding/trapping: " + long(a)
			case a != nil && a.Trap == "":
				sig = "in-bounds-access:unexpected-error:" + desc(a) + ":" + ew
				detail = got + " at " + long(a)
			default:
				sig = "out-of-bounds-access:unexpected-error:" + desc(a) + ":" + ew
				detail = "model: trap; got " + got + " at " + long(a)
			}
		case got != "" && (exp.Trap == "" || gotProgress < exp.Progress):
			// the engine trapped at an access the model executes without trap
			a := nth(gotProgress)
			sig = "spurious-trap:" + got + ":" + desc(a)
			detail = "model: no trap at this access; got " + got + " at " + long(a)
		case got == "" && exp.Trap != "":
			a := nth(exp.Progress)
			sig = "missing-trap:" + desc(a)
			detail = "model: trap (" + exp.Trap + "), the call returned normally; " + long(a)
		case got != "" && gotProgress > exp.Progress:
			a := nth(exp.Progress)
			sig = "missing-trap:" + desc(a)
			detail = fmt.Sprintf("model: trap (%s) at this access (#%d started), the engine went on and trapped (%s) at the access started as #%d; %s", exp.Trap, exp.Progress, got, gotProgress, long(a))
		case !trapOK:
			a := nth(exp.Progress)
			sig = "wrong-trap-kind:expected=" + exp.Trap + ",got=" + got + ":" + desc(a)
			detail = long(a)
		case gotProgress != exp.Progress:
			sig = "returned-but-progress-differs"
			detail = fmt.Sprintf("model executes %d accesses, the progress global counted %d", exp.Progress, gotProgress)
		case exp.Trap == "" && !sameResults(t, exp.Results, res):
			k := firstDiffResult(t, exp.Results, res)
			var a *dynAccess
			for i := range exp.Trace {
				if st := t.flat()[exp.Trace[i].ID-1]; st.Res == k {
					a = &exp.Trace[i]
				}
			}
			sig = "wrong-loaded-value:" + desc(a)
			detail = fmt.Sprintf("result %d differs from the reference memory; %s", k, long(a))
		}
		if sig != "" && !fatal && lenBug() {
			sig = "in-bounds-access-traps:local-memory-of-65536-pages:every-access-out-of-bounds"
			detail = "memory grew to 65536 pages (4 GiB) and from then on every access traps \"out of bounds memory access\", e.g. i32.load8_u at address 0; first seen as: " + detail
			fatal = true
		}
		if sig == "" {
			if rs := view.bytes(); uint64(len(rs)) != m.size() {
				sig = "memory-size-differs-from-model"
				detail = fmt.Sprintf("real %#x bytes, model %#x bytes", len(rs), m.size())
			} else if addr, nd, ok := compareMem(m, rs); !ok {
				var a *dynAccess
				for i := range exp.Trace {
					d := &exp.Trace[i]
					lo := uint64(d.Base) + uint64(d.Off)
					if coarse(d.Class) == "bulk" {
						lo = uint64(d.Base)
					}
					if addr >= lo && addr < lo+d.N {
						a = d
					}
				}
				kind := "stray-write"
				if a != nil {
					switch {
					case a.Trap != "":
						kind = "trapping-access-modified-memory"
					case opByName[a.Op].writes():
						kind = "store-wrote-wrong-bytes"
					default:
						kind = "load-modified-memory"
					}
				}
				sig = "memory-differs:" + kind + ":" + desc(a)
				detail = fmt.Sprintf("first differing byte at %#x (model %#02x, real %#02x), %d differing bytes in the compared pages; %s", addr, m.byteAt(addr), rs[addr], nd, long(a))
			}
		}
		if sig != "" {
			wm := w()
			report(sig, detail, wm)
			findings++
			cnt["mismatching_calls"]++
			if findings >= 3 || fatal {
				cnt["runs_stopped_after_findings"]++
				return
			}
			resync(m, view.bytes())
			continue
		}
		out.Compared++
	}
}

// sigBucket coarsens the evidence buckets for signatures: the boundary
// buckets stay, the interior ones collapse.
func sigBucket(b string) string {
	switch b {
	case "inb:ends-at-size", "oob:straddles-end", "oob:at-size", "sum>=2^32", "end>2^32":
		return b
	}
	if strings.HasPrefix(b, "inb:") {
		return "inb"
	}
	return "oob"
}

func words(s string, n int) string {
	f := strings.Fields(s)
	if len(f) > n {
		f = f[:n]
	}
	return strings.Join(f, "_")
}

func errStr(err error) string {
	if err == nil {
		return ""
	}
	return core.Trunc(err.Error(), 300)
}

func hex64(v []uint64) []string {
	out := make([]string, len(v))
	for i, x := range v {
		out[i] = fmt.Sprintf("%#x", x)
	}
	return out
}

func tupleStrings(ps []params) []string {
	out := make([]string, len(ps))
	for i, p := range ps {
		out[i] = p.String()
	}
	return out
}

// flattened result layout: one uint64 per scalar, two per v128.
func resLayout(t *template) (types []wenc.ValType, slotOf []int) {
	for i, ty := range t.ResTypes {
		if ty == wenc.V128 {
			types = append(types, wenc.I64, wenc.I64)
			slotOf = append(slotOf, i, i)
		} else {
			types = append(types, ty)
			slotOf = append(slotOf, i)
		}
	}
	return
}

func firstDiffResult(t *template, a, b []uint64) int {
	types, slot := resLayout(t)
	if len(a) != len(types) || len(b) != len(types) {
		return -1
	}
	for i, ty := range types {
		x, y := a[i], b[i]
		if ty == wenc.I32 || ty == wenc.F32 {
			x, y = x&0xffffffff, y&0xffffffff
		}
		if x != y {
			return slot[i]
		}
	}
	return -2
}

func sameResults(t *template, a, b []uint64) bool { return firstDiffResult(t, a, b) == -2 }

var zeroPage = make([]byte, pageSize)

// compareMem compares the real memory with the model on the pages touched by
// the last call +-1 page, on every page the model has content for when that
// is cheap, and on all pages when the memory has at most 64 pages.
func compareMem(m *mem, real []byte) (addr uint64, ndiff int, ok bool) {
	pages := map[uint32]struct{}{}
	if m.pages <= 64 {
		for p := uint32(0); p < m.pages; p++ {
			pages[p] = struct{}{}
		}
	} else {
		for p := range m.touched {
			for _, q := range []int64{int64(p) - 1, int64(p), int64(p) + 1} {
				if q >= 0 && q < int64(m.pages) {
					pages[uint32(q)] = struct{}{}
				}
			}
		}
		if len(m.pg) <= 24 {
			for p := range m.pg {
				if p < m.pages {
					pages[p] = struct{}{}
				}
			}
		}
	}
	var list []uint32
	for p := range pages {
		list = append(list, p)
	}
	sort.Slice(list, func(i, j int) bool { return list[i] < list[j] })
	ok = true
	for _, p := range list {
		want, has := m.pg[p]
		if !has {
			want = zeroPage
		}
		got := real[uint64(p)*pageSize : uint64(p+1)*pageSize]
		if bytes.Equal(want, got) {
			continue
		}
		for i := range got {
			if got[i] != want[i] {
				if ok {
					addr = uint64(p)*pageSize + uint64(i)
					ok = false
				}
				ndiff++
			}
		}
	}
	return
}

func (m *mem) byteAt(a uint64) byte {
	if b, ok := m.pg[uint32(a/pageSize)]; ok {
		return b[a%pageSize]
	}
	return 0
}

// rollbackKeepMaterialized undoes writes and grows of the current call but
// keeps marker pages (they were written to the real memory too).
func (m *mem) rollbackKeepMaterialized() {
	m.materialized = m.materialized[:0]
	m.rollback()
}

// resync makes the model adopt the real state after a reported mismatch so
// that the remaining tuples of the run are judged independently.
func resync(m *mem, real []byte) {
	m.pages = uint32(uint64(len(real)) / pageSize)
	for p := range m.pg {
		if p >= m.pages {
			delete(m.pg, p)
			continue
		}
		copy(m.pg[p], real[uint64(p)*pageSize:uint64(p+1)*pageSize])
	}
	for p := range m.touched {
		for _, q := range []int64{int64(p) - 1, int64(p), int64(p) + 1} {
			if q >= 0 && q < int64(m.pages) {
				if _, ok := m.pg[uint32(q)]; !ok {
					m.pg[uint32(q)] = append([]byte(nil), real[uint64(q)*pageSize:uint64(q+1)*pageSize]...)
				}
			}
		}
	}
}

// ---- replay ----

func replay(c *core.Ctx, path string) int {
	b, err := os.ReadFile(path)
	if err != nil {
		fmt.Println(err)
		return 2
	}
	var w struct {
		Sig     string `json:"sig"`
		Witness struct {
			Case caseIn `json:"case"`
		} `json:"witness"`
	}
	json.Unmarshal(b, &w)
	ci := w.Witness.Case
	ci.Skip = nil
	t, tuples := build(ci)
	fmt.Printf("recorded sig: %s\nmemory: init=%d max=%d has_max=%v shared=%v imported=%v\n", w.Sig, t.InitPages, t.MaxPages, t.HasMax, t.Shared, t.Imported)
	fmt.Print(wdis.Module(t.module()))
	for i, p := range tuples {
		fmt.Printf("tuple %d: %s\n", i, p)
	}
	fmt.Println("running (a red-zone hit kills this process with 'unexpected fault address') ...")
	out := child("tmpl", core.J(ci)).(*caseOut)
	for _, f := range out.Findings {
		fmt.Printf("FINDING sig=%s\n  %s\n", f.Sig, f.Detail)
	}
	if len(out.Findings) > 0 {
		return 1
	}
	fmt.Println("no finding")
	return 0
}
