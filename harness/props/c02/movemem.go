package c02

import (
	"fmt"
	"os"
	"sync"
	"syscall"
	"unsafe"

	"github.com/tetratelabs/wazero/experimental"
	"github.com/tetratelabs/wazero/verifharness/guardmem"
)

// moveAlloc is a local adaptation of guardmem.Allocator{Moving: true} for
// huge (virtual) memories: same layout [Guard PROT_NONE | max | Guard
// PROT_NONE], same "only [0,size) accessible" rule, and every Reallocate that
// changes the size relocates the memory to a fresh reservation, but the pages
// are moved with mremap(2) (MREMAP_DONTUNMAP, Linux >= 5.7) instead of copied (guardmem copies old.Size bytes,
// which is 2.6 GB for a 40000-page memory). The old reservation stays mapped
// PROT_NONE, so an access through a stale base pointer faults.
type moveAlloc struct {
	mu       sync.Mutex
	regions  []*mregion
	announce bool
}

type mregion struct {
	lo    uintptr // start of the reservation
	total uint64
	base  uintptr // address of byte 0 of the linear memory
	max   uint64
	size  uint64
	live  bool // current region of its memory
}

func (a *moveAlloc) Allocate(cap, max uint64) experimental.LinearMemory {
	lm := &moveMem{a: a, max: max}
	lm.r = a.reserve(max)
	return lm
}

func rawMmap(addr uintptr, n uint64, prot, flags int) (uintptr, error) {
	p, _, e := syscall.Syscall6(syscall.SYS_MMAP, addr, uintptr(n), uintptr(prot), uintptr(flags), ^uintptr(0), 0)
	if e != 0 {
		return 0, e
	}
	return p, nil
}

func (a *moveAlloc) reserve(max uint64) *mregion {
	total := guardmem.Guard + max + guardmem.Guard
	p, err := rawMmap(0, total, syscall.PROT_NONE, syscall.MAP_PRIVATE|syscall.MAP_ANON|syscall.MAP_NORESERVE)
	if err != nil {
		panic(fmt.Sprintf("c02 moveAlloc: mmap %d: %v", total, err))
	}
	r := &mregion{lo: p, total: total, base: p + uintptr(guardmem.Guard), max: max, live: true}
	a.mu.Lock()
	a.regions = append(a.regions, r)
	a.mu.Unlock()
	if a.announce {
		fmt.Fprintf(os.Stderr, "GUARDMEM base=%#x max=%#x\n", r.base, r.max)
	}
	return r
}

type moveMem struct {
	a      *moveAlloc
	max    uint64
	r      *mregion
	inited bool
}

func mprotect(addr uintptr, n uint64, prot int) {
	if n == 0 {
		return
	}
	if _, _, e := syscall.Syscall(syscall.SYS_MPROTECT, addr, uintptr(n), uintptr(prot)); e != 0 {
		panic(fmt.Sprintf("c02 moveAlloc: mprotect: %v", e))
	}
}

const mremapMaymove, mremapFixed, mremapDontUnmap = 1, 2, 4

func (m *moveMem) slice() []byte {
	return unsafe.Slice((*byte)(unsafe.Pointer(m.r.base)), m.max)[:m.r.size:m.max]
}

func (m *moveMem) Reallocate(size uint64) []byte {
	if size > m.max {
		return nil
	}
	if !m.inited || size == m.r.size {
		m.inited = true
		if size > m.r.size {
			mprotect(m.r.base+uintptr(m.r.size), size-m.r.size, syscall.PROT_READ|syscall.PROT_WRITE)
		}
		m.r.size = size
		return m.slice()
	}
	old := m.r
	m.r = m.a.reserve(m.max)
	if old.size > 0 {
		// move the pages [0,old.size) to the new reservation (the destination
		// range is replaced atomically). MREMAP_DONTUNMAP keeps the source range
		// mapped (now without pages), so no hole ever exists that another
		// thread's mmap could land in; it is made inaccessible right away.
		if _, _, e := syscall.Syscall6(syscall.SYS_MREMAP, old.base, uintptr(old.size), uintptr(old.size), mremapMaymove|mremapFixed|mremapDontUnmap, m.r.base, 0); e != 0 {
			panic(fmt.Sprintf("c02 moveAlloc: mremap: %v", e))
		}
		mprotect(old.base, old.size, syscall.PROT_NONE)
	}
	switch {
	case size > old.size:
		mprotect(m.r.base+uintptr(old.size), size-old.size, syscall.PROT_READ|syscall.PROT_WRITE)
	case size < old.size:
		mprotect(m.r.base+uintptr(size), old.size-size, syscall.PROT_NONE)
	}
	m.r.size = size
	old.size = 0
	old.live = false
	return m.slice()
}

func (m *moveMem) Free() {}

func (a *moveAlloc) freeAll() {
	a.mu.Lock()
	defer a.mu.Unlock()
	for _, r := range a.regions {
		syscall.Syscall(syscall.SYS_MUNMAP, r.lo, uintptr(r.total), 0)
	}
	a.regions = nil
}

// current returns base and size of the live region (one memory per allocator).
func (a *moveAlloc) current() (uintptr, uint64) {
	a.mu.Lock()
	defer a.mu.Unlock()
	for i := len(a.regions) - 1; i >= 0; i-- {
		if a.regions[i].live {
			return a.regions[i].base, a.regions[i].size
		}
	}
	return 0, 0
}
