package c02

import (
	"context"
	"fmt"
	"os"
	"testing"

	"github.com/tetratelabs/wazero"
	"github.com/tetratelabs/wazero/api"
	"github.com/tetratelabs/wazero/experimental"
	"github.com/tetratelabs/wazero/verifharness/guardmem"
	"github.com/tetratelabs/wazero/verifharness/wenc"
)

// Minimal hand-written reproducers of the defects the check reports on the
// pinned tree (documentation; run with C02_REPRO=1 go test -run Repro -v).
// The one for the amd64 address-mode defect kills the test process by design
// (C02_REPRO=fault).

func reproRun(t *testing.T, name string, compiler bool, pages uint32, body []byte, params []wenc.ValType, results []wenc.ValType, args ...uint64) {
	ga := guardmem.New()
	ga.Announce = true
	defer ga.FreeAll()
	ctx := experimental.WithMemoryAllocator(context.Background(), ga)
	cfg := wazero.NewRuntimeConfigInterpreter()
	if compiler {
		cfg = wazero.NewRuntimeConfigCompiler()
	}
	rt := wazero.NewRuntimeWithConfig(ctx, cfg.WithCoreFeatures(api.CoreFeaturesV2|experimental.CoreFeaturesThreads))
	defer rt.Close(ctx)
	m := &wenc.Module{}
	m.Mems = []wenc.Limits{{Min: pages, Max: pages, HasMax: true}}
	nop := m.AddFunc(nil, nil, nil, (&wenc.Code{}).End().B)
	_ = nop
	f := m.AddFunc(params, results, []wenc.ValType{wenc.I32}, body)
	m.ExportFunc("f", f)
	mod, err := rt.Instantiate(ctx, m.Encode())
	if err != nil {
		t.Fatal(err)
	}
	res, err := mod.ExportedFunction("f").Call(ctx, args...)
	e := ""
	if err != nil {
		e = err.Error()
		if len(e) > 90 {
			e = e[:90]
		}
	}
	fmt.Printf("%-60s compiler=%-5v pages=%-5d -> res=%v err=%q\n", name, compiler, pages, res, e)
}

func TestReproducers(t *testing.T) {
	mode := os.Getenv("C02_REPRO")
	if mode == "" {
		t.Skip("set C02_REPRO=1 (or =fault)")
	}
	i32 := []wenc.ValType{wenc.I32}
	// (b) compiler, local 65536-page memory: i32.load8_u(0) traps
	ld := (&wenc.Code{}).LocalGet(0).Mem(0x2d, 0, 0).End().B
	reproRun(t, "i32.load8_u addr=0", false, 65536, ld, i32, i32, 0)
	reproRun(t, "i32.load8_u addr=0", true, 65536, ld, i32, i32, 0)
	// interpreter, 65536 pages: memory.atomic.notify traps for every address (Size() is 0 as uint32)
	nt := (&wenc.Code{}).LocalGet(0).I32Const(1).Prefixed(0xfe, 0).U32(2).U32(0).End().B
	reproRun(t, "memory.atomic.notify addr=16", false, 65536, nt, i32, i32, 16)
	reproRun(t, "memory.atomic.notify addr=16", true, 65535, nt, i32, i32, 16)
	reproRun(t, "memory.atomic.notify addr=16", false, 65535, nt, i32, i32, 16)
	// interpreter, 65536 pages: i32.load of the last 4 bytes -> Go runtime error
	l4 := (&wenc.Code{}).LocalGet(0).Mem(0x28, 0, 0).End().B
	reproRun(t, "i32.load addr=0xfffffffc", false, 65536, l4, i32, i32, 0xfffffffc)
	if mode == "fault" {
		// (a) amd64: constant base with bit 31 set held in a local, reused after a call
		c := (&wenc.Code{}).I32Const(-0x80000000).LocalSet(1).
			LocalGet(1).Mem(0x2d, 0, 0).Drop().
			Call(0).
			LocalGet(1).Mem(0x2d, 0, 0).End().B
		reproRun(t, "const 0x80000000 in local; load; call; load", false, 40000, c, i32, i32, 0)
		reproRun(t, "const 0x80000000 in local; load; call; load", true, 40000, c, i32, i32, 0)
	}
}
