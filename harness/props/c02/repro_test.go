package c02

import (
	"context"
	"fmt"
	"os"
	"testing"

	"github.com/tetratelabs/wazero"
	"github.com/tetratelabs/wazero/api"
	"github.com/tetratelabs/wazero/experimental"
	"github.com/tetratelabs/wazero/verifharness/guardmem"
	"github.com/tetratelabs/wazero/verifharness/wenc"
)

// Minimal hand-written reproducers of the defects the check reports on the
// pinned tree (documentation; run with C02_REPRO=1 go test -run Repro -v).
// The one for the amd64 address-mode defect kills the test process by design
// (C02_REPRO=fault).

// reproStock runs a module on a stock runtime (no custom allocator).
func reproStock(t *testing.T, name string, compiler bool, m *wenc.Module, args ...uint64) {
	ctx := context.Background()
	cfg := wazero.NewRuntimeConfigInterpreter()
	if compiler {
		cfg = wazero.NewRuntimeConfigCompiler()
	}
	rt := wazero.NewRuntimeWithConfig(ctx, cfg.WithCoreFeatures(api.CoreFeaturesV2|experimental.CoreFeaturesThreads))
	defer rt.Close(ctx)
	mod, err := rt.Instantiate(ctx, m.Encode())
	if err != nil {
		t.Fatal(err)
	}
	res, err := mod.ExportedFunction("f").Call(ctx, args...)
	fmt.Printf("%-60s compiler=%-5v -> res=%#x err=%v\n", name, compiler, res, err)
}

func reproRun(t *testing.T, name string, compiler bool, pages uint32, body []byte, params []wenc.ValType, results []wenc.ValType, args ...uint64) {
	ga := guardmem.New()
	ga.Announce = true
	defer ga.FreeAll()
	ctx := experimental.WithMemoryAllocator(context.Background(), ga)
	cfg := wazero.NewRuntimeConfigInterpreter()
	if compiler {
		cfg = wazero.NewRuntimeConfigCompiler()
	}
	rt := wazero.NewRuntimeWithConfig(ctx, cfg.WithCoreFeatures(api.CoreFeaturesV2|experimental.CoreFeaturesThreads))
	defer rt.Close(ctx)
	m := &wenc.Module{}
	m.Mems = []wenc.Limits{{Min: pages, Max: pages, HasMax: true}}
	nop := m.AddFunc(nil, nil, nil, (&wenc.Code{}).End().B)
	_ = nop
	f := m.AddFunc(params, results, []wenc.ValType{wenc.I32}, body)
	m.ExportFunc("f", f)
	mod, err := rt.Instantiate(ctx, m.Encode())
	if err != nil {
		t.Fatal(err)
	}
	res, err := mod.ExportedFunction("f").Call(ctx, args...)
	e := ""
	if err != nil {
		e = err.Error()
		if len(e) > 90 {
			e = e[:90]
		}
	}
	fmt.Printf("%-60s compiler=%-5v pages=%-5d -> res=%v err=%q\n", name, compiler, pages, res, e)
}

func TestReproducers(t *testing.T) {
	mode := os.Getenv("C02_REPRO")
	if mode == "" {
		t.Skip("set C02_REPRO=1 (or =fault)")
	}
	i32 := []wenc.ValType{wenc.I32}
	// (b) compiler, local 65536-page memory: i32.load8_u(0) traps
	ld := (&wenc.Code{}).LocalGet(0).Mem(0x2d, 0, 0).End().B
	reproRun(t, "i32.load8_u addr=0", false, 65536, ld, i32, i32, 0)
	reproRun(t, "i32.load8_u addr=0", true, 65536, ld, i32, i32, 0)
	// interpreter, 65536 pages: memory.atomic.notify traps for every address (Size() is 0 as uint32)
	nt := (&wenc.Code{}).LocalGet(0).I32Const(1).Prefixed(0xfe, 0).U32(2).U32(0).End().B
	reproRun(t, "memory.atomic.notify addr=16", false, 65536, nt, i32, i32, 16)
	reproRun(t, "memory.atomic.notify addr=16", true, 65535, nt, i32, i32, 16)
	reproRun(t, "memory.atomic.notify addr=16", false, 65535, nt, i32, i32, 16)
	// interpreter, 65536 pages: i32.load of the last 4 bytes -> Go runtime error
	l4 := (&wenc.Code{}).LocalGet(0).Mem(0x28, 0, 0).End().B
	reproRun(t, "i32.load addr=0xfffffffc", false, 65536, l4, i32, i32, 0xfffffffc)
	// amd64 compiler: atomic rmw and/or/xor right after a call that returns in rax yields its operand
	{
		m := &wenc.Module{}
		m.Mems = []wenc.Limits{{Min: 1, Max: 1, HasMax: true}}
		m.Datas = []wenc.Data{{Mode: 0, Offset: wenc.ConstI32(8), Bytes: []byte{0x6a}}}
		c := (&wenc.Code{}).LocalGet(0).I32Const(63).Prefixed(0xfe, 0).U32(2).U32(0).Drop().
			LocalGet(0).LocalGet(1).Op(0xa7).Prefixed(0xfe, 0x35).U32(0).U32(0).End()
		m.ExportFunc("f", m.AddFunc([]wenc.ValType{wenc.I32, wenc.I64}, i32, nil, c.B))
		reproStock(t, "notify; i32.atomic.rmw8.or_u(8, wrap(1)) with mem[8]=0x6a", false, m, 8, 1)
		reproStock(t, "notify; i32.atomic.rmw8.or_u(8, wrap(1)) with mem[8]=0x6a", true, m, 8, 1)
	}
	if mode == "fault" {
		// shared memory with 0 initial pages, stock allocator: the memory base 0 read
		// before a growing call is used afterwards: store to absolute address 5000
		m := &wenc.Module{}
		m.Mems = []wenc.Limits{{Min: 0, Max: 1, HasMax: true, Shared: true}}
		g := m.AddFunc(nil, nil, nil, (&wenc.Code{}).I32Const(1).MemoryGrow().Drop().End().B)
		c := (&wenc.Code{}).I32Const(0).I32Const(0).LocalGet(0).Prefixed(0xfc, 10).Op(0, 0). // memory.copy(0,0,n)
													Call(g).
													I32Const(5000).I32Const(7).Mem(0x3a, 0, 0).
													I32Const(5000).Mem(0x2d, 0, 0).End()
		m.ExportFunc("f", m.AddFunc(i32, i32, nil, c.B))
		reproStock(t, "shared (memory 0 1): copy(0,0,0); call grow; store8 5000", false, m, 0)
		if os.Getenv("C02_REPRO_WHICH") == "shared0" {
			reproStock(t, "shared (memory 0 1): copy(0,0,0); call grow; store8 5000", true, m, 0)
		}
		// (a) amd64: constant base with bit 31 set held in a local, reused after a call
		ca := (&wenc.Code{}).I32Const(-0x80000000).LocalSet(1).
			LocalGet(1).Mem(0x2d, 0, 0).Drop().
			Call(0).
			LocalGet(1).Mem(0x2d, 0, 0).End().B
		reproRun(t, "const 0x80000000 in local; load; call; load", false, 40000, ca, i32, i32, 0)
		reproRun(t, "const 0x80000000 in local; load; call; load", true, 40000, ca, i32, i32, 0)
	}
}
