package c02

import (
	"context"
	"fmt"
	"os"
	"testing"

	"github.com/tetratelabs/wazero"
	"github.com/tetratelabs/wazero/api"
	"github.com/tetratelabs/wazero/experimental"
	"github.com/tetratelabs/wazero/verifharness/wenc"
)

func TestScratchShared0(t *testing.T) {
	if os.Getenv("C02_SCRATCH") == "" {
		t.Skip()
	}
	for _, variant := range []string{"call-grow", "inline-grow"} {
		for _, comp := range []bool{false, true} {
			ctx := context.Background()
			cfg := wazero.NewRuntimeConfigInterpreter()
			if comp {
				cfg = wazero.NewRuntimeConfigCompiler()
			}
			rt := wazero.NewRuntimeWithConfig(ctx, cfg.WithCoreFeatures(api.CoreFeaturesV2|experimental.CoreFeaturesThreads))
			m := &wenc.Module{}
			m.Mems = []wenc.Limits{{Min: 0, Max: 1, HasMax: true, Shared: true}}
			g := m.AddFunc(nil, nil, nil, (&wenc.Code{}).I32Const(1).MemoryGrow().Drop().End().B)
			c := &wenc.Code{}
			c.I32Const(0).I32Const(0).LocalGet(0).Prefixed(0xfc, 10).Op(0, 0) // memory.copy(0,0,n): in bounds at size 0 when n == 0
			if variant == "call-grow" {
				c.Call(g)
			} else {
				c.I32Const(1).MemoryGrow().Drop()
			}
			c.I32Const(5000).I32Const(7).Mem(0x3a, 0, 0) // i32.store8
			c.I32Const(5000).Mem(0x2d, 0, 0)              // i32.load8_u
			c.End()
			f := m.AddFunc([]wenc.ValType{wenc.I32}, []wenc.ValType{wenc.I32}, nil, c.B)
			m.ExportFunc("f", f)
			mod, err := rt.Instantiate(ctx, m.Encode())
			if err != nil {
				t.Fatal(err)
			}
			fmt.Printf("%s compiler=%v ...\n", variant, comp)
			res, err := mod.ExportedFunction("f").Call(ctx, 0)
			fmt.Printf("%s compiler=%v res=%v err=%v\n", variant, comp, res, err)
			rt.Close(ctx)
		}
	}
}
