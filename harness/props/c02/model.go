package c02

import (
	"encoding/binary"
	"fmt"
	"sort"
	"strings"

	"github.com/tetratelabs/wazero/verifharness/wenc"
)

const pageSize = 65536

// maxBulk is the largest in-bounds bulk operation a tuple may perform (larger
// ones are re-drawn: they would touch gigabytes of a virtual memory).
const maxBulk = 3 * pageSize

// marker is the byte every pre-existing page is filled with before it is
// first touched: a function of the absolute address, never 0, so that an
// access that lands at the wrong address reads a different value and
// zero-filled (grown) pages are distinguishable.
func marker(a uint64) byte {
	x := a * 0x9E3779B97F4A7C15
	b := byte(x>>56) ^ byte(x>>23)
	if b == 0 {
		b = 0xA5
	}
	return b
}

func markerPage(p uint32) []byte {
	b := make([]byte, pageSize)
	base := uint64(p) * pageSize
	for i := range b {
		b[i] = marker(base + uint64(i))
	}
	return b
}

// mem is the sparse reference memory. Pages not present are all-zero.
type mem struct {
	pages, max uint32
	pg         map[uint32][]byte
	data       []byte // passive data segment 0
	shared     bool

	// real, when set, returns the real linear memory [0,size) so that marker
	// pages can be written into it before the call that first touches them.
	real func() []byte

	// per-call state
	startPages   uint32
	undo         map[uint32][]byte // page content before the first write of this call (nil = was absent)
	undoPages    uint32
	materialized []uint32
	touched      map[uint32]struct{}
}

func newMem(pages, max uint32, shared bool, data []byte) *mem {
	return &mem{pages: pages, max: max, shared: shared, data: data, pg: map[uint32][]byte{}, touched: map[uint32]struct{}{}}
}

func (m *mem) size() uint64 { return uint64(m.pages) * pageSize }

func (m *mem) begin() {
	m.startPages = m.pages
	m.undoPages = m.pages
	m.undo = map[uint32][]byte{}
	m.materialized = m.materialized[:0]
	m.touched = map[uint32]struct{}{}
}

// rollback undoes everything since begin (model-only pre-pass, rejected tuples).
func (m *mem) rollback() {
	for p, old := range m.undo {
		if old == nil {
			delete(m.pg, p)
		} else {
			m.pg[p] = old
		}
	}
	for _, p := range m.materialized {
		delete(m.pg, p)
	}
	m.pages = m.undoPages
	m.undo = map[uint32][]byte{}
	m.materialized = m.materialized[:0]
}

// page returns the model page p (p < pages), materialising it: pages that
// existed when the call started get the marker pattern (also written to the
// real memory, which is still in its pre-call state); pages created by a grow
// during this call are zero.
func (m *mem) page(p uint32, forWrite bool) []byte {
	m.touched[p] = struct{}{}
	b, ok := m.pg[p]
	if !ok {
		if p < m.startPages {
			b = markerPage(p)
			if m.real != nil {
				r := m.real()
				copy(r[uint64(p)*pageSize:uint64(p+1)*pageSize], b)
			}
			m.materialized = append(m.materialized, p)
		} else {
			b = make([]byte, pageSize)
			if _, saved := m.undo[p]; !saved {
				m.undo[p] = nil
			}
		}
		m.pg[p] = b
	}
	if forWrite {
		if _, saved := m.undo[p]; !saved {
			m.undo[p] = append([]byte(nil), b...)
		}
	}
	return b
}

// rd reads n in-bounds bytes at a.
func (m *mem) rd(a, n uint64) []byte {
	out := make([]byte, 0, n)
	for n > 0 {
		p := uint32(a / pageSize)
		o := a % pageSize
		k := pageSize - o
		if k > n {
			k = n
		}
		out = append(out, m.page(p, false)[o:o+k]...)
		a += k
		n -= k
	}
	return out
}

func (m *mem) wr(a uint64, b []byte) {
	for len(b) > 0 {
		p := uint32(a / pageSize)
		o := a % pageSize
		k := pageSize - o
		if k > uint64(len(b)) {
			k = uint64(len(b))
		}
		copy(m.page(p, true)[o:o+k], b[:k])
		a += k
		b = b[k:]
	}
}

// touchRange marks the in-bounds part of [a,a+n) as of interest for the
// post-call comparison without reading it (used for trapping accesses: the
// in-bounds part of a straddling store must stay unchanged).
func (m *mem) touchRange(a, n uint64) {
	sz := m.size()
	if a >= sz {
		if sz > 0 {
			m.page(uint32((sz-1)/pageSize), false)
		}
		return
	}
	end := a + n
	if end > sz {
		end = sz
	}
	if end-a > maxBulk {
		end = a + maxBulk
	}
	for p := a / pageSize; p*pageSize < end; p++ {
		m.page(uint32(p), false)
	}
	if sz > 0 {
		m.page(uint32((sz-1)/pageSize), false)
	}
}

func (m *mem) grow(delta uint32) (old uint32, ok bool) {
	if delta == 0 {
		return m.pages, true
	}
	n := uint64(m.pages) + uint64(delta)
	if n > uint64(m.max) || int32(delta) < 0 {
		return 0, false
	}
	old = m.pages
	m.pages = uint32(n)
	return old, true
}

// ---- IR interpreter ----

type params struct {
	P0, P1 uint32
	P2     uint64
	Sel    uint32
	Val    uint64
}

func (p params) String() string {
	return fmt.Sprintf("p0=%#x p1=%#x p2=%#x sel=%#x val=%#x", p.P0, p.P1, p.P2, p.Sel, p.Val)
}

// dynAccess is one access executed by the model.
type dynAccess struct {
	ID      int    `json:"id"`
	Op      string `json:"op"`
	Class   string `json:"class"`
	VarKind string `json:"base_kind"`
	Base    uint32 `json:"base"`
	Off     uint32 `json:"offset"`
	N       uint64 `json:"width"` // bytes accessed (bulk: n)
	Src     uint64 `json:"src,omitempty"`
	Size    uint64 `json:"mem_size"`
	Since   string `json:"since_last_use_of_base"` // first | none | call,grow,join,bump…
	Trap    string `json:"trap,omitempty"`
	Bucket  string `json:"bucket"`
	Grows   int    `json:"grows_before"` // successful size-changing grows so far in this call
	// Upper is the upper half of the i64 the base value was wrapped from (base
	// kinds wrap/wrap_add/wrapped-i64): a correct engine ignores it.
	Upper uint32 `json:"upper_half_of_i64_source,omitempty"`

	hasOld bool // cmpxchg / wait: value found at the address
	old    uint64
}

type outcome struct {
	Results  []uint64
	Trap     string // "" | oob | unaligned | either
	Progress int
	Trace    []dynAccess
	Reject   string
	Grows    int
	Callees  map[string]int
}

type trapErr struct{ kind string }

func (t *trapErr) Error() string { return t.kind }

type rejectErr struct{ why string }

func (t *rejectErr) Error() string { return t.why }

type exec struct {
	t      *template
	m      *mem
	p      params
	locals []uint32 // value of var i (for vars that live in a local); params kept in p
	uppers []uint32 // upper half of the i64 source of var i (wrapped kinds)
	res    [][2]uint64
	since  []map[string]bool // per var: events since its last use; nil = never used
	out    outcome
}

func bucketOf(base, off uint32, n, size uint64) string {
	ea := uint64(base) + uint64(off)
	switch {
	case ea >= 1<<32:
		return "sum>=2^32"
	case ea+n > 1<<32:
		return "end>2^32"
	case ea+n <= size:
		switch {
		case ea+n == size:
			return "inb:ends-at-size"
		case size-(ea+n) <= 16:
			return "inb:within16-of-end"
		case ea >= 1<<31:
			return "inb:ea>=2^31"
		case ea+n > 1<<31:
			return "inb:crosses-2^31"
		case ea < 64:
			return "inb:low"
		case ea/pageSize != (ea+n-1)/pageSize && n > 0:
			return "inb:crosses-page"
		}
		return "inb:mid"
	case ea < size:
		return "oob:straddles-end"
	case ea == size:
		return "oob:at-size"
	case ea-size <= pageSize:
		return "oob:within-page-after-end"
	case ea >= 1<<31 && size <= 1<<31:
		return "oob:ea>=2^31"
	}
	return "oob:far"
}

// run executes the template on the model. The caller has called m.begin().
func (t *template) run(m *mem, p params) (out outcome) {
	e := &exec{t: t, m: m, p: p}
	e.locals = make([]uint32, len(t.Vars))
	e.uppers = make([]uint32, len(t.Vars))
	e.res = make([][2]uint64, len(t.ResTypes))
	e.since = make([]map[string]bool, len(t.Vars))
	for i, v := range t.Vars {
		if !v.Inline && v.Kind != "p0" && v.Kind != "p1" && v.Kind != "const" && !v.lateDef() {
			e.locals[i] = e.evalExpr(&t.Vars[i])
			e.uppers[i] = uint32(e.src64(&t.Vars[i]) >> 32)
		}
	}
	err := e.steps(t.Steps)
	if err != nil {
		switch x := err.(type) {
		case *trapErr:
			e.out.Trap = x.kind
		case *rejectErr:
			e.out.Reject = x.why
		}
		return e.out
	}
	for i, ty := range t.ResTypes {
		switch ty {
		case wenc.V128:
			e.out.Results = append(e.out.Results, e.res[i][0], e.res[i][1])
		default:
			e.out.Results = append(e.out.Results, e.res[i][0])
		}
	}
	return e.out
}

// src64 is the i64 a wrapped base value is the low half of (0 for other kinds).
func (e *exec) src64(v *baseVar) uint64 {
	switch v.Kind {
	case "wrap":
		return e.p.P2
	case "wrap_add":
		return e.p.P2 + v.K64
	case "wrapx":
		switch v.Shape {
		case "addv":
			return e.p.P2 + e.p.Val
		case "val":
			return e.p.Val
		case "exts":
			return uint64(int64(int32(e.p.P0)))
		case "select":
			if e.p.Sel&selectBit != 0 {
				return e.p.P2
			}
			return e.p.Val
		}
		return e.p.P2 // plain shr0 global call blockparam loopparam tee load(stored value)
	}
	return 0
}

func (e *exec) evalExpr(v *baseVar) uint32 {
	switch v.Kind {
	case "wrapx":
		return uint32(e.src64(v))
	case "p0":
		return e.p.P0
	case "p1":
		return e.p.P1
	case "const", "lconst":
		return v.K
	case "add_pp":
		return e.p.P0 + e.p.P1
	case "add_pk":
		return e.p.P0 + v.K
	case "shl":
		return e.p.P0 << (v.K & 31)
	case "wrap":
		return uint32(e.p.P2)
	case "wrap_add":
		return uint32(e.p.P2 + v.K64)
	}
	panic("bad var kind " + v.Kind)
}

func (e *exec) upperOf(i int) uint32 {
	v := &e.t.Vars[i]
	if v.Inline {
		return uint32(e.src64(v) >> 32)
	}
	return e.uppers[i]
}

func (e *exec) varVal(i int) uint32 {
	v := &e.t.Vars[i]
	switch {
	case v.Kind == "p0":
		return e.p.P0
	case v.Kind == "p1":
		return e.p.P1
	case v.Kind == "const" || v.Inline:
		return e.evalExpr(v)
	}
	return e.locals[i]
}

func (e *exec) event(ev string) {
	for _, s := range e.since {
		if s != nil {
			s[ev] = true
		}
	}
}

func (e *exec) useVar(i int) string {
	s := e.since[i]
	e.since[i] = map[string]bool{}
	if s == nil {
		return "first"
	}
	if len(s) == 0 {
		return "none"
	}
	var l []string
	for k := range s {
		l = append(l, k)
	}
	sort.Strings(l)
	return strings.Join(l, ",")
}

func (e *exec) steps(ss []step) error {
	for i := range ss {
		if err := e.step(&ss[i]); err != nil {
			return err
		}
	}
	return nil
}

func (e *exec) doGrow(delta uint32, ev string) {
	before := e.m.pages
	e.m.grow(delta)
	if e.m.pages != before {
		e.out.Grows++
	}
	e.event(ev)
}

func (e *exec) step(s *step) error {
	switch s.Kind {
	case "access":
		return e.access(s)
	case "bump":
		v := &e.t.Vars[s.Var]
		switch v.Kind {
		case "p0":
			e.p.P0 += s.Delta
		case "p1":
			e.p.P1 += s.Delta
		default:
			e.locals[s.Var] += s.Delta
			e.uppers[s.Var] = 0 // result of a 32-bit add
		}
		if e.since[s.Var] != nil {
			e.since[s.Var]["bump"] = true
		}
	case "call":
		if e.out.Callees == nil {
			e.out.Callees = map[string]int{}
		}
		e.out.Callees[s.Callee]++
		switch s.Callee {
		case "grow", "hostgrow", "xgrow", "hostreenter":
			e.doGrow(s.Pages, "call-grow")
		case "hostwrite": // api.Memory.WriteUint32Le: no effect when out of range
			if uint64(s.SrcK)+4 <= e.m.size() {
				e.m.wr(uint64(s.SrcK), leBytes(uint64(s.FillVal), 4))
			}
			e.event("call")
		default:
			e.event("call")
		}
	case "grow":
		e.doGrow(s.Pages, "grow")
	case "if":
		e.event("join")
		var err error
		if e.p.Sel&(1<<s.Bit) != 0 {
			err = e.steps(s.Body)
		} else {
			err = e.steps(s.Else)
		}
		if err != nil {
			return err
		}
		e.event("join")
	case "brif":
		e.event("join")
		if e.p.Sel&(1<<s.Bit) == 0 {
			if err := e.steps(s.Body); err != nil {
				return err
			}
		}
		e.event("join")
	case "loop":
		n := 1 + int((e.p.Sel>>s.Bit)&1)
		if s.N > 0 {
			n = int(s.N)
		}
		for i := 0; i < n; i++ {
			e.event("loop")
			if err := e.steps(s.Body); err != nil {
				return err
			}
		}
		e.event("join")
	case "brtable":
		e.event("join")
		k := int((e.p.Sel >> s.Bit) & 3)
		if k >= len(s.Arms) {
			k = len(s.Arms) - 1
		}
		if err := e.steps(s.Arms[k]); err != nil {
			return err
		}
		e.event("join")
	default:
		panic("bad step " + s.Kind)
	}
	return nil
}

func le(b []byte) uint64 {
	var x [8]byte
	copy(x[:], b)
	return binary.LittleEndian.Uint64(x[:])
}

func leBytes(v uint64, n uint32) []byte {
	var x [8]byte
	binary.LittleEndian.PutUint64(x[:], v)
	return x[:n]
}

func mask(w uint32) uint64 {
	if w >= 8 {
		return ^uint64(0)
	}
	return 1<<(8*w) - 1
}

func sext(v uint64, w uint32) uint64 {
	sh := 64 - 8*w
	return uint64(int64(v<<sh) >> sh)
}

// operand returns the (lo,hi) operand value of a store-like access.
func (e *exec) operand(s *step, o *memOp) (uint64, uint64) {
	switch s.ValKind {
	case "param":
		return e.p.Val, 0
	case "p2":
		return e.p.P2, 0
	}
	return s.C1, s.C2
}

func (e *exec) access(s *step) error {
	o := opByName[s.Op]
	m := e.m
	e.out.Progress++ // the generated code counts started accesses in the progress global
	base := e.varVal(s.Var)
	if s.TeeDef {
		v := &e.t.Vars[s.Var]
		e.locals[s.Var] = e.evalExpr(v)
		e.uppers[s.Var] = uint32(e.src64(v) >> 32)
		base = e.locals[s.Var]
	}
	d := dynAccess{ID: s.ID, Op: o.Name, Class: o.Class, VarKind: e.t.Vars[s.Var].describe(), Base: base, Off: s.Off,
		Size: m.size(), Since: e.useVar(s.Var), Grows: e.out.Grows, Upper: e.upperOf(s.Var)}
	size := m.size()
	fail := func(kind string) error {
		d.Trap = kind
		e.out.Trace = append(e.out.Trace, d)
		return &trapErr{kind}
	}
	switch o.Class {
	case clFill, clCopy, clInit:
		n := uint64(s.N)
		if s.NKind == "p1" {
			n = uint64(e.p.P1)
		}
		d.N = n
		dst := uint64(base)
		d.Bucket = bucketOf(base, 0, n, size)
		var src uint64
		if o.Class == clCopy {
			if s.SrcVar >= 0 {
				src = uint64(e.varVal(s.SrcVar))
				e.useVar(s.SrcVar)
			} else {
				src = uint64(s.SrcK)
			}
			d.Src = src
		} else if o.Class == clInit {
			src = uint64(s.SrcK)
			d.Src = src
		}
		oob := dst+n > size
		switch o.Class {
		case clCopy:
			oob = oob || src+n > size
		case clInit:
			oob = oob || src+n > uint64(len(m.data))
		}
		if oob {
			m.touchRange(dst, n)
			if o.Class == clCopy {
				m.touchRange(src, n)
			}
			return fail("oob")
		}
		if n > maxBulk {
			return &rejectErr{"huge in-bounds bulk operation"}
		}
		switch o.Class {
		case clFill:
			b := make([]byte, n)
			for i := range b {
				b[i] = byte(s.FillVal)
			}
			m.wr(dst, b)
		case clCopy:
			m.wr(dst, m.rd(src, n))
		case clInit:
			m.wr(dst, m.data[src:src+n])
		}
		if n == 0 {
			m.touchRange(dst, 1)
		}
		e.out.Trace = append(e.out.Trace, d)
		return nil
	}
	w := uint64(o.Width)
	d.N = w
	d.Bucket = bucketOf(base, s.Off, w, size)
	ea := uint64(base) + uint64(s.Off)
	oob := ea+w > size
	if o.Atomic {
		mis := ea%w != 0
		switch {
		case mis && oob:
			m.touchRange(ea, w)
			return fail("either")
		case mis:
			m.touchRange(ea, w)
			return fail("unaligned")
		}
	}
	if oob {
		m.touchRange(ea, w)
		return fail("oob")
	}
	setRes := func(lo, hi uint64) {
		if s.Res >= 0 {
			e.res[s.Res] = [2]uint64{lo, hi}
		}
	}
	switch o.Class {
	case clLoad:
		v := le(m.rd(ea, w))
		if o.Signed {
			v = sext(v, o.Width)
		}
		if o.T == wenc.I32 || o.T == wenc.F32 {
			v &= 0xffffffff
		}
		if s.Def > 0 { // the loaded i64 is wrapped into base var Def-1
			e.locals[s.Def-1] = uint32(v)
			e.uppers[s.Def-1] = uint32(v >> 32)
		}
		setRes(v, 0)
	case clStore:
		v, _ := e.operand(s, o)
		m.wr(ea, leBytes(v, o.Width))
	case clVLoad:
		b := m.rd(ea, 16)
		setRes(le(b[:8]), le(b[8:]))
	case clVStore:
		lo, hi := e.operand(s, o)
		if s.ValKind == "param" {
			hi = lo // i64x2.splat of the val parameter
		}
		var b [16]byte
		binary.LittleEndian.PutUint64(b[:8], lo)
		binary.LittleEndian.PutUint64(b[8:], hi)
		m.wr(ea, b[:])
	case clVExtend:
		b := m.rd(ea, 8)
		var r [16]byte
		lanes := 8 / o.Lane
		for i := uint32(0); i < lanes; i++ {
			v := le(b[i*o.Lane : (i+1)*o.Lane])
			if o.Signed {
				v = sext(v, o.Lane)
			}
			copy(r[i*2*o.Lane:(i+1)*2*o.Lane], leBytes(v, 8)[:2*o.Lane])
		}
		setRes(le(r[:8]), le(r[8:]))
	case clVSplat:
		b := m.rd(ea, w)
		var r [16]byte
		for i := 0; i < 16; i += int(w) {
			copy(r[i:], b)
		}
		setRes(le(r[:8]), le(r[8:]))
	case clVZero:
		setRes(le(m.rd(ea, w)), 0)
	case clVLoadLane:
		var r [16]byte
		binary.LittleEndian.PutUint64(r[:8], s.C1)
		binary.LittleEndian.PutUint64(r[8:], s.C2)
		copy(r[s.Lane*o.Lane:], m.rd(ea, w))
		setRes(le(r[:8]), le(r[8:]))
	case clVStoreLn:
		var r [16]byte
		binary.LittleEndian.PutUint64(r[:8], s.C1)
		binary.LittleEndian.PutUint64(r[8:], s.C2)
		m.wr(ea, r[s.Lane*o.Lane:(s.Lane+1)*o.Lane])
	case clALoad:
		setRes(le(m.rd(ea, w)), 0)
	case clAStore:
		v, _ := e.operand(s, o)
		m.wr(ea, leBytes(v, o.Width))
	case clARmw:
		old := le(m.rd(ea, w))
		v, _ := e.operand(s, o)
		if o.T == wenc.I32 {
			v &= 0xffffffff
		}
		var nv uint64
		switch o.Rmw {
		case "add":
			nv = old + v
		case "sub":
			nv = old - v
		case "and":
			nv = old & v
		case "or":
			nv = old | v
		case "xor":
			nv = old ^ v
		case "xchg":
			nv = v
		}
		m.wr(ea, leBytes(nv, o.Width))
		setRes(old, 0)
	case clACmpxchg:
		old := le(m.rd(ea, w))
		d.hasOld, d.old = true, old
		exp := e.p.Val // expected always comes from the val parameter
		if o.T == wenc.I32 {
			exp &= 0xffffffff
		}
		if exp != old && exp&mask(o.Width) == old {
			// narrow cmpxchg whose expected value matches only after wrapping:
			// not what this property is about; re-draw.
			return &rejectErr{"ambiguous narrow cmpxchg"}
		}
		if exp == old {
			m.wr(ea, leBytes(s.C2, o.Width))
		} else {
			m.page(uint32(ea/pageSize), false)
		}
		setRes(old, 0)
	case clANotify:
		m.rd(ea, w)
		setRes(0, 0)
	case clAWait:
		old := le(m.rd(ea, w))
		d.hasOld, d.old = true, old
		exp := e.p.Val
		if o.Width == 4 {
			exp &= 0xffffffff
		}
		if old == exp {
			setRes(2, 0) // timeout 0 expires
		} else {
			setRes(1, 0)
		}
	default:
		panic("class " + o.Class)
	}
	e.out.Trace = append(e.out.Trace, d)
	return nil
}
