package c02

import "github.com/tetratelabs/wazero/verifharness/wenc"

// Instruction classes of the memory-accessing instructions (evidence is
// counted per class; the model has one semantic function per class).
const (
	clLoad      = "load"             // scalar loads incl. sign/zero extending, f32/f64
	clStore     = "store"            // scalar stores
	clVLoad     = "v128.load"        // full 16-byte load
	clVStore    = "v128.store"       // full 16-byte store
	clVExtend   = "v128.load-extend" // load8x8/16x4/32x2 _s/_u
	clVSplat    = "v128.load-splat"
	clVZero     = "v128.load-zero"
	clVLoadLane = "v128.load-lane"
	clVStoreLn  = "v128.store-lane"
	clALoad     = "atomic.load"
	clAStore    = "atomic.store"
	clARmw      = "atomic.rmw"
	clACmpxchg  = "atomic.cmpxchg"
	clANotify   = "atomic.notify"
	clAWait     = "atomic.wait"
	clFill      = "memory.fill"
	clCopy      = "memory.copy"
	clInit      = "memory.init"
)

// coarse class used in crash signatures: plain (memOpSetup + address mode),
// atomic (atomicMemOpSetup), bulk (range check + memmove).
func coarse(cl string) string {
	switch cl {
	case clALoad, clAStore, clARmw, clACmpxchg, clANotify, clAWait:
		return "atomic"
	case clFill, clCopy, clInit:
		return "bulk"
	}
	return "plain"
}

type memOp struct {
	Name   string
	Prefix byte   // 0 = single-byte opcode
	Code   uint32 // opcode / sub-opcode
	Width  uint32 // bytes accessed (0 for bulk: dynamic)
	Class  string
	T      wenc.ValType // result type (loads, rmw) or operand type (stores)
	Signed bool         // sign-extending load / extend
	Lane   uint32       // lane width in bytes for lane/extend ops
	Rmw    string       // add sub and or xor xchg
	Atomic bool
}

func (o *memOp) natAlign() uint32 {
	switch o.Width {
	case 1:
		return 0
	case 2:
		return 1
	case 4:
		return 2
	case 8:
		return 3
	case 16:
		return 4
	}
	return 0
}

// produces reports whether the instruction leaves a value on the stack.
func (o *memOp) produces() bool {
	switch o.Class {
	case clStore, clVStore, clVStoreLn, clAStore, clFill, clCopy, clInit:
		return false
	}
	return true
}

func (o *memOp) writes() bool {
	switch o.Class {
	case clStore, clVStore, clVStoreLn, clAStore, clARmw, clACmpxchg, clFill, clCopy, clInit:
		return true
	}
	return false
}

var ops []*memOp
var opByName = map[string]*memOp{}

func add(o memOp) {
	p := &o
	ops = append(ops, p)
	opByName[o.Name] = p
}

func init() {
	// scalar loads 0x28..0x35
	sl := []struct {
		n  string
		w  uint32
		t  wenc.ValType
		sg bool
	}{
		{"i32.load", 4, wenc.I32, false}, {"i64.load", 8, wenc.I64, false}, {"f32.load", 4, wenc.F32, false}, {"f64.load", 8, wenc.F64, false},
		{"i32.load8_s", 1, wenc.I32, true}, {"i32.load8_u", 1, wenc.I32, false}, {"i32.load16_s", 2, wenc.I32, true}, {"i32.load16_u", 2, wenc.I32, false},
		{"i64.load8_s", 1, wenc.I64, true}, {"i64.load8_u", 1, wenc.I64, false}, {"i64.load16_s", 2, wenc.I64, true}, {"i64.load16_u", 2, wenc.I64, false},
		{"i64.load32_s", 4, wenc.I64, true}, {"i64.load32_u", 4, wenc.I64, false},
	}
	for i, s := range sl {
		add(memOp{Name: s.n, Code: 0x28 + uint32(i), Width: s.w, Class: clLoad, T: s.t, Signed: s.sg})
	}
	ss := []struct {
		n string
		w uint32
		t wenc.ValType
	}{
		{"i32.store", 4, wenc.I32}, {"i64.store", 8, wenc.I64}, {"f32.store", 4, wenc.F32}, {"f64.store", 8, wenc.F64},
		{"i32.store8", 1, wenc.I32}, {"i32.store16", 2, wenc.I32}, {"i64.store8", 1, wenc.I64}, {"i64.store16", 2, wenc.I64}, {"i64.store32", 4, wenc.I64},
	}
	for i, s := range ss {
		add(memOp{Name: s.n, Code: 0x36 + uint32(i), Width: s.w, Class: clStore, T: s.t})
	}
	// SIMD
	add(memOp{Name: "v128.load", Prefix: 0xfd, Code: 0, Width: 16, Class: clVLoad, T: wenc.V128})
	ex := []struct {
		n    string
		lane uint32
		sg   bool
	}{{"v128.load8x8_s", 1, true}, {"v128.load8x8_u", 1, false}, {"v128.load16x4_s", 2, true}, {"v128.load16x4_u", 2, false}, {"v128.load32x2_s", 4, true}, {"v128.load32x2_u", 4, false}}
	for i, e := range ex {
		add(memOp{Name: e.n, Prefix: 0xfd, Code: 1 + uint32(i), Width: 8, Class: clVExtend, T: wenc.V128, Signed: e.sg, Lane: e.lane})
	}
	for i, w := range []uint32{1, 2, 4, 8} {
		nm := []string{"v128.load8_splat", "v128.load16_splat", "v128.load32_splat", "v128.load64_splat"}[i]
		add(memOp{Name: nm, Prefix: 0xfd, Code: 7 + uint32(i), Width: w, Class: clVSplat, T: wenc.V128, Lane: w})
	}
	add(memOp{Name: "v128.store", Prefix: 0xfd, Code: 11, Width: 16, Class: clVStore, T: wenc.V128})
	for i, w := range []uint32{1, 2, 4, 8} {
		nm := []string{"v128.load8_lane", "v128.load16_lane", "v128.load32_lane", "v128.load64_lane"}[i]
		add(memOp{Name: nm, Prefix: 0xfd, Code: 84 + uint32(i), Width: w, Class: clVLoadLane, T: wenc.V128, Lane: w})
	}
	for i, w := range []uint32{1, 2, 4, 8} {
		nm := []string{"v128.store8_lane", "v128.store16_lane", "v128.store32_lane", "v128.store64_lane"}[i]
		add(memOp{Name: nm, Prefix: 0xfd, Code: 88 + uint32(i), Width: w, Class: clVStoreLn, T: wenc.V128, Lane: w})
	}
	add(memOp{Name: "v128.load32_zero", Prefix: 0xfd, Code: 92, Width: 4, Class: clVZero, T: wenc.V128, Lane: 4})
	add(memOp{Name: "v128.load64_zero", Prefix: 0xfd, Code: 93, Width: 8, Class: clVZero, T: wenc.V128, Lane: 8})
	// atomics
	add(memOp{Name: "memory.atomic.notify", Prefix: 0xfe, Code: 0, Width: 4, Class: clANotify, T: wenc.I32, Atomic: true})
	add(memOp{Name: "memory.atomic.wait32", Prefix: 0xfe, Code: 1, Width: 4, Class: clAWait, T: wenc.I32, Atomic: true})
	add(memOp{Name: "memory.atomic.wait64", Prefix: 0xfe, Code: 2, Width: 8, Class: clAWait, T: wenc.I32, Atomic: true}) // result is i32, expected operand i64
	al := []struct {
		n string
		w uint32
		t wenc.ValType
	}{{"i32.atomic.load", 4, wenc.I32}, {"i64.atomic.load", 8, wenc.I64}, {"i32.atomic.load8_u", 1, wenc.I32}, {"i32.atomic.load16_u", 2, wenc.I32},
		{"i64.atomic.load8_u", 1, wenc.I64}, {"i64.atomic.load16_u", 2, wenc.I64}, {"i64.atomic.load32_u", 4, wenc.I64}}
	for i, a := range al {
		add(memOp{Name: a.n, Prefix: 0xfe, Code: 0x10 + uint32(i), Width: a.w, Class: clALoad, T: a.t, Atomic: true})
	}
	as := []struct {
		n string
		w uint32
		t wenc.ValType
	}{{"i32.atomic.store", 4, wenc.I32}, {"i64.atomic.store", 8, wenc.I64}, {"i32.atomic.store8", 1, wenc.I32}, {"i32.atomic.store16", 2, wenc.I32},
		{"i64.atomic.store8", 1, wenc.I64}, {"i64.atomic.store16", 2, wenc.I64}, {"i64.atomic.store32", 4, wenc.I64}}
	for i, a := range as {
		add(memOp{Name: a.n, Prefix: 0xfe, Code: 0x17 + uint32(i), Width: a.w, Class: clAStore, T: a.t, Atomic: true})
	}
	rw := []struct {
		n string
		w uint32
		t wenc.ValType
	}{{"i32.atomic.rmw.", 4, wenc.I32}, {"i64.atomic.rmw.", 8, wenc.I64}, {"i32.atomic.rmw8.", 1, wenc.I32}, {"i32.atomic.rmw16.", 2, wenc.I32},
		{"i64.atomic.rmw8.", 1, wenc.I64}, {"i64.atomic.rmw16.", 2, wenc.I64}, {"i64.atomic.rmw32.", 4, wenc.I64}}
	for k, kind := range []string{"add", "sub", "and", "or", "xor", "xchg", "cmpxchg"} {
		for i, a := range rw {
			nm := a.n + kind
			if i >= 2 {
				nm += "_u"
			}
			cl := clARmw
			if kind == "cmpxchg" {
				cl = clACmpxchg
			}
			add(memOp{Name: nm, Prefix: 0xfe, Code: 0x1e + uint32(k*7+i), Width: a.w, Class: cl, T: a.t, Rmw: kind, Atomic: true})
		}
	}
	// bulk
	add(memOp{Name: "memory.init", Prefix: 0xfc, Code: 8, Class: clInit})
	add(memOp{Name: "memory.copy", Prefix: 0xfc, Code: 10, Class: clCopy})
	add(memOp{Name: "memory.fill", Prefix: 0xfc, Code: 11, Class: clFill})
}
