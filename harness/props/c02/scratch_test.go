package c02

import (
	"context"
	"fmt"
	"os"
	"testing"

	"github.com/tetratelabs/wazero"
	"github.com/tetratelabs/wazero/api"
	"github.com/tetratelabs/wazero/experimental"
	"github.com/tetratelabs/wazero/verifharness/wenc"
)

func TestScratchRmw(t *testing.T) {
	if os.Getenv("C02_SCRATCH") == "" {
		t.Skip()
	}
	type variant struct {
		name string
		body func(c *wenc.Code)
	}
	rmw := func(sub uint32, align uint32) func(c *wenc.Code) {
		return func(c *wenc.Code) { c.Prefixed(0xfe, sub).U32(align).U32(0) }
	}
	vs := []variant{
		{"rmw8.or_u(p0, wrap(val))", func(c *wenc.Code) { c.LocalGet(0).LocalGet(1).Op(0xa7); rmw(0x35, 0)(c) }},
		{"rmw8.or_u(p0, const 1)", func(c *wenc.Code) { c.LocalGet(0).I32Const(1); rmw(0x35, 0)(c) }},
		{"notify; rmw8.or_u(p0, wrap(val))", func(c *wenc.Code) {
			c.LocalGet(0).I32Const(63).Prefixed(0xfe, 0).U32(2).U32(0).Drop()
			c.LocalGet(0).LocalGet(1).Op(0xa7)
			rmw(0x35, 0)(c)
		}},
		{"load32_u; rmw8.or_u(p0, wrap(val))", func(c *wenc.Code) {
			c.LocalGet(0).Mem(0x35, 2, 0).Drop()
			c.LocalGet(0).LocalGet(1).Op(0xa7)
			rmw(0x35, 0)(c)
		}},
		{"rmw8.and_u(p0, wrap(val))", func(c *wenc.Code) { c.LocalGet(0).LocalGet(1).Op(0xa7); rmw(0x2e, 0)(c) }},
		{"rmw8.xor_u(p0, wrap(val))", func(c *wenc.Code) { c.LocalGet(0).LocalGet(1).Op(0xa7); rmw(0x3c, 0)(c) }},
		{"rmw8.add_u(p0, wrap(val))", func(c *wenc.Code) { c.LocalGet(0).LocalGet(1).Op(0xa7); rmw(0x20, 0)(c) }},
		{"rmw.or(p0, wrap(val))", func(c *wenc.Code) { c.LocalGet(0).LocalGet(1).Op(0xa7); rmw(0x33, 2)(c) }},
		{"rmw16.or_u(p0, wrap(val))", func(c *wenc.Code) { c.LocalGet(0).LocalGet(1).Op(0xa7); rmw(0x36, 1)(c) }},
	}
	for _, v := range vs {
		for _, comp := range []bool{false, true} {
			ctx := context.Background()
			cfg := wazero.NewRuntimeConfigInterpreter()
			if comp {
				cfg = wazero.NewRuntimeConfigCompiler()
			}
			rt := wazero.NewRuntimeWithConfig(ctx, cfg.WithCoreFeatures(api.CoreFeaturesV2|experimental.CoreFeaturesThreads))
			m := &wenc.Module{}
			m.Mems = []wenc.Limits{{Min: 1, Max: 1, HasMax: true}}
			m.Datas = []wenc.Data{{Mode: 0, Offset: wenc.ConstI32(8), Bytes: []byte{0x6a, 0xd6, 0xba, 0x1e}}}
			c := &wenc.Code{}
			v.body(c)
			c.End()
			f := m.AddFunc([]wenc.ValType{wenc.I32, wenc.I64}, []wenc.ValType{wenc.I32}, nil, c.B)
			m.ExportFunc("f", f)
			mod, err := rt.Instantiate(ctx, m.Encode())
			if err != nil {
				t.Fatal(v.name, err)
			}
			res, err := mod.ExportedFunction("f").Call(ctx, 8, 1)
			b, _ := mod.Memory().Read(8, 4)
			fmt.Printf("%-40s compiler=%-5v res=%#x err=%v mem=%x\n", v.name, comp, res, err, b)
			rt.Close(ctx)
		}
	}
}
