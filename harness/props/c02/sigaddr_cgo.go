//go:build cgo

package c02

// A SIGSEGV/SIGBUS handler in front of the Go runtime's that writes the
// faulting address to stderr ("C02FAULT addr=0x…") and then chains to the Go
// handler. The Go runtime prints the address of a fault in generated code
// only when its sigpanic gets to run; when the engine's execution stack
// happens to lie below the goroutine stack it dies with "split stack
// overflow" (or "unknown caller pc", or inside a concurrent stack scan)
// without ever printing it. Installed in supervised children only.

/*
#include <signal.h>
#include <string.h>
#include <unistd.h>

static struct sigaction c02_prev_segv, c02_prev_bus;

static void c02_handler(int sig, siginfo_t *si, void *ctx) {
	char buf[80];
	const char *pre = "C02FAULT addr=0x";
	int n = 0;
	while (pre[n]) { buf[n] = pre[n]; n++; }
	unsigned long a = (unsigned long)si->si_addr;
	int started = 0;
	for (int sh = 60; sh >= 0; sh -= 4) {
		int d = (a >> sh) & 0xf;
		if (d || started || sh == 0) {
			buf[n++] = d < 10 ? '0' + d : 'a' + d - 10;
			started = 1;
		}
	}
	// si_code: 1 = SEGV_MAPERR, 2 = SEGV_ACCERR, 128 = SI_KERNEL (e.g. non-canonical address: si_addr is 0 then)
	const char *mid = " code=";
	for (int i = 0; mid[i]; i++) buf[n++] = mid[i];
	int code = si->si_code;
	if (code < 0) { buf[n++] = '-'; code = -code; }
	char tmp[12];
	int k = 0;
	do { tmp[k++] = '0' + code % 10; code /= 10; } while (code && k < 11);
	while (k) buf[n++] = tmp[--k];
	buf[n++] = '\n';
	if (write(2, buf, n) < 0) {}
	struct sigaction *p = sig == SIGBUS ? &c02_prev_bus : &c02_prev_segv;
	if (p->sa_flags & SA_SIGINFO) {
		p->sa_sigaction(sig, si, ctx);
	} else if (p->sa_handler != SIG_DFL && p->sa_handler != SIG_IGN) {
		p->sa_handler(sig);
	} else {
		signal(sig, SIG_DFL);
		raise(sig);
	}
}

static void c02_install(void) {
	struct sigaction sa;
	memset(&sa, 0, sizeof sa);
	sa.sa_sigaction = c02_handler;
	sa.sa_flags = SA_SIGINFO | SA_ONSTACK | SA_RESTART;
	sigfillset(&sa.sa_mask);
	sigaction(SIGSEGV, &sa, &c02_prev_segv);
	sigaction(SIGBUS, &sa, &c02_prev_bus);
}
*/
import "C"

func installFaultReporter() { C.c02_install() }
