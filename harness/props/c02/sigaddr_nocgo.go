//go:build !cgo

package c02

// Without cgo the fault address is only known when the Go runtime prints it.
func installFaultReporter() {}
