package c11

import (
	"bytes"
	"context"
	"encoding/binary"
	"encoding/json"
	"fmt"
	"os"
	"path/filepath"
	"sort"
	"strings"
	"sync"

	"github.com/tetratelabs/wazero"
	"github.com/tetratelabs/wazero/api"
	"github.com/tetratelabs/wazero/imports/wasi_snapshot_preview1"
	"github.com/tetratelabs/wazero/sys"
	"github.com/tetratelabs/wazero/verifharness/core"
	"github.com/tetratelabs/wazero/verifharness/wasiproxy"
)

// WASI part of C11: N instances of one compiled WASI guest, each with its own
// mounted directory, stdin and stdout/stderr buffers, run an interleaved script
// of descriptor and stdio operations; each instance's trace (errno, returned
// fds, bytes read, offsets, stdout/stderr contents) must equal the trace of the
// projected script on a lone instance with an identical fresh directory.

type wop struct {
	Inst int    `json:"i"`
	Op   string `json:"op"`
	A    uint32 `json:"a,omitempty"`
	B    uint32 `json:"b,omitempty"`
	S    string `json:"s,omitempty"`
}

type wasiResult struct {
	Sig      string         `json:"sig,omitempty"`
	Detail   string         `json:"detail,omitempty"`
	Shape    string         `json:"shape"`
	Steps    int            `json:"steps"`
	Compared int            `json:"compared"`
	Ops      map[string]int `json:"ops"`
	Sample   []string       `json:"sample,omitempty"`
}

var (
	wasiSigsOnce sync.Once
	wasiSigs     []wasiproxy.Sig
	wasiBin      []byte
)

func genWasiScript(r *core.Rng, nInst, n int) []wop {
	names := []string{"a.txt", "b.txt", "c.txt", "sub/d.txt"}
	var out []wop
	for k := 0; k < n; k++ {
		i := r.Intn(nInst)
		fd := uint32(3 + r.Intn(6)) // 3 is the preopen; 4.. are opened files
		switch r.Intn(18) {
		case 16, 17:
			out = append(out, wop{Inst: i, Op: "readdir", A: uint32(r.Intn(2))})
		case 12, 13:
			out = append(out, wop{Inst: i, Op: "random", B: uint32(1 + r.Intn(24))})
		case 14:
			out = append(out, wop{Inst: i, Op: "clock", A: uint32(r.Intn(2))})
		case 15:
			out = append(out, wop{Inst: i, Op: "args"})
		case 0, 1, 2:
			out = append(out, wop{Inst: i, Op: "open", S: names[r.Intn(len(names))], A: uint32(r.Intn(4))}) // A: bit0 creat, bit1 trunc
		case 3:
			out = append(out, wop{Inst: i, Op: "close", A: fd})
		case 4, 5:
			out = append(out, wop{Inst: i, Op: "write", A: fd, S: fmt.Sprintf("w%d-%d;", k, r.Intn(1000))})
		case 6:
			out = append(out, wop{Inst: i, Op: "read", A: fd, B: uint32(1 + r.Intn(24))})
		case 7:
			out = append(out, wop{Inst: i, Op: "seek", A: fd, B: uint32(r.Intn(16))})
		case 8:
			out = append(out, wop{Inst: i, Op: "renumber", A: fd, B: uint32(4 + r.Intn(6))})
		case 9:
			out = append(out, wop{Inst: i, Op: "stdout", A: uint32(1 + r.Intn(2)), S: fmt.Sprintf("out%d;", k)})
		case 10:
			out = append(out, wop{Inst: i, Op: "stdin", B: uint32(1 + r.Intn(8))})
		default:
			out = append(out, wop{Inst: i, Op: "fdstat", A: fd})
		}
	}
	return out
}

type wasiInst struct {
	mod       api.Module
	out, errb *bytes.Buffer
	dir       string
	trace     []string
	ctx       context.Context
	bare      bool // fully default ModuleConfig: no stdio, no mounts, no args; descriptor operands are folded onto 0..2
}

func mkTree(dir string, idx int) {
	os.MkdirAll(filepath.Join(dir, "sub"), 0o755)
	os.WriteFile(filepath.Join(dir, "a.txt"), []byte(fmt.Sprintf("content-a-of-%d-0123456789", idx)), 0o644)
	os.WriteFile(filepath.Join(dir, "sub", "d.txt"), []byte("dddddddddddd"), 0o644)
}

func newWasiInst(ctx context.Context, rt wazero.Runtime, cm wazero.CompiledModule, base wazero.ModuleConfig, root string, idx int, name string, bare bool) (*wasiInst, error) {
	in := &wasiInst{out: &bytes.Buffer{}, errb: &bytes.Buffer{}, ctx: ctx, bare: bare}
	in.dir = filepath.Join(root, name)
	mkTree(in.dir, idx)
	if base == nil {
		base = wazero.NewModuleConfig()
	}
	cfg := base.WithName(name)
	if !bare {
		cfg = cfg.WithStdout(in.out).WithStderr(in.errb).
			WithStdin(strings.NewReader(fmt.Sprintf("stdin-of-instance-%d-abcdefghijklmnopqrstuvwxyz", idx))).
			WithFSConfig(wazero.NewFSConfig().WithDirMount(in.dir, "/")).WithArgs("prog", fmt.Sprint(idx))
	}
	mod, err := rt.InstantiateModule(ctx, cm, cfg)
	if err != nil {
		return nil, err
	}
	in.mod = mod
	return in, nil
}

func (in *wasiInst) call(name string, args ...uint64) uint32 {
	r, err := in.mod.ExportedFunction(name).Call(in.ctx, args...)
	if err != nil {
		if ee, ok := err.(*sys.ExitError); ok {
			return 0xE0000000 | ee.ExitCode()
		}
		return 0xFFFFFFFF
	}
	return uint32(r[0])
}

func (in *wasiInst) do(o wop) {
	mem := in.mod.Memory()
	if in.bare {
		// the only descriptors such an instance has are its own three standard ones
		switch o.Op {
		case "close", "write", "read", "seek", "fdstat":
			o.A %= 3
		case "renumber":
			o.A %= 3
			o.B %= 4
		}
	}
	var ev string
	switch o.Op {
	case "open":
		mem.Write(1024, []byte(o.S))
		oflags := uint64(0)
		if o.A&1 != 0 {
			oflags |= 1 // O_CREAT
		}
		if o.A&2 != 0 {
			oflags |= 8 // O_TRUNC
		}
		rights := uint64(0x3ffffff) // everything
		errno := in.call("path_open", 3, 1, 1024, uint64(len(o.S)), oflags, rights, rights, 0, 2048)
		fd, _ := mem.ReadUint32Le(2048)
		if errno != 0 {
			fd = 0
		}
		ev = fmt.Sprintf("open(%s,%d) -> errno=%d fd=%d", o.S, o.A, errno, fd)
	case "close":
		ev = fmt.Sprintf("close(%d) -> %d", o.A, in.call("fd_close", uint64(o.A)))
	case "write", "stdout":
		mem.Write(3000, []byte(o.S))
		var iov [8]byte
		binary.LittleEndian.PutUint32(iov[:], 3000)
		binary.LittleEndian.PutUint32(iov[4:], uint32(len(o.S)))
		mem.Write(3100, iov[:])
		mem.WriteUint32Le(3200, 0xdeadbeef)
		errno := in.call("fd_write", uint64(o.A), 3100, 1, 3200)
		n, _ := mem.ReadUint32Le(3200)
		ev = fmt.Sprintf("%s(%d,%q) -> errno=%d n=%d", o.Op, o.A, o.S, errno, n)
	case "read", "stdin":
		fd := uint64(o.A)
		if o.Op == "stdin" {
			fd = 0
		}
		var iov [8]byte
		binary.LittleEndian.PutUint32(iov[:], 4000)
		binary.LittleEndian.PutUint32(iov[4:], o.B)
		mem.Write(3100, iov[:])
		mem.Write(4000, bytes.Repeat([]byte{0x55}, 64))
		mem.WriteUint32Le(3200, 0xdeadbeef)
		errno := in.call("fd_read", fd, 3100, 1, 3200)
		n, _ := mem.ReadUint32Le(3200)
		data, _ := mem.Read(4000, 32)
		ev = fmt.Sprintf("%s(%d,%d) -> errno=%d n=%d data=%q", o.Op, fd, o.B, errno, n, data)
	case "seek":
		errno := in.call("fd_seek", uint64(o.A), uint64(o.B), 0, 3300)
		off, _ := mem.ReadUint64Le(3300)
		if errno != 0 {
			off = 0
		}
		ev = fmt.Sprintf("seek(%d,%d) -> errno=%d off=%d", o.A, o.B, errno, off)
	case "readdir": // list the instance's own root (A=1: its sub directory) from the start
		dirfd := uint64(3)
		if o.A == 1 {
			mem.Write(1024, []byte("sub"))
			if errno := in.call("path_open", 3, 1, 1024, 3, 2 /* O_DIRECTORY */, 0x3ffffff, 0x3ffffff, 0, 2048); errno == 0 {
				v, _ := mem.ReadUint32Le(2048)
				dirfd = uint64(v)
			}
		}
		mem.Write(5000, bytes.Repeat([]byte{0}, 1024))
		errno := in.call("fd_readdir", dirfd, 5000, 1024, 0, 4900)
		used, _ := mem.ReadUint32Le(4900)
		var names []string
		dotIno := uint64(0)
		for off := uint32(0); errno == 0 && off+24 <= used; {
			ino, _ := mem.ReadUint64Le(5000 + off + 8)
			nl, _ := mem.ReadUint32Le(5000 + off + 16)
			if off+24+nl > used {
				break
			}
			nm, _ := mem.Read(5000+off+24, nl)
			if string(nm) == "." {
				dotIno = ino
			}
			names = append(names, string(nm))
			off += 24 + nl
		}
		sort.Strings(names)
		statErr := in.call("fd_filestat_get", dirfd, 4600)
		statIno, _ := mem.ReadUint64Le(4608)
		ev = fmt.Sprintf("readdir(%d) -> errno=%d names=%v dot_ino_is_own_inode=%v", o.A, errno, names, statErr == 0 && dotIno == statIno)
		if dirfd != 3 {
			in.call("fd_close", dirfd)
		}
	case "random": // default (deterministic) random source: per instance, as if it were alone
		mem.Write(4200, bytes.Repeat([]byte{0x55}, 32))
		errno := in.call("random_get", 4200, uint64(o.B))
		data, _ := mem.Read(4200, 32)
		ev = fmt.Sprintf("random(%d) -> errno=%d data=%x", o.B, errno, data)
	case "clock": // default (fake) clocks advance per instance
		errno := in.call("clock_time_get", uint64(o.A), 0, 4300)
		t, _ := mem.ReadUint64Le(4300)
		ev = fmt.Sprintf("clock(%d) -> errno=%d t=%d", o.A, errno, t)
	case "args":
		errno := in.call("args_get", 4400, 4500)
		data, _ := mem.Read(4500, 16)
		ev = fmt.Sprintf("args -> errno=%d data=%q", errno, data)
	case "renumber":
		ev = fmt.Sprintf("renumber(%d,%d) -> %d", o.A, o.B, in.call("fd_renumber", uint64(o.A), uint64(o.B)))
	case "fdstat":
		errno := in.call("fd_fdstat_get", uint64(o.A), 3400)
		ft, _ := mem.ReadByte(3400)
		fl, _ := mem.ReadUint16Le(3402)
		if errno != 0 {
			ft, fl = 0, 0
		}
		ev = fmt.Sprintf("fdstat(%d) -> errno=%d filetype=%d flags=%d", o.A, errno, ft, fl)
	}
	in.trace = append(in.trace, ev)
}

// finish appends what accumulated outside the guest: stdout/stderr and the directory tree.
func (in *wasiInst) finish() {
	in.trace = append(in.trace, fmt.Sprintf("stdout=%q stderr=%q", in.out.String(), in.errb.String()))
	var files []string
	filepath.Walk(in.dir, func(p string, info os.FileInfo, err error) error {
		if err == nil && !info.IsDir() {
			b, _ := os.ReadFile(p)
			rel, _ := filepath.Rel(in.dir, p)
			files = append(files, fmt.Sprintf("%s=%q", rel, b))
		}
		return nil
	})
	in.trace = append(in.trace, "tree: "+strings.Join(files, " | "))
}

func wasiChild(in json.RawMessage) any {
	var gc gcase
	json.Unmarshal(in, &gc)
	wasiSigsOnce.Do(func() {
		wasiSigs = wasiproxy.Signatures()
		wasiBin = wasiproxy.Build(wasiSigs, 1, 1)
	})
	r := core.NewRng(int64(gc.Seed), 4)
	compiler := r.Bool()
	nInst := 2 + r.Intn(3)
	script := genWasiScript(r, nInst, 10+r.Intn(30))
	res := wasiResult{Ops: map[string]int{}, Steps: len(script), Shape: fmt.Sprintf("wasi:n=%d,compiler=%v,conc=%v", nInst, compiler, gc.Conc)}
	for _, o := range script {
		res.Ops[o.Op]++
	}
	ctx := context.Background()
	mkRt := func() (wazero.Runtime, wazero.CompiledModule) {
		rc := wazero.NewRuntimeConfigInterpreter()
		if compiler {
			rc = wazero.NewRuntimeConfigCompiler()
		}
		rt := wazero.NewRuntimeWithConfig(ctx, rc)
		wasi_snapshot_preview1.MustInstantiate(ctx, rt)
		cm, err := rt.CompileModule(ctx, wasiBin)
		if err != nil {
			panic(err)
		}
		return rt, cm
	}
	root, _ := os.MkdirTemp("", "c11wasi-")
	defer os.RemoveAll(root)
	// group run
	rt, cm := mkRt()
	group := make([]*wasiInst, nInst)
	// two groups out of three derive every instance's configuration from ONE base ModuleConfig (the usual embedder
	// pattern); the lone replays always start from a fresh one
	var base wazero.ModuleConfig
	if gc.Seed%3 != 0 {
		base = wazero.NewModuleConfig().WithEnv("SHARED", "base")
		res.Shape += ",shared-base-config"
	}
	// a quarter of the groups: instances with the fully default configuration (no stdio, mounts or arguments) whose
	// scripts close, renumber and use their standard descriptors
	bare := gc.Seed%4 == 1
	if bare {
		res.Shape += ",default-config-instances"
	}
	for i := range group {
		g, err := newWasiInst(ctx, rt, cm, base, filepath.Join(root, "group"), i, fmt.Sprintf("inst%d", i), bare)
		if err != nil {
			res.Sig, res.Detail = "wasi:instantiate-failed", err.Error()
			rt.Close(ctx)
			return res
		}
		group[i] = g
	}
	if gc.Conc {
		var wg sync.WaitGroup
		for i := range group {
			wg.Add(1)
			go func(i int) {
				defer wg.Done()
				for _, o := range script {
					if o.Inst == i {
						group[i].do(o)
					}
				}
			}(i)
		}
		wg.Wait()
	} else {
		for _, o := range script {
			group[o.Inst].do(o)
		}
	}
	for _, g := range group {
		g.finish()
	}
	rt.Close(ctx)
	// lone replays
	for i := range group {
		rt, cm := mkRt()
		var loneBase wazero.ModuleConfig
		if base != nil {
			loneBase = wazero.NewModuleConfig().WithEnv("SHARED", "base")
		}
		lone, err := newWasiInst(ctx, rt, cm, loneBase, filepath.Join(root, fmt.Sprintf("lone%d", i)), i, fmt.Sprintf("inst%d", i), bare)
		if err != nil {
			rt.Close(ctx)
			continue
		}
		for _, o := range script {
			if o.Inst == i {
				lone.do(o)
			}
		}
		lone.finish()
		rt.Close(ctx)
		res.Compared++
		a, b := group[i].trace, lone.trace
		for k := 0; k < len(a) && k < len(b); k++ {
			if a[k] != b[k] {
				kind := strings.SplitN(a[k], "(", 2)[0]
				kind = strings.SplitN(kind, "=", 2)[0]
				kind = strings.SplitN(kind, ":", 2)[0]
				res.Sig = "wasi:instance-trace-differs-from-lone-replay:" + kind
				res.Detail = fmt.Sprintf("instance %d of %s, event %d\n in group: %s\n alone:    %s\nscript: %v", i, res.Shape, k, a[k], b[k], script)
				return res
			}
		}
		if i == 0 {
			res.Sample = a[:min(len(a), 5)]
		}
	}
	return res
}
