package c11

import (
	"strings"
	"testing"

	"github.com/tetratelabs/wazero/verifharness/core"
)

// The providers scenario must produce real observations (marker found at the provider's base, table calls succeed).
func TestProvidersScenarioObserves(t *testing.T) {
	for seed := uint64(1); seed < 6; seed++ {
		r := provChild(core.J(gcase{Seed: seed})).(provResult)
		if r.Sig != "" {
			t.Fatalf("seed %d: %s\n%s", seed, r.Sig, r.Detail)
		}
		if r.Compared < 2 {
			t.Fatalf("seed %d: compared %d", seed, r.Compared)
		}
		joined := strings.Join(r.Sample, " ")
		if !strings.Contains(joined, "0x4b52414d") { // "MARK" little endian
			t.Errorf("seed %d: marker not observed: %v", seed, r.Sample)
		}
		t.Log(r.Shape, r.Sample)
	}
}
