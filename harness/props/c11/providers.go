package c11

import (
	"context"
	"encoding/json"
	"fmt"

	"github.com/tetratelabs/wazero"
	"github.com/tetratelabs/wazero/api"
	"github.com/tetratelabs/wazero/verifharness/core"
	"github.com/tetratelabs/wazero/verifharness/wenc"
)

// Providers part of C11: ONE compiled guest whose segment offsets and global initialisers are taken from imported
// immutable globals is instantiated several times, each time linked to a different provider module registered under
// the same name ("env") with different values. Nothing an earlier instance was linked to may leak into a later one:
// every instance must observe exactly what a lone instance of a fresh runtime linked to the same provider observes,
// immediately after instantiation and again after all the other instances exist.

type provVals struct {
	Base    uint32 `json:"base"`    // data segment offset
	TblBase uint32 `json:"tblbase"` // element segment offset
	V64     uint64 `json:"v64"`     // initial value of the guest's own mutable global
	Mut     bool   `json:"mut"`     // provider's globals declared mutable? (import must match: always immutable here)
}

func providerBin(v provVals) []byte {
	m := &wenc.Module{}
	m.Globals = []wenc.Global{
		{Type: wenc.GlobalType{Type: wenc.I32}, Init: wenc.ConstI32(int32(v.Base))},
		{Type: wenc.GlobalType{Type: wenc.I32}, Init: wenc.ConstI32(int32(v.TblBase))},
		{Type: wenc.GlobalType{Type: wenc.I64}, Init: wenc.ConstI64(int64(v.V64))},
	}
	m.Exports = []wenc.Export{{Name: "base", Kind: wenc.ExtGlobal, Idx: 0}, {Name: "tblbase", Kind: wenc.ExtGlobal, Idx: 1}, {Name: "v64", Kind: wenc.ExtGlobal, Idx: 2}}
	return m.Encode()
}

const provMarker = "MARK"

func provGuestBin() []byte {
	m := &wenc.Module{}
	m.Imports = []wenc.Import{
		{Module: "env", Name: "base", Kind: wenc.ExtGlobal, Global: wenc.GlobalType{Type: wenc.I32}},
		{Module: "env", Name: "tblbase", Kind: wenc.ExtGlobal, Global: wenc.GlobalType{Type: wenc.I32}},
		{Module: "env", Name: "v64", Kind: wenc.ExtGlobal, Global: wenc.GlobalType{Type: wenc.I64}},
	}
	// host functions that act on "the calling module": one defined through reflection (WithFunc with an api.Module
	// parameter), one through the stack-based API; both write v at addr of the memory of the module they are handed
	pokeReflect := m.ImportFunc("henv", "poke_reflect", []wenc.ValType{wenc.I32, wenc.I32}, nil)
	pokeStack := m.ImportFunc("henv", "poke_stack", []wenc.ValType{wenc.I32, wenc.I32}, nil)
	m.Mems = []wenc.Limits{{Min: 1, Max: 1, HasMax: true}}
	m.Tables = []wenc.TableType{{Elem: wenc.FuncRef, Lim: wenc.Limits{Min: 16, Max: 16, HasMax: true}}}
	// own globals: g3 (i64, mutable) = global.get v64 ; g4 (i32, immutable) = global.get base
	m.Globals = []wenc.Global{
		{Type: wenc.GlobalType{Type: wenc.I64, Mutable: true}, Init: append([]byte{0x23, 2}, 0x0b)},
		{Type: wenc.GlobalType{Type: wenc.I32}, Init: append([]byte{0x23, 0}, 0x0b)},
	}
	f1 := m.AddFunc(nil, []wenc.ValType{wenc.I32}, nil, (&wenc.Code{}).I32Const(11).End().B)
	f2 := m.AddFunc(nil, []wenc.ValType{wenc.I32}, nil, (&wenc.Code{}).I32Const(22).End().B)
	m.Datas = []wenc.Data{{Mode: 0, Offset: append([]byte{0x23, 0}, 0x0b), Bytes: []byte(provMarker)}}
	m.Elems = []wenc.Elem{{Mode: 0, Offset: append([]byte{0x23, 1}, 0x0b), FuncIdx: []uint32{f1, f2}}}
	hp := &wenc.Code{}
	hp.LocalGet(0).If(0x40).LocalGet(1).LocalGet(2).Call(pokeStack).Else().LocalGet(1).LocalGet(2).Call(pokeReflect).End().End()
	m.ExportFunc("hp", m.AddFunc([]wenc.ValType{wenc.I32, wenc.I32, wenc.I32}, nil, nil, hp.B))
	peek := &wenc.Code{}
	peek.LocalGet(0).Mem(0x28, 2, 0).End() // i32.load
	m.ExportFunc("peek", m.AddFunc([]wenc.ValType{wenc.I32}, []wenc.ValType{wenc.I32}, nil, peek.B))
	m.ExportFunc("g64", m.AddFunc(nil, []wenc.ValType{wenc.I64}, nil, (&wenc.Code{}).GlobalGet(3).End().B))
	m.ExportFunc("g32", m.AddFunc(nil, []wenc.ValType{wenc.I32}, nil, (&wenc.Code{}).GlobalGet(4).End().B))
	m.ExportFunc("gbase", m.AddFunc(nil, []wenc.ValType{wenc.I32}, nil, (&wenc.Code{}).GlobalGet(0).End().B))
	tn := &wenc.Code{}
	tn.LocalGet(0).TableGet(0).Op(0xd1).End() // ref.is_null
	m.ExportFunc("tnull", m.AddFunc([]wenc.ValType{wenc.I32}, []wenc.ValType{wenc.I32}, nil, tn.B))
	ti := m.AddType(nil, []wenc.ValType{wenc.I32})
	ci := &wenc.Code{}
	ci.LocalGet(0).CallIndirect(ti, 0).End()
	m.ExportFunc("tcall", m.AddFunc([]wenc.ValType{wenc.I32}, []wenc.ValType{wenc.I32}, nil, ci.B))
	return m.Encode()
}

// observe returns what an instance can see of its own link-time state.
func provObserve(ctx context.Context, mod api.Module, bases []uint32, tag uint32) []string {
	var out []string
	call := func(name string, args ...uint64) string {
		r, err := mod.ExportedFunction(name).Call(ctx, args...)
		if err != nil {
			return "err"
		}
		return fmt.Sprintf("%#x", r[0])
	}
	out = append(out, "gbase="+call("gbase"), "g32="+call("g32"), "g64="+call("g64"))
	// host functions handed "the calling module" must act on THIS instance
	mod.ExportedFunction("hp").Call(ctx, 0, 3000, uint64(0xa0000000|tag))
	mod.ExportedFunction("hp").Call(ctx, 1, 3004, uint64(0xb0000000|tag))
	out = append(out, "poke_reflect->"+call("peek", 3000), "poke_stack->"+call("peek", 3004))
	for _, b := range bases { // where any of the group's providers would place the data segment
		out = append(out, fmt.Sprintf("peek(%d)=%s", b, call("peek", uint64(b))))
	}
	nulls := ""
	for i := 0; i < 16; i++ {
		nulls += call("tnull", uint64(i))[2:]
	}
	out = append(out, "tnull="+nulls)
	for i := 0; i < 16; i++ {
		if r := call("tcall", uint64(i)); r != "err" {
			out = append(out, fmt.Sprintf("tcall(%d)=%s", i, r))
		}
	}
	return out
}

type provResult struct {
	Sig      string   `json:"sig,omitempty"`
	Detail   string   `json:"detail,omitempty"`
	Shape    string   `json:"shape"`
	Compared int      `json:"compared"`
	Sample   []string `json:"sample,omitempty"`
}

func provChild(in json.RawMessage) any {
	var gc gcase
	json.Unmarshal(in, &gc)
	r := core.NewRng(int64(gc.Seed), 6)
	compiler := r.Bool()
	n := 2 + r.Intn(3)
	closeProvider := r.Bool() // close the provider before the next one is registered (else it is anonymous-renamed: must close to reuse the name)
	_ = closeProvider
	var vals []provVals
	var bases []uint32
	for i := 0; i < n; i++ {
		v := provVals{Base: uint32(8 * (1 + r.Intn(200))), TblBase: uint32(r.Intn(14)), V64: r.U64()}
		if i > 0 && r.Chance(1, 4) {
			v = vals[r.Intn(i)] // same provider values again
		}
		vals = append(vals, v)
		bases = append(bases, v.Base)
	}
	res := provResult{Shape: fmt.Sprintf("providers:n=%d,compiler=%v", n, compiler)}
	ctx := context.Background()
	mkRt := func() wazero.Runtime {
		rc := wazero.NewRuntimeConfigInterpreter()
		if compiler {
			rc = wazero.NewRuntimeConfigCompiler()
		}
		rt := wazero.NewRuntimeWithConfig(ctx, rc)
		_, err := rt.NewHostModuleBuilder("henv").
			NewFunctionBuilder().WithFunc(func(_ context.Context, mod api.Module, addr, v uint32) {
			mod.Memory().WriteUint32Le(addr, v)
		}).Export("poke_reflect").
			NewFunctionBuilder().WithGoModuleFunction(api.GoModuleFunc(func(_ context.Context, mod api.Module, stack []uint64) {
			mod.Memory().WriteUint32Le(uint32(stack[0]), uint32(stack[1]))
		}), []api.ValueType{api.ValueTypeI32, api.ValueTypeI32}, nil).Export("poke_stack").
			Instantiate(ctx)
		if err != nil {
			panic(err)
		}
		return rt
	}
	guest := provGuestBin()
	rt := mkRt()
	defer rt.Close(ctx)
	cm, err := rt.CompileModule(ctx, guest)
	if err != nil {
		res.Sig, res.Detail = "providers:compile-failed", err.Error()
		return res
	}
	var group []api.Module
	var first [][]string
	for i, v := range vals {
		env, err := rt.InstantiateWithConfig(ctx, providerBin(v), wazero.NewModuleConfig().WithName("env"))
		if err != nil {
			res.Sig, res.Detail = "providers:provider-instantiate-failed", err.Error()
			return res
		}
		mod, err := rt.InstantiateModule(ctx, cm, wazero.NewModuleConfig().WithName(fmt.Sprintf("g%d", i)))
		if err != nil {
			res.Sig, res.Detail = "providers:instantiate-failed", fmt.Sprintf("instance %d with %+v: %v", i, v, err)
			return res
		}
		group = append(group, mod)
		first = append(first, provObserve(ctx, mod, bases, uint32(i+1)))
		env.Close(ctx) // frees the name for the next provider; the guest instance keeps its imported globals
	}
	for i, v := range vals {
		again := provObserve(ctx, group[i], bases, uint32(i+1))
		lrt := mkRt()
		lcm, _ := lrt.CompileModule(ctx, guest)
		_, err := lrt.InstantiateWithConfig(ctx, providerBin(v), wazero.NewModuleConfig().WithName("env"))
		var lone []string
		if err == nil {
			if lm, err := lrt.InstantiateModule(ctx, lcm, wazero.NewModuleConfig().WithName("g")); err == nil {
				lone = provObserve(ctx, lm, bases, uint32(i+1))
			}
		}
		lrt.Close(ctx)
		if lone == nil {
			continue
		}
		res.Compared++
		for k := range lone {
			for which, got := range map[string][]string{"right-after-instantiation": first[i], "after-the-other-instances-exist": again} {
				if got[k] != lone[k] {
					res.Sig = "providers:instance-differs-from-lone-replay:" + which
					res.Detail = fmt.Sprintf("%s instance %d linked to %+v (providers of the group: %+v)\n in group: %s\n alone:    %s", res.Shape, i, v, vals, got[k], lone[k])
					return res
				}
			}
		}
		if i == 0 {
			res.Sample = lone[:min(len(lone), 6)]
		}
	}
	return res
}
