// Package c11 decides C11 (instances are isolated unless explicitly linked)
// by lone-instance replay: a script interleaving calls on N unlinked instances
// (same compiled module, different modules, one runtime or two runtimes sharing
// a compilation cache) is projected onto each instance and replayed on a fresh
// lone instance; the canonical traces must be equal. A concurrent variant runs
// one goroutine per instance under the race detector.
package c11

import (
	"bytes"
	"context"
	"encoding/hex"
	"encoding/json"
	"fmt"
	"os"
	"strings"
	"sync"

	"github.com/tetratelabs/wazero"
	"github.com/tetratelabs/wazero/api"
	"github.com/tetratelabs/wazero/verifharness/core"
	"github.com/tetratelabs/wazero/verifharness/wgen"
	"github.com/tetratelabs/wazero/verifharness/wrun"
)

var Prop = &core.Prop{ID: "C11", Run: run, Child: child}

type gcase struct {
	Seed uint64 `json:"seed"`
	Conc bool   `json:"conc,omitempty"`
}

type gresult struct {
	Sig       string         `json:"sig,omitempty"`
	Detail    string         `json:"detail,omitempty"`
	Bins      []string       `json:"bins,omitempty"`
	Shape     string         `json:"shape"`
	Instances int            `json:"instances"`
	Steps     int            `json:"steps"`
	Compared  int            `json:"compared"`
	Ops       map[string]int `json:"ops"`
	Inconcl   string         `json:"inconcl,omitempty"`
	Sample    []string       `json:"sample,omitempty"`
}

func run(c *core.Ctx) int {
	n := c.N(5000, 120000)
	nr := c.N(120, 4000)
	rng := core.NewRng(c.Seed, 11)
	var cases, rcases []json.RawMessage
	for i := 0; i < n; i++ {
		cases = append(cases, core.J(gcase{Seed: rng.U64()}))
	}
	for i := 0; i < nr; i++ {
		rcases = append(rcases, core.J(gcase{Seed: rng.U64(), Conc: true}))
	}
	res := core.RunCases(c, "group", cases, core.ChildOpts{Batch: 80, TimeoutS: 900})
	var rres []core.CaseResult
	if rb := os.Getenv("VCHECK_RACE_BIN"); rb != "" {
		rres = core.RunCases(c, "group", rcases, core.ChildOpts{Bin: rb, Batch: 20, TimeoutS: 900, Procs: 4, Env: []string{"GORACE=halt_on_error=0 exitcode=0"}})
	} else {
		c.Inconclusive("race-binary-missing")
	}
	evals := int64(0)
	handle := func(cs []json.RawMessage, rs []core.CaseResult, mode string) {
		for _, r := range rs {
			if r.Crash != nil {
				switch r.Crash.Kind {
				case "timeout":
					c.Inconclusive("watchdog")
					continue
				case "race":
					logb, _ := os.ReadFile(r.Crash.Log)
					for key, rep := range core.RaceReports(logb) {
						c.Violate("race:"+strings.ReplaceAll(key, "github.com/tetratelabs/wazero", "wazero"), rep, map[string]any{"batch_last_case": cs[r.Index], "report": rep})
					}
				default:
					c.Violate("crash:"+r.Crash.Kind+":"+core.Trunc(strings.Join(strings.Fields(r.Crash.Detail), "_"), 80), r.Crash.Detail, map[string]any{"case": cs[r.Index], "crash": r.Crash})
					continue
				}
			}
			if r.Out == nil {
				continue
			}
			var gr gresult
			if json.Unmarshal(r.Out, &gr) != nil {
				c.Inconclusive("bad-child-output")
				continue
			}
			evals++
			c.Count("groups_"+mode, 1)
			c.Count("instances", int64(gr.Instances))
			c.Count("steps", int64(gr.Steps))
			c.Count("projections_compared", int64(gr.Compared))
			c.Distinct("shapes", gr.Shape)
			for k, v := range gr.Ops {
				c.Count("mutating_op_"+k, int64(v))
			}
			if gr.Inconcl != "" {
				c.Inconclusive(gr.Inconcl)
			}
			if gr.Sig != "" {
				c.Violate(gr.Sig, gr.Detail, map[string]any{"case": cs[r.Index], "bins_hex": gr.Bins, "mode": mode})
			} else if gr.Compared > 0 {
				c.Distinct("groups", fmt.Sprintf("%s%d", mode, r.Index))
			}
			if len(gr.Sample) > 0 && r.Index%900 == 0 {
				c.Sample(map[string]any{"case": cs[r.Index], "shape": gr.Shape, "trace_head_instance0": gr.Sample})
			}
		}
	}
	handle(cases, res, "seq")
	handle(rcases, rres, "conc")
	// WASI descriptors / stdio part
	nw := c.N(2500, 60000)
	var wcases, wrcases []json.RawMessage
	for i := 0; i < nw; i++ {
		wcases = append(wcases, core.J(gcase{Seed: rng.U64()}))
	}
	for i := 0; i < c.N(80, 2000); i++ {
		wrcases = append(wrcases, core.J(gcase{Seed: rng.U64(), Conc: true}))
	}
	handleW := func(cs []json.RawMessage, rs []core.CaseResult, mode string) {
		for _, r := range rs {
			if r.Crash != nil {
				switch r.Crash.Kind {
				case "timeout":
					c.Inconclusive("watchdog")
					continue
				case "race":
					logb, _ := os.ReadFile(r.Crash.Log)
					for key, rep := range core.RaceReports(logb) {
						c.Violate("race:"+strings.ReplaceAll(key, "github.com/tetratelabs/wazero", "wazero"), rep, map[string]any{"batch_last_case": cs[r.Index], "report": rep})
					}
				default:
					c.Violate("crash:wasi:"+r.Crash.Kind+":"+core.Trunc(strings.Join(strings.Fields(r.Crash.Detail), "_"), 80), r.Crash.Detail, map[string]any{"case": cs[r.Index], "crash": r.Crash})
					continue
				}
			}
			if r.Out == nil {
				continue
			}
			var wr wasiResult
			if json.Unmarshal(r.Out, &wr) != nil {
				c.Inconclusive("bad-child-output")
				continue
			}
			evals++
			c.Count("wasi_groups_"+mode, 1)
			c.Count("wasi_steps", int64(wr.Steps))
			c.Count("wasi_projections_compared", int64(wr.Compared))
			for k, v := range wr.Ops {
				c.Count("wasi_op_"+k, int64(v))
			}
			c.Distinct("shapes", wr.Shape)
			if wr.Sig != "" {
				c.Violate(wr.Sig, wr.Detail, map[string]any{"case": cs[r.Index], "mode": mode})
			} else if wr.Compared > 0 {
				c.Distinct("groups", fmt.Sprintf("wasi-%s%d", mode, r.Index))
			}
			if len(wr.Sample) > 0 && r.Index%800 == 0 {
				c.Sample(map[string]any{"case": cs[r.Index], "shape": wr.Shape, "wasi_trace_head_instance0": wr.Sample})
			}
		}
	}
	handleW(wcases, core.RunCases(c, "wasi", wcases, core.ChildOpts{Batch: 60, TimeoutS: 900}), "seq")
	if rb := os.Getenv("VCHECK_RACE_BIN"); rb != "" {
		handleW(wrcases, core.RunCases(c, "wasi", wrcases, core.ChildOpts{Bin: rb, Batch: 20, TimeoutS: 900, Procs: 4, Env: []string{"GORACE=halt_on_error=0 exitcode=0"}}), "conc")
	}
	// providers part: one compiled guest linked to different providers of its imported immutable globals
	var pcases []json.RawMessage
	for i := 0; i < c.N(1500, 30000); i++ {
		pcases = append(pcases, core.J(gcase{Seed: rng.U64()}))
	}
	for _, r := range core.RunCases(c, "providers", pcases, core.ChildOpts{Batch: 100, TimeoutS: 600}) {
		if r.Crash != nil {
			if r.Crash.Kind == "timeout" {
				c.Inconclusive("watchdog")
			} else {
				c.Violate("crash:providers:"+r.Crash.Kind+":"+core.Trunc(strings.Join(strings.Fields(r.Crash.Detail), "_"), 80), r.Crash.Detail, map[string]any{"case": pcases[r.Index], "crash": r.Crash})
			}
			continue
		}
		var pr provResult
		if json.Unmarshal(r.Out, &pr) != nil {
			c.Inconclusive("bad-child-output")
			continue
		}
		evals++
		c.Count("provider_groups", 1)
		c.Count("provider_projections_compared", int64(pr.Compared))
		c.Distinct("shapes", pr.Shape)
		if pr.Sig != "" {
			c.Violate(pr.Sig, pr.Detail, map[string]any{"case": pcases[r.Index]})
		} else if pr.Compared > 0 {
			c.Distinct("groups", fmt.Sprintf("prov-%d", r.Index))
		}
		if len(pr.Sample) > 0 && r.Index%700 == 0 {
			c.Sample(map[string]any{"case": pcases[r.Index], "shape": pr.Shape, "provider_observation_instance0": pr.Sample})
		}
	}
	c.Assume("the harness's own host functions keep per-instance state, so any coupling observed comes from wazero")
	return c.Finish(evals, int64(c.DistinctN("groups")),
		"(c) one compiled guest whose data/element segment offsets and global initialisers come from imported immutable globals, instantiated 2-4 times against different provider modules registered under the same name, each instance compared (right after instantiation and after all others exist) with a lone instance of a fresh runtime linked to the same provider; (a) PRNG groups of 2-5 unlinked instances of a WASI guest, each with its own mounted directory, stdin and stdout/stderr buffers, running interleaved descriptor/stdio scripts (path_open, fd_close, fd_write, fd_read, fd_seek, fd_renumber, fd_fdstat_get, stdio); (b) PRNG groups of 2-5 unlinked instances (same compiled module / two different modules; one runtime / two runtimes sharing a CompilationCache; interpreter or compiler) running a PRNG-interleaved script of calls and host-side memory/global writes; each instance's trace (results, traps, host log, memory/global/table digests) must equal the trace of the projected script on a fresh lone instance; concurrent variant under -race; non-trivial = at least one projection compared")
}

// mutating ops of interest for the evidence
var mutOps = []string{"memory.init", "data.drop", "elem.drop", "table.init", "table.set", "table.fill", "table.copy", "table.grow", "memory.grow", "memory.fill", "memory.copy", "global.set", "funcref-global"}

type mstep struct {
	inst int
	st   wrun.Step
}

func child(mode string, in json.RawMessage) any {
	if mode == "wasi" {
		return wasiChild(in)
	}
	if mode == "providers" {
		return provChild(in)
	}
	var gc gcase
	json.Unmarshal(in, &gc)
	r := core.NewRng(int64(gc.Seed), 3)
	compiler := r.Bool()
	nInst := []int{2, 2, 3, 5}[r.Intn(4)]
	twoProgs := r.Chance(1, 3)
	sharedCacheRuntimes := r.Chance(1, 3)
	cfg := wgen.DefaultConfig(r)
	cfg.MutateHeavy = r.Chance(2, 3)
	cfg.NoStart = false
	progs := []*wgen.Program{wgen.Generate(r, cfg)}
	if twoProgs {
		cfg2 := wgen.DefaultConfig(r)
		cfg2.MutateHeavy = true
		cfg2.HostModule = "env2"
		// both must be compilable in one runtime: same feature set
		cfg2.SIMD, cfg2.Threads, cfg2.TailCall, cfg2.SharedMem = cfg.SIMD, cfg.Threads, cfg.TailCall, cfg.SharedMem && cfg.Threads
		progs = append(progs, wgen.Generate(r, cfg2))
	}
	gr := gresult{Instances: nInst, Ops: map[string]int{}, Shape: fmt.Sprintf("n=%d,progs=%d,sharedcache=%v,compiler=%v,conc=%v", nInst, len(progs), sharedCacheRuntimes, compiler, gc.Conc)}
	for _, p := range progs {
		for _, k := range mutOps {
			if n := p.OpsUsed[k]; n > 0 {
				gr.Ops[k] += n
			}
		}
	}
	instProg := make([]int, nInst)
	for i := range instProg {
		instProg[i] = r.Intn(len(progs))
	}
	// script
	nSteps := 4 + r.Intn(12)
	var script []mstep
	alt := r.Chance(1, 4)
	for k := 0; k < nSteps; k++ {
		i := r.Intn(nInst)
		if alt {
			i = k % nInst
		}
		script = append(script, mstep{i, wrun.GenScript(r, progs[instProg[i]], 1)[0]})
	}
	gr.Steps = nSteps
	feats := wrun.Features(cfg)
	var cache wazero.CompilationCache
	// own PRNG stream for the dimensions added later (the older ones keep their values)
	r2 := core.NewRng(int64(gc.Seed), 41)
	// memories allocated with their maximum as capacity (a grow then re-slices instead of reallocating): whatever an
	// earlier, unrelated instance left in a recycled or over-allocated buffer must not show up in grown pages
	capFromMax := r2.Chance(1, 2)
	// predecessors: unrelated instances of the same programs that grow their memory to the maximum, fill it with a
	// pattern and are closed before the group's instances exist (the lone replays have no predecessors)
	predecessors := r2.Chance(1, 2)
	gr.Shape += fmt.Sprintf(",capfrommax=%v,predecessors=%v", capFromMax, predecessors)
	mkOpt := func() wrun.Options {
		o := wrun.Options{Compiler: compiler}
		cc := cache
		o.RuntimeConfig = func(rc wazero.RuntimeConfig) wazero.RuntimeConfig {
			if cc != nil {
				rc = rc.WithCompilationCache(cc)
			}
			if capFromMax {
				rc = rc.WithMemoryCapacityFromMax(true)
			}
			return rc
		}
		return o
	}
	// ---- group run ----
	if sharedCacheRuntimes {
		cache = wazero.NewCompilationCache()
		defer cache.Close(nil)
	}
	sessions := []*wrun.Session{wrun.NewSession(mkOpt(), feats)}
	if sharedCacheRuntimes {
		sessions = append(sessions, wrun.NewSession(mkOpt(), feats))
	}
	if predecessors {
		pat := bytes.Repeat([]byte{0xa5, 0x5a, 0xc3, 0x3c}, 65536/4)
		for si, s := range sessions {
			for pi, p := range progs {
				pre := s.Instantiate(p, fmt.Sprintf("pre%d_%d", si, pi))
				if pre.Mod == nil {
					continue
				}
				if m := pre.Mod.Memory(); m != nil {
					if max, ok := m.Definition().Max(); ok && max <= 64 {
						if cur := m.Size() / 65536; max > cur {
							m.Grow(max - cur)
						}
					}
					for off := uint32(0); off+65536 <= m.Size() && off < 64*65536; off += 65536 {
						m.Write(off, pat)
					}
					gr.Ops["predecessor-dirtied-pages"] += int(m.Size() / 65536)
				}
				pre.Mod.Close(context.Background())
			}
		}
	}
	insts := make([]*wrun.Inst, nInst)
	for i := range insts {
		s := sessions[i%len(sessions)]
		insts[i] = s.Instantiate(progs[instProg[i]], fmt.Sprintf("inst%d", i))
	}
	if gc.Conc {
		var wg sync.WaitGroup
		for i := range insts {
			wg.Add(1)
			go func(i int) {
				defer wg.Done()
				for si, ms := range script {
					if ms.inst == i {
						insts[i].Step(si, ms.st)
					}
				}
			}(i)
		}
		wg.Wait()
	} else {
		for si, ms := range script {
			insts[ms.inst].Step(si, ms.st)
		}
	}
	// final digest of every instance (an instance must not have been changed by later steps of others)
	for _, in := range insts {
		if in.Mod != nil {
			in.T.Events = append(in.T.Events, "final "+wrun.Digest(in.Mod, in.P))
		}
	}
	for _, s := range sessions {
		s.Close()
	}
	cache = nil
	// ---- lone replays ----
	for i := range insts {
		s := wrun.NewSession(mkOpt(), feats)
		lone := s.Instantiate(progs[instProg[i]], fmt.Sprintf("inst%d", i))
		for si, ms := range script {
			if ms.inst == i {
				lone.Step(si, ms.st)
			}
		}
		if lone.Mod != nil {
			lone.T.Events = append(lone.T.Events, "final "+wrun.Digest(lone.Mod, lone.P))
		}
		s.Close()
		g := insts[i].T
		if g.Internal != "" || lone.T.Internal != "" {
			gr.Sig = "internal-failure"
			gr.Detail = g.Internal + " | " + lone.T.Internal
			break
		}
		if g.StackOverflow || lone.T.StackOverflow {
			gr.Inconcl = "stack-exhaustion"
			continue
		}
		gr.Compared++
		if idx, d := wrun.Diff(g, lone.T); idx >= 0 {
			gr.Sig = "instance-trace-differs-from-lone-replay:" + eventKind(g, lone.T, idx)
			gr.Detail = fmt.Sprintf("instance %d of %s (A = in group, B = alone)\n%s", i, gr.Shape, d)
			break
		}
		if i == 0 {
			gr.Sample = g.Events[:min(len(g.Events), 5)]
		}
	}
	if gr.Sig != "" {
		for _, p := range progs {
			gr.Bins = append(gr.Bins, hex.EncodeToString(p.Bin))
		}
	}
	return gr
}

func eventKind(a, b *wrun.Trace, idx int) string {
	e := "<end>"
	if idx < len(a.Events) {
		e = a.Events[idx]
	} else if idx < len(b.Events) {
		e = b.Events[idx]
	}
	switch {
	case strings.Contains(e, "state:"):
		ea, eb := "", ""
		if idx < len(a.Events) {
			ea = a.Events[idx]
		}
		if idx < len(b.Events) {
			eb = b.Events[idx]
		}
		pa, pb := strings.Fields(ea), strings.Fields(eb)
		for i := range pa {
			if i < len(pb) && pa[i] != pb[i] {
				if j := strings.IndexByte(pa[i], '='); j > 0 {
					return "state:" + pa[i][:j]
				}
			}
		}
		return "state"
	case strings.HasPrefix(e, "call "):
		return "call-outcome"
	case strings.HasPrefix(e, "instantiate"):
		return "instantiate"
	case strings.HasPrefix(e, "  host"), strings.HasPrefix(e, "  hcb"):
		return "hostlog"
	}
	return "other"
}

var _ api.Module
