package c13

// Concurrent compilation of DIFFERENT modules through ONE shared
// CompilationCache (one engine): G goroutines, each compiling its own module,
// via one runtime or via several runtimes sharing the cache object. The copy
// hook delivers every entry in PRNG-chosen chunks with small pauses, so the
// window between serializing an entry and writing its file is wide.
// Oracle: every entry file equals the entry of the same module from the
// sequential one-module reference run; a fresh cache+runtime (and a fresh
// process) loading the directory gets every module behaving as itself.

import (
	"bytes"
	"context"
	"encoding/json"
	"fmt"
	"io"
	"os"
	"path/filepath"
	"runtime"
	"sync"
	"sync/atomic"
	"time"

	"github.com/tetratelabs/wazero"
	"github.com/tetratelabs/wazero/internal/verifhook"
	"github.com/tetratelabs/wazero/verifharness/core"
)

type cdMod struct {
	Name string `json:"name"`
	Wasm string `json:"wasm"`
	Key  string `json:"key"`
	Ref  string `json:"ref"`
	Want string `json:"want"`
}

type cdJob struct {
	Mods   []cdMod  `json:"mods"`
	Dirs   []string `json:"dirs"` // one fresh directory per round
	Sub    string   `json:"sub"`
	Shared string   `json:"shared"` // one-runtime | runtimes-sharing-cache
	Seed   uint64   `json:"seed"`
}

type cdEntry struct {
	Mod     string `json:"mod"`
	Present bool   `json:"present"`
	Len     int    `json:"len"`
	RefLen  int    `json:"ref_len"`
	Class   string `json:"class"` // entry-of-another-module:<name> | torn-mix | truncated-prefix | absent
	FirstAt int    `json:"first_diff_at"`
}

type cdRound struct {
	SetupErr    string    `json:"setup_err,omitempty"`
	CompileErrs []string  `json:"compile_errs,omitempty"`
	TraceDiff   []string  `json:"trace_diff,omitempty"` // behaviour of the module compiled in this round
	Bad         []cdEntry `json:"bad,omitempty"`        // entry files that differ from the sequential reference
	LoadErrs    []string  `json:"load_errs,omitempty"`  // fresh cache+runtime on the directory: CompileModule errors
	LoadDiff    []string  `json:"load_diff,omitempty"`  // fresh cache+runtime: behaviour differs
	Adds        int       `json:"adds"`
	MaxInFlight int       `json:"max_in_flight"` // entries being copied at the same time
	Others      []string  `json:"others,omitempty"`
}

type cdOut struct {
	Err    string    `json:"err,omitempty"`
	Rounds []cdRound `json:"rounds"`
}

// slowReader: PRNG-chosen chunk size and pauses between chunks.
type slowReader struct {
	r        io.Reader
	rng      *core.Rng
	chunk    int
	inflight *int32
	done     bool
}

func (s *slowReader) Read(p []byte) (int, error) {
	if len(p) > s.chunk {
		p = p[:s.chunk]
	}
	switch s.rng.Intn(8) {
	case 0:
		time.Sleep(time.Duration(20+s.rng.Intn(300)) * time.Microsecond)
	case 1, 2, 3:
		for i := s.rng.Intn(4); i >= 0; i-- {
			runtime.Gosched()
		}
	}
	n, err := s.r.Read(p)
	if err != nil && !s.done {
		s.done = true
		atomic.AddInt32(s.inflight, -1)
	}
	return n, err
}

func doConcDiff(j cdJob) (o cdOut) {
	ctx := context.Background()
	type loaded struct {
		wasm, ref []byte
	}
	ms := make([]loaded, len(j.Mods))
	for i, m := range j.Mods {
		var err error
		if ms[i].wasm, err = os.ReadFile(m.Wasm); err != nil {
			o.Err = err.Error()
			return
		}
		if ms[i].ref, err = os.ReadFile(m.Ref); err != nil {
			o.Err = err.Error()
			return
		}
	}
	var adds, inflight, maxInflight, serial int32
	verifhook.SetHandlers(func(name string) {
		if name == "filecache.add.tmp-created" {
			atomic.AddInt32(&adds, 1)
		}
	}, func(name string, r io.Reader) io.Reader {
		if name != copyPoint {
			return r
		}
		n := atomic.AddInt32(&serial, 1)
		rng := core.NewRng(int64(j.Seed), uint64(n))
		cur := atomic.AddInt32(&inflight, 1)
		for {
			mx := atomic.LoadInt32(&maxInflight)
			if cur <= mx || atomic.CompareAndSwapInt32(&maxInflight, mx, cur) {
				break
			}
		}
		chunks := []int{1, 3, 16, 64, 256, 1024, 8192}
		return &slowReader{r: r, rng: rng, chunk: chunks[rng.Intn(len(chunks))], inflight: &inflight}
	})
	defer verifhook.SetHandlers(nil, nil)

	for r, dir := range j.Dirs {
		var rr cdRound
		atomic.StoreInt32(&adds, 0)
		atomic.StoreInt32(&inflight, 0)
		atomic.StoreInt32(&maxInflight, 0)
		cache, err := wazero.NewCompilationCacheWithDir(dir)
		if err != nil {
			rr.SetupErr = err.Error()
			o.Rounds = append(o.Rounds, rr)
			continue
		}
		newRT := func() wazero.Runtime {
			return wazero.NewRuntimeWithConfig(ctx, wazero.NewRuntimeConfigCompiler().WithCompilationCache(cache))
		}
		var shared wazero.Runtime
		if j.Shared == "one-runtime" {
			shared = newRT()
		}
		var mu sync.Mutex
		var ready, done sync.WaitGroup
		start := make(chan struct{})
		stagger := core.NewRng(int64(j.Seed), uint64(1000+r))
		for i := range j.Mods {
			ready.Add(1)
			done.Add(1)
			yields := stagger.Intn(6)
			go func(i, yields int) {
				defer done.Done()
				rt := shared
				if rt == nil {
					rt = newRT()
					defer rt.Close(ctx)
				}
				ready.Done()
				<-start
				for k := 0; k < yields; k++ {
					runtime.Gosched()
				}
				cm, err := rt.CompileModule(ctx, ms[i].wasm)
				if err != nil {
					mu.Lock()
					rr.CompileErrs = append(rr.CompileErrs, j.Mods[i].Name+": "+cleanErr(err))
					mu.Unlock()
					return
				}
				// run it in a private runtime-less way: instantiate anonymously in the runtime that compiled it
				mod, err := rt.InstantiateModule(ctx, cm, wazero.NewModuleConfig().WithName("").WithStartFunctions())
				if err == nil {
					mod.Close(ctx)
				}
			}(i, yields)
		}
		ready.Wait()
		close(start)
		done.Wait()
		if shared != nil {
			shared.Close(ctx)
		}
		cache.Close(ctx)
		rr.Adds = int(atomic.LoadInt32(&adds))
		rr.MaxInFlight = int(atomic.LoadInt32(&maxInflight))
		// (1) entry files against the sequential references
		files := map[string]bool{}
		for name := range listDir(filepath.Join(dir, j.Sub)) {
			files[name] = true
		}
		for i, m := range j.Mods {
			delete(files, m.Key)
			b, err := os.ReadFile(filepath.Join(dir, j.Sub, m.Key))
			if err == nil && bytes.Equal(b, ms[i].ref) {
				continue
			}
			e := cdEntry{Mod: m.Name, Present: err == nil, Len: len(b), RefLen: len(ms[i].ref), Class: "torn-mix"}
			switch {
			case err != nil:
				e.Class = "absent"
			case bytes.HasPrefix(ms[i].ref, b):
				e.Class = "truncated-prefix"
			default:
				for k := range j.Mods {
					if k != i && bytes.Equal(b, ms[k].ref) {
						e.Class = "entry-of-another-module"
						e.Mod += " (file holds the entry of " + j.Mods[k].Name + ")"
					}
				}
				for e.FirstAt < len(b) && e.FirstAt < len(ms[i].ref) && b[e.FirstAt] == ms[i].ref[e.FirstAt] {
					e.FirstAt++
				}
			}
			rr.Bad = append(rr.Bad, e)
		}
		for name := range files {
			rr.Others = append(rr.Others, name)
		}
		// (2) a fresh cache object + runtime per module on the directory
		for i, m := range j.Mods {
			ro := compileAndRun(ms[i].wasm, dir, false)
			switch {
			case ro.CacheErr != "" || ro.CompileErr != "":
				rr.LoadErrs = append(rr.LoadErrs, m.Name+": "+ro.CacheErr+ro.CompileErr)
			case shaHex([]byte(ro.Trace)) != m.Want:
				if len(rr.LoadDiff) < 3 {
					rr.LoadDiff = append(rr.LoadDiff, m.Name+": "+core.Trunc(ro.Trace, 600))
				}
			}
		}
		o.Rounds = append(o.Rounds, rr)
	}
	return
}

// afterName drops the "<module>: " prefix of a child's error line.
func afterName(s string) string {
	for i := 0; i+1 < len(s); i++ {
		if s[i] == ':' && s[i+1] == ' ' {
			return s[i+2:]
		}
	}
	return s
}

func (d *driver) phaseConcDiff() {
	c := d.c
	t0 := time.Now()
	if len(d.fam) < 8 {
		c.Inconclusive("concdiff-family-modules-missing")
		return
	}
	rounds := c.N(4, 30)
	rng := core.NewRng(c.Seed, 1304)
	byName := map[string]*modInfo{}
	for _, m := range append(append([]*modInfo{}, d.mods...), d.fam...) {
		byName[m.Name] = m
	}
	// group A: 16 same-size modules; group B: mixed sizes (8 family + 8 others, small to large)
	groupA := append([]*modInfo{}, d.fam...)
	if len(groupA) > 16 {
		groupA = groupA[:16]
	}
	groupB := append([]*modInfo{}, d.fam[:8]...)
	var others []*modInfo
	for _, m := range d.mods {
		if m.L.CodeLen > 0 && len(m.Entry) < 40000 && m.Kind != "dwarf" {
			others = append(others, m)
		}
	}
	for len(groupB) < 16 && len(others) > 0 {
		k := rng.Intn(len(others))
		groupB = append(groupB, others[k])
		others = append(others[:k], others[k+1:]...)
	}
	type cdCase struct {
		group  string
		mods   []*modInfo
		shared string
		dirs   []string
	}
	var ccs []cdCase
	var cases []json.RawMessage
	for gi, g := range [][]*modInfo{groupA, groupB} {
		for _, shared := range []string{"one-runtime", "runtimes-sharing-cache"} {
			cc := cdCase{group: []string{"same-size", "mixed-size"}[gi], mods: g, shared: shared}
			for r := 0; r < rounds; r++ {
				dd := d.newDir("concdiff")
				os.MkdirAll(dd, 0o755)
				cc.dirs = append(cc.dirs, dd)
			}
			var jm []cdMod
			for _, m := range g {
				jm = append(jm, cdMod{Name: m.Name, Wasm: m.Wasm, Key: m.Key, Ref: m.EntryPath, Want: m.Want})
			}
			ccs = append(ccs, cc)
			cases = append(cases, core.J(cdJob{Mods: jm, Dirs: cc.dirs, Sub: g[0].Sub, Shared: shared, Seed: rng.U64()}))
		}
	}
	res := core.RunCases(c, "concdiff", cases, core.ChildOpts{Batch: 1, Par: 4, Procs: 8, TimeoutS: 1800})
	var useCases []json.RawMessage
	var useJobs []useJob
	var useExps []useExpect
	sampled := false
	for i, r := range res {
		cc := ccs[i]
		var names []string
		for _, m := range cc.mods {
			names = append(names, m.Name)
		}
		if r.Crash != nil {
			if r.Crash.Kind == "timeout" {
				c.Inconclusive("watchdog:concdiff")
			} else {
				c.Violate("conc-different-modules:process-died:"+r.Crash.Kind+":"+firstWords(r.Crash.Detail, 4), fmt.Sprintf("%s modules via %s: %s", cc.group, cc.shared, r.Crash.Detail),
					map[string]any{"modules": names, "shared": cc.shared, "crash": r.Crash})
			}
			continue
		}
		var o cdOut
		if err := json.Unmarshal(r.Out, &o); err != nil || o.Err != "" || len(o.Rounds) != len(cc.dirs) {
			c.Inconclusive("bad-child-output:concdiff")
			continue
		}
		replay := fmt.Sprintf("one wazero.NewCompilationCacheWithDir(dir); %s; %d goroutines released together, each CompileModule's its own module (harness props/c13/modules.go: names in 'modules'); compare every file dir/<version dir>/<key> with the entry a one-module process writes for that module; then load each module through a fresh cache+runtime on dir", cc.shared, len(cc.mods))
		for ri, rr := range o.Rounds {
			wit := map[string]any{"modules": names, "group": cc.group, "shared": cc.shared, "round": ri, "observed": rr, "replay": replay}
			if rr.SetupErr != "" {
				c.Inconclusive("concdiff-setup-error")
				continue
			}
			d.evals++
			c.Count("concdiff_rounds", 1)
			c.Count("concdiff_rounds:"+cc.group+":"+cc.shared, 1)
			c.Count("concdiff_adds", int64(rr.Adds))
			c.Count("concdiff_entries_compared", int64(len(cc.mods)))
			c.Count("entries_compared", int64(len(cc.mods)))
			c.Count("concdiff_fresh_loads", int64(len(cc.mods)))
			if rr.MaxInFlight >= 2 {
				c.Count("concdiff_rounds_with_overlapping_copies", 1)
			}
			c.Distinct("concdiff_max_entries_in_flight", fmt.Sprint(rr.MaxInFlight))
			c.Distinct("cases", fmt.Sprintf("concdiff|%s|%s|%d", cc.group, cc.shared, ri))
			for _, e := range rr.CompileErrs {
				c.Violate("conc-different-modules:compile-error:"+errClass(afterName(e)), fmt.Sprintf("%s modules via %s, round %d: CompileModule failed: %s", cc.group, cc.shared, ri, core.Trunc(e, 300)), wit)
			}
			for _, b := range rr.Bad {
				c.Violate("conc-different-modules:entry-differs-from-sequential-reference:"+b.Class,
					fmt.Sprintf("%s modules via %s, round %d: entry file of %s has %d bytes, first difference at byte %d; the one-module reference entry has %d bytes", cc.group, cc.shared, ri, b.Mod, b.Len, b.FirstAt, b.RefLen), wit)
			}
			for _, e := range rr.LoadErrs {
				c.Violate("conc-different-modules:later-load-error:"+errClass(afterName(e)), fmt.Sprintf("%s modules via %s, round %d: a fresh cache+runtime on the directory: %s", cc.group, cc.shared, ri, core.Trunc(e, 300)), wit)
			}
			if len(rr.LoadDiff) > 0 {
				c.Violate("conc-different-modules:later-load-behaves-differently", fmt.Sprintf("%s modules via %s, round %d: served from the cache directory, %s", cc.group, cc.shared, ri, core.Trunc(rr.LoadDiff[0], 300)), wit)
			}
			for _, name := range rr.Others {
				c.Count("concdiff_leftover_files", 1)
				if len(name) < 4 || name[len(name)-4:] != ".tmp" {
					c.Violate("conc-different-modules:unexpected-file-name", fmt.Sprintf("%q", name), wit)
				}
			}
			if !sampled {
				sampled = true
				c.Sample(map[string]any{"what": "concurrent compilation of different modules, one shared cache", "modules": names, "via": cc.shared, "round": ri,
					"adds": rr.Adds, "max_entries_being_copied_at_once": rr.MaxInFlight, "entries_differing": len(rr.Bad), "load_errors": len(rr.LoadErrs)})
			}
			// a fresh PROCESS for the first round of every configuration
			if ri == 0 {
				keys := map[string]bool{}
				for _, m := range cc.mods {
					keys[m.Key] = true
				}
				for _, m := range cc.mods {
					uj := useJob{Mod: m.Name, Wasm: m.Wasm, Dir: cc.dirs[ri], Sub: m.Sub, Key: m.Key, Want: m.Want, Rounds: 1, Tag: fmt.Sprintf("directory filled by %d goroutines compiling different modules (%s)", len(cc.mods), cc.shared)}
					useJobs = append(useJobs, uj)
					useCases = append(useCases, core.J(uj))
					useExps = append(useExps, useExpect{kind: "conc-different-modules", param: "fresh-process", mod: byName[m.Name], others: keys})
				}
			}
		}
	}
	ures := core.RunCases(c, "use", useCases, core.ChildOpts{Batch: 8, TimeoutS: 600})
	for i, r := range ures {
		d.decideUse(useExps[i], useJobs[i], r)
	}
	for _, cc := range ccs {
		for _, dd := range cc.dirs {
			os.RemoveAll(dd)
		}
	}
	if c.Counter("concdiff_rounds") > 0 && c.Counter("concdiff_rounds_with_overlapping_copies") == 0 {
		c.Inconclusive("concdiff-copies-never-overlapped")
	}
	c.Extra("concurrency_different_modules", map[string]any{"goroutines_per_round": 16, "rounds_per_configuration": rounds,
		"configurations":     []string{"same-size x one-runtime", "same-size x runtimes-sharing-cache", "mixed-size x one-runtime", "mixed-size x runtimes-sharing-cache"},
		"family_entry_bytes": len(d.fam[0].Entry), "phase_s": time.Since(t0).Seconds()})
}
