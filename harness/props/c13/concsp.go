package c13

// Same-process concurrent writers: G goroutines, each with its OWN
// wazero.NewCompilationCacheWithDir(dir) + compiler runtime on the same fresh
// directory, are released together to CompileModule the same module, while a
// reader goroutine polls the final name. (The multi-process phase cannot see
// defects keyed on the process, e.g. a temp file named after the pid.)

import (
	"bytes"
	"context"
	"encoding/json"
	"fmt"
	"io"
	"os"
	"path/filepath"
	"runtime"
	"strings"
	"sync"
	"sync/atomic"
	"time"

	"github.com/tetratelabs/wazero"
	"github.com/tetratelabs/wazero/internal/verifhook"
	"github.com/tetratelabs/wazero/verifharness/core"
)

type spJob struct {
	Mod  string   `json:"mod"`
	Wasm string   `json:"wasm"`
	Dirs []string `json:"dirs"` // one fresh cache directory per round
	G    int      `json:"g"`
	Sub  string   `json:"sub"`
	Key  string   `json:"key"`
	Ref  string   `json:"ref"`
	Want string   `json:"want"`
}

type spRound struct {
	SetupErrs    []string `json:"setup_errs,omitempty"`
	Errs         []string `json:"errs,omitempty"`       // CompileModule errors
	TraceDiff    []string `json:"trace_diff,omitempty"` // behaviour of a writer's own compiled module differs
	Partial      []string `json:"partial,omitempty"`    // reader: content under the final name that is not the complete entry
	Reads        int      `json:"reads"`
	Absent       int      `json:"absent"`
	ReadErrs     []string `json:"read_errs,omitempty"`
	Adds         int      `json:"adds"` // writers that reached fileCache.Add
	FinalPresent bool     `json:"final_present"`
	FinalSame    bool     `json:"final_same"`
	FinalLen     int      `json:"final_len"`
	Others       []string `json:"others,omitempty"` // other files left in the directory
}

type spOut struct {
	Err    string    `json:"err,omitempty"`
	Rounds []spRound `json:"rounds"`
}

// yieldReader hands the entry to io.Copy in small pieces and yields between
// them so that the write windows of the goroutines overlap.
type yieldReader struct{ r io.Reader }

func (y *yieldReader) Read(p []byte) (int, error) {
	if len(p) > 256 {
		p = p[:256]
	}
	runtime.Gosched()
	return y.r.Read(p)
}

func doConcSP(j spJob) (o spOut) {
	wasm, err := os.ReadFile(j.Wasm)
	if err != nil {
		o.Err = err.Error()
		return
	}
	ref, err := os.ReadFile(j.Ref)
	if err != nil {
		o.Err = err.Error()
		return
	}
	var adds int32
	verifhook.SetHandlers(func(name string) {
		if name == "filecache.add.tmp-created" {
			atomic.AddInt32(&adds, 1)
		}
	}, func(name string, r io.Reader) io.Reader {
		if name == copyPoint {
			return &yieldReader{r: r}
		}
		return r
	})
	defer verifhook.SetHandlers(nil, nil)
	ctx := context.Background()
	for r, dir := range j.Dirs {
		var rr spRound
		atomic.StoreInt32(&adds, 0)
		final := filepath.Join(dir, j.Sub, j.Key)
		var mu sync.Mutex
		var ready, done sync.WaitGroup
		start := make(chan struct{})
		var writersDone int32
		for g := 0; g < j.G; g++ {
			ready.Add(1)
			done.Add(1)
			go func(g int) {
				defer done.Done()
				cache, err := wazero.NewCompilationCacheWithDir(dir)
				if err != nil {
					mu.Lock()
					rr.SetupErrs = append(rr.SetupErrs, err.Error())
					mu.Unlock()
					ready.Done()
					return
				}
				defer cache.Close(ctx)
				rt := wazero.NewRuntimeWithConfig(ctx, wazero.NewRuntimeConfigCompiler().WithCompilationCache(cache))
				defer rt.Close(ctx)
				if err := prepareRuntime(ctx, rt, wasm); err != nil {
					mu.Lock()
					rr.SetupErrs = append(rr.SetupErrs, err.Error())
					mu.Unlock()
					ready.Done()
					return
				}
				ready.Done()
				<-start
				cm, err := rt.CompileModule(ctx, wasm)
				if err != nil {
					mu.Lock()
					rr.Errs = append(rr.Errs, fmt.Sprintf("goroutine %d: %s", g, cleanErr(err)))
					mu.Unlock()
					return
				}
				if tr := runScript(ctx, rt, cm); shaHex([]byte(tr)) != j.Want {
					mu.Lock()
					if len(rr.TraceDiff) < 2 {
						rr.TraceDiff = append(rr.TraceDiff, fmt.Sprintf("goroutine %d: %s", g, core.Trunc(tr, 4000)))
					}
					mu.Unlock()
				}
			}(g)
		}
		// reader
		var rdone sync.WaitGroup
		rdone.Add(1)
		go func() {
			defer rdone.Done()
			<-start
			for {
				fin := atomic.LoadInt32(&writersDone) == 1
				b, err := os.ReadFile(final)
				switch {
				case err == nil && bytes.Equal(b, ref):
					rr.Reads++
				case err == nil:
					if len(rr.Partial) < 4 {
						rr.Partial = append(rr.Partial, fmt.Sprintf("round %d: read %d bytes under the final name (complete entry has %d; prefix=%v)", r, len(b), len(ref), bytes.HasPrefix(ref, b)))
					}
				case os.IsNotExist(err):
					rr.Absent++
				default:
					if len(rr.ReadErrs) < 3 {
						rr.ReadErrs = append(rr.ReadErrs, err.Error())
					}
				}
				if fin {
					return
				}
				runtime.Gosched()
			}
		}()
		ready.Wait()
		close(start)
		done.Wait()
		atomic.StoreInt32(&writersDone, 1)
		rdone.Wait()
		rr.Adds = int(atomic.LoadInt32(&adds))
		if b, err := os.ReadFile(final); err == nil {
			rr.FinalPresent, rr.FinalLen, rr.FinalSame = true, len(b), bytes.Equal(b, ref)
		}
		for name := range listDir(filepath.Join(dir, j.Sub)) {
			if name != j.Key {
				rr.Others = append(rr.Others, name)
			}
		}
		o.Rounds = append(o.Rounds, rr)
	}
	return
}

// errClass: a stable class of a CompileModule error text (paths and numbers removed).
func errClass(s string) string {
	if i := strings.Index(s, ": "); i >= 0 && strings.HasPrefix(s, "goroutine ") {
		s = s[i+2:]
	}
	switch {
	case strings.Contains(s, "rename") && strings.Contains(s, "no such file"):
		return "add-rename-ENOENT"
	case strings.Contains(s, "no such file"):
		return "ENOENT"
	case strings.Contains(s, "compilationcache:"):
		f := strings.Fields(stripNumbers(s))
		if len(f) > 5 {
			f = f[:5]
		}
		return "entry-rejected:" + strings.Join(f[1:], "_")
	}
	var out []string
	for _, w := range strings.Fields(stripNumbers(s)) {
		if strings.Contains(w, "/") {
			w = "PATH"
		}
		out = append(out, w)
		if len(out) == 5 {
			break
		}
	}
	return strings.Join(out, "_")
}

func (d *driver) phaseConcSP() {
	c := d.c
	rounds := c.N(6, 40)
	prefer := []string{"manyfuncs", "spectest-left-to-right.0", "dwarf-zig-cc", "const42", "longfunc", "spectest-local_tee.0"}
	if !c.Quick() {
		prefer = append(prefer, "dwarf-tinygo", "memory")
	}
	nmods := c.N(4, 8)
	var pick []*modInfo
	for _, n := range prefer {
		for _, m := range d.mods {
			if m.Name == n && len(pick) < nmods {
				pick = append(pick, m)
			}
		}
	}
	if len(pick) == 0 {
		c.Inconclusive("concsp-no-modules")
		return
	}
	gs := []int{2, 4, 8}
	type spCase struct {
		m    *modInfo
		g    int
		dirs []string
	}
	var scs []spCase
	var cases []json.RawMessage
	for _, m := range pick {
		for _, g := range gs {
			sc := spCase{m: m, g: g}
			for r := 0; r < rounds; r++ {
				dd := d.newDir("concsp")
				os.MkdirAll(dd, 0o755)
				sc.dirs = append(sc.dirs, dd)
			}
			scs = append(scs, sc)
			cases = append(cases, core.J(spJob{Mod: m.Name, Wasm: m.Wasm, Dirs: sc.dirs, G: g, Sub: m.Sub, Key: m.Key, Ref: m.EntryPath, Want: m.Want}))
		}
	}
	t0 := time.Now()
	res := core.RunCases(c, "concsp", cases, core.ChildOpts{Batch: 1, Par: 4, Procs: 8, TimeoutS: 1800})
	var useCases []json.RawMessage
	var useJobs []useJob
	var useMods []*modInfo
	sampled := false
	for i, r := range res {
		sc := scs[i]
		m := sc.m
		if r.Crash != nil {
			if r.Crash.Kind == "timeout" {
				c.Inconclusive("watchdog:concsp")
			} else {
				c.Violate("conc-same-process:process-died:"+r.Crash.Kind+":"+firstWords(r.Crash.Detail, 4), fmt.Sprintf("module %s, %d goroutines: %s", m.Name, sc.g, r.Crash.Detail),
					map[string]any{"module": m.Name, "goroutines": sc.g, "crash": r.Crash, "module_and_entry": m.blob()})
			}
			continue
		}
		var o spOut
		if err := json.Unmarshal(r.Out, &o); err != nil || o.Err != "" || len(o.Rounds) != len(sc.dirs) {
			c.Inconclusive("bad-child-output:concsp")
			continue
		}
		replay := fmt.Sprintf("in ONE process: %d goroutines, each with its own wazero.NewCompilationCacheWithDir(dir) + NewRuntimeConfigCompiler runtime on the same empty dir, released together to CompileModule the module; another goroutine polls os.ReadFile(dir/%s/%s)", sc.g, m.Sub, m.Key)
		for ri, rr := range o.Rounds {
			wit := map[string]any{"module": m.Name, "goroutines": sc.g, "round": ri, "observed": rr, "complete_len": len(m.Entry), "replay": replay, "module_and_entry": m.blob()}
			if len(rr.SetupErrs) > 0 {
				c.Inconclusive("concsp-setup-error")
				c.Distinct("concsp_setup_errors", core.Trunc(rr.SetupErrs[0], 120))
				continue
			}
			d.evals++
			c.Count("concsp_rounds", 1)
			c.Count(fmt.Sprintf("concsp_rounds_G%d", sc.g), 1)
			c.Count("concsp_writer_adds", int64(rr.Adds))
			if rr.Adds >= 2 {
				c.Count("concsp_rounds_with_2plus_adds", 1)
			}
			c.Count("concsp_reader_complete_reads", int64(rr.Reads))
			c.Count("concsp_reader_absent_polls", int64(rr.Absent))
			c.Count("entries_compared", 1)
			c.Distinct("cases", fmt.Sprintf("concsp|%s|G%d|%d", m.Name, sc.g, ri))
			if len(rr.Partial) > 0 {
				c.Violate("conc-same-process:reader-saw-partial-entry-under-final-name", fmt.Sprintf("module %s, %d goroutines: %v", m.Name, sc.g, rr.Partial), wit)
			}
			for _, e := range rr.Errs {
				// engine.CompileModule returns the error of fileCache.Add; nothing documents that concurrent
				// compilation of one module may fail (cache.go only says all of them may compile)
				c.Violate("conc-same-process:compile-error:"+errClass(e), fmt.Sprintf("module %s, %d goroutines, round %d: CompileModule failed: %s", m.Name, sc.g, ri, core.Trunc(e, 300)), wit)
			}
			if len(rr.TraceDiff) > 0 {
				c.Violate("conc-same-process:writer-behaviour-differs", fmt.Sprintf("module %s, %d goroutines, round %d: %s", m.Name, sc.g, ri, firstDiff(m.Trace, strings.SplitN(rr.TraceDiff[0], ": ", 2)[1])), wit)
			}
			if !rr.FinalPresent || !rr.FinalSame {
				c.Violate("conc-same-process:final-entry-differs", fmt.Sprintf("module %s, %d goroutines, round %d: after all writers returned the entry is present=%v len=%d (complete entry: %d bytes)", m.Name, sc.g, ri, rr.FinalPresent, rr.FinalLen, len(m.Entry)), wit)
			}
			for _, name := range rr.Others {
				c.Count("concsp_leftover_files", 1)
				if !strings.HasSuffix(name, ".tmp") {
					c.Violate("conc-same-process:unexpected-file-name", fmt.Sprintf("module %s: %q", m.Name, name), wit)
				}
			}
			if len(rr.ReadErrs) > 0 {
				c.Distinct("concsp_reader_errors", core.Trunc(rr.ReadErrs[0], 120))
			}
			if !sampled && sc.g == 4 {
				sampled = true
				c.Sample(map[string]any{"what": "same-process concurrent writers", "module": m.Name, "goroutines": sc.g, "round": ri, "writers_that_reached_Add": rr.Adds,
					"reader_complete_reads": rr.Reads, "reader_absent_polls": rr.Absent, "final_entry_identical": rr.FinalSame})
			}
			uj := useJob{Mod: m.Name, Wasm: m.Wasm, Dir: sc.dirs[ri], Sub: m.Sub, Key: m.Key, Want: m.Want, Rounds: 1, Cleanup: true, Tag: fmt.Sprintf("directory left by %d same-process writers, round %d", sc.g, ri)}
			useJobs = append(useJobs, uj)
			useCases = append(useCases, core.J(uj))
			useMods = append(useMods, m)
		}
	}
	// a fresh process must work with what the writers left
	ures := core.RunCases(c, "use", useCases, core.ChildOpts{Batch: 8, TimeoutS: 600})
	for i, r := range ures {
		d.decideUse(useExpect{kind: "conc-same-process", param: "after-writers", mod: useMods[i]}, useJobs[i], r)
	}
	for _, sc := range scs {
		for _, dd := range sc.dirs {
			os.RemoveAll(dd)
		}
	}
	if c.Counter("concsp_rounds") > 0 && c.Counter("concsp_rounds_with_2plus_adds") == 0 {
		c.Inconclusive("concsp-writers-never-overlapped")
	}
	var names []string
	for _, m := range pick {
		names = append(names, fmt.Sprintf("%s(entry=%dB)", m.Name, len(m.Entry)))
	}
	c.Extra("concurrency_same_process", map[string]any{"goroutine_counts": gs, "rounds_per_module_and_count": rounds, "modules": names,
		"each_writer": "own NewCompilationCacheWithDir + own compiler runtime, same directory", "phase_s": time.Since(t0).Seconds()})
}
