package c13

import (
	"bytes"
	"context"
	"encoding/json"
	"fmt"
	"io"
	"math"
	"os"
	"path/filepath"
	"reflect"
	"runtime"
	"sort"
	"strings"
	"sync"
	"syscall"
	"time"

	"github.com/tetratelabs/wazero"
	"github.com/tetratelabs/wazero/api"
	"github.com/tetratelabs/wazero/imports/wasi_snapshot_preview1"
	"github.com/tetratelabs/wazero/internal/verifhook"
)

// ---------------------------------------------------------------------------
// the "script": what is done with a compiled module, and its canonical trace

func cleanErr(err error) string {
	s := err.Error()
	if i := strings.Index(s, "Go runtime stack trace:"); i >= 0 {
		s = s[:i]
	}
	if len(s) > 4000 {
		s = s[:4000]
	}
	return s
}

var argSets = [2]struct {
	i32, i64 uint64
	f32      float32
	f64      float64
}{{3, 5, 1.5, 2.5}, {1, 2, -0.5, 100.25}}

func argsFor(def api.FunctionDefinition, set int) []uint64 {
	var out []uint64
	a := argSets[set]
	for _, t := range def.ParamTypes() {
		switch t {
		case api.ValueTypeI32:
			out = append(out, a.i32)
		case api.ValueTypeI64:
			out = append(out, a.i64)
		case api.ValueTypeF32:
			out = append(out, uint64(math.Float32bits(a.f32)))
		case api.ValueTypeF64:
			out = append(out, math.Float64bits(a.f64))
		case 0x7b: // v128: two 64-bit halves
			out = append(out, a.i64, a.i32)
		default:
			out = append(out, 0)
		}
	}
	return out
}

const maxExportsCalled = 40

func prepareRuntime(ctx context.Context, rt wazero.Runtime, wasm []byte) error {
	if bytes.Contains(wasm, []byte("wasi_snapshot_preview1")) {
		if _, err := wasi_snapshot_preview1.Instantiate(ctx, rt); err != nil {
			return err
		}
	}
	if bytes.Contains(wasm, []byte("\x03env")) {
		_, err := rt.NewHostModuleBuilder("env").
			NewFunctionBuilder().WithFunc(func(x uint32) uint32 { return x + 1000 }).Export("h").
			NewFunctionBuilder().WithFunc(func(a uint64, b float64) float64 { return float64(a) * b }).Export("h2").
			Instantiate(ctx)
		if err != nil {
			return err
		}
	}
	return nil
}

// runScript instantiates cm and calls every exported function (sorted, first
// 40) with two fixed argument sets; the trace holds results / error texts, a
// digest of the memory and the exported globals g0..g7.
func runScript(ctx context.Context, rt wazero.Runtime, cm wazero.CompiledModule) string {
	var sb strings.Builder
	mod, err := rt.InstantiateModule(ctx, cm, wazero.NewModuleConfig().WithName("guest").WithStartFunctions())
	if err != nil {
		return "instantiate: " + cleanErr(err)
	}
	defer mod.Close(ctx)
	defs := cm.ExportedFunctions()
	names := make([]string, 0, len(defs))
	for n := range defs {
		names = append(names, n)
	}
	sort.Strings(names)
	if len(names) > maxExportsCalled {
		names = names[:maxExportsCalled]
	}
	for _, n := range names {
		fn := mod.ExportedFunction(n)
		if fn == nil {
			fmt.Fprintf(&sb, "%s: missing\n", n)
			continue
		}
		for set := 0; set < 2; set++ {
			args := argsFor(defs[n], set)
			res, err := fn.Call(ctx, args...)
			if err != nil {
				fmt.Fprintf(&sb, "%s%x -> error %s\n", n, args, cleanErr(err))
			} else {
				fmt.Fprintf(&sb, "%s%x -> %x\n", n, args, res)
			}
			if len(args) == 0 && err == nil && len(res) > 0 {
				break // pure constant functions: once
			}
		}
	}
	if mem := mod.Memory(); mem != nil && !reflect.ValueOf(mem).IsNil() { // Memory() of a memory-less module is a typed nil
		sz := mem.Size()
		if b, ok := mem.Read(0, sz); ok {
			fmt.Fprintf(&sb, "memory %d %s\n", sz, shaHex(b)[:16])
		} else {
			fmt.Fprintf(&sb, "memory %d unreadable\n", sz)
		}
	}
	for i := 0; i < 8; i++ {
		if g := mod.ExportedGlobal(fmt.Sprintf("g%d", i)); g != nil {
			fmt.Fprintf(&sb, "g%d=%x\n", i, g.Get())
		}
	}
	return sb.String()
}

type runOut struct {
	CacheErr   string
	CompileErr string
	Trace      string
}

// compileAndRun: a fresh cache object (dir == "" -> none) and a fresh runtime.
func compileAndRun(wasm []byte, dir string, interp bool) (o runOut) {
	ctx := context.Background()
	cfg := wazero.NewRuntimeConfigCompiler()
	if interp {
		cfg = wazero.NewRuntimeConfigInterpreter()
	}
	if dir != "" {
		cache, err := wazero.NewCompilationCacheWithDir(dir)
		if err != nil {
			o.CacheErr = err.Error()
			return
		}
		defer cache.Close(ctx)
		cfg = cfg.WithCompilationCache(cache)
	}
	rt := wazero.NewRuntimeWithConfig(ctx, cfg)
	defer rt.Close(ctx)
	if err := prepareRuntime(ctx, rt, wasm); err != nil {
		o.CompileErr = "prepare: " + err.Error()
		return
	}
	cm, err := rt.CompileModule(ctx, wasm)
	if err != nil {
		o.CompileErr = cleanErr(err)
		if o.CompileErr == "" {
			o.CompileErr = "(empty error text)"
		}
		return
	}
	o.Trace = runScript(ctx, rt, cm)
	return
}

// ---------------------------------------------------------------------------
// modes

type refJob struct {
	Mod  string `json:"mod"`
	Wasm string `json:"wasm"`
	Dir  string `json:"dir"` // private directory of this module
}

type refOut struct {
	Unusable    string   `json:"unusable,omitempty"`
	Trace       string   `json:"trace"`
	MissDiffers string   `json:"miss_differs,omitempty"` // trace of the cache-miss run when it differs from the no-cache run
	HitDiffers  string   `json:"hit_differs,omitempty"`  // trace of the cache-hit run when it differs
	Sub         string   `json:"sub"`
	Key         string   `json:"key"`
	Entry       string   `json:"entry"` // path
	Entry2Same  bool     `json:"entry2_same"`
	InterpFiles int      `json:"interp_files"`
	InterpErr   string   `json:"interp_err,omitempty"`
	Points      []string `json:"points"`
	OtherFiles  []string `json:"other_files,omitempty"`
}

func findSub(dir string) (string, error) {
	ents, err := os.ReadDir(dir)
	if err != nil {
		return "", err
	}
	var subs []string
	for _, e := range ents {
		if e.IsDir() && strings.HasPrefix(e.Name(), "wazero-") {
			subs = append(subs, e.Name())
		}
	}
	if len(subs) != 1 {
		return "", fmt.Errorf("expected one wazero-* directory in %s, found %v", dir, subs)
	}
	return subs[0], nil
}

func doRef(j refJob) (o refOut) {
	wasm, err := os.ReadFile(j.Wasm)
	if err != nil {
		o.Unusable = "read: " + err.Error()
		return
	}
	base := compileAndRun(wasm, "", false)
	if base.CompileErr != "" {
		o.Unusable = "compile: " + base.CompileErr
		return
	}
	if strings.HasPrefix(base.Trace, "instantiate: ") && !strings.Contains(base.Trace, "wasm error") {
		// e.g. unresolved imports: nothing of the compiled code would ever run
		o.Unusable = base.Trace
		return
	}
	if again := compileAndRun(wasm, "", false); again.Trace != base.Trace {
		o.Unusable = "unstable-trace"
		return
	}
	o.Trace = base.Trace
	// record the hook points of one uncrashed Add
	var mu sync.Mutex
	verifhook.SetHandlers(func(name string) {
		if strings.HasPrefix(name, "filecache.") { // other properties' points share the handler
			mu.Lock()
			o.Points = append(o.Points, name)
			mu.Unlock()
		}
	}, func(name string, r io.Reader) io.Reader {
		mu.Lock()
		o.Points = append(o.Points, name)
		mu.Unlock()
		return r
	})
	d1 := filepath.Join(j.Dir, "ref")
	miss := compileAndRun(wasm, d1, false)
	verifhook.SetHandlers(nil, nil)
	if miss.CacheErr != "" || miss.CompileErr != "" {
		o.Unusable = "cache compile: " + miss.CacheErr + miss.CompileErr
		return
	}
	if miss.Trace != base.Trace {
		o.MissDiffers = miss.Trace
	}
	hit := compileAndRun(wasm, d1, false)
	if hit.CompileErr != "" {
		o.HitDiffers = "compile error: " + hit.CompileErr
	} else if hit.Trace != base.Trace {
		o.HitDiffers = hit.Trace
	}
	sub, err := findSub(d1)
	if err != nil {
		o.Unusable = err.Error()
		return
	}
	o.Sub = sub
	for name := range listDir(filepath.Join(d1, sub)) {
		if isHexKey(name) && o.Key == "" {
			o.Key = name
		} else {
			o.OtherFiles = append(o.OtherFiles, name)
		}
	}
	if o.Key == "" {
		o.Unusable = "no entry written"
		return
	}
	o.Entry = filepath.Join(d1, sub, o.Key)
	// same process, second directory
	d2 := filepath.Join(j.Dir, "ref2")
	compileAndRun(wasm, d2, false)
	e1, _ := os.ReadFile(o.Entry)
	e2, err := os.ReadFile(filepath.Join(d2, sub, o.Key))
	o.Entry2Same = err == nil && bytes.Equal(e1, e2)
	// interpreter + cache directory: must not use the file cache
	d3 := filepath.Join(j.Dir, "interp")
	in := compileAndRun(wasm, d3, true)
	o.InterpErr = in.CacheErr + in.CompileErr
	if s3, err := findSub(d3); err == nil {
		o.InterpFiles = len(listDir(filepath.Join(d3, s3)))
	}
	return
}

// --- write: compile with the cache and die at the selected point

type writeJob struct {
	Mod    string `json:"mod"`
	Wasm   string `json:"wasm"`
	Dir    string `json:"dir"`
	Point  string `json:"point"` // hook point name, or "filecache.add.copy" with K
	K      int    `json:"k"`
	Marker string `json:"marker"`
}

type writeOut struct {
	Survived   bool   `json:"survived"`
	CompileErr string `json:"compile_err,omitempty"`
}

func dieAt(marker, what string) {
	os.WriteFile(marker, []byte(what), 0o644)
	syscall.Kill(os.Getpid(), syscall.SIGKILL)
	select {}
}

// killReader delivers exactly k bytes of r, then kills the process when more
// is asked for (everything delivered so far has been written by io.Copy).
type killReader struct {
	r         io.Reader
	k, done   int
	marker    string
	what      string
	chunk     int
	delivered []byte
}

func (kr *killReader) Read(p []byte) (int, error) {
	if kr.done >= kr.k {
		dieAt(kr.marker, kr.what)
	}
	n := kr.k - kr.done
	if n > len(p) {
		n = len(p)
	}
	if kr.chunk > 0 && n > kr.chunk {
		n = kr.chunk
	}
	m, err := io.ReadFull(kr.r, p[:n])
	kr.done += m
	if err == io.ErrUnexpectedEOF || err == io.EOF {
		// entry shorter than k: the point is unreachable for this k
		return m, io.EOF
	}
	return m, err
}

func doWrite(j writeJob) (o writeOut) {
	wasm, err := os.ReadFile(j.Wasm)
	if err != nil {
		o.CompileErr = "read: " + err.Error()
		return
	}
	what := j.Point
	if j.Point == "filecache.add.copy" {
		what = fmt.Sprintf("%s %d", j.Point, j.K)
		verifhook.SetHandlers(nil, func(name string, r io.Reader) io.Reader {
			if name != j.Point {
				return r
			}
			// odd k: deliver in 7-byte pieces so that many short writes precede the death
			chunk := 0
			if j.K%2 == 1 {
				chunk = 7
			}
			return &killReader{r: r, k: j.K, marker: j.Marker, what: what, chunk: chunk}
		})
	} else {
		verifhook.SetHandlers(func(name string) {
			if name == j.Point {
				dieAt(j.Marker, what)
			}
		}, nil)
	}
	ctx := context.Background()
	cache, err := wazero.NewCompilationCacheWithDir(j.Dir)
	if err != nil {
		o.CompileErr = "cache: " + err.Error()
		return
	}
	rt := wazero.NewRuntimeWithConfig(ctx, wazero.NewRuntimeConfigCompiler().WithCompilationCache(cache))
	_, err = rt.CompileModule(ctx, wasm)
	verifhook.SetHandlers(nil, nil)
	o.Survived = true
	if err != nil {
		o.CompileErr = cleanErr(err)
	}
	rt.Close(ctx)
	cache.Close(ctx)
	return
}

// --- use: a later process works with a (possibly damaged) directory

type useJob struct {
	Mod      string `json:"mod"`
	Wasm     string `json:"wasm"`
	Dir      string `json:"dir"`
	Sub      string `json:"sub"`
	Key      string `json:"key"`
	Prep     *prep  `json:"prep,omitempty"`
	Want     string `json:"want"` // sha of the base trace
	Rounds   int    `json:"rounds"`
	Cleanup  bool   `json:"cleanup,omitempty"`
	Tag      string `json:"tag,omitempty"` // parent's label (fault kind / parameters)
	OtherSub string `json:"other_sub,omitempty"`
}

type roundRes struct {
	CacheErr   string              `json:"cache_err,omitempty"`
	CompileErr string              `json:"compile_err,omitempty"`
	TraceOK    bool                `json:"trace_ok"`
	Trace      string              `json:"trace,omitempty"` // only when it differs
	Files      map[string]fileInfo `json:"files"`
}

type useOut struct {
	PrepErr string     `json:"prep_err,omitempty"`
	BadSha  string     `json:"bad_sha,omitempty"`
	BadLen  int        `json:"bad_len,omitempty"`
	Rounds  []roundRes `json:"rounds"`
}

func doUse(j useJob) (o useOut) {
	wasm, err := os.ReadFile(j.Wasm)
	if err != nil {
		o.PrepErr = "read: " + err.Error()
		return
	}
	if j.Cleanup {
		defer os.RemoveAll(j.Dir)
	}
	if j.Prep != nil {
		b, err := j.Prep.build()
		if err != nil {
			o.PrepErr = "prep: " + err.Error()
			return
		}
		o.BadSha, o.BadLen = shaHex(b), len(b)
		if err := os.MkdirAll(filepath.Join(j.Dir, j.Sub), 0o700); err != nil {
			o.PrepErr = err.Error()
			return
		}
		if err := os.WriteFile(filepath.Join(j.Dir, j.Sub, j.Key), b, 0o600); err != nil {
			o.PrepErr = err.Error()
			return
		}
	}
	for r := 0; r < j.Rounds; r++ {
		ro := compileAndRun(wasm, j.Dir, false)
		rr := roundRes{CacheErr: ro.CacheErr, CompileErr: ro.CompileErr}
		if ro.CacheErr == "" && ro.CompileErr == "" {
			if shaHex([]byte(ro.Trace)) == j.Want {
				rr.TraceOK = true
			} else {
				rr.Trace = ro.Trace
				if len(rr.Trace) > 20000 {
					rr.Trace = rr.Trace[:20000]
				}
			}
		}
		rr.Files = listDir(filepath.Join(j.Dir, j.Sub))
		o.Rounds = append(o.Rounds, rr)
	}
	return
}

// --- order: several modules through one cache object / runtime in a given order

type orderJob struct {
	Wasms []string `json:"wasms"`
	Dir   string   `json:"dir"`
}

type orderOut struct {
	Errs []string `json:"errs,omitempty"`
}

func doOrder(j orderJob) (o orderOut) {
	ctx := context.Background()
	cache, err := wazero.NewCompilationCacheWithDir(j.Dir)
	if err != nil {
		o.Errs = append(o.Errs, err.Error())
		return
	}
	defer cache.Close(ctx)
	rt := wazero.NewRuntimeWithConfig(ctx, wazero.NewRuntimeConfigCompiler().WithCompilationCache(cache))
	defer rt.Close(ctx)
	for _, p := range j.Wasms {
		wasm, err := os.ReadFile(p)
		if err != nil {
			o.Errs = append(o.Errs, err.Error())
			continue
		}
		if _, err := rt.CompileModule(ctx, wasm); err != nil {
			o.Errs = append(o.Errs, filepath.Base(p)+": "+cleanErr(err))
		}
	}
	return
}

// --- conc: 8 writer processes and one polling reader per round directory

type concJob struct {
	Role    string   `json:"role"` // writer | reader
	ID      int      `json:"id"`
	N       int      `json:"n"` // participants (writers + reader)
	Mod     string   `json:"mod"`
	Wasm    string   `json:"wasm"`
	Dirs    []string `json:"dirs"` // one cache directory per round
	Barrier string   `json:"barrier"`
	Sub     string   `json:"sub"`
	Key     string   `json:"key"`
	Ref     string   `json:"ref"` // path of the reference entry
	Want    string   `json:"want"`
}

type concOut struct {
	GaveUp      bool     `json:"gave_up,omitempty"`
	Rounds      int      `json:"rounds"`
	Errs        []string `json:"errs,omitempty"`
	TraceDiff   []string `json:"trace_diff,omitempty"`
	Reads       int      `json:"reads"`        // reader: successful complete reads
	Absent      int      `json:"absent"`       // reader: polls that found no entry
	Partial     []string `json:"partial"`      // reader: reads under the final name that were not the complete entry
	EarlyRounds int      `json:"early_rounds"` // reader: rounds in which the entry was seen before all writers were done
	WroteRounds int      `json:"wrote_rounds"` // writer: rounds in which this writer reached Add (hook seen)
	MissRounds  int      `json:"miss_rounds"`  // writer: rounds in which the final file was absent when the writer started
	ReadErrs    []string `json:"read_errs,omitempty"`
}

const barrierGiveUp = 180 * time.Second

// waitAll polls until every file names[i] exists (pacing only; giving up makes
// the case inconclusive).
func waitAll(names []string) bool {
	deadline := time.Now().Add(barrierGiveUp)
	for {
		all := true
		for _, n := range names {
			if _, err := os.Stat(n); err != nil {
				all = false
				break
			}
		}
		if all {
			return true
		}
		if time.Now().After(deadline) {
			return false
		}
		time.Sleep(200 * time.Microsecond)
	}
}

type chunkReader struct {
	r io.Reader
	n int
}

func (c *chunkReader) Read(p []byte) (int, error) {
	if len(p) > 512 {
		p = p[:512]
	}
	c.n++
	if c.n%4 == 0 {
		runtime.Gosched()
	}
	return c.r.Read(p)
}

func doConc(j concJob) (o concOut) {
	wasm, err := os.ReadFile(j.Wasm)
	if err != nil {
		o.Errs = append(o.Errs, err.Error())
		return
	}
	ref, err := os.ReadFile(j.Ref)
	if err != nil {
		o.Errs = append(o.Errs, err.Error())
		return
	}
	arrive := func(r int) []string {
		var l []string
		for i := 0; i < j.N; i++ {
			l = append(l, filepath.Join(j.Barrier, fmt.Sprintf("arrive-%d-%d", r, i)))
		}
		return l
	}
	done := func(r int) []string {
		var l []string
		for i := 0; i < j.N-1; i++ {
			l = append(l, filepath.Join(j.Barrier, fmt.Sprintf("done-%d-%d", r, i)))
		}
		return l
	}
	wrote := false
	if j.Role == "writer" {
		verifhook.SetHandlers(func(name string) {
			if name == "filecache.add.tmp-created" {
				wrote = true
			}
		}, func(name string, r io.Reader) io.Reader { return &chunkReader{r: r} })
		defer verifhook.SetHandlers(nil, nil)
	}
	for r, dir := range j.Dirs {
		os.WriteFile(filepath.Join(j.Barrier, fmt.Sprintf("arrive-%d-%d", r, j.ID)), nil, 0o644)
		if !waitAll(arrive(r)) {
			o.GaveUp = true
			return
		}
		final := filepath.Join(dir, j.Sub, j.Key)
		if j.Role == "writer" {
			wrote = false
			if _, err := os.Stat(final); err != nil {
				o.MissRounds++
			}
			ro := compileAndRun(wasm, dir, false)
			if ro.CacheErr != "" || ro.CompileErr != "" {
				o.Errs = append(o.Errs, fmt.Sprintf("round %d: %s%s", r, ro.CacheErr, ro.CompileErr))
			} else if shaHex([]byte(ro.Trace)) != j.Want {
				o.TraceDiff = append(o.TraceDiff, fmt.Sprintf("round %d: %s", r, ro.Trace))
			}
			if wrote {
				o.WroteRounds++
			}
			os.WriteFile(filepath.Join(j.Barrier, fmt.Sprintf("done-%d-%d", r, j.ID)), nil, 0o644)
		} else {
			dn := done(r)
			deadline := time.Now().Add(barrierGiveUp)
			seenEarly := false
			check := func() {
				b, err := os.ReadFile(final)
				switch {
				case err == nil && bytes.Equal(b, ref):
					o.Reads++
				case err == nil:
					if len(o.Partial) < 5 {
						o.Partial = append(o.Partial, fmt.Sprintf("round %d: read %d bytes under the final name (complete entry has %d; prefix=%v)", r, len(b), len(ref), bytes.HasPrefix(ref, b)))
					} else {
						o.Partial = append(o.Partial[:5], "…")
					}
				case os.IsNotExist(err):
					o.Absent++
				default:
					if len(o.ReadErrs) < 5 {
						o.ReadErrs = append(o.ReadErrs, err.Error())
					}
				}
			}
			for {
				all := true
				for _, n := range dn {
					if _, err := os.Stat(n); err != nil {
						all = false
						break
					}
				}
				before := o.Reads
				check()
				if !all && o.Reads > before {
					seenEarly = true
				}
				if all {
					break
				}
				if time.Now().After(deadline) {
					o.GaveUp = true
					return
				}
			}
			if seenEarly {
				o.EarlyRounds++
			}
		}
		o.Rounds++
	}
	return
}

func child(mode string, in json.RawMessage) any {
	switch mode {
	case "ref":
		var j refJob
		json.Unmarshal(in, &j)
		return doRef(j)
	case "write":
		var j writeJob
		json.Unmarshal(in, &j)
		return doWrite(j)
	case "use":
		var j useJob
		json.Unmarshal(in, &j)
		return doUse(j)
	case "order":
		var j orderJob
		json.Unmarshal(in, &j)
		return doOrder(j)
	case "conc":
		var j concJob
		json.Unmarshal(in, &j)
		return doConc(j)
	case "concdiff":
		var j cdJob
		json.Unmarshal(in, &j)
		return doConcDiff(j)
	case "fault":
		var j faultJob
		json.Unmarshal(in, &j)
		return doFault(j)
	case "concsp":
		var j spJob
		json.Unmarshal(in, &j)
		return doConcSP(j)
	}
	return map[string]string{"error": "unknown mode " + mode}
}
